(* ===================================================================== *)
(*  SV.Proofs.RandomProofs -- proofs about SV.Sched.Random                *)
(* ===================================================================== *)

From Coq Require Import NArith ZArith List Lia Bool ZifyN.
From SV Require Import Sched.Random.
Import ListNotations.
Local Open Scope N_scope.

(* (8.16 accepts one reference per Arguments command.) *)
Arguments N.add : simpl never.
Arguments N.sub : simpl never.
Arguments N.mul : simpl never.
Arguments N.eqb : simpl never.
Arguments N.ltb : simpl never.
Arguments N.leb : simpl never.
Arguments N.pow : simpl never.
Arguments N.div : simpl never.
Arguments N.modulo : simpl never.
Arguments N.shiftl : simpl never.
Arguments N.shiftr : simpl never.
Arguments N.lor : simpl never.
Arguments N.lxor : simpl never.
Arguments N.size : simpl never.
Arguments pcg_from_seed_u64 : simpl never.
Arguments pcg_next_u64 : simpl never.
Arguments pcg_next_u32 : simpl never.

(* ===================================================================== *)
(*  1. Pure arithmetic core of the acceptance test                        *)
(*     B = 2^W, P = 2^(lz n), Z = n*P = zone+1.                           *)
(* ===================================================================== *)

Lemma ceil_mul_lower (a n : N) : 0 < n -> a <= n * ((a + n - 1) / n).
Proof.
  intros Hn.
  pose proof (N.mul_succ_div_gt (a + n - 1) n ltac:(lia)) as H.
  rewrite N.mul_succ_r in H. lia.
Qed.

Lemma ceil_mul_upper (a n : N) : 0 < n -> n * ((a + n - 1) / n) <= a + n - 1.
Proof. intros Hn. apply N.mul_div_le. lia. Qed.

Lemma accept_core (B n P i v : N) :
  0 < n -> 1 <= P -> n * P < B ->
  (((v * n) mod B <= n * P - 1 /\ (v * n) / B = i)
   <-> ((i * B + n - 1) / n <= v /\ v < (i * B + n - 1) / n + P)).
Proof.
  intros Hn HP HZ.
  set (c := (i * B + n - 1) / n).
  pose proof (ceil_mul_lower (i * B) n Hn) as Hlo. fold c in Hlo.
  pose proof (ceil_mul_upper (i * B) n Hn) as Hup. fold c in Hup.
  assert (HB : B <> 0) by lia.
  split.
  - intros [Hr Hq].
    pose proof (N.div_mod (v * n) B HB) as Hdm. rewrite Hq in Hdm.
    split.
    + (* c <= v *)
      apply N.lt_succ_r. unfold c. apply N.div_lt_upper_bound; [lia|].
      rewrite N.mul_succ_r. lia.
    + (* v < c + P *)
      destruct (N.lt_ge_cases v (c + P)) as [|Hge]; [assumption|exfalso].
      pose proof (N.mul_le_mono_r _ _ n Hge) as Hm.
      rewrite N.mul_add_distr_r in Hm. lia.
  - intros [Hcv HvcP].
    assert (H1 : c * n <= v * n) by (apply N.mul_le_mono_r; assumption).
    assert (H2 : v * n <= (c + P - 1) * n) by (apply N.mul_le_mono_r; lia).
    assert (H3 : (c + P - 1) * n + n = c * n + P * n).
    { rewrite <- N.mul_add_distr_r.
      replace ((c + P - 1) * n + n) with ((c + P - 1 + 1) * n)
        by (rewrite (N.mul_add_distr_r _ 1 n); lia).
      f_equal. lia. }
    assert (Hq : (v * n) / B = i).
    { symmetry. apply (N.div_unique (v * n) B i (v * n - B * i)); lia. }
    split; [|assumption].
    assert (Hr : (v * n) mod B = v * n - B * i).
    { symmetry. apply (N.mod_unique (v * n) B i (v * n - B * i)); lia. }
    rewrite Hr. lia.
Qed.

Lemma interval_in_bounds (B n P i : N) :
  0 < n -> n * P < B -> i < n -> (i * B + n - 1) / n + P <= B.
Proof.
  intros Hn HZ Hi.
  assert (HPB : P <= B).
  { destruct (N.le_gt_cases P B) as [|H]; [assumption|exfalso].
    pose proof (N.mul_le_mono_l 1 n P ltac:(lia)).
    assert (P <= P * n) by (rewrite <- (N.mul_1_r P) at 1; apply N.mul_le_mono_l; lia).
    lia. }
  set (D := B - P).
  assert (HBD : B = D + P) by lia.
  enough ((i * B + n - 1) / n < D + 1) by lia.
  apply N.div_lt_upper_bound; [lia|].
  assert (H1 : (i + 1) * B <= n * B) by (apply N.mul_le_mono_r; lia).
  rewrite N.mul_add_distr_r in H1.
  assert (H2 : n * B = n * D + n * P) by (rewrite HBD at 1; apply N.mul_add_distr_l).
  rewrite N.mul_add_distr_l. lia.
Qed.

(* ===================================================================== *)
(*  2. leading_zeros / zone / accept at an arbitrary width w              *)
(* ===================================================================== *)

Lemma pow2_pos (a : N) : 1 <= 2 ^ a.
Proof. pose proof (N.pow_nonzero 2 a ltac:(lia)). lia. Qed.

Lemma lz_w_spec (w n : N) :
  1 <= n -> n < 2 ^ w ->
  n * 2 ^ (lz_w w n) < 2 ^ w /\ 2 ^ w <= 2 * (n * 2 ^ (lz_w w n)).
Proof.
  intros H1 Hw. unfold lz_w.
  rewrite N.size_log2 by lia.
  pose proof (N.log2_spec n ltac:(lia)) as [Hl Hu].
  pose proof (proj1 (N.log2_lt_pow2 n w ltac:(lia)) Hw) as Hlw.
  set (l := N.log2 n) in *.
  set (L := w - N.succ l).
  assert (Hwe : w = N.succ l + L) by lia.
  pose proof (pow2_pos L) as HL.
  assert (Hpw : 2 ^ w = 2 ^ N.succ l * 2 ^ L) by (rewrite Hwe at 1; apply N.pow_add_r).
  rewrite N.pow_succ_r' in Hpw.
  rewrite N.pow_succ_r' in Hu.
  split.
  - rewrite Hpw. apply N.mul_lt_mono_pos_r; lia.
  - rewrite Hpw. rewrite <- N.mul_assoc. apply N.mul_le_mono_l.
    apply N.mul_le_mono_r. assumption.
Qed.

Lemma zone_w_spec (w n : N) :
  1 <= n -> n < 2 ^ w -> zone_w w n = n * 2 ^ (lz_w w n) - 1.
Proof.
  intros H1 Hw. unfold zone_w.
  destruct (lz_w_spec w n H1 Hw) as [Hlt _].
  pose proof (pow2_pos (lz_w w n)) as HP.
  rewrite N.shiftl_mul_pow2.
  set (Z := n * 2 ^ lz_w w n) in *.
  assert (1 <= Z).
  { unfold Z. pose proof (N.mul_le_mono 1 n 1 (2 ^ lz_w w n) H1 HP). lia. }
  rewrite (N.mod_small Z) by assumption.
  symmetry. apply (N.mod_unique _ (2 ^ w) 1 (Z - 1)); lia.
Qed.

Lemma accept_w_spec (w n v : N) :
  1 <= n -> n < 2 ^ w -> v < 2 ^ w ->
  accept_w w n v =
  if (v * n) mod 2 ^ w <=? n * 2 ^ (lz_w w n) - 1
  then Some ((v * n) / 2 ^ w) else None.
Proof.
  intros H1 Hw Hv. unfold accept_w.
  rewrite zone_w_spec by assumption.
  set (B := 2 ^ w) in *.
  assert (HBB : 2 ^ (2 * w) = B * B).
  { replace (2 * w) with (w + w) by lia. apply N.pow_add_r. }
  assert (Hvn : v * n < B * B) by (apply N.mul_lt_mono; assumption).
  rewrite HBB, (N.mod_small (v * n)) by assumption.
  rewrite N.shiftr_div_pow2. fold B.
  rewrite (N.mod_small (v * n / B)); [reflexivity|].
  apply N.div_lt_upper_bound; lia.
Qed.

Lemma accept_w_interval (w n i v : N) :
  1 <= n -> n < 2 ^ w -> v < 2 ^ w ->
  (accept_w w n v = Some i
   <-> (ceil_div (i * 2 ^ w) n <= v /\ v < ceil_div (i * 2 ^ w) n + 2 ^ (lz_w w n))).
Proof.
  intros H1 Hw Hv.
  rewrite accept_w_spec by assumption.
  destruct (lz_w_spec w n H1 Hw) as [HZ _].
  pose proof (accept_core (2 ^ w) n (2 ^ lz_w w n) i v
                ltac:(lia) (pow2_pos _) HZ) as Hcore.
  unfold ceil_div. rewrite <- Hcore.
  destruct (N.leb_spec ((v * n) mod 2 ^ w) (n * 2 ^ lz_w w n - 1)) as [Hle|Hgt].
  - split.
    + intros E. injection E as E. split; assumption.
    + intros [_ E]. f_equal. assumption.
  - split.
    + intros E. discriminate E.
    + intros [Hle _]. lia.
Qed.

Lemma accept_w_interval_in_bounds (w n i : N) :
  1 <= n -> n < 2 ^ w -> i < n ->
  ceil_div (i * 2 ^ w) n + 2 ^ (lz_w w n) <= 2 ^ w.
Proof.
  intros H1 Hw Hi. destruct (lz_w_spec w n H1 Hw) as [HZ _].
  unfold ceil_div. apply interval_in_bounds; [lia|assumption|assumption].
Qed.

Lemma accept_w_lt (w n v i : N) :
  1 <= n -> n < 2 ^ w -> v < 2 ^ w -> accept_w w n v = Some i -> i < n.
Proof.
  intros H1 Hw Hv. rewrite accept_w_spec by assumption.
  destruct (_ <=? _); [|discriminate]. intros E. injection E as <-.
  apply N.div_lt_upper_bound; [lia|].
  apply N.mul_lt_mono_pos_r; lia.
Qed.

(* ===================================================================== *)
(*  3. The u32 instance used by SliceRandom::choose                       *)
(* ===================================================================== *)

Theorem accept_interval (n i v : N) :
  1 <= n -> n < 2 ^ 32 -> v < 2 ^ 32 ->
  (accept n v = Some i
   <-> (ceil_div (i * 2 ^ 32) n <= v /\ v < ceil_div (i * 2 ^ 32) n + 2 ^ (lz n))).
Proof. apply accept_w_interval. Qed.

Theorem accept_interval_in_bounds (n i : N) :
  1 <= n -> n < 2 ^ 32 -> i < n ->
  ceil_div (i * 2 ^ 32) n + 2 ^ (lz n) <= 2 ^ 32.
Proof. apply accept_w_interval_in_bounds. Qed.

(* The accepting draws for i are exactly { c_i + k | k < 2^(lz n) }:
   a bijection with [0, 2^(lz n)) for every i, all inside [0, 2^32).      *)
Theorem accept_offsets (n i : N) :
  1 <= n -> n < 2 ^ 32 -> i < n ->
  forall v, (v < 2 ^ 32 /\ accept n v = Some i)
            <-> exists k, k < 2 ^ (lz n) /\ v = ceil_div (i * 2 ^ 32) n + k.
Proof.
  intros H1 Hn Hi v.
  pose proof (accept_interval_in_bounds n i H1 Hn Hi) as Hb.
  split.
  - intros [Hv Ha]. apply accept_interval in Ha; try assumption.
    exists (v - ceil_div (i * 2 ^ 32) n). lia.
  - intros [k [Hk ->]].
    assert (Hv : ceil_div (i * 2 ^ 32) n + k < 2 ^ 32) by lia.
    split; [assumption|]. apply accept_interval; try assumption. lia.
Qed.

Theorem accept_positive (n i : N) :
  1 <= n -> n < 2 ^ 32 -> i < n ->
  exists v, v < 2 ^ 32 /\ accept n v = Some i.
Proof.
  intros H1 Hn Hi. exists (ceil_div (i * 2 ^ 32) n).
  apply accept_offsets; try assumption.
  exists 0. pose proof (pow2_pos (lz n)). lia.
Qed.

Theorem accept_lt (n v i : N) :
  1 <= n -> n < 2 ^ 32 -> v < 2 ^ 32 -> accept n v = Some i -> i < n.
Proof. apply accept_w_lt. Qed.

(* Each single draw is accepted with probability >= 1/2: the accepted
   draws number n * 2^(lz n) >= 2^31 out of 2^32.                         *)
Theorem accept_zone_half (n : N) :
  1 <= n -> n < 2 ^ 32 ->
  n * 2 ^ (lz n) < 2 ^ 32 /\ 2 ^ 32 <= 2 * (n * 2 ^ (lz n)).
Proof. apply lz_w_spec. Qed.

(* ===================================================================== *)
(*  4. Range facts for the PCG model                                      *)
(* ===================================================================== *)

Lemma mod_pow2_lt (a k : N) : a mod 2 ^ k < 2 ^ k.
Proof. apply N.mod_lt. apply N.pow_nonzero. lia. Qed.

Lemma rotr_lt (w x r : N) : rotr w x r < 2 ^ w.
Proof. unfold rotr. apply mod_pow2_lt. Qed.

Lemma pcg_next_u64_out_lt (st : N) : fst (pcg_next_u64 st) < 2 ^ 64.
Proof. unfold pcg_next_u64, output_xsl_rr. cbn [fst]. apply rotr_lt. Qed.

Lemma pcg_next_u64_state_lt (st : N) : snd (pcg_next_u64 st) < 2 ^ 128.
Proof. unfold pcg_next_u64. cbn [snd]. apply mod_pow2_lt. Qed.

Lemma pcg_next_u32_out_lt (st : N) : fst (pcg_next_u32 st) < 2 ^ 32.
Proof.
  unfold pcg_next_u32. destruct (pcg_next_u64 st) as [x st'].
  cbn [fst]. apply mod_pow2_lt.
Qed.

(* ===================================================================== *)
(*  5. The rejection loop                                                 *)
(* ===================================================================== *)

Lemma sample_single_S (n : N) (fuel : nat) (st : N) :
  sample_single n (S fuel) st =
  match accept n (fst (pcg_next_u32 st)) with
  | Some hi => Some (hi, snd (pcg_next_u32 st))
  | None => sample_single n fuel (snd (pcg_next_u32 st))
  end.
Proof.
  cbn [sample_single]. destruct (pcg_next_u32 st) as [v st']. reflexivity.
Qed.

(* Fuel is only a termination device: more fuel never changes a result. *)
Lemma sample_single_fuel_mono (n : N) (f f' : nat) (st : N) (r : N * N) :
  (f <= f')%nat -> sample_single n f st = Some r -> sample_single n f' st = Some r.
Proof.
  revert f' st. induction f as [|f IH]; intros f' st Hle H.
  - discriminate H.
  - destruct f' as [|f']; [lia|].
    rewrite sample_single_S in *.
    destruct (accept n (fst (pcg_next_u32 st))); [assumption|].
    apply IH; [lia|assumption].
Qed.

Lemma sample_single_lt (n : N) (fuel : nat) (st i st' : N) :
  1 <= n -> n < 2 ^ 32 -> sample_single n fuel st = Some (i, st') -> i < n.
Proof.
  intros H1 Hn. revert st. induction fuel as [|f IH]; intros st H.
  - discriminate H.
  - rewrite sample_single_S in H.
    destruct (accept n (fst (pcg_next_u32 st))) as [hi|] eqn:Ea.
    + injection H as <- _.
      apply (accept_lt n (fst (pcg_next_u32 st))); try assumption.
      apply pcg_next_u32_out_lt.
    + apply (IH _ H).
Qed.

(* next_task only ever returns one of the offered task ids. *)
Lemma rs_next_task_In (fuel : nat) (r : rs) (l : list N) (t : N) (r' : rs) :
  rs_next_task fuel r l = Done (t, r') -> In t l.
Proof.
  unfold rs_next_task, choose_index.
  destruct (N.eqb_spec (N.of_nat (length l)) 0) as [|Hne]; [discriminate|].
  destruct (N.leb_spec (N.of_nat (length l)) (2 ^ 32 - 1)) as [Hle|]; [|discriminate].
  destruct (sample_single _ fuel (rs_rng r)) as [[i st]|] eqn:Es; [|discriminate].
  intros E. injection E as <- _.
  apply sample_single_lt in Es; [|lia|lia].
  apply nth_In. lia.
Qed.

Lemma rs_next_task_empty (fuel : nat) (r : rs) : rs_next_task fuel r [] = Panic.
Proof. reflexivity. Qed.

(* ===================================================================== *)
(*  6. Data sources                                                       *)
(* ===================================================================== *)

Lemma ds_reinitialize_spec (d : ds) :
  snd (ds_reinitialize d) =
  {| ds_rng := pcg_from_seed_u64 (fst (ds_reinitialize d)); ds_next_seed := None |}.
Proof. reflexivity. Qed.

Lemma ds_reinitialize_initialize (s : N) :
  ds_reinitialize (ds_initialize s) =
  (s, {| ds_rng := pcg_from_seed_u64 s; ds_next_seed := None |}).
Proof. reflexivity. Qed.

Lemma fd_reinitialize_spec (f : fd) :
  fd_reinitialize f = (fd_seed f, fd_fresh (fd_seed f)).
Proof. reflexivity. Qed.

Lemma fd_reachable_seed (s : N) (f : fd) : fd_reachable s f -> fd_seed f = s.
Proof.
  induction 1 as [|f s' f' _ IH E|f x f' _ IH E].
  - reflexivity.
  - rewrite fd_reinitialize_spec in E. injection E as _ <-. exact IH.
  - unfold fd_next_u64 in E. destruct (ds_next_u64 _) as [y d].
    injection E as _ <-. exact IH.
Qed.

Theorem fd_fixed (s : N) (f : fd) :
  fd_reachable s f -> fd_reinitialize f = (s, fd_fresh s).
Proof.
  intros H. rewrite fd_reinitialize_spec, (fd_reachable_seed s f H). reflexivity.
Qed.

Theorem fd_fixed_stream (s : N) (f1 f2 : fd) (k : nat) :
  fd_reachable s f1 -> fd_reachable s f2 ->
  fst (fd_reinitialize f1) = s /\ fst (fd_reinitialize f2) = s /\
  fd_stream k (snd (fd_reinitialize f1)) = fd_stream k (snd (fd_reinitialize f2)).
Proof.
  intros H1 H2. rewrite (fd_fixed s f1 H1), (fd_fixed s f2 H2). auto.
Qed.

(* The fixed stream is literally the Pcg64Mcg stream of the seed. *)
Lemma fd_stream_pcg (k : nat) (s st : N) (o : option N) :
  fd_stream k {| fd_seed := s; fd_data_source := {| ds_rng := st; ds_next_seed := o |} |}
  = pcg_stream k st.
Proof.
  revert st. induction k as [|k IH]; intros st; [reflexivity|].
  cbn [fd_stream pcg_stream]. unfold fd_next_u64, ds_next_u64.
  cbn [fd_data_source ds_rng ds_next_seed fd_seed].
  destruct (pcg_next_u64 st) as [x st']. f_equal. apply IH.
Qed.

(* ===================================================================== *)
(*  7. RandomScheduler: seed reproduction                                 *)
(* ===================================================================== *)

(* What new_execution does, for ANY scheduler state. *)
Lemma rs_new_execution_spec (r : rs) (s : N) (r' : rs) :
  rs_new_execution r = Some (s, r') ->
  rs_rng r' = pcg_from_seed_u64 s /\
  rs_data_source r' = {| ds_rng := pcg_from_seed_u64 s; ds_next_seed := None |} /\
  rs_iterations r' = rs_iterations r + 1 /\
  rs_max_iterations r' = rs_max_iterations r /\
  rs_iterations r < rs_max_iterations r.
Proof.
  unfold rs_new_execution.
  destruct (N.leb_spec (rs_max_iterations r) (rs_iterations r)) as [|Hlt]; [discriminate|].
  pose proof (ds_reinitialize_spec (rs_data_source r)) as Hd.
  destruct (ds_reinitialize (rs_data_source r)) as [seed d]. cbn [fst snd] in Hd.
  intros E. injection E as <- <-. cbn [rs_rng rs_data_source rs_iterations rs_max_iterations].
  auto.
Qed.

(* The replay scheduler: new_from_seed s k, first new_execution. *)
Definition rs_replayed (s k : N) : rs :=
  {| rs_max_iterations := k;
     rs_rng := pcg_from_seed_u64 s;
     rs_iterations := 1;
     rs_data_source := {| ds_rng := pcg_from_seed_u64 s; ds_next_seed := None |} |}.

Lemma rs_replay_first (s k : N) :
  1 <= k -> rs_new_execution (rs_new_from_seed s k) = Some (s, rs_replayed s k).
Proof.
  intros Hk. unfold rs_new_execution, rs_new_from_seed.
  cbn [rs_max_iterations rs_iterations rs_data_source].
  destruct (N.leb_spec k 0) as [|_]; [lia|].
  rewrite ds_reinitialize_initialize. reflexivity.
Qed.

(* Seed reproduction, in its strongest form: for ANY scheduler state r. *)
Theorem rs_seed_reproduces_any (r : rs) (s : N) (r' : rs) :
  rs_new_execution r = Some (s, r') ->
  exists r1,
    rs_new_execution (rs_new_from_seed s 1) = Some (s, r1) /\
    rs_rng r' = rs_rng r1 /\
    ds_rng (rs_data_source r') = ds_rng (rs_data_source r1) /\
    rs_data_source r' = rs_data_source r1.
Proof.
  intros H. apply rs_new_execution_spec in H. destruct H as (Hr & Hd & _).
  exists (rs_replayed s 1). split; [apply rs_replay_first; lia|].
  rewrite Hr, Hd. cbn [rs_replayed rs_rng rs_data_source ds_rng]. auto.
Qed.

(* Observational equivalence: next_task / next_u64 only look at the two
   RNG states.                                                            *)
Definition rs_sim (a b : rs) : Prop :=
  rs_rng a = rs_rng b /\
  ds_rng (rs_data_source a) = ds_rng (rs_data_source b).

Lemma rs_run_sim (fuel : nat) (cs : list call) :
  forall a b, rs_sim a b ->
  fst (rs_run fuel a cs) = fst (rs_run fuel b cs) /\
  rs_sim (snd (rs_run fuel a cs)) (snd (rs_run fuel b cs)).
Proof.
  induction cs as [|c cs IH]; intros a b [Hr Hd].
  - cbn [rs_run fst snd]. split; [reflexivity|split; assumption].
  - destruct c as [l|]; cbn [rs_run].
    + unfold rs_next_task. rewrite Hr.
      destruct (choose_index _ fuel (rs_rng b)) as [[[i|] st]| | |];
        cbn [fst snd]; try (split; [reflexivity|split; assumption]).
      set (a' := mkRs (rs_max_iterations a) st (rs_iterations a) (rs_data_source a)).
      set (b' := mkRs (rs_max_iterations b) st (rs_iterations b) (rs_data_source b)).
      destruct (IH a' b') as [Ho Hs]; [split; [reflexivity|exact Hd]|].
      destruct (rs_run fuel a' cs) as [os1 a1], (rs_run fuel b' cs) as [os2 b1].
      cbn [fst snd] in *. split; [f_equal; assumption|assumption].
    + unfold rs_next_u64, ds_next_u64. rewrite Hd.
      destruct (pcg_next_u64 (ds_rng (rs_data_source b))) as [x st].
      set (a' := mkRs (rs_max_iterations a) (rs_rng a) (rs_iterations a)
                      (mkDs st (ds_next_seed (rs_data_source a)))).
      set (b' := mkRs (rs_max_iterations b) (rs_rng b) (rs_iterations b)
                      (mkDs st (ds_next_seed (rs_data_source b)))).
      destruct (IH a' b') as [Ho Hs]; [split; [exact Hr|reflexivity]|].
      destruct (rs_run fuel a' cs) as [os1 a1], (rs_run fuel b' cs) as [os2 b1].
      cbn [fst snd] in *. split; [f_equal; assumption|assumption].
Qed.

(* Seed reproduction for the states reachable from new_from_seed s k. *)
Theorem rs_iteration_seed_reproduces (s k : N) (r : rs) (si : N) (r' : rs) :
  rs_reachable s k r ->
  rs_new_execution r = Some (si, r') ->
  exists r1,
    rs_new_execution (rs_new_from_seed si 1) = Some (si, r1) /\
    (rs_rng r', ds_rng (rs_data_source r')) =
    (rs_rng r1, ds_rng (rs_data_source r1)).
Proof.
  intros _ H. destruct (rs_seed_reproduces_any r si r' H) as (r1 & H1 & Hr & Hd & _).
  exists r1. split; [assumption|]. rewrite Hr, Hd. reflexivity.
Qed.

(* ... hence the same decisions and the same data draws on any common
   sequence of subsequent calls.                                          *)
Theorem rs_iteration_replay (s k : N) (r : rs) (si : N) (r' : rs) :
  rs_reachable s k r ->
  rs_new_execution r = Some (si, r') ->
  exists r1,
    rs_new_execution (rs_new_from_seed si 1) = Some (si, r1) /\
    forall fuel cs, fst (rs_run fuel r' cs) = fst (rs_run fuel r1 cs).
Proof.
  intros _ H. destruct (rs_seed_reproduces_any r si r' H) as (r1 & H1 & Hr & Hd & _).
  exists r1. split; [assumption|]. intros fuel cs.
  apply rs_run_sim. split; assumption.
Qed.

(* Determinism: a session is a function of (fuel, seed, k, rounds). *)
Theorem rs_same_seed_same_run (fuel : nat) (s k : N) (rounds : list (list call)) (a b : rs) :
  a = rs_new_from_seed s k -> b = rs_new_from_seed s k ->
  rs_session fuel a rounds = rs_session fuel b rounds.
Proof. intros -> ->. reflexivity. Qed.

(* Less trivially: as long as max_iterations is not exhausted, the session
   does not depend on max_iterations either.                              *)
Definition rs_eqk (a b : rs) : Prop :=
  rs_rng a = rs_rng b /\ rs_data_source a = rs_data_source b /\
  rs_iterations a = rs_iterations b.

Lemma rs_run_eqk (fuel : nat) (cs : list call) :
  forall a b, rs_eqk a b ->
  fst (rs_run fuel a cs) = fst (rs_run fuel b cs) /\
  rs_eqk (snd (rs_run fuel a cs)) (snd (rs_run fuel b cs)) /\
  rs_max_iterations (snd (rs_run fuel a cs)) = rs_max_iterations a /\
  rs_max_iterations (snd (rs_run fuel b cs)) = rs_max_iterations b /\
  rs_iterations (snd (rs_run fuel a cs)) = rs_iterations a.
Proof.
  induction cs as [|c cs IH]; intros a b (Hr & Hd & Hi).
  - cbn [rs_run fst snd]. repeat split; assumption.
  - destruct c as [l|]; cbn [rs_run].
    + unfold rs_next_task. rewrite Hr.
      destruct (choose_index _ fuel (rs_rng b)) as [[[i|] st]| | |];
        cbn [fst snd]; try (repeat split; assumption).
      set (a' := mkRs (rs_max_iterations a) st (rs_iterations a) (rs_data_source a)).
      set (b' := mkRs (rs_max_iterations b) st (rs_iterations b) (rs_data_source b)).
      destruct (IH a' b') as (Ho & Hs & Hma & Hmb & Hia);
        [repeat split; assumption|].
      destruct (rs_run fuel a' cs) as [os1 a1], (rs_run fuel b' cs) as [os2 b1].
      cbn [fst snd] in *. repeat split; try assumption; try apply Hs.
      f_equal; assumption.
    + unfold rs_next_u64. rewrite Hd.
      destruct (ds_next_u64 (rs_data_source b)) as [x d].
      set (a' := mkRs (rs_max_iterations a) (rs_rng a) (rs_iterations a) d).
      set (b' := mkRs (rs_max_iterations b) (rs_rng b) (rs_iterations b) d).
      destruct (IH a' b') as (Ho & Hs & Hma & Hmb & Hia);
        [repeat split; assumption|].
      destruct (rs_run fuel a' cs) as [os1 a1], (rs_run fuel b' cs) as [os2 b1].
      cbn [fst snd] in *. repeat split; try assumption; try apply Hs.
      f_equal; assumption.
Qed.

Lemma rs_session_eqk (fuel : nat) (rounds : list (list call)) :
  forall a b, rs_eqk a b ->
  rs_iterations a + N.of_nat (length rounds) <= rs_max_iterations a ->
  rs_iterations b + N.of_nat (length rounds) <= rs_max_iterations b ->
  rs_session fuel a rounds = rs_session fuel b rounds.
Proof.
  induction rounds as [|cs rounds IH]; intros a b (Hr & Hd & Hi) Ha Hb;
    [reflexivity|].
  cbn [rs_session]. cbn [length] in Ha, Hb.
  unfold rs_new_execution.
  destruct (N.leb_spec (rs_max_iterations a) (rs_iterations a)) as [|_]; [lia|].
  destruct (N.leb_spec (rs_max_iterations b) (rs_iterations b)) as [|_]; [lia|].
  rewrite Hd. destruct (ds_reinitialize (rs_data_source b)) as [seed d].
  set (a' := mkRs (rs_max_iterations a) (pcg_from_seed_u64 seed) (rs_iterations a + 1) d).
  set (b' := mkRs (rs_max_iterations b) (pcg_from_seed_u64 seed) (rs_iterations b + 1) d).
  assert (He : rs_eqk a' b').
  { repeat split. cbn [a' b' rs_iterations]. rewrite Hi. reflexivity. }
  destruct (rs_run_eqk fuel cs a' b' He) as (Ho & Hs & Hma & Hmb & Hia).
  destruct (rs_run fuel a' cs) as [os1 a1], (rs_run fuel b' cs) as [os2 b1].
  cbn [fst snd] in *. rewrite Ho. f_equal.
  assert (Hib : rs_iterations b1 = rs_iterations b + 1).
  { destruct Hs as (_ & _ & Hs). rewrite <- Hs, Hia. cbn [a' rs_iterations]. lia. }
  apply IH; [assumption| |].
  - rewrite Hia, Hma. cbn [a' rs_iterations rs_max_iterations]. lia.
  - rewrite Hib, Hmb. cbn [b' rs_max_iterations]. lia.
Qed.

Theorem rs_session_max_iterations_irrelevant
        (fuel : nat) (s k1 k2 : N) (rounds : list (list call)) :
  N.of_nat (length rounds) <= k1 -> N.of_nat (length rounds) <= k2 ->
  rs_session fuel (rs_new_from_seed s k1) rounds =
  rs_session fuel (rs_new_from_seed s k2) rounds.
Proof.
  intros H1 H2. apply rs_session_eqk.
  - repeat split.
  - cbn [rs_new_from_seed rs_iterations rs_max_iterations]. lia.
  - cbn [rs_new_from_seed rs_iterations rs_max_iterations]. lia.
Qed.

(* Every schedule seed handed out is a u64 (so it can be fed back to
   new_from_seed, whose argument is a u64).                               *)
Lemma rs_reachable_next_seed (s k : N) (r : rs) :
  rs_reachable s k r -> s < 2 ^ 64 ->
  forall x, ds_next_seed (rs_data_source r) = Some x -> x < 2 ^ 64.
Proof.
  intros H Hs. induction H as [|r si r' _ IH E|fuel r l t r' _ IH E|r y r' _ IH E]; intros x.
  - cbn [rs_new_from_seed rs_data_source ds_initialize ds_next_seed].
    intros E. injection E as <-. assumption.
  - apply rs_new_execution_spec in E. destruct E as (_ & -> & _).
    cbn [ds_next_seed]. discriminate.
  - unfold rs_next_task in E.
    destruct (choose_index _ _ _) as [[[i|] st]| | |]; try discriminate.
    injection E as _ <-. cbn [rs_data_source]. apply IH.
  - unfold rs_next_u64, ds_next_u64 in E.
    destruct (pcg_next_u64 _) as [z st]. injection E as _ <-.
    cbn [rs_data_source ds_next_seed]. apply IH.
Qed.

Theorem rs_schedule_seed_u64 (s k : N) (r : rs) (si : N) (r' : rs) :
  rs_reachable s k r -> s < 2 ^ 64 ->
  rs_new_execution r = Some (si, r') -> si < 2 ^ 64.
Proof.
  intros H Hs. pose proof (rs_reachable_next_seed s k r H Hs) as Hn.
  unfold rs_new_execution. destruct (_ <=? _); [discriminate|].
  unfold ds_reinitialize.
  destruct (ds_next_seed (rs_data_source r)) as [x|].
  - intros E. injection E as <- _. apply Hn. reflexivity.
  - intros E. injection E as <- _. apply pcg_next_u64_out_lt.
Qed.
