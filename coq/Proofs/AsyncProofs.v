(* C17, library level: block_on / suspend, the JoinHandle protocol, abort / detach, the shape of a
   spawned future's code, and the identity of the stored waker. *)
From Coq Require Import List NArith Bool Arith Lia.
From SV Require Import Clock.VClock Prim.Objects Engine.Exec Prim.Semaphore Prim.SemInv Proofs.SemBase
  Lang.Code Lang.SyncOps Lang.SyncOps2 Lang.AsyncOps Lang.AsyncSpec Proofs.AsyncBase.
Import ListNotations.
Local Open Scope nat_scope.

(* ------------------------------------------------------------------ *)
(* 3. suspend / block_on                                                *)
(* ------------------------------------------------------------------ *)
Lemma suspend_shape : forall ctx jt oa retry,
  suspend ctx jt oa retry = Atomic suw_blk (fun _ => Switch (resume ctx jt oa retry)).
Proof. intros [|] jt oa retry; reflexivity. Qed.

Lemma resume_block_on : forall jt oa retry, resume CtxBlockOn jt oa retry = retry.
Proof. reflexivity. Qed.
Lemma resume_task : forall jt oa retry, resume CtxTask jt oa retry = check_code jt oa retry.
Proof. reflexivity. Qed.

(* the Pending branch of block_on(Acquire) is the same loop *)
Lemma poll_loop_shape : forall f oid wid np kont,
  poll_loop (S f) oid wid np kont =
  atomic_b (fun e st => match on_sem oid st (fun s => poll_needs_switch s wid np) with
                        | Some (_, b) => Some (e, st, b) | None => None end)
    (fun sw => switch_if sw
       (Atomic (sem_poll_blk oid wid)
          (fun a => match a with
                    | [0%N] => kont true
                    | [1%N] => kont false
                    | _ => suspend CtxBlockOn 0 Ret (poll_loop f oid wid false kont)
                    end))).
Proof. reflexivity. Qed.

(* the task's first block and the end of an async body, as Prog builds them *)
Lemma check_code_is_atomic_b : forall jt oa retry,
  atomic_b (fun e st => match wrapper_aborted e st jt with Some ab => Some (e, st, ab) | None => None end)
           (fun ab => if ab then oa else retry) = check_code jt oa retry.
Proof. reflexivity. Qed.
Lemma finish_is_atomic_u : forall jt r,
  atomic_u (fun e st => wrapper_finish e st jt r) Ret = Atomic (fin_blk jt r) (fun _ => Ret).
Proof. reflexivity. Qed.
Lemma abort_code_shape : forall jt c k, abort_code jt c k = Switch (atomic_u (abort_blk jt c) k).
Proof. reflexivity. Qed.

Section Run.
Context {SS : Type} (sch : scheduler SS) (ms : max_steps).

Lemma run_seg_atomic_some : forall f k w st e' s' a,
  f (w_e w) (w_s w) = Some (e', s', a) ->
  run_seg sch ms (Atomic f k) w st = run_seg sch ms (k a) (mkWorld e' s' (w_conts w) (w_trace w)) st.
Proof. intros f k w st e' s' a Hf; cbn [run_seg]; rewrite Hf; reflexivity. Qed.

Lemma run_seg_atomic_none : forall f k w st,
  f (w_e w) (w_s w) = None -> run_seg sch ms (Atomic f k) w st = (w, st, SegPanic).
Proof. intros f k w st Hf; cbn [run_seg]; rewrite Hf; reflexivity. Qed.

Lemma run_seg_switch : forall k w st,
  run_seg sch ms (Switch k) w st =
  match do_switch sch ms w st with
  | SwContinue w' st' => run_seg sch ms k w' st'
  | SwYield w' st' => (w', st', SegYield k)
  | SwPanic w' st' => (w', st', SegPanic)
  end.
Proof. reflexivity. Qed.

(* block_on / the task poll loop on Pending: sleep_unless_woken, then the scheduling point, then the next poll
   (in a spawned task: Wrapper::poll's abort check first) *)
Theorem run_seg_suspend : forall ctx jt oa retry w st m e',
  me (w_e w) = Some m -> e_sleep_unless_woken (w_e w) m = Some e' ->
  run_seg sch ms (suspend ctx jt oa retry) w st =
  match do_switch sch ms (mkWorld e' (w_s w) (w_conts w) (w_trace w)) st with
  | SwContinue w' st' => run_seg sch ms (resume ctx jt oa retry) w' st'
  | SwYield w' st' => (w', st', SegYield (resume ctx jt oa retry))
  | SwPanic w' st' => (w', st', SegPanic)
  end.
Proof.
  intros ctx jt oa retry w st m e' Hme Hs. rewrite suspend_shape.
  rewrite (run_seg_atomic_some suw_blk _ w st e' (w_s w) []).
  - apply run_seg_switch.
  - unfold suw_blk. rewrite Hme, Hs. reflexivity.
Qed.

Theorem run_seg_check : forall jt oa retry w st b,
  wrapper_aborted (w_e w) (w_s w) jt = Some b ->
  run_seg sch ms (check_code jt oa retry) w st = run_seg sch ms (if b then oa else retry) w st.
Proof.
  intros jt oa retry [e s cs tr] st b Hb; cbn [w_e w_s] in Hb. unfold check_code.
  rewrite (run_seg_atomic_some (chk_blk jt) _ _ st e s [b2n b]).
  - cbn [w_conts w_trace]. destruct b; reflexivity.
  - cbn [w_e w_s]. unfold chk_blk. rewrite Hb. reflexivity.
Qed.

(* an observed abort: the rest of the body is discarded, only the cancellation path runs *)
Corollary run_seg_check_aborted : forall jt oa retry w st m j,
  me (w_e w) = Some m -> joins_get (w_s w) jt m = Some j -> ji_aborted j = true ->
  run_seg sch ms (check_code jt oa retry) w st = run_seg sch ms oa w st.
Proof.
  intros jt oa retry w st m j Hme Hj Hab. rewrite (run_seg_check jt oa retry w st true); [reflexivity|].
  unfold wrapper_aborted. rewrite Hme, Hj, Hab. reflexivity.
Qed.

Corollary run_seg_check_not_aborted : forall jt oa retry w st m j,
  me (w_e w) = Some m -> joins_get (w_s w) jt m = Some j -> ji_aborted j = false ->
  run_seg sch ms (check_code jt oa retry) w st = run_seg sch ms retry w st.
Proof.
  intros jt oa retry w st m j Hme Hj Hab. rewrite (run_seg_check jt oa retry w st false); [reflexivity|].
  unfold wrapper_aborted. rewrite Hme, Hj, Hab. reflexivity.
Qed.

(* awaiting a JoinHandle: Ready hands the output to the continuation, Pending suspends and polls again *)
Theorem run_seg_await_join : forall f ctx jt c oa kont w st e' s' out,
  join_poll (w_e w) (w_s w) jt c = Some (e', s', out) ->
  run_seg sch ms (await_join (S f) ctx jt c oa kont) w st =
  run_seg sch ms (match out with
                  | Some r => kont r
                  | None => suspend ctx jt oa (await_join f ctx jt c oa kont)
                  end) (mkWorld e' s' (w_conts w) (w_trace w)) st.
Proof.
  intros f ctx jt c oa kont w st e' s' out Hp. cbn [await_join].
  destruct out as [[v|]|].
  - erewrite run_seg_atomic_some; [|cbv beta; rewrite Hp; reflexivity]. reflexivity.
  - erewrite run_seg_atomic_some; [|cbv beta; rewrite Hp; reflexivity]. reflexivity.
  - erewrite run_seg_atomic_some; [|cbv beta; rewrite Hp; reflexivity]. reflexivity.
Qed.

(* ---- a sleeping task is not resumed at its scheduling point ---- *)
Lemma schedule_sleeping_current : forall e st m tk e' st' evs,
  current e = SSome m -> next e = SNone -> get_task e m = Some tk -> is_sleeping tk = true ->
  schedule sch ms e st = (None, e', st', evs) -> sched_eqb (current e') (next e') = false.
Proof.
  intros e st m tk e' st' evs Hc Hn Hg Hsl Hs. unfold schedule in Hs. rewrite Hn in Hs.
  set (e1 := with_ctx e (S (ctx_switches e))) in *.
  assert (Hc1 : current e1 = SSome m) by exact Hc.
  assert (Hg1 : get_task (with_yielded e1 false) m = Some tk) by exact Hg.
  clearbody e1.
  assert (Hstop : forall x, x <> SSome m -> x <> SNone ->
                            sched_eqb (current (with_current_next e1 (current e1) x)) (next (with_current_next e1 (current e1) x)) = false).
  { intros x Hx Hx'. cbn [current next with_current_next]. rewrite Hc1. destruct x; try reflexivity; try congruence.
    cbn [sched_eqb]. apply Nat.eqb_neq. congruence. }
  assert (Hmain :
    (if negb (any_runnable e1) || (negb (unfinished_attached e1) && all_runnable_detached e1)
     then (None, with_current_next e1 (current e1) SFinished, st, [])
     else
       let yielding := has_yielded e1 in
       let pre := e1 in
       let e := with_yielded e1 false in
       let offered := offered_of e in
       let (choice, st') := s_next_task sch st offered (sched_id (current e)) yielding in
       let ev := [EvDecision pre offered (sched_id (current e)) yielding choice] in
       match choice with
       | None => (None, with_current_next e (current e) SStopped, st', ev)
       | Some t =>
         match get_task e t with
         | None => (Some ErrSchedulerBug, e, st', ev)
         | Some tk =>
           if is_runnable tk then (None, with_current_next e (current e) (SSome t), st', ev)
           else if can_spur tk then
             match e_unblock e t with
             | Some e' => (None, with_current_next e' (current e') (SSome t), st', ev)
             | None => (Some ErrSchedulerBug, e, st', ev)
             end
           else (Some ErrSchedulerBug, e, st', ev)
         end
       end) = (None, e', st', evs) -> sched_eqb (current e') (next e') = false).
  { clear Hs. intros Hs.
    destruct (negb (any_runnable e1) || (negb (unfinished_attached e1) && all_runnable_detached e1)).
    - inversion Hs; subst. apply Hstop; congruence.
    - cbv zeta in Hs.
      destruct (s_next_task sch st (offered_of (with_yielded e1 false)) (sched_id (current (with_yielded e1 false))) (has_yielded e1)) as [choice st2].
      destruct choice as [t|].
      + destruct (get_task (with_yielded e1 false) t) as [tkt|] eqn:Hgt; [|discriminate].
        assert (Hne : is_runnable tkt || can_spur tkt = true -> Nat.eqb m t = false).
        { intros Hrc. apply Nat.eqb_neq. intros <-.
          rewrite Hg1 in Hgt. inversion Hgt; subst tkt.
          unfold is_sleeping, is_runnable, can_spur in *. destruct (t_state tk); discriminate. }
        destruct (is_runnable tkt) eqn:Hr.
        * inversion Hs; subst. cbn [current next with_current_next with_yielded]. rewrite Hc1. cbn [sched_eqb]. apply Hne; reflexivity.
        * destruct (can_spur tkt) eqn:Hcs; [|discriminate].
          destruct (e_unblock (with_yielded e1 false) t) as [e3|] eqn:Hu; [|discriminate].
          inversion Hs; subst. cbn [current next with_current_next].
          unfold e_unblock in Hu. rewrite Hgt in Hu. destruct (is_finished tkt); [discriminate|].
          destruct (upd_task_fields _ _ _ _ Hu) as (Hcur & _). rewrite Hcur. cbn [current with_yielded]. rewrite Hc1.
          cbn [sched_eqb]. apply Hne; reflexivity.
      + inversion Hs; subst. cbn [current next with_current_next with_yielded]. rewrite Hc1. reflexivity. }
  destruct ms as [|n|n].
  - exact (Hmain Hs).
  - destruct (is_step_bound_exceeded e1 n); [discriminate|exact (Hmain Hs)].
  - destruct (is_step_bound_exceeded e1 n); [|exact (Hmain Hs)].
    inversion Hs; subst. apply Hstop; congruence.
Qed.

(* block_on suspends the calling task while its future is pending: once sleep_unless_woken has put the
   task to sleep, the scheduling point never continues with it *)
Theorem sleeping_task_not_resumed : forall w st m tk,
  current (w_e w) = SSome m -> next (w_e w) = SNone -> get_task (w_e w) m = Some tk -> is_sleeping tk = true ->
  forall w' st', do_switch sch ms w st <> SwContinue w' st'.
Proof.
  intros w st m tk Hc Hn Hg Hsl w' st' Hd. unfold do_switch in Hd.
  destruct (panicking (w_e w) && negb (in_cleanup (w_e w))); [discriminate|].
  destruct (schedule sch ms (w_e w) st) as [[[err e'] st1] evs] eqn:Hs.
  destruct err as [[|]|]; try discriminate.
  rewrite (schedule_sleeping_current _ _ _ _ _ _ _ Hc Hn Hg Hsl Hs) in Hd. discriminate.
Qed.

End Run.

(* ------------------------------------------------------------------ *)
(* the JoinHandle table in the store                                    *)
(* ------------------------------------------------------------------ *)
Lemma get_set_obj_eq : forall (s : store) i o o0, get_obj s i = Some o0 -> get_obj (set_obj s i o) i = Some o.
Proof.
  unfold get_obj. intros s; induction s as [|x r IH]; intros [|i] o o0 Hg; cbn [set_obj nth_error] in *; try discriminate; eauto.
Qed.

Lemma get_set_obj_neq : forall (s : store) i j o, i <> j -> get_obj (set_obj s i o) j = get_obj s j.
Proof.
  unfold get_obj. intros s; induction s as [|x r IH]; intros [|i] [|j] o Hne; cbn [set_obj nth_error]; auto. congruence.
Qed.

Lemma assoc_get_remove_neq : forall {A} (l : list (nat * A)) t t', t <> t' -> assoc_get (assoc_remove l t) t' = assoc_get l t'.
Proof.
  intros A l t t' Hne; induction l as [|[k v] r IH]; cbn [assoc_get assoc_remove]; [reflexivity|].
  destruct (Nat.eqb t k) eqn:Htk.
  - apply Nat.eqb_eq in Htk; subst k. destruct (Nat.eqb t' t) eqn:Ht; [apply Nat.eqb_eq in Ht; congruence|reflexivity].
  - cbn [assoc_get]. destruct (Nat.eqb t' k); [reflexivity|exact IH].
Qed.

Lemma joins_get_set_eq : forall st jt t j, has_joins st jt -> joins_get (joins_set st jt t j) jt t = Some j.
Proof.
  intros st jt t j (l & Hl). unfold joins_get, joins_set. rewrite Hl.
  rewrite (get_set_obj_eq st jt _ _ Hl). cbn [assoc_get]. rewrite Nat.eqb_refl. reflexivity.
Qed.

Lemma joins_get_set_neq : forall st jt t t' j, t <> t' -> joins_get (joins_set st jt t j) jt t' = joins_get st jt t'.
Proof.
  intros st jt t t' j Hne. unfold joins_get, joins_set.
  destruct (get_obj st jt) as [o|] eqn:Hl; [|rewrite Hl; reflexivity].
  destruct o; try (rewrite Hl; reflexivity).
  rewrite (get_set_obj_eq st jt _ _ Hl). cbn [assoc_get].
  destruct (Nat.eqb t' t) eqn:Ht; [apply Nat.eqb_eq in Ht; congruence|]. apply assoc_get_remove_neq; exact Hne.
Qed.

Lemma has_joins_set : forall st jt t j, has_joins st jt -> has_joins (joins_set st jt t j) jt.
Proof.
  intros st jt t j (l & Hl). unfold joins_set. rewrite Hl. eexists. eapply get_set_obj_eq; exact Hl.
Qed.

Lemma joins_get_has : forall st jt t j, joins_get st jt t = Some j -> has_joins st jt.
Proof.
  intros st jt t j Hj. unfold joins_get in Hj. destruct (get_obj st jt) as [o|] eqn:Hl; [|discriminate].
  destruct o; try discriminate. eexists; exact Hl.
Qed.

(* ------------------------------------------------------------------ *)
(* 4. the protocol, one call at a time                                  *)
(* ------------------------------------------------------------------ *)
Theorem join_poll_spec : forall e st jt c m j,
  me e = Some m -> joins_get st jt c = Some j ->
  join_poll e st jt c = Some (e, joins_set st jt c (fst (ji_poll m j)), snd (ji_poll m j)).
Proof.
  intros e st jt c m j Hme Hj. unfold join_poll, ji_poll. rewrite Hme, Hj. destruct (ji_result j); reflexivity.
Qed.

Theorem wrapper_finish_spec : forall e st jt c j r,
  me e = Some c -> exec_is_finished e = false -> joins_get st jt c = Some j ->
  wrapper_finish e st jt r =
  match wake_opt e (ji_waker j) with
  | Some e' => Some (e', joins_set st jt c (ji_finish r j))
  | None => None
  end.
Proof.
  intros e st jt c j r Hme Hef Hj. unfold wrapper_finish, ji_finish, wake_opt. rewrite Hme, Hef, Hj.
  destruct (ji_waker j); reflexivity.
Qed.

Theorem abort_blk_spec : forall e st jt c j,
  joins_get st jt c = Some j ->
  abort_blk jt c e st =
  if ji_aborted j then Some (e, st)
  else if exec_is_finished e then Some (e, joins_set st jt c (ji_abort j))
  else match e_abort e c with Some e' => Some (e', joins_set st jt c (ji_abort j)) | None => None end.
Proof. intros e st jt c j Hj. unfold abort_blk, ji_abort. rewrite Hj. reflexivity. Qed.

(* join_exactly_once, call level: the first poll after the result was published takes it; the next finds nothing *)
Theorem join_exactly_once : forall e st jt c w j r,
  me e = Some w -> joins_get st jt c = Some j -> ji_result j = Some r ->
  exists st1 j1,
    join_poll e st jt c = Some (e, st1, Some r) /\
    joins_get st1 jt c = Some j1 /\ ji_result j1 = None /\ ji_aborted j1 = ji_aborted j /\
    forall e2 w2, me e2 = Some w2 -> exists st2, join_poll e2 st1 jt c = Some (e2, st2, None).
Proof.
  intros e st jt c w j r Hme Hj Hr.
  pose proof (joins_get_has _ _ _ _ Hj) as Hhas.
  rewrite (join_poll_spec e st jt c w j Hme Hj). unfold ji_poll. rewrite Hr. cbn [fst snd].
  eexists; eexists. split; [reflexivity|]. split; [apply joins_get_set_eq; exact Hhas|].
  split; [reflexivity|]. split; [reflexivity|].
  intros e2 w2 Hme2. rewrite (join_poll_spec e2 _ jt c w2 _ Hme2 (joins_get_set_eq _ _ _ _ Hhas)).
  unfold ji_poll; cbn [ji_result fst snd]. eexists; reflexivity.
Qed.

(* Wrapper::finish publishes the result, clears the waker slot, and wakes the stored waker *)
Theorem finish_publishes : forall e st jt c j r,
  me e = Some c -> exec_is_finished e = false -> joins_get st jt c = Some j ->
  forall e' st', wrapper_finish e st jt r = Some (e', st') ->
  wake_opt e (ji_waker j) = Some e' /\
  joins_get st' jt c = Some (mkJoin (Some r) None (ji_aborted j)).
Proof.
  intros e st jt c j r Hme Hef Hj e' st' Hf.
  rewrite (wrapper_finish_spec e st jt c j r Hme Hef Hj) in Hf.
  destruct (wake_opt e (ji_waker j)) as [e1|]; [|discriminate]. inversion Hf; subst.
  split; [reflexivity|]. apply joins_get_set_eq. eapply joins_get_has; eauto.
Qed.

(* join_wakes_waiter: a Pending poll by w stores w; the later finish invokes w's waker, so a sleeping w becomes Runnable *)
Theorem join_wakes_waiter : forall e0 st0 jt c w j0 e st r tkw,
  me e0 = Some w -> joins_get st0 jt c = Some j0 -> ji_result j0 = None ->
  exists st1 j1, join_poll e0 st0 jt c = Some (e0, st1, None) /\ joins_get st1 jt c = Some j1 /\ ji_waker j1 = Some w /\
  (* later, with the cell untouched in between: *)
  (joins_get st jt c = Some j1 -> me e = Some c -> exec_is_finished e = false ->
   get_task e w = Some tkw -> is_finished tkw = false ->
   exists e' st', wrapper_finish e st jt r = Some (e', st') /\ e_waker_wake e w = Some e' /\
     get_task e' w = Some (wake_task tkw) /\ t_woken (wake_task tkw) = true /\
     (is_sleeping tkw = true -> t_state (wake_task tkw) = Runnable) /\
     joins_get st' jt c = Some (mkJoin (Some r) None (ji_aborted j0))).
Proof.
  intros e0 st0 jt c w j0 e st r tkw Hme0 Hj0 Hr0.
  pose proof (joins_get_has _ _ _ _ Hj0) as Hhas.
  rewrite (join_poll_spec e0 st0 jt c w j0 Hme0 Hj0). unfold ji_poll. rewrite Hr0. cbn [fst snd].
  eexists; eexists. split; [reflexivity|]. split; [apply joins_get_set_eq; exact Hhas|]. split; [reflexivity|].
  intros Hj Hme Hef Hgw Hfin.
  destruct (waker_wake_alive e w tkw Hef Hgw Hfin) as (e' & Hw & Hg' & _ & _).
  rewrite (wrapper_finish_spec e st jt c _ r Hme Hef Hj). cbn [ji_waker wake_opt]. rewrite Hw.
  eexists; eexists. split; [reflexivity|]. split; [reflexivity|]. split; [exact Hg'|].
  split; [apply wake_task_woken|]. split; [apply wake_task_sleeping_runnable|].
  cbn [ji_finish ji_aborted]. apply joins_get_set_eq. eapply joins_get_has; eauto.
Qed.

(* abort is idempotent: once the flag is set, the block changes nothing - whatever the engine state *)
Theorem abort_idempotent : forall jt c e st e1 st1,
  abort_blk jt c e st = Some (e1, st1) -> forall e2, abort_blk jt c e2 st1 = Some (e2, st1).
Proof.
  intros jt c e st e1 st1 Ha e2.
  destruct (joins_get st jt c) as [j|] eqn:Hj; [|unfold abort_blk in Ha; rewrite Hj in Ha; discriminate].
  pose proof (joins_get_has _ _ _ _ Hj) as Hhas.
  rewrite (abort_blk_spec e st jt c j Hj) in Ha.
  destruct (ji_aborted j) eqn:Hab.
  - inversion Ha; subst. rewrite (abort_blk_spec e2 st1 jt c j Hj), Hab. reflexivity.
  - assert (Hst1 : st1 = joins_set st jt c (ji_abort j)).
    { destruct (exec_is_finished e); [inversion Ha; reflexivity|].
      destruct (e_abort e c); [inversion Ha; reflexivity|discriminate]. }
    subst st1. rewrite (abort_blk_spec e2 _ jt c (ji_abort j) (joins_get_set_eq _ _ _ _ Hhas)). reflexivity.
Qed.

(* the first abort: sets the flag and wakes the task (Task::abort = wake unless finished) *)
Theorem abort_first : forall jt c e st j tk,
  joins_get st jt c = Some j -> ji_aborted j = false -> exec_is_finished e = false ->
  get_task e c = Some tk -> is_finished tk = false ->
  exists e', abort_blk jt c e st = Some (e', joins_set st jt c (ji_abort j)) /\
             get_task e' c = Some (wake_task tk) /\
             joins_get (joins_set st jt c (ji_abort j)) jt c = Some (mkJoin (ji_result j) (ji_waker j) true).
Proof.
  intros jt c e st j tk Hj Hab Hef Hg Hfin.
  rewrite (abort_blk_spec e st jt c j Hj), Hab, Hef. unfold e_abort. rewrite Hg, Hfin.
  destruct (upd_task_some e c wake_task tk Hg) as (e' & Hu). rewrite Hu.
  exists e'. split; [reflexivity|]. split; [exact (upd_task_same _ _ _ _ _ Hu Hg)|].
  apply joins_get_set_eq. eapply joins_get_has; eauto.
Qed.

(* aborting a finished task: only the flag changes; the engine state and a published result are untouched *)
Theorem abort_finished_noop : forall jt c e st j tk,
  joins_get st jt c = Some j -> get_task e c = Some tk -> is_finished tk = true ->
  exists st', abort_blk jt c e st = Some (e, st') /\
    exists j', joins_get st' jt c = Some j' /\ ji_result j' = ji_result j /\ ji_waker j' = ji_waker j /\ ji_aborted j' = true /\
    forall t', t' <> c -> joins_get st' jt t' = joins_get st jt t'.
Proof.
  intros jt c e st j tk Hj Hg Hfin.
  rewrite (abort_blk_spec e st jt c j Hj).
  destruct (ji_aborted j) eqn:Hab.
  - exists st. split; [reflexivity|]. exists j. repeat split; auto.
  - assert (He : (if exec_is_finished e then Some (e, joins_set st jt c (ji_abort j))
                  else match e_abort e c with Some e' => Some (e', joins_set st jt c (ji_abort j)) | None => None end)
                 = Some (e, joins_set st jt c (ji_abort j))).
    { destruct (exec_is_finished e); [reflexivity|]. unfold e_abort. rewrite Hg, Hfin. reflexivity. }
    rewrite He. eexists. split; [reflexivity|]. exists (ji_abort j).
    split; [apply joins_get_set_eq; eapply joins_get_has; eauto|].
    repeat split. intros t' Hne. apply joins_get_set_neq. congruence.
Qed.

(* dropping the JoinHandle: the task is marked detached; no wake, no flag, no state change, store untouched *)
Theorem detach_not_cancel : forall e st c e' st',
  detach_handle e st c = Some (e', st') ->
  st' = st /\
  (exec_is_finished e = true -> e' = e) /\
  (exec_is_finished e = false ->
     (forall tk, get_task e c = Some tk -> get_task e' c = Some (set_detached tk true)) /\
     (forall t', c <> t' -> get_task e' t' = get_task e t')) /\
  (forall t tk tk', get_task e t = Some tk -> get_task e' t = Some tk' ->
     t_state tk' = t_state tk /\ t_woken tk' = t_woken tk).
Proof.
  intros e st c e' st' Hd. unfold detach_handle in Hd.
  destruct (exec_is_finished e) eqn:Hef.
  - inversion Hd; subst. split; [reflexivity|]. split; [intros _; reflexivity|]. split; [intros H; discriminate|].
    intros t tk tk' H1 H2; rewrite H1 in H2; inversion H2; split; reflexivity.
  - destruct (e_detach e c) as [e1|] eqn:Hdt; [|discriminate]. inversion Hd; subst. unfold e_detach in Hdt.
    split; [reflexivity|]. split; [discriminate|]. split.
    + intros _. split.
      * intros tk Hg. exact (upd_task_same _ _ _ _ _ Hdt Hg).
      * intros t' Hne. eapply upd_task_other; eauto.
    + intros t tk tk' H1 H2. destruct (Nat.eq_dec c t) as [<-|Hne].
      * rewrite (upd_task_same _ _ _ _ _ Hdt H1) in H2. inversion H2; subst. split; reflexivity.
      * rewrite (upd_task_other _ _ _ _ t Hdt Hne), H1 in H2. inversion H2; subst. split; reflexivity.
Qed.

(* ------------------------------------------------------------------ *)
(* the protocol over whole interleavings                                *)
(* ------------------------------------------------------------------ *)
Definition run_final (l : list jev) (j : join_inner) : join_inner := fst (fst (ji_run l j)).
Definition run_outs (l : list jev) (j : join_inner) : list (option N) := snd (fst (ji_run l j)).
Definition run_wakes (l : list jev) (j : join_inner) : list nat := snd (ji_run l j).

Lemma ji_run_eta : forall l j, ji_run l j = (run_final l j, run_outs l j, run_wakes l j).
Proof. intros l j; unfold run_final, run_outs, run_wakes; destruct (ji_run l j) as [[a b] c]; reflexivity. Qed.

Lemma ji_run_poll : forall w r j,
  ji_run (JPoll w :: r) j =
  (run_final r (fst (ji_poll w j)),
   match snd (ji_poll w j) with Some v => v :: run_outs r (fst (ji_poll w j)) | None => run_outs r (fst (ji_poll w j)) end,
   run_wakes r (fst (ji_poll w j))).
Proof.
  intros w r j. cbn [ji_run]. destruct (ji_poll w j) as [j1 out]. cbn [fst snd].
  rewrite (ji_run_eta r j1). reflexivity.
Qed.

Lemma ji_run_finish : forall res r j,
  ji_run (JFinish res :: r) j =
  (run_final r (ji_finish res j), run_outs r (ji_finish res j),
   match ji_waker j with Some w => w :: run_wakes r (ji_finish res j) | None => run_wakes r (ji_finish res j) end).
Proof. intros res r j. cbn [ji_run]. rewrite (ji_run_eta r (ji_finish res j)). reflexivity. Qed.

Lemma ji_run_app : forall l1 l2 j,
  ji_run (l1 ++ l2) j =
  (run_final l2 (run_final l1 j), run_outs l1 j ++ run_outs l2 (run_final l1 j),
   run_wakes l1 j ++ run_wakes l2 (run_final l1 j)).
Proof.
  intros l1; induction l1 as [|ev r IH]; intros l2 j.
  - cbn [app]. unfold run_final at 2, run_outs at 1, run_wakes at 1. cbn [ji_run fst snd app]. apply ji_run_eta.
  - cbn [app]. destruct ev as [w|res| |].
    + rewrite ji_run_poll. unfold run_final, run_outs, run_wakes. rewrite !ji_run_poll. cbn [fst snd].
      rewrite (IH l2 (fst (ji_poll w j))). cbn [fst snd].
      unfold run_final, run_outs, run_wakes. destruct (snd (ji_poll w j)); reflexivity.
    + rewrite ji_run_finish. unfold run_final, run_outs, run_wakes. rewrite !ji_run_finish. cbn [fst snd].
      rewrite (IH l2 (ji_finish res j)). cbn [fst snd].
      unfold run_final, run_outs, run_wakes. destruct (ji_waker j); reflexivity.
    + unfold run_final, run_outs, run_wakes. cbn [ji_run]. rewrite (IH l2 (ji_abort j)). reflexivity.
    + unfold run_final, run_outs, run_wakes. cbn [ji_run]. rewrite (IH l2 j). reflexivity.
Qed.

Lemma run_outs_app : forall l1 l2 j, run_outs (l1 ++ l2) j = run_outs l1 j ++ run_outs l2 (run_final l1 j).
Proof. intros l1 l2 j. unfold run_outs at 1. rewrite ji_run_app. reflexivity. Qed.
Lemma run_wakes_app : forall l1 l2 j, run_wakes (l1 ++ l2) j = run_wakes l1 j ++ run_wakes l2 (run_final l1 j).
Proof. intros l1 l2 j. unfold run_wakes at 1. rewrite ji_run_app. reflexivity. Qed.
Lemma run_final_app : forall l1 l2 j, run_final (l1 ++ l2) j = run_final l2 (run_final l1 j).
Proof. intros l1 l2 j. unfold run_final at 1. rewrite ji_run_app. reflexivity. Qed.

Lemma run_outs_finish : forall r l j, run_outs (JFinish r :: l) j = run_outs l (ji_finish r j).
Proof. intros r l j. unfold run_outs at 1. rewrite ji_run_finish. reflexivity. Qed.
Lemma run_final_finish : forall r l j, run_final (JFinish r :: l) j = run_final l (ji_finish r j).
Proof. intros r l j. unfold run_final at 1. rewrite ji_run_finish. reflexivity. Qed.
Lemma run_wakes_finish : forall r l j, run_wakes (JFinish r :: l) j =
  match ji_waker j with Some w => w :: run_wakes l (ji_finish r j) | None => run_wakes l (ji_finish r j) end.
Proof. intros r l j. unfold run_wakes at 1. rewrite ji_run_finish. reflexivity. Qed.

Lemma run_outs_poll : forall w l j, run_outs (JPoll w :: l) j =
  match snd (ji_poll w j) with Some v => v :: run_outs l (fst (ji_poll w j)) | None => run_outs l (fst (ji_poll w j)) end.
Proof. intros w l j. unfold run_outs at 1. rewrite ji_run_poll. reflexivity. Qed.
Lemma run_final_poll : forall w l j, run_final (JPoll w :: l) j = run_final l (fst (ji_poll w j)).
Proof. intros w l j. unfold run_final at 1. rewrite ji_run_poll. reflexivity. Qed.
Lemma run_wakes_poll : forall w l j, run_wakes (JPoll w :: l) j = run_wakes l (fst (ji_poll w j)).
Proof. intros w l j. unfold run_wakes at 1. rewrite ji_run_poll. reflexivity. Qed.

Lemma run_nil : forall j, run_final [] j = j /\ run_outs [] j = [] /\ run_wakes [] j = [].
Proof. intros j; repeat split. Qed.

Definition undelivered (j : join_inner) : nat := match ji_result j with Some _ => 1 | None => 0 end.

(* each published result is delivered at most once, whatever the interleaving of polls (by any tasks),
   aborts and detaches *)
Theorem delivered_at_most_published : forall l j,
  length (run_outs l j) + undelivered (run_final l j) <= count_finish l + undelivered j.
Proof.
  intros l; induction l as [|ev r IH]; intros j.
  - unfold run_outs, run_final, count_finish; cbn; lia.
  - destruct ev as [w|res| |].
    + unfold run_outs, run_final. rewrite ji_run_poll. cbn [fst snd].
      specialize (IH (fst (ji_poll w j))). unfold count_finish in *. cbn [filter is_finish].
      unfold ji_poll in *. unfold undelivered at 2. destruct (ji_result j); cbn [fst snd length] in *;
        unfold undelivered at 2 in IH; cbn [ji_result] in IH; lia.
    + unfold run_outs, run_final. rewrite ji_run_finish. cbn [fst snd].
      specialize (IH (ji_finish res j)). unfold count_finish in *. cbn [filter is_finish length].
      unfold undelivered at 2 in IH; cbn [ji_finish ji_result] in IH. lia.
    + unfold run_outs, run_final. cbn [ji_run]. specialize (IH (ji_abort j)). unfold count_finish in *. cbn [filter is_finish].
      unfold run_outs, run_final in IH. unfold undelivered at 2 in IH; cbn [ji_abort ji_result] in IH.
      unfold undelivered at 2. lia.
    + unfold run_outs, run_final. cbn [ji_run]. specialize (IH j). unfold count_finish in *. cbn [filter is_finish].
      unfold run_outs, run_final in IH. lia.
Qed.

(* what is delivered was published *)
Theorem delivered_was_published : forall l j v,
  In v (run_outs l j) -> In (JFinish v) l \/ ji_result j = Some v.
Proof.
  intros l; induction l as [|ev r IH]; intros j v Hin.
  - unfold run_outs in Hin; cbn in Hin; contradiction.
  - destruct ev as [w|res| |].
    + unfold run_outs in Hin. rewrite ji_run_poll in Hin. cbn [fst snd] in Hin.
      unfold ji_poll in Hin. destruct (ji_result j) as [r0|] eqn:Hr; cbn [fst snd] in Hin.
      * destruct Hin as [<-|Hin]; [right; reflexivity|].
        destruct (IH _ v Hin) as [H|H]; [left; right; exact H|cbn [ji_result] in H; discriminate].
      * destruct (IH _ v Hin) as [H|H]; [left; right; exact H|cbn [ji_result] in H; discriminate].
    + unfold run_outs in Hin. rewrite ji_run_finish in Hin. cbn [fst snd] in Hin.
      destruct (IH _ v Hin) as [H|H]; [left; right; exact H|].
      cbn [ji_finish ji_result] in H. inversion H; subst. left; left; reflexivity.
    + unfold run_outs in Hin. cbn [ji_run] in Hin. destruct (IH (ji_abort j) v Hin) as [H|H]; [left; right; exact H|right; exact H].
    + unfold run_outs in Hin. cbn [ji_run] in Hin. destruct (IH j v Hin) as [H|H]; [left; right; exact H|right; exact H].
Qed.

Definition quiet (ev : jev) : Prop := is_poll ev = false /\ is_finish ev = false.

Lemma run_quiet : forall l j, Forall quiet l ->
  run_outs l j = [] /\ run_wakes l j = [] /\
  ji_result (run_final l j) = ji_result j /\ ji_waker (run_final l j) = ji_waker j.
Proof.
  intros l; induction l as [|ev r IH]; intros j Hq.
  - unfold run_outs, run_wakes, run_final; cbn; auto.
  - inversion Hq as [|ev' r' (Hp & Hf) Hr]; subst. destruct ev as [w|res| |]; cbn in Hp, Hf; try discriminate.
    + unfold run_outs, run_wakes, run_final. cbn [ji_run]. exact (IH (ji_abort j) Hr).
    + unfold run_outs, run_wakes, run_final. cbn [ji_run]. exact (IH j Hr).
Qed.

Lemma run_no_finish_wakes : forall l j, count_finish l = 0 -> run_wakes l j = [].
Proof.
  intros l; induction l as [|ev r IH]; intros j Hc; [reflexivity|].
  destruct ev as [w|res| |]; unfold count_finish in *; cbn [filter is_finish length] in Hc; try discriminate.
  - unfold run_wakes. rewrite ji_run_poll. cbn [snd]. apply IH; exact Hc.
  - unfold run_wakes. cbn [ji_run]. apply (IH (ji_abort j)); exact Hc.
  - unfold run_wakes. cbn [ji_run]. apply (IH j); exact Hc.
Qed.

Lemma run_no_finish_pending : forall l j, count_finish l = 0 -> ji_result j = None ->
  run_outs l j = [] /\ ji_result (run_final l j) = None.
Proof.
  intros l; induction l as [|ev r IH]; intros j Hc Hr.
  - unfold run_outs, run_final; cbn; auto.
  - destruct ev as [w|res| |]; unfold count_finish in *; cbn [filter is_finish length] in Hc; try discriminate.
    + unfold run_outs, run_final. rewrite ji_run_poll. cbn [fst snd]. unfold ji_poll. rewrite Hr. cbn [fst snd].
      apply IH; [exact Hc|reflexivity].
    + unfold run_outs, run_final. cbn [ji_run]. apply (IH (ji_abort j)); [exact Hc|exact Hr].
    + unfold run_outs, run_final. cbn [ji_run]. apply (IH j); [exact Hc|exact Hr].
Qed.

(* join_exactly_once over interleavings: after the (only) finish with result r, the first poll - by whichever
   task - returns r and every later poll returns Pending: the polls deliver exactly [r] *)
Theorem join_exactly_once_run : forall pre r l1 w l2 j,
  ji_result j = None -> count_finish pre = 0 -> Forall quiet l1 -> count_finish l2 = 0 ->
  run_outs (pre ++ JFinish r :: l1 ++ JPoll w :: l2) j = [r].
Proof.
  intros pre r l1 w l2 j Hr Hpre Hq Hl2.
  rewrite run_outs_app.
  destruct (run_no_finish_pending pre j Hpre Hr) as (Ho & _). rewrite Ho. cbn [app].
  set (j1 := run_final pre j). rewrite run_outs_finish, run_outs_app.
  destruct (run_quiet l1 (ji_finish r j1) Hq) as (Ho1 & _ & Hr1 & _). rewrite Ho1. cbn [app].
  set (j2 := run_final l1 (ji_finish r j1)) in *. cbn [ji_finish ji_result] in Hr1.
  rewrite run_outs_poll. unfold ji_poll. rewrite Hr1. cbn [fst snd].
  destruct (run_no_finish_pending l2 (mkJoin None (ji_waker j2) (ji_aborted j2)) Hl2 eq_refl) as (Ho2 & _).
  rewrite Ho2. reflexivity.
Qed.

(* join_wakes_waiter / poller_identity over interleavings: the finish wakes exactly the latest task that polled
   the handle (a JoinHandle moved between tasks is woken through its latest poller), and clears the slot *)
Theorem finish_wakes_latest_poller : forall pre w l1 r j,
  ji_result j = None -> count_finish pre = 0 -> Forall quiet l1 ->
  run_wakes (pre ++ JPoll w :: l1 ++ [JFinish r]) j = [w] /\
  ji_waker (run_final (pre ++ JPoll w :: l1 ++ [JFinish r]) j) = None /\
  ji_result (run_final (pre ++ JPoll w :: l1 ++ [JFinish r]) j) = Some r.
Proof.
  intros pre w l1 r j Hr Hpre Hq.
  rewrite run_wakes_app, run_final_app.
  rewrite (run_no_finish_wakes pre j Hpre). cbn [app].
  destruct (run_no_finish_pending pre j Hpre Hr) as (_ & Hr1).
  set (j1 := run_final pre j) in *.
  rewrite run_wakes_poll, run_final_poll. unfold ji_poll. rewrite Hr1. cbn [fst snd].
  set (j2 := mkJoin None (Some w) (ji_aborted j1)).
  rewrite run_wakes_app, run_final_app.
  destruct (run_quiet l1 j2 Hq) as (_ & Hw1 & _ & Hwk). rewrite Hw1. cbn [app].
  rewrite run_wakes_finish, run_final_finish. rewrite Hwk. cbn [ji_waker j2].
  destruct (run_nil (ji_finish r (run_final l1 j2))) as (-> & _ & ->). cbn [ji_finish ji_waker ji_result]. auto.
Qed.

(* the aborted flag is never reset *)
Theorem aborted_monotone : forall l j, ji_aborted j = true -> ji_aborted (run_final l j) = true.
Proof.
  intros l; induction l as [|ev r IH]; intros j Hab; [exact Hab|].
  destruct ev as [w|res| |]; unfold run_final.
  - rewrite ji_run_poll. cbn [fst]. apply IH. unfold ji_poll. destruct (ji_result j); exact Hab.
  - rewrite ji_run_finish. cbn [fst]. apply IH. exact Hab.
  - cbn [ji_run]. apply (IH (ji_abort j)). reflexivity.
  - cbn [ji_run]. apply (IH j). exact Hab.
Qed.

(* the store-level calls are these transitions *)
Inductive jstep (jt c : nat) : exec * store -> jev -> exec * store -> Prop :=
| js_poll : forall e st w e' st' out,
    me e = Some w -> join_poll e st jt c = Some (e', st', out) -> jstep jt c (e, st) (JPoll w) (e', st')
| js_finish : forall e st r e' st',
    me e = Some c -> exec_is_finished e = false -> wrapper_finish e st jt r = Some (e', st') ->
    jstep jt c (e, st) (JFinish r) (e', st')
| js_abort : forall e st e' st', abort_blk jt c e st = Some (e', st') -> jstep jt c (e, st) JAbort (e', st')
| js_detach : forall e st e' st', detach_handle e st c = Some (e', st') -> jstep jt c (e, st) JDetach (e', st').

Theorem jstep_sim : forall jt c x ev x' j,
  jstep jt c x ev x' -> joins_get (snd x) jt c = Some j ->
  joins_get (snd x') jt c = Some (run_final [ev] j).
Proof.
  intros jt c x ev x' j Hs Hj. pose proof (joins_get_has _ _ _ _ Hj) as Hhas.
  destruct Hs as [e st w e' st' out Hme Hp|e st r e' st' Hme Hef Hf|e st e' st' Ha|e st e' st' Hd]; cbn [snd] in *.
  - rewrite (join_poll_spec e st jt c w j Hme Hj) in Hp. inversion Hp; subst.
    unfold run_final. rewrite ji_run_poll. cbn [fst]. apply joins_get_set_eq; exact Hhas.
  - destruct (finish_publishes e st jt c j r Hme Hef Hj e' st' Hf) as (_ & H). exact H.
  - rewrite (abort_blk_spec e st jt c j Hj) in Ha. unfold run_final; cbn [ji_run fst].
    destruct (ji_aborted j) eqn:Hab.
    + inversion Ha; subst. rewrite Hj. f_equal. unfold ji_abort. destruct j; cbn in *; subst; reflexivity.
    + destruct (exec_is_finished e).
      * inversion Ha; subst. apply joins_get_set_eq; exact Hhas.
      * destruct (e_abort e c); [|discriminate]. inversion Ha; subst. apply joins_get_set_eq; exact Hhas.
  - destruct (detach_not_cancel e st c e' st' Hd) as (-> & _). exact Hj.
Qed.

(* ------------------------------------------------------------------ *)
(* the code of a spawned future: paths                                  *)
(* ------------------------------------------------------------------ *)
Lemma cpath_atomic_inv : forall f k p fin, cpath (Atomic f k) p fin ->
  (p = [] /\ fin = false) \/ exists a p', p = (f, a) :: p' /\ cpath (k a) p' fin.
Proof. intros f k p fin H; inversion H; subst; [left; auto|right; eauto]. Qed.

Lemma cpath_switch_inv : forall k p fin, cpath (Switch k) p fin -> cpath k p fin.
Proof. intros k p fin H; inversion H; subst; assumption. Qed.

Lemma cpath_log_inv : forall tag vals k p fin, cpath (Log tag vals k) p fin -> cpath k p fin.
Proof. intros tag vals k p fin H; inversion H; subst; assumption. Qed.

Lemma cpath_rand_inv : forall k p fin, cpath (Rand k) p fin -> exists v, cpath (k v) p fin.
Proof. intros k p fin H; inversion H; subst; eauto. Qed.

Lemma cpath_ret_inv : forall p fin, cpath Ret p fin -> p = [] /\ fin = true.
Proof. intros p fin H; inversion H; auto. Qed.

Lemma cpath_panic_inv : forall p fin, cpath Panic p fin -> p = [] /\ fin = false.
Proof. intros p fin H; inversion H; auto. Qed.

(* every path of the compiled code is a labelled path *)
Theorem cpath_ccomp : forall jt c p fin, cpath (ccomp jt c) p fin ->
  exists lp, clpath c lp fin /\ map (erase jt) lp = p.
Proof.
  intros jt c; induction c as [|f k IH|k IH|tag vals k IH]; intros p fin H; cbn [ccomp] in H.
  - destruct (cpath_atomic_inv _ _ _ _ H) as [(-> & ->)|(a & p' & -> & H')].
    + exists []. split; [constructor|reflexivity].
    + destruct (cpath_ret_inv _ _ H') as (-> & ->). exists [LFinish None a]. split; [constructor|reflexivity].
  - destruct (cpath_atomic_inv _ _ _ _ H) as [(-> & ->)|(a & p' & -> & H')].
    + exists []. split; [constructor|reflexivity].
    + destruct (IH a _ _ H') as (lp & Hl & He). exists (LDrop f a :: lp). split; [constructor; exact Hl|cbn [map erase]; rewrite He; reflexivity].
  - apply cpath_switch_inv in H. destruct (IH _ _ H) as (lp & Hl & He). exists lp. split; [constructor; exact Hl|exact He].
  - apply cpath_log_inv in H. destruct (IH _ _ H) as (lp & Hl & He). exists lp. split; [constructor; exact Hl|exact He].
Qed.

Theorem cpath_fcomp : forall jt b p fin, cpath (fcomp jt b) p fin ->
  exists lp, flpath b lp fin /\ map (erase jt) lp = p.
Proof.
  intros jt b; induction b as [v| |f k IH|k IH|tag vals k IH|k IH|oa k IH]; intros p fin H; cbn [fcomp] in H.
  - destruct (cpath_atomic_inv _ _ _ _ H) as [(-> & ->)|(a & p' & -> & H')].
    + exists []. split; [constructor|reflexivity].
    + destruct (cpath_ret_inv _ _ H') as (-> & ->). exists [LFinish (Some v) a]. split; [constructor|reflexivity].
  - destruct (cpath_panic_inv _ _ H) as (-> & ->). exists []. split; [constructor|reflexivity].
  - destruct (cpath_atomic_inv _ _ _ _ H) as [(-> & ->)|(a & p' & -> & H')].
    + exists []. split; [constructor|reflexivity].
    + destruct (IH a _ _ H') as (lp & Hl & He). exists (LBody f a :: lp). split; [constructor; exact Hl|cbn [map erase]; rewrite He; reflexivity].
  - apply cpath_switch_inv in H. destruct (IH _ _ H) as (lp & Hl & He). exists lp. split; [constructor; exact Hl|exact He].
  - apply cpath_log_inv in H. destruct (IH _ _ H) as (lp & Hl & He). exists lp. split; [constructor; exact Hl|exact He].
  - apply cpath_rand_inv in H. destruct H as (v & H). destruct (IH v _ _ H) as (lp & Hl & He). exists lp. split; [econstructor; exact Hl|exact He].
  - rewrite suspend_shape in H. cbn [resume] in H. unfold check_code in H.
    destruct (cpath_atomic_inv _ _ _ _ H) as [(-> & ->)|(a1 & p1 & -> & H1)].
    + exists []. split; [constructor|reflexivity].
    + apply cpath_switch_inv in H1.
      destruct (cpath_atomic_inv _ _ _ _ H1) as [(-> & ->)|(a2 & p2 & -> & H2)].
      * exists [LSleep a1]. split; [constructor|reflexivity].
      * destruct (ans_bool a2) eqn:Hab.
        -- destruct (cpath_ccomp jt oa _ _ H2) as (lp & Hl & He).
           exists (LSleep a1 :: LCheck a2 :: lp). split; [apply fl_susp_abort; assumption|cbn [map erase]; rewrite He; reflexivity].
        -- destruct (IH _ _ H2) as (lp & Hl & He).
           exists (LSleep a1 :: LCheck a2 :: lp). split; [apply fl_susp_retry; assumption|cbn [map erase]; rewrite He; reflexivity].
Qed.

Theorem cpath_spawned : forall jt oa0 b p fin, cpath (spawned jt oa0 b) p fin ->
  exists lp, slpath oa0 b lp fin /\ map (erase jt) lp = p.
Proof.
  intros jt oa0 b p fin H. unfold spawned, check_code in H.
  destruct (cpath_atomic_inv _ _ _ _ H) as [(-> & ->)|(a & p' & -> & H')].
  - exists []. split; [constructor|reflexivity].
  - destruct (ans_bool a) eqn:Hab.
    + destruct (cpath_ccomp jt oa0 _ _ H') as (lp & Hl & He).
      exists (LCheck a :: lp). split; [apply sl_abort; assumption|cbn [map erase]; rewrite He; reflexivity].
    + destruct (cpath_fcomp jt b _ _ H') as (lp & Hl & He).
      exists (LCheck a :: lp). split; [apply sl_body; assumption|cbn [map erase]; rewrite He; reflexivity].
Qed.

(* ... and every labelled path is a path of the compiled code *)
Theorem clpath_cpath : forall jt c lp fin, clpath c lp fin -> cpath (ccomp jt c) (map (erase jt) lp) fin.
Proof.
  intros jt c lp fin H; induction H; cbn [ccomp map erase].
  - apply cp_atomic; constructor.
  - apply cp_fail.
  - apply cp_fail.
  - apply cp_atomic; assumption.
  - apply cp_switch; assumption.
  - apply cp_log; assumption.
Qed.

Theorem flpath_cpath : forall jt b lp fin, flpath b lp fin -> cpath (fcomp jt b) (map (erase jt) lp) fin.
Proof.
  intros jt b lp fin H; induction H; cbn [fcomp map erase]; rewrite ?suspend_shape; cbn [resume]; unfold check_code.
  - apply cp_atomic; constructor.
  - apply cp_fail.
  - apply cp_panic.
  - apply cp_fail.
  - apply cp_atomic; assumption.
  - apply cp_switch; assumption.
  - apply cp_log; assumption.
  - eapply cp_rand; eassumption.
  - apply cp_fail.
  - apply cp_atomic, cp_switch, cp_fail.
  - apply cp_atomic, cp_switch, cp_atomic. rewrite H. apply clpath_cpath; assumption.
  - apply cp_atomic, cp_switch, cp_atomic. rewrite H. assumption.
Qed.

Theorem slpath_cpath : forall jt oa0 b lp fin, slpath oa0 b lp fin -> cpath (spawned jt oa0 b) (map (erase jt) lp) fin.
Proof.
  intros jt oa0 b lp fin H; destruct H as [|a p fin Hab Hc|a p fin Hab Hf]; unfold spawned, check_code; cbn [map erase].
  - constructor.
  - apply cp_atomic. rewrite Hab. apply clpath_cpath; assumption.
  - apply cp_atomic. rewrite Hab. apply flpath_cpath; assumption.
Qed.

(* ---- properties of labelled paths ---- *)
Lemma clpath_props : forall c lp fin, clpath c lp fin ->
  Forall is_cancel_ev lp /\ existsb saw_abort lp = false /\ finishes lp = (if fin then [None] else []).
Proof.
  intros c lp fin H; induction H; try assumption.
  - repeat split. constructor; [exact I|constructor].
  - repeat split. constructor.
  - repeat split. constructor.
  - destruct IHclpath as (Hf & Hs & Hfi). repeat split.
    + constructor; [exact I|exact Hf].
    + cbn [existsb saw_abort]. exact Hs.
    + cbn [finishes flat_map app]. exact Hfi.
Qed.

(* the conclusion shared by the body and the whole task *)
Definition cancel_shape (lp : list lev) (fin : bool) : Prop :=
  (* the result is published at most once, and only at the very end of a path that reaches Ret *)
  (fin = false -> finishes lp = []) /\
  (fin = true -> exists r, finishes lp = [r] /\
     (* Cancelled exactly when one of the abort checks observed the flag set *)
     (r = None <-> existsb saw_abort lp = true)) /\
  (* after the first check that observes the flag: only destructor blocks and finish(Err(Cancelled)) -
     no block of the body, no further check, no sleep *)
  (existsb saw_abort lp = true ->
     exists pre a post, lp = pre ++ LCheck a :: post /\ ans_bool a = true /\
       existsb saw_abort pre = false /\ finishes pre = [] /\ Forall is_cancel_ev post).

Lemma cancel_shape_cons_neutral : forall l lp fin,
  saw_abort l = false -> (match l with LFinish _ _ => False | _ => True end) ->
  cancel_shape lp fin -> cancel_shape (l :: lp) fin.
Proof.
  intros l lp fin Hs Hnf (H1 & H2 & H3).
  assert (Hfi : finishes (l :: lp) = finishes lp) by (destruct l; cbn [finishes flat_map app] in *; auto; contradiction).
  assert (Hex : existsb saw_abort (l :: lp) = existsb saw_abort lp) by (cbn [existsb]; rewrite Hs; reflexivity).
  split; [|split].
  - intros Hf. rewrite Hfi. auto.
  - intros Hf. destruct (H2 Hf) as (r & Hr & Hiff). exists r. rewrite Hfi, Hex. auto.
  - rewrite Hex. intros He. destruct (H3 He) as (pre & a & post & -> & Ha & Hpre & Hfp & Hpost).
    exists (l :: pre), a, post. repeat split; auto.
    + cbn [existsb]. rewrite Hs. exact Hpre.
    + destruct l; cbn [finishes flat_map app] in *; try contradiction; exact Hfp.
Qed.

Lemma cancel_shape_abort : forall a c lp fin, ans_bool a = true -> clpath c lp fin -> cancel_shape (LCheck a :: lp) fin.
Proof.
  intros a c lp fin Ha Hc. destruct (clpath_props c lp fin Hc) as (Hf & Hs & Hfi).
  split; [|split].
  - intros ->. cbn [finishes flat_map app]. exact Hfi.
  - intros ->. exists None. cbn [finishes flat_map app]. split; [exact Hfi|].
    split; [intros _; cbn [existsb saw_abort]; rewrite Ha; reflexivity|reflexivity].
  - intros _. exists [], a, lp. repeat split; auto.
Qed.

Theorem flpath_cancel_shape : forall b lp fin, flpath b lp fin -> cancel_shape lp fin.
Proof.
  intros b lp fin H; induction H; try assumption.
  - split; [discriminate|]. split.
    + intros _. exists (Some v). split; [reflexivity|]. split; [discriminate|cbn; discriminate].
    + cbn; discriminate.
  - split; [reflexivity|]. split; [discriminate|cbn; discriminate].
  - split; [reflexivity|]. split; [discriminate|cbn; discriminate].
  - split; [reflexivity|]. split; [discriminate|cbn; discriminate].
  - apply cancel_shape_cons_neutral; [reflexivity|exact I|exact IHflpath].
  - split; [reflexivity|]. split; [discriminate|cbn; discriminate].
  - split; [reflexivity|]. split; [discriminate|cbn; discriminate].
  - apply cancel_shape_cons_neutral; [reflexivity|exact I|]. eapply cancel_shape_abort; eassumption.
  - apply cancel_shape_cons_neutral; [reflexivity|exact I|].
    apply cancel_shape_cons_neutral; [exact H|exact I|exact IHflpath].
Qed.

(* cancel_iff_abort_first, for the whole task *)
Theorem slpath_cancel_shape : forall oa0 b lp fin, slpath oa0 b lp fin -> cancel_shape lp fin.
Proof.
  intros oa0 b lp fin H; destruct H as [|a p fin Hab Hc|a p fin Hab Hf].
  - split; [reflexivity|]. split; [discriminate|cbn; discriminate].
  - eapply cancel_shape_abort; eassumption.
  - apply cancel_shape_cons_neutral; [exact Hab|exact I|]. eapply flpath_cancel_shape; exact Hf.
Qed.

Theorem cancel_iff_abort_first : forall jt oa0 b p fin,
  cpath (spawned jt oa0 b) p fin ->
  exists lp, slpath oa0 b lp fin /\ map (erase jt) lp = p /\ cancel_shape lp fin.
Proof.
  intros jt oa0 b p fin H. destruct (cpath_spawned jt oa0 b p fin H) as (lp & Hl & He).
  exists lp. split; [exact Hl|]. split; [exact He|]. eapply slpath_cancel_shape; exact Hl.
Qed.

(* ------------------------------------------------------------------ *)
(* 5. the stored waker is the current poller                            *)
(* ------------------------------------------------------------------ *)
Theorem join_poll_stores_poller : forall e st jt c m j,
  me e = Some m -> joins_get st jt c = Some j -> ji_result j = None ->
  exists st', join_poll e st jt c = Some (e, st', None) /\
    joins_get st' jt c = Some (mkJoin None (Some m) (ji_aborted j)).
Proof.
  intros e st jt c m j Hme Hj Hr. rewrite (join_poll_spec e st jt c m j Hme Hj). unfold ji_poll. rewrite Hr. cbn [fst snd].
  eexists. split; [reflexivity|]. apply joins_get_set_eq. eapply joins_get_has; eauto.
Qed.

Lemma acquire_permits_nopermits : forall e s k e1 s1, acquire_permits e s k = Some (e1, s1, ANoPermits) -> e1 = e /\ s1 = s.
Proof.
  intros e s k e1 s1 Ha. unfold acquire_permits in Ha.
  destruct (N.eqb k 0); [discriminate|]. destruct (sm_closed s); [discriminate|].
  destruct ((match sm_queue s with [] => true | _ => false end) || negb (sm_fair s)).
  - destruct (me e) as [m|]; [|discriminate]. destruct (e_clock e m) as [mc|]; [|discriminate].
    destruct (permits_acquire s k mc) as [s' clk| |]; try discriminate.
    + destruct (e_update_clock e m clk); discriminate.
    + inversion Ha; auto.
  - inversion Ha; auto.
Qed.

Theorem sem_poll_stores_waker : forall e s wid wk e' s',
  sem_poll e s wid wk = Some (e', s', PPending) ->
  exists m w', me e = Some m /\ get_waiter s' wid = Some w' /\ wt_waker w' = Some wk /\ wt_task w' = m.
Proof.
  intros e s wid wk e' s' Hp. unfold sem_poll in Hp.
  destruct (get_waiter s wid) as [w|] eqn:Hgw; [|discriminate].
  destruct (me e) as [m|] eqn:Hme; [|discriminate].
  destruct (wt_has w); [destruct (wt_queued w); discriminate|].
  destruct (sm_closed s); [destruct (wt_queued w); discriminate|].
  destruct (negb (Bool.eqb (wt_queued w) (match wt_waker w with Some _ => true | None => false end))); [discriminate|].
  destruct (sm_fair s && wt_queued w).
  - inversion Hp; subst. exists m. eexists. split; [reflexivity|]. rewrite get_upd_eq, Hgw. cbn [option_map]. repeat split.
  - destruct (acquire_permits e s (wt_n w)) as [[[e1 s1] [| |]]|] eqn:Ha; try discriminate.
    + destruct (if wt_queued w then remove_waiter e1 s1 wid else Some (e1, s1)) as [[e2 s2]|]; [|discriminate].
      destruct (reblock_if_unfair e2 _); discriminate.
    + destruct (acquire_permits_nopermits _ _ _ _ _ Ha) as (-> & ->).
      destruct (wt_queued w).
      * inversion Hp; subst. exists m. eexists. split; [reflexivity|]. rewrite get_upd_eq, Hgw. cbn [option_map]. repeat split.
      * destruct (enqueue_waiter _ wid) as [s3|] eqn:Hen; [|discriminate]. inversion Hp; subst.
        unfold enqueue_waiter in Hen. rewrite get_upd_eq, Hgw in Hen. cbn [option_map] in Hen.
        match type of Hen with (if ?a then _ else _) = _ => destruct a; [discriminate|] end.
        match type of Hen with (if ?a then _ else _) = _ => destruct a; [discriminate|] end.
        inversion Hen; subst. exists m. eexists. split; [reflexivity|].
        rewrite get_upd_eq.
        match goal with |- context [get_waiter (set_queue ?x ?q) ?w0] => change (get_waiter (set_queue x q) w0) with (get_waiter x w0) end.
        rewrite get_upd_eq, Hgw. cbn [option_map]. repeat split.
Qed.

(* the blocking acquire passes the current task as the waker's target *)
Theorem sem_poll_blk_stores_current : forall oid wid e st e' st' m,
  me e = Some m -> sem_poll_blk oid wid e st = Some (e', st', [2%N]) ->
  exists o s' w', get_obj st' oid = Some o /\ sem_of o = Some s' /\
    get_waiter s' wid = Some w' /\ wt_waker w' = Some m /\ wt_task w' = m.
Proof.
  intros oid wid e st e' st' m Hme Hb. unfold sem_poll_blk in Hb. rewrite Hme in Hb.
  unfold on_sem in Hb.
  destruct (get_obj st oid) as [o|] eqn:Ho; [|discriminate].
  destruct (sem_of o) as [s|] eqn:Hso; [|discriminate].
  destruct (sem_poll e s wid m) as [[[e1 s1] r]|] eqn:Hp; [|discriminate].
  destruct r; inversion Hb; subst.
  destruct (sem_poll_stores_waker _ _ _ _ _ _ Hp) as (m' & w' & Hme' & Hgw & Hwk & Htk).
  rewrite Hme in Hme'; inversion Hme'; subst m'.
  exists (with_sem o s1), s1, w'. split; [eapply get_set_obj_eq; exact Ho|].
  split; [destruct o; cbn in Hso |- *; try discriminate; reflexivity|]. repeat split; congruence.
Qed.

(* ------------------------------------------------------------------ *)
(* yield_now: the self-wake keeps the task awake across its Pending poll *)
(* ------------------------------------------------------------------ *)
Theorem yield_now_stays_awake : forall e m tk,
  exec_is_finished e = false -> get_task e m = Some tk -> is_finished tk = false -> is_sleeping tk = false ->
  exists e1 e2 tk2,
    e_waker_wake e m = Some e1 /\ e_sleep_unless_woken (e_request_yield e1) m = Some e2 /\
    get_task e2 m = Some tk2 /\ t_state tk2 = t_state tk /\ t_woken tk2 = false /\ has_yielded e2 = true.
Proof.
  intros e m tk Hef Hg Hfin Hns.
  destruct (waker_wake_alive e m tk Hef Hg Hfin) as (e1 & Hw & Hg1 & _ & _).
  assert (Hg1' : get_task (e_request_yield e1) m = Some (wake_task tk)) by exact Hg1.
  assert (Hfin1 : is_finished (wake_task tk) = false) by (rewrite wake_task_finished; exact Hfin).
  destruct (sleep_unless_woken_spec (e_request_yield e1) m (wake_task tk) Hg1' Hfin1)
    as (e2 & tk2 & Hs & Hg2 & Hw2 & _ & Hst & _).
  exists e1, e2, tk2. repeat split; auto.
  - rewrite (Hst (wake_task_woken tk)). apply wake_task_awake_state; exact Hns.
  - unfold e_sleep_unless_woken in Hs. rewrite Hg1' in Hs. rewrite wake_task_woken in Hs.
    destruct (upd_task_fields _ _ _ _ Hs) as (_ & _ & _ & Hy). rewrite Hy. reflexivity.
Qed.
