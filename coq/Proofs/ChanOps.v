(* Specifications of the state-changing channel blocks: chan_send_deliver, chan_recv_take,
   chan_clone_tx, chan_drop_tx, chan_drop_rx — the new channel and the effect on the tasks' states. *)
From Coq Require Import List NArith Bool Arith Lia.
From SV Require Import Clock.VClock Prim.Objects Engine.Exec Prim.Semaphore Prim.SemInv Lang.Code Lang.SyncOps Lang.SyncOps2.
From SV Require Import Proofs.VClockProofs Proofs.SemBase Proofs.ChanBase Proofs.ChanFun.
Import ListNotations.
Open Scope nat_scope.

Lemma set_rclock_id : forall c, set_rclock c (ch_rclock c) = c.
Proof. intros []; reflexivity. Qed.

Lemma set_rclock_msgs_id : forall c ms, set_rclock (set_msgs c ms) (ch_rclock c) = set_msgs c ms.
Proof. intros c ms; reflexivity. Qed.

Ltac csplit := repeat match goal with |- _ /\ _ => split end.

Definition hd_l (l : list nat) : list nat := match l with t :: _ => [t] | [] => [] end.

(* ------------------------------------------------------------------ *)
(* chan_send_deliver                                                   *)
(* ------------------------------------------------------------------ *)
(* whom a delivery wakes: the first waiting receiver, and the next waiting sender if there is room *)
Definition dl_wake (c : chan) (a : nat -> option tstate) : nat -> option tstate :=
  let a1 := match ch_wrecv c with tid :: _ => upd a tid Runnable | [] => a end in
  match ch_wsend c with
  | tid :: _ => match ch_bound c with
                | Some b => if Nat.ltb (S (length (ch_msgs c))) b then upd a1 tid Runnable else a1
                | None => a1 end
  | [] => a1
  end.

Definition dl_rclock (c : chan) : option (list vclock) :=
  if is_rendezvous c then ch_rclock c
  else match ch_rclock c with Some (_ :: rest) => Some rest | x => x end.

Lemma app_length1 : forall {A} (l : list A) x, length (l ++ [x]) = S (length l).
Proof. intros A l x; rewrite app_length; cbn [length]; lia. Qed.

Lemma chan_send_deliver_spec : forall e c v e' c' m,
  chan_send_deliver e c v = Some (e', c') -> me e = Some m ->
  exists mc, c' = set_rclock (set_msgs c (ch_msgs c ++ [(v, mc)])) (dl_rclock c) /\
             eff e e' (dl_wake c) /\
             (ch_wsend c <> [] -> ch_bound c <> None) /\
             (is_rendezvous c = false -> ch_rclock c <> Some []).
Proof.
  intros e c v e' c' m Hd Hme; unfold chan_send_deliver in Hd; rewrite Hme in Hd.
  destruct (e_increment_clock e m) as [e1|] eqn:Hi; [|discriminate].
  destruct (e_increment_clock_spec _ _ _ Hi) as ((Hm1 & Hs1) & _).
  destruct (e_clock e1 m) as [mc|] eqn:Hc; [|discriminate].
  exists mc.
  set (c1 := set_msgs c (ch_msgs c ++ [(v, mc)])) in *.
  assert (Hrdv1 : is_rendezvous c1 = is_rendezvous c) by reflexivity.
  cbv zeta in Hd. change (ch_wrecv c1) with (ch_wrecv c) in Hd. change (ch_wsend c1) with (ch_wsend c) in Hd.
  change (ch_bound c1) with (ch_bound c) in Hd. change (ch_rclock c1) with (ch_rclock c) in Hd.
  change (length (ch_msgs c1)) with (length (ch_msgs c ++ [(v, mc)])) in Hd. rewrite app_length1 in Hd.
  rewrite Hrdv1 in Hd.
  (* step 1: wake the first waiting receiver *)
  match type of Hd with match ?X with _ => _ end = _ => destruct X as [e2|] eqn:H2; [|discriminate] end.
  assert (Hef2 : eff e e2 (fun a => match ch_wrecv c with tid :: _ => upd a tid Runnable | [] => a end)).
  { destruct (ch_wrecv c) as [|tid wr].
    - inversion H2; subst. split; [assumption|exact Hs1].
    - destruct (e_unblock e1 tid) as [eu|] eqn:Hu; [|discriminate].
      destruct (e_unblock_spec _ _ _ Hu) as ((Hmu & Hsu) & _).
      destruct (is_rendezvous c).
      + destruct (e_clock eu tid) as [rc|]; [|discriminate].
        destruct (e_update_clock_spec _ _ _ _ H2) as ((Hm3 & Hs3) & _).
        split; [congruence|]. intros x. rewrite Hs3, Hsu. unfold upd. rewrite Hs1. reflexivity.
      + inversion H2; subst. split; [congruence|]. intros x. rewrite Hsu. unfold upd. rewrite Hs1. reflexivity. }
  (* step 2: wake the next waiting sender *)
  match type of Hd with match ?X with _ => _ end = _ => destruct X as [e3|] eqn:H3; [|discriminate] end.
  assert (Hef3 : eff e e3 (dl_wake c) /\ (ch_wsend c <> [] -> ch_bound c <> None)).
  { unfold dl_wake. destruct Hef2 as (Hm2 & Hs2).
    destruct (ch_wsend c) as [|tid ws].
    - inversion H3; subst. split; [split; assumption|]. intros Hcc; congruence.
    - destruct (ch_bound c) as [b|]; [|discriminate].
      split; [|intros _; discriminate].
      destruct (Nat.ltb (S (length (ch_msgs c))) b).
      + destruct (e_unblock_spec _ _ _ H3) as ((Hmu & Hsu) & _).
        split; [congruence|]. intros x. rewrite Hsu. unfold upd at 1 2. destruct (Nat.eqb x tid); auto.
      + inversion H3; subst. split; assumption. }
  destruct Hef3 as (Hef3 & Hbnd).
  (* step 3: the receiver clock *)
  unfold dl_rclock.
  destruct (is_rendezvous c) eqn:Hrdv; cbn [negb] in Hd.
  - inversion Hd; subst. unfold c1. rewrite set_rclock_msgs_id.
    split; [reflexivity|]. split; [exact Hef3|]. split; [exact Hbnd|]. intros Hcc; discriminate.
  - destruct (ch_rclock c) as [[|rc rest]|] eqn:Hrc; [discriminate| |].
    + destruct (e_update_clock e3 m rc) as [e4|] eqn:H4; [|discriminate].
      destruct (e_update_clock_spec _ _ _ _ H4) as ((Hm4 & Hs4) & _).
      inversion Hd; subst. split; [reflexivity|]. split; [|split; [exact Hbnd|intros _; discriminate]].
      destruct Hef3 as (Hm3 & Hs3). split; [congruence|].
      intros x. rewrite Hs4. apply Hs3.
    + inversion Hd; subst. unfold c1. rewrite <- Hrc, set_rclock_msgs_id.
      split; [reflexivity|]. split; [exact Hef3|]. split; [exact Hbnd|]. intros _; rewrite Hrc; discriminate.
Qed.

(* ------------------------------------------------------------------ *)
(* chan_recv_take                                                      *)
(* ------------------------------------------------------------------ *)
Definition tk_wake (c : chan) (rest : list (N * vclock)) (a : nat -> option tstate) : nat -> option tstate :=
  let a1 := match ch_wsend c with
            | tid :: _ => match ch_bound c with
                          | Some b => if Nat.ltb 0 b || negb (nilb (ch_wrecv c)) then upd a tid Runnable else a
                          | None => a end
            | [] => a end in
  match ch_wrecv c with
  | tid :: _ => if negb (nilb rest) then upd a1 tid Runnable else a1
  | [] => a1
  end.

Lemma chan_recv_take_spec : forall e c e' c' v m,
  chan_recv_take e c = Some (e', c', v) -> me e = Some m ->
  exists vc rest rc', ch_msgs c = (v, vc) :: rest /\ c' = set_rclock (set_msgs c rest) rc' /\
    eff e e' (tk_wake c rest) /\
    (ch_wsend c <> [] -> ch_bound c <> None) /\
    match ch_rclock c, ch_bound c with
    | Some rc, Some (S b) => (exists mc, rc' = Some (rc ++ [mc])) /\ length rc < S b
    | Some _, None => False
    | _, _ => rc' = ch_rclock c
    end.
Proof.
  intros e c e' c' v m Ht Hme; unfold chan_recv_take in Ht; rewrite Hme in Ht.
  destruct (ch_msgs c) as [|[v0 vc] rest] eqn:Hmsgs; [discriminate|].
  set (c1 := set_msgs c rest) in *.
  cbv zeta in Ht. change (ch_wrecv c1) with (ch_wrecv c) in Ht. change (ch_wsend c1) with (ch_wsend c) in Ht.
  change (ch_bound c1) with (ch_bound c) in Ht. change (ch_rclock c1) with (ch_rclock c) in Ht.
  change (ch_msgs c1) with rest in Ht.
  fold (nilb (ch_wrecv c)) in Ht. fold (nilb rest) in Ht.
  match type of Ht with match ?X with _ => _ end = _ => destruct X as [e1|] eqn:H1; [|discriminate] end.
  set (f1 := fun a : nat -> option tstate => match ch_wsend c with
            | tid :: _ => match ch_bound c with
                          | Some b => if Nat.ltb 0 b || negb (nilb (ch_wrecv c)) then upd a tid Runnable else a
                          | None => a end
            | [] => a end).
  assert (Hef1 : eff e e1 f1 /\ (ch_wsend c <> [] -> ch_bound c <> None)).
  { unfold f1. destruct (ch_wsend c) as [|tid ws].
    - inversion H1; subst. split; [apply eff_id|congruence].
    - destruct (ch_bound c) as [b|]; [|discriminate]. split; [|intros _; discriminate].
      destruct (Nat.ltb 0 b || negb (nilb (ch_wrecv c))).
      + destruct (e_unblock_spec _ _ _ H1) as (Hef & _). exact Hef.
      + inversion H1; subst. apply eff_id. }
  destruct Hef1 as ((Hm1 & Hs1) & Hbnd).
  match type of Ht with match ?X with _ => _ end = _ => destruct X as [e2|] eqn:H2; [|discriminate] end.
  assert (Hef2 : eff e e2 (tk_wake c rest)).
  { unfold tk_wake. fold f1. destruct (ch_wrecv c) as [|tid wr].
    - inversion H2; subst. split; assumption.
    - destruct (negb (nilb rest)).
      + destruct (e_unblock_spec _ _ _ H2) as ((Hmu & Hsu) & _). split; [congruence|].
        intros x. rewrite Hsu. unfold upd. destruct (Nat.eqb x tid); auto.
      + inversion H2; subst. split; assumption. }
  destruct (e_join_clock e2 m vc) as [e3|] eqn:H3; [|discriminate].
  destruct (e_join_clock_spec _ _ _ _ H3) as ((Hm3 & Hs3) & _).
  assert (Hef3 : eff e e3 (tk_wake c rest)).
  { destruct Hef2 as (Hm2 & Hs2). split; [congruence|]. intros x; rewrite Hs3; apply Hs2. }
  exists vc, rest.
  destruct (ch_rclock c) as [rc|] eqn:Hrc.
  - destruct (ch_bound c) as [b|] eqn:Hb; [|discriminate].
    destruct (e_clock e3 m) as [mc|] eqn:Hmc.
    + destruct b as [|b].
      * change (Nat.ltb 0 0) with false in Ht. cbv iota in Ht. inversion Ht; subst. exists (Some rc). csplit; auto.
        rewrite <- Hrc. unfold c1. rewrite set_rclock_msgs_id. reflexivity.
      * change (Nat.ltb 0 (S b)) with true in Ht. cbv iota in Ht.
        destruct (Nat.ltb_spec (length rc) (S b)) as [Hlt|Hge]; [|discriminate].
        inversion Ht; subst. exists (Some (rc ++ [mc])). csplit; eauto.
    + destruct b as [|b].
      * inversion Ht; subst. exists (Some rc). csplit; auto.
        rewrite <- Hrc. unfold c1. rewrite set_rclock_msgs_id. reflexivity.
      * exfalso. destruct (e_join_clock_spec _ _ _ _ H3) as (_ & c0 & _ & Hset & _). congruence.
  - exists None.
    assert (Hc1 : c1 = set_rclock c1 None).
    { rewrite <- Hrc. unfold c1. rewrite set_rclock_msgs_id. reflexivity. }
    assert (Hres : Some (e3, c1, v0) = Some (e', c', v)).
    { destruct (ch_bound c); destruct (e_clock e3 m); exact Ht. }
    inversion Hres; subst. csplit; auto.
Qed.

(* ------------------------------------------------------------------ *)
(* clone / drop (on a store holding just the channel)                  *)
(* ------------------------------------------------------------------ *)
Lemma chan_clone_tx_spec : forall e c e' st',
  chan_clone_tx e [OChan c] 0 = Some (e', st') -> e' = e /\ st' = [OChan (set_senders c (S (ch_senders c)))].
Proof. intros e c e' st' H; cbv in H; inversion H; subst; auto. Qed.

Lemma should_stop_me : forall e m, me e = Some m -> should_stop e = Some (panicking e).
Proof.
  intros e m Hme; unfold should_stop, me in *. destruct (current e); try discriminate.
  destruct (panicking e); reflexivity.
Qed.

Lemma chan_drop_tx_spec : forall e c e' st' m,
  chan_drop_tx e [OChan c] 0 = Some (e', st') -> me e = Some m ->
  (panicking e = true /\ e' = e /\ st' = [OChan c]) \/
  (panicking e = false /\ exists n, ch_senders c = S n /\ st' = [OChan (set_senders c n)] /\
     ((n = 0 /\ unblock_all e (ch_wrecv c) = Some e') \/ (n <> 0 /\ e' = e))).
Proof.
  intros e c e' st' m H Hme; unfold chan_drop_tx in H. rewrite (should_stop_me e m Hme) in H.
  destruct (panicking e); [inversion H; subst; left; auto|right; split; [reflexivity|]].
  unfold on_chan in H; cbn [get_obj nth_error] in H.
  destruct (ch_senders c) as [|n] eqn:Hs; [discriminate|]. exists n. split; [reflexivity|].
  destruct (Nat.eqb_spec n 0) as [->|Hne].
  - change (ch_wrecv (set_senders c 0)) with (ch_wrecv c) in H.
    destruct (unblock_all e (ch_wrecv c)) as [e1|] eqn:Hu; [|discriminate].
    inversion H; subst. cbn [set_obj]. auto.
  - inversion H; subst. cbn [set_obj]. auto.
Qed.

Lemma chan_drop_rx_spec : forall e c e' st' m,
  chan_drop_rx e [OChan c] 0 = Some (e', st') -> me e = Some m ->
  (panicking e = true /\ e' = e /\ st' = [OChan c]) \/
  (panicking e = false /\ exists n, ch_receivers c = S n /\ st' = [OChan (set_receivers c n)] /\
     ((n = 0 /\ unblock_all e (ch_wsend c) = Some e') \/ (n <> 0 /\ e' = e))).
Proof.
  intros e c e' st' m H Hme; unfold chan_drop_rx in H. rewrite (should_stop_me e m Hme) in H.
  destruct (panicking e); [inversion H; subst; left; auto|right; split; [reflexivity|]].
  unfold on_chan in H; cbn [get_obj nth_error] in H.
  destruct (ch_receivers c) as [|n] eqn:Hs; [discriminate|]. exists n. split; [reflexivity|].
  destruct (Nat.eqb_spec n 0) as [->|Hne].
  - change (ch_wsend (set_receivers c 0)) with (ch_wsend c) in H.
    destruct (unblock_all e (ch_wsend c)) as [e1|] eqn:Hu; [|discriminate].
    inversion H; subst. cbn [set_obj]. auto.
  - inversion H; subst. cbn [set_obj]. auto.
Qed.
