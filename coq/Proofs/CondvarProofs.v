(* ------------------------------------------------------------------------- *)
(*  SV.Proofs.CondvarProofs : property C05, Condvar part                      *)
(*  (shuttle-std/src/sync/condvar.rs as modelled in Lang/SyncOps2.v).         *)
(*                                                                            *)
(*  PART 0  facts about the store and the task table shared by the three      *)
(*          C05 proof files (st_of, e_block / e_unblock / clock calls).       *)
(*  PART 1  the blocks of the condvar (cv_enqueue, cv_wake, cv_consume_epoch, *)
(*          cv_notify_one, cv_notify_all) : exact functional specifications.  *)
(*  PART 2  the transition system whose steps are these blocks, run by any    *)
(*          task in any engine state, interleaved with arbitrary environment  *)
(*          steps, with ghost state (consumed epochs, the value of next_epoch *)
(*          and the number of broadcasts when a waiter was enqueued);         *)
(*          the invariant CvInv and its preservation.                         *)
(*  PART 3  the clauses of C05 derived from the invariant.                    *)
(*  PART 4  the shape of cv_wait_code / cv_notify_code.                       *)
(* ------------------------------------------------------------------------- *)
From Coq Require Import List NArith Bool Arith Lia Sorted.
From SV Require Import Params Clock.VClock Prim.Objects Engine.Exec Prim.Semaphore
                       Lang.Code Lang.SyncOps Lang.SyncOps2 Proofs.SemBase.
Import ListNotations.
Local Open Scope nat_scope.

(* ========================================================================= *)
(*  PART 0 : store and task table                                             *)
(* ========================================================================= *)
Lemma get_set_obj_eq : forall (s : store) i o o0,
  get_obj s i = Some o0 -> get_obj (set_obj s i o) i = Some o.
Proof.
  unfold get_obj; intros s; induction s as [|x r IH]; intros [|i] o o0 Hg; cbn [set_obj nth_error] in *;
    try discriminate; eauto.
Qed.

Lemma get_set_obj_neq : forall (s : store) i j o,
  i <> j -> get_obj (set_obj s i o) j = get_obj s j.
Proof.
  unfold get_obj; intros s; induction s as [|x r IH]; intros [|i] [|j] o Hij; cbn [set_obj nth_error] in *;
    try congruence; auto.
Qed.

(* the scheduling state of a task, and its clock *)
Definition st_of (e : exec) (t : nat) : option tstate :=
  match get_task e t with Some tk => Some (t_state tk) | None => None end.
Definition clk_of (e : exec) (t : nat) : option vclock :=
  match get_task e t with Some tk => Some (t_clock tk) | None => None end.

Lemma upd_task_spec : forall e t f e',
  upd_task e t f = Some e' ->
  me e' = me e /\ (forall t', t' <> t -> get_task e' t' = get_task e t') /\
  exists tk, get_task e t = Some tk /\ get_task e' t = Some (f tk).
Proof.
  intros e t f e' Hu.
  destruct (upd_task_get e t f e' Hu) as (Hsame & Hother & _ & _ & Hcur & _).
  split; [unfold me; rewrite Hcur; reflexivity|].
  split; [intros t' Hne; apply Hother; congruence|].
  unfold upd_task in Hu. destruct (get_task e t) as [tk|] eqn:Hg; [|discriminate].
  exists tk; split; [reflexivity|]. rewrite Hsame; reflexivity.
Qed.

Lemma upd_task_succ : forall e t f tk, get_task e t = Some tk -> exists e', upd_task e t f = Some e'.
Proof. intros e t f tk Hg; unfold upd_task; rewrite Hg; eauto. Qed.

Lemma e_block_spec : forall e t b e',
  e_block e t b = Some e' ->
  me e' = me e /\ (forall t', t' <> t -> get_task e' t' = get_task e t') /\
  exists tk, get_task e t = Some tk /\ is_finished tk = false /\ get_task e' t = Some (set_state tk (Blocked b)).
Proof.
  intros e t b e' Hb; unfold e_block in Hb.
  destruct (get_task e t) as [tk|] eqn:Hg; [|discriminate].
  destruct (is_finished tk) eqn:Hf; [discriminate|].
  destruct (upd_task_spec _ _ _ _ Hb) as (Hme & Hoth & tk' & Hg' & Hn).
  rewrite Hg in Hg'; inversion Hg'; subst tk'.
  split; [exact Hme|]. split; [exact Hoth|]. exists tk; auto.
Qed.

Lemma e_unblock_spec : forall e t e',
  e_unblock e t = Some e' ->
  me e' = me e /\ (forall t', t' <> t -> get_task e' t' = get_task e t') /\
  exists tk, get_task e t = Some tk /\ is_finished tk = false /\ get_task e' t = Some (unblock_task tk).
Proof.
  intros e t e' Hb; unfold e_unblock in Hb.
  destruct (get_task e t) as [tk|] eqn:Hg; [|discriminate].
  destruct (is_finished tk) eqn:Hf; [discriminate|].
  destruct (upd_task_spec _ _ _ _ Hb) as (Hme & Hoth & tk' & Hg' & Hn).
  rewrite Hg in Hg'; inversion Hg'; subst tk'.
  split; [exact Hme|]. split; [exact Hoth|]. exists tk; auto.
Qed.

Definition alive (e : exec) (t : nat) : Prop :=
  exists s, st_of e t = Some s /\ s <> Finished.

Lemma alive_get : forall e t, alive e t <-> exists tk, get_task e t = Some tk /\ is_finished tk = false.
Proof.
  intros e t; unfold alive, st_of; split.
  - intros (s & Hs & Hne). destruct (get_task e t) as [tk|]; [|discriminate].
    inversion Hs; subst s. exists tk; split; [reflexivity|].
    unfold is_finished; destruct (t_state tk); congruence.
  - intros (tk & Hg & Hf). rewrite Hg. exists (t_state tk); split; [reflexivity|].
    unfold is_finished in Hf; destruct (t_state tk); congruence.
Qed.

Lemma e_block_succ : forall e t b, alive e t -> exists e', e_block e t b = Some e'.
Proof.
  intros e t b Ha; apply alive_get in Ha; destruct Ha as (tk & Hg & Hf).
  unfold e_block; rewrite Hg, Hf. eapply upd_task_succ; exact Hg.
Qed.

Lemma e_unblock_succ : forall e t, alive e t -> exists e', e_unblock e t = Some e'.
Proof.
  intros e t Ha; apply alive_get in Ha; destruct Ha as (tk & Hg & Hf).
  unfold e_unblock; rewrite Hg, Hf. eapply upd_task_succ; exact Hg.
Qed.

Lemma e_block_st : forall e t b e',
  e_block e t b = Some e' ->
  me e' = me e /\ st_of e' t = Some (Blocked b) /\ alive e t /\
  (forall t', t' <> t -> st_of e' t' = st_of e t') /\ (forall t', clk_of e' t' = clk_of e t').
Proof.
  intros e t b e' Hb. destruct (e_block_spec _ _ _ _ Hb) as (Hme & Hoth & tk & Hg & Hf & Hg').
  split; [exact Hme|]. split; [unfold st_of; rewrite Hg'; reflexivity|].
  split; [apply alive_get; eauto|].
  split; [intros t' Hne; unfold st_of; rewrite (Hoth t' Hne); reflexivity|].
  intros t'; unfold clk_of. destruct (Nat.eq_dec t' t) as [->|Hne].
  - rewrite Hg, Hg'; reflexivity.
  - rewrite (Hoth t' Hne); reflexivity.
Qed.

Lemma e_unblock_st : forall e t e',
  e_unblock e t = Some e' ->
  me e' = me e /\ st_of e' t = Some Runnable /\ alive e t /\
  (forall t', t' <> t -> st_of e' t' = st_of e t') /\ (forall t', clk_of e' t' = clk_of e t').
Proof.
  intros e t e' Hb. destruct (e_unblock_spec _ _ _ Hb) as (Hme & Hoth & tk & Hg & Hf & Hg').
  split; [exact Hme|]. split; [unfold st_of; rewrite Hg'; reflexivity|].
  split; [apply alive_get; eauto|].
  split; [intros t' Hne; unfold st_of; rewrite (Hoth t' Hne); reflexivity|].
  intros t'; unfold clk_of. destruct (Nat.eq_dec t' t) as [->|Hne].
  - rewrite Hg, Hg'; reflexivity.
  - rewrite (Hoth t' Hne); reflexivity.
Qed.

(* the clock calls change clocks only *)
Definition only_clocks (e e' : exec) : Prop :=
  me e' = me e /\
  forall t, match get_task e t, get_task e' t with
            | Some tk, Some tk' => tk' = set_clock tk (t_clock tk')
            | None, None => True
            | _, _ => False
            end.

Lemma only_clocks_refl : forall e, only_clocks e e.
Proof.
  intros e; split; [reflexivity|]. intros t; destruct (get_task e t) as [tk|]; [|exact I].
  destruct tk; reflexivity.
Qed.

Lemma only_clocks_trans : forall e1 e2 e3, only_clocks e1 e2 -> only_clocks e2 e3 -> only_clocks e1 e3.
Proof.
  intros e1 e2 e3 (M1 & H1) (M2 & H2); split; [congruence|].
  intros t; specialize (H1 t); specialize (H2 t).
  destruct (get_task e1 t) as [a|], (get_task e2 t) as [b|], (get_task e3 t) as [c|]; try tauto.
  rewrite H2, H1. destruct a; reflexivity.
Qed.

Lemma only_clocks_st : forall e e', only_clocks e e' -> forall t, st_of e' t = st_of e t.
Proof.
  intros e e' (_ & H) t; specialize (H t); unfold st_of.
  destruct (get_task e t) as [a|], (get_task e' t) as [b|]; try tauto.
  rewrite H; reflexivity.
Qed.

Lemma only_clocks_me : forall e e', only_clocks e e' -> me e' = me e.
Proof. intros e e' (H & _); exact H. Qed.

Lemma upd_task_set_clock : forall e t g e',
  upd_task e t (fun tk => set_clock tk (g tk)) = Some e' -> only_clocks e e'.
Proof.
  intros e t g e' Hu. destruct (upd_task_spec _ _ _ _ Hu) as (Hme & Hoth & tk & Hg & Hg').
  split; [exact Hme|]. intros t'. destruct (Nat.eq_dec t' t) as [->|Hne].
  - rewrite Hg, Hg'. reflexivity.
  - rewrite (Hoth t' Hne). destruct (get_task e t') as [a|]; [|exact I]. destruct a; reflexivity.
Qed.

Lemma e_increment_clock_only : forall e t e', e_increment_clock e t = Some e' -> only_clocks e e'.
Proof.
  intros e t e' H; unfold e_increment_clock in H.
  destruct (get_task e t) as [tk|]; [|discriminate].
  destruct (increment (t_clock tk) t) as [c|]; [|discriminate].
  exact (upd_task_set_clock e t (fun _ => c) e' H).
Qed.

Lemma e_join_clock_only : forall e t c e', e_join_clock e t c = Some e' -> only_clocks e e'.
Proof. intros e t c e' H; unfold e_join_clock in H. exact (upd_task_set_clock e t _ e' H). Qed.

Lemma e_update_clock_only : forall e t c e', e_update_clock e t c = Some e' -> only_clocks e e'.
Proof.
  intros e t c e' H; unfold e_update_clock in H.
  destruct (e_increment_clock e t) as [e1|] eqn:H1; [|discriminate].
  eapply only_clocks_trans; [eapply e_increment_clock_only; exact H1|eapply e_join_clock_only; exact H].
Qed.

(* when the clock update of task t cannot fail: its own entry exists and is below u32::MAX *)
Definition inc_ok (e : exec) (t : nat) : Prop :=
  exists c x, clk_of e t = Some c /\ nth_error c t = Some x /\ (x < u32_max)%N.

Lemma e_increment_clock_succ : forall e t, inc_ok e t -> exists e', e_increment_clock e t = Some e'.
Proof.
  intros e t (c & x & Hc & Hn & Hx). unfold clk_of in Hc.
  destruct (get_task e t) as [tk|] eqn:Hg; [|discriminate]. inversion Hc; subst c.
  unfold e_increment_clock, increment; rewrite Hg, Hn.
  apply N.ltb_lt in Hx; rewrite Hx. eapply upd_task_succ; exact Hg.
Qed.

Lemma e_update_clock_succ : forall e t c, inc_ok e t -> exists e', e_update_clock e t c = Some e'.
Proof.
  intros e t c Hok. destruct (e_increment_clock_succ e t Hok) as (e1 & H1).
  unfold e_update_clock; rewrite H1.
  pose proof (e_increment_clock_only _ _ _ H1) as (_ & Ho). specialize (Ho t).
  destruct Hok as (c0 & x & Hc & _). unfold clk_of in Hc.
  destruct (get_task e t) as [tk|]; [|discriminate].
  destruct (get_task e1 t) as [tk1|] eqn:Hg1; [|tauto].
  unfold e_join_clock. eapply upd_task_succ; exact Hg1.
Qed.

Lemma inc_ok_clk : forall e e' t, clk_of e' t = clk_of e t -> inc_ok e t -> inc_ok e' t.
Proof. intros e e' t Heq (c & x & Hc & H); exists c, x; rewrite Heq; auto. Qed.

Lemma e_block_alive : forall e t b e' t', e_block e t b = Some e' -> alive e t' -> alive e' t'.
Proof.
  intros e t b e' t' Hb Ha. destruct (e_block_st _ _ _ _ Hb) as (_ & Hs & _ & Ho & _).
  destruct (Nat.eq_dec t' t) as [->|Hne].
  - exists (Blocked b); split; [exact Hs|discriminate].
  - unfold alive; rewrite (Ho t' Hne); exact Ha.
Qed.

Lemma e_unblock_alive : forall e t e' t', e_unblock e t = Some e' -> alive e t' -> alive e' t'.
Proof.
  intros e t e' t' Hb Ha. destruct (e_unblock_st _ _ _ Hb) as (_ & Hs & _ & Ho & _).
  destruct (Nat.eq_dec t' t) as [->|Hne].
  - exists Runnable; split; [exact Hs|discriminate].
  - unfold alive; rewrite (Ho t' Hne); exact Ha.
Qed.

(* association lists keyed by task id *)
Lemma assoc_get_In : forall {A} (l : list (nat * A)) k v, assoc_get l k = Some v -> In (k, v) l.
Proof.
  intros A l; induction l as [|[k' v'] r IH]; intros k v H; cbn [assoc_get] in H; [discriminate|].
  destruct (Nat.eqb_spec k k') as [->|Hne].
  - inversion H; subst; left; reflexivity.
  - right; apply IH; exact H.
Qed.

Lemma assoc_get_None : forall {A} (l : list (nat * A)) k, assoc_get l k = None <-> ~ In k (map fst l).
Proof.
  intros A l; induction l as [|[k' v'] r IH]; intros k; cbn [assoc_get map fst In].
  - split; [intros _ []|reflexivity].
  - destruct (Nat.eqb_spec k k') as [->|Hne].
    + split; [discriminate|]. intros H; exfalso; apply H; left; reflexivity.
    + rewrite IH. split; [intros H [Heq|Hin]; [congruence|tauto]|tauto].
Qed.

Lemma assoc_get_NoDup : forall {A} (l : list (nat * A)) k v,
  NoDup (map fst l) -> In (k, v) l -> assoc_get l k = Some v.
Proof.
  intros A l; induction l as [|[k' v'] r IH]; intros k v Hnd Hin; cbn [assoc_get map fst] in *; [contradiction|].
  inversion Hnd as [|x xs Hnotin Hnd']; subst.
  destruct Hin as [Heq|Hin].
  - inversion Heq; subst. rewrite Nat.eqb_refl; reflexivity.
  - destruct (Nat.eqb_spec k k') as [->|Hne].
    + exfalso; apply Hnotin. apply (in_map fst) in Hin; exact Hin.
    + apply IH; assumption.
Qed.

Lemma assoc_remove_In : forall {A} (l : list (nat * A)) k p, In p (assoc_remove l k) -> In p l.
Proof.
  intros A l; induction l as [|[k' v'] r IH]; intros k p H; cbn [assoc_remove] in H; [contradiction|].
  destruct (Nat.eqb k k'); [right; exact H|].
  destruct H as [H|H]; [left; exact H|right; eapply IH; exact H].
Qed.

Lemma assoc_remove_keys : forall {A} (l : list (nat * A)) k t,
  NoDup (map fst l) -> (In t (map fst (assoc_remove l k)) <-> In t (map fst l) /\ t <> k).
Proof.
  intros A l; induction l as [|[k' v'] r IH]; intros k t Hnd; cbn [assoc_remove map fst In] in *.
  - tauto.
  - inversion Hnd as [|x xs Hnotin Hnd']; subst.
    destruct (Nat.eqb_spec k k') as [->|Hne].
    + split.
      * intros Hin; split; [right; exact Hin|]. intros ->; contradiction.
      * intros [[Heq|Hin] Hne]; [congruence|exact Hin].
    + cbn [map fst In]. rewrite (IH k t Hnd'). split.
      * intros [Heq|[Hin Hn]]; [subst; split; [left; reflexivity|congruence]|tauto].
      * intros [[Heq|Hin] Hn]; [left; exact Heq|right; tauto].
Qed.

Lemma assoc_remove_NoDup : forall {A} (l : list (nat * A)) k, NoDup (map fst l) -> NoDup (map fst (assoc_remove l k)).
Proof.
  intros A l; induction l as [|[k' v'] r IH]; intros k Hnd; cbn [assoc_remove map fst] in *; [constructor|].
  inversion Hnd as [|x xs Hnotin Hnd']; subst.
  destruct (Nat.eqb k k'); [exact Hnd'|].
  cbn [map fst]; constructor; [|apply IH; exact Hnd'].
  intros Hin; apply Hnotin. apply (assoc_remove_keys r k k' Hnd') in Hin; tauto.
Qed.

Lemma assoc_remove_In_other : forall {A} (l : list (nat * A)) k t v, t <> k -> In (t, v) l -> In (t, v) (assoc_remove l k).
Proof.
  intros A l; induction l as [|[k' v'] r IH]; intros k t v Hne Hin; cbn [assoc_remove] in *; [contradiction|].
  destruct (Nat.eqb_spec k k') as [->|Hnk].
  - destruct Hin as [Heq|Hin]; [inversion Heq; congruence|exact Hin].
  - destruct Hin as [Heq|Hin]; [left; exact Heq|right; apply IH; assumption].
Qed.

(* ========================================================================= *)
(*  PART 1 : the blocks of the condvar                                        *)
(* ========================================================================= *)
Definition has_ep (eps : list (nat * vclock)) (ep : nat) : bool :=
  existsb (fun p => Nat.eqb (fst p) ep) eps.

(* epochs.remove(position of the first entry with that epoch) *)
Definition rm_ep (ep : nat) : list (nat * vclock) -> list (nat * vclock) :=
  fix rm (l : list (nat * vclock)) : list (nat * vclock) :=
    match l with [] => [] | p :: t => if Nat.eqb (fst p) ep then t else p :: rm t end.

Lemma rm_ep_nil : forall ep, rm_ep ep [] = [].
Proof. reflexivity. Qed.
Lemma rm_ep_cons : forall ep p t, rm_ep ep (p :: t) = if Nat.eqb (fst p) ep then t else p :: rm_ep ep t.
Proof. reflexivity. Qed.

Lemma cv_consume_cons : forall e tid stt r ep,
  cv_consume_epoch e ((tid, stt) :: r) ep =
  match stt with
  | CvSignal eps =>
    if has_ep eps ep then
      match rm_ep ep eps with
      | [] => match e_block e tid false with
              | Some e1 => match cv_consume_epoch e1 r ep with
                           | Some (e2, r') => Some (e2, (tid, CvWaiting) :: r') | None => None end
              | None => None end
      | _ => match cv_consume_epoch e r ep with
             | Some (e2, r') => Some (e2, (tid, CvSignal (rm_ep ep eps)) :: r') | None => None end
      end
    else match cv_consume_epoch e r ep with
         | Some (e2, r') => Some (e2, (tid, stt) :: r') | None => None end
  | _ => match cv_consume_epoch e r ep with
         | Some (e2, r') => Some (e2, (tid, stt) :: r') | None => None end
  end.
Proof. intros; reflexivity. Qed.

(* what cv_consume_epoch does to the status of one waiter *)
Definition consume_status (ep : nat) (stt : cv_status) : cv_status :=
  match stt with
  | CvSignal eps =>
    if has_ep eps ep then match rm_ep ep eps with [] => CvWaiting | _ => CvSignal (rm_ep ep eps) end else stt
  | _ => stt
  end.

(* the waiters it blocks again: those whose only pending epoch is the consumed one *)
Definition reblocked (ep : nat) (stt : cv_status) : bool :=
  match stt with
  | CvSignal eps => has_ep eps ep && match rm_ep ep eps with [] => true | _ => false end
  | _ => false
  end.

Lemma reblocked_singleton : forall ep stt,
  reblocked ep stt = true <-> exists c, stt = CvSignal [(ep, c)].
Proof.
  intros ep stt; split.
  - destruct stt as [|eps|c]; cbn [reblocked]; try discriminate.
    intros H; apply andb_prop in H; destruct H as [Hh Hr].
    destruct eps as [|[e0 c0] r]; [discriminate|].
    unfold has_ep in Hh; cbn [existsb rm_ep fst] in *.
    destruct (Nat.eqb_spec e0 ep) as [->|Hne].
    + destruct r; [eexists; reflexivity|discriminate].
    + discriminate.
  - intros (c & ->). cbn [reblocked has_ep existsb rm_ep fst]. rewrite Nat.eqb_refl; reflexivity.
Qed.

Lemma consume_status_waiting : forall ep stt,
  consume_status ep stt = CvWaiting <-> stt = CvWaiting \/ reblocked ep stt = true.
Proof.
  intros ep stt; destruct stt as [|eps|c]; cbn [consume_status reblocked].
  - split; auto.
  - destruct (has_ep eps ep); cbn [andb].
    + destruct (rm_ep ep eps); split; intros H; auto; try discriminate; destruct H; discriminate.
    + split; [discriminate|intros [H|H]; discriminate].
  - split; [discriminate|intros [H|H]; discriminate].
Qed.

Lemma cv_consume_spec : forall ws e ep e' ws',
  cv_consume_epoch e ws ep = Some (e', ws') ->
  NoDup (map fst ws) ->
  ws' = map (fun p => (fst p, consume_status ep (snd p))) ws /\
  me e' = me e /\ (forall t, clk_of e' t = clk_of e t) /\
  (forall tid stt, In (tid, stt) ws -> reblocked ep stt = true -> st_of e' tid = Some (Blocked false)) /\
  (forall t, (forall stt, In (t, stt) ws -> reblocked ep stt = false) -> st_of e' t = st_of e t).
Proof.
  intros ws; induction ws as [|[tid stt] r IH]; intros e ep e' ws' Hc Hnd.
  - cbn [cv_consume_epoch] in Hc; inversion Hc; subst.
    repeat split; auto. intros tid stt [].
  - rewrite cv_consume_cons in Hc. cbn [map fst] in Hnd.
    inversion Hnd as [|x xs Hnotin Hnd']; subst.
    (* the two shapes: head blocked again, or head kept *)
    assert (Hcases :
      (reblocked ep stt = true /\ exists e1 e2 r', e_block e tid false = Some e1 /\
          cv_consume_epoch e1 r ep = Some (e2, r') /\ e' = e2 /\ ws' = (tid, consume_status ep stt) :: r') \/
      (reblocked ep stt = false /\ exists r', cv_consume_epoch e r ep = Some (e', r') /\
          ws' = (tid, consume_status ep stt) :: r')).
    { destruct stt as [|eps|c]; cbn [reblocked consume_status].
      - right; split; [reflexivity|]. destruct (cv_consume_epoch e r ep) as [[e2 r']|] eqn:Hrec; [|discriminate].
        inversion Hc; subst; eauto.
      - destruct (has_ep eps ep); cbn [andb].
        + destruct (rm_ep ep eps) as [|p q] eqn:Hrm.
          * left; split; [reflexivity|].
            destruct (e_block e tid false) as [e1|] eqn:Hb; [|discriminate].
            destruct (cv_consume_epoch e1 r ep) as [[e2 r']|] eqn:Hrec; [|discriminate].
            inversion Hc; subst. exists e1, e', r'. repeat split; auto.
          * right; split; [reflexivity|]. destruct (cv_consume_epoch e r ep) as [[e2 r']|] eqn:Hrec; [|discriminate].
            inversion Hc; subst; eauto.
        + right; split; [reflexivity|]. destruct (cv_consume_epoch e r ep) as [[e2 r']|] eqn:Hrec; [|discriminate].
          inversion Hc; subst; eauto.
      - right; split; [reflexivity|]. destruct (cv_consume_epoch e r ep) as [[e2 r']|] eqn:Hrec; [|discriminate].
        inversion Hc; subst; eauto. }
    clear Hc.
    destruct Hcases as [(Hrb & e1 & e2 & r' & Hb & Hrec & -> & ->)|(Hrb & r' & Hrec & ->)].
    + destruct (IH _ _ _ _ Hrec Hnd') as (Hr' & Hme & Hclk & Hblk & Hsame).
      destruct (e_block_st _ _ _ _ Hb) as (Hme1 & Hs1 & _ & Ho1 & Hc1).
      split; [cbn [map fst snd]; rewrite Hr'; reflexivity|].
      split; [congruence|]. split; [intros t; rewrite Hclk; apply Hc1|].
      split.
      * intros tid' stt' [Heq|Hin] Hrb'.
        -- inversion Heq; subst tid' stt'. rewrite Hsame; [exact Hs1|].
           intros stt' Hin; exfalso; apply Hnotin. apply (in_map fst) in Hin; exact Hin.
        -- eapply Hblk; eassumption.
      * intros t Ht. rewrite Hsame; [|intros stt' Hin; apply Ht; right; exact Hin].
        apply Ho1. intros ->. specialize (Ht stt (or_introl eq_refl)). congruence.
    + destruct (IH _ _ _ _ Hrec Hnd') as (Hr' & Hme & Hclk & Hblk & Hsame).
      split; [cbn [map fst snd]; rewrite Hr'; reflexivity|].
      split; [exact Hme|]. split; [exact Hclk|].
      split.
      * intros tid' stt' [Heq|Hin] Hrb'.
        -- inversion Heq; subst tid' stt'. congruence.
        -- eapply Hblk; eassumption.
      * intros t Ht. apply Hsame. intros stt' Hin; apply Ht; right; exact Hin.
Qed.

Lemma cv_consume_succ : forall ws e ep,
  (forall tid, In tid (map fst ws) -> alive e tid) ->
  exists e' ws', cv_consume_epoch e ws ep = Some (e', ws').
Proof.
  intros ws; induction ws as [|[tid stt] r IH]; intros e ep Hal.
  - cbn [cv_consume_epoch]; eauto.
  - rewrite cv_consume_cons.
    assert (Hr : forall e1, (forall t, alive e t -> alive e1 t) -> exists e' ws', cv_consume_epoch e1 r ep = Some (e', ws')).
    { intros e1 H1; apply IH. intros t Hin; apply H1, Hal; right; exact Hin. }
    destruct (Hr e (fun t H => H)) as (e0 & ws0 & H0).
    destruct stt as [|eps|c]; try (rewrite H0; eauto; fail).
    destruct (has_ep eps ep); [|rewrite H0; eauto].
    destruct (rm_ep ep eps); [|rewrite H0; eauto].
    destruct (e_block_succ e tid false (Hal tid (or_introl eq_refl))) as (e1 & Hb); rewrite Hb.
    destruct (Hr e1 (fun t H => e_block_alive _ _ _ _ t Hb H)) as (e2 & ws2 & H2); rewrite H2; eauto.
Qed.

(* ---- the notify loops ---- *)
Definition notify_fold (g : cv_status -> cv_status) (m : nat)
  (acc : option (exec * list (nat * cv_status))) (p : nat * cv_status) : option (exec * list (nat * cv_status)) :=
  match acc with
  | None => None
  | Some (e, out) =>
    let '(tid, stt) := p in
    if Nat.eqb tid m then None else
    match e_unblock e tid with Some e' => Some (e', out ++ [(tid, g stt)]) | None => None end
  end.

Definition n1_status (ne : nat) (c : vclock) (stt : cv_status) : cv_status :=
  match stt with
  | CvWaiting => CvSignal [(ne, c)]
  | CvSignal eps => CvSignal (eps ++ [(ne, c)])
  | CvBroadcast b => CvBroadcast b
  end.

Lemma cv_notify_one_unfold : forall e st cv,
  cv_notify_one e st cv =
  match me e, get_obj st cv with
  | Some m, Some (OCondvar ws ne) =>
    match e_clock e m with
    | None => None
    | Some c => match fold_left (notify_fold (n1_status ne c) m) ws (Some (e, [])) with
                | Some (e', ws') => Some (e', set_obj st cv (OCondvar ws' (S ne)))
                | None => None end
    end
  | _, _ => None
  end.
Proof. intros; reflexivity. Qed.

Lemma cv_notify_all_unfold : forall e st cv,
  cv_notify_all e st cv =
  match me e, get_obj st cv with
  | Some m, Some (OCondvar ws ne) =>
    match e_clock e m with
    | None => None
    | Some c => match fold_left (notify_fold (fun _ => CvBroadcast c) m) ws (Some (e, [])) with
                | Some (e', ws') => Some (e', set_obj st cv (OCondvar ws' ne))
                | None => None end
    end
  | _, _ => None
  end.
Proof. intros; reflexivity. Qed.

Lemma notify_fold_none : forall g m ws, fold_left (notify_fold g m) ws None = None.
Proof. intros g m ws; induction ws as [|p r IH]; cbn [fold_left notify_fold]; auto. Qed.

Lemma notify_fold_spec : forall g m ws e out e' ws',
  fold_left (notify_fold g m) ws (Some (e, out)) = Some (e', ws') ->
  ws' = out ++ map (fun p => (fst p, g (snd p))) ws /\
  me e' = me e /\ (forall t, clk_of e' t = clk_of e t) /\
  ~ In m (map fst ws) /\
  (forall tid, In tid (map fst ws) -> st_of e' tid = Some Runnable) /\
  (forall t, ~ In t (map fst ws) -> st_of e' t = st_of e t).
Proof.
  intros g m ws; induction ws as [|[tid stt] r IH]; intros e out e' ws' Hf.
  - cbn [fold_left] in Hf; inversion Hf; subst. rewrite app_nil_r.
    repeat split; auto. intros tid [].
  - cbn [fold_left] in Hf. unfold notify_fold at 2 in Hf.
    destruct (Nat.eqb_spec tid m) as [->|Hne]; [rewrite notify_fold_none in Hf; discriminate|].
    destruct (e_unblock e tid) as [e1|] eqn:Hu; [|rewrite notify_fold_none in Hf; discriminate].
    destruct (IH _ _ _ _ Hf) as (Hws & Hme & Hclk & Hnm & Hrun & Hsame).
    destruct (e_unblock_st _ _ _ Hu) as (Hme1 & Hs1 & _ & Ho1 & Hc1).
    split; [rewrite Hws, <- app_assoc; reflexivity|].
    split; [congruence|]. split; [intros t; rewrite Hclk; apply Hc1|].
    split; [cbn [map fst In]; intros [H|H]; [congruence|contradiction]|].
    split.
    + intros t [Heq|Hin]; cbn [fst] in *.
      * subst t. destruct (in_dec Nat.eq_dec tid (map fst r)) as [Hi|Hni]; [apply Hrun; exact Hi|].
        rewrite (Hsame tid Hni); exact Hs1.
      * apply Hrun; exact Hin.
    + intros t Hnin; cbn [map fst In] in Hnin.
      rewrite Hsame; [|tauto]. apply Ho1. intros ->; tauto.
Qed.

Lemma notify_fold_succ : forall g m ws e out,
  ~ In m (map fst ws) -> (forall tid, In tid (map fst ws) -> alive e tid) ->
  exists e' ws', fold_left (notify_fold g m) ws (Some (e, out)) = Some (e', ws').
Proof.
  intros g m ws; induction ws as [|[tid stt] r IH]; intros e out Hnm Hal.
  - cbn [fold_left]; eauto.
  - cbn [fold_left]. unfold notify_fold at 2. cbn [map fst In] in Hnm.
    destruct (Nat.eqb_spec tid m) as [->|Hne]; [tauto|].
    destruct (e_unblock_succ e tid (Hal tid (or_introl eq_refl))) as (e1 & Hu); rewrite Hu.
    apply IH; [tauto|]. intros t Hin. eapply e_unblock_alive; [exact Hu|]. apply Hal; right; exact Hin.
Qed.

(* ---- functional form of cv_enqueue and cv_wake ---- *)
Lemma cv_enqueue_spec : forall e st cv e' st',
  cv_enqueue e st cv = Some (e', st') ->
  exists m ws ne, me e = Some m /\ get_obj st cv = Some (OCondvar ws ne) /\
    e_block e m false = Some e' /\ st' = set_obj st cv (OCondvar (ws ++ [(m, CvWaiting)]) ne).
Proof.
  intros e st cv e' st' H; unfold cv_enqueue in H.
  destruct (me e) as [m|]; [|discriminate].
  destruct (get_obj st cv) as [[| | | |ws ne| | | | | | | | ]|]; try discriminate.
  destruct (e_block e m false) as [e1|] eqn:Hb; [|discriminate].
  inversion H; subst. exists m, ws, ne; auto.
Qed.

Inductive wake_kind := WkSignal (ep : nat) (c : vclock) | WkBroadcast (c : vclock).

(* which notification a waiter leaves its condvar phase with *)
Definition wake_kind_of (ws : list (nat * cv_status)) (m : nat) : option wake_kind :=
  match assoc_get ws m with
  | Some (CvSignal ((ep, c) :: _)) => Some (WkSignal ep c)
  | Some (CvBroadcast c) => Some (WkBroadcast c)
  | _ => None
  end.

Lemma cv_wake_spec : forall e st cv e' st',
  cv_wake e st cv = Some (e', st') ->
  exists m ws ne k, me e = Some m /\ get_obj st cv = Some (OCondvar ws ne) /\ wake_kind_of ws m = Some k /\
    match k with
    | WkBroadcast c => e_update_clock e m c = Some e' /\ st' = set_obj st cv (OCondvar (assoc_remove ws m) ne)
    | WkSignal ep c => exists e1 ws2, cv_consume_epoch e (assoc_remove ws m) ep = Some (e1, ws2) /\
                         e_update_clock e1 m c = Some e' /\ st' = set_obj st cv (OCondvar ws2 ne)
    end.
Proof.
  intros e st cv e' st' H; unfold cv_wake in H.
  destruct (me e) as [m|]; [|discriminate].
  destruct (get_obj st cv) as [[| | | |ws ne| | | | | | | | ]|]; try discriminate.
  exists m, ws, ne. unfold wake_kind_of.
  destruct (assoc_get ws m) as [[|[|[ep c] rest]|c]|]; try discriminate.
  - exists (WkSignal ep c). repeat split.
    destruct (cv_consume_epoch e (assoc_remove ws m) ep) as [[e1 ws2]|]; [|discriminate].
    destruct (e_update_clock e1 m c) as [e2|] eqn:Hu; [|discriminate].
    inversion H; subst. exists e1, ws2; auto.
  - exists (WkBroadcast c). repeat split.
    + destruct (e_update_clock e m c) as [e2|]; [|discriminate]. inversion H; subst; reflexivity.
    + destruct (e_update_clock e m c) as [e2|]; [|discriminate]. inversion H; subst; reflexivity.
Qed.

(* ========================================================================= *)
(*  PART 2 : the transition system and its invariant                          *)
(* ========================================================================= *)
(* Ghost state: the epochs consumed so far by a signal wake-up; for every task the value of
   next_epoch and the number of notify_all calls at its last enqueue; the number of notify_all calls. *)
Record cvg := mkG {
  g_cons : list nat;
  g_enq_ep : nat -> nat;
  g_enq_bc : nat -> nat;
  g_nbc : nat;
}.

Definition fupd (f : nat -> nat) (k v : nat) : nat -> nat := fun x => if Nat.eqb x k then v else f x.

Record cvstate := mkCv { c_e : exec; c_s : store; c_g : cvg }.

Definition cv_obj (cv : nat) (s : cvstate) : list (nat * cv_status) * nat :=
  match get_obj (c_s s) cv with Some (OCondvar ws ne) => (ws, ne) | _ => ([], 0) end.
Definition cv_ws cv s := fst (cv_obj cv s).
Definition cv_ne cv s := snd (cv_obj cv s).

Inductive cvlabel :=
| LEnq (t : nat)                       (* a wait enqueued itself (its guard is already released) *)
| LWakeSig (t ep : nat)                (* a wait left the condvar phase consuming epoch ep *)
| LWakeBc (t : nat)                    (* a wait left the condvar phase through a broadcast *)
| LNotifyOne (ep : nat)
| LNotifyAll
| LEnv.                                (* any other block of any task *)

(* Steps.  The only hypothesis on an enqueue is the debug_assert of the source (the task is not
   already in the waiter list: a task in the list is blocked, or about to run cv_wake).  The
   environment may change everything except the condvar object and the scheduling state of the
   tasks that are in its waiter list (a task blocked on the condvar is blocked nowhere else, a
   waiter made runnable has not run yet). *)
Inductive cvstep (cv : nat) : cvstate -> cvlabel -> cvstate -> Prop :=
| St_enq : forall e st g e' st' m,
    me e = Some m -> assoc_get (cv_ws cv (mkCv e st g)) m = None ->
    cv_enqueue e st cv = Some (e', st') ->
    cvstep cv (mkCv e st g) (LEnq m)
      (mkCv e' st' (mkG (g_cons g) (fupd (g_enq_ep g) m (cv_ne cv (mkCv e st g)))
                        (fupd (g_enq_bc g) m (g_nbc g)) (g_nbc g)))
| St_wake_sig : forall e st g e' st' m ep c,
    me e = Some m -> wake_kind_of (cv_ws cv (mkCv e st g)) m = Some (WkSignal ep c) ->
    cv_wake e st cv = Some (e', st') ->
    cvstep cv (mkCv e st g) (LWakeSig m ep)
      (mkCv e' st' (mkG (ep :: g_cons g) (g_enq_ep g) (g_enq_bc g) (g_nbc g)))
| St_wake_bc : forall e st g e' st' m c,
    me e = Some m -> wake_kind_of (cv_ws cv (mkCv e st g)) m = Some (WkBroadcast c) ->
    cv_wake e st cv = Some (e', st') ->
    cvstep cv (mkCv e st g) (LWakeBc m) (mkCv e' st' g)
| St_notify_one : forall e st g e' st',
    cv_notify_one e st cv = Some (e', st') ->
    cvstep cv (mkCv e st g) (LNotifyOne (cv_ne cv (mkCv e st g))) (mkCv e' st' g)
| St_notify_all : forall e st g e' st',
    cv_notify_all e st cv = Some (e', st') ->
    cvstep cv (mkCv e st g) LNotifyAll
      (mkCv e' st' (mkG (g_cons g) (g_enq_ep g) (g_enq_bc g) (S (g_nbc g))))
| St_env : forall e st g e' st',
    get_obj st' cv = get_obj st cv ->
    (forall t, In t (map fst (cv_ws cv (mkCv e st g))) -> st_of e' t = st_of e t) ->
    cvstep cv (mkCv e st g) LEnv (mkCv e' st' g).

Inductive cvrun (cv : nat) : cvstate -> list cvlabel -> cvstate -> Prop :=
| Run_nil : forall s, cvrun cv s [] s
| Run_cons : forall s l s1 tr s2, cvstep cv s l s1 -> cvrun cv s1 tr s2 -> cvrun cv s (l :: tr) s2.

(* strictly increasing epochs *)
Definition asc (l : list nat) : Prop := StronglySorted lt l.

Definition eps_of (eps : list (nat * vclock)) : list nat := map fst eps.

(* a waiter entry *)
Definition went_ok (e : exec) (ne : nat) (g : cvg) (p : nat * cv_status) : Prop :=
  let '(tid, stt) := p in
  g_enq_ep g tid <= ne /\ g_enq_bc g tid <= g_nbc g /\
  match stt with
  | CvWaiting => st_of e tid = Some (Blocked false)
  | CvSignal eps =>
      eps <> [] /\ asc (eps_of eps) /\
      (forall ep, In ep (eps_of eps) -> g_enq_ep g tid <= ep /\ ep < ne /\ ~ In ep (g_cons g)) /\
      st_of e tid = Some Runnable
  | CvBroadcast _ => st_of e tid = Some Runnable /\ g_enq_bc g tid < g_nbc g
  end.

Record CvInv (cv : nat) (s : cvstate) : Prop := mkCvInv {
  ci_obj : exists ws ne, get_obj (c_s s) cv = Some (OCondvar ws ne);
  ci_went : Forall (went_ok (c_e s) (cv_ne cv s) (c_g s)) (cv_ws cv s);
  ci_nodup : NoDup (map fst (cv_ws cv s));
  ci_cons_nodup : NoDup (g_cons (c_g s));
  ci_cons_lt : forall ep, In ep (g_cons (c_g s)) -> ep < cv_ne cv s;
}.

Lemma cv_obj_eq : forall cv e st g ws ne,
  get_obj st cv = Some (OCondvar ws ne) -> cv_ws cv (mkCv e st g) = ws /\ cv_ne cv (mkCv e st g) = ne.
Proof. intros cv e st g ws ne H; unfold cv_ws, cv_ne, cv_obj; cbn [c_s]; rewrite H; auto. Qed.

(* ---- lists of epochs ---- *)
Lemma asc_app_last : forall l x, asc l -> (forall y, In y l -> y < x) -> asc (l ++ [x]).
Proof.
  unfold asc; intros l x Hs; induction Hs as [|a l Hs IH Hall]; intros Hlt; cbn [app].
  - constructor; constructor.
  - constructor.
    + apply IH; intros y Hy; apply Hlt; right; exact Hy.
    + apply Forall_app; split; [exact Hall|]. constructor; [|constructor]. apply Hlt; left; reflexivity.
Qed.

Lemma eps_of_rm_incl : forall ep eps x, In x (eps_of (rm_ep ep eps)) -> In x (eps_of eps).
Proof.
  intros ep eps; induction eps as [|p t IH]; intros x H; [exact H|].
  rewrite rm_ep_cons in H. unfold eps_of in *; cbn [map In].
  destruct (Nat.eqb (fst p) ep); [right; exact H|].
  cbn [map In] in H; destruct H as [H|H]; [left; exact H|right; apply IH; exact H].
Qed.

Lemma asc_rm : forall ep eps, asc (eps_of eps) -> asc (eps_of (rm_ep ep eps)).
Proof.
  unfold asc; intros ep eps; induction eps as [|p t IH]; intros Hs; [exact Hs|].
  rewrite rm_ep_cons. unfold eps_of in *; cbn [map] in Hs. inversion Hs as [|a l Hs' Hall]; subst.
  destruct (Nat.eqb (fst p) ep); [exact Hs'|].
  cbn [map]; constructor; [apply IH; exact Hs'|].
  apply Forall_forall; intros x Hx. apply (proj1 (Forall_forall _ _) Hall). apply (eps_of_rm_incl ep t x Hx).
Qed.

Lemma asc_rm_notin : forall ep eps, asc (eps_of eps) -> ~ In ep (eps_of (rm_ep ep eps)).
Proof.
  unfold asc; intros ep eps; induction eps as [|p t IH]; intros Hs; [intros []|].
  rewrite rm_ep_cons. unfold eps_of in *; cbn [map] in Hs. inversion Hs as [|a l Hs' Hall]; subst.
  destruct (Nat.eqb_spec (fst p) ep) as [Heq|Hne].
  - intros Hin. pose proof (proj1 (Forall_forall _ _) Hall ep Hin) as Hlt. lia.
  - cbn [map In]; intros [H|H]; [congruence|]. exact (IH Hs' H).
Qed.

Lemma has_ep_In : forall eps ep, has_ep eps ep = true <-> In ep (eps_of eps).
Proof.
  intros eps ep; unfold has_ep, eps_of; rewrite existsb_exists; split.
  - intros (p & Hin & Heq). apply Nat.eqb_eq in Heq; subst. apply in_map; exact Hin.
  - intros Hin; apply in_map_iff in Hin; destruct Hin as (p & Heq & Hin).
    exists p; split; [exact Hin|apply Nat.eqb_eq; exact Heq].
Qed.

Lemma NoDup_snoc : forall {A} (l : list A) x, NoDup l -> ~ In x l -> NoDup (l ++ [x]).
Proof.
  intros A l x Hnd; induction Hnd as [|a l Hnotin Hnd IH]; intros Hx; cbn [app].
  - constructor; [intros []|constructor].
  - constructor.
    + rewrite in_app_iff; cbn [In]. intros [H|[H|[]]]; [contradiction|]. apply Hx; left; symmetry; exact H.
    + apply IH; intros H; apply Hx; right; exact H.
Qed.

Lemma map_fst_relabel : forall {A B} (f : A -> B) (l : list (nat * A)),
  map fst (map (fun p => (fst p, f (snd p))) l) = map fst l.
Proof. intros A B f l; rewrite map_map; cbn [fst]; reflexivity. Qed.

Lemma In_relabel : forall {A B} (f : A -> B) (l : list (nat * A)) q,
  In q (map (fun p => (fst p, f (snd p))) l) <-> exists v, In (fst q, v) l /\ snd q = f v.
Proof.
  intros A B f l q; rewrite in_map_iff; split.
  - intros ([k v] & Heq & Hin); subst q; cbn [fst snd]. exists v; auto.
  - intros (v & Hin & Heq). exists (fst q, v); split; [|exact Hin]. destruct q; cbn [fst snd] in *; congruence.
Qed.

Lemma NoDup_keys_unique : forall {A} (l : list (nat * A)) k v v',
  NoDup (map fst l) -> In (k, v) l -> In (k, v') l -> v = v'.
Proof.
  intros A l k v v' Hnd H1 H2.
  pose proof (assoc_get_NoDup l k v Hnd H1) as E1. pose proof (assoc_get_NoDup l k v' Hnd H2) as E2. congruence.
Qed.

(* ---- went_ok under the changes made by the blocks ---- *)
Lemma went_ok_frame : forall e e' ne g g' tid stt,
  went_ok e ne g (tid, stt) ->
  st_of e' tid = st_of e tid ->
  g_enq_ep g' tid = g_enq_ep g tid -> g_enq_bc g' tid = g_enq_bc g tid ->
  g_nbc g' = g_nbc g -> g_cons g' = g_cons g ->
  went_ok e' ne g' (tid, stt).
Proof.
  intros e e' ne g g' tid stt H Hst He Hb Hn Hc; unfold went_ok in *.
  rewrite He, Hb, Hn, Hc, Hst. exact H.
Qed.

Lemma went_ok_consume : forall e e1 ne g tid stt ep,
  went_ok e ne g (tid, stt) ->
  st_of e1 tid = (if reblocked ep stt then Some (Blocked false) else st_of e tid) ->
  went_ok e1 ne (mkG (ep :: g_cons g) (g_enq_ep g) (g_enq_bc g) (g_nbc g)) (tid, consume_status ep stt).
Proof.
  intros e e1 ne g tid stt ep (H1 & H2 & H) Hst; unfold went_ok; cbn [g_cons g_enq_ep g_enq_bc g_nbc].
  split; [exact H1|]. split; [exact H2|].
  destruct stt as [|eps|c]; cbn [consume_status reblocked] in *.
  - rewrite Hst; exact H.
  - destruct H as (Hne & Hasc & Hall & Hrun).
    destruct (has_ep eps ep) eqn:Hh; cbn [andb] in Hst.
    + destruct (rm_ep ep eps) as [|p q] eqn:Hrm; [exact Hst|].
      rewrite <- Hrm. split; [rewrite Hrm; discriminate|]. split; [apply asc_rm; exact Hasc|].
      split; [|rewrite Hst; exact Hrun].
      intros x Hx. destruct (Hall x (eps_of_rm_incl _ _ _ Hx)) as (A & B & C).
      split; [exact A|]. split; [exact B|]. cbn [In]; intros [Heq|Hin]; [|exact (C Hin)].
      subst x. exact (asc_rm_notin ep eps Hasc Hx).
    + split; [exact Hne|]. split; [exact Hasc|]. split; [|rewrite Hst; exact Hrun].
      intros x Hx. destruct (Hall x Hx) as (A & B & C).
      split; [exact A|]. split; [exact B|]. cbn [In]; intros [Heq|Hin]; [|exact (C Hin)].
      subst x. apply has_ep_In in Hx. congruence.
  - rewrite Hst; exact H.
Qed.

Lemma went_ok_notify_one : forall e e' ne g tid stt c,
  went_ok e ne g (tid, stt) -> st_of e' tid = Some Runnable ->
  (forall ep, In ep (g_cons g) -> ep < ne) ->
  went_ok e' (S ne) g (tid, n1_status ne c stt).
Proof.
  intros e e' ne g tid stt c (H1 & H2 & H) Hst Hcons; unfold went_ok.
  split; [lia|]. split; [exact H2|].
  destruct stt as [|eps|b]; cbn [n1_status].
  - split; [discriminate|]. split; [repeat constructor|]. split; [|exact Hst].
    cbn [eps_of map fst In]. intros ep [<-|[]]. split; [exact H1|]. split; [lia|].
    intros Hin; specialize (Hcons _ Hin); lia.
  - destruct H as (Hne & Hasc & Hall & Hrun).
    split; [destruct eps; discriminate|].
    unfold eps_of in *; rewrite map_app; cbn [map fst].
    split; [apply asc_app_last; [exact Hasc|]; intros y Hy; apply (Hall y Hy)|].
    split; [|exact Hst].
    intros ep Hin; apply in_app_iff in Hin; destruct Hin as [Hin|[<-|[]]].
    + destruct (Hall ep Hin) as (A & B & C). split; [exact A|]. split; [lia|exact C].
    + split; [exact H1|]. split; [lia|]. intros Hin; specialize (Hcons _ Hin); lia.
  - destruct H as (Hrun & Hlt). split; [exact Hst|exact Hlt].
Qed.

Lemma went_ok_notify_all : forall e e' ne g tid stt c,
  went_ok e ne g (tid, stt) -> st_of e' tid = Some Runnable ->
  went_ok e' ne (mkG (g_cons g) (g_enq_ep g) (g_enq_bc g) (S (g_nbc g))) (tid, CvBroadcast c).
Proof.
  intros e e' ne g tid stt c (H1 & H2 & H) Hst; unfold went_ok; cbn [g_cons g_enq_ep g_enq_bc g_nbc].
  split; [exact H1|]. split; [lia|]. split; [exact Hst|lia].
Qed.

(* ---- preservation of the invariant ---- *)
Lemma cvinv_env : forall cv e st g e' st',
  CvInv cv (mkCv e st g) ->
  get_obj st' cv = get_obj st cv ->
  (forall t, In t (map fst (cv_ws cv (mkCv e st g))) -> st_of e' t = st_of e t) ->
  CvInv cv (mkCv e' st' g).
Proof.
  intros cv e st g e' st' [(ws & ne & Hobj) Hw Hnd Hcn Hcl] Hsame Hst. cbn [c_s c_e c_g] in *.
  destruct (cv_obj_eq cv e st g ws ne Hobj) as (Ews & Ene).
  assert (Hobj' : get_obj st' cv = Some (OCondvar ws ne)) by congruence.
  destruct (cv_obj_eq cv e' st' g ws ne Hobj') as (Ews' & Ene').
  rewrite Ews, Ene in *.
  constructor; cbn [c_s c_e c_g]; rewrite ?Ews', ?Ene'; eauto.
  apply Forall_forall; intros [tid stt] Hin.
  pose proof (proj1 (Forall_forall _ _) Hw _ Hin) as Hok.
  eapply went_ok_frame; eauto. apply Hst. apply (in_map fst) in Hin; exact Hin.
Qed.

Lemma cvinv_enq : forall cv e st g e' st' m,
  CvInv cv (mkCv e st g) ->
  me e = Some m -> assoc_get (cv_ws cv (mkCv e st g)) m = None ->
  cv_enqueue e st cv = Some (e', st') ->
  CvInv cv (mkCv e' st' (mkG (g_cons g) (fupd (g_enq_ep g) m (cv_ne cv (mkCv e st g)))
                             (fupd (g_enq_bc g) m (g_nbc g)) (g_nbc g))).
Proof.
  intros cv e st g e' st' m [(ws & ne & Hobj) Hw Hnd Hcn Hcl] Hme Hnone Henq. cbn [c_s c_e c_g] in *.
  destruct (cv_obj_eq cv e st g ws ne Hobj) as (Ews & Ene). rewrite Ews, Ene in *.
  destruct (cv_enqueue_spec _ _ _ _ _ Henq) as (m' & ws' & ne' & Hme' & Hobj0 & Hb & ->).
  assert (m' = m) by congruence; subst m'.
  assert (ws' = ws /\ ne' = ne) as (-> & ->) by (rewrite Hobj in Hobj0; inversion Hobj0; auto).
  pose proof (get_set_obj_eq st cv (OCondvar (ws ++ [(m, CvWaiting)]) ne) _ Hobj) as Hobj'.
  set (g' := mkG _ _ _ _).
  destruct (cv_obj_eq cv e' _ g' _ _ Hobj') as (Ews' & Ene').
  destruct (e_block_st _ _ _ _ Hb) as (_ & Hsm & _ & Hso & _).
  apply assoc_get_None in Hnone.
  constructor; cbn [c_s c_e c_g]; rewrite ?Ews', ?Ene'; eauto.
  - apply Forall_app; split.
    + apply Forall_forall; intros [tid stt] Hin.
      pose proof (proj1 (Forall_forall _ _) Hw _ Hin) as Hok.
      assert (tid <> m) as Hne by (intros ->; apply Hnone; apply (in_map fst) in Hin; exact Hin).
      eapply went_ok_frame; [exact Hok|apply Hso; exact Hne| | | |]; unfold g'; cbn [g_enq_ep g_enq_bc g_nbc g_cons]; auto;
        unfold fupd; destruct (Nat.eqb_spec tid m); congruence.
    + constructor; [|constructor]. unfold went_ok, g', fupd; cbn [g_enq_ep g_enq_bc g_nbc g_cons].
      rewrite Nat.eqb_refl. repeat split; auto.
  - rewrite map_app; cbn [map fst]. apply NoDup_snoc; assumption.
Qed.

Lemma cvinv_notify_one : forall cv e st g e' st',
  CvInv cv (mkCv e st g) -> cv_notify_one e st cv = Some (e', st') ->
  CvInv cv (mkCv e' st' g).
Proof.
  intros cv e st g e' st' [(ws & ne & Hobj) Hw Hnd Hcn Hcl] Hn. cbn [c_s c_e c_g] in *.
  destruct (cv_obj_eq cv e st g ws ne Hobj) as (Ews & Ene). rewrite Ews, Ene in *.
  rewrite cv_notify_one_unfold, Hobj in Hn.
  destruct (me e) as [m|]; [|discriminate].
  destruct (e_clock e m) as [c|]; [|discriminate].
  destruct (fold_left _ ws (Some (e, []))) as [[e1 ws1]|] eqn:Hf; [|discriminate].
  inversion Hn; subst e1 st'; clear Hn.
  destruct (notify_fold_spec _ _ _ _ _ _ _ Hf) as (Hws & _ & _ & _ & Hrun & _). cbn [app] in Hws; subst ws1.
  pose proof (get_set_obj_eq st cv (OCondvar (map (fun p => (fst p, n1_status ne c (snd p))) ws) (S ne)) _ Hobj) as Hobj'.
  destruct (cv_obj_eq cv e' _ g _ _ Hobj') as (Ews' & Ene').
  constructor; cbn [c_s c_e c_g]; rewrite ?Ews', ?Ene'; eauto.
  - apply Forall_forall; intros [tid stt'] Hin. apply In_relabel in Hin; cbn [fst snd] in Hin.
    destruct Hin as (stt & Hin & ->).
    pose proof (proj1 (Forall_forall _ _) Hw _ Hin) as Hok.
    apply went_ok_notify_one with (e := e); auto. apply Hrun. apply (in_map fst) in Hin; exact Hin.
  - rewrite map_fst_relabel; exact Hnd.
  - intros ep Hin; specialize (Hcl ep Hin); lia.
Qed.

Lemma cvinv_notify_all : forall cv e st g e' st',
  CvInv cv (mkCv e st g) -> cv_notify_all e st cv = Some (e', st') ->
  CvInv cv (mkCv e' st' (mkG (g_cons g) (g_enq_ep g) (g_enq_bc g) (S (g_nbc g)))).
Proof.
  intros cv e st g e' st' [(ws & ne & Hobj) Hw Hnd Hcn Hcl] Hn. cbn [c_s c_e c_g] in *.
  destruct (cv_obj_eq cv e st g ws ne Hobj) as (Ews & Ene). rewrite Ews, Ene in *.
  rewrite cv_notify_all_unfold, Hobj in Hn.
  destruct (me e) as [m|]; [|discriminate].
  destruct (e_clock e m) as [c|]; [|discriminate].
  destruct (fold_left _ ws (Some (e, []))) as [[e1 ws1]|] eqn:Hf; [|discriminate].
  inversion Hn; subst e1 st'; clear Hn.
  destruct (notify_fold_spec _ _ _ _ _ _ _ Hf) as (Hws & _ & _ & _ & Hrun & _). cbn [app] in Hws; subst ws1.
  pose proof (get_set_obj_eq st cv (OCondvar (map (fun p => (fst p, CvBroadcast c)) ws) ne) _ Hobj) as Hobj'.
  set (g' := mkG _ _ _ _).
  destruct (cv_obj_eq cv e' _ g' _ _ Hobj') as (Ews' & Ene').
  constructor; cbn [c_s c_e c_g]; rewrite ?Ews', ?Ene'; eauto.
  - apply Forall_forall; intros [tid stt'] Hin.
    apply (In_relabel (fun _ => CvBroadcast c)) in Hin; cbn [fst snd] in Hin.
    destruct Hin as (stt & Hin & ->).
    pose proof (proj1 (Forall_forall _ _) Hw _ Hin) as Hok.
    apply went_ok_notify_all with (e := e) (stt := stt); auto. apply Hrun. apply (in_map fst) in Hin; exact Hin.
  - rewrite (map_fst_relabel (fun _ => CvBroadcast c)); exact Hnd.
Qed.

Lemma wake_kind_sig : forall ws m ep c,
  wake_kind_of ws m = Some (WkSignal ep c) -> exists rest, assoc_get ws m = Some (CvSignal ((ep, c) :: rest)).
Proof.
  intros ws m ep c H; unfold wake_kind_of in H.
  destruct (assoc_get ws m) as [[|[|[ep' c'] rest]|c']|]; try discriminate.
  inversion H; subst; eauto.
Qed.

Lemma wake_kind_bc : forall ws m c,
  wake_kind_of ws m = Some (WkBroadcast c) -> assoc_get ws m = Some (CvBroadcast c).
Proof.
  intros ws m c H; unfold wake_kind_of in H.
  destruct (assoc_get ws m) as [[|[|[ep' c'] rest]|c']|]; try discriminate.
  inversion H; subst; eauto.
Qed.

Lemma Forall_assoc_remove : forall {A} (P : nat * A -> Prop) l k, Forall P l -> Forall P (assoc_remove l k).
Proof.
  intros A P l k H; apply Forall_forall; intros p Hin.
  apply (proj1 (Forall_forall _ _) H). eapply assoc_remove_In; exact Hin.
Qed.

Lemma cvinv_wake_bc : forall cv e st g e' st' m c,
  CvInv cv (mkCv e st g) -> me e = Some m ->
  wake_kind_of (cv_ws cv (mkCv e st g)) m = Some (WkBroadcast c) ->
  cv_wake e st cv = Some (e', st') ->
  CvInv cv (mkCv e' st' g).
Proof.
  intros cv e st g e' st' m c [(ws & ne & Hobj) Hw Hnd Hcn Hcl] Hme Hk Hwk. cbn [c_s c_e c_g] in *.
  destruct (cv_obj_eq cv e st g ws ne Hobj) as (Ews & Ene). rewrite Ews, Ene in *.
  destruct (cv_wake_spec _ _ _ _ _ Hwk) as (m' & ws' & ne' & k & Hme' & Hobj0 & Hk' & Hres).
  assert (m' = m) by congruence; subst m'.
  assert (ws' = ws /\ ne' = ne) as (-> & ->) by (rewrite Hobj in Hobj0; inversion Hobj0; auto).
  rewrite Hk in Hk'; inversion Hk'; subst k; clear Hk'.
  destruct Hres as (Hu & ->).
  pose proof (get_set_obj_eq st cv (OCondvar (assoc_remove ws m) ne) _ Hobj) as Hobj'.
  destruct (cv_obj_eq cv e' _ g _ _ Hobj') as (Ews' & Ene').
  pose proof (only_clocks_st _ _ (e_update_clock_only _ _ _ _ Hu)) as Hst.
  constructor; cbn [c_s c_e c_g]; rewrite ?Ews', ?Ene'; eauto.
  - apply Forall_assoc_remove. apply Forall_forall; intros [tid stt] Hin.
    pose proof (proj1 (Forall_forall _ _) Hw _ Hin) as Hok.
    eapply went_ok_frame; eauto.
  - apply assoc_remove_NoDup; exact Hnd.
Qed.

Lemma cvinv_wake_sig : forall cv e st g e' st' m ep c,
  CvInv cv (mkCv e st g) -> me e = Some m ->
  wake_kind_of (cv_ws cv (mkCv e st g)) m = Some (WkSignal ep c) ->
  cv_wake e st cv = Some (e', st') ->
  CvInv cv (mkCv e' st' (mkG (ep :: g_cons g) (g_enq_ep g) (g_enq_bc g) (g_nbc g))).
Proof.
  intros cv e st g e' st' m ep c [(ws & ne & Hobj) Hw Hnd Hcn Hcl] Hme Hk Hwk. cbn [c_s c_e c_g] in *.
  destruct (cv_obj_eq cv e st g ws ne Hobj) as (Ews & Ene). rewrite Ews, Ene in *.
  destruct (cv_wake_spec _ _ _ _ _ Hwk) as (m' & ws' & ne' & k & Hme' & Hobj0 & Hk' & Hres).
  assert (m' = m) by congruence; subst m'.
  assert (ws' = ws /\ ne' = ne) as (-> & ->) by (rewrite Hobj in Hobj0; inversion Hobj0; auto).
  rewrite Hk in Hk'; inversion Hk'; subst k; clear Hk'.
  destruct Hres as (e1 & ws2 & Hcons & Hu & ->).
  destruct (wake_kind_sig _ _ _ _ Hk) as (rest & Hget).
  (* my own entry: the consumed epoch is issued, and not yet consumed *)
  pose proof (proj1 (Forall_forall _ _) Hw _ (assoc_get_In _ _ _ Hget)) as (_ & _ & _ & _ & Hmine & _).
  destruct (Hmine ep (or_introl eq_refl)) as (_ & Hlt & Hfresh).
  pose proof (assoc_remove_NoDup ws m Hnd) as Hnd1.
  destruct (cv_consume_spec _ _ _ _ _ Hcons Hnd1) as (Hws2 & _ & _ & Hblk & Hsame). subst ws2.
  set (ws2 := map _ (assoc_remove ws m)) in *.
  pose proof (get_set_obj_eq st cv (OCondvar ws2 ne) _ Hobj) as Hobj'.
  set (g' := mkG _ _ _ _).
  destruct (cv_obj_eq cv e' _ g' _ _ Hobj') as (Ews' & Ene').
  pose proof (only_clocks_st _ _ (e_update_clock_only _ _ _ _ Hu)) as Hst.
  constructor; cbn [c_s c_e c_g]; rewrite ?Ews', ?Ene'; eauto.
  - apply Forall_forall; intros [tid stt'] Hin. apply In_relabel in Hin; cbn [fst snd] in Hin.
    destruct Hin as (stt & Hin & ->).
    pose proof (proj1 (Forall_forall _ _) Hw _ (assoc_remove_In _ _ _ Hin)) as Hok.
    apply went_ok_consume with (e := e); [exact Hok|]. rewrite Hst.
    destruct (reblocked ep stt) eqn:Hrb.
    + eapply Hblk; eassumption.
    + apply Hsame. intros stt2 Hin2. rewrite <- (NoDup_keys_unique _ _ _ _ Hnd1 Hin Hin2); exact Hrb.
  - unfold ws2; rewrite map_fst_relabel; exact Hnd1.
  - unfold g'; cbn [g_cons]. constructor; assumption.
  - unfold g'; cbn [g_cons In]. intros x [<-|Hin]; auto.
Qed.

Theorem cvstep_inv : forall cv s l s', CvInv cv s -> cvstep cv s l s' -> CvInv cv s'.
Proof.
  intros cv s l s' Hinv Hstep; destruct Hstep.
  - eapply cvinv_enq; eassumption.
  - eapply cvinv_wake_sig; eassumption.
  - eapply cvinv_wake_bc; eassumption.
  - eapply cvinv_notify_one; eassumption.
  - eapply cvinv_notify_all; eassumption.
  - eapply cvinv_env; eassumption.
Qed.

Theorem cvrun_inv : forall cv s tr s', CvInv cv s -> cvrun cv s tr s' -> CvInv cv s'.
Proof.
  intros cv s tr s' Hinv Hrun; induction Hrun as [|s l s1 tr s2 Hstep Hrun IH]; [exact Hinv|].
  apply IH. eapply cvstep_inv; eassumption.
Qed.

(* the initial state: a fresh condvar *)
Definition cv_init (cv : nat) (s : cvstate) : Prop :=
  get_obj (c_s s) cv = Some (OCondvar [] 0) /\ g_cons (c_g s) = [].

Lemma cv_init_inv : forall cv s, cv_init cv s -> CvInv cv s.
Proof.
  intros cv [e st g] (Hobj & Hc); cbn [c_s c_g] in *.
  destruct (cv_obj_eq cv e st g _ _ Hobj) as (Ews & Ene).
  constructor; cbn [c_s c_e c_g]; rewrite ?Ews, ?Ene, ?Hc; eauto; try constructor.
  intros ep [].
Qed.

(* ========================================================================= *)
(*  PART 3 : the clauses                                                      *)
(* ========================================================================= *)
(* what each step does to the condvar object *)
Definition relabel {A B} (f : A -> B) (l : list (nat * A)) : list (nat * B) := map (fun p => (fst p, f (snd p))) l.

Lemma cvstep_effect : forall cv s l s',
  CvInv cv s -> cvstep cv s l s' ->
  match l with
  | LEnq t => cv_ws cv s' = cv_ws cv s ++ [(t, CvWaiting)] /\ cv_ne cv s' = cv_ne cv s /\ ~ In t (map fst (cv_ws cv s))
  | LWakeSig t ep => cv_ws cv s' = relabel (consume_status ep) (assoc_remove (cv_ws cv s) t) /\ cv_ne cv s' = cv_ne cv s /\
                     exists c rest, assoc_get (cv_ws cv s) t = Some (CvSignal ((ep, c) :: rest))
  | LWakeBc t => cv_ws cv s' = assoc_remove (cv_ws cv s) t /\ cv_ne cv s' = cv_ne cv s /\
                 exists c, assoc_get (cv_ws cv s) t = Some (CvBroadcast c)
  | LNotifyOne ep => ep = cv_ne cv s /\ cv_ne cv s' = S (cv_ne cv s) /\
                     exists c, cv_ws cv s' = relabel (n1_status ep c) (cv_ws cv s)
  | LNotifyAll => cv_ne cv s' = cv_ne cv s /\ exists c, cv_ws cv s' = relabel (fun _ => CvBroadcast c) (cv_ws cv s)
  | LEnv => cv_ws cv s' = cv_ws cv s /\ cv_ne cv s' = cv_ne cv s
  end.
Proof.
  intros cv s l s' Hinv Hstep; destruct Hstep as
    [e st g e' st' m Hme Hnone Henq | e st g e' st' m ep c Hme Hk Hwk | e st g e' st' m c Hme Hk Hwk
    | e st g e' st' Hn | e st g e' st' Hn | e st g e' st' Hsame Hst];
  destruct Hinv as [(ws & ne & Hobj) _ _ _ _]; cbn [c_s] in Hobj;
  destruct (cv_obj_eq cv e st g ws ne Hobj) as (Ews & Ene); rewrite ?Ews, ?Ene in *.
  - destruct (cv_enqueue_spec _ _ _ _ _ Henq) as (m' & ws' & ne' & Hme' & Hobj0 & Hb & ->).
    assert (m' = m) by congruence; subst m'.
    assert (ws' = ws /\ ne' = ne) as (-> & ->) by (rewrite Hobj in Hobj0; inversion Hobj0; auto).
    pose proof (get_set_obj_eq st cv (OCondvar (ws ++ [(m, CvWaiting)]) ne) _ Hobj) as Hobj'.
    match goal with |- cv_ws cv (mkCv ?a ?b ?c) = _ /\ _ => destruct (cv_obj_eq cv a b c _ _ Hobj') as (-> & ->) end.
    repeat split. apply assoc_get_None; exact Hnone.
  - destruct (cv_wake_spec _ _ _ _ _ Hwk) as (m' & ws' & ne' & k & Hme' & Hobj0 & Hk' & Hres).
    assert (m' = m) by congruence; subst m'.
    assert (ws' = ws /\ ne' = ne) as (-> & ->) by (rewrite Hobj in Hobj0; inversion Hobj0; auto).
    rewrite Hk in Hk'; inversion Hk'; subst k; clear Hk'.
    destruct Hres as (e1 & ws2 & Hcons & Hu & ->).
    destruct (wake_kind_sig _ _ _ _ Hk) as (rest & Hget).
    pose proof (get_set_obj_eq st cv (OCondvar ws2 ne) _ Hobj) as Hobj'.
    match goal with |- cv_ws cv (mkCv ?a ?b ?c) = _ /\ _ => destruct (cv_obj_eq cv a b c _ _ Hobj') as (-> & ->) end.
    split; [|split; [reflexivity|eauto]].
    (* the keys of ws are distinct in every reachable state; here only the functional shape is needed *)
    clear - Hcons. revert e e1 ws2 Hcons. generalize (assoc_remove ws m) as l.
    induction l as [|[tid stt] r IH]; intros e e1 ws2 Hc.
    + cbn [cv_consume_epoch] in Hc; inversion Hc; reflexivity.
    + rewrite cv_consume_cons in Hc. unfold relabel; cbn [map fst snd]. fold (relabel (consume_status ep) r).
      destruct stt as [|eps|c0]; cbn [consume_status].
      * destruct (cv_consume_epoch e r ep) as [[e2 r']|] eqn:Hr; [|discriminate]. inversion Hc; subst.
        rewrite (IH _ _ _ Hr); reflexivity.
      * destruct (has_ep eps ep).
        -- destruct (rm_ep ep eps) as [|p q].
           ++ destruct (e_block e tid false) as [e0|]; [|discriminate].
              destruct (cv_consume_epoch e0 r ep) as [[e2 r']|] eqn:Hr; [|discriminate]. inversion Hc; subst.
              rewrite (IH _ _ _ Hr); reflexivity.
           ++ destruct (cv_consume_epoch e r ep) as [[e2 r']|] eqn:Hr; [|discriminate]. inversion Hc; subst.
              rewrite (IH _ _ _ Hr); reflexivity.
        -- destruct (cv_consume_epoch e r ep) as [[e2 r']|] eqn:Hr; [|discriminate]. inversion Hc; subst.
           rewrite (IH _ _ _ Hr); reflexivity.
      * destruct (cv_consume_epoch e r ep) as [[e2 r']|] eqn:Hr; [|discriminate]. inversion Hc; subst.
        rewrite (IH _ _ _ Hr); reflexivity.
  - destruct (cv_wake_spec _ _ _ _ _ Hwk) as (m' & ws' & ne' & k & Hme' & Hobj0 & Hk' & Hres).
    assert (m' = m) by congruence; subst m'.
    assert (ws' = ws /\ ne' = ne) as (-> & ->) by (rewrite Hobj in Hobj0; inversion Hobj0; auto).
    rewrite Hk in Hk'; inversion Hk'; subst k; clear Hk'.
    destruct Hres as (Hu & ->).
    pose proof (get_set_obj_eq st cv (OCondvar (assoc_remove ws m) ne) _ Hobj) as Hobj'.
    match goal with |- cv_ws cv (mkCv ?a ?b ?c) = _ /\ _ => destruct (cv_obj_eq cv a b c _ _ Hobj') as (-> & ->) end.
    split; [reflexivity|split; [reflexivity|]]. exists c; apply wake_kind_bc; exact Hk.
  - rewrite cv_notify_one_unfold, Hobj in Hn.
    destruct (me e) as [m|]; [|discriminate].
    destruct (e_clock e m) as [c|]; [|discriminate].
    destruct (fold_left _ ws (Some (e, []))) as [[e1 ws1]|] eqn:Hf; [|discriminate].
    inversion Hn; subst e1 st'; clear Hn.
    destruct (notify_fold_spec _ _ _ _ _ _ _ Hf) as (Hws & _). cbn [app] in Hws; subst ws1.
    match goal with |- context [set_obj st cv ?o] => pose proof (get_set_obj_eq st cv o _ Hobj) as Hobj' end.
    destruct (cv_obj_eq cv e' _ g _ _ Hobj') as (Ews' & Ene'). rewrite Ews', Ene'.
    split; [reflexivity|]. split; [reflexivity|]. exists c; reflexivity.
  - rewrite cv_notify_all_unfold, Hobj in Hn.
    destruct (me e) as [m|]; [|discriminate].
    destruct (e_clock e m) as [c|]; [|discriminate].
    destruct (fold_left _ ws (Some (e, []))) as [[e1 ws1]|] eqn:Hf; [|discriminate].
    inversion Hn; subst e1 st'; clear Hn.
    destruct (notify_fold_spec _ _ _ _ _ _ _ Hf) as (Hws & _). cbn [app] in Hws; subst ws1.
    match goal with |- context [set_obj st cv ?o] => pose proof (get_set_obj_eq st cv o _ Hobj) as Hobj' end.
    match goal with |- cv_ne cv (mkCv ?a ?b ?c) = _ /\ _ => destruct (cv_obj_eq cv a b c _ _ Hobj') as (-> & ->) end.
    split; [reflexivity|]. exists c; reflexivity.
  - assert (Hobj' : get_obj st' cv = Some (OCondvar ws ne)) by congruence.
    destruct (cv_obj_eq cv e' st' g ws ne Hobj') as (-> & ->). auto.
Qed.

(* ---- cv_wake_justified ---- *)
(* cv_wake returns (does not panic) only for a waiter holding a pending signal or a broadcast *)
Theorem cv_wake_justified : forall e st cv e' st' m ws ne,
  cv_wake e st cv = Some (e', st') -> me e = Some m -> get_obj st cv = Some (OCondvar ws ne) ->
  (exists ep c rest, assoc_get ws m = Some (CvSignal ((ep, c) :: rest))) \/
  (exists c, assoc_get ws m = Some (CvBroadcast c)).
Proof.
  intros e st cv e' st' m ws ne Hwk Hme Hobj.
  destruct (cv_wake_spec _ _ _ _ _ Hwk) as (m' & ws' & ne' & k & Hme' & Hobj0 & Hk' & _).
  assert (m' = m) by congruence; subst m'.
  assert (ws' = ws /\ ne' = ne) as (-> & ->) by (rewrite Hobj in Hobj0; inversion Hobj0; auto).
  destruct k as [ep c|c].
  - left. destruct (wake_kind_sig _ _ _ _ Hk') as (rest & H); eauto.
  - right. exists c; apply wake_kind_bc; exact Hk'.
Qed.

(* ... and in every state of the transition system it does return for such a waiter, provided the
   clock update cannot overflow (its own clock entry exists and is below u32::MAX) *)
Theorem cv_wake_succeeds : forall cv e st g m k,
  CvInv cv (mkCv e st g) -> me e = Some m -> wake_kind_of (cv_ws cv (mkCv e st g)) m = Some k ->
  inc_ok e m ->
  exists e' st', cv_wake e st cv = Some (e', st').
Proof.
  intros cv e st g m k [(ws & ne & Hobj) Hw Hnd _ _] Hme Hk Hok. cbn [c_s c_e c_g] in *.
  destruct (cv_obj_eq cv e st g ws ne Hobj) as (Ews & Ene). rewrite Ews, Ene in *.
  unfold cv_wake; rewrite Hme, Hobj. unfold wake_kind_of in Hk.
  destruct (assoc_get ws m) as [[|[|[ep c] rest]|c]|] eqn:Hget; try discriminate.
  - assert (Hal : forall tid, In tid (map fst (assoc_remove ws m)) -> alive e tid).
    { intros tid Hin. apply in_map_iff in Hin. destruct Hin as ([tid' stt] & Heq & Hin); cbn [fst] in Heq; subst tid'.
      pose proof (proj1 (Forall_forall _ _) Hw _ (assoc_remove_In _ _ _ Hin)) as (_ & _ & Hs).
      destruct stt as [|eps|c0].
      - eexists; split; [exact Hs|discriminate].
      - destruct Hs as (_ & _ & _ & Hs). eexists; split; [exact Hs|discriminate].
      - destruct Hs as (Hs & _). eexists; split; [exact Hs|discriminate]. }
    destruct (cv_consume_succ _ e ep Hal) as (e1 & ws2 & Hc); rewrite Hc.
    destruct (cv_consume_spec _ _ _ _ _ Hc (assoc_remove_NoDup ws m Hnd)) as (_ & _ & Hclk & _).
    destruct (e_update_clock_succ e1 m c (inc_ok_clk e e1 m (Hclk m) Hok)) as (e2 & Hu); rewrite Hu; eauto.
  - destruct (e_update_clock_succ e m c Hok) as (e2 & Hu); rewrite Hu; eauto.
Qed.

(* the epoch (or the broadcast) that ends a wait was issued after that wait was enqueued *)
Theorem cv_wake_after_enqueue : forall cv s l s',
  CvInv cv s -> cvstep cv s l s' ->
  match l with
  | LWakeSig t ep => g_enq_ep (c_g s) t <= ep /\ ep < cv_ne cv s /\ ~ In ep (g_cons (c_g s))
  | LWakeBc t => g_enq_bc (c_g s) t < g_nbc (c_g s)
  | _ => True
  end.
Proof.
  intros cv s l s' Hinv Hstep. pose proof (cvstep_effect cv s l s' Hinv Hstep) as Heff.
  destruct Hinv as [_ Hw _ _ _].
  destruct l; try exact I.
  - destruct Heff as (_ & _ & c & rest & Hget).
    pose proof (proj1 (Forall_forall _ _) Hw _ (assoc_get_In _ _ _ Hget)) as (_ & _ & _ & _ & Hmine & _).
    apply Hmine; left; reflexivity.
  - destruct Heff as (_ & _ & c & Hget).
    pose proof (proj1 (Forall_forall _ _) Hw _ (assoc_get_In _ _ _ Hget)) as (_ & _ & _ & Hlt). exact Hlt.
Qed.

(* ---- cv_epoch_once ---- *)
(* the consumed epoch disappears from every waiter: nobody else can be released by it *)
Theorem cv_epoch_once : forall cv s t ep s',
  CvInv cv s -> cvstep cv s (LWakeSig t ep) s' ->
  forall tid eps, In (tid, CvSignal eps) (cv_ws cv s') -> ~ In ep (eps_of eps).
Proof.
  intros cv s t ep s' Hinv Hstep tid eps Hin Hep.
  pose proof (cvstep_inv _ _ _ _ Hinv Hstep) as [_ Hw' _ _ _].
  pose proof (proj1 (Forall_forall _ _) Hw' _ Hin) as (_ & _ & _ & _ & Hall & _).
  destruct (Hall ep Hep) as (_ & _ & Hfresh).
  inversion Hstep; subst. cbn [c_g g_cons] in Hfresh. apply Hfresh; left; reflexivity.
Qed.

Fixpoint sig_epochs (tr : list cvlabel) : list nat :=
  match tr with [] => [] | LWakeSig _ ep :: r => ep :: sig_epochs r | _ :: r => sig_epochs r end.
Fixpoint count_n1 (tr : list cvlabel) : nat :=
  match tr with [] => 0 | LNotifyOne _ :: r => S (count_n1 r) | _ :: r => count_n1 r end.
Fixpoint count_nall (tr : list cvlabel) : nat :=
  match tr with [] => 0 | LNotifyAll :: r => S (count_nall r) | _ :: r => count_nall r end.

Lemma cvstep_ghost : forall cv s l s',
  cvstep cv s l s' ->
  g_cons (c_g s') = rev (sig_epochs [l]) ++ g_cons (c_g s) /\
  g_nbc (c_g s') = count_nall [l] + g_nbc (c_g s).
Proof. intros cv s l s' Hstep; destruct Hstep; cbn; auto. Qed.

Lemma sig_epochs_cons : forall l tr, sig_epochs (l :: tr) = sig_epochs [l] ++ sig_epochs tr.
Proof. intros l tr; destruct l; reflexivity. Qed.
Lemma count_n1_cons : forall l tr, count_n1 (l :: tr) = count_n1 [l] + count_n1 tr.
Proof. intros l tr; destruct l; reflexivity. Qed.
Lemma count_nall_cons : forall l tr, count_nall (l :: tr) = count_nall [l] + count_nall tr.
Proof. intros l tr; destruct l; reflexivity. Qed.

Lemma cvrun_ghost : forall cv s tr s',
  CvInv cv s -> cvrun cv s tr s' ->
  g_cons (c_g s') = rev (sig_epochs tr) ++ g_cons (c_g s) /\
  cv_ne cv s' = cv_ne cv s + count_n1 tr /\
  g_nbc (c_g s') = count_nall tr + g_nbc (c_g s).
Proof.
  intros cv s tr s' Hinv Hrun; induction Hrun as [|s l s1 tr s2 Hstep Hrun IH].
  - cbn; auto.
  - destruct (IH (cvstep_inv _ _ _ _ Hinv Hstep)) as (A & B & C).
    destruct (cvstep_ghost _ _ _ _ Hstep) as (A1 & C1).
    pose proof (cvstep_effect _ _ _ _ Hinv Hstep) as Heff.
    rewrite sig_epochs_cons, count_n1_cons, count_nall_cons, rev_app_distr, A, A1, B, C, C1, <- app_assoc.
    split; [reflexivity|]. split; [|lia].
    destruct l; cbn [count_n1].
    + destruct Heff as (_ & -> & _); lia.
    + destruct Heff as (_ & -> & _); lia.
    + destruct Heff as (_ & -> & _); lia.
    + destruct Heff as (_ & -> & _); lia.
    + destruct Heff as (-> & _); lia.
    + destruct Heff as (_ & ->); lia.
Qed.

Lemma NoDup_bounded_length : forall l n, NoDup l -> (forall x, In x l -> x < n) -> length l <= n.
Proof.
  intros l n Hnd Hlt. rewrite <- (seq_length n 0). apply NoDup_incl_length; [exact Hnd|].
  intros x Hx; apply in_seq; specialize (Hlt x Hx); lia.
Qed.

(* over any execution from a fresh condvar: no two signal wake-ups consume the same epoch, and
   there are at most as many signal wake-ups as notify_one calls *)
Theorem cv_signal_wakeups_bounded : forall cv s tr s',
  cv_init cv s -> cvrun cv s tr s' ->
  NoDup (sig_epochs tr) /\ length (sig_epochs tr) <= count_n1 tr.
Proof.
  intros cv s tr s' Hinit Hrun. pose proof (cv_init_inv _ _ Hinit) as Hinv.
  destruct (cvrun_ghost _ _ _ _ Hinv Hrun) as (A & B & _).
  destruct (cvrun_inv _ _ _ _ Hinv Hrun) as [_ _ _ Hnd Hlt].
  destruct Hinit as (Hobj & Hc). destruct s as [e st g]; cbn [c_s c_g] in *.
  destruct (cv_obj_eq cv e st g _ _ Hobj) as (_ & Ene). rewrite Ene in B. rewrite Hc, app_nil_r in A.
  rewrite A in Hnd, Hlt.
  split.
  - apply NoDup_rev in Hnd. rewrite rev_involutive in Hnd; exact Hnd.
  - pose proof (NoDup_bounded_length _ _ Hnd Hlt) as H. rewrite rev_length in H. lia.
Qed.

(* ---- cv_blocked_means_all_consumed ---- *)
Lemma reblocked_dec : forall ep t (ws : list (nat * cv_status)),
  (forall stt, In (t, stt) ws -> reblocked ep stt = false) \/ (exists stt, In (t, stt) ws /\ reblocked ep stt = true).
Proof.
  intros ep t ws; induction ws as [|[tid stt] r IH].
  - left; intros stt [].
  - destruct IH as [IH|(stt' & Hin & Hrb)]; [|right; exists stt'; split; [right; exact Hin|exact Hrb]].
    destruct (Nat.eq_dec tid t) as [->|Hne].
    + destruct (reblocked ep stt) eqn:Hrb.
      * right; exists stt; split; [left; reflexivity|exact Hrb].
      * left; intros stt' [Heq|Hin]; [inversion Heq; subst; exact Hrb|apply IH; exact Hin].
    + left; intros stt' [Heq|Hin]; [inversion Heq; congruence|apply IH; exact Hin].
Qed.

(* cv_consume_epoch changes the scheduling state of exactly the waiters whose only pending epoch was
   the consumed one: they are blocked again, with status Waiting *)
Theorem cv_blocked_means_all_consumed : forall ws e ep e' ws' t,
  cv_consume_epoch e ws ep = Some (e', ws') -> NoDup (map fst ws) ->
  st_of e' t <> st_of e t ->
  exists c, In (t, CvSignal [(ep, c)]) ws /\ In (t, CvWaiting) ws' /\ st_of e' t = Some (Blocked false).
Proof.
  intros ws e ep e' ws' t Hc Hnd Hdiff.
  destruct (cv_consume_spec _ _ _ _ _ Hc Hnd) as (Hws' & _ & _ & Hblk & Hsame).
  destruct (reblocked_dec ep t ws) as [Hno|(stt & Hin & Hrb)]; [exfalso; apply Hdiff, Hsame, Hno|].
  apply reblocked_singleton in Hrb as Hs; destruct Hs as (c & ->).
  exists c; split; [exact Hin|]. split; [|eapply Hblk; eassumption].
  subst ws'. apply (In_relabel (consume_status ep)); cbn [fst snd].
  exists (CvSignal [(ep, c)]); split; [exact Hin|].
  symmetry; apply consume_status_waiting; right; exact Hrb.
Qed.

(* in every reachable state a waiter that is blocked holds no pending epoch and no broadcast *)
Theorem cv_blocked_waiter_is_waiting : forall cv s t stt b,
  CvInv cv s -> In (t, stt) (cv_ws cv s) -> st_of (c_e s) t = Some (Blocked b) -> stt = CvWaiting.
Proof.
  intros cv s t stt b [_ Hw _ _ _] Hin Hst.
  pose proof (proj1 (Forall_forall _ _) Hw _ Hin) as (_ & _ & H).
  destruct stt as [|eps|c]; [reflexivity| |].
  - destruct H as (_ & _ & _ & Hr); congruence.
  - destruct H as (Hr & _); congruence.
Qed.

(* ---- cv_pending_runnable : no lost wake-up ---- *)
Theorem cv_pending_runnable : forall cv s t stt,
  CvInv cv s -> In (t, stt) (cv_ws cv s) -> stt <> CvWaiting -> st_of (c_e s) t = Some Runnable.
Proof.
  intros cv s t stt [_ Hw _ _ _] Hin Hnw.
  pose proof (proj1 (Forall_forall _ _) Hw _ Hin) as (_ & _ & H).
  destruct stt as [|eps|c]; [congruence| |].
  - destruct H as (_ & _ & _ & Hr); exact Hr.
  - destruct H as (Hr & _); exact Hr.
Qed.

(* a waiter is blocked exactly while it has nothing to consume *)
Theorem cv_waiting_blocked : forall cv s t,
  CvInv cv s -> In (t, CvWaiting) (cv_ws cv s) -> st_of (c_e s) t = Some (Blocked false).
Proof.
  intros cv s t [_ Hw _ _ _] Hin.
  pose proof (proj1 (Forall_forall _ _) Hw _ Hin) as (_ & _ & H). exact H.
Qed.

(* ---- cv_broadcast_all, cv_notify_one_any ---- *)
Theorem cv_broadcast_all : forall e st cv e' st' ws ne,
  cv_notify_all e st cv = Some (e', st') -> get_obj st cv = Some (OCondvar ws ne) ->
  exists c, get_obj st' cv = Some (OCondvar (relabel (fun _ => CvBroadcast c) ws) ne) /\
    (forall t, In t (map fst ws) -> st_of e' t = Some Runnable) /\
    (forall t, ~ In t (map fst ws) -> st_of e' t = st_of e t).
Proof.
  intros e st cv e' st' ws ne Hn Hobj. rewrite cv_notify_all_unfold, Hobj in Hn.
  destruct (me e) as [m|]; [|discriminate].
  destruct (e_clock e m) as [c|]; [|discriminate].
  destruct (fold_left _ ws (Some (e, []))) as [[e1 ws1]|] eqn:Hf; [|discriminate].
  inversion Hn; subst e1 st'; clear Hn.
  destruct (notify_fold_spec _ _ _ _ _ _ _ Hf) as (Hws & _ & _ & _ & Hrun & Hsame). cbn [app] in Hws; subst ws1.
  exists c. split; [eapply get_set_obj_eq; exact Hobj|]. split; assumption.
Qed.

Definition holds_epoch (ep : nat) (stt : cv_status) : Prop :=
  match stt with CvSignal eps => In ep (eps_of eps) | CvBroadcast _ => True | CvWaiting => False end.

Theorem cv_notify_one_any : forall e st cv e' st' ws ne,
  cv_notify_one e st cv = Some (e', st') -> get_obj st cv = Some (OCondvar ws ne) ->
  exists c, get_obj st' cv = Some (OCondvar (relabel (n1_status ne c) ws) (S ne)) /\
    (forall t stt, In (t, stt) (relabel (n1_status ne c) ws) -> holds_epoch ne stt) /\
    (forall t, In t (map fst ws) -> st_of e' t = Some Runnable) /\
    (forall t, ~ In t (map fst ws) -> st_of e' t = st_of e t).
Proof.
  intros e st cv e' st' ws ne Hn Hobj. rewrite cv_notify_one_unfold, Hobj in Hn.
  destruct (me e) as [m|]; [|discriminate].
  destruct (e_clock e m) as [c|]; [|discriminate].
  destruct (fold_left _ ws (Some (e, []))) as [[e1 ws1]|] eqn:Hf; [|discriminate].
  inversion Hn; subst e1 st'; clear Hn.
  destruct (notify_fold_spec _ _ _ _ _ _ _ Hf) as (Hws & _ & _ & _ & Hrun & Hsame). cbn [app] in Hws; subst ws1.
  exists c. split; [eapply get_set_obj_eq; exact Hobj|]. split; [|split; assumption].
  intros t stt' Hin. apply (In_relabel (n1_status ne c)) in Hin; cbn [fst snd] in Hin.
  destruct Hin as (stt & _ & ->). destruct stt as [|eps|b]; cbn [n1_status holds_epoch eps_of map fst In]; auto.
  unfold eps_of; rewrite map_app, in_app_iff; right; left; reflexivity.
Qed.

(* a notification by a task that is not itself waiting never fails in a reachable state *)
Theorem cv_notify_succeeds : forall cv e st g m (all : bool),
  CvInv cv (mkCv e st g) -> me e = Some m -> alive e m -> ~ In m (map fst (cv_ws cv (mkCv e st g))) ->
  exists e' st', (if all then cv_notify_all e st cv else cv_notify_one e st cv) = Some (e', st').
Proof.
  intros cv e st g m all [(ws & ne & Hobj) Hw _ _ _] Hme Hal Hnotin. cbn [c_s c_e c_g] in *.
  destruct (cv_obj_eq cv e st g ws ne Hobj) as (Ews & Ene). rewrite Ews, Ene in *.
  assert (Hclk : exists c, e_clock e m = Some c).
  { apply alive_get in Hal; destruct Hal as (tk & Hg & _). unfold e_clock; rewrite Hg; eauto. }
  destruct Hclk as (c & Hclk).
  assert (Halive : forall tid, In tid (map fst ws) -> alive e tid).
  { intros tid Hin. apply in_map_iff in Hin. destruct Hin as ([tid' stt] & Heq & Hin); cbn [fst] in Heq; subst tid'.
    pose proof (proj1 (Forall_forall _ _) Hw _ Hin) as (_ & _ & Hs).
    destruct stt as [|eps|c0].
    - eexists; split; [exact Hs|discriminate].
    - destruct Hs as (_ & _ & _ & Hs). eexists; split; [exact Hs|discriminate].
    - destruct Hs as (Hs & _). eexists; split; [exact Hs|discriminate]. }
  destruct all.
  - rewrite cv_notify_all_unfold, Hme, Hobj, Hclk.
    destruct (notify_fold_succ (fun _ => CvBroadcast c) m ws e [] Hnotin Halive) as (e' & ws' & Hf).
    rewrite Hf; eauto.
  - rewrite cv_notify_one_unfold, Hme, Hobj, Hclk.
    destruct (notify_fold_succ (n1_status ne c) m ws e [] Hnotin Halive) as (e' & ws' & Hf).
    rewrite Hf; eauto.
Qed.

(* ---- the trace form of "a wait returns only after a notification issued while it was waiting" ---- *)
Definition about (t : nat) (l : cvlabel) : bool :=
  match l with LEnq t' | LWakeSig t' _ | LWakeBc t' => Nat.eqb t t' | _ => false end.
(* no step of task t's own wait protocol in b *)
Definition quiet (t : nat) (b : list cvlabel) : Prop := forallb (fun l => negb (about t l)) b = true.

Lemma count_n1_app : forall a b, count_n1 (a ++ b) = count_n1 a + count_n1 b.
Proof. intros a b; induction a as [|l a IH]; [reflexivity|]. destruct l; cbn [app count_n1]; rewrite IH; lia. Qed.
Lemma count_nall_app : forall a b, count_nall (a ++ b) = count_nall a + count_nall b.
Proof. intros a b; induction a as [|l a IH]; [reflexivity|]. destruct l; cbn [app count_nall]; rewrite IH; lia. Qed.

Lemma snoc_split : forall {A} (p : list A) x post pre l,
  p ++ x :: post = pre ++ [l] ->
  (post = [] /\ p = pre /\ x = l) \/ (exists post', post = post' ++ [l] /\ pre = p ++ x :: post').
Proof.
  intros A p x post pre l H.
  destruct post as [|y post0].
  - left. apply app_inj_tail in H. tauto.
  - right. destruct (@exists_last _ (y :: post0)) as (post' & l' & E); [discriminate|]. rewrite E in *.
    change (p ++ x :: post' ++ [l']) with (p ++ (x :: post') ++ [l']) in H. rewrite app_assoc in H.
    apply app_inj_tail in H. destruct H as (<- & <-). exists post'; auto.
Qed.

Lemma nth_n1 : forall b k, k < count_n1 b ->
  exists b1 x c, b = b1 ++ LNotifyOne x :: c /\ count_n1 b1 = k.
Proof.
  intros b; induction b as [|l b IH]; intros k Hk; [cbn in Hk; lia|].
  assert (Hother : count_n1 (l :: b) = count_n1 b ->
          exists b1 x c, l :: b = b1 ++ LNotifyOne x :: c /\ count_n1 b1 = k).
  { intros Heq. rewrite Heq in Hk. destruct (IH k Hk) as (b1 & x & c & -> & Hc).
    exists (l :: b1), x, c; split; [reflexivity|]. rewrite count_n1_cons in Heq |- *.
    rewrite count_n1_cons, count_n1_app in Heq. rewrite (count_n1_cons l), Hc in *. lia. }
  destruct l; try (apply Hother; reflexivity).
  destruct k as [|k].
  - exists [], ep, b; auto.
  - cbn [count_n1] in Hk. destruct (IH k) as (b1 & x & c & -> & Hc); [lia|].
    exists (LNotifyOne ep :: b1), x, c; split; [reflexivity|]. cbn [count_n1]; lia.
Qed.

Lemma first_nall : forall b, 0 < count_nall b -> exists b1 c, b = b1 ++ LNotifyAll :: c.
Proof.
  intros b; induction b as [|l b IH]; intros Hk; [cbn in Hk; lia|].
  destruct l; try (cbn [count_nall] in Hk; destruct (IH Hk) as (b1 & c & ->);
                   eexists (_ :: b1), c; reflexivity).
  exists [], b; reflexivity.
Qed.

Lemma cvstep_ghost_enq : forall cv s l s',
  cvstep cv s l s' ->
  match l with
  | LEnq m => g_enq_ep (c_g s') = fupd (g_enq_ep (c_g s)) m (cv_ne cv s) /\
              g_enq_bc (c_g s') = fupd (g_enq_bc (c_g s)) m (g_nbc (c_g s))
  | _ => g_enq_ep (c_g s') = g_enq_ep (c_g s) /\ g_enq_bc (c_g s') = g_enq_bc (c_g s)
  end.
Proof. intros cv s l s' Hstep; destruct Hstep; cbn; auto. Qed.

(* the ghost state is what the trace says *)
Definition TrInv (cv : nat) (pre : list cvlabel) (s : cvstate) : Prop :=
  cv_ne cv s = count_n1 pre /\ g_nbc (c_g s) = count_nall pre /\
  (forall a ep b, pre = a ++ LNotifyOne ep :: b -> ep = count_n1 a) /\
  (forall t, In t (map fst (cv_ws cv s)) ->
     exists a b, pre = a ++ LEnq t :: b /\ quiet t b /\
                 g_enq_ep (c_g s) t = count_n1 a /\ g_enq_bc (c_g s) t = count_nall a).

Lemma quiet_snoc : forall t b l, quiet t b -> about t l = false -> quiet t (b ++ [l]).
Proof.
  unfold quiet; intros t b l Hq Ha. rewrite forallb_app, Hq; cbn [forallb]. rewrite Ha; reflexivity.
Qed.

Lemma relabel_keys : forall {A B} (f : A -> B) l, map fst (relabel f l) = map fst l.
Proof. intros; apply map_fst_relabel. Qed.

Lemma trinv_step : forall cv pre s l s',
  CvInv cv s -> TrInv cv pre s -> cvstep cv s l s' -> TrInv cv (pre ++ [l]) s'.
Proof.
  intros cv pre s l s' Hinv (Hne & Hnbc & Hn1 & Hws) Hstep.
  pose proof (cvstep_effect _ _ _ _ Hinv Hstep) as Heff.
  pose proof (cvstep_ghost _ _ _ _ Hstep) as (_ & Hg2).
  pose proof (cvstep_ghost_enq _ _ _ _ Hstep) as Hge.
  pose proof (ci_nodup _ _ Hinv) as Hnd.
  unfold TrInv. rewrite count_n1_app, count_nall_app.
  (* keys of the new waiter list, and that the step is not about an old waiter that stays *)
  assert (Hkeys : forall t, In t (map fst (cv_ws cv s')) ->
            (In t (map fst (cv_ws cv s)) /\ about t l = false) \/ (l = LEnq t)).
  { intros t Hin. destruct l.
    - destruct Heff as (E & _ & Hnotin). rewrite E, map_app, in_app_iff in Hin; cbn [map fst In] in Hin.
      destruct Hin as [Hin|[<-|[]]]; [left|right; reflexivity].
      split; [exact Hin|]. cbn [about]. apply Nat.eqb_neq. intros ->; contradiction.
    - destruct Heff as (E & _). rewrite E, relabel_keys in Hin. apply (assoc_remove_keys _ _ _ Hnd) in Hin.
      left; split; [tauto|]. cbn [about]; apply Nat.eqb_neq; tauto.
    - destruct Heff as (E & _). rewrite E in Hin. apply (assoc_remove_keys _ _ _ Hnd) in Hin.
      left; split; [tauto|]. cbn [about]; apply Nat.eqb_neq; tauto.
    - destruct Heff as (_ & _ & c & E). rewrite E, relabel_keys in Hin. left; auto.
    - destruct Heff as (_ & c & E). rewrite E, relabel_keys in Hin. left; auto.
    - destruct Heff as (E & _). rewrite E in Hin. left; auto. }
  split; [|split; [|split]].
  - destruct l; cbn [count_n1]; try (destruct Heff as (_ & -> & _); lia).
    + destruct Heff as (-> & _); lia.
    + destruct Heff as (_ & ->); lia.
  - rewrite Hg2, Hnbc; lia.
  - intros a ep b Heq. symmetry in Heq. destruct (snoc_split _ _ _ _ _ Heq) as [(_ & -> & <-)|(post' & _ & ->)].
    + destruct Heff as (-> & _). exact Hne.
    + eapply Hn1; reflexivity.
  - intros t Hin. destruct (Hkeys t Hin) as [(Hold & Hab) | Hl]; [|subst l].
    + destruct (Hws t Hold) as (a & b & -> & Hq & He & Hb).
      exists a, (b ++ [l]). split; [rewrite <- app_assoc; reflexivity|].
      split; [apply quiet_snoc; assumption|].
      destruct l; try (destruct Hge as (-> & ->); auto; fail).
      destruct Hge as (-> & ->). unfold fupd. cbn [about] in Hab. rewrite Hab; auto.
    + exists pre, []. split; [reflexivity|]. split; [reflexivity|].
      destruct Hge as (-> & ->). unfold fupd; rewrite Nat.eqb_refl. auto.
Qed.

Definition wake_justified (full : list cvlabel) : Prop :=
  (forall pre t ep post, full = pre ++ LWakeSig t ep :: post ->
     exists a b c, pre = a ++ LEnq t :: b ++ LNotifyOne ep :: c /\ quiet t (b ++ LNotifyOne ep :: c)) /\
  (forall pre t post, full = pre ++ LWakeBc t :: post ->
     exists a b c, pre = a ++ LEnq t :: b ++ LNotifyAll :: c /\ quiet t (b ++ LNotifyAll :: c)).

Lemma wake_justified_step : forall cv pre s l s',
  CvInv cv s -> TrInv cv pre s -> wake_justified pre -> cvstep cv s l s' -> wake_justified (pre ++ [l]).
Proof.
  intros cv pre s l s' Hinv (Hne & Hnbc & Hn1 & Hws) (Hj1 & Hj2) Hstep.
  pose proof (cvstep_effect _ _ _ _ Hinv Hstep) as Heff.
  pose proof (cv_wake_after_enqueue _ _ _ _ Hinv Hstep) as Haft.
  split.
  - intros p t ep post Heq. symmetry in Heq. destruct (snoc_split _ _ _ _ _ Heq) as [(_ & -> & <-)|(post' & _ & ->)];
      [|eapply Hj1; reflexivity].
    destruct Heff as (_ & _ & c0 & rest & Hget). destruct Haft as (Hge & Hlt & _).
    destruct (Hws t) as (a & b & -> & Hq & He & _).
    { apply assoc_get_In in Hget. apply (in_map fst) in Hget; exact Hget. }
    rewrite Hne, He, count_n1_app, (count_n1_cons (LEnq t)) in *. cbn [count_n1] in Hlt.
    destruct (nth_n1 b (ep - count_n1 a)) as (b1 & x & c & -> & Hc); [lia|].
    assert (x = ep) as ->.
    { rewrite (Hn1 (a ++ LEnq t :: b1) x c) by (rewrite <- app_assoc; reflexivity).
      rewrite count_n1_app, (count_n1_cons (LEnq t)); cbn [count_n1]. lia. }
    exists a, b1, c. split; [reflexivity|exact Hq].
  - intros p t post Heq. symmetry in Heq. destruct (snoc_split _ _ _ _ _ Heq) as [(_ & -> & <-)|(post' & _ & ->)];
      [|eapply Hj2; reflexivity].
    destruct Heff as (_ & _ & c0 & Hget).
    destruct (Hws t) as (a & b & -> & Hq & _ & Hb).
    { apply assoc_get_In in Hget. apply (in_map fst) in Hget; exact Hget. }
    rewrite Hnbc, Hb, count_nall_app, (count_nall_cons (LEnq t)) in Haft. cbn [count_nall] in Haft.
    destruct (first_nall b) as (b1 & c & ->); [lia|].
    exists a, b1, c. split; [reflexivity|exact Hq].
Qed.

Lemma cvrun_justified : forall cv s tr s',
  cvrun cv s tr s' -> forall pre, CvInv cv s -> TrInv cv pre s -> wake_justified pre ->
  wake_justified (pre ++ tr).
Proof.
  intros cv s tr s' Hrun; induction Hrun as [|s l s1 tr s2 Hstep Hrun IH]; intros pre Hinv Htr Hj.
  - rewrite app_nil_r; exact Hj.
  - change (l :: tr) with ([l] ++ tr); rewrite app_assoc. apply IH.
    + eapply cvstep_inv; eassumption.
    + eapply trinv_step; eassumption.
    + eapply wake_justified_step; eassumption.
Qed.

(* THE condvar theorem.  In any execution from a fresh condvar, every wake-up of a waiter t through
   epoch ep is preceded by the enqueue of t and then the notify_one that issued ep, with no other
   step of t's wait protocol in between (the notification was issued during this very wait); and
   every wake-up through a broadcast is preceded by the enqueue of t and then a notify_all. *)
Theorem cv_wait_returns_after_notification : forall cv s tr s',
  cv_init cv s -> g_nbc (c_g s) = 0 -> cvrun cv s tr s' -> wake_justified tr.
Proof.
  intros cv s tr s' Hinit Hnbc Hrun.
  change tr with ([] ++ tr). eapply cvrun_justified; [exact Hrun|apply cv_init_inv; exact Hinit| |].
  - destruct Hinit as (Hobj & _). destruct s as [e st g]; cbn [c_s c_g] in *.
    destruct (cv_obj_eq cv e st g _ _ Hobj) as (Ews & Ene).
    split; [rewrite Ene; reflexivity|]. split; [exact Hnbc|].
    split; [intros a ep b H; destruct a; discriminate|].
    rewrite Ews; intros t [].
  - split; intros pre; intros; destruct pre; discriminate.
Qed.

(* ========================================================================= *)
(*  PART 4 : the code trees of wait and notify                                *)
(* ========================================================================= *)
(* the block of MutexGuard::drop after its scheduling point *)
Definition mutex_release_block (m : nat) : exec -> store -> option (exec * store) :=
  fun e st =>
    match on_sem m st (fun s => sem_release e s 1) with
    | Some (OMutex _ _ p, (e', s')) => Some (e', set_obj st m (OMutex None s' (p || panicking e)))
    | _ => None end.

Lemma mutex_unlock_code_shape : forall m k, mutex_unlock_code m k = Switch (atomic_u (mutex_release_block m) k).
Proof. reflexivity. Qed.

(* the last block of Mutex::lock *)
Definition mutex_finish (oid : nat) (kont : lock_res -> code) : code :=
  atomic_b (fun e st => mutex_set_holder e st oid) (fun p => kont (if p then LkPoisoned else LkOk)).

Definition mutex_lock_check (oid : nat) : exec -> store -> option (exec * store * bool) :=
  fun e st =>
    match me e, get_obj st oid with
    | Some m, Some (OMutex h s p) =>
      if sm_closed s then Some (e, st, true)
      else match h with
           | Some h' => if Nat.eqb h' m then None else Some (e, st, false)
           | None => Some (e, st, false)
           end
    | _, _ => None
    end.

(* every path of Mutex::lock to its continuation ends with the block mutex_set_holder *)
Lemma mutex_lock_code_shape : forall oid kont,
  mutex_lock_code oid kont =
  atomic_b (mutex_lock_check oid)
    (fun closed => if closed then Switch (mutex_finish oid kont)
                   else acquire_blocking oid 1 (fun ok => if ok then mutex_finish oid kont else Panic)).
Proof. reflexivity. Qed.

Lemma mutex_set_holder_spec : forall e st oid e' st' p,
  mutex_set_holder e st oid = Some (e', st', p) ->
  exists m s, me e = Some m /\ e' = e /\ get_obj st oid = Some (OMutex None s p) /\
              st' = set_obj st oid (OMutex (Some m) s p) /\ get_obj st' oid = Some (OMutex (Some m) s p).
Proof.
  intros e st oid e' st' p H; unfold mutex_set_holder in H.
  destruct (me e) as [m|]; [|discriminate].
  destruct (get_obj st oid) as [[| |[h|] s p0| | | | | | | | | | ]|] eqn:Hg; try discriminate.
  inversion H; subst. exists m, s. repeat split. eapply get_set_obj_eq; exact Hg.
Qed.

Lemma mutex_release_block_spec : forall m e st e' st',
  mutex_release_block m e st = Some (e', st') ->
  exists h s p s', get_obj st m = Some (OMutex h s p) /\
    st' = set_obj st m (OMutex None s' (p || panicking e)) /\
    get_obj st' m = Some (OMutex None s' (p || panicking e)) /\
    (forall j, j <> m -> get_obj st' j = get_obj st j).
Proof.
  intros m e st e' st' H; unfold mutex_release_block, on_sem in H.
  destruct (get_obj st m) as [o|] eqn:Hg; [|discriminate].
  destruct (sem_of o) as [s|] eqn:Hs; [|discriminate].
  destruct (sem_release e s 1) as [[e1 s1]|]; [|discriminate].
  destruct o as [| |h s0 p| | | | | | | | | |]; try discriminate.
  inversion H; subst. exists h, s0, p, s1. split; [reflexivity|]. split; [reflexivity|].
  split; [eapply get_set_obj_eq; exact Hg|]. intros j Hj; apply get_set_obj_neq; congruence.
Qed.

(* Condvar::wait, block by block: [switch] release the guard; enqueue + block  [switch]  consume the
   notification; then Mutex::lock, whose last block takes the holder slot before the continuation runs. *)
Theorem cv_wait_code_shape : forall cv m kont,
  cv_wait_code cv m kont =
  Switch (atomic_u (mutex_release_block m)
    (atomic_u (fun e st => cv_enqueue e st cv)
      (Switch (atomic_u (fun e st => cv_wake e st cv) (mutex_lock_code m kont))))).
Proof. reflexivity. Qed.

Theorem cv_notify_code_shape : forall cv all kont,
  cv_notify_code cv all kont =
  Switch (atomic_u (fun e st => if all then cv_notify_all e st cv else cv_notify_one e st cv) kont).
Proof. reflexivity. Qed.

Section RunSeg.
Context {SS : Type} (sch : scheduler SS) (ms : max_steps).

Lemma run_seg_atomic_u : forall f k w st e' s',
  f (w_e w) (w_s w) = Some (e', s') ->
  run_seg sch ms (atomic_u f k) w st = run_seg sch ms k (mkWorld e' s' (w_conts w) (w_trace w)) st.
Proof. intros f k w st e' s' H; unfold atomic_u; cbn [run_seg]. rewrite H; reflexivity. Qed.

Lemma run_seg_atomic_u_none : forall f k w st,
  f (w_e w) (w_s w) = None -> run_seg sch ms (atomic_u f k) w st = (w, st, SegPanic).
Proof. intros f k w st H; unfold atomic_u; cbn [run_seg]. rewrite H; reflexivity. Qed.

(* the guard is released and the task enqueued and blocked in ONE segment: no other task runs between
   the release block and the enqueue block; the next scheduling point is the one in which the waiter
   (now blocked, its mutex free) hands over the processor *)
Theorem cv_wait_release_enqueue_same_segment : forall cv m k w st e1 s1 e2 s2,
  mutex_release_block m (w_e w) (w_s w) = Some (e1, s1) ->
  cv_enqueue e1 s1 cv = Some (e2, s2) ->
  run_seg sch ms (atomic_u (mutex_release_block m) (atomic_u (fun e st => cv_enqueue e st cv) (Switch k))) w st
  = run_seg sch ms (Switch k) (mkWorld e2 s2 (w_conts w) (w_trace w)) st.
Proof.
  intros cv m k w st e1 s1 e2 s2 H1 H2.
  rewrite (run_seg_atomic_u _ _ w st e1 s1 H1).
  rewrite (run_seg_atomic_u (fun e st => cv_enqueue e st cv) _ (mkWorld e1 s1 (w_conts w) (w_trace w)) st e2 s2 H2). reflexivity.
Qed.
End RunSeg.

(* at that scheduling point the mutex is free and the waiter is blocked in the waiter list *)
Theorem cv_wait_mutex_released_while_waiting : forall cv m e st e1 s1 e2 s2 t,
  cv <> m -> me e = Some t ->
  mutex_release_block m e st = Some (e1, s1) -> me e1 = Some t ->
  cv_enqueue e1 s1 cv = Some (e2, s2) ->
  (exists s p, get_obj s2 m = Some (OMutex None s p)) /\
  st_of e2 t = Some (Blocked false) /\
  (exists ws ne, get_obj s2 cv = Some (OCondvar (ws ++ [(t, CvWaiting)]) ne)).
Proof.
  intros cv m e st e1 s1 e2 s2 t Hne Hme Hrel Hme1 Henq.
  destruct (mutex_release_block_spec _ _ _ _ _ Hrel) as (h & s & p & s' & Hg & -> & Hg' & Hoth).
  destruct (cv_enqueue_spec _ _ _ _ _ Henq) as (m' & ws & ne & Hme' & Hobj & Hb & ->).
  assert (m' = t) by congruence; subst m'.
  destruct (e_block_st _ _ _ _ Hb) as (_ & Hs & _).
  split; [|split; [exact Hs|]].
  - exists s', (p || panicking e)%bool. rewrite get_set_obj_neq; [exact Hg'|exact Hne].
  - exists ws, ne. eapply get_set_obj_eq; exact Hobj.
Qed.

(* ... and when the continuation of wait runs, the caller holds the mutex again *)
Theorem cv_wait_mutex_reheld : forall oid e st e' st' p,
  mutex_set_holder e st oid = Some (e', st', p) ->
  exists m s, me e = Some m /\ get_obj st oid = Some (OMutex None s p) /\ get_obj st' oid = Some (OMutex (Some m) s p).
Proof.
  intros oid e st e' st' p H. destruct (mutex_set_holder_spec _ _ _ _ _ _ H) as (m & s & A & _ & B & _ & C).
  exists m, s; auto.
Qed.
