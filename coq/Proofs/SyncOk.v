(* The semaphore / Mutex / RwLock operations (Lang/SyncOps.v) are trees of blocks that respect the
   strong frame, hence any frame relation F implied by it.  No Admitted / Axiom. *)
From Coq Require Import List NArith Bool Arith Lia.
From SV Require Import Params Clock.VClock Prim.Objects Engine.Exec Engine.Inv Prim.Semaphore Lang.Code Lang.SyncOps Proofs.EngineBase Proofs.ThreadOk Proofs.SemFrame.
Import ListNotations.

Lemma on_sem_inv : forall A oid st (f : sem -> option A) o a,
  on_sem oid st f = Some (o, a) -> exists s, f s = Some a.
Proof.
  intros A oid st f o a H. unfold on_sem in H.
  destruct (get_obj st oid) as [o0|]; [|discriminate].
  destruct (sem_of o0) as [s|]; [|discriminate].
  destruct (f s) as [a0|] eqn:E; [|discriminate].
  inversion H; subst. exists s; exact E.
Qed.

(* continuations that dispatch on the answer list: destruct the matched terms *)
Ltac split_ans :=
  repeat match goal with
         | |- code_okP _ (match ?x with _ => _ end) => destruct x
         end.

Section SyncOk.
Variable F : exec -> exec -> Prop.
Hypothesis HF : forall e e', sframe e e' -> F e e'.

Lemma poll_loop_okP : forall fuel oid wid np kont,
  (forall b, code_okP F (kont b)) -> code_okP F (poll_loop fuel oid wid np kont).
Proof.
  induction fuel as [|fuel IH]; intros oid wid np kont Hk; cbn [poll_loop].
  - apply okP_log. apply okP_panic.
  - apply (atomic_b_okP F HF).
    + intros e s e' s' b Hr H.
      destruct (on_sem oid s (fun s0 => poll_needs_switch s0 wid np)) as [[o b0]|]; [|discriminate].
      inversion H; subst. apply sframe_refl; exact Hr.
    + intros sw. apply (switch_if_okP F). apply (atomic_okP_intro F HF).
      * intros e s e' s' a Hr H.
        destruct (me e) as [m|]; [|discriminate].
        destruct (on_sem oid s (fun s0 => sem_poll e s0 wid m)) as [[o [[e1 s1] r]]|] eqn:E; [|discriminate].
        inversion H; subst. apply on_sem_inv in E. destruct E as [s0 E].
        eapply sem_poll_sframe; [exact Hr|exact E].
      * assert (Hsl : code_okP F (atomic_u (fun e st => match me e with
                                                  | Some m => match e_sleep_unless_woken e m with Some e' => Some (e', st) | None => None end
                                                  | None => None end)
                              (Switch (poll_loop fuel oid wid false kont)))).
        { apply (atomic_u_okP F HF); [|apply okP_switch; apply IH; exact Hk].
          intros e s e' s' Hr H.
          destruct (me e) as [m|]; [|discriminate].
          destruct (e_sleep_unless_woken e m) as [e1|] eqn:E1; [|discriminate].
          inversion H; subst. eapply e_sleep_unless_woken_sframe; [exact Hr|exact E1]. }
        intros a. split_ans; first [exact Hsl | apply Hk].
Qed.

Lemma acquire_blocking_okP : forall oid k kont,
  (forall b, code_okP F (kont b)) -> code_okP F (acquire_blocking oid k kont).
Proof.
  intros oid k kont Hk. unfold acquire_blocking. apply (atomic_okP_intro F HF).
  - intros e s e' s' a Hr H.
    destruct (on_sem oid s (fun s0 => sem_new_waiter e s0 k)) as [[o [s1 wid]]|]; [|discriminate].
    inversion H; subst. apply sframe_refl; exact Hr.
  - intros a. destruct a as [|w [|x l]]; try apply okP_panic.
    apply poll_loop_okP; exact Hk.
Qed.

Lemma acq_new_code_okP : forall q slot oid k kont, code_okP F kont -> code_okP F (acq_new_code q slot oid k kont).
Proof.
  intros q slot oid k kont Hk. unfold acq_new_code. apply (atomic_u_okP F HF); [|exact Hk].
  intros e s e' s' Hr H.
  destruct (slot_get s q slot) as [[[a b] c]|]; [|discriminate].
  destruct a; [|discriminate].
  destruct (on_sem oid s (fun s0 => sem_new_waiter e s0 k)) as [[o [s1 wid]]|]; [|discriminate].
  inversion H; subst. apply sframe_refl; exact Hr.
Qed.

Lemma sem_try_code_okP : forall oid k kont,
  (forall r, code_okP F (kont r)) -> code_okP F (sem_try_code oid k kont).
Proof.
  intros oid k kont Hk. unfold sem_try_code. apply okP_switch. apply (atomic_okP_intro F HF).
  - intros e s e' s' a Hr H.
    destruct (on_sem oid s (fun s0 => sem_try_acquire e s0 k)) as [[o [[e1 s1] r]]|] eqn:E; [|discriminate].
    inversion H; subst. apply on_sem_inv in E. destruct E as [s0 E].
    eapply sem_try_acquire_sframe; [exact Hr|exact E].
  - intros a. split_ans; apply Hk.
Qed.

Lemma sem_release_code_okP : forall oid k kont,
  code_okP F kont -> code_okP F (sem_release_code oid k kont).
Proof.
  intros oid k kont Hk. unfold sem_release_code. apply okP_switch. apply (atomic_u_okP F HF); [|exact Hk].
  intros e s e' s' Hr H.
  destruct (on_sem oid s (fun s0 => sem_release e s0 k)) as [[o [e1 s1]]|] eqn:E; [|discriminate].
  inversion H; subst. apply on_sem_inv in E. destruct E as [s0 E].
  eapply sem_release_sframe; [exact Hr|exact E].
Qed.

Lemma acq_poll_code_okP : forall q slot oid kont, (forall r, code_okP F (kont r)) -> code_okP F (acq_poll_code q slot oid kont).
Proof.
  intros q slot oid kont Hk. unfold acq_poll_code. apply (atomic_okP_intro F HF).
  - intros e s e' s' a Hr H.
    destruct (slot_get s q slot) as [[[a0 b] c]|]; [|discriminate].
    destruct a0 as [|p]; [discriminate|]. destruct c; [|discriminate].
    destruct (on_sem oid s _) as [[o b0]|]; [|discriminate].
    inversion H; subst. apply sframe_refl; exact Hr.
  - intros a. destruct a as [|sw [|w [|x l]]]; try apply okP_panic.
    apply (switch_if_okP F). apply (atomic_okP_intro F HF).
    + intros e s e' s' a Hr H.
      destruct (me e) as [m|]; [|discriminate].
      destruct (on_sem oid s (fun s0 => sem_poll e s0 (N.to_nat w) m)) as [[o [[e1 s1] r]]|] eqn:E; [|discriminate].
      inversion H; subst. apply on_sem_inv in E. destruct E as [s0 E].
      eapply sem_poll_sframe; [exact Hr|exact E].
    + intros r. split_ans; first [apply Hk | apply okP_panic].
Qed.

Lemma acq_drop_code_okP : forall q slot oid kont, code_okP F kont -> code_okP F (acq_drop_code q slot oid kont).
Proof.
  intros q slot oid kont Hk. unfold acq_drop_code. apply (atomic_okP_intro F HF).
  - intros e s e' s' a Hr H.
    destruct (slot_get s q slot) as [[[a0 b] c]|]; [|discriminate].
    destruct a0 as [|p]; [discriminate|].
    destruct (on_sem oid s (fun s0 => sem_drop_acquire e s0 (Nat.pred (Pos.to_nat p)) (N.eqb c 1))) as [[o [[e1 s1] r]]|] eqn:E; [|discriminate].
    inversion H; subst. apply on_sem_inv in E. destruct E as [s0 E].
    eapply sem_drop_acquire_sframe; [exact Hr|exact E].
  - intros a. split_ans; first [exact Hk | apply okP_panic | (apply sem_release_code_okP; exact Hk)].
Qed.

Lemma sem_close_code_okP : forall oid kont,
  code_okP F kont -> code_okP F (sem_close_code oid kont).
Proof.
  intros oid kont Hk. unfold sem_close_code. apply okP_switch. apply (atomic_u_okP F HF); [|exact Hk].
  intros e s e' s' Hr H.
  destruct (on_sem oid s (fun s0 => sem_close e s0)) as [[o [e1 s1]]|] eqn:E; [|discriminate].
  inversion H; subst. apply on_sem_inv in E. destruct E as [s0 E].
  eapply sem_close_sframe; [exact Hr|exact E].
Qed.

Lemma mutex_set_holder_sframe : forall e st oid e' st' b,
  rok e -> mutex_set_holder e st oid = Some (e', st', b) -> sframe e e'.
Proof.
  intros e st oid e' st' b Hr H. unfold mutex_set_holder in H.
  destruct (me e) as [m|]; [|discriminate].
  destruct (get_obj st oid) as [o|]; [|discriminate].
  destruct o; try discriminate.
  match type of H with match ?h with _ => _ end = _ => destruct h end; [discriminate|].
  inversion H; subst. apply sframe_refl; exact Hr.
Qed.

Lemma mutex_lock_code_okP : forall oid kont,
  (forall r, code_okP F (kont r)) -> code_okP F (mutex_lock_code oid kont).
Proof.
  intros oid kont Hk. unfold mutex_lock_code. cbv zeta.
  assert (Hfin : code_okP F (atomic_b (fun e st => mutex_set_holder e st oid)
                               (fun p => kont (if p then LkPoisoned else LkOk)))).
  { apply (atomic_b_okP F HF).
    - intros e s e' s' b Hr H. eapply mutex_set_holder_sframe; [exact Hr|exact H].
    - intros p. apply Hk. }
  apply (atomic_b_okP F HF).
  - intros e s e' s' b Hr H.
    destruct (me e) as [m|]; [|discriminate].
    destruct (get_obj s oid) as [o|]; [|discriminate].
    destruct o as [| |h sm p| | | | | | | | | | ]; try discriminate.
    destruct (sm_closed sm).
    + inversion H; subst. apply sframe_refl; exact Hr.
    + destruct h as [h'|].
      * destruct (Nat.eqb h' m); [discriminate|].
        inversion H; subst. apply sframe_refl; exact Hr.
      * inversion H; subst. apply sframe_refl; exact Hr.
  - intros closed. destruct closed.
    + apply okP_switch. exact Hfin.
    + apply acquire_blocking_okP. intros ok. destruct ok; [exact Hfin|apply okP_panic].
Qed.

Lemma mutex_try_lock_code_okP : forall oid kont,
  (forall r, code_okP F (kont r)) -> code_okP F (mutex_try_lock_code oid kont).
Proof.
  intros oid kont Hk. unfold mutex_try_lock_code. apply sem_try_code_okP.
  intros r. destruct r; try apply Hk.
  apply (atomic_b_okP F HF).
  - intros e s e' s' b Hr H.
    destruct (me e) as [m|]; [|discriminate].
    destruct (get_obj s oid) as [o|]; [|discriminate].
    destruct o; try discriminate.
    inversion H; subst. apply sframe_refl; exact Hr.
  - intros p. apply Hk.
Qed.

Lemma mutex_unlock_code_okP : forall oid kont,
  code_okP F kont -> code_okP F (mutex_unlock_code oid kont).
Proof.
  intros oid kont Hk. unfold mutex_unlock_code. apply okP_switch. apply (atomic_u_okP F HF); [|exact Hk].
  intros e s e' s' Hr H.
  destruct (on_sem oid s (fun s0 => sem_release e s0 1)) as [[o [e1 s1]]|] eqn:E; [|discriminate].
  apply on_sem_inv in E. destruct E as [s0 E].
  destruct o; try discriminate.
  inversion H; subst. eapply sem_release_sframe; [exact Hr|exact E].
Qed.

Lemma rw_take_sframe : forall e st oid w e' st' b,
  rok e -> rw_take e st oid w = Some (e', st', b) -> sframe e e'.
Proof.
  intros e st oid w e' st' b Hr H. unfold rw_take in H.
  destruct (me e) as [m|]; [|discriminate].
  destruct (get_obj st oid) as [o|]; [|discriminate].
  destruct o as [| | |wr rs sm p| | | | | | | | | ]; try discriminate.
  destruct w.
  - destruct wr; [discriminate|]. destruct rs; [|discriminate].
    inversion H; subst. apply sframe_refl; exact Hr.
  - destruct wr; [discriminate|].
    destruct (existsb (Nat.eqb m) rs); [discriminate|].
    inversion H; subst. apply sframe_refl; exact Hr.
Qed.

Lemma rw_lock_code_okP : forall oid w kont,
  (forall r, code_okP F (kont r)) -> code_okP F (rw_lock_code oid w kont).
Proof.
  intros oid w kont Hk. unfold rw_lock_code. cbv zeta.
  assert (Hfin : code_okP F (atomic_b (fun e st => rw_take e st oid w)
                               (fun p => kont (if p then LkPoisoned else LkOk)))).
  { apply (atomic_b_okP F HF).
    - intros e s e' s' b Hr H. eapply rw_take_sframe; [exact Hr|exact H].
    - intros p. apply Hk. }
  apply (atomic_b_okP F HF).
  - intros e s e' s' b Hr H.
    destruct (me e) as [m|]; [|discriminate].
    destruct (get_obj s oid) as [o|]; [|discriminate].
    destruct o as [| | |wr rs sm p| | | | | | | | | ]; try discriminate.
    destruct (sm_closed sm).
    + inversion H; subst. apply sframe_refl; exact Hr.
    + match type of H with (if ?c then _ else _) = _ => destruct c end; [discriminate|].
      inversion H; subst. apply sframe_refl; exact Hr.
  - intros closed. destruct closed.
    + apply okP_switch. exact Hfin.
    + apply acquire_blocking_okP. intros ok. destruct ok; [exact Hfin|apply okP_panic].
Qed.

Lemma rw_try_code_okP : forall oid w kont,
  (forall r, code_okP F (kont r)) -> code_okP F (rw_try_code oid w kont).
Proof.
  intros oid w kont Hk. unfold rw_try_code. apply sem_try_code_okP.
  intros r. destruct r; try apply Hk.
  apply (atomic_okP_intro F HF).
  - intros e s e' s' a Hr H.
    destruct (me e) as [m|]; [|discriminate].
    destruct (get_obj s oid) as [o|]; [|discriminate].
    destruct o as [| | |wr rs sm p| | | | | | | | | ]; try discriminate.
    assert (He : e' = e).
    { destruct w; destruct wr; destruct rs as [|r0 rs'];
        try (destruct (existsb (Nat.eqb m) (r0 :: rs')));
        try (destruct (existsb (Nat.eqb m) []));
        inversion H; reflexivity. }
    subst e'. apply sframe_refl; exact Hr.
  - assert (Hrel : code_okP F (sem_release_code oid (rw_permits w) (kont LkWouldBlock))).
    { apply sem_release_code_okP. apply Hk. }
    intros a. split_ans; first [exact Hrel | apply Hk].
Qed.

Lemma rw_unlock_code_okP : forall oid w kont,
  code_okP F kont -> code_okP F (rw_unlock_code oid w kont).
Proof.
  intros oid w kont Hk. unfold rw_unlock_code. apply okP_switch. apply (atomic_u_okP F HF); [|exact Hk].
  intros e s e' s' Hr H.
  destruct (me e) as [m|]; [|discriminate].
  destruct (on_sem oid s (fun s0 => sem_release e s0 (rw_permits w))) as [[o [e1 s1]]|] eqn:E; [|discriminate].
  apply on_sem_inv in E. destruct E as [s0 E].
  pose proof (sem_release_sframe _ _ _ _ _ Hr E) as F1.
  destruct o as [| | |wr rs sm p| | | | | | | | | ]; try discriminate.
  destruct w.
  - destruct wr as [w'|]; [|discriminate].
    destruct (Nat.eqb w' m); [|discriminate].
    inversion H; subst. exact F1.
  - destruct (existsb (Nat.eqb m) rs); [|discriminate].
    inversion H; subst. exact F1.
Qed.

End SyncOk.

Print Assumptions rw_try_code_okP.
