(* ------------------------------------------------------------------------- *)
(* SV.Proofs.DfsProofs -- lemmas and proofs about the model SV.Sched.Dfs     *)
(* ------------------------------------------------------------------------- *)
From Coq Require Import List Arith NArith Bool Lia.
From SV Require Import Sched.Dfs.
Import ListNotations.

(* ========================================================================= *)
(* 0. Generic helpers                                                        *)
(* ========================================================================= *)

Lemma tree_ind' (P : tree -> Prop) :
  (forall l, Forall (fun p => P (snd p)) l -> P (Node l)) -> forall t, P t.
Proof.
  intros H. fix IH 1. intros [l]. apply H.
  induction l as [|[c t] r IHl]; constructor; [apply IH | exact IHl].
Qed.

Lemma skipn_app_len {A} (a b : list A) : skipn (length a) (a ++ b) = b.
Proof. induction a as [|x a IHa]; cbn; auto. Qed.

Lemma nth_error_app_len {A} (a : list A) x b : nth_error (a ++ x :: b) (length a) = Some x.
Proof. induction a as [|y a IHa]; cbn; auto. Qed.

Lemma firstn_app_len {A} (a b : list A) : firstn (length a) (a ++ b) = a.
Proof. induction a as [|x a IHa]; cbn; [destruct b; reflexivity|]. f_equal. exact IHa. Qed.

Lemma NoDup_app_intro {A} (a b : list A) :
  NoDup a -> NoDup b -> (forall x, In x a -> ~ In x b) -> NoDup (a ++ b).
Proof.
  intros Ha Hb Hab. induction a as [|x a IHa]; cbn [app]; [exact Hb|].
  inversion Ha as [|? ? Hx Ha']; subst. constructor.
  - rewrite in_app_iff. intros [Hin|Hin]; [tauto|]. apply (Hab x); [left; reflexivity | exact Hin].
  - apply IHa; [exact Ha'|]. intros y Hy. apply Hab. right. exact Hy.
Qed.

Lemma NoDup_map_cons {A} (c : A) (l : list (list A)) : NoDup l -> NoDup (map (cons c) l).
Proof.
  intros H. induction H as [|x l Hx Hl IHl]; cbn [map]; constructor; [|exact IHl].
  rewrite in_map_iff. intros (y & Hy & Hin). inversion Hy; subst. tauto.
Qed.

(* ========================================================================= *)
(* 1. has_more_choices on the bare levels list                               *)
(* ========================================================================= *)

Definition has_more (ls : list (N * bool)) (i : nat) : bool :=
  existsb (fun p => negb (snd p)) (skipn i ls).

Lemma has_more_choices_eq d i : has_more_choices d i = has_more (levels d) i.
Proof. reflexivity. Qed.

Lemma has_more_app pre lv : has_more (pre ++ lv) (length pre) = has_more lv 0.
Proof. unfold has_more. rewrite skipn_app_len. reflexivity. Qed.

Lemma has_more_app_S pre x lv : has_more (pre ++ x :: lv) (S (length pre)) = has_more lv 0.
Proof.
  replace (pre ++ x :: lv) with ((pre ++ [x]) ++ lv) by (rewrite <- app_assoc; reflexivity).
  replace (S (length pre)) with (length (pre ++ [x])) by (rewrite app_length; cbn; lia).
  apply has_more_app.
Qed.

(* ========================================================================= *)
(* 2. Unfolding the driver                                                   *)
(* ========================================================================= *)

Fixpoint find_kid (c : N) (l : list (N * tree)) : option tree :=
  match l with
  | [] => None
  | (x, t) :: r => if N.eqb c x then Some t else find_kid c r
  end.

Lemma pick_eq b c d' acc : forall l',
  (fix pick (l' : list (N * tree)) : dres :=
     match l' with
     | [] => DBadChoice
     | (x, tx) :: r => if N.eqb c x then drive b tx d' (c :: acc) else pick r
     end) l'
  = match find_kid c l' with
    | None => DBadChoice
    | Some tx => drive b tx d' (c :: acc)
    end.
Proof.
  induction l' as [|[x tx] r' IHl]; [reflexivity|].
  cbn [find_kid]. destruct (N.eqb c x); [reflexivity | exact IHl].
Qed.

Lemma drive_node b l d acc :
  drive b (Node l) d acc =
  if bound_hit b acc then Done (rev acc) d else
  match l with
  | [] => Done (rev acc) d
  | _ :: _ =>
      match next_task d (map fst l) with
      | Crash => DCrash
      | Chose c d' =>
          match find_kid c l with
          | None => DBadChoice
          | Some tx => drive b tx d' (c :: acc)
          end
      end
  end.
Proof.
  destruct l as [|p r]; [reflexivity|].
  transitivity
    (if bound_hit b acc then Done (rev acc) d else
     match next_task d (map fst (p :: r)) with
     | Crash => DCrash
     | Chose c d' =>
         (fix pick (l' : list (N * tree)) : dres :=
            match l' with
            | [] => DBadChoice
            | (x, tx) :: r => if N.eqb c x then drive b tx d' (c :: acc) else pick r
            end) (p :: r)
     end); [reflexivity|].
  destruct (bound_hit b acc); [reflexivity|].
  destruct (next_task d (map fst (p :: r))) as [c d'|]; [|reflexivity].
  exact (pick_eq b c d' acc (p :: r)).
Qed.

Lemma drive_node_ne b l d acc : bound_hit b acc = false -> l <> [] ->
  drive b (Node l) d acc =
  match next_task d (map fst l) with
  | Crash => DCrash
  | Chose c d' =>
      match find_kid c l with
      | None => DBadChoice
      | Some tx => drive b tx d' (c :: acc)
      end
  end.
Proof.
  intros Hb Hne. rewrite drive_node, Hb. destruct l; [congruence | reflexivity].
Qed.

Lemma find_kid_mid pre c tc post :
  ~ In c (map fst pre) -> find_kid c (pre ++ (c, tc) :: post) = Some tc.
Proof.
  induction pre as [|[x t] r IH]; cbn [app find_kid map fst In]; intros H.
  - rewrite N.eqb_refl. reflexivity.
  - destruct (N.eqb c x) eqn:E; [apply N.eqb_eq in E; subst; tauto|]. apply IH. tauto.
Qed.

Lemma find_kid_In c l tx : find_kid c l = Some tx -> In (c, tx) l.
Proof.
  induction l as [|[x t] r IH]; cbn [find_kid]; [discriminate|].
  destruct (N.eqb c x) eqn:E; intros H.
  - apply N.eqb_eq in E. inversion H; subst. left. reflexivity.
  - right. apply IH. exact H.
Qed.

Lemma find_kid_map (f : tree -> tree) c l :
  find_kid c (map (fun p => (fst p, f (snd p))) l) = option_map f (find_kid c l).
Proof.
  induction l as [|[x t] r IH]; [reflexivity|].
  cbn [map find_kid fst snd]. destruct (N.eqb c x); [reflexivity | exact IH].
Qed.

Lemma position_mid pre c post : ~ In c pre -> position c (pre ++ c :: post) = Some (length pre).
Proof.
  induction pre as [|x r IH]; cbn [app position length In]; intros H.
  - rewrite N.eqb_refl. reflexivity.
  - destruct (N.eqb x c) eqn:E; [apply N.eqb_eq in E; subst; tauto|].
    rewrite IH by tauto. reflexivity.
Qed.

(* ========================================================================= *)
(* 3. Well-formedness                                                        *)
(* ========================================================================= *)

(* what the proofs actually need: sibling labels pairwise distinct *)
Inductive wf : tree -> Prop :=
| wf_nd l : NoDup (map fst l) -> Forall (fun p => wf (snd p)) l -> wf (Node l).

Lemma ascending_cons2 x y r : ascending (x :: y :: r) = N.ltb x y && ascending (y :: r).
Proof. reflexivity. Qed.

Lemma ascending_tail x r : ascending (x :: r) = true -> ascending r = true.
Proof.
  destruct r as [|y r]; [reflexivity|]. rewrite ascending_cons2.
  intros H. apply andb_true_iff in H. tauto.
Qed.

Lemma ascending_lt_all : forall r x, ascending (x :: r) = true -> Forall (N.lt x) r.
Proof.
  induction r as [|y r IH]; intros x H; [constructor|].
  rewrite ascending_cons2 in H. apply andb_true_iff in H. destruct H as [Hxy Hr].
  apply N.ltb_lt in Hxy. constructor; [exact Hxy|].
  specialize (IH y Hr). rewrite Forall_forall in IH |- *.
  intros z Hz. apply N.lt_trans with y; [exact Hxy | apply IH; exact Hz].
Qed.

Lemma ascending_NoDup : forall l, ascending l = true -> NoDup l.
Proof.
  induction l as [|x r IH]; intros H; constructor.
  - intros Hin. pose proof (ascending_lt_all r x H) as Hall.
    rewrite Forall_forall in Hall. apply (N.lt_irrefl x). apply Hall. exact Hin.
  - apply IH. apply ascending_tail with x. exact H.
Qed.

Lemma wf_tree_wf : forall t, wf_tree t -> wf t.
Proof.
  induction t as [l IH] using tree_ind'. intros Hwf.
  inversion Hwf as [l' Hasc Hall]; subst. constructor.
  - apply ascending_NoDup. exact Hasc.
  - rewrite Forall_forall in *. intros p Hp. apply IH; [exact Hp | apply Hall; exact Hp].
Qed.

Lemma wf_treeb_iff : forall t, wf_treeb t = true <-> wf_tree t.
Proof.
  induction t as [l IH] using tree_ind'. cbn [wf_treeb]. rewrite andb_true_iff, forallb_forall.
  rewrite Forall_forall in IH. split.
  - intros [Hasc Hall]. constructor; [exact Hasc|]. rewrite Forall_forall.
    intros [c t'] Hp. apply (IH (c, t') Hp). apply (Hall (c, t') Hp).
  - intros Hwf. inversion Hwf as [l' Hasc Hall]; subst. split; [exact Hasc|].
    rewrite Forall_forall in Hall. intros [c t'] Hp.
    apply (IH (c, t') Hp). apply (Hall (c, t') Hp).
Qed.

Lemma wf_treeb_sound t : wf_treeb t = true -> wf_tree t.
Proof. apply wf_treeb_iff. Qed.

Lemma wf_tree_truncate : forall n t, wf_tree t -> wf_tree (truncate n t).
Proof.
  induction n as [|k IH]; intros [l] Hwf; cbn [truncate].
  - constructor; [reflexivity | constructor].
  - inversion Hwf as [l' Hasc Hall]; subst. constructor.
    + rewrite map_map. cbn [fst]. exact Hasc.
    + rewrite Forall_forall in *. intros p Hp. apply in_map_iff in Hp.
      destruct Hp as (q & Hq & Hin). subst p. cbn [snd]. apply IH. apply Hall. exact Hin.
Qed.

Lemma nodup_mid (pre : list (N * tree)) c tc post :
  NoDup (map fst (pre ++ (c, tc) :: post)) -> ~ In c (map fst pre) /\ ~ In c (map fst post).
Proof.
  rewrite map_app. cbn [map fst]. intros H. apply NoDup_remove_2 in H.
  rewrite in_app_iff in H. tauto.
Qed.

Lemma nodup_mid_next (pre : list (N * tree)) c tc nx tnx post :
  NoDup (map fst (pre ++ (c, tc) :: (nx, tnx) :: post)) ->
  ~ In nx (map fst (pre ++ [(c, tc)])).
Proof.
  rewrite !map_app. cbn [map fst]. intros Hnd. rewrite in_app_iff. cbn [In].
  intros [Hin|[He|[]]].
  - apply NoDup_remove_1 in Hnd.
    apply (NoDup_remove_2 (map fst pre) (map fst post) nx); [exact Hnd|].
    rewrite in_app_iff. left. exact Hin.
  - subst nx. apply NoDup_remove_2 in Hnd. apply Hnd. rewrite in_app_iff. right. left. reflexivity.
Qed.

(* ========================================================================= *)
(* 4. Specification-side notions                                             *)
(* ========================================================================= *)

Definition all_leaves (l : list (N * tree)) : list (list N) :=
  flat_map (fun p => match p with (c, t') => map (cons c) (leaves t') end) l.

Lemma leaves_node l : l <> [] -> leaves (Node l) = all_leaves l.
Proof. intros H. destruct l; [congruence|]. reflexivity. Qed.

Lemma all_leaves_cons c t r : all_leaves ((c, t) :: r) = map (cons c) (leaves t) ++ all_leaves r.
Proof. reflexivity. Qed.

(* leftmost leaf and its annotated levels *)
Fixpoint leftmost (t : tree) : list N :=
  match t with
  | Node l => match l with [] => [] | (c, t') :: _ => c :: leftmost t' end
  end.

Fixpoint annot_first (t : tree) : list (N * bool) :=
  match t with
  | Node l =>
      match l with
      | [] => []
      | (c, t') :: r => (c, match r with [] => true | _ => false end) :: annot_first t'
      end
  end.

(* lv is the annotated form of a root-to-leaf path of t: the levels vector
   the scheduler holds after having executed that path *)
Inductive valid : tree -> list (N * bool) -> Prop :=
| v_leaf : valid (Node []) []
| v_node pre c tc post lv' :
    valid tc lv' ->
    valid (Node (pre ++ (c, tc) :: post))
          ((c, match post with [] => true | _ => false end) :: lv').

(* leaves of t strictly to the right of the leaf described by lv *)
Fixpoint rest (t : tree) (lv : list (N * bool)) {struct t} : list (list N) :=
  match t, lv with
  | Node l, (c, _) :: lv' =>
      (fix go (l : list (N * tree)) :=
         match l with
         | [] => []
         | (x, tx) :: r =>
             if N.eqb c x then map (cons c) (rest tx lv') ++ all_leaves r else go r
         end) l
  | _, _ => []
  end.

Lemma rest_mid pre0 c tc post b lv' : ~ In c (map fst pre0) ->
  rest (Node (pre0 ++ (c, tc) :: post)) ((c, b) :: lv')
  = map (cons c) (rest tc lv') ++ all_leaves post.
Proof.
  intros H. cbn [rest]. induction pre0 as [|[x tx] r IH]; cbn [app].
  - rewrite N.eqb_refl. reflexivity.
  - cbn [map fst In] in H. destruct (N.eqb c x) eqn:E; [apply N.eqb_eq in E; subst; tauto|].
    apply IH. tauto.
Qed.

Lemma valid_first : forall t, valid t (annot_first t).
Proof.
  induction t as [l IH] using tree_ind'. destruct l as [|[c tc] r]; [constructor|].
  inversion IH as [|? ? IHc _]; subst. cbn [snd] in IHc.
  cbn [annot_first]. apply (v_node [] c tc r). exact IHc.
Qed.

Lemma path_first : forall t, map fst (annot_first t) = leftmost t.
Proof.
  induction t as [l IH] using tree_ind'. destruct l as [|[c tc] r]; [reflexivity|].
  inversion IH as [|? ? IHc _]; subst. cbn [snd] in IHc.
  cbn [annot_first leftmost map fst]. f_equal. exact IHc.
Qed.

Lemma rest_first : forall t, leaves t = leftmost t :: rest t (annot_first t).
Proof.
  induction t as [l IH] using tree_ind'. destruct l as [|[c tc] r]; [reflexivity|].
  inversion IH as [|? ? IHc _]; subst. cbn [snd] in IHc.
  rewrite leaves_node by congruence. cbn [annot_first leftmost].
  rewrite (rest_mid [] c tc r) by (cbn; tauto).
  rewrite all_leaves_cons. rewrite IHc. reflexivity.
Qed.

Lemma all_last_rest : forall t lv, valid t lv -> has_more lv 0 = false -> wf t -> rest t lv = [].
Proof.
  intros t lv Hv. induction Hv as [|pre0 c tc post lv' Hv IH]; intros Hm Hwf; [reflexivity|].
  inversion Hwf as [l Hnd Hall]; subst. destruct (nodup_mid _ _ _ _ Hnd) as [Hpre Hpost].
  rewrite rest_mid by assumption.
  unfold has_more in Hm. cbn [skipn existsb snd] in Hm. apply orb_false_iff in Hm.
  destruct Hm as [Hb Hm].
  destruct post as [|p post']; [|discriminate].
  rewrite IH; [reflexivity | exact Hm |].
  rewrite Forall_forall in Hall. apply (Hall (c, tc)). rewrite in_app_iff. right. left. reflexivity.
Qed.

(* ---- leaves of a well-formed tree are pairwise distinct ---- *)

Lemma in_all_leaves p l : In p (all_leaves l) -> exists c q, p = c :: q /\ In c (map fst l).
Proof.
  unfold all_leaves. rewrite in_flat_map. intros ([c t] & Hin & Hp).
  apply in_map_iff in Hp. destruct Hp as (q & Hq & _). exists c, q. split; [congruence|].
  apply in_map_iff. exists (c, t). split; [reflexivity | exact Hin].
Qed.

Lemma nodup_all_leaves : forall l, NoDup (map fst l) ->
  Forall (fun p => NoDup (leaves (snd p))) l -> NoDup (all_leaves l).
Proof.
  induction l as [|[c t] r IH]; intros Hnd Hall; [constructor|].
  rewrite all_leaves_cons. cbn [map fst] in Hnd.
  inversion Hnd as [|? ? Hc Hnd']; subst. inversion Hall as [|? ? Ht Hall']; subst.
  cbn [snd] in Ht. apply NoDup_app_intro.
  - apply NoDup_map_cons. exact Ht.
  - apply IH; assumption.
  - intros p Hp Hp'. apply in_map_iff in Hp. destruct Hp as (q & Hq & _).
    apply in_all_leaves in Hp'. destruct Hp' as (c' & q' & He & Hin). subst p.
    inversion He; subst. tauto.
Qed.

Lemma wf_nodup_leaves : forall t, wf t -> NoDup (leaves t).
Proof.
  induction t as [l IH] using tree_ind'. intros Hwf.
  inversion Hwf as [l' Hnd Hall]; subst.
  destruct l as [|p r]; [cbn; constructor; [tauto | constructor]|].
  rewrite leaves_node by congruence. apply nodup_all_leaves; [exact Hnd|].
  rewrite Forall_forall in *. intros q Hq. apply IH; [exact Hq | apply Hall; exact Hq].
Qed.

(* ========================================================================= *)
(* 5. One execution                                                          *)
(* ========================================================================= *)

(* first visit: from steps = length levels the execution follows the
   leftmost path and appends its annotation to levels *)
Lemma drive_first : forall t pre mi it acc,
  drive None t (mkDfs mi it pre (length pre)) acc
  = Done (rev acc ++ leftmost t)
         (mkDfs mi it (pre ++ annot_first t) (length pre + length (leftmost t))).
Proof.
  induction t as [l IH] using tree_ind'. intros pre mi it acc.
  destruct l as [|[c tc] r].
  - rewrite drive_node. cbn [bound_hit leftmost annot_first length].
    rewrite !app_nil_r, Nat.add_0_r. reflexivity.
  - inversion IH as [|? ? IHc _]; subst. cbn [snd] in IHc.
    rewrite drive_node_ne by (reflexivity || discriminate).
    cbn [map fst]. unfold next_task. cbn [levels steps iterations max_iterations].
    rewrite Nat.leb_refl, Nat.eqb_refl. cbn [find_kid]. rewrite N.eqb_refl.
    set (flag := length (c :: map fst r) =? 1).
    replace (S (length pre)) with (length (pre ++ [(c, flag)]))
      by (rewrite app_length; cbn; lia).
    rewrite IHc. cbn [leftmost annot_first rev]. rewrite <- !app_assoc. cbn [app].
    f_equal. f_equal.
    + f_equal. f_equal. f_equal. unfold flag. destruct r; reflexivity.
    + rewrite app_length. cbn [length]. lia.
Qed.

(* successor step: replaying levels = pre ++ lv (lv a valid annotated path
   with some non-last entry) produces the next leaf *)
Lemma drive_succ : forall t lv, valid t lv -> wf t -> has_more lv 0 = true ->
  forall pre mi it acc,
  exists lv',
    drive None t (mkDfs mi it (pre ++ lv) (length pre)) acc
    = Done (rev acc ++ map fst lv') (mkDfs mi it (pre ++ lv') (length pre + length lv'))
    /\ valid t lv' /\ rest t lv = map fst lv' :: rest t lv'.
Proof.
  intros t lv Hv. induction Hv as [|pre0 c tc post lv1 Hv IH]; intros Hwf Hm pre mi it acc.
  - discriminate.
  - inversion Hwf as [l Hnd Hall]; subst. destruct (nodup_mid _ _ _ _ Hnd) as [Hpre Hpost].
    assert (wf tc) as Hwtc.
    { rewrite Forall_forall in Hall. apply (Hall (c, tc)). rewrite in_app_iff. right. left. reflexivity. }
    rewrite drive_node_ne by (reflexivity || (destruct pre0; discriminate)).
    set (flag := match post with [] => true | _ => false end) in *.
    unfold next_task. cbn [levels steps iterations max_iterations].
    assert (length (pre ++ (c, flag) :: lv1) <=? length pre = false) as Hlen.
    { apply Nat.leb_gt. rewrite app_length. cbn [length]. lia. }
    rewrite Hlen. rewrite nth_error_app_len.
    rewrite has_more_choices_eq. cbn [levels]. rewrite has_more_app_S.
    destruct (has_more lv1 0) eqn:Hm1.
    + (* keep the choice, recurse below *)
      rewrite find_kid_mid by assumption.
      replace (pre ++ (c, flag) :: lv1) with ((pre ++ [(c, flag)]) ++ lv1)
        by (rewrite <- app_assoc; reflexivity).
      replace (S (length pre)) with (length (pre ++ [(c, flag)]))
        by (rewrite app_length; cbn; lia).
      destruct (IH Hwtc eq_refl (pre ++ [(c, flag)]) mi it (c :: acc)) as (lv1' & Hdr & Hv' & Hrest).
      exists ((c, flag) :: lv1'). rewrite Hdr. split; [|split].
      * cbn [rev map fst]. rewrite <- !app_assoc. cbn [app]. f_equal. f_equal.
        rewrite app_length. cbn [length]. lia.
      * apply v_node. exact Hv'.
      * rewrite !rest_mid by assumption. rewrite Hrest. cbn [map fst]. reflexivity.
    + (* all deeper levels are last: advance here *)
      assert (flag = false) as Hflag.
      { unfold has_more in Hm. cbn [skipn existsb snd] in Hm.
        unfold has_more in Hm1. cbn [skipn] in Hm1.
        rewrite Hm1 in Hm. rewrite orb_false_r in Hm. apply negb_true_iff in Hm. exact Hm. }
      rewrite Hflag. destruct post as [|[nx tnx] post']; [discriminate Hflag|].
      pose proof (nodup_mid_next _ _ _ _ _ _ Hnd) as Hnx.
      rewrite map_app. cbn [map fst].
      rewrite position_mid by assumption.
      replace (S (length (map fst pre0))) with (length (map fst pre0 ++ [c]))
        by (rewrite app_length; cbn; lia).
      replace (map fst pre0 ++ c :: nx :: map fst post')
        with ((map fst pre0 ++ [c]) ++ nx :: map fst post')
        by (rewrite <- app_assoc; reflexivity).
      rewrite nth_error_app_len.
      rewrite firstn_app_len.
      assert (pre0 ++ (c, tc) :: (nx, tnx) :: post' = (pre0 ++ [(c, tc)]) ++ (nx, tnx) :: post') as Hre
        by (rewrite <- app_assoc; reflexivity).
      assert (find_kid nx (pre0 ++ (c, tc) :: (nx, tnx) :: post') = Some tnx) as Hfk.
      { rewrite Hre. apply find_kid_mid. exact Hnx. }
      rewrite Hfk.
      set (flag' := length (map fst pre0 ++ [c])
                    =? length ((map fst pre0 ++ [c]) ++ nx :: map fst post') - 1).
      replace (S (length pre)) with (length (pre ++ [(nx, flag')]))
        by (rewrite app_length; cbn; lia).
      rewrite drive_first.
      assert (flag' = match post' with [] => true | _ => false end) as Hf'.
      { unfold flag'. rewrite !app_length. cbn [length]. rewrite map_length.
        destruct post'; cbn [length map];
          [apply Nat.eqb_eq; lia | apply Nat.eqb_neq; rewrite map_length; lia]. }
      exists ((nx, flag') :: annot_first tnx). split; [|split].
      * cbn [rev map fst]. rewrite path_first. rewrite <- !app_assoc. cbn [app]. f_equal. f_equal.
        rewrite app_length. cbn [length]. rewrite <- path_first. rewrite map_length. lia.
      * rewrite Hf'. rewrite Hre. apply v_node. apply valid_first.
      * rewrite rest_mid by assumption.
        rewrite (all_last_rest tc lv1 Hv Hm1 Hwtc). cbn [map app].
        rewrite all_leaves_cons. rewrite (rest_first tnx).
        rewrite Hre. rewrite rest_mid by exact Hnx.
        cbn [map fst]. rewrite path_first. reflexivity.
Qed.

(* a step bound is the same as cutting the tree *)
Lemma drive_truncate : forall t n d acc,
  drive (Some n) t d acc = drive None (truncate (n - length acc) t) d acc.
Proof.
  induction t as [l IH] using tree_ind'. intros n d acc.
  destruct (n <=? length acc) eqn:Hn.
  - rewrite drive_node. cbn [bound_hit]. rewrite Hn.
    apply Nat.leb_le in Hn. replace (n - length acc) with 0 by lia.
    cbn [truncate]. rewrite drive_node. reflexivity.
  - pose proof Hn as Hn'. apply Nat.leb_gt in Hn'.
    destruct (n - length acc) as [|k] eqn:Hk; [lia|]. cbn [truncate].
    destruct l as [|p r].
    + rewrite !drive_node. cbn [bound_hit map]. rewrite Hn. reflexivity.
    + remember (p :: r) as l eqn:Hl.
      assert (l <> []) as Hne by (subst l; discriminate).
      rewrite drive_node_ne; [| cbn [bound_hit]; exact Hn | exact Hne].
      rewrite drive_node_ne; [| reflexivity | subst l; discriminate].
      rewrite map_map. cbn [fst].
      destruct (next_task d (map (fun x => fst x) l)) as [c d'|]; [|reflexivity].
      rewrite (find_kid_map (truncate k)).
      destruct (find_kid c l) as [tx|] eqn:Hf; cbn [option_map]; [|reflexivity].
      apply find_kid_In in Hf. rewrite Forall_forall in IH.
      rewrite (IH (c, tx) Hf). cbn [snd length].
      replace (n - S (length acc)) with k by lia. reflexivity.
Qed.

(* ========================================================================= *)
(* 6. The run loop                                                           *)
(* ========================================================================= *)

Definition mi_stop (mi : option nat) (it : nat) : bool :=
  match mi with Some m => m <=? it | None => false end.

Definition remaining (mi : option nat) (it : nat) : option nat :=
  option_map (fun m => m - it) mi.

Lemma new_execution_eq mi it lv s :
  new_execution (mkDfs mi it lv s) =
  if mi_stop mi it then None
  else if (0 <? it) && negb (has_more lv 0) then None
  else Some (mkDfs mi (S it) lv 0).
Proof. reflexivity. Qed.

Lemma take_opt_nil {A} o : @take_opt A o [] = [].
Proof. destruct o as [m|]; [apply firstn_nil | reflexivity]. Qed.

Lemma take_stop {A} mi it (l : list A) : mi_stop mi it = true -> take_opt (remaining mi it) l = [].
Proof.
  destruct mi as [m|]; cbn [mi_stop remaining option_map take_opt]; [|discriminate].
  intros H. apply Nat.leb_le in H. replace (m - it) with 0 by lia. reflexivity.
Qed.

Lemma take_go {A} mi it (x : A) l : mi_stop mi it = false ->
  take_opt (remaining mi it) (x :: l) = x :: take_opt (remaining mi (S it)) l.
Proof.
  destruct mi as [m|]; cbn [mi_stop remaining option_map take_opt]; [|reflexivity].
  intros H. apply Nat.leb_gt in H. replace (m - it) with (S (m - S it)) by lia. reflexivity.
Qed.

Lemma remaining_0 mi : remaining mi 0 = mi.
Proof. destruct mi as [m|]; cbn [remaining option_map]; [rewrite Nat.sub_0_r|]; reflexivity. Qed.

Lemma loop_from : forall fuel t lv s it mi, valid t lv -> wf t -> 0 < it ->
  length (take_opt (remaining mi it) (rest t lv)) < fuel ->
  dfs_loop fuel None t (mkDfs mi it lv s) = Finished (take_opt (remaining mi it) (rest t lv)).
Proof.
  induction fuel as [|f IH]; intros t lv s it mi Hv Hwf Hit Hlen; [lia|].
  cbn [dfs_loop]. rewrite new_execution_eq.
  destruct (mi_stop mi it) eqn:Hstop.
  - rewrite take_stop by exact Hstop. reflexivity.
  - assert (0 <? it = true) as Hlt by (apply Nat.ltb_lt; exact Hit). rewrite Hlt. cbn [andb].
    destruct (has_more lv 0) eqn:Hm; cbn [negb].
    + destruct (drive_succ t lv Hv Hwf Hm [] mi (S it) []) as (lv' & Hdr & Hv' & Hrest).
      cbn [app length] in Hdr. rewrite Hdr. cbn [rev app].
      rewrite Hrest in Hlen |- *. rewrite take_go in Hlen |- * by exact Hstop.
      cbn [length] in Hlen.
      rewrite (IH t lv' _ (S it) mi Hv' Hwf ltac:(lia) ltac:(lia)). reflexivity.
    + rewrite (all_last_rest t lv Hv Hm Hwf). rewrite take_opt_nil. reflexivity.
Qed.

Definition safe (o : outcome) : Prop :=
  match o with Finished _ | OutOfFuel => True | Crashed | BadChoice => False end.

Lemma loop_safe : forall fuel t lv s it mi, valid t lv -> wf t -> 0 < it ->
  safe (dfs_loop fuel None t (mkDfs mi it lv s)).
Proof.
  induction fuel as [|f IH]; intros t lv s it mi Hv Hwf Hit; [exact I|].
  cbn [dfs_loop]. rewrite new_execution_eq.
  destruct (mi_stop mi it); [exact I|].
  assert (0 <? it = true) as Hlt by (apply Nat.ltb_lt; exact Hit). rewrite Hlt. cbn [andb].
  destruct (has_more lv 0) eqn:Hm; cbn [negb]; [|exact I].
  destruct (drive_succ t lv Hv Hwf Hm [] mi (S it) []) as (lv' & Hdr & Hv' & _).
  cbn [app length] in Hdr. rewrite Hdr.
  specialize (IH t lv' (0 + length lv') (S it) mi Hv' Hwf ltac:(lia)).
  destruct (dfs_loop f None t (mkDfs mi (S it) lv' (0 + length lv'))); exact IH.
Qed.

Lemma loop_truncate : forall fuel n t d,
  dfs_loop fuel (Some n) t d = dfs_loop fuel None (truncate n t) d.
Proof.
  induction fuel as [|f IH]; intros n t d; [reflexivity|].
  cbn [dfs_loop]. destruct (new_execution d) as [d1|]; [|reflexivity].
  rewrite drive_truncate. cbn [length]. rewrite Nat.sub_0_r.
  destruct (drive None (truncate n t) d1 []) as [p d2| |]; try reflexivity.
  rewrite IH. reflexivity.
Qed.

Lemma outcome_truncate fuel mi b t :
  dfs_outcome fuel mi b t = dfs_outcome fuel mi None (truncate_opt b t).
Proof.
  unfold dfs_outcome. destruct b as [n|]; [apply loop_truncate | reflexivity].
Qed.

Lemma outcome_unbounded t : wf t -> forall fuel mi,
  length (take_opt mi (leaves t)) < fuel ->
  dfs_outcome fuel mi None t = Finished (take_opt mi (leaves t)).
Proof.
  intros Hwf fuel mi Hlen. destruct fuel as [|f]; [lia|].
  assert (forall l : list (list N), take_opt mi l = take_opt (remaining mi 0) l) as Heq
    by (intros l; rewrite remaining_0; reflexivity).
  rewrite Heq in Hlen |- *.
  unfold dfs_outcome, dfs_new. cbn [dfs_loop]. rewrite new_execution_eq.
  destruct (mi_stop mi 0) eqn:Hstop.
  - rewrite take_stop by exact Hstop. reflexivity.
  - cbn [Nat.ltb Nat.leb andb].
    pose proof (drive_first t [] mi 1 []) as Hdr. cbn [length app] in Hdr.
    rewrite Hdr. cbn [rev app].
    rewrite rest_first in Hlen |- *. rewrite take_go in Hlen |- * by exact Hstop.
    cbn [length] in Hlen.
    rewrite (loop_from f t (annot_first t) _ 1 mi (valid_first t) Hwf ltac:(lia) ltac:(lia)).
    reflexivity.
Qed.

Lemma outcome_unbounded_safe t : wf t -> forall fuel mi, safe (dfs_outcome fuel mi None t).
Proof.
  intros Hwf fuel mi. destruct fuel as [|f]; [exact I|].
  unfold dfs_outcome, dfs_new. cbn [dfs_loop]. rewrite new_execution_eq.
  destruct (mi_stop mi 0); [exact I|].
  cbn [Nat.ltb Nat.leb andb].
  pose proof (drive_first t [] mi 1 []) as Hdr. cbn [length app] in Hdr. rewrite Hdr.
  pose proof (loop_safe f t (annot_first t) (0 + length (leftmost t)) 1 mi
                (valid_first t) Hwf ltac:(lia)) as Hs.
  destruct (dfs_loop f None t (mkDfs mi 1 (annot_first t) (0 + length (leftmost t)))); exact Hs.
Qed.

(* ========================================================================= *)
(* 7. Main theorems                                                          *)
(* ========================================================================= *)

Lemma wf_truncate_opt b t : wf_tree t -> wf (truncate_opt b t).
Proof.
  intros H. apply wf_tree_wf. destruct b as [n|]; [apply wf_tree_truncate|]; exact H.
Qed.

(* all three parameters at once *)
Theorem dfs_run_general : forall t, wf_tree t -> forall fuel mi b,
  length (take_opt mi (leaves (truncate_opt b t))) < fuel ->
  dfs_run fuel mi b t = Some (take_opt mi (leaves (truncate_opt b t))).
Proof.
  intros t Hwf fuel mi b Hlen. unfold dfs_run. rewrite outcome_truncate.
  rewrite (outcome_unbounded _ (wf_truncate_opt b t Hwf) fuel mi Hlen). reflexivity.
Qed.

Theorem dfs_exact : forall t, wf_tree t -> forall fuel, length (leaves t) < fuel ->
  dfs_run fuel None None t = Some (leaves t).
Proof. intros t Hwf fuel Hlen. apply (dfs_run_general t Hwf fuel None None Hlen). Qed.

Theorem dfs_nodup : forall t, wf_tree t -> NoDup (leaves t).
Proof. intros t Hwf. apply wf_nodup_leaves. apply wf_tree_wf. exact Hwf. Qed.

Theorem dfs_iter_bound : forall t, wf_tree t -> forall m fuel,
  length (firstn m (leaves t)) < fuel ->
  dfs_run fuel (Some m) None t = Some (firstn m (leaves t)).
Proof. intros t Hwf m fuel Hlen. apply (dfs_run_general t Hwf fuel (Some m) None Hlen). Qed.

Theorem dfs_step_bound : forall t, wf_tree t -> forall n fuel,
  length (leaves (truncate n t)) < fuel ->
  dfs_run fuel None (Some n) t = Some (leaves (truncate n t)).
Proof. intros t Hwf n fuel Hlen. apply (dfs_run_general t Hwf fuel None (Some n) Hlen). Qed.

Theorem dfs_no_crash : forall t, wf_tree t -> forall fuel mi b,
  dfs_outcome fuel mi b t <> Crashed /\ dfs_outcome fuel mi b t <> BadChoice.
Proof.
  intros t Hwf fuel mi b. rewrite outcome_truncate.
  pose proof (outcome_unbounded_safe _ (wf_truncate_opt b t Hwf) fuel mi) as Hs.
  destruct (dfs_outcome fuel mi None (truncate_opt b t)); cbn [safe] in Hs;
    split; (discriminate || contradiction).
Qed.

(* the number of executions *)
Theorem dfs_count : forall t, wf_tree t -> forall fuel ps,
  dfs_run fuel None None t = Some ps -> length (leaves t) < fuel -> length ps = length (leaves t).
Proof.
  intros t Hwf fuel ps Hrun Hlen. rewrite (dfs_exact t Hwf fuel Hlen) in Hrun.
  inversion Hrun. reflexivity.
Qed.
