(* C19: proofs about the watch channel - the abstract protocol machine of Lang/TokWatchSpec.v (all interleavings of any
   number of senders and receivers) and the block-level functions of Lang/TokWatch.v. *)
From Coq Require Import List Arith Bool NArith Lia.
From SV Require Import Lang.TokSpec Lang.TokWatchSpec.
Import ListNotations.

(* ---------------- lists ---------------- *)
Lemma nth_error_set_nth_same : forall {A} (l : list A) i x y, nth_error l i = Some y -> nth_error (set_nth l i x) i = Some x.
Proof.
  induction l as [|a r IH]; intros i x y H; destruct i; simpl in *; try discriminate; auto.
  eapply IH; eauto.
Qed.

Lemma nth_error_set_nth_other : forall {A} (l : list A) i j x, i <> j -> nth_error (set_nth l i x) j = nth_error l j.
Proof.
  induction l as [|a r IH]; intros i j x H; destruct i, j; simpl; auto; try congruence.
Qed.

Lemma nth_error_set_nth_cases : forall {A} (l : list A) i j x z,
  nth_error (set_nth l i x) j = Some z -> (i = j /\ z = x) \/ (i <> j /\ nth_error l j = Some z).
Proof.
  intros A l i j x z H. destruct (Nat.eq_dec i j) as [->|N].
  - left. split; auto.
    destruct (nth_error l j) eqn:E.
    + rewrite (nth_error_set_nth_same _ _ x _ E) in H. congruence.
    + exfalso. revert j H E. induction l as [|b r IH]; intros j H E; destruct j; simpl in *; try discriminate. eapply IH; eauto.
  - right. split; auto. rewrite nth_error_set_nth_other in H; auto.
Qed.

Lemma last_snoc : forall {A} (l : list A) x d, last (l ++ [x]) d = x.
Proof. induction l as [|a r IH]; intros; simpl; auto. destruct (r ++ [x]) eqn:E; [destruct r; discriminate|]. rewrite <- E. apply IH. Qed.

Lemma nth_error_notify_all : forall l i p s,
  nth_error (notify_rx_all l) i = Some (p, s) ->
  exists p0, nth_error l i = Some (p0, s) /\
             p = match p0 with RReg _ => RReg true | RWait _ => RWait true | q => q end.
Proof.
  unfold notify_rx_all. intros l i p s H. rewrite nth_error_map in H.
  destruct (nth_error l i) as [[p0 s0]|] eqn:E; simpl in H; [|discriminate].
  exists p0. destruct p0; simpl in H; inversion H; subst; auto.
Qed.

(* ---------------- counting live senders ---------------- *)
Lemma live_set_nth : forall l i c c', nth_error l i = Some c ->
  length (filter is_live_tx (set_nth l i c')) + (if is_live_tx c then 1 else 0) =
  length (filter is_live_tx l) + (if is_live_tx c' then 1 else 0).
Proof.
  induction l as [|x r IH]; intros i c c' H.
  - destruct i; discriminate.
  - destruct i as [|j]; simpl in *.
    + inversion H; subst. destruct (is_live_tx c), (is_live_tx c'); simpl; lia.
    + specialize (IH j c c' H). destruct (is_live_tx x); simpl; lia.
Qed.

Lemma live_zero_no_idle : forall l j, length (filter is_live_tx l) = 0 -> nth_error l j = Some SIdle -> False.
Proof.
  induction l as [|x r IH]; intros j H E; destruct j; simpl in *; try discriminate.
  - inversion E; subst. simpl in H. discriminate.
  - destruct (is_live_tx x); simpl in H; try discriminate. eapply IH; eauto.
Qed.

Lemma live_zero_no_pending : forall l j, length (filter is_live_tx l) = 0 -> nth_error l j = Some SPending -> False.
Proof.
  induction l as [|x r IH]; intros j H E; destruct j; simpl in *; try discriminate.
  - inversion E; subst. simpl in H. discriminate.
  - destruct (is_live_tx x); simpl in H; try discriminate. eapply IH; eauto.
Qed.

(* ---------------- the invariant ---------------- *)
Lemma some_notifier_set_other : forall w i c c',
  nth_error (w_tx w) i = Some c -> is_notifier c = false ->
  some_notifier w -> some_notifier (mkWm (w_init w) (w_hist w) (w_val w) (w_ver w) (w_closed w) (w_rx w) (set_nth (w_tx w) i c')).
Proof.
  intros w i c c' E Hn [j Hj]. exists j. simpl.
  destruct (Nat.eq_dec i j) as [->|N].
  - rewrite E in Hj. destruct Hj as [Hj|Hj]; inversion Hj; subst; discriminate.
  - rewrite nth_error_set_nth_other; auto.
Qed.

Lemma wm_inv_init : forall init ntx nrx, wm_inv (wm_init init ntx nrx).
Proof.
  intros. unfold wm_inv, wm_init, latest; simpl. repeat split; auto.
  - intros i p s H. apply nth_error_In in H. apply repeat_spec in H. inversion H; subst. lia.
  - intros i s H. apply nth_error_In in H. apply repeat_spec in H. discriminate.
  - discriminate.
Qed.

Ltac keep_iw Iw j s Hj :=
  let A1 := fresh in let A2 := fresh in let k := fresh in let B := fresh in
  destruct (Iw j s Hj) as [[A1 A2]|[k B]]; [left; split; [exact A1|congruence]|right; exists k; exact B].

Lemma wm_inv_step : forall w i l w', wstep w i l = Some w' -> wm_inv w -> wm_inv w'.
Proof.
  intros w i l w' H (Iv & Il & Is & Iw & Ic).
  destruct l; unfold wstep in H.
  - (* WCommit *)
    destruct (nth_error (w_tx w) i) as [[| | |]|] eqn:E; try discriminate. inversion H; subst w'; clear H.
    unfold wm_inv, latest; simpl. repeat split.
    + rewrite last_snoc. reflexivity.
    + rewrite app_length. simpl. lia.
    + intros j p s Hj. specialize (Is j p s Hj). lia.
    + intros j s Hj. right. exists i. left. simpl. eapply nth_error_set_nth_same; eauto.
    + intros Hc. specialize (Ic Hc). exfalso. eapply live_zero_no_idle; eauto.
  - (* WNotify *)
    destruct (nth_error (w_tx w) i) as [[| | |]|] eqn:E; try discriminate; inversion H; subst w'; clear H;
      unfold wm_inv, latest; simpl; (repeat split; auto).
    + intros j p s Hj. apply nth_error_notify_all in Hj. destruct Hj as (p0 & Hj & _). eauto.
    + intros j s Hj. apply nth_error_notify_all in Hj. destruct Hj as (p0 & _ & Hp). destruct p0; discriminate.
    + intros Hc. specialize (Ic Hc). exfalso. eapply live_zero_no_pending; eauto.
    + intros j p s Hj. apply nth_error_notify_all in Hj. destruct Hj as (p0 & Hj & _). eauto.
    + intros j s Hj. apply nth_error_notify_all in Hj. destruct Hj as (p0 & _ & Hp). destruct p0; discriminate.
    + intros Hc. specialize (Ic Hc). unfold live_senders in *. simpl.
      pose proof (live_set_nth _ _ _ SGone E) as L. simpl in L. lia.
  - (* WDropTx *)
    destruct (nth_error (w_tx w) i) as [[| | |]|] eqn:E; try discriminate.
    destruct (Nat.eqb (live_senders w) 1) eqn:L1; inversion H; subst w'; clear H; unfold wm_inv, latest; simpl; (repeat split; auto).
    + intros j s Hj. right. exists i. right. simpl. eapply nth_error_set_nth_same; eauto.
    + intros _. apply Nat.eqb_eq in L1. unfold live_senders in *. simpl.
      pose proof (live_set_nth _ _ _ SClosing E) as L. simpl in L. lia.
    + intros j s Hj. destruct (Iw j s Hj) as [A|B]; [left; exact A|right].
      eapply (some_notifier_set_other w i SIdle SGone); eauto.
    + intros Hc. specialize (Ic Hc). exfalso. eapply live_zero_no_idle; eauto.
  - (* WRegister *)
    destruct (nth_error (w_rx w) i) as [[[| | |] s0]|] eqn:E; try discriminate. inversion H; subst w'; clear H.
    unfold wm_inv, latest; simpl. repeat split; auto.
    + intros j p s Hj. apply nth_error_set_nth_cases in Hj. destruct Hj as [[-> Hz]|[N Hj]]; [inversion Hz; subst; eauto|eauto].
    + intros j s Hj. apply nth_error_set_nth_cases in Hj. destruct Hj as [[-> Hz]|[N Hj]]; [discriminate|].
      keep_iw Iw j s Hj.
  - (* WCheck *)
    destruct (nth_error (w_rx w) i) as [[[| | |] s0]|] eqn:E; try discriminate.
    destruct (negb (Nat.eqb s0 (w_ver w))) eqn:D; [|destruct (w_closed w) eqn:Cl]; inversion H; subst w'; clear H;
      unfold wm_inv, latest; simpl; (repeat split; auto).
    + intros j p s Hj. apply nth_error_set_nth_cases in Hj. destruct Hj as [[-> Hz]|[N Hj]]; [inversion Hz; subst; lia|eauto].
    + intros j s Hj. apply nth_error_set_nth_cases in Hj. destruct Hj as [[-> Hz]|[N Hj]]; [discriminate|].
      keep_iw Iw j s Hj.
    + intros j p s Hj. apply nth_error_set_nth_cases in Hj. destruct Hj as [[-> Hz]|[N Hj]]; [inversion Hz; subst; eauto|eauto].
    + intros j s Hj. apply nth_error_set_nth_cases in Hj. destruct Hj as [[-> Hz]|[N Hj]]; [discriminate|].
      keep_iw Iw j s Hj.
    + intros j p s Hj. apply nth_error_set_nth_cases in Hj. destruct Hj as [[-> Hz]|[N Hj]]; [inversion Hz; subst; eauto|eauto].
    + intros j s Hj. apply nth_error_set_nth_cases in Hj. destruct Hj as [[-> Hz]|[N Hj]].
      * inversion Hz; subst. left. apply negb_false_iff in D. apply Nat.eqb_eq in D. split; [exact D|exact Cl].
      * keep_iw Iw j s Hj.
    + intros Hc. congruence.
  - (* WWake *)
    destruct (nth_error (w_rx w) i) as [[[| |[|]|] s0]|] eqn:E; try discriminate. inversion H; subst w'; clear H.
    unfold wm_inv, latest; simpl. repeat split; auto.
    + intros j p s Hj. apply nth_error_set_nth_cases in Hj. destruct Hj as [[-> Hz]|[N Hj]]; [inversion Hz; subst; eauto|eauto].
    + intros j s Hj. apply nth_error_set_nth_cases in Hj. destruct Hj as [[-> Hz]|[N Hj]]; [discriminate|].
      keep_iw Iw j s Hj.
  - (* WLook *)
    destruct (nth_error (w_rx w) i) as [[[| | |] s0]|] eqn:E; try discriminate. inversion H; subst w'; clear H.
    unfold wm_inv, latest; simpl. repeat split; auto.
    + intros j p s Hj. apply nth_error_set_nth_cases in Hj. destruct Hj as [[-> Hz]|[N Hj]]; [inversion Hz; subst; lia|eauto].
    + intros j s Hj. apply nth_error_set_nth_cases in Hj. destruct Hj as [[-> Hz]|[N Hj]]; [discriminate|].
      keep_iw Iw j s Hj.
  - (* WDropRx *)
    destruct (nth_error (w_rx w) i) as [[p0 s0]|] eqn:E; try discriminate.
    assert (Hw : w' = with_rx w (set_nth (w_rx w) i (RGone, s0))) by (destruct p0; try discriminate; inversion H; reflexivity).
    subst w'. clear H. unfold wm_inv, latest; simpl. repeat split; auto.
    + intros j p s Hj. apply nth_error_set_nth_cases in Hj. destruct Hj as [[-> Hz]|[N Hj]]; [inversion Hz; subst; eauto|eauto].
    + intros j s Hj. apply nth_error_set_nth_cases in Hj. destruct Hj as [[-> Hz]|[N Hj]]; [discriminate|].
      keep_iw Iw j s Hj.
  - (* WSubscribe *)
    destruct (nth_error (w_rx w) i) as [[[| | |] s0]|] eqn:E; try discriminate. inversion H; subst w'; clear H.
    unfold wm_inv, latest; simpl. repeat split; auto.
    + intros j p s Hj. apply nth_error_set_nth_cases in Hj. destruct Hj as [[-> Hz]|[N Hj]]; [inversion Hz; subst; lia|eauto].
    + intros j s Hj. apply nth_error_set_nth_cases in Hj. destruct Hj as [[-> Hz]|[N Hj]]; [discriminate|].
      keep_iw Iw j s Hj.
Qed.

Lemma wm_inv_run : forall steps w w', wrun w steps = Some w' -> wm_inv w -> wm_inv w'.
Proof.
  induction steps as [|[i l] r IH]; intros w w' H Hinv; simpl in H.
  - inversion H; subst; assumption.
  - destruct (wstep w i l) as [w1|] eqn:S1; [|discriminate].
    eapply IH; [exact H|]. eapply wm_inv_step; eassumption.
Qed.

Lemma wm_reachable_inv : forall init ntx nrx steps w, wrun (wm_init init ntx nrx) steps = Some w -> wm_inv w.
Proof. intros. eapply wm_inv_run; [eassumption|apply wm_inv_init]. Qed.

(* the borrowed value is always the latest value committed *)
Lemma wm_latest_value : forall init ntx nrx steps w,
  wrun (wm_init init ntx nrx) steps = Some w -> w_val w = last (w_hist w) init.
Proof.
  intros init ntx nrx steps w H. pose proof (wm_reachable_inv _ _ _ _ _ H) as (Iv & _).
  assert (G : forall st w0 w, wrun w0 st = Some w -> w_init w = w_init w0).
  { induction st as [|[i l] r IH]; intros a b R; simpl in R; [inversion R; reflexivity|].
    destruct (wstep a i l) as [a1|] eqn:S1; [|discriminate]. rewrite (IH _ _ R).
    unfold wstep in S1. destruct l;
      repeat match type of S1 with
             | context [match ?x with _ => _ end] => destruct x; try discriminate
             end; inversion S1; reflexivity. }
  assert (Hi : w_init w = init) by (rewrite (G _ _ _ H); reflexivity).
  unfold latest in Iv. rewrite Hi in Iv. exact Iv.
Qed.

(* has_changed / maybe_changed answer "changed" exactly when a commit happened after the receiver's last look: the
   receiver's version is the number of commits at its last look (never ahead), the channel's version is the number of
   commits so far *)
Lemma wm_version_counts : forall init ntx nrx steps w i p s,
  wrun (wm_init init ntx nrx) steps = Some w -> nth_error (w_rx w) i = Some (p, s) ->
  w_ver w = length (w_hist w) /\ s <= length (w_hist w).
Proof.
  intros init ntx nrx steps w i p s H E. pose proof (wm_reachable_inv _ _ _ _ _ H) as (_ & Il & Is & _).
  split; [exact Il|]. rewrite <- Il. eauto.
Qed.

(* no lost notification: once no sender is between its commit (or its closing drop) and its notify_waiters, a receiver
   that waits un-notified has seen the current version and the channel is open *)
Lemma wm_no_lost_notification : forall init ntx nrx steps w i s,
  wrun (wm_init init ntx nrx) steps = Some w ->
  (forall j c, nth_error (w_tx w) j = Some c -> is_notifier c = false) ->
  nth_error (w_rx w) i = Some (RWait false, s) ->
  s = w_ver w /\ w_closed w = false.
Proof.
  intros init ntx nrx steps w i s H Hq E. pose proof (wm_reachable_inv _ _ _ _ _ H) as (_ & _ & _ & Iw & _).
  destruct (Iw i s E) as [A|[j [B|B]]]; [exact A| |]; specialize (Hq j _ B); discriminate.
Qed.

(* ... and the announcing step of such a sender is always enabled, as is the wake of a notified receiver *)
Lemma wm_notify_enabled : forall w j c, nth_error (w_tx w) j = Some c -> is_notifier c = true -> exists w', wstep w j WNotify = Some w'.
Proof. intros w j c E Hn. unfold wstep. rewrite E. destruct c; try discriminate; eexists; reflexivity. Qed.

Lemma wm_wake_enabled : forall w i s, nth_error (w_rx w) i = Some (RWait true, s) -> exists w', wstep w i WWake = Some w'.
Proof. intros w i s E. unfold wstep. rewrite E. eexists; reflexivity. Qed.

(* after WNotify nobody waits un-notified *)
Lemma wm_notify_wakes_all : forall w j w' i s, wstep w j WNotify = Some w' -> nth_error (w_rx w') i = Some (RWait false, s) -> False.
Proof.
  intros w j w' i s H E. unfold wstep in H.
  destruct (nth_error (w_tx w) j) as [[| | |]|]; try discriminate; inversion H; subst w'; simpl in E;
    apply nth_error_notify_all in E; destruct E as (p0 & _ & Hp); destruct p0; discriminate.
Qed.

(* a closed channel never commits again *)
Lemma wm_closed_no_commit : forall w j v, wm_inv w -> w_closed w = true -> wstep w j (WCommit v) = None.
Proof.
  intros w j v (_ & _ & _ & _ & Ic) Hc. unfold wstep.
  destruct (nth_error (w_tx w) j) as [[| | |]|] eqn:E; auto.
  exfalso. eapply live_zero_no_idle; [exact (Ic Hc)|exact E].
Qed.
