(* C10: the uniform random walk scheduler (Sched/Urw.v = shuttle-schedulers/src/urw.rs): the answer is an offered task,
   every offered task has a weight of at least one, and for every offered task some 64-bit word of the generator makes
   the weighted choice pick it ("gives every offered task positive probability"). *)
From Coq Require Import NArith ZArith List Lia Bool ZifyN.
From SV Require Import Sched.Random Sched.Urw Proofs.RandomProofs.
Import ListNotations.
Local Open Scope N_scope.

Fixpoint rsum (l : list N) : N := match l with [] => 0 | x :: r => x + rsum r end.

Lemma fold_add_rsum : forall l a, fold_left N.add l a = a + rsum l.
Proof. induction l as [|x r IH]; intros a; simpl; [lia|]. rewrite IH. lia. Qed.

Lemma sum_N_rsum : forall l, sum_N l = rsum l.
Proof. intros. unfold sum_N. rewrite fold_add_rsum. lia. Qed.

(* ---------------- the binary search over the cumulative weights ---------------- *)
Lemma pick_weighted_cons2 : forall w w2 r2 chosen acc i,
  pick_weighted (w :: w2 :: r2) chosen acc i =
  if acc + w <=? chosen then pick_weighted (w2 :: r2) chosen (acc + w) (S i) else i.
Proof. reflexivity. Qed.

Lemma set_count_nth : forall l k v i z, nth_error (set_count l k v) i = Some z -> z = v \/ nth_error l i = Some z.
Proof.
  unfold set_count. induction l as [|a l' IH]; intros k v i z H.
  - destruct k; simpl in H; destruct i; discriminate.
  - destruct k as [|k']; simpl in H.
    + destruct i; simpl in *; [inversion H; auto|auto].
    + destruct i; simpl in *; [auto|]. eapply IH; eauto.
Qed.

Lemma pick_weighted_prefix : forall ws j acc i,
  (j < length ws)%nat -> 1 <= nth j ws 0 ->
  pick_weighted ws (acc + rsum (firstn j ws)) acc i = (i + j)%nat.
Proof.
  induction ws as [|w r IH]; intros j acc i Hj Hw; simpl in Hj; [lia|].
  destruct j as [|j'].
  - simpl in Hw. simpl firstn. simpl rsum. destruct r as [|w2 r2]; [simpl; lia|].
    rewrite pick_weighted_cons2.
    replace (acc + w <=? acc + 0) with false by (symmetry; apply N.leb_gt; lia). lia.
  - simpl firstn. simpl rsum. simpl in Hw.
    assert (Hr : (j' < length r)%nat) by lia.
    destruct r as [|w2 r2]; [simpl in Hr; lia|].
    rewrite pick_weighted_cons2.
    replace (acc + w <=? acc + (w + rsum (firstn j' (w2 :: r2)))) with true by (symmetry; apply N.leb_le; lia).
    replace (acc + (w + rsum (firstn j' (w2 :: r2)))) with ((acc + w) + rsum (firstn j' (w2 :: r2))) by lia.
    rewrite (IH j' (acc + w) (S i) Hr Hw). lia.
Qed.

Lemma prefix_lt_total : forall ws j, (j < length ws)%nat -> 1 <= nth j ws 0 -> rsum (firstn j ws) < rsum ws.
Proof.
  induction ws as [|w r IH]; intros j Hj Hw; simpl in Hj; [lia|].
  destruct j as [|j']; simpl in *; [lia|]. specialize (IH j' ltac:(lia) Hw). lia.
Qed.

Lemma pick_weighted_bound : forall ws chosen acc i, ws <> [] -> (pick_weighted ws chosen acc i < i + length ws)%nat.
Proof.
  induction ws as [|w r IH]; intros chosen acc i Hne; [congruence|].
  destruct r as [|w2 r2]; [simpl; lia|].
  rewrite pick_weighted_cons2. destruct (acc + w <=? chosen).
  - specialize (IH chosen (acc + w) (S i) ltac:(discriminate)). simpl in *. lia.
  - simpl. lia.
Qed.

(* ---------------- one round of Uniform<usize>::sample ---------------- *)
Definition uniform_round (v range : N) : option N :=
  let p := v * range in
  if (p mod TWO64) <=? USIZE_MAX - (TWO64 - range) mod range then Some (p / TWO64) else None.

Lemma uniform_below_unfold : forall f range st,
  uniform_below (S f) range st =
  match uniform_round (fst (pcg_next_u64 st)) range with
  | Some c => Some (c, snd (pcg_next_u64 st))
  | None => uniform_below f range (snd (pcg_next_u64 st))
  end.
Proof.
  intros. cbn [uniform_below]. unfold uniform_round. destruct (pcg_next_u64 st) as [v st']. cbn [fst snd].
  destruct (_ <=? _); reflexivity.
Qed.

(* every value below the range is produced by some 64-bit word (ranges up to 2^63) *)
Lemma uniform_round_onto : forall range c, 0 < range -> range <= 9223372036854775808 -> c < range ->
  exists v, v < TWO64 /\ uniform_round v range = Some c.
Proof.
  intros range c Hr Hmax Hc.
  set (v := (c * TWO64 + range - 1) / range).
  pose proof (ceil_mul_lower (c * TWO64) range Hr) as L.
  pose proof (ceil_mul_upper (c * TWO64) range Hr) as U.
  fold v in L, U.
  assert (HT : TWO64 = 18446744073709551616) by reflexivity.
  assert (Hp1 : c * TWO64 <= v * range) by lia.
  assert (Hp2 : v * range <= c * TWO64 + range - 1) by lia.
  assert (Hdiv : (v * range) / TWO64 = c).
  { symmetry. apply N.div_unique with (r := v * range - c * TWO64); [lia|lia]. }
  assert (Hmod : (v * range) mod TWO64 = v * range - c * TWO64).
  { symmetry. apply N.mod_unique with (q := c); [lia|lia]. }
  exists v. split.
  - assert (v * range < range * TWO64) by nia. nia.
  - unfold uniform_round. rewrite Hmod, Hdiv.
    assert (Hz : (TWO64 - range) mod range < range) by (apply N.mod_lt; lia).
    assert (HU : USIZE_MAX = 18446744073709551615) by reflexivity.
    replace (v * range - c * TWO64 <=? USIZE_MAX - (TWO64 - range) mod range) with true; [reflexivity|].
    symmetry. apply N.leb_le. lia.
Qed.

(* every index with a positive weight is reached by some word *)
Lemma weighted_choice_onto : forall ws j,
  (j < length ws)%nat -> 1 <= nth j ws 0 -> rsum ws <= 9223372036854775808 ->
  exists v c, v < TWO64 /\ uniform_round v (rsum ws) = Some c /\ pick_weighted ws c 0 0 = j.
Proof.
  intros ws j Hj Hw Hmax.
  pose proof (prefix_lt_total ws j Hj Hw) as Hlt.
  destruct (uniform_round_onto (rsum ws) (rsum (firstn j ws)) ltac:(lia) Hmax Hlt) as (v & Hv & Hr).
  exists v, (rsum (firstn j ws)). split; [exact Hv|]. split; [exact Hr|].
  pose proof (pick_weighted_prefix ws j 0 0%nat Hj Hw) as P. simpl in P. exact P.
Qed.

(* ---------------- the registration loop keeps every offered task's count at one or more ---------------- *)
Lemma urw_register_offered_pos : forall sigs umin ts counts counts',
  urw_register sigs umin counts ts = Some counts' ->
  (forall i x, nth_error counts i = Some x -> 1 <= x) ->
  (forall i x, nth_error counts' i = Some x -> 1 <= x).
Proof.
  induction ts as [|t r IH]; intros counts counts' H Hpos; simpl in H.
  - inversion H; subst. exact Hpos.
  - destruct (Nat.eqb (ut_id t) (length counts)) eqn:E.
    + set (ce := match sig_get sigs (ut_sig t) with Some c => c | None => umin end) in *.
      destruct (match ut_parent t with
                | Some p => match nth_error (counts ++ [ce]) p with
                            | Some pc => Some (set_count (counts ++ [ce]) p (N.max (pc - ce) 1))
                            | None => None end
                | None => Some (counts ++ [ce]) end) as [c2|] eqn:C2; [|discriminate].
      destruct (nth_error c2 (ut_id t)) as [x|] eqn:X; [|discriminate].
      destruct (1 <=? x) eqn:L; [|discriminate].
      (* every entry of c2 other than the new one is positive; the new one is x >= 1: but entries of c2 need not all be
         positive in general (the new entry is checked only at its own index); the loop re-checks offered tasks only *)
      eapply IH; [exact H|].
      intros i y Hy.
      apply Nat.eqb_eq in E.
      destruct (Nat.eq_dec i (ut_id t)) as [->|N].
      * rewrite X in Hy. inversion Hy; subst. apply N.leb_le. exact L.
      * (* an old entry, possibly the parent's, which is max(.., 1) *)
        destruct (ut_parent t) as [p|].
        -- destruct (nth_error (counts ++ [ce]) p) as [pc|] eqn:P; [|discriminate]. inversion C2; subst c2; clear C2.
           destruct (set_count_nth _ _ _ _ _ Hy) as [->|Hold]; [lia|].
           destruct (Nat.lt_ge_cases i (length counts)) as [Hi|Hi].
           ++ rewrite nth_error_app1 in Hold by exact Hi. eauto.
           ++ rewrite nth_error_app2 in Hold by exact Hi. destruct (i - length counts)%nat eqn:D; [lia|]. simpl in Hold. destruct n; discriminate.
        -- inversion C2; subst c2; clear C2.
           destruct (Nat.lt_ge_cases i (length counts)) as [Hi|Hi].
           ++ rewrite nth_error_app1 in Hy by exact Hi. eauto.
           ++ rewrite nth_error_app2 in Hy by exact Hi. destruct (i - length counts)%nat eqn:D; [lia|]. simpl in Hy. destruct n; discriminate.
    + destruct (Nat.ltb (length counts) (ut_id t)); [discriminate|].
      destruct (nth_error counts (ut_id t)) as [x|]; [|discriminate].
      destruct (1 <=? x); [|discriminate]. eapply IH; eauto.
Qed.

Lemma set_count_length : forall l k v, length (set_count l k v) = length l.
Proof. unfold set_count. induction l as [|a l' IH]; intros k v; destruct k; simpl; auto. Qed.

Lemma urw_register_in_range : forall sigs umin ts counts counts',
  urw_register sigs umin counts ts = Some counts' ->
  (length counts <= length counts')%nat /\ (forall t, In t ts -> (ut_id t < length counts')%nat).
Proof.
  induction ts as [|t r IH]; intros counts counts' H; simpl in H.
  - inversion H; subst. split; [lia|]. intros t [].
  - destruct (Nat.eqb (ut_id t) (length counts)) eqn:E.
    + set (ce := match sig_get sigs (ut_sig t) with Some c => c | None => umin end) in *.
      destruct (match ut_parent t with
                | Some p => match nth_error (counts ++ [ce]) p with
                            | Some pc => Some (set_count (counts ++ [ce]) p (N.max (pc - ce) 1))
                            | None => None end
                | None => Some (counts ++ [ce]) end) as [c2|] eqn:C2; [|discriminate].
      assert (Hlen : length c2 = S (length counts)).
      { destruct (ut_parent t) as [p|].
        - destruct (nth_error (counts ++ [ce]) p); [|discriminate]. inversion C2; subst. rewrite set_count_length, app_length. simpl. lia.
        - inversion C2; subst. rewrite app_length. simpl. lia. }
      destruct (nth_error c2 (ut_id t)) as [x|]; [|discriminate].
      destruct (1 <=? x); [|discriminate].
      destruct (IH _ _ H) as [L R]. apply Nat.eqb_eq in E. split; [lia|].
      intros t' [<-|Hin]; [lia|auto].
    + destruct (Nat.ltb (length counts) (ut_id t)) eqn:Lt; [discriminate|].
      destruct (nth_error counts (ut_id t)) as [x|] eqn:X; [|discriminate].
      destruct (1 <=? x); [|discriminate].
      destruct (IH _ _ H) as [L R]. split; [lia|].
      intros t' [<-|Hin]; [|auto].
      assert (ut_id t < length counts)%nat by (apply nth_error_Some; congruence). lia.
Qed.

(* after the registration loop every offered task has a weight of at least one *)
Lemma urw_weights_positive : forall sigs umin ts counts counts',
  urw_register sigs umin counts ts = Some counts' ->
  (forall i x, nth_error counts i = Some x -> 1 <= x) ->
  forall j, (j < length ts)%nat -> 1 <= nth j (weights_of counts' ts) 0.
Proof.
  intros sigs umin ts counts counts' H Hpos j Hj.
  pose proof (urw_register_offered_pos _ _ _ _ _ H Hpos) as P.
  destruct (urw_register_in_range _ _ _ _ _ H) as [_ R].
  unfold weights_of.
  destruct (nth_error ts j) as [t|] eqn:T; [|apply nth_error_None in T; lia].
  rewrite (nth_error_nth _ _ 0 (map_nth_error (fun t => nth (ut_id t) counts' 0) _ _ T)).
  specialize (R t (nth_error_In _ _ T)).
  destruct (nth_error counts' (ut_id t)) as [x|] eqn:X; [|apply nth_error_None in X; lia].
  rewrite (nth_error_nth _ _ _ X). eauto.
Qed.

(* the answer is always one of the offered tasks *)
Lemma urw_next_task_offered : forall fuel u ts t u',
  urw_next_task fuel u ts = Done (t, u') -> exists x, In x ts /\ ut_id x = t.
Proof.
  intros fuel u ts t u' H. unfold urw_next_task in H.
  destruct (u_state u).
  - discriminate.
  - destruct (choose_index (N.of_nat (length ts)) fuel (u_rng u)) as [[[i|] st]| | |]; try discriminate.
    destruct (nth_error ts (N.to_nat i)) as [x|] eqn:X; [|discriminate].
    destruct (sig_get (u_sigs u) (ut_sig x)); inversion H; subst; exists x; split; eauto using nth_error_In.
  - destruct (u_counts u) as [counts|]; [|discriminate].
    destruct (urw_register (u_sigs u) (u_min u) counts ts) as [counts1|]; [|discriminate].
    destruct ts as [|t0 r]; [discriminate|].
    destruct (TWO64 <=? sum_N (weights_of counts1 (t0 :: r))); [discriminate|].
    destruct (uniform_below fuel (sum_N (weights_of counts1 (t0 :: r))) (u_rng u)) as [[chosen st]|]; [|discriminate].
    destruct (nth_error (t0 :: r) (pick_weighted (weights_of counts1 (t0 :: r)) chosen 0 0)) as [x|] eqn:X; [|discriminate].
    inversion H; subst. exists x. split; eauto using nth_error_In.
Qed.

(* the counts stay at one or more across a decision, so the hypothesis of the positivity theorem holds at every decision
   of an execution (it holds for the empty table new_execution installs) *)
Lemma urw_counts_stay_positive : forall fuel u ts t u' counts,
  u_state u = UInitialized -> u_counts u = Some counts ->
  (forall i x, nth_error counts i = Some x -> 1 <= x) ->
  urw_next_task fuel u ts = Done (t, u') ->
  exists counts', u_counts u' = Some counts' /\ u_state u' = UInitialized /\ (forall i x, nth_error counts' i = Some x -> 1 <= x).
Proof.
  intros fuel u ts t u' counts Hs Hc Hpos H. unfold urw_next_task in H. rewrite Hs, Hc in H.
  destruct (urw_register (u_sigs u) (u_min u) counts ts) as [counts1|] eqn:R; [|discriminate].
  destruct ts as [|t0 r]; [discriminate|].
  destruct (TWO64 <=? sum_N (weights_of counts1 (t0 :: r))); [discriminate|].
  destruct (uniform_below fuel (sum_N (weights_of counts1 (t0 :: r))) (u_rng u)) as [[chosen st]|]; [|discriminate].
  destruct (nth_error (t0 :: r) (pick_weighted (weights_of counts1 (t0 :: r)) chosen 0 0)) as [x|]; [|discriminate].
  inversion H; subst; clear H. eexists. split; [reflexivity|]. split; [reflexivity|].
  intros i y Hy. destruct (set_count_nth _ _ _ _ _ Hy) as [->|Hold]; [lia|].
  eapply (urw_register_offered_pos _ _ _ _ _ R Hpos); eauto.
Qed.

(* positive probability: at a decision of an estimated execution, for every offered task some 64-bit word of the
   generator makes the weighted choice pick exactly that task *)
Lemma urw_every_offered_task_possible : forall sigs umin ts counts counts1,
  urw_register sigs umin counts ts = Some counts1 ->
  (forall i x, nth_error counts i = Some x -> 1 <= x) ->
  sum_N (weights_of counts1 ts) <= 9223372036854775808 ->
  forall j, (j < length ts)%nat ->
  exists v c, v < TWO64 /\ uniform_round v (sum_N (weights_of counts1 ts)) = Some c /\
              pick_weighted (weights_of counts1 ts) c 0 0 = j.
Proof.
  intros sigs umin ts counts counts1 R Hpos Hmax j Hj.
  rewrite sum_N_rsum in *.
  apply weighted_choice_onto; [unfold weights_of; rewrite map_length; exact Hj| |exact Hmax].
  eapply urw_weights_positive; eauto.
Qed.
