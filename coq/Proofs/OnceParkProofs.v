(* ------------------------------------------------------------------------- *)
(*  SV.Proofs.OnceParkProofs : property C05, park/unpark and Once             *)
(*  (shuttle-engine/src/runtime/task/mod.rs Task::park / Task::unpark,        *)
(*   shuttle-std/src/thread.rs, shuttle-std/src/sync/once.rs).                *)
(*                                                                            *)
(*  PART 1  park / unpark: exact specification of e_park and e_unpark, the    *)
(*          park-state invariant, tokens do not accumulate, no lost unpark,   *)
(*          spurious wake-ups are permitted.                                  *)
(*  PART 2  Once: the blocks of call_once, the transition system over them    *)
(*          (with the inner mutex abstracted to its holder slot), invariant,  *)
(*          exactly one initializer, every return sees Complete.              *)
(* ------------------------------------------------------------------------- *)
From Coq Require Import List NArith Bool Arith Lia.
From SV Require Import Params Clock.VClock Prim.Objects Engine.Exec Prim.Semaphore
                       Lang.Code Lang.ThreadOps Lang.SyncOps Lang.SyncOps2 Proofs.SemBase Proofs.CondvarProofs.
Import ListNotations.
Local Open Scope nat_scope.

(* ========================================================================= *)
(*  PART 1 : park / unpark                                                    *)
(* ========================================================================= *)
(* exact effect of Task::park on the task table *)
Theorem e_park_spec : forall e t e' sw,
  e_park e t = Some (e', sw) ->
  exists tk tk', get_task e t = Some tk /\ get_task e' t = Some tk' /\
    (forall t', t' <> t -> get_task e' t' = get_task e t') /\ me e' = me e /\
    t_inpark tk = false /\ is_blocked tk = false /\
    if t_token tk then sw = false /\ tk' = set_park tk false false
    else sw = true /\ is_finished tk = false /\ tk' = set_state (set_park tk false true) (Blocked true).
Proof.
  intros e t e' sw H; unfold e_park in H.
  destruct (get_task e t) as [tk|] eqn:Hg; [|discriminate].
  destruct (t_inpark tk) eqn:Hip; [discriminate|].
  destruct (is_blocked tk) eqn:Hb; [discriminate|].
  destruct (t_token tk) eqn:Htok.
  - destruct (upd_task e t _) as [e1|] eqn:Hu; [|discriminate]. inversion H; subst e1 sw; clear H.
    destruct (upd_task_spec _ _ _ _ Hu) as (Hme & Hoth & tk0 & Hg0 & Hg').
    rewrite Hg in Hg0; inversion Hg0; subst tk0.
    exists tk, (set_park tk false (t_inpark tk)). rewrite Htok. rewrite Hip in *. repeat split; auto.
  - destruct (is_finished tk) eqn:Hf; [discriminate|].
    destruct (upd_task e t _) as [e1|] eqn:Hu; [|discriminate]. inversion H; subst e1 sw; clear H.
    destruct (upd_task_spec _ _ _ _ Hu) as (Hme & Hoth & tk0 & Hg0 & Hg').
    rewrite Hg in Hg0; inversion Hg0; subst tk0.
    exists tk, (set_state (set_park tk (t_token tk) true) (Blocked true)). rewrite Htok in *. repeat split; auto.
Qed.

(* exact effect of Task::unpark *)
Theorem e_unpark_spec : forall e t e',
  e_unpark e t = Some e' ->
  exists tk tk', get_task e t = Some tk /\ get_task e' t = Some tk' /\
    (forall t', t' <> t -> get_task e' t' = get_task e t') /\ me e' = me e /\
    if t_inpark tk then can_spur tk = true /\ t_token tk = false /\ tk' = unblock_task tk
    else tk' = set_park tk true false.
Proof.
  intros e t e' H; unfold e_unpark in H.
  destruct (get_task e t) as [tk|] eqn:Hg; [|discriminate].
  destruct (t_inpark tk) eqn:Hip.
  - destruct (can_spur tk) eqn:Hcs; [|discriminate]. cbn [negb] in H.
    destruct (t_token tk) eqn:Htok; [discriminate|].
    destruct (e_unblock_spec _ _ _ H) as (Hme & Hoth & tk0 & Hg0 & _ & Hg').
    rewrite Hg in Hg0; inversion Hg0; subst tk0.
    exists tk, (unblock_task tk). rewrite Hip. repeat split; auto.
  - destruct (upd_task_spec _ _ _ _ H) as (Hme & Hoth & tk0 & Hg0 & Hg').
    rewrite Hg in Hg0; inversion Hg0; subst tk0.
    exists tk, (set_park tk true (t_inpark tk)). rewrite Hip in *. repeat split; auto.
Qed.

(* ---- park_token ---- *)
(* a running task (not parked, not blocked) that has a token: park consumes it and does not block *)
Theorem park_consumes_token : forall e t tk,
  get_task e t = Some tk -> t_inpark tk = false -> is_blocked tk = false -> t_token tk = true ->
  exists e' tk', e_park e t = Some (e', false) /\ get_task e' t = Some tk' /\
    t_token tk' = false /\ t_inpark tk' = false /\ t_state tk' = t_state tk.
Proof.
  intros e t tk Hg Hip Hb Htok. unfold e_park; rewrite Hg, Hip, Hb, Htok.
  destruct (upd_task_succ e t (fun tk0 => set_park tk0 false (t_inpark tk0)) tk Hg) as (e' & Hu); rewrite Hu.
  destruct (upd_task_spec _ _ _ _ Hu) as (_ & _ & tk0 & Hg0 & Hg'). rewrite Hg in Hg0; inversion Hg0; subst tk0.
  eexists _, _; split; [reflexivity|]. split; [exact Hg'|]. cbn [set_park t_token t_inpark t_state]. auto.
Qed.

(* without a token it blocks, allowing spurious wake-ups, and records that it is blocked in park *)
Theorem park_blocks_without_token : forall e t tk,
  get_task e t = Some tk -> t_inpark tk = false -> is_blocked tk = false -> is_finished tk = false ->
  t_token tk = false ->
  exists e' tk', e_park e t = Some (e', true) /\ get_task e' t = Some tk' /\
    t_state tk' = Blocked true /\ t_inpark tk' = true /\ t_token tk' = false /\ can_spur tk' = true.
Proof.
  intros e t tk Hg Hip Hb Hf Htok. unfold e_park; rewrite Hg, Hip, Hb, Htok, Hf.
  destruct (upd_task_succ e t (fun tk0 => set_state (set_park tk0 (t_token tk0) true) (Blocked true)) tk Hg) as (e' & Hu);
    rewrite Hu.
  destruct (upd_task_spec _ _ _ _ Hu) as (_ & _ & tk0 & Hg0 & Hg'). rewrite Hg in Hg0; inversion Hg0; subst tk0.
  eexists _, _; split; [reflexivity|]. split; [exact Hg'|].
  unfold can_spur; cbn [set_state set_park t_token t_inpark t_state]. auto.
Qed.

(* unpark of a task blocked in park unblocks it and leaves no token; otherwise it sets the token *)
Theorem unpark_parked : forall e t tk,
  get_task e t = Some tk -> t_inpark tk = true -> t_state tk = Blocked true -> t_token tk = false ->
  exists e' tk', e_unpark e t = Some e' /\ get_task e' t = Some tk' /\
    t_state tk' = Runnable /\ t_inpark tk' = false /\ t_token tk' = false.
Proof.
  intros e t tk Hg Hip Hst Htok. unfold e_unpark; rewrite Hg, Hip.
  unfold can_spur; rewrite Hst, Htok; cbn [negb].
  assert (Hal : alive e t) by (apply alive_get; exists tk; split; [exact Hg|unfold is_finished; rewrite Hst; reflexivity]).
  destruct (e_unblock_succ e t Hal) as (e' & Hu); rewrite Hu.
  destruct (e_unblock_spec _ _ _ Hu) as (_ & _ & tk0 & Hg0 & _ & Hg'). rewrite Hg in Hg0; inversion Hg0; subst tk0.
  eexists _, _; split; [reflexivity|]. split; [exact Hg'|].
  unfold unblock_task; cbn [set_state set_park t_token t_inpark t_state]. auto.
Qed.

Theorem unpark_not_parked : forall e t tk,
  get_task e t = Some tk -> t_inpark tk = false ->
  exists e' tk', e_unpark e t = Some e' /\ get_task e' t = Some tk' /\
    t_token tk' = true /\ t_inpark tk' = false /\ t_state tk' = t_state tk.
Proof.
  intros e t tk Hg Hip. unfold e_unpark; rewrite Hg, Hip.
  destruct (upd_task_succ e t (fun tk0 => set_park tk0 true (t_inpark tk0)) tk Hg) as (e' & Hu); rewrite Hu.
  destruct (upd_task_spec _ _ _ _ Hu) as (_ & _ & tk0 & Hg0 & Hg'). rewrite Hg in Hg0; inversion Hg0; subst tk0.
  eexists _, _; split; [reflexivity|]. split; [exact Hg'|]. cbn [set_park t_token t_inpark t_state]. auto.
Qed.

(* tokens do not accumulate: a second unpark of a task that is not parked changes no task *)
Theorem unpark_idempotent : forall e t e1 e2,
  e_unpark e t = Some e1 -> e_unpark e1 t = Some e2 ->
  (exists tk, get_task e t = Some tk /\ t_inpark tk = false) ->
  forall t', get_task e2 t' = get_task e1 t'.
Proof.
  intros e t e1 e2 H1 H2 (tk & Hg & Hip) t'.
  destruct (e_unpark_spec _ _ _ H1) as (tk0 & tk1 & Hg0 & Hg1 & _ & _ & Hc1).
  rewrite Hg in Hg0; inversion Hg0; subst tk0. rewrite Hip in Hc1; subst tk1.
  destruct (e_unpark_spec _ _ _ H2) as (tk1 & tk2 & Hg1' & Hg2 & Hoth & _ & Hc2).
  rewrite Hg1 in Hg1'; inversion Hg1'; subst tk1. cbn [set_park t_inpark] in Hc2. subst tk2.
  destruct (Nat.eq_dec t' t) as [->|Hne]; [|apply Hoth; exact Hne].
  rewrite Hg2, Hg1. reflexivity.
Qed.

(* ... so after any number (here two) of unparks, one park consumes the token and the next one blocks *)
Theorem tokens_do_not_accumulate : forall e t tk e1 e2 e3 sw3 e4 sw4,
  get_task e t = Some tk -> t_inpark tk = false ->
  e_unpark e t = Some e1 -> e_unpark e1 t = Some e2 ->
  e_park e2 t = Some (e3, sw3) -> e_park e3 t = Some (e4, sw4) ->
  sw3 = false /\ sw4 = true.
Proof.
  intros e t tk e1 e2 e3 sw3 e4 sw4 Hg Hip H1 H2 H3 H4.
  pose proof (unpark_idempotent _ _ _ _ H1 H2 (ex_intro _ tk (conj Hg Hip)) t) as Hsame.
  destruct (e_unpark_spec _ _ _ H1) as (tk0 & tk1 & Hg0 & Hg1 & _ & _ & Hc1).
  rewrite Hg in Hg0; inversion Hg0; subst tk0. rewrite Hip in Hc1; subst tk1.
  destruct (e_park_spec _ _ _ _ H3) as (tk2 & tk3 & Hg2 & Hg3 & _ & _ & _ & _ & Hc3).
  rewrite Hsame, Hg1 in Hg2; inversion Hg2; subst tk2. cbn [set_park t_token] in Hc3.
  destruct Hc3 as (-> & ->). split; [reflexivity|].
  destruct (e_park_spec _ _ _ _ H4) as (tk3' & tk4 & Hg3' & _ & _ & _ & _ & _ & Hc4).
  rewrite Hg3 in Hg3'; inversion Hg3'; subst tk3'. cbn [set_park t_token] in Hc4. tauto.
Qed.

(* ---- the park-state invariant ---- *)
(* the token is never available while the task is blocked in park; a task blocked in park is blocked
   with spurious wake-ups allowed *)
Definition park_ok (tk : task) : Prop :=
  (t_token tk = true -> t_inpark tk = true -> False) /\ (t_inpark tk = true -> t_state tk = Blocked true).
Definition park_inv (e : exec) : Prop := forall t tk, get_task e t = Some tk -> park_ok tk.

Lemma park_inv_upd : forall e e' t,
  park_inv e ->
  (forall t', t' <> t -> get_task e' t' = get_task e t') ->
  (forall tk', get_task e' t = Some tk' -> park_ok tk') ->
  park_inv e'.
Proof.
  intros e e' t Hinv Hoth Hnew t' tk' Hg'. destruct (Nat.eq_dec t' t) as [->|Hne]; [apply Hnew; exact Hg'|].
  rewrite (Hoth t' Hne) in Hg'. eapply Hinv; exact Hg'.
Qed.

Theorem park_inv_park : forall e t e' sw, park_inv e -> e_park e t = Some (e', sw) -> park_inv e'.
Proof.
  intros e t e' sw Hinv H. destruct (e_park_spec _ _ _ _ H) as (tk & tk' & Hg & Hg' & Hoth & _ & Hip & _ & Hc).
  apply (park_inv_upd e e' t Hinv Hoth). intros tk0 Hg0. rewrite Hg' in Hg0; inversion Hg0; subst tk0.
  destruct (t_token tk).
  - destruct Hc as (_ & ->). split; cbn [set_park t_token t_inpark t_state]; intros; discriminate.
  - destruct Hc as (_ & _ & ->). split; cbn [set_state set_park t_token t_inpark t_state]; intros; [discriminate|reflexivity].
Qed.

Theorem park_inv_unpark : forall e t e', park_inv e -> e_unpark e t = Some e' -> park_inv e'.
Proof.
  intros e t e' Hinv H. destruct (e_unpark_spec _ _ _ H) as (tk & tk' & Hg & Hg' & Hoth & _ & Hc).
  apply (park_inv_upd e e' t Hinv Hoth). intros tk0 Hg0. rewrite Hg' in Hg0; inversion Hg0; subst tk0.
  destruct (t_inpark tk) eqn:Hip.
  - destruct Hc as (_ & _ & ->). unfold unblock_task; split; cbn [set_state set_park t_token t_inpark t_state]; intros; discriminate.
  - subst tk'. split; cbn [set_park t_token t_inpark t_state]; intros; discriminate.
Qed.

Theorem park_inv_unblock : forall e t e', park_inv e -> e_unblock e t = Some e' -> park_inv e'.
Proof.
  intros e t e' Hinv H. destruct (e_unblock_spec _ _ _ H) as (_ & Hoth & tk & Hg & _ & Hg').
  apply (park_inv_upd e e' t Hinv Hoth). intros tk0 Hg0. rewrite Hg' in Hg0; inversion Hg0; subst tk0.
  unfold unblock_task; split; cbn [set_state set_park t_token t_inpark t_state]; intros; discriminate.
Qed.

(* Task::block does not touch the park state: the first half of the invariant is kept whoever is
   blocked; the second half when the blocked task is not parked (a task blocks itself, and a running
   task is not parked; Condvar blocks only tasks that are waiting on the condvar) *)
Theorem park_inv_block : forall e t b e',
  park_inv e -> e_block e t b = Some e' ->
  (forall tk, get_task e t = Some tk -> t_inpark tk = false) -> park_inv e'.
Proof.
  intros e t b e' Hinv H Hnp. destruct (e_block_spec _ _ _ _ H) as (_ & Hoth & tk & Hg & _ & Hg').
  apply (park_inv_upd e e' t Hinv Hoth). intros tk0 Hg0. rewrite Hg' in Hg0; inversion Hg0; subst tk0.
  specialize (Hnp tk Hg). split; cbn [set_state t_token t_inpark t_state]; rewrite Hnp; intros; discriminate.
Qed.

Theorem park_token_excl_block : forall e t b e' t' tk',
  (forall tk, get_task e t' = Some tk -> t_token tk = true -> t_inpark tk = true -> False) ->
  e_block e t b = Some e' -> get_task e' t' = Some tk' -> t_token tk' = true -> t_inpark tk' = true -> False.
Proof.
  intros e t b e' t' tk' Hinv H Hg' Htok Hip. destruct (e_block_spec _ _ _ _ H) as (_ & Hoth & tk & Hg & _ & Hgt).
  destruct (Nat.eq_dec t' t) as [->|Hne].
  - rewrite Hgt in Hg'; inversion Hg'; subst tk'. cbn [set_state t_token t_inpark] in *. eapply Hinv; eassumption.
  - rewrite (Hoth t' Hne) in Hg'. eapply Hinv; eassumption.
Qed.

(* ---- unpark_never_lost ---- *)
(* after an unpark the target was either blocked in park and is now runnable, or it holds the token,
   and then its next park returns at once *)
Theorem unpark_never_lost : forall e t e',
  e_unpark e t = Some e' ->
  exists tk tk', get_task e t = Some tk /\ get_task e' t = Some tk' /\ t_inpark tk' = false /\
    ((t_inpark tk = true /\ t_state tk' = Runnable) \/
     (t_inpark tk = false /\ t_token tk' = true /\ t_state tk' = t_state tk)).
Proof.
  intros e t e' H. destruct (e_unpark_spec _ _ _ H) as (tk & tk' & Hg & Hg' & _ & _ & Hc).
  exists tk, tk'. split; [exact Hg|]. split; [exact Hg'|].
  destruct (t_inpark tk) eqn:Hip.
  - destruct Hc as (_ & _ & ->). unfold unblock_task; cbn [set_state set_park t_token t_inpark t_state]. auto.
  - subst tk'. cbn [set_park t_token t_inpark t_state]. auto.
Qed.

Theorem unpark_then_park_returns : forall e t e' tk,
  get_task e t = Some tk -> t_inpark tk = false -> is_blocked tk = false ->
  e_unpark e t = Some e' ->
  exists e'', e_park e' t = Some (e'', false).
Proof.
  intros e t e' tk Hg Hip Hb H.
  destruct (e_unpark_spec _ _ _ H) as (tk0 & tk' & Hg0 & Hg' & _ & _ & Hc).
  rewrite Hg in Hg0; inversion Hg0; subst tk0. rewrite Hip in Hc; subst tk'.
  destruct (park_consumes_token e' t _ Hg') as (e'' & _ & Hp & _); cbn [set_park t_token t_inpark]; auto.
  eauto.
Qed.

(* ---- spurious wake-ups ---- *)
(* a task blocked in park is offered to the scheduler (it passes the filter of `schedule`), and when
   it is chosen `schedule` unblocks it: it leaves park without a token having been consumed or set *)
Theorem park_spurious_permitted : forall e t tk e',
  get_task e t = Some tk -> t_state tk = Blocked true -> t_inpark tk = true -> t_token tk = false ->
  (is_runnable tk || can_spur tk = true) /\
  (e_unblock e t = Some e' ->
   exists tk', get_task e' t = Some tk' /\ t_state tk' = Runnable /\ t_inpark tk' = false /\ t_token tk' = false).
Proof.
  intros e t tk e' Hg Hst Hip Htok. split; [unfold is_runnable, can_spur; rewrite Hst; reflexivity|].
  intros Hu. destruct (e_unblock_spec _ _ _ Hu) as (_ & _ & tk0 & Hg0 & _ & Hg').
  rewrite Hg in Hg0; inversion Hg0; subst tk0. eexists; split; [exact Hg'|].
  unfold unblock_task; cbn [set_state set_park t_token t_inpark t_state]. auto.
Qed.

(* a parked task is made runnable by nothing but Task::unblock (unpark or the scheduler's spurious
   wake-up): the other calls of the task API leave a blocked task blocked *)
Theorem parked_stays_blocked : forall e t tk,
  get_task e t = Some tk -> t_state tk = Blocked true ->
  (forall e', e_waker_wake e t = Some e' -> st_of e' t = Some (Blocked true)) /\
  (forall e', e_abort e t = Some e' -> st_of e' t = Some (Blocked true)) /\
  (forall e' c, e_update_clock e t c = Some e' -> st_of e' t = Some (Blocked true)).
Proof.
  intros e t tk Hg Hst.
  assert (Hs : st_of e t = Some (Blocked true)) by (unfold st_of; rewrite Hg, Hst; reflexivity).
  assert (Hw : forall e', upd_task e t wake_task = Some e' -> st_of e' t = Some (Blocked true)).
  { intros e' Hu. destruct (upd_task_spec _ _ _ _ Hu) as (_ & _ & tk0 & Hg0 & Hg').
    rewrite Hg in Hg0; inversion Hg0; subst tk0. unfold st_of; rewrite Hg'.
    unfold wake_task, is_sleeping; cbn [set_woken t_state]. rewrite Hst; cbn [set_woken t_state]. rewrite Hst; reflexivity. }
  split; [|split].
  - intros e' H; unfold e_waker_wake in H. destruct (exec_is_finished e); [inversion H; subst; exact Hs|].
    rewrite Hg in H. destruct (is_finished tk); [inversion H; subst; exact Hs|]. apply Hw; exact H.
  - intros e' H; unfold e_abort in H. rewrite Hg in H.
    destruct (is_finished tk); [inversion H; subst; exact Hs|]. apply Hw; exact H.
  - intros e' c H. rewrite (only_clocks_st _ _ (e_update_clock_only _ _ _ _ H)). exact Hs.
Qed.

(* ---- the code trees ---- *)
Theorem park_code_shape : forall k,
  park_code k =
  atomic_b (fun e s => match me e with
                       | Some m => match e_park e m with
                                   | Some (e', true) => Some (e_request_yield e', s, true)
                                   | Some (e', false) => Some (e', s, false)
                                   | None => None end
                       | None => None end)
    (fun sw => if sw then Switch k else k).
Proof. reflexivity. Qed.

Theorem unpark_code_shape : forall t k,
  unpark_code t k = Switch (atomic_u (fun e s => match e_unpark e t with Some e' => Some (e', s) | None => None end) k).
Proof. reflexivity. Qed.

(* ========================================================================= *)
(*  PART 2 : Once                                                             *)
(* ========================================================================= *)
Definition is_complete (s : once_state) : bool := match s with OnComplete _ => true | _ => false end.

(* ---- the blocks ---- *)
Lemma once_enter_spec : forall e st o e' st' need,
  once_enter e st o = Some (e', st', need) ->
  exists m s flag mx, me e = Some m /\ get_obj st o = Some (OOnce s flag mx) /\
    match s with
    | OnComplete c => need = false /\ st' = st /\ e_update_clock e m c = Some e'
    | OnNone => need = true /\ e' = e /\ st' = set_obj st o (OOnce OnRunning flag mx)
    | OnRunning => need = true /\ e' = e /\ st' = st
    end.
Proof.
  intros e st o e' st' need H; unfold once_enter in H.
  destruct (me e) as [m|]; [|discriminate].
  destruct (get_obj st o) as [[| | | | | | |s flag mx| | | | | ]|]; try discriminate.
  exists m, s, flag, mx. split; [reflexivity|]. split; [reflexivity|].
  destruct s as [| |c].
  - inversion H; subst; auto.
  - inversion H; subst; auto.
  - destruct (e_update_clock e m c) as [e1|]; [|discriminate]. inversion H; subst; auto.
Qed.

Lemma once_complete_spec : forall e st o e' st',
  once_complete e st o = Some (e', st') ->
  exists s flag mx c, get_obj st o = Some (OOnce s flag mx) /\ st' = set_obj st o (OOnce (OnComplete c) true mx).
Proof.
  intros e st o e' st' H; unfold once_complete in H.
  destruct (me e) as [m|]; [|discriminate].
  destruct (get_obj st o) as [[| | | | | | |s flag mx| | | | | ]|]; try discriminate.
  destruct (e_increment_clock e m) as [e1|]; [|discriminate].
  destruct (e_clock e1 m) as [c|]; [|discriminate].
  inversion H; subst. exists s, flag, mx, c; auto.
Qed.

(* call_once, block by block *)
Definition once_test_block (o : nat) : exec -> store -> option (exec * store * bool) :=
  fun e st => match once_flag st o with Some f => Some (e, st, f) | None => None end.

Theorem call_once_code_shape : forall o mx body kont,
  call_once_code o mx body kont =
  atomic_b (fun e st => once_enter e st o)
    (fun need => if negb need then kont else
      mutex_lock_code mx (fun res =>
        match res with
        | LkPoisoned => Panic
        | _ => atomic_b (once_test_block o)
                 (fun done => if done then mutex_unlock_code mx kont
                              else body (Switch (atomic_u (fun e st => once_complete e st o) (mutex_unlock_code mx kont))))
        end)).
Proof. reflexivity. Qed.

(* The winner's tail, block by block (after the repair of once.rs): the initializer's code, then a
   scheduling point, then once_complete (flag := true and state := Complete in ONE block), then the
   scheduling point of the guard's release, the release block, the continuation.  Between the end of
   the initializer and once_complete other tasks may run: they find the state Running and the inner
   mutex held, exactly as while the initializer runs. *)
Theorem call_once_winner_tail_shape : forall o mx kont,
  Switch (atomic_u (fun e st => once_complete e st o) (mutex_unlock_code mx kont)) =
  Switch (atomic_u (fun e st => once_complete e st o) (Switch (atomic_u (mutex_release_block mx) kont))).
Proof. reflexivity. Qed.

(* ---- the transition system ---- *)
(* Ghost: where the current holder of the inner mutex is in call_once (PhAcq: it has just acquired the
   lock; PhInit: it found the flag false - it runs the initializer, or has finished it and stands at
   the scheduling point before once_complete; PhDone: it is about to release), and whether some task
   has already found the flag false under the lock.
   Every block is a separate step and any steps of other tasks (OEnter, failed acquisitions = OEnv,
   ...) may occur between two steps of one call_once, so the scheduling point that the repaired
   once.rs has between the initializer and once_complete needs no new step: it is one more place
   where the holder stays in PhInit while the others move. *)
Inductive hphase := PhAcq | PhInit | PhDone.
Record ostate := mkO { o_e : exec; o_s : store; o_phase : hphase; o_started : bool }.

Definition once_st (o : nat) (s : ostate) : once_state :=
  match get_obj (o_s s) o with Some (OOnce st _ _) => st | _ => OnNone end.
Definition once_fl (o : nat) (s : ostate) : bool :=
  match get_obj (o_s s) o with Some (OOnce _ f _) => f | _ => false end.
Definition mx_holder (mx : nat) (st : store) : option nat :=
  match get_obj st mx with Some (OMutex h _ _) => h | _ => None end.
Definition is_mutex (mx : nat) (st : store) : Prop := exists h s p, get_obj st mx = Some (OMutex h s p).

Inductive olabel :=
| OEnter (t : nat) (need : bool)     (* need = false: call_once returns at once *)
| OAcquire (t : nat)                 (* the last block of Mutex::lock on the inner mutex *)
| OTest (t : nat) (flag : bool)      (* the flag read under the lock; false: t runs its initializer *)
| OComplete (t : nat)                (* the initializer has returned: flag := true, state := Complete *)
| ORelease (t : nat)                 (* the guard is dropped; call_once returns *)
| OEnv.

(* The program-order hypotheses are exactly what call_once_code_shape shows: the flag is tested by the
   task that has just taken the lock, once_complete is run by the holder after a test that answered
   false, the lock is released by its holder after a test that answered true or after once_complete.
   The release block is abstracted to its effect on the holder slot (mutex_release_block_spec); the
   environment may do anything to the mutex except change its holder (queueing on its semaphore). *)
Inductive ostep (o mx : nat) : ostate -> olabel -> ostate -> Prop :=
| Os_enter : forall e st ph sd e' st' t need,
    me e = Some t -> once_enter e st o = Some (e', st', need) ->
    ostep o mx (mkO e st ph sd) (OEnter t need) (mkO e' st' ph sd)
| Os_acquire : forall e st ph sd e' st' t p,
    me e = Some t -> mutex_set_holder e st mx = Some (e', st', p) ->
    ostep o mx (mkO e st ph sd) (OAcquire t) (mkO e' st' PhAcq sd)
| Os_test : forall e st sd t f,
    mx_holder mx st = Some t -> once_test_block o e st = Some (e, st, f) ->
    ostep o mx (mkO e st PhAcq sd) (OTest t f) (mkO e st (if f then PhDone else PhInit) (sd || negb f))
| Os_complete : forall e st sd e' st' t,
    mx_holder mx st = Some t -> once_complete e st o = Some (e', st') ->
    ostep o mx (mkO e st PhInit sd) (OComplete t) (mkO e' st' PhDone sd)
| Os_release : forall e st sd e' st' t,
    mx_holder mx st = Some t -> get_obj st' o = get_obj st o ->
    (exists s' p', get_obj st' mx = Some (OMutex None s' p')) ->
    ostep o mx (mkO e st PhDone sd) (ORelease t) (mkO e' st' PhDone sd)
| Os_env : forall e st ph sd e' st',
    get_obj st' o = get_obj st o -> mx_holder mx st' = mx_holder mx st -> is_mutex mx st' ->
    ostep o mx (mkO e st ph sd) OEnv (mkO e' st' ph sd).

Inductive orun (o mx : nat) : ostate -> list olabel -> ostate -> Prop :=
| ORun_nil : forall s, orun o mx s [] s
| ORun_cons : forall s l s1 tr s2, ostep o mx s l s1 -> orun o mx s1 tr s2 -> orun o mx s (l :: tr) s2.

Definition held (mx : nat) (s : ostate) : Prop := mx_holder mx (o_s s) <> None.

Record OnceInv (o mx : nat) (s : ostate) : Prop := mkOnceInv {
  oi_obj : exists st0 flag, get_obj (o_s s) o = Some (OOnce st0 flag mx);
  oi_mx : is_mutex mx (o_s s);
  oi_flag : once_fl o s = is_complete (once_st o s);
  oi_init : held mx s -> o_phase s = PhInit -> once_fl o s = false /\ o_started s = true;
  oi_done : held mx s -> o_phase s = PhDone -> once_fl o s = true;
  oi_started : o_started s = true -> once_fl o s = true \/ (held mx s /\ o_phase s = PhInit);
  oi_flag_started : once_fl o s = true -> o_started s = true;
}.

Lemma once_fields_eq : forall o e st ph sd st0 flag mx,
  get_obj st o = Some (OOnce st0 flag mx) ->
  once_st o (mkO e st ph sd) = st0 /\ once_fl o (mkO e st ph sd) = flag.
Proof. intros o e st ph sd st0 flag mx H; unfold once_st, once_fl; cbn [o_s]; rewrite H; auto. Qed.

Lemma once_fields_same : forall o e st ph sd e' st' ph' sd',
  get_obj st' o = get_obj st o ->
  once_st o (mkO e' st' ph' sd') = once_st o (mkO e st ph sd) /\ once_fl o (mkO e' st' ph' sd') = once_fl o (mkO e st ph sd).
Proof. intros; unfold once_st, once_fl; cbn [o_s]. rewrite H; auto. Qed.

Lemma mx_holder_same : forall mx st st', get_obj st' mx = get_obj st mx -> mx_holder mx st' = mx_holder mx st.
Proof. intros mx st st' H; unfold mx_holder; rewrite H; reflexivity. Qed.

Lemma is_mutex_same : forall mx st st', get_obj st' mx = get_obj st mx -> is_mutex mx st -> is_mutex mx st'.
Proof. intros mx st st' H (h & s & p & Hg); exists h, s, p; congruence. Qed.

(* what a step does to the Once state, the flag and the ghost *)
Lemma ostep_effect : forall o mx s l s',
  o <> mx -> OnceInv o mx s -> ostep o mx s l s' ->
  match l with
  | OEnter t need =>
      once_fl o s' = once_fl o s /\ is_complete (once_st o s') = is_complete (once_st o s) /\
      (need = false -> is_complete (once_st o s) = true) /\
      mx_holder mx (o_s s') = mx_holder mx (o_s s) /\ o_phase s' = o_phase s /\ o_started s' = o_started s
  | OAcquire t =>
      once_fl o s' = once_fl o s /\ once_st o s' = once_st o s /\
      mx_holder mx (o_s s) = None /\ mx_holder mx (o_s s') = Some t /\ o_phase s' = PhAcq /\ o_started s' = o_started s
  | OTest t f =>
      once_fl o s' = once_fl o s /\ once_st o s' = once_st o s /\ f = once_fl o s /\ o_phase s = PhAcq /\
      mx_holder mx (o_s s) = Some t /\ mx_holder mx (o_s s') = Some t /\
      o_phase s' = (if f then PhDone else PhInit) /\ o_started s' = (o_started s || negb f)%bool
  | OComplete t =>
      once_fl o s' = true /\ is_complete (once_st o s') = true /\ o_phase s = PhInit /\
      mx_holder mx (o_s s) = Some t /\ mx_holder mx (o_s s') = Some t /\ o_phase s' = PhDone /\ o_started s' = o_started s
  | ORelease t =>
      once_fl o s' = once_fl o s /\ once_st o s' = once_st o s /\ o_phase s = PhDone /\
      mx_holder mx (o_s s) = Some t /\ mx_holder mx (o_s s') = None /\ o_started s' = o_started s
  | OEnv =>
      once_fl o s' = once_fl o s /\ once_st o s' = once_st o s /\
      mx_holder mx (o_s s') = mx_holder mx (o_s s) /\ o_phase s' = o_phase s /\ o_started s' = o_started s
  end /\ is_mutex mx (o_s s') /\ exists st0 flag, get_obj (o_s s') o = Some (OOnce st0 flag mx).
Proof.
  intros o mx s l s' Hne [(st0 & flag & Hobj) Hmx _ _ _ _ _] Hstep.
  destruct Hstep as [e st ph sd e' st' t need Hme He | e st ph sd e' st' t p Hme Ha | e st sd t f Hh Ht
                    | e st sd e' st' t Hh Hc | e st sd e' st' t Hh Hsame Hrel | e st ph sd e' st' Hsame Hhold Hm];
    cbn [o_s o_e o_phase o_started] in *.
  - destruct (once_enter_spec _ _ _ _ _ _ He) as (m & s0 & fl & mx0 & _ & Hobj0 & Hcase).
    rewrite Hobj in Hobj0; inversion Hobj0; subst s0 fl mx0; clear Hobj0.
    destruct (once_fields_eq o e st ph sd _ _ _ Hobj) as (E1 & E2). rewrite E1, E2.
    destruct st0 as [| |c].
    + destruct Hcase as (-> & -> & ->).
      pose proof (get_set_obj_eq st o (OOnce OnRunning flag mx) _ Hobj) as Hobj'.
      destruct (once_fields_eq o e _ ph sd _ _ _ Hobj') as (-> & ->).
      pose proof (get_set_obj_neq st o mx (OOnce OnRunning flag mx) Hne) as Hmxs.
      split; [repeat split; auto; try discriminate; apply mx_holder_same; exact Hmxs|].
      split; [eapply is_mutex_same; eassumption|eauto].
    + destruct Hcase as (-> & -> & ->). rewrite E1, E2.
      split; [repeat split; auto; discriminate|]. split; [exact Hmx|eauto].
    + destruct Hcase as (-> & -> & _).
      destruct (once_fields_eq o e' st ph sd _ _ _ Hobj) as (-> & ->).
      split; [repeat split; auto|]. split; [exact Hmx|eauto].
  - destruct (mutex_set_holder_spec _ _ _ _ _ _ Ha) as (m & sm & Hme' & -> & Hg & -> & Hg').
    assert (m = t) by congruence; subst m.
    pose proof (get_set_obj_neq st mx o (OMutex (Some t) sm p) (fun H => Hne (eq_sym H))) as Hos.
    destruct (once_fields_same o e st ph sd e _ PhAcq sd Hos) as (-> & ->).
    split; [|split; [exists (Some t), sm, p; exact Hg'|exists st0, flag; congruence]].
    unfold mx_holder; rewrite Hg, Hg'. repeat split; auto.
  - unfold once_test_block, once_flag in Ht. rewrite Hobj in Ht. inversion Ht; subst f.
    destruct (once_fields_eq o e st PhAcq sd _ _ _ Hobj) as (E1 & E2).
    destruct (once_fields_eq o e st (if flag then PhDone else PhInit) (sd || negb flag) _ _ _ Hobj) as (-> & ->).
    rewrite E1, E2. split; [repeat split; auto|]. split; [exact Hmx|eauto].
  - destruct (once_complete_spec _ _ _ _ _ Hc) as (s0 & fl & mx0 & c & Hobj0 & ->).
    rewrite Hobj in Hobj0; inversion Hobj0; subst s0 fl mx0; clear Hobj0.
    pose proof (get_set_obj_eq st o (OOnce (OnComplete c) true mx) _ Hobj) as Hobj'.
    destruct (once_fields_eq o e' _ PhDone sd _ _ _ Hobj') as (-> & ->).
    pose proof (get_set_obj_neq st o mx (OOnce (OnComplete c) true mx) Hne) as Hmxs.
    rewrite (mx_holder_same _ _ _ Hmxs).
    split; [repeat split; auto|]. split; [eapply is_mutex_same; eassumption|eauto].
  - destruct Hrel as (s' & p' & Hg').
    destruct (once_fields_same o e st PhDone sd e' st' PhDone sd Hsame) as (-> & ->).
    split; [|split; [exists None, s', p'; exact Hg'|exists st0, flag; congruence]].
    unfold mx_holder at 2; rewrite Hg'. repeat split; auto.
  - destruct (once_fields_same o e st ph sd e' st' ph sd Hsame) as (-> & ->).
    split; [repeat split; auto|]. split; [exact Hm|exists st0, flag; congruence].
Qed.

Theorem ostep_inv : forall o mx s l s', o <> mx -> OnceInv o mx s -> ostep o mx s l s' -> OnceInv o mx s'.
Proof.
  intros o mx s l s' Hne Hinv Hstep.
  destruct (ostep_effect _ _ _ _ _ Hne Hinv Hstep) as (Heff & Hmx' & Hobj').
  destruct Hinv as [_ _ Hfl Hin Hdn Hsd Hfs]. unfold held in *.
  destruct l as [t need|t|t f|t|t|].
  - destruct Heff as (E1 & E2 & _ & E3 & E4 & E5).
    constructor; auto; unfold held; rewrite ?E1, ?E2, ?E3, ?E4, ?E5; auto.
  - destruct Heff as (E1 & E2 & Hn & E3 & E4 & E5).
    constructor; auto; unfold held; rewrite ?E1, ?E2, ?E3, ?E4, ?E5; auto; try discriminate.
    intros Hs. destruct (Hsd Hs) as [H|(H & _)]; [left; exact H|]. rewrite Hn in H; congruence.
  - destruct Heff as (E1 & E2 & -> & Hph & Hh & E3 & E4 & E5).
    constructor; auto; unfold held; rewrite ?E1, ?E2, ?E3, ?E4, ?E5; auto.
    + intros _ Hp. destruct (once_fl o s); [discriminate|]. split; [reflexivity|apply orb_true_r].
    + intros _ Hp. destruct (once_fl o s); [reflexivity|discriminate].
    + intros Hs. destruct (once_fl o s) eqn:Hf; [left; reflexivity|]. right; split; [discriminate|reflexivity].
    + intros Hf. rewrite Hf in *. rewrite (Hfs eq_refl); reflexivity.
  - destruct Heff as (E1 & E2 & Hph & Hh & E3 & E4 & E5).
    constructor; auto; unfold held; rewrite ?E1, ?E2, ?E3, ?E4, ?E5; auto; try discriminate.
    intros _. apply (Hin ltac:(rewrite Hh; discriminate) Hph).
  - destruct Heff as (E1 & E2 & Hph & Hh & E3 & E5).
    assert (Hft : once_fl o s = true) by (apply Hdn; [rewrite Hh; discriminate|exact Hph]).
    constructor; auto; unfold held; rewrite ?E1, ?E2, ?E3, ?E5; auto; try congruence.
  - destruct Heff as (E1 & E2 & E3 & E4 & E5).
    constructor; auto; unfold held; rewrite ?E1, ?E2, ?E3, ?E4, ?E5; auto.
Qed.

Theorem orun_inv : forall o mx s tr s', o <> mx -> OnceInv o mx s -> orun o mx s tr s' -> OnceInv o mx s'.
Proof.
  intros o mx s tr s' Hne Hinv Hrun; induction Hrun as [|s l s1 tr s2 Hstep Hrun IH]; [exact Hinv|].
  apply IH. eapply ostep_inv; eassumption.
Qed.

Definition once_init (o mx : nat) (s : ostate) : Prop :=
  get_obj (o_s s) o = Some (OOnce OnNone false mx) /\ (exists sm p, get_obj (o_s s) mx = Some (OMutex None sm p)) /\
  o_started s = false.

Lemma once_init_inv : forall o mx s, once_init o mx s -> OnceInv o mx s.
Proof.
  intros o mx [e st ph sd] (Hobj & (sm & p & Hm) & Hsd); cbn [o_s o_started] in *; subst sd.
  destruct (once_fields_eq o e st ph false _ _ _ Hobj) as (E1 & E2).
  assert (Hh : mx_holder mx st = None) by (unfold mx_holder; rewrite Hm; reflexivity).
  constructor; unfold held; cbn [o_s o_started o_phase]; rewrite ?E1, ?E2, ?Hh; eauto; try congruence; try discriminate.
  exists None, sm, p; exact Hm.
Qed.

(* ---- traces ---- *)
Definition is_start (l : olabel) : bool := match l with OTest _ false => true | _ => false end.
Definition is_done (l : olabel) : bool := match l with OComplete _ => true | _ => false end.
Definition is_return (l : olabel) : bool := match l with OEnter _ false | ORelease _ => true | _ => false end.
Definition count_if (f : olabel -> bool) (tr : list olabel) : nat := length (filter f tr).

Lemma count_if_snoc : forall f tr l, count_if f (tr ++ [l]) = count_if f tr + (if f l then 1 else 0).
Proof.
  intros f tr l; unfold count_if; rewrite filter_app, app_length; cbn [filter]. destruct (f l); reflexivity.
Qed.

Definition OTr (o : nat) (pre : list olabel) (s : ostate) : Prop :=
  count_if is_start pre = (if o_started s then 1 else 0) /\
  count_if is_done pre = (if once_fl o s then 1 else 0) /\
  (existsb is_return pre = true -> once_fl o s = true).

Lemma otr_step : forall o mx pre s l s',
  o <> mx -> OnceInv o mx s -> OTr o pre s -> ostep o mx s l s' -> OTr o (pre ++ [l]) s'.
Proof.
  intros o mx pre s l s' Hne Hinv (Hst & Hdn & Hret) Hstep.
  destruct (ostep_effect _ _ _ _ _ Hne Hinv Hstep) as (Heff & _).
  destruct Hinv as [_ _ Hfl Hin Hdone Hsd Hfs]. unfold held in *.
  unfold OTr. rewrite !count_if_snoc, existsb_app; cbn [existsb]. rewrite orb_false_r.
  destruct l as [t need|t|t f|t|t|]; cbn [is_start is_done is_return].
  - destruct Heff as (E1 & E2 & Hn & _ & _ & E5). rewrite E1, E5.
    split; [destruct need; lia|]. split; [destruct need; lia|].
    intros H; apply orb_prop in H; destruct H as [H|H]; [auto|].
    destruct need; [discriminate|]. rewrite Hfl; apply Hn; reflexivity.
  - destruct Heff as (E1 & _ & _ & _ & _ & E5). rewrite E1, E5, orb_false_r. split; [lia|split; [lia|exact Hret]].
  - destruct Heff as (E1 & _ & -> & Hph & Hh & _ & _ & E5). rewrite E1, E5, orb_false_r.
    split; [|split; [lia|exact Hret]].
    destruct (once_fl o s) eqn:Hf; cbn [negb]; [rewrite orb_false_r; lia|]. rewrite orb_true_r.
    destruct (o_started s) eqn:Hs; [|lia].
    destruct (Hsd eq_refl) as [H|(_ & H)]; congruence.
  - destruct Heff as (E1 & _ & Hph & Hh & _ & _ & E5). rewrite E1, E5, orb_false_r.
    destruct (Hin ltac:(rewrite Hh; discriminate) Hph) as (Hf & _). rewrite Hf in Hdn.
    split; [lia|]. split; [lia|auto].
  - destruct Heff as (E1 & _ & Hph & Hh & _ & E5). rewrite E1, E5, orb_true_r.
    split; [lia|]. split; [lia|]. intros _. apply Hdone; [rewrite Hh; discriminate|exact Hph].
  - destruct Heff as (E1 & _ & _ & _ & E5). rewrite E1, E5, orb_false_r. split; [lia|split; [lia|exact Hret]].
Qed.

Lemma orun_otr : forall o mx s tr s',
  o <> mx -> orun o mx s tr s' -> forall pre, OnceInv o mx s -> OTr o pre s -> OTr o (pre ++ tr) s'.
Proof.
  intros o mx s tr s' Hne Hrun; induction Hrun as [|s l s1 tr s2 Hstep Hrun IH]; intros pre Hinv Htr.
  - rewrite app_nil_r; exact Htr.
  - change (l :: tr) with ([l] ++ tr); rewrite app_assoc. apply IH.
    + eapply ostep_inv; eassumption.
    + eapply otr_step; eassumption.
Qed.

(* ---- once_exactly_one ---- *)
(* Over any execution from a fresh Once: at most one task finds the flag false under the lock (so at
   most one initializer is started), at most one initializer completes and it is one that was
   started, and as soon as some call_once has returned exactly one initializer has been started and
   has run to completion. *)
Theorem once_exactly_one : forall o mx s tr s',
  o <> mx -> once_init o mx s -> orun o mx s tr s' ->
  count_if is_start tr <= 1 /\ count_if is_done tr <= count_if is_start tr /\
  (existsb is_return tr = true -> count_if is_start tr = 1 /\ count_if is_done tr = 1).
Proof.
  intros o mx s tr s' Hne Hinit Hrun.
  pose proof (once_init_inv _ _ _ Hinit) as Hinv0.
  assert (Htr0 : OTr o [] s).
  { destruct Hinit as (Hobj & _ & Hsd). destruct s as [e st ph sd]; cbn [o_s o_started] in *.
    destruct (once_fields_eq o e st ph sd _ _ _ Hobj) as (_ & E2).
    unfold OTr; rewrite E2; cbn [o_started]; rewrite Hsd. cbn. repeat split; auto; discriminate. }
  pose proof (orun_otr _ _ _ _ _ Hne Hrun [] Hinv0 Htr0) as (Hst & Hdn & Hret). cbn [app] in *.
  pose proof (orun_inv _ _ _ _ _ Hne Hinv0 Hrun) as [_ _ _ _ _ _ Hfs].
  rewrite Hst, Hdn. split; [destruct (o_started s'); lia|]. split.
  - destruct (once_fl o s') eqn:Hf; [rewrite (Hfs eq_refl); lia|lia].
  - intros Hr. specialize (Hret Hr). rewrite Hret, (Hfs Hret). auto.
Qed.

(* ---- once_return_after_done ---- *)
(* call_once reaches its continuation only through once_enter answering "Complete" or through the
   release of the inner mutex after the flag test / after once_complete; at each of these moments the
   state of the Once is Complete *)
Theorem once_return_after_done : forall o mx s l s',
  o <> mx -> OnceInv o mx s -> ostep o mx s l s' -> is_return l = true ->
  is_complete (once_st o s') = true.
Proof.
  intros o mx s l s' Hne Hinv Hstep Hret.
  destruct (ostep_effect _ _ _ _ _ Hne Hinv Hstep) as (Heff & _).
  destruct Hinv as [_ _ Hfl _ Hdone _ _]. unfold held in *.
  destruct l as [t need|t|t f|t|t|]; cbn [is_return] in Hret; try discriminate.
  - destruct need; [discriminate|]. destruct Heff as (_ & E2 & Hn & _). rewrite E2; apply Hn; reflexivity.
  - destruct Heff as (_ & E2 & Hph & Hh & _). rewrite E2, <- Hfl. apply Hdone; [rewrite Hh; discriminate|exact Hph].
Qed.

(* Complete is stable *)
Theorem once_complete_stable : forall o mx s l s',
  o <> mx -> OnceInv o mx s -> ostep o mx s l s' ->
  is_complete (once_st o s) = true -> is_complete (once_st o s') = true.
Proof.
  intros o mx s l s' Hne Hinv Hstep Hc.
  destruct (ostep_effect _ _ _ _ _ Hne Hinv Hstep) as (Heff & _).
  destruct l as [t need|t|t f|t|t|].
  - destruct Heff as (_ & E2 & _). congruence.
  - destruct Heff as (_ & E2 & _). congruence.
  - destruct Heff as (_ & E2 & _). congruence.
  - destruct Heff as (_ & E2 & _). exact E2.
  - destruct Heff as (_ & E2 & _). congruence.
  - destruct Heff as (_ & E2 & _). congruence.
Qed.

(* the window between the flag test that answered false and once_complete (initializer running, or
   finished and waiting at the new scheduling point): the flag is still false, the state is not
   Complete, the mutex is held - so a call_once arriving now must take the lock (and waits), and
   is_completed answers false *)
Theorem once_init_window : forall o mx s,
  OnceInv o mx s -> held mx s -> o_phase s = PhInit ->
  once_fl o s = false /\ is_complete (once_st o s) = false /\
  (forall e' st' t need, me (o_e s) = Some t -> once_enter (o_e s) (o_s s) o = Some (e', st', need) -> need = true) /\
  (forall e' st' p, mutex_set_holder (o_e s) (o_s s) mx = Some (e', st', p) -> False).
Proof.
  intros o mx [e st ph sd] [(st0 & flag & Hobj) _ Hfl Hin _ _ _] Hheld Hph. cbn [o_e o_s o_phase] in *.
  destruct (Hin Hheld Hph) as (Hf & _). split; [exact Hf|]. split; [rewrite <- Hfl; exact Hf|]. split.
  - intros e' st' t need _ He. destruct (once_enter_spec _ _ _ _ _ _ He) as (m & s0 & fl & mx0 & _ & Hobj0 & Hcase).
    destruct (once_fields_eq o e st ph sd _ _ _ Hobj0) as (E1 & E2).
    rewrite E1, E2 in *. destruct s0 as [| |c]; [tauto|tauto|]. cbn [is_complete] in Hfl. congruence.
  - intros e' st' p Ha. destruct (mutex_set_holder_spec _ _ _ _ _ _ Ha) as (m & sm & _ & _ & Hg & _).
    apply Hheld. unfold mx_holder; cbn [o_s]; rewrite Hg; reflexivity.
Qed.

(* the lock really excludes: the flag is tested, and the initializer run, only by the holder, and the
   holder changes only through acquire (from free) and release (to free) *)
Theorem once_holder_protocol : forall o mx s l s',
  o <> mx -> OnceInv o mx s -> ostep o mx s l s' ->
  match l with
  | OAcquire t => mx_holder mx (o_s s) = None /\ mx_holder mx (o_s s') = Some t
  | ORelease t => mx_holder mx (o_s s) = Some t /\ mx_holder mx (o_s s') = None
  | OTest t _ | OComplete t => mx_holder mx (o_s s) = Some t /\ mx_holder mx (o_s s') = Some t
  | _ => mx_holder mx (o_s s') = mx_holder mx (o_s s)
  end.
Proof.
  intros o mx s l s' Hne Hinv Hstep.
  destruct (ostep_effect _ _ _ _ _ Hne Hinv Hstep) as (Heff & _).
  destruct l as [t need|t|t f|t|t|]; tauto.
Qed.

(* the real release block is an instance of the abstract release step *)
Theorem once_release_block_is_release : forall o mx e st e' st',
  o <> mx -> mutex_release_block mx e st = Some (e', st') ->
  get_obj st' o = get_obj st o /\ exists s' p', get_obj st' mx = Some (OMutex None s' p').
Proof.
  intros o mx e st e' st' Hne H.
  destruct (mutex_release_block_spec _ _ _ _ _ H) as (h & s & p & s' & _ & _ & Hg' & Hoth).
  split; [apply Hoth; exact Hne|eauto].
Qed.

(* is_completed answers true exactly in state Complete *)
Theorem once_is_completed_spec : forall e st o e' st' r,
  once_is_completed e st o = Some (e', st', r) ->
  st' = st /\ exists s flag mx, get_obj st o = Some (OOnce s flag mx) /\ r = is_complete s.
Proof.
  intros e st o e' st' r H; unfold once_is_completed in H.
  destruct (me e) as [m|]; [|discriminate].
  destruct (get_obj st o) as [[| | | | | | |s flag mx| | | | | ]|]; try discriminate.
  destruct s as [| |c].
  - inversion H; subst; split; [reflexivity|]. exists OnNone, flag, mx; auto.
  - inversion H; subst; split; [reflexivity|]. exists OnRunning, flag, mx; auto.
  - destruct (e_update_clock e m c) as [e1|]; [|discriminate].
    inversion H; subst; split; [reflexivity|]. exists (OnComplete c), flag, mx; auto.
Qed.
