(* The time limit of Runner::run (Engine/Runner.v, runner_loop_t): it is read only between iterations, it can only
   shorten the run, and the run stops at the first reading that finds it expired. *)
From Coq Require Import List NArith Bool Arith Lia.
From SV Require Import Params Clock.VClock Prim.Objects Engine.Exec Engine.Runner.
Import ListNotations.

Section Time.
Context {SS : Type}.
Variables (fs : full_scheduler SS) (ms : max_steps) (efuel : nat) (main : code) (objs : store).

Definition execs_of (r : list (world * Exec.outcome) * SS * bool) := fst (fst r).

(* never expired = no time limit *)
Lemma runner_time_never (expired : nat -> bool) :
  forall iters i0 st, (forall i, i0 <= i -> expired i = false) ->
    runner_loop_t expired i0 fs ms iters efuel main objs st = runner_loop fs ms iters efuel main objs st.
Proof.
  induction iters as [|n IH]; intros i0 st H; cbn [runner_loop_t runner_loop]; [reflexivity|].
  rewrite (H i0) by lia.
  destruct (fs_new_execution fs st) as [st1|]; [|reflexivity].
  destruct (run_exec (fs_sched fs) ms efuel main objs st1) as [[w st2] out].
  destruct (is_failure out); [reflexivity|].
  rewrite IH; [reflexivity|]. intros i Hi; apply H; lia.
Qed.

(* the run stops at the first expired reading: no more than k - i0 executions when reading k finds the limit expired *)
Lemma runner_time_bound (expired : nat -> bool) :
  forall iters i0 st k, i0 <= k -> expired k = true ->
    length (execs_of (runner_loop_t expired i0 fs ms iters efuel main objs st)) <= k - i0.
Proof.
  induction iters as [|n IH]; intros i0 st k Hle Hk; cbn [runner_loop_t]; [cbn; lia|].
  destruct (expired i0) eqn:E0; [cbn; lia|].
  assert (i0 < k) by (destruct (Nat.eq_dec i0 k); [subst; congruence|lia]).
  destruct (fs_new_execution fs st) as [st1|]; [|cbn; lia].
  destruct (run_exec (fs_sched fs) ms efuel main objs st1) as [[w st2] out].
  destruct (is_failure out); [cbn; lia|].
  specialize (IH (S i0) st2 k ltac:(lia) Hk).
  destruct (runner_loop_t expired (S i0) fs ms n efuel main objs st2) as [[rest st3] okf].
  cbn in *. lia.
Qed.

(* the limit only shortens the run: the executions performed are a prefix of those of the run without limit *)
Lemma runner_time_prefix (expired : nat -> bool) :
  forall iters i0 st, exists rest,
    execs_of (runner_loop fs ms iters efuel main objs st) =
    execs_of (runner_loop_t expired i0 fs ms iters efuel main objs st) ++ rest.
Proof.
  induction iters as [|n IH]; intros i0 st; cbn [runner_loop_t runner_loop]; [exists []; reflexivity|].
  destruct (expired i0); [eexists; cbn; reflexivity|].
  destruct (fs_new_execution fs st) as [st1|]; [|exists []; reflexivity].
  destruct (run_exec (fs_sched fs) ms efuel main objs st1) as [[w st2] out].
  destruct (is_failure out); [exists []; reflexivity|].
  destruct (IH (S i0) st2) as [rest Hr].
  destruct (runner_loop_t expired (S i0) fs ms n efuel main objs st2) as [[r1 s1] o1].
  destruct (runner_loop fs ms n efuel main objs st2) as [[r2 s2] o2].
  exists rest. cbn in *. now rewrite Hr.
Qed.

(* an iteration is started only after a reading that found the limit not expired *)
Lemma runner_time_started (expired : nat -> bool) :
  forall iters i0 st j, j < length (execs_of (runner_loop_t expired i0 fs ms iters efuel main objs st)) ->
    expired (i0 + j) = false.
Proof.
  induction iters as [|n IH]; intros i0 st j; cbn [runner_loop_t]; [cbn; lia|].
  destruct (expired i0) eqn:E0; [cbn; lia|].
  destruct (fs_new_execution fs st) as [st1|]; [|cbn; lia].
  destruct (run_exec (fs_sched fs) ms efuel main objs st1) as [[w st2] out].
  destruct (is_failure out).
  - cbn. intros Hj. assert (j = 0) by lia. subst. now rewrite Nat.add_0_r.
  - specialize (IH (S i0) st2).
    destruct (runner_loop_t expired (S i0) fs ms n efuel main objs st2) as [[rest st3] okf].
    cbn in *. intros Hj. destruct j as [|j]; [now rewrite Nat.add_0_r|].
    replace (i0 + S j) with (S i0 + j) by lia. apply IH. lia.
Qed.
End Time.

From SV Require Import Engine.RunStmt.

Lemma run_ends_proof : stmt_run_ends.
Proof.
  intros SS fs ms efuel main objs expired.
  induction iters as [|n IH]; intros i0 st execs st' H; cbn [runner_loop_t] in H; [congruence|].
  destruct (expired i0) eqn:E0.
  { inversion H; subst. right. cbn. now rewrite Nat.add_0_r. }
  destruct (fs_new_execution fs st) as [st1|] eqn:En.
  2:{ inversion H; subst. now left. }
  destruct (run_exec (fs_sched fs) ms efuel main objs st1) as [[w st2] out].
  destruct (is_failure out); [congruence|].
  destruct (runner_loop_t expired (S i0) fs ms n efuel main objs st2) as [[rest st3] okf] eqn:Er.
  inversion H; subst. destruct (IH _ _ _ _ Er) as [Hn|Ht]; [now left|right].
  cbn [length]. replace (i0 + S (length rest)) with (S i0 + length rest) by lia. exact Ht.
Qed.

Lemma run_first_failure_proof : stmt_run_first_failure.
Proof.
  intros SS fs ms efuel main objs expired.
  induction iters as [|n IH]; intros i0 st execs st' okf H; cbn [runner_loop_t] in H.
  { inversion H; subst. split; [intros j x Hj; cbn in Hj; lia|intros x _ []]. }
  destruct (expired i0).
  { inversion H; subst. split; [intros j x Hj; cbn in Hj; lia|intros x _ []]. }
  destruct (fs_new_execution fs st) as [st1|].
  2:{ inversion H; subst. split; [intros j x Hj; cbn in Hj; lia|intros x _ []]. }
  destruct (run_exec (fs_sched fs) ms efuel main objs st1) as [[w st2] out].
  destruct (is_failure out) eqn:Ef.
  { inversion H; subst. split; [intros j x Hj; cbn in Hj; lia|intros x Hc; congruence]. }
  destruct (runner_loop_t expired (S i0) fs ms n efuel main objs st2) as [[rest st3] okf'] eqn:Er.
  inversion H; subst. destruct (IH _ _ _ _ _ Er) as [H1 H2]. split.
  - intros j x Hj Hn. destruct j as [|j]; cbn in Hn.
    + inversion Hn; subst. exact Ef.
    + apply (H1 j x); [cbn in Hj; lia|exact Hn].
  - intros x Hok [Hx|Hx]; [subst; exact Ef|now apply H2].
Qed.

Lemma time_never_proof : stmt_time_never.
Proof. intros SS fs ms efuel main objs expired iters i0 st H. now apply runner_time_never. Qed.
Lemma time_bound_proof : stmt_time_bound.
Proof. intros SS fs ms efuel main objs expired iters i0 st k H1 H2. now apply (runner_time_bound fs ms efuel main objs expired iters i0 st k). Qed.
Lemma time_started_proof : stmt_time_started.
Proof. intros SS fs ms efuel main objs expired iters i0 st j H. now apply (runner_time_started fs ms efuel main objs expired iters i0 st j). Qed.
Lemma time_prefix_proof : stmt_time_prefix.
Proof. intros SS fs ms efuel main objs expired iters i0 st. apply (runner_time_prefix fs ms efuel main objs expired iters i0 st). Qed.
