From Coq Require Import List NArith Lia Bool Arith.
From SV Require Import Params Codec.Varint Codec.Schedule Proofs.VarintProofs.
Import ListNotations.
Open Scope N_scope.

(* ---------------- bits ---------------- *)
Lemma bits_le_length w v : length (bits_le w v) = w.
Proof. revert v; induction w as [|w IH]; intros v; cbn; [reflexivity|]. now rewrite IH. Qed.

Lemma from_bits_le_bits_le w v : from_bits_le (bits_le w v) = v mod 2 ^ N.of_nat w.
Proof.
  revert v; induction w as [|w IH]; intros v.
  - cbn. now rewrite N.mod_1_r.
  - cbn [bits_le from_bits_le]. rewrite IH.
    replace (N.of_nat (S w)) with (1 + N.of_nat w) by lia.
    rewrite N.pow_add_r. change (2^1) with 2.
    rewrite N.div2_div.
    set (P := 2 ^ N.of_nat w). assert (P <> 0) by (apply N.pow_nonzero; lia).
    rewrite N.mod_mul_r by lia.
    assert ((if N.odd v then 1 else 0) = v mod 2) as ->.
    { rewrite <- N.bit0_mod. rewrite N.bit0_odd. destruct (N.odd v); reflexivity. }
    lia.
Qed.

Lemma bits_le_from_bits_le n c : (length c <= n)%nat ->
  bits_le n (from_bits_le c) = c ++ repeat false (n - length c).
Proof.
  revert c; induction n as [|n IH]; intros c Hc.
  - destruct c; cbn in *; [reflexivity|lia].
  - destruct c as [|b c].
    + cbn [from_bits_le length app Nat.sub bits_le]. change (N.odd 0) with false. change (N.div2 0) with 0.
      specialize (IH [] ltac:(cbn; lia)). cbn [from_bits_le length app] in IH.
      rewrite Nat.sub_0_r in IH. rewrite IH. reflexivity.
    + cbn [from_bits_le length bits_le app]. cbn [length] in Hc.
      replace (S n - S (length c))%nat with (n - length c)%nat by lia.
      set (r := from_bits_le c).
      assert (N.odd ((if b then 1 else 0) + 2 * r) = b) as ->.
      { destruct b.
        - rewrite N.odd_add_mul_2. reflexivity.
        - rewrite N.add_0_l, N.odd_mul. reflexivity. }
      assert (N.div2 ((if b then 1 else 0) + 2 * r) = r) as ->.
      { rewrite N.div2_div. destruct b.
        - replace (1 + 2 * r) with (r * 2 + 1) by lia. rewrite N.div_add_l by lia. change (1 / 2) with 0. lia.
        - rewrite N.add_0_l, N.mul_comm. apply N.div_mul; lia. }
      subst r. rewrite IH by lia. reflexivity.
Qed.

(* ---------------- bytes <-> bits ---------------- *)
Lemma from_bits_le_lt l : from_bits_le l < 2 ^ N.of_nat (length l).
Proof.
  induction l as [|b l IH]; [cbn; lia|].
  cbn [from_bits_le length]. replace (N.of_nat (S (length l))) with (1 + N.of_nat (length l)) by lia.
  rewrite N.pow_add_r. change (2^1) with 2. destruct b; lia.
Qed.

Lemma firstn_skipn_cons8 (l : list bool) : l = firstn 8 l ++ skipn 8 l.
Proof. symmetry; apply firstn_skipn. Qed.

Lemma bits_bytes_bits : forall fuel l, (length l <= fuel)%nat ->
  exists pad, bytes_to_bits (bits_to_bytes fuel l) = l ++ pad /\ Forall (fun b => b = false) pad.
Proof.
  induction fuel as [|f IH]; intros l Hl.
  - destruct l; [|cbn in Hl; lia]. exists []. split; [reflexivity|constructor].
  - destruct l as [|b l'].
    + exists []. split; [reflexivity|constructor].
    + set (l := b :: l') in *. cbn [bits_to_bytes]. unfold l at 1. fold l.
      cbn [bytes_to_bits flat_map]. fold (bytes_to_bits (bits_to_bytes f (skipn 8 l))).
      unfold byte_bits. rewrite bits_le_from_bits_le by (rewrite firstn_length; lia).
      destruct (Nat.le_gt_cases 8 (length l)) as [Hge|Hlt].
      * rewrite firstn_length, Nat.min_l by lia. cbn [Nat.sub repeat]. rewrite app_nil_r.
        destruct (IH (skipn 8 l)) as (pad & Hp & Hz).
        { rewrite skipn_length. unfold l in *. cbn [length] in *. lia. }
        exists pad. split; [|exact Hz]. rewrite Hp, app_assoc, firstn_skipn. reflexivity.
      * rewrite firstn_all2 by lia. rewrite skipn_all2 by lia.
        destruct f; cbn [bits_to_bytes bytes_to_bits flat_map]; rewrite app_nil_r;
          (eexists; split; [reflexivity|]); apply Forall_forall; intros x Hx; apply repeat_spec in Hx; exact Hx.
Qed.

Lemma bits_to_bytes_bytes : forall fuel l, Forall (fun b => b < 256) (bits_to_bytes fuel l).
Proof.
  induction fuel as [|f IH]; intros l; cbn [bits_to_bytes]; [constructor|].
  destruct l as [|b l']; [constructor|]. constructor; [|apply IH].
  eapply N.lt_le_trans; [apply from_bits_le_lt|].
  change 256 with (2 ^ 8). apply N.pow_le_mono_r; [lia|]. rewrite firstn_length. lia.
Qed.

Lemma bytes_to_bits_length bs : length (bytes_to_bits bs) = (8 * length bs)%nat.
Proof.
  induction bs as [|b bs IH]; [reflexivity|].
  cbn [bytes_to_bits flat_map length]. rewrite app_length. fold (bytes_to_bits bs). rewrite IH.
  unfold byte_bits. rewrite bits_le_length. lia.
Qed.

(* ---------------- hex ---------------- *)
Lemma hex_byte_ok_b : forallb (fun b =>
   match hex_byte b with
   | [a; c] => match unhex_digit a, unhex_digit c with
               | Some x, Some y => N.eqb (16 * x + y) b && negb (is_ws a) && negb (is_ws c)
               | _, _ => false end
   | _ => false end) (map N.of_nat (seq 0 256)) = true.
Proof. vm_compute. reflexivity. Qed.

Lemma in_range_256 b : b < 256 -> In b (map N.of_nat (seq 0 256)).
Proof. intros H. replace b with (N.of_nat (N.to_nat b)) by apply N2Nat.id. apply in_map, in_seq. lia. Qed.

Lemma hex_byte_ok b : b < 256 -> exists a c x y, hex_byte b = [a; c] /\ unhex_digit a = Some x /\
  unhex_digit c = Some y /\ 16 * x + y = b /\ is_ws a = false /\ is_ws c = false.
Proof.
  intros Hb. pose proof hex_byte_ok_b as H. rewrite forallb_forall in H.
  specialize (H b (in_range_256 b Hb)).
  destruct (hex_byte b) as [|a [|c [|? ?]]] eqn:Hh; try discriminate.
  destruct (unhex_digit a) as [x|] eqn:Ea; try discriminate.
  destruct (unhex_digit c) as [y|] eqn:Ec; try discriminate.
  apply andb_true_iff in H as [H Hc]. apply andb_true_iff in H as [H Ha].
  apply N.eqb_eq in H. apply negb_true_iff in Ha, Hc.
  exists a, c, x, y. repeat split; auto.
Qed.

Lemma unhex_hex bs : Forall (fun b => b < 256) bs -> unhex (hex bs) = Some bs.
Proof.
  induction 1 as [|b bs Hb _ IH]; [reflexivity|].
  unfold hex. cbn [flat_map]. fold (hex bs).
  destruct (hex_byte_ok b Hb) as (a & c & x & y & -> & Ha & Hc & Hxy & _).
  cbn [app unhex]. rewrite Ha, Hc, IH, Hxy. reflexivity.
Qed.

Lemma hex_no_ws bs : Forall (fun b => b < 256) bs -> strip_ws (hex bs) = hex bs.
Proof.
  induction 1 as [|b bs Hb _ IH]; [reflexivity|].
  unfold hex. cbn [flat_map]. fold (hex bs).
  destruct (hex_byte_ok b Hb) as (a & c & x & y & -> & _ & _ & _ & Wa & Wc).
  cbn [app strip_ws filter]. rewrite Wa, Wc. cbn [negb]. fold (strip_ws (hex bs)). now rewrite IH.
Qed.

(* ---------------- wrap ---------------- *)
Lemma strip_ws_app a b : strip_ws (a ++ b) = strip_ws a ++ strip_ws b.
Proof. apply filter_app. Qed.

Lemma strip_wrap fuel l : strip_ws (wrap fuel l) = strip_ws l.
Proof.
  revert l; induction fuel as [|f IH]; intros l; cbn [wrap]; [reflexivity|].
  destruct (Nat.leb (length l) LINE_WIDTH); [reflexivity|].
  rewrite strip_ws_app. cbn [strip_ws filter]. change (is_ws 10) with true. cbn [negb].
  fold (strip_ws (wrap f (skipn LINE_WIDTH l))). rewrite IH, <- strip_ws_app, firstn_skipn. reflexivity.
Qed.

Lemma strip_to_text bs : Forall (fun b => b < 256) bs -> strip_ws (to_text bs) = hex bs.
Proof. intros H. unfold to_text. rewrite strip_wrap. now apply hex_no_ws. Qed.

Lemma strip_idem t : strip_ws (strip_ws t) = strip_ws t.
Proof.
  induction t as [|c t IH]; [reflexivity|]. cbn [strip_ws filter].
  destruct (is_ws c) eqn:E; cbn [negb]; [exact IH|]. cbn [filter]. rewrite E. cbn [negb].
  fold (strip_ws t). fold (strip_ws (strip_ws t)). now rewrite IH.
Qed.

(* ---------------- steps ---------------- *)
Definition fits (w : nat) (s : step) : Prop := match s with Task id => id < 2 ^ N.of_nat w | Random => True end.

Lemma read_pack : forall ss w rest, (1 <= w <= 64)%nat -> Forall (fits w) ss ->
  read_steps (length ss) w (pack w ss ++ rest) = ROk ss.
Proof.
  induction ss as [|s ss IH]; intros w rest Hw Hf; [reflexivity|].
  inversion Hf as [|? ? Hs Hss]; subst.
  cbn [length read_steps pack flat_map]. fold (pack w ss).
  destruct s as [id|]; cbn [step_bits app].
  - unfold load_range. rewrite <- app_assoc, app_length, bits_le_length.
    assert (Nat.ltb (w + length (pack w ss ++ rest)) w = false) as -> by (apply Nat.ltb_ge; lia).
    assert ((Nat.eqb w 0 || Nat.ltb 64 w)%bool = false) as ->.
    { apply orb_false_iff. split; [apply Nat.eqb_neq; lia|apply Nat.ltb_ge; lia]. }
    rewrite firstn_app, bits_le_length, Nat.sub_diag, firstn_O, app_nil_r.
    rewrite firstn_all2 by (rewrite bits_le_length; lia).
    rewrite from_bits_le_bits_le. cbn [fits] in Hs. rewrite N.mod_small by exact Hs.
    rewrite skipn_app, bits_le_length, Nat.sub_diag, skipn_O.
    rewrite skipn_all2 by (rewrite bits_le_length; lia). cbn [app].
    rewrite IH by assumption. reflexivity.
  - rewrite IH by assumption. reflexivity.
Qed.

Lemma read_steps_sound : forall n w bits ss, read_steps n w bits = ROk ss ->
  length ss = n /\ Forall (fits w) ss /\ exists rest, bits = pack w ss ++ rest.
Proof.
  induction n as [|n IH]; intros w bits ss H.
  - cbn in H. inversion H; subst. repeat split; [constructor|exists bits; reflexivity].
  - cbn [read_steps] in H. destruct bits as [|b r]; [discriminate|]. destruct b.
    + destruct (read_steps n w r) as [ss'| |] eqn:E; try discriminate. inversion H; subst.
      destruct (IH _ _ _ E) as (L & F & rest & ->).
      repeat split; [cbn; lia|constructor; [exact I|exact F]|exists rest; reflexivity].
    + unfold load_range in H. destruct (Nat.ltb (length r) w) eqn:Hl; [discriminate|].
      destruct (Nat.eqb w 0 || Nat.ltb 64 w)%bool; [discriminate|].
      destruct (read_steps n w (skipn w r)) as [ss'| |] eqn:E; try discriminate. inversion H; subst.
      destruct (IH _ _ _ E) as (L & F & rest & Hr). apply Nat.ltb_ge in Hl.
      assert (length (firstn w r) = w) as Hfl by (rewrite firstn_length; lia).
      repeat split.
      * cbn; lia.
      * constructor; [|exact F]. cbn [fits]. rewrite <- Hfl at 2. apply from_bits_le_lt.
      * exists rest. cbn [pack flat_map step_bits app]. fold (pack w ss').
        rewrite bits_le_from_bits_le by lia. rewrite Hfl, Nat.sub_diag. cbn [repeat]. rewrite app_nil_r.
        rewrite <- app_assoc, <- Hr, firstn_skipn. reflexivity.
Qed.

Lemma read_steps_no_crash : forall n w bits, (1 <= w <= 64)%nat -> read_steps n w bits <> RCrash.
Proof.
  induction n as [|n IH]; intros w bits Hw; cbn [read_steps]; [discriminate|].
  destruct bits as [|b r]; [discriminate|]. destruct b.
  - specialize (IH w r Hw). destruct (read_steps n w r); congruence.
  - unfold load_range. destruct (Nat.ltb (length r) w); [discriminate|].
    assert ((Nat.eqb w 0 || Nat.ltb 64 w)%bool = false) as ->.
    { apply orb_false_iff. split; [apply Nat.eqb_neq; lia|apply Nat.ltb_ge; lia]. }
    specialize (IH w (skipn w r) Hw). destruct (read_steps n w (skipn w r)); congruence.
Qed.

(* ---------------- id width ---------------- *)
Lemma max_id_ge ss : Forall (fun s => match s with Task id => id <= max_id ss | Random => True end) ss.
Proof.
  induction ss as [|s ss IH]; [constructor|]. constructor.
  - unfold max_id. destruct s; cbn [fold_right]; [lia|exact I].
  - eapply Forall_impl; [|exact IH]. intros [id|] H; [|exact I]. unfold max_id in *. destruct s; cbn [fold_right]; lia.
Qed.

Lemma max_id_lt ss : Forall wf_step ss -> max_id ss < 2^64.
Proof. induction 1 as [|s ss Hs _ IH]; [cbn; lia|]. unfold max_id in *. destruct s; cbn [fold_right wf_step] in *; lia. Qed.

Lemma id_bits_range ss : Forall wf_step ss -> (1 <= id_bits ss <= 64)%nat.
Proof.
  intros H. unfold id_bits. pose proof (max_id_lt ss H) as Hm.
  assert (N.size (max_id ss) <= 64).
  { destruct (N.eq_dec (max_id ss) 0) as [->|Hz]; [cbn; lia|].
    rewrite N.size_log2 by exact Hz. apply N.le_succ_l. apply N.log2_lt_pow2; lia. }
  lia.
Qed.

Lemma id_bits_fits ss : Forall (fits (id_bits ss)) ss.
Proof.
  pose proof (max_id_ge ss) as H. eapply Forall_impl; [|exact H].
  intros [id|] Hid; [|exact I]. cbn [fits].
  eapply N.le_lt_trans; [exact Hid|].
  eapply N.lt_le_trans; [apply N.size_gt|].
  apply N.pow_le_mono_r; [lia|]. unfold id_bits. lia.
Qed.

(* ---------------- main theorems ---------------- *)
Lemma pack_length_le w ss : (length ss <= length (pack w ss))%nat.
Proof.
  induction ss as [|s ss IH]; [cbn; lia|]. cbn [pack flat_map length]. fold (pack w ss).
  rewrite app_length. destruct s; cbn [step_bits length]; lia.
Qed.

Lemma ser_bytes_bytes s : SCHEDULE_MAGIC < 256 -> Forall (fun b => b < 256) (ser_bytes s).
Proof.
  intros Hm. unfold ser_bytes. constructor; [exact Hm|].
  repeat (apply Forall_app; split); try apply enc_bytes. apply bits_to_bytes_bytes.
Qed.

Lemma magic_byte : SCHEDULE_MAGIC < 256.
Proof. vm_compute. reflexivity. Qed.

Theorem deser_bytes_ser_bytes s : wf s -> deser_bytes (ser_bytes s) = Decoded s.
Proof.
  intros (Hseed & Hsteps & Hlen). destruct s as [sd ss]. cbn [seed steps] in *.
  unfold ser_bytes, deser_bytes. cbn [seed steps].
  rewrite N.eqb_refl. cbn [negb].
  pose proof (id_bits_range ss Hsteps) as Hw. set (w := id_bits ss) in *.
  rewrite varint_roundtrip by (change (2^64) with 18446744073709551616; lia).
  assert ((N.eqb (N.of_nat w) 0 || N.ltb 64 (N.of_nat w))%bool = false) as ->.
  { apply orb_false_iff. split; [apply N.eqb_neq; lia|apply N.ltb_ge; lia]. }
  rewrite varint_roundtrip by exact Hlen.
  rewrite varint_roundtrip by exact Hseed.
  set (enc := pack w ss ++ zeros (length ss * (1 + w) - length (pack w ss))).
  destruct (bits_bytes_bits (length enc) enc (le_n _)) as (pad & Hp & _).
  rewrite Hp. rewrite !Nat2N.id.
  assert (N.ltb (N.of_nat (length (enc ++ pad))) (N.of_nat (length ss)) = false) as ->.
  { apply N.ltb_ge. unfold enc. rewrite !app_length. pose proof (pack_length_le w ss). lia. }
  unfold enc. rewrite <- !app_assoc. rewrite read_pack; [reflexivity|exact Hw|apply id_bits_fits].
Qed.

Theorem roundtrip s : wf s -> deser (ser s) = Decoded s.
Proof.
  intros H. unfold deser, ser. rewrite strip_to_text by (apply ser_bytes_bytes, magic_byte).
  rewrite unhex_hex by (apply ser_bytes_bytes, magic_byte). now apply deser_bytes_ser_bytes.
Qed.

(* any text that differs from the printed form only by white space decodes to the same schedule *)
Theorem roundtrip_ws s t : wf s -> strip_ws t = strip_ws (ser s) -> deser t = Decoded s.
Proof.
  intros H E. pose proof (roundtrip s H) as R. unfold deser in *. now rewrite E.
Qed.

Theorem deser_total t : deser t <> Crash.
Proof.
  unfold deser. destruct (unhex (strip_ws t)) as [bytes|]; [|discriminate].
  unfold deser_bytes. destruct bytes as [|v r]; [discriminate|].
  destruct (negb (N.eqb v SCHEDULE_MAGIC)); [discriminate|].
  destruct (dec r) as [[w r1]|]; [|discriminate].
  destruct (N.eqb w 0 || N.ltb 64 w)%bool eqn:Hw; [discriminate|].
  destruct (dec r1) as [[len r2]|]; [|discriminate].
  destruct (dec r2) as [[sd r3]|]; [|discriminate].
  destruct (N.ltb _ len); [discriminate|].
  apply orb_false_iff in Hw as [H0 H64]. apply N.eqb_neq in H0. apply N.ltb_ge in H64.
  pose proof (read_steps_no_crash (N.to_nat len) (N.to_nat w) (bytes_to_bits r3) ltac:(lia)) as Hn.
  destruct (read_steps _ _ _); congruence.
Qed.

(* soundness: a schedule is produced only from bytes that carry its complete encoding *)
Theorem deser_sound t s : deser t = Decoded s ->
  exists w r0 r1 r2 r3 rest,
    unhex (strip_ws t) = Some (SCHEDULE_MAGIC :: r0) /\
    dec r0 = Some (N.of_nat w, r1) /\ (1 <= w <= 64)%nat /\
    dec r1 = Some (N.of_nat (length (steps s)), r2) /\
    dec r2 = Some (seed s, r3) /\
    bytes_to_bits r3 = pack w (steps s) ++ rest /\ Forall (fits w) (steps s).
Proof.
  unfold deser. destruct (unhex (strip_ws t)) as [bytes|]; [|discriminate].
  unfold deser_bytes. destruct bytes as [|v r]; [discriminate|].
  destruct (N.eqb v SCHEDULE_MAGIC) eqn:Hv; cbn [negb]; [|discriminate]. apply N.eqb_eq in Hv. subst v.
  destruct (dec r) as [[w r1]|] eqn:D0; [|discriminate].
  destruct (N.eqb w 0 || N.ltb 64 w)%bool eqn:Hw; [discriminate|].
  destruct (dec r1) as [[len r2]|] eqn:D1; [|discriminate].
  destruct (dec r2) as [[sd r3]|] eqn:D2; [|discriminate].
  destruct (N.ltb _ len); [discriminate|].
  destruct (read_steps _ _ _) as [ss| |] eqn:R; try discriminate.
  intros H; inversion H; subst s; clear H. cbn [seed steps].
  apply orb_false_iff in Hw as [H0 H64]. apply N.eqb_neq in H0. apply N.ltb_ge in H64.
  destruct (read_steps_sound _ _ _ _ R) as (L & F & rest & Hb).
  exists (N.to_nat w), r, r1, r2, r3, rest. rewrite N2Nat.id, L, N2Nat.id.
  repeat split; auto; lia.
Qed.

(* rejection of the malformed classes named in the property *)
Theorem reject_empty t : strip_ws t = [] -> deser t = Invalid.
Proof. intros E. unfold deser. rewrite E. reflexivity. Qed.

Theorem reject_not_hex t : unhex (strip_ws t) = None -> deser t = Invalid.
Proof. intros E. unfold deser. now rewrite E. Qed.

Lemma unhex_odd : forall n cs, length cs = S (2 * n) -> unhex cs = None.
Proof.
  induction n as [|n IH]; intros cs H.
  - destruct cs as [|a [|b r]]; cbn in H; try lia. reflexivity.
  - destruct cs as [|a [|b r]]; cbn in H; try lia. cbn [unhex].
    rewrite (IH r) by lia. destruct (unhex_digit a), (unhex_digit b); reflexivity.
Qed.

Lemma unhex_bad_char : forall cs c, In c cs -> unhex_digit c = None -> unhex cs = None.
Proof.
  fix IH 1. intros cs c Hin Hc. destruct cs as [|a [|b r]].
  - destruct Hin.
  - reflexivity.
  - cbn [unhex]. destruct Hin as [->|[->|Hin]].
    + rewrite Hc. reflexivity.
    + rewrite Hc. destruct (unhex_digit a); reflexivity.
    + rewrite (IH r c Hin Hc). destruct (unhex_digit a), (unhex_digit b); reflexivity.
Qed.

Theorem reject_odd t n : length (strip_ws t) = S (2 * n) -> deser t = Invalid.
Proof. intros H. apply reject_not_hex. eapply unhex_odd; eassumption. Qed.

Theorem reject_bad_char t c : In c (strip_ws t) -> unhex_digit c = None -> deser t = Invalid.
Proof. intros H1 H2. apply reject_not_hex. eapply unhex_bad_char; eassumption. Qed.

Theorem reject_version t v r : unhex (strip_ws t) = Some (v :: r) -> v <> SCHEDULE_MAGIC -> deser t = Invalid.
Proof.
  intros E Hv. unfold deser. rewrite E. unfold deser_bytes.
  apply N.eqb_neq in Hv. rewrite Hv. reflexivity.
Qed.

(* cut short: fewer payload bits than the header demands *)
Lemma read_steps_short : forall n w bits ss, read_steps n w bits = ROk ss -> (length (pack w ss) <= length bits)%nat.
Proof.
  intros n w bits ss H. destruct (read_steps_sound _ _ _ _ H) as (_ & _ & rest & ->).
  rewrite app_length. lia.
Qed.

Theorem reject_cut_payload t s : deser t = Decoded s ->
  forall w r0 r1 r2 r3, unhex (strip_ws t) = Some (SCHEDULE_MAGIC :: r0) -> dec r0 = Some (w, r1) ->
    dec r1 = Some (N.of_nat (length (steps s)), r2) -> dec r2 = Some (seed s, r3) ->
    (length (pack (N.to_nat w) (steps s)) <= 8 * length r3)%nat.
Proof.
  intros H w r0 r1 r2 r3 E D0 D1 D2.
  destruct (deser_sound t s H) as (w' & r0' & r1' & r2' & r3' & rest & E' & D0' & Hw & D1' & D2' & Hb & _).
  rewrite E in E'. inversion E'; subst r0'. rewrite D0 in D0'. inversion D0'; subst.
  rewrite D1 in D1'. inversion D1'; subst. rewrite D2 in D2'. inversion D2'; subst.
  rewrite Nat2N.id. rewrite <- bytes_to_bits_length, Hb, app_length. lia.
Qed.
