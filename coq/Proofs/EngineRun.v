(* The invariant is preserved by run_seg (induction on the code tree) and run_loop (induction on
   fuel); the postcondition of a whole run.  No Admitted / Axiom. *)
From Coq Require Import List NArith Bool Arith Lia.
From SV Require Import Clock.VClock Prim.Objects Engine.Exec Engine.Inv Sched.Replay Engine.Stmt
  Proofs.EngineBase Proofs.SchedSpec Proofs.EngineInv.
Import ListNotations.

Lemma sched_eqb_some : forall t n, sched_eqb (SSome t) n = true -> n = SSome t.
Proof.
  intros t n H. destruct n; cbn in H; try discriminate. apply Nat.eqb_eq in H; subst; reflexivity.
Qed.

(* ------------------------------------------------------------------ *)
(* the end-of-execution tests                                          *)
(* ------------------------------------------------------------------ *)
Definition att_unfinished (tk : task) : bool := negb (is_finished tk) && negb (t_detached tk).

Lemma fin_dead : forall e, WF e -> fin_cond e = true -> existsb att_unfinished (tasks e) = true -> Dead e.
Proof.
  intros e W Hf Hx. apply existsb_exists in Hx. destruct Hx as (tk & Hin & Hu).
  apply In_nth_error in Hin. destruct Hin as [t Ht].
  unfold att_unfinished in Hu. apply andb_true_iff in Hu. destruct Hu as [Hu1 Hu2].
  apply negb_true_iff in Hu1. apply negb_true_iff in Hu2.
  split. { exists t, tk. auto. }
  unfold fin_cond in Hf. apply orb_true_iff in Hf. destruct Hf as [Hf|Hf].
  - apply negb_true_iff in Hf. apply any_runnable_false; auto.
  - exfalso. apply andb_true_iff in Hf. destruct Hf as [Hf _]. apply negb_true_iff in Hf.
    assert (Hl : In t (live e)).
    { apply (WF_live_in _ _ W). unfold unfinished, get_task. rewrite Ht, Hu1. reflexivity. }
    assert (Hc : unfinished_attached e = true).
    { unfold unfinished_attached. apply existsb_exists. exists t; split; auto.
      unfold get_task; rewrite Ht, Hu2. reflexivity. }
    congruence.
Qed.

Lemma pass_complete : forall e, existsb att_unfinished (tasks e) = false -> Complete e.
Proof.
  intros e Hx t tk Hg Hd. destruct (is_finished tk) eqn:Hf; [reflexivity|]. exfalso.
  assert (Hc : existsb att_unfinished (tasks e) = true).
  { apply existsb_exists. exists tk; split.
    - eapply nth_error_In; exact Hg.
    - unfold att_unfinished. rewrite Hf, Hd. reflexivity. }
  congruence.
Qed.

(* what a decision tells about the state in which it was taken *)
Lemma decision_live : forall e, WF e -> fin_cond e = false ->
  ~ Dead e /\ (exists t tk, get_task e t = Some tk /\ is_runnable tk = true)
  /\ ~ (Complete e /\ forall t tk, get_task e t = Some tk -> is_runnable tk = true -> t_detached tk = true).
Proof.
  intros e W Hf. apply fin_cond_false in Hf. destruct Hf as [Ha Hb].
  apply any_runnable_true in Ha. destruct Ha as (t & tk & Hl & Hg & Hr).
  split; [|split].
  - intros [_ Hd]. rewrite (Hd _ _ Hg) in Hr. discriminate.
  - eauto.
  - intros [Hc Hdet]. destruct Hb as [Hb|Hb].
    + unfold unfinished_attached in Hb. apply existsb_exists in Hb. destruct Hb as (t' & Hl' & Hb).
      destruct (get_task e t') as [tk'|] eqn:Hg'; [|discriminate].
      apply negb_true_iff in Hb.
      apply (WF_live_in _ _ W) in Hl'. unfold unfinished in Hl'. rewrite Hg' in Hl'.
      rewrite (Hc _ _ Hg' Hb) in Hl'. discriminate.
    + unfold all_runnable_detached in Hb.
      assert (Hall : forallb (fun t => match get_task e t with
                                      | Some tk => negb (is_runnable tk) || t_detached tk | None => true end) (live e) = true).
      { apply forallb_forall. intros t' _. destruct (get_task e t') as [tk'|] eqn:Hg'; [|reflexivity].
        destruct (is_runnable tk') eqn:Hr'; [|reflexivity]. cbn. apply (Hdet _ _ Hg' Hr'). }
      congruence.
Qed.

Lemma ends_fin_cond : forall e, WF e ->
  (Dead e \/ ~ (exists t tk, get_task e t = Some tk /\ is_runnable tk = true)
   \/ (Complete e /\ forall t tk, get_task e t = Some tk -> is_runnable tk = true -> t_detached tk = true)) ->
  fin_cond e = true.
Proof.
  intros e W H. destruct (fin_cond e) eqn:Hf; [reflexivity|]. exfalso.
  destruct (decision_live _ W Hf) as (H1 & H2 & H3).
  destruct H as [H|[H|H]]; tauto.
Qed.

Definition rec_le (e e' : exec) : Prop := length (recorded e) <= length (recorded e').
Lemma rec_le_refl : forall e, rec_le e e.
Proof. intros e; unfold rec_le; lia. Qed.
Lemma rec_le_trans : forall a b c, rec_le a b -> rec_le b c -> rec_le a c.
Proof. unfold rec_le; intros; lia. Qed.
Lemma rec_le_frame : forall e e', same_frame e e' -> rec_le e e'.
Proof. intros e e' (_ & _ & A3 & _). unfold rec_le. rewrite A3. lia. Qed.

Lemma spawn_recorded : forall e e' tid, rok e -> spawn_thread_now e = Some (e', tid) -> recorded e' = recorded e.
Proof.
  intros e e' tid Hr H. destruct (spawn_inv _ _ _ Hr H) as (e2 & c & (_ & _ & A3 & _) & _ & ->). exact A3.
Qed.

Lemma finish_recorded : forall e e3, finish_current e = Some e3 -> recorded e3 = recorded e.
Proof.
  intros e e3 H. unfold finish_current in H. destruct (me e) as [t|]; [|discriminate].
  destruct (get_task e t) as [tk|]; [|discriminate]. destruct (is_finished tk); [discriminate|].
  destruct (upd_task e t (fun tk => set_state tk Finished)) as [e4|] eqn:Hu; [|discriminate].
  inversion H; subst. apply upd_task_inv in Hu. destruct Hu as (tk' & _ & ->). reflexivity.
Qed.

Section Run.
Context {SS : Type} (sch : scheduler SS) (ms : max_steps).

Notation LInv := (LInv sch ms).
Notation LInvC := (LInvC sch ms).
Notation TInv := (TInv sch ms).

Lemma running_TInv : forall w t, LInv w -> running (w_e w) (w_trace w) t -> TInv (w_e w) (w_trace w).
Proof.
  intros w t L (_ & Hn & _). eapply LInv_TInv; [exact L|]. rewrite Hn; discriminate.
Qed.

(* ------------------------------------------------------------------ *)
(* thread::switch()                                                    *)
(* ------------------------------------------------------------------ *)
Lemma do_switch_inv : forall w st t, LInv w -> running (w_e w) (w_trace w) t ->
  match do_switch sch ms w st with
  | SwContinue w' st' => LInv w' /\ running (w_e w') (w_trace w') t /\ rec_le (w_e w) (w_e w')
  | SwYield w' st' => LInv w' /\ current (w_e w') = SSome t /\ rec_le (w_e w) (w_e w')
  | SwPanic w' st' => TInv (w_e w') (w_trace w') /\ current (w_e w') = SSome t /\ rec_le (w_e w) (w_e w')
  end.
Proof.
  intros w st t L R. unfold do_switch. cbv zeta.
  destruct (panicking (w_e w) && negb (in_cleanup (w_e w))).
  { split; [exact L|]. split; [exact (proj1 R)|apply rec_le_refl]. }
  destruct (schedule sch ms (w_e w) st) as [[[err e1] st1] evs] eqn:Hs.
  apply schedule_spec in Hs.
  destruct (sched_linv sch ms _ _ _ _ _ _ _ _ L Hs) as (L1 & T1 & Hcur & Hrec & Hnn & _).
  rewrite (proj1 R) in Hcur.
  assert (Hle : rec_le (w_e w) e1) by (unfold rec_le; lia).
  destruct err as [[|]|].
  - split; [apply L1; discriminate|]. split; [exact Hcur|exact Hle].
  - split; [exact (proj1 (T1 eq_refl))|]. split; [exact Hcur|exact Hle].
  - specialize (L1 ltac:(discriminate)).
    destruct (sched_eqb (current e1) (next e1)) eqn:Eq.
    + rewrite Hcur in Eq. apply sched_eqb_some in Eq.
      destruct (advance_rinv sch ms _ _ _ _ L1 Eq) as [L2 R2].
      split; [exact L2|]. split; [exact R2|]. cbn [w_e].
      eapply rec_le_trans; [exact Hle|]. unfold rec_le. apply advance_recorded_len.
    + split; [exact L1|]. split; [exact Hcur|exact Hle].
Qed.

(* ------------------------------------------------------------------ *)
(* segments                                                            *)
(* ------------------------------------------------------------------ *)
Definition seg_post (w w' : world) (r : seg_end) (t : nat) : Prop :=
  current (w_e w') = SSome t /\ rec_le (w_e w) (w_e w')
  /\ match r with
     | SegYield k => LInv w' /\ code_ok k
     | SegDone => LInv w' /\ running (w_e w') (w_trace w') t
     | SegPanic => TInv (w_e w') (w_trace w')
     end.

Lemma seg_post_here : forall w t, LInv w -> running (w_e w) (w_trace w) t ->
  seg_post w w SegDone t /\ seg_post w w SegPanic t.
Proof.
  intros w t L R. unfold seg_post. split.
  - split; [exact (proj1 R)|]. split; [apply rec_le_refl|]. split; [exact L|exact R].
  - split; [exact (proj1 R)|]. split; [apply rec_le_refl|]. eapply running_TInv; eauto.
Qed.

Lemma seg_post_rec : forall w w1 w' r t, rec_le (w_e w) (w_e w1) -> seg_post w1 w' r t -> seg_post w w' r t.
Proof.
  intros w w1 w' r t Hle (A & B & C). split; [exact A|]. split; [eapply rec_le_trans; eauto|exact C].
Qed.

Theorem run_seg_inv : forall c, code_ok c -> forall w st w' st' r t,
  LInv w -> running (w_e w) (w_trace w) t ->
  run_seg sch ms c w st = (w', st', r) -> seg_post w w' r t.
Proof.
  induction 1 as [ | | f k Hf Hk IH | k Hk IH | k Hk IH | child k Hc Hk IHc IH | tag vals k Hk IH];
    intros w st w' st' r t L R H; cbn [run_seg] in H.
  - inversion H; subst. apply seg_post_here; assumption.
  - inversion H; subst. apply seg_post_here; assumption.
  - (* Atomic *)
    destruct (f (w_e w) (w_s w)) as [[[e1 s1] a]|] eqn:Ef.
    + pose proof (Hf _ _ _ _ _ (wf_reset _ (li_wf _ _ _ _ _ L)) Ef) as F.
      destruct (rinv_atomic sch ms _ _ _ _ _ L R F) as [L1 R1].
      eapply (seg_post_rec w (mkWorld e1 s1 (w_conts w) (w_trace w))); [apply rec_le_frame; exact F|].
      eapply (IH a); [| |exact H]; cbn [w_e w_conts w_trace]; assumption.
    + inversion H; subst. apply seg_post_here; assumption.
  - (* Switch *)
    pose proof (do_switch_inv w st t L R) as DS.
    destruct (do_switch sch ms w st) as [w1 st1|w1 st1|w1 st1].
    + destruct DS as (L1 & R1 & Hle). eapply seg_post_rec; [exact Hle|]. eapply IH; eauto.
    + destruct DS as (L1 & Hc1 & Hle). inversion H; subst. split; [exact Hc1|]. split; [exact Hle|]. split; assumption.
    + destruct DS as (T1 & Hc1 & Hle). inversion H; subst. split; [exact Hc1|]. split; [exact Hle|exact T1].
  - (* Rand *)
    cbv zeta in H.
    assert (Hdraw : forall w0 st0, LInv w0 -> running (w_e w0) (w_trace w0) t ->
              (let e := with_recorded (w_e w0) (StRandom :: recorded (w_e w0)) in
               let (v, st1) := s_next_u64 sch st0 in
               match v with
               | None => (mkWorld e (w_s w0) (w_conts w0) (w_trace w0), st1, SegPanic)
               | Some v => run_seg sch ms (k v) (mkWorld e (w_s w0) (w_conts w0) (EvRandom v :: w_trace w0)) st1
               end) = (w', st', r) -> seg_post w0 w' r t).
    { intros w0 st0 L0 R0 H0. cbv zeta in H0.
      destruct (rinv_record sch ms _ _ _ _ StRandom L0 R0) as [L1 R1].
      assert (Hle : rec_le (w_e w0) (with_recorded (w_e w0) (StRandom :: recorded (w_e w0)))).
      { unfold rec_le; cbn. lia. }
      destruct (s_next_u64 sch st0) as [[v|] st1].
      - destruct (rinv_evrandom sch ms _ _ _ _ v L1 R1) as [L2 R2].
        eapply (seg_post_rec w0 (mkWorld (with_recorded (w_e w0) (StRandom :: recorded (w_e w0))) (w_s w0) (w_conts w0)
                                   (EvRandom v :: w_trace w0))); [exact Hle|].
        eapply (IH v); [| |exact H0]; cbn [w_e w_conts w_trace]; assumption.
      - inversion H0; subst. split; [exact (proj1 R1)|]. split; [exact Hle|].
        eapply (running_TInv (mkWorld _ _ _ _)); cbn [w_e w_conts w_trace]; eauto. }
    destruct (bound_exhausted ms (w_e w)).
    + pose proof (do_switch_inv w st t L R) as DS.
      destruct (do_switch sch ms w st) as [w1 st1|w1 st1|w1 st1].
      * destruct DS as (L1 & R1 & Hle). eapply seg_post_rec; [exact Hle|]. eapply Hdraw; eauto.
      * destruct DS as (L1 & Hc1 & Hle). inversion H; subst. split; [exact Hc1|]. split; [exact Hle|].
        split; [exact L1|]. constructor; exact Hk.
      * destruct DS as (T1 & Hc1 & Hle). inversion H; subst. split; [exact Hc1|]. split; [exact Hle|exact T1].
    + eapply Hdraw; eauto.
  - (* SpawnNow *)
    destruct (spawn_thread_now (w_e w)) as [[e1 tid]|] eqn:Esp.
    + destruct (rinv_spawn sch ms _ _ _ _ _ _ _ L R Esp Hc) as [L1 R1].
      eapply (seg_post_rec w (mkWorld e1 (w_s w) (w_conts w ++ [Some child]) (w_trace w))).
      { unfold rec_le; cbn [w_e]. rewrite (spawn_recorded _ _ _ (wf_reset _ (li_wf _ _ _ _ _ L)) Esp). lia. }
      eapply (IH tid); [| |exact H]; cbn [w_e w_conts w_trace]; assumption.
    + inversion H; subst. apply seg_post_here; assumption.
  - (* Log *)
    unfold me in H. rewrite (proj1 R) in H. cbn [sched_id] in H.
    match type of H with run_seg _ _ _ (mkWorld _ _ _ (EvOp _ _ _ ?clk :: _)) _ = _ =>
      destruct (rinv_log sch ms _ _ _ _ tag vals clk L R) as [L1 R1] end.
    eapply (seg_post_rec w (mkWorld (w_e w) (w_s w) (w_conts w) _)); [apply rec_le_refl|].
    eapply IH; [| |exact H]; cbn [w_e w_conts w_trace]; assumption.
Qed.

(* ------------------------------------------------------------------ *)
(* whole runs                                                          *)
(* ------------------------------------------------------------------ *)
Definition Post (w : world) (out : outcome) : Prop :=
  WF (w_e w)
  /\ Forall (dec_ok sch ms) (w_trace w)
  /\ chain_ok (w_trace w)
  /\ ops_ok (w_trace w)
  /\ (forall pre off cur y, In (EvDecision pre off cur y None) (w_trace w) ->
        (out = OStopped \/ out = OFuel) /\ hd_error (w_trace w) = Some (EvDecision pre off cur y None))
  /\ (forall ids, out = ODeadlock ids -> Dead (w_e w) /\ ids = unfinished_ids (w_e w))
  /\ (out = OPass -> Complete (w_e w))
  /\ (out = OStepBound -> exists n, ms = FailAfter n /\ n <= measure (w_e w))
  /\ (out = OSchedulerBug -> ~ sane sch).

Ltac post_split := split; [|split; [|split; [|split; [|split; [|split; [|split; [|split]]]]]]].

(* an exit at which no scheduler answer None has been recorded *)
Lemma post_no_none : forall e s cs tr out,
  TInv e tr ->
  (forall ids, out = ODeadlock ids -> Dead e /\ ids = unfinished_ids e) ->
  (out = OPass -> Complete e) ->
  (out = OStepBound -> exists n, ms = FailAfter n /\ n <= measure e) ->
  (out = OSchedulerBug -> ~ sane sch) ->
  Post (mkWorld e s cs tr) out.
Proof.
  intros e s cs tr out [W D Ch O Habs] H1 H2 H3 H4. unfold Post; cbn [w_e w_trace].
  post_split; auto. intros pre off cur y Hin. exfalso; eapply Habs; eauto.
Qed.

Theorem run_loop_post : forall fuel w st w' st' out,
  LInv w -> run_loop sch ms fuel w st = (w', st', out) -> Post w' out /\ rec_le (w_e w) (w_e w').
Proof.
  induction fuel as [|fuel IH]; intros w st w' st' out L H; cbn [run_loop] in H.
  - inversion H; subst. split; [|apply rec_le_refl]. destruct L as [W C D Ch O N B]. unfold Post.
    post_split; auto; try discriminate.
    intros pre off cur y Hin. split; [right; reflexivity|]. apply (N _ _ _ _ Hin).
  - destruct (schedule sch ms (w_e w) st) as [[[err e1] st1] evs] eqn:Hs.
    apply schedule_spec in Hs.
    destruct (sched_linv sch ms _ _ _ _ _ _ _ _ L Hs) as (L1 & T1 & Hcur & Hrec & Hnn & Hsb).
    assert (Hle : rec_le (w_e w) e1) by (unfold rec_le; lia).
    destruct err as [[|]|].
    + (* step bound *)
      inversion H; subst. split; [|exact Hle]. destruct (Hsb eq_refl) as [Hn1 Hb].
      apply post_no_none; auto; try discriminate.
      eapply LInv_TInv; [apply L1; discriminate|]. rewrite Hn1; discriminate.
    + (* scheduler bug *)
      inversion H; subst. split; [|exact Hle]. destruct (T1 eq_refl) as [T Hns].
      apply post_no_none; auto; try discriminate.
    + (* the schedule call succeeded *)
      specialize (L1 ltac:(discriminate)). specialize (Hnn eq_refl). cbv zeta in H.
      rewrite advance_current in H. cbn [w_conts w_e w_s w_trace] in H.
      assert (Hle2 : rec_le (w_e w) (advance e1)).
      { eapply rec_le_trans; [exact Hle|]. unfold rec_le. apply advance_recorded_len. }
      destruct (next e1) as [|t| |] eqn:Hn1; [congruence| | |].
      * (* run task t *)
        destruct (advance_rinv sch ms _ _ _ _ L1 Hn1) as [L2 R2].
        pose proof R2 as (Rc & Rn & Rl & tk & Hg & Hf).
        pose proof (li_conts _ _ _ _ _ L2) as (C1 & C2 & C3).
        destruct (C3 _ _ Hg Hf) as [c Hc]. rewrite Hc in H.
        pose proof (C2 _ _ Hc) as Hok.
        destruct (run_seg sch ms c (mkWorld (advance e1) (w_s w) (w_conts w) (evs ++ w_trace w)) st1)
          as [[w2 st2] r] eqn:Hseg.
        destruct (run_seg_inv c Hok (mkWorld (advance e1) (w_s w) (w_conts w) (evs ++ w_trace w)) _ _ _ _ t L2 R2 Hseg)
          as (Hc3 & Hle3 & Hr).
        cbn [w_e] in Hle3.
        assert (Hle4 : rec_le (w_e w) (w_e w2)) by (eapply rec_le_trans; eauto).
        destruct r as [k| |].
        -- destruct Hr as [L3 Hk].
           assert (L4 : LInv (mkWorld (w_e w2) (w_s w2) (set_cont (w_conts w2) t (Some k)) (w_trace w2))).
           { unfold EngineInv.LInv; cbn [w_e w_conts w_trace]. apply linv_set_cont; assumption. }
           destruct (IH _ _ _ _ _ L4 H) as [P Hle5]. split; [exact P|]. eapply rec_le_trans; eauto.
        -- destruct Hr as [L3 R3].
           destruct (rinv_finish sch ms _ _ _ _ L3 R3) as (e3 & Hfin & L4).
           pose proof (finish_recorded _ _ Hfin) as Hrf. rewrite Hfin in H.
           destruct (IH (mkWorld e3 (w_s w2) (set_cont (w_conts w2) t None) (w_trace w2)) _ _ _ _ L4 H) as [P Hle5].
           split; [exact P|]. eapply rec_le_trans; [exact Hle4|]. eapply rec_le_trans; [|exact Hle5].
           cbn [w_e]. unfold rec_le. rewrite Hrf. lia.
        -- inversion H; subst. split; [|exact Hle4]. destruct w' as [e' s' cs' tr'].
           apply post_no_none; auto; try discriminate.
      * (* stopped *)
        inversion H; subst. split; [|exact Hle2]. destruct L1 as [W C D Ch O N B]. unfold Post; cbn [w_e w_trace].
        post_split; auto; try discriminate.
        -- apply WF_advance; exact W.
        -- intros pre off cur y Hin. split; [left; reflexivity|]. apply (N _ _ _ _ Hin).
      * (* finished *)
        pose proof (li_bk _ _ _ _ _ L1) as B1. unfold bk in B1. rewrite Hn1 in B1.
        assert (T : TInv (advance e1) (evs ++ w_trace w)).
        { assert (T0 : TInv e1 (evs ++ w_trace w)) by (eapply LInv_TInv; [exact L1|rewrite Hn1; discriminate]).
          destruct T0 as [W D Ch O Habs]. constructor; auto. apply WF_advance; exact W. }
        pose proof (ti_wf _ _ _ _ T) as WA.
        assert (FA : fin_cond (advance e1) = true).
        { rewrite (fin_cond_tasks_live e1); auto using advance_tasks, advance_live. }
        change (fun tk : task => negb (is_finished tk) && negb (t_detached tk)) with att_unfinished in H.
        destruct (existsb att_unfinished (tasks (advance e1))) eqn:Hx.
        -- inversion H; subst. split; [|exact Hle2]. apply post_no_none; auto; try discriminate.
           intros ids E. inversion E; subst. split; [|reflexivity]. apply fin_dead; auto.
        -- inversion H; subst. split; [|exact Hle2]. apply post_no_none; auto; try discriminate.
           intros _. apply pass_complete; exact Hx.
Qed.

End Run.

(* ------------------------------------------------------------------ *)
(* the initial world                                                   *)
(* ------------------------------------------------------------------ *)
Lemma init_LInv : forall SS (sch : scheduler SS) ms main objs, code_ok main -> LInv sch ms (init_world main objs).
Proof.
  intros SS sch ms main objs Hm. unfold LInv, init_world; cbn [w_e w_conts w_trace].
  constructor.
  - constructor; cbn; auto.
  - unfold conts_inv; cbn. repeat split; auto.
    + intros [|t] c Hc; cbn in Hc; [inversion Hc; subst; exact Hm|destruct t; discriminate].
    + intros [|t] tk Hg _; [exists main; reflexivity|].
      unfold get_task in Hg; cbn in Hg. destruct t; discriminate.
  - constructor.
  - exact I.
  - exact I.
  - intros pre off cur y [].
  - reflexivity.
Qed.

Theorem run_post : forall SS (sch : scheduler SS) ms fuel main objs st w st' out,
  Run sch ms fuel main objs st w st' out -> Post sch ms w out.
Proof.
  intros SS sch ms fuel main objs st w st' out [Hm H]. unfold run_exec in H.
  eapply (fun L => proj1 (run_loop_post sch ms fuel _ _ _ _ _ L H)). apply init_LInv; exact Hm.
Qed.

