From Coq Require Import List NArith Lia Bool.
From SV Require Import Codec.Varint.
Import ListNotations.
Open Scope N_scope.

Lemma land127 v : N.land v 127 = v mod 128.
Proof. change 127 with (N.ones 7). rewrite N.land_ones. reflexivity. Qed.
Lemma shr7 v : N.shiftr v 7 = v / 128.
Proof. rewrite N.shiftr_div_pow2. reflexivity. Qed.

Lemma small_facts_b : forallb (fun x => (N.eqb (N.land x 128) 0) && (N.eqb (N.land x 127) x)
    && (N.eqb (N.lor x 128) (x+128)) && negb (N.eqb (N.land (x+128) 128) 0) && (N.eqb (N.land (x+128) 127) x))
   (map N.of_nat (seq 0 128)) = true.
Proof. vm_compute. reflexivity. Qed.

Lemma small_facts x : x < 128 ->
  N.land x 128 = 0 /\ N.land x 127 = x /\ N.lor x 128 = x + 128 /\ N.land (x+128) 128 <> 0 /\ N.land (x+128) 127 = x.
Proof.
  intros Hx. pose proof small_facts_b as H. rewrite forallb_forall in H.
  specialize (H x). assert (In x (map N.of_nat (seq 0 128))) as Hin.
  { replace x with (N.of_nat (N.to_nat x)) by apply N2Nat.id. apply in_map. apply in_seq. lia. }
  apply H in Hin. repeat rewrite andb_true_iff in Hin. destruct Hin as [[[[A B] C] D] E].
  apply N.eqb_eq in A, B, C, E. apply negb_true_iff in D. apply N.eqb_neq in D. auto.
Qed.

Lemma loop_ok : forall (n:nat) (j:N) w result rest f,
  (n + N.to_nat j = 9)%nat -> 1 <= j -> w < 2 ^ (64 - 7*j) -> (n < f)%nat ->
  dec_loop f (enc (S n) w ++ rest) result (7*j) = Some (result + w * 2^(7*j), rest).
Proof.
  induction n as [|n IH]; intros j w result rest f Hn Hj Hw Hf.
  - assert (j = 9) by lia. subst j. simpl in Hw. change (2^(64-63)) with 2 in Hw.
    destruct f as [|f]; [lia|]. cbn [enc dec_loop].
    rewrite shr7. assert (w / 128 = 0) as Hz by (apply N.div_small; lia). rewrite Hz. cbn [N.eqb app].
    rewrite land127. rewrite (N.mod_small w 128) by lia.
    destruct (small_facts w ltac:(lia)) as (A & B & _). rewrite A, B. cbn [N.eqb].
    rewrite N.shiftl_mul_pow2. reflexivity.
  - destruct f as [|f]; [lia|]. cbn [enc]. rewrite shr7, land127.
    set (lo := w mod 128). assert (lo < 128) as Hlo by (apply N.mod_lt; lia).
    destruct (small_facts lo Hlo) as (A & B & C & D & E).
    assert (w = lo + 128 * (w / 128)) as Hdm by (unfold lo; rewrite N.add_comm; apply N.div_mod; lia).
    destruct (N.eqb (w / 128) 0) eqn:Hq.
    + apply N.eqb_eq in Hq. cbn [app dec_loop]. rewrite A, B. cbn [N.eqb].
      rewrite N.shiftl_mul_pow2. f_equal. f_equal. assert (w = lo) as Hwl by lia. rewrite <- Hwl. reflexivity.
    + apply N.eqb_neq in Hq. cbn [app dec_loop]. rewrite C, E.
      destruct (N.eqb (N.land (lo+128) 128) 0) eqn:Hc; [apply N.eqb_eq in Hc; contradiction|].
      rewrite N.shiftl_mul_pow2.
      destruct (N.eqb (7*j + 7) 63) eqn:H63.
      * apply N.eqb_eq in H63. assert (j = 8) by lia. subst j.
        assert (w / 128 < 2) as Hq2.
        { apply N.div_lt_upper_bound; [lia|]. change (2^(64-7*8)) with 256 in Hw. lia. }
        assert (w / 128 = 1) as Hq1 by lia. rewrite Hq1.
        destruct n as [|n']; [|lia].
        cbn [enc]. change (N.shiftr 1 7) with 0. change (N.eqb 0 0) with true. cbv iota. cbn [app].
        change (N.land 1 127) with 1. change (N.eqb 1 1) with true. cbv iota.
        rewrite !N.shiftl_mul_pow2. f_equal. f_equal.
        assert (w = lo + 128) as Hwl by lia.
        change (7*8) with 56. change (2^63) with (2^56 * 128).
        replace (w * 2^56) with ((lo + 128) * 2^56) by (f_equal; lia). lia.
      * apply N.eqb_neq in H63.
        replace (7*j+7) with (7*(j+1)) by lia.
        rewrite (IH (j+1) (w/128)); try lia.
        -- f_equal. f_equal.
           replace (7*(j+1)) with (7*j + 7) by lia. rewrite N.pow_add_r. change (2^7) with 128.
           set (P := 2^(7*j)). set (q := w/128) in *.
           replace (w * P) with ((lo + 128 * q) * P) by (f_equal; lia). lia.
        -- apply N.div_lt_upper_bound; [lia|].
           replace (64 - 7*j) with (7 + (64 - 7*(j+1))) in Hw by lia.
           rewrite N.pow_add_r in Hw. change (2^7) with 128 in Hw. lia.
Qed.

Lemma enc_S f v : enc (S f) v =
  if N.eqb (N.shiftr v 7) 0 then [N.land v 127] else N.lor (N.land v 127) 128 :: enc f (N.shiftr v 7).
Proof. reflexivity. Qed.

Theorem varint_roundtrip v rest : v < 2^64 -> dec (varint v ++ rest) = Some (v, rest).
Proof.
  intros Hv. unfold varint. change 10%nat with (S 9). rewrite enc_S. rewrite shr7, land127.
  set (lo := v mod 128). assert (lo < 128) as Hlo by (apply N.mod_lt; lia).
  destruct (small_facts lo Hlo) as (A & B & C & D & E).
  assert (v = lo + 128 * (v / 128)) as Hdm by (unfold lo; rewrite N.add_comm; apply N.div_mod; lia).
  destruct (N.eqb (v/128) 0) eqn:Hq.
  - apply N.eqb_eq in Hq. cbn [app dec]. rewrite A. cbn [N.eqb]. f_equal. f_equal. lia.
  - cbn [app dec]. rewrite C, E.
    destruct (N.eqb (N.land (lo+128) 128) 0) eqn:Hc; [apply N.eqb_eq in Hc; contradiction|].
    replace (dec_loop 10 (enc 9 (v / 128) ++ rest) lo 7) with (dec_loop 10 (enc 9 (v / 128) ++ rest) lo (7*1)) by reflexivity.
    rewrite (loop_ok 8 1 (v/128) lo rest 10); try lia.
    + f_equal. f_equal. change (2^(7*1)) with 128. set (q := v/128) in *. lia.
    + apply N.div_lt_upper_bound; [lia|]. change (2^(64-7*1)) with (2^57). change (2^64) with (128 * 2^57) in Hv. lia.
Qed.

(* every byte the encoder emits is a byte *)
Lemma enc_bytes f v : Forall (fun b => b < 256) (enc f v).
Proof.
  revert v; induction f as [|f IH]; intros v; cbn [enc]; [constructor|].
  rewrite land127. assert (v mod 128 < 128) as H by (apply N.mod_lt; lia).
  destruct (small_facts _ H) as (_ & _ & C & _).
  destruct (N.eqb _ 0).
  - constructor; [lia|constructor].
  - constructor; [rewrite C; lia|apply IH].
Qed.
