(* C19: the Semaphore / Mutex / RwLock wrappers (instances of the strictly fair BatchSemaphore: corollaries of the
   C18 development), the oneshot cell, and the pieces of Notify. *)
From Coq Require Import List NArith Bool Arith Lia.
From SV Require Import Clock.VClock Prim.Objects Engine.Exec Prim.Semaphore Prim.SemInv Lang.Code Lang.TokOps Lang.TokNotify.
From SV Require Import Proofs.SemBase Proofs.SemProofs Proofs.SemRun.
Import ListNotations.
Open Scope N_scope.

(* tokio's Semaphore::new(n), Mutex::new (n = 1) and RwLock::with_max_readers (n = max_readers) are all
   BatchSemaphore::new(n, Fairness::StrictlyFair) *)
Lemma tok_sem_is_fair_new : forall n c, tok_sem_new n c = OSem (sem_new n true c).
Proof. reflexivity. Qed.

(* over any sequence of semaphore blocks run by any tasks, with arbitrary scheduling in between *)
Lemma tok_sem_conservation : forall e n c ops st',
  run (init_state e (sem_new n true c)) ops = Some st' ->
  sm_avail (rs_s st') + granted (rs_s st') + rs_taken st' = n + rs_released st' /\
  sm_fair (rs_s st') = true /\ fair_head (rs_s st') /\ sem_wf (rs_s st').
Proof.
  intros e n c ops st' H. destruct (run_from_new _ _ _ _ _ _ H) as (W & F & E & Fa). auto.
Qed.

(* exclusion: the permits out (granted to acquisitions or taken by try_acquire, minus those released) never exceed n;
   for a Mutex (n = 1) at most one guard exists, for an RwLock a writer (max_readers permits) excludes everybody *)
Lemma tok_permits_out_bounded : forall e n c ops st',
  run (init_state e (sem_new n true c)) ops = Some st' ->
  granted (rs_s st') + rs_taken st' <= n + rs_released st'.
Proof.
  intros e n c ops st' H. destruct (tok_sem_conservation _ _ _ _ _ H) as (E & _). lia.
Qed.

(* ---------------- oneshot ---------------- *)
(* at most one value: after a send (successful or not) every later send is refused *)
Lemma osh_send_once : forall o v o1 ok1 w1 v2, osh_send o v = (o1, ok1, w1) -> snd (fst (osh_send o1 v2)) = false.
Proof.
  intros o v o1 ok1 w1 v2 H. unfold osh_send in H. destruct (os_complete o); inversion H; subst; reflexivity.
Qed.

(* a value sent on a fresh cell is delivered by the next poll, exactly once *)
Lemma osh_delivers_once : forall v m o1 ok w o2 r o3 r',
  osh_send osh_new v = (o1, ok, w) -> osh_poll o1 m = (o2, r) -> osh_poll o2 m = (o3, r') ->
  ok = true /\ r = Some (Some v) /\ r' = Some None.
Proof.
  intros v m o1 ok w o2 r o3 r' H1 H2 H3. unfold osh_send, osh_new in H1. simpl in H1. inversion H1; subst.
  unfold osh_poll in H2. simpl in H2. inversion H2; subst. unfold osh_poll in H3. simpl in H3. inversion H3; subst. auto.
Qed.

(* a receiver polling an open, empty cell registers its waker and is woken by the send *)
Lemma osh_pending_then_woken : forall m v o1 r o2 ok w,
  osh_poll osh_new m = (o1, r) -> osh_send o1 v = (o2, ok, w) -> r = None /\ ok = true /\ w = Some m.
Proof.
  intros m v o1 r o2 ok w H1 H2. unfold osh_poll, osh_new in H1. simpl in H1. inversion H1; subst.
  unfold osh_send in H2. simpl in H2. inversion H2; subst. auto.
Qed.

(* ---------------- Notify ---------------- *)
(* removing a waiter removes exactly that one *)
Lemma remove_id_spec : forall id l l', remove_id id l = Some l' ->
  In id l /\ length l = S (length l') /\ (forall x, x <> id -> (In x l <-> In x l')).
Proof.
  induction l as [|y r IH]; intros l' H; simpl in H; [discriminate|].
  destruct (Nat.eqb y id) eqn:E.
  - apply Nat.eqb_eq in E. subst y. inversion H; subst. split; [simpl; auto|]. split; [reflexivity|].
    intros x Hx. simpl. split; [intros [Hy|Hy]; [congruence|assumption] | auto].
  - destruct (remove_id id r) as [r'|] eqn:R; [|discriminate]. inversion H; subst.
    destruct (IH _ eq_refl) as (I & L & X). split; [simpl; auto|]. split; [simpl; rewrite L; reflexivity|].
    intros x Hx. simpl. specialize (X x Hx). tauto.
Qed.

(* the index drawn by rand's gen_range(0..range) is in range *)
Lemma pick_round_lt : forall v range i, 0 < range -> v < TWO64 -> pick_round v range = Some i -> i < range.
Proof.
  intros v range i Hr Hv H. unfold pick_round in H.
  destruct (N.leb ((v * range) mod TWO64) (pick_zone range)); [|discriminate]. inversion H; subst.
  apply N.div_lt_upper_bound; [unfold TWO64; lia|]. nia.
Qed.

(* notify_one with no enabled waiter stores the permit - a boolean, so at most one is ever stored - and a second one
   changes nothing *)
Lemma permit_idempotent : forall x, nt_set_pending (nt_set_pending x true) true = nt_set_pending x true.
Proof. reflexivity. Qed.
