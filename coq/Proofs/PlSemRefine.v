(* C20 — the BatchSemaphore model of Prim/Semaphore.v, in strictly fair mode, refines the abstract fair semaphore
   `asem` of Lang/PlSpec.v.

   Abstraction (relative to `pend`, the waiters of the acquire calls in progress — a ghost list: the concrete state does
   not record whether the owner of a granted waiter has collected the grant):
     available permits        = sm_avail
     FIFO queue of requests   = the waiters of sm_queue, in order, with their requested permits
     granted, not collected   = the waiters of `pend` whose has_permits flag is set
   One lemma per concrete block: if the block returns Some, the abstract state makes the corresponding abstract step (or
   stutters) and the relation holds again.  Hypotheses: sem_wf (C18's invariant), strictly fair, not closed; for release,
   the execution is not being torn down (should_stop = false: otherwise release closes the semaphore) and the tasks of
   the queued waiters have not finished (a blocked task cannot finish; stale waiters are the cancellation path of tokio,
   which the lock code never takes).  Cancellation (Drop of a queued Acquire) has no abstract counterpart in `asem` and is
   not issued by the lock's methods; the Drop of a completed Acquire is a stutter (sem_drop_completed_stutters).

   Then the lift: the concrete lock machine (two concrete semaphores driven by the blocks the methods of RawRwLock issue,
   ghost commit / open steps as in Lang/PlSpec.v) is simulated by the abstract lock machine, so the theorems of
   Proofs/PlLockProofs.v hold of the concrete pair of semaphores. *)
From Coq Require Import List NArith Bool Arith Lia.
From SV Require Import Clock.VClock Prim.Objects Engine.Exec Prim.Semaphore Prim.SemInv.
From SV Require Import Proofs.SemBase Proofs.SemProofs Lang.PlSpec Proofs.PlLockProofs.
Import ListNotations.
Open Scope N_scope.

(* ------------------------------------------------------------------ *)
(* 1. The abstraction relation                                          *)
(* ------------------------------------------------------------------ *)
Definition wn (s : sem) (wid : nat) : N := match get_waiter s wid with Some w => wt_n w | None => 0 end.
Definition absq (s : sem) : list (nat * N) := map (fun wid => (wid, wn s wid)) (sm_queue s).
Definition is_ready (s : sem) (pend : list nat) (id : nat) (n : N) : Prop :=
  In id pend /\ exists w, get_waiter s id = Some w /\ wt_has w = true /\ wt_n w = n.

Record srel (s : sem) (pend : list nat) (a : asem) : Prop := mk_srel {
  r_wf : sem_wf s;
  r_fair : sm_fair s = true;
  r_open : sm_closed s = false;
  r_avail : a_avail a = sm_avail s;
  r_queue : a_queue a = absq s;
  r_qpend : incl (sm_queue s) pend;
  r_nodup : NoDup pend;
  r_valid : forall wid, In wid pend -> (wid < length (sm_wtab s))%nat;
  r_rnodup : NoDup (map fst (a_ready a));
  r_ready : forall id n, In (id, n) (a_ready a) <-> is_ready s pend id n;
}.

Lemma srel_init : forall n, srel (sem_const_new n true) [] (a_new n).
Proof.
  intros n. constructor; simpl; auto.
  - constructor; simpl; try (intros; contradiction); try constructor.
    + intros bs H; discriminate.
    + intros wid w H. unfold get_waiter in H. simpl in H. destruct wid; discriminate.
  - intros x H; inversion H.
  - constructor.
  - intros wid H; inversion H.
  - constructor.
  - intros id m. split; [intros H; inversion H|intros [H _]; inversion H].
Qed.

(* waiters seen through get_waiter only *)
Lemma wn_ext : forall s s' x, get_waiter s' x = get_waiter s x -> wn s' x = wn s x.
Proof. intros s s' x H. unfold wn. rewrite H. reflexivity. Qed.

Lemma absq_ext : forall s s', sm_queue s' = sm_queue s -> (forall x, In x (sm_queue s) -> get_waiter s' x = get_waiter s x) ->
  absq s' = absq s.
Proof.
  intros s s' Hq Hg. unfold absq. rewrite Hq. apply map_ext_in. intros x Hx. rewrite (wn_ext s s' x (Hg x Hx)). reflexivity.
Qed.

Lemma get_waiter_lt : forall s wid w, get_waiter s wid = Some w -> (wid < length (sm_wtab s))%nat.
Proof. intros s wid w H. unfold get_waiter in H. apply nth_error_Some. congruence. Qed.

Lemma same_shape_get : forall s s' x, same_shape s s' -> get_waiter s' x = get_waiter s x.
Proof. intros s s' x (_ & Ht & _). apply get_waiter_wtab; assumption. Qed.

(* ------------------------------------------------------------------ *)
(* 2. try_acquire                                                       *)
(* ------------------------------------------------------------------ *)
Lemma a_try_cond : forall a k,
  a_try a k = (if (match a_queue a with [] => true | _ => false end) && (k <=? a_avail a) && (0 <? k)
               then (mkA (a_avail a - k) (a_queue a) (a_ready a), true) else (a, false)).
Proof. reflexivity. Qed.

Lemma can_acquire_abs : forall s pend a k, srel s pend a ->
  (can_acquire s k <-> (match a_queue a with [] => true | _ => false end) && (k <=? a_avail a) && (0 <? k) = true).
Proof.
  intros s pend a k R. rewrite (r_queue _ _ _ R), (r_avail _ _ _ R). unfold can_acquire, absq.
  rewrite (r_open _ _ _ R), (r_fair _ _ _ R). split.
  - intros (Hk & _ & [Hq|Hf] & Hle); [|discriminate]. rewrite Hq. simpl.
    apply N.leb_le in Hle. apply N.ltb_lt in Hk. rewrite Hle, Hk. reflexivity.
  - intros H. apply andb_prop in H. destruct H as [H Hk]. apply andb_prop in H. destruct H as [Hq Hle].
    apply N.ltb_lt in Hk. apply N.leb_le in Hle. repeat split; auto. left. destruct (sm_queue s); [reflexivity|discriminate].
Qed.

Theorem sem_try_refines : forall e s k e' s' r pend a,
  sem_try_acquire e s k = Some (e', s', r) -> srel s pend a ->
  exists a' ok, a_try a k = (a', ok) /\ srel s' pend a' /\ (r = AOk <-> ok = true) /\ r <> AClosed.
Proof.
  intros e s k e' s' r pend a H R.
  pose proof (sem_try_acquire_wf _ _ _ _ _ _ H (r_wf _ _ _ R)) as Hwf'.
  pose proof (sem_try_acquire_ok_iff _ _ _ _ _ _ H) as Hiff.
  destruct (sem_try_acquire_frame _ _ _ _ _ _ H) as (Hsh & _ & _).
  destruct (sem_try_acquire_inv _ _ _ _ _ _ H) as (e1 & Hap & _).
  destruct (acquire_permits_spec _ _ _ _ _ _ Hap) as (Hk & _ & _ & Hcase).
  pose proof (can_acquire_abs s pend a k R) as Hca.
  rewrite a_try_cond.
  destruct r.
  - assert (Hc : can_acquire s k) by (apply Hiff; reflexivity). apply Hca in Hc. rewrite Hc.
    destruct Hcase as (_ & _ & _ & Hav & _ & _).
    eexists; exists true. split; [reflexivity|]. split; [|split; [tauto|discriminate]].
    destruct Hsh as (Hq & Ht & Hcl & Hf).
    constructor; simpl; auto.
    + rewrite Hf. apply (r_fair _ _ _ R).
    + rewrite Hcl. apply (r_open _ _ _ R).
    + rewrite (r_avail _ _ _ R). lia.
    + rewrite (r_queue _ _ _ R). symmetry. apply absq_ext; [assumption|]. intros; apply get_waiter_wtab; assumption.
    + rewrite Hq. apply (r_qpend _ _ _ R).
    + apply (r_nodup _ _ _ R).
    + rewrite Ht. apply (r_valid _ _ _ R).
    + apply (r_rnodup _ _ _ R).
    + intros id n. rewrite (r_ready _ _ _ R id n). unfold is_ready. rewrite (get_waiter_wtab s s' id Ht). reflexivity.
  - destruct Hcase as (_ & -> & _).
    assert (Hc : (match a_queue a with [] => true | _ => false end) && (k <=? a_avail a) && (0 <? k) = false).
    { apply not_true_is_false. intro E. apply Hca in E. apply Hiff in E. discriminate. }
    rewrite Hc. exists a, false. split; [reflexivity|]. split; [assumption|]. split; [split; discriminate|discriminate].
  - destruct Hcase as (_ & _ & Hcl). rewrite (r_open _ _ _ R) in Hcl. discriminate.
Qed.

(* ------------------------------------------------------------------ *)
(* 3. Acquire::new                                                      *)
(* ------------------------------------------------------------------ *)
Theorem sem_new_waiter_stutters : forall e s k s' wid pend a,
  sem_new_waiter e s k = Some (s', wid) -> srel s pend a ->
  srel s' (wid :: pend) a /\ ~ In wid pend /\
  exists w, get_waiter s' wid = Some w /\ wt_n w = k /\ wt_has w = false /\ wt_queued w = false.
Proof.
  intros e s k s' wid pend a H R.
  pose proof (sem_new_waiter_wf _ _ _ _ _ H (r_wf _ _ _ R)) as Hwf'.
  destruct (sem_new_waiter_inv _ _ _ _ _ H) as (m0 & c0 & _ & _ & Hwid & Hs').
  destruct (sem_new_waiter_spec _ _ _ _ _ H) as (Hav & _ & Hq & Hcl & Hf & _ & Hnone & (m & c & _ & _ & Hnew) & Hother).
  assert (Hfresh : ~ In wid pend).
  { intros Hin. apply (r_valid _ _ _ R) in Hin. subst wid. lia. }
  assert (Hold : forall x, In x pend -> get_waiter s' x = get_waiter s x).
  { intros x Hx. apply Hother. intros ->. contradiction. }
  split; [|split; [assumption|]].
  - constructor; auto.
    + rewrite Hf. apply (r_fair _ _ _ R).
    + rewrite Hcl. apply (r_open _ _ _ R).
    + rewrite (r_avail _ _ _ R). auto.
    + rewrite (r_queue _ _ _ R). symmetry. apply absq_ext; [assumption|]. intros x Hx. apply Hold. apply (r_qpend _ _ _ R). assumption.
    + rewrite Hq. intros x Hx. right. apply (r_qpend _ _ _ R). assumption.
    + constructor; [assumption|apply (r_nodup _ _ _ R)].
    + intros x [<-|Hx].
      * eapply get_waiter_lt; eauto.
      * subst s'. simpl. rewrite app_length. simpl. pose proof (r_valid _ _ _ R x Hx). lia.
    + apply (r_rnodup _ _ _ R).
    + intros id n. rewrite (r_ready _ _ _ R id n). unfold is_ready. split.
      * intros (Hin & w & Hg & Hh & Hn). split; [right; assumption|]. exists w. rewrite (Hold id Hin). auto.
      * intros ([<-|Hin] & w & Hg & Hh & Hn).
        -- rewrite Hnew in Hg. inversion Hg; subst. discriminate.
        -- split; [assumption|]. exists w. rewrite <- (Hold id Hin). auto.
  - eexists. split; [exact Hnew|]. simpl. auto.
Qed.

(* ------------------------------------------------------------------ *)
(* 4. release: unblock_waiters_from_front is the abstract grant loop    *)
(* ------------------------------------------------------------------ *)
Definition nostale (e : exec) (s : sem) : Prop :=
  forall wid w, In wid (sm_queue s) -> get_waiter s wid = Some w -> ub_stale e w = false.

Lemma ub_sim : forall fuel e s e' s' rd,
  unblock_front fuel e s = Some (e', s') -> NoDup (sm_queue s) -> nostale e s ->
  exists pre, sm_queue s = pre ++ sm_queue s' /\
    (forall wid, In wid pre -> exists w, get_waiter s wid = Some w /\ wt_has w = false /\ get_waiter s' wid = Some (grant_upd w)) /\
    (forall wid, ~ In wid pre -> get_waiter s' wid = get_waiter s wid) /\
    a_grant fuel (sm_avail s) (absq s) rd = (sm_avail s', absq s', rd ++ map (fun wid => (wid, wn s wid)) pre).
Proof.
  induction fuel as [|f IH]; intros e s e' s' rd H Hnd Hns.
  - cbn [unblock_front] in H. inversion H; subst. exists nil. simpl. rewrite app_nil_r. repeat split; auto. intros wid [].
  - apply unblock_front_inv in H.
    destruct H as [(Hq & -> & ->)|(wid & rest & w & Hq & Hw & [(Hst & _)|[(Hst & Hfit & s1 & clk & e1 & e2 & e3 & Hpa & Hqd & Hhas & Hfin & Hj & Hu & Hwk & Hrec)|(Hst & Hlt & -> & ->)]])].
    + exists nil. unfold absq. rewrite Hq. simpl. rewrite app_nil_r. repeat split; auto. intros wid [].
    + rewrite (Hns wid w) in Hst; [discriminate|rewrite Hq; left; reflexivity|assumption].
    + destruct (permits_acquire_ok _ _ _ _ _ Hpa) as (_ & Hav & (Hq1 & Ht1 & _ & _) & _). ssimpl.
      set (s2 := upd_waiter s1 wid grant_upd) in *.
      assert (Hq2 : sm_queue s2 = rest) by (unfold s2; ssimpl; assumption).
      assert (Hav2 : sm_avail s2 = sm_avail s - wt_n w) by (unfold s2; ssimpl; lia).
      assert (Hg1 : forall x, get_waiter s1 x = get_waiter s x) by (intros x; apply get_waiter_wtab; assumption).
      assert (Hgw : get_waiter s2 wid = Some (grant_upd w)).
      { unfold s2. rewrite get_upd_eq, Hg1, Hw. reflexivity. }
      assert (Hgo : forall x, x <> wid -> get_waiter s2 x = get_waiter s x).
      { intros x Hx. unfold s2. rewrite get_upd_neq by congruence. apply Hg1. }
      rewrite Hq in Hnd. apply NoDup_cons_iff in Hnd. destruct Hnd as [Hnin Hnd'].
      assert (Hne : forall x, In x rest -> x <> wid) by (intros x Hx ->; contradiction).
      assert (Hfr : eng_frame e e3).
      { eapply eng_frame_trans; [eapply e_join_clock_frame; eauto|]. eapply eng_frame_trans; [eapply e_unblock_frame; eauto|]. eapply wake_opt_frame; eauto. }
      assert (Hns2 : nostale e3 s2).
      { intros x wx Hx Hgx. rewrite Hq2 in Hx. rewrite (Hgo x (Hne x Hx)) in Hgx.
        rewrite (ub_stale_frame e e3 wx Hfr). apply (Hns x wx); [rewrite Hq; right; assumption|assumption]. }
      rewrite <- Hq2 in Hnd'.
      destruct (IH e3 s2 e' s' (rd ++ [(wid, wt_n w)]) Hrec Hnd' Hns2) as (pre' & Hpre & Hin & Hout & Hgr).
      rewrite Hq2 in Hpre.
      assert (Hpre_rest : forall x, In x pre' -> In x rest) by (intros x Hx; rewrite Hpre; apply in_or_app; left; assumption).
      exists (wid :: pre'). split; [rewrite Hq, Hpre; reflexivity|]. split; [|split].
      * intros x [<-|Hx].
        -- exists w. split; [assumption|]. split; [assumption|]. rewrite Hout; [assumption|]. intros Hc. apply Hnin. apply Hpre_rest; assumption.
        -- destruct (Hin x Hx) as (w2 & Hg2 & Hh2 & Hg2'). exists w2. rewrite <- (Hgo x (Hne x (Hpre_rest x Hx))). auto.
      * intros x Hx. assert (x <> wid) by (intros ->; apply Hx; left; reflexivity).
        rewrite Hout by (intros Hc; apply Hx; right; assumption). apply Hgo; assumption.
      * unfold absq at 1. rewrite Hq. cbn [map a_grant].
        assert (Hwn : wn s wid = wt_n w) by (unfold wn; rewrite Hw; reflexivity). rewrite Hwn.
        destruct (N.leb_spec (wt_n w) (sm_avail s)) as [_|Hc]; [|lia].
        assert (Hq' : map (fun x => (x, wn s x)) rest = absq s2).
        { unfold absq. rewrite Hq2. apply map_ext_in. intros x Hx. rewrite (wn_ext s s2 x (Hgo x (Hne x Hx))). reflexivity. }
        rewrite Hq', <- Hav2, Hgr. f_equal. rewrite <- app_assoc. simpl. f_equal. f_equal.
        apply map_ext_in. intros x Hx. rewrite (wn_ext s s2 x (Hgo x (Hne x (Hpre_rest x Hx)))). reflexivity.
    + exists nil. simpl. rewrite app_nil_r. split; [reflexivity|]. split; [intros x []|]. split; [auto|].
      unfold absq. rewrite Hq. cbn [map a_grant].
      assert (Hwn : wn s wid = wt_n w) by (unfold wn; rewrite Hw; reflexivity). rewrite Hwn.
      destruct (N.leb_spec (wt_n w) (sm_avail s)) as [Hc|_]; [lia|reflexivity].
Qed.

Lemma nodup_app_intro : forall (A : Type) (a b : list A), NoDup a -> NoDup b -> (forall x, In x a -> ~ In x b) -> NoDup (a ++ b).
Proof.
  intros A a b Ha Hb Hd. induction Ha as [|x l Hx Hl IH]; simpl; auto.
  constructor.
  - intros Hin. apply in_app_or in Hin. destruct Hin as [Hin|Hin]; [contradiction|]. apply (Hd x); [left; reflexivity|assumption].
  - apply IH. intros y Hy. apply Hd. right; assumption.
Qed.

Lemma nodup_app_left : forall (A : Type) (a b : list A), NoDup (a ++ b) -> NoDup a.
Proof.
  intros A a b. induction a as [|x l IH]; simpl; intros H; [constructor|].
  inversion H; subst. constructor; [|apply IH; assumption]. intros Hin. apply H2. apply in_or_app. left; assumption.
Qed.

Theorem sem_release_refines : forall e s k e' s' pend a,
  sem_release e s k = Some (e', s') -> srel s pend a -> 0 < k -> should_stop e = Some false -> nostale e s ->
  srel s' pend (a_release a k).
Proof.
  intros e s k e' s' pend a H R Hk Hss Hns.
  pose proof (sem_release_wf _ _ _ _ _ H (r_wf _ _ _ R)) as Hwf'.
  destruct (sem_release_inv _ _ _ _ _ H) as [(Hz & _)|[(_ & Hss' & _)|(_ & _ & m & e1 & mc & _ & Hi & _ & Hcase)]]; [lia|congruence|].
  destruct Hcase as [(_ & Hub)|(Hf & _)]; [|rewrite (r_fair _ _ _ R) in Hf; discriminate].
  set (s0 := permits_release s k mc) in *.
  destruct (permits_release_spec s k mc) as (Hav0 & (Hq0 & Ht0 & Hcl0 & Hf0) & _). fold s0 in Hav0, Hq0, Ht0, Hcl0, Hf0.
  assert (Hg0 : forall x, get_waiter s0 x = get_waiter s x) by (intros x; apply get_waiter_wtab; assumption).
  assert (Hfr : eng_frame e e1) by (eapply e_increment_clock_frame; eauto).
  assert (Hns0 : nostale e1 s0).
  { intros x wx Hx Hgx. rewrite Hq0 in Hx. rewrite Hg0 in Hgx. rewrite (ub_stale_frame e e1 wx Hfr). eapply Hns; eauto. }
  assert (Hnd0 : NoDup (sm_queue s0)) by (rewrite Hq0; apply (wf_nodup s (r_wf _ _ _ R))).
  rewrite <- Hq0 in Hub.
  destruct (ub_sim _ _ _ _ _ (a_ready a) Hub Hnd0 Hns0) as (pre & Hpre & Hin & Hout & Hgr).
  destruct (unblock_front_frame _ _ _ _ _ Hub) as (Hcl' & Hf' & _ & _ & _ & (Hlen & _) & _ & _).
  assert (Hq_abs : absq s0 = absq s) by (apply absq_ext; [assumption|intros; apply Hg0]).
  assert (Hrel : a_release a k = mkA (sm_avail s') (absq s') (a_ready a ++ map (fun wid => (wid, wn s0 wid)) pre)).
  { unfold a_release. rewrite (r_queue _ _ _ R), (r_avail _ _ _ R). unfold absq at 1. rewrite map_length.
    rewrite <- Hq0, <- Hq_abs, <- Hav0, Hgr. reflexivity. }
  rewrite Hrel.
  assert (Hpre_q : forall x, In x pre -> In x (sm_queue s)).
  { intros x Hx. rewrite <- Hq0, Hpre. apply in_or_app. left; assumption. }
  assert (Hpre_has : forall x n, In x pre -> is_ready s pend x n -> False).
  { intros x n Hx (_ & w & Hg & Hh & _). destruct (Hin x Hx) as (w0 & Hg0' & Hh0 & _). rewrite Hg0 in Hg0'. congruence. }
  constructor; simpl; auto.
  - rewrite Hf', Hf0. apply (r_fair _ _ _ R).
  - rewrite Hcl', Hcl0. apply (r_open _ _ _ R).
  - intros x Hx. apply (r_qpend _ _ _ R). rewrite <- Hq0, Hpre. apply in_or_app. right; assumption.
  - apply (r_nodup _ _ _ R).
  - intros x Hx. rewrite Hlen, Ht0. apply (r_valid _ _ _ R); assumption.
  - rewrite map_app, map_map. simpl. rewrite map_id. apply nodup_app_intro.
    + apply (r_rnodup _ _ _ R).
    + rewrite Hpre in Hnd0. eapply nodup_app_left; eauto.
    + intros x Hx Hx'. apply in_map_iff in Hx. destruct Hx as ([x0 n] & <- & Hxn). simpl in Hx'.
      apply (Hpre_has x0 n Hx'). apply (r_ready _ _ _ R). assumption.
  - intros id n. split.
    + intros Hi'. apply in_app_or in Hi'. destruct Hi' as [Hr|Hr].
      * pose proof Hr as Hr'. apply (r_ready _ _ _ R) in Hr'. destruct Hr' as (Hp & w & Hg & Hh & Hn).
        split; [assumption|]. exists w. rewrite Hout, Hg0; [auto|]. intros Hc. apply (Hpre_has id n Hc). apply (r_ready _ _ _ R); assumption.
      * apply in_map_iff in Hr. destruct Hr as (x & Heq & Hx). inversion Heq; subst; clear Heq.
        destruct (Hin id Hx) as (w0 & Hg0' & Hh0 & Hg').
        split; [apply (r_qpend _ _ _ R); apply Hpre_q; assumption|]. exists (grant_upd w0). split; [assumption|]. split; [reflexivity|].
        unfold wn. rewrite Hg0'. reflexivity.
    + intros (Hp & w' & Hg' & Hh' & Hn'). apply in_or_app. destruct (in_dec Nat.eq_dec id pre) as [Hc|Hc].
      * right. destruct (Hin id Hc) as (w0 & Hg0' & Hh0 & Hg''). rewrite Hg'' in Hg'. inversion Hg'; subst.
        apply in_map_iff. exists id. split; [|assumption]. unfold wn. rewrite Hg0'. reflexivity.
      * left. apply (r_ready _ _ _ R). split; [assumption|]. exists w'. rewrite <- Hg0, <- Hout; auto.
Qed.

(* ------------------------------------------------------------------ *)
(* 5. Acquire::poll                                                     *)
(* ------------------------------------------------------------------ *)
Definition rm (wid : nat) (pend : list nat) : list nat := remove Nat.eq_dec wid pend.

Lemma in_rm : forall wid pend x, In x (rm wid pend) <-> In x pend /\ x <> wid.
Proof.
  intros wid pend x. unfold rm. split.
  - intros H. apply in_remove in H. assumption.
  - intros [H1 H2]. apply in_in_remove; assumption.
Qed.

Lemma nodup_rm : forall wid pend, NoDup pend -> NoDup (rm wid pend).
Proof.
  intros wid pend H. induction H as [|x l Hx Hl IH]; unfold rm in *; simpl; [constructor|].
  destruct (Nat.eq_dec wid x); [assumption|]. constructor; [|assumption].
  intros Hin. apply in_remove in Hin. destruct Hin; contradiction.
Qed.

Lemma take_first_spec : forall id n l, NoDup (map fst l) -> In (id, n) l ->
  exists r, take_first id l = Some (n, r) /\ NoDup (map fst r) /\ (forall x m, In (x, m) r <-> In (x, m) l /\ x <> id).
Proof.
  intros id n. induction l as [|[i m] t IH]; intros Hnd Hin; [inversion Hin|].
  simpl in Hnd. apply NoDup_cons_iff in Hnd. destruct Hnd as [Hni Hnd]. simpl.
  destruct (Nat.eqb_spec i id) as [->|Hne].
  - assert (m = n).
    { destruct Hin as [Heq|Hin]; [inversion Heq; reflexivity|]. exfalso. apply Hni. apply in_map_iff. exists (id, n). auto. }
    subst m. exists t. split; [reflexivity|]. split; [assumption|]. intros x m. split.
    + intros Hx. split; [right; assumption|]. intros ->. apply Hni. apply in_map_iff. exists (id, m). auto.
    + intros [[Heq|Hx] Hxn]; [inversion Heq; subst; contradiction|assumption].
  - assert (Hin' : In (id, n) t) by (destruct Hin as [Heq|Hin]; [inversion Heq; subst; contradiction|assumption]).
    destruct (IH Hnd Hin') as (r & Htf & Hndr & Hiff). rewrite Htf. exists ((i, m) :: r). split; [reflexivity|]. split.
    + simpl. constructor; [|assumption]. intros Hc. apply in_map_iff in Hc. destruct Hc as ([x0 m0] & Hx0 & Hc). simpl in Hx0. subst x0.
      apply Hiff in Hc. destruct Hc as [Hc _]. apply Hni. apply in_map_iff. exists (i, m0). auto.
    + intros x m0. simpl. rewrite Hiff. split.
      * intros [Heq|[Hx Hxn]]; [inversion Heq; subst; auto|auto].
      * intros [[Heq|Hx] Hxn]; auto.
Qed.

Lemma take_first_none : forall id l, ~ In id (map fst l) -> take_first id l = None.
Proof.
  intros id. induction l as [|[i m] t IH]; intros H; simpl; [reflexivity|].
  destruct (Nat.eqb_spec i id) as [->|Hne]; [exfalso; apply H; left; reflexivity|].
  rewrite IH; [reflexivity|]. intros Hc. apply H. right; assumption.
Qed.

(* (a) the waiter was granted permits by a release: the poll collects them *)
Theorem sem_poll_granted_refines : forall e s wid wk e' s' r pend a w,
  sem_poll e s wid wk = Some (e', s', r) -> srel s pend a -> In wid pend -> get_waiter s wid = Some w -> wt_has w = true ->
  r = PReadyOk /\ s' = s /\ exists a', a_poll a wid = (a', Some (wt_n w)) /\ srel s (rm wid pend) a'.
Proof.
  intros e s wid wk e' s' r pend a w H R Hp Hg Hh.
  unfold sem_poll in H. rewrite Hg in H. destruct (me e) as [m|]; [|discriminate]. rewrite Hh in H.
  destruct (wt_queued w) eqn:Hq; [discriminate|]. inversion H; subst. split; [reflexivity|]. split; [reflexivity|].
  assert (Hin : In (wid, wt_n w) (a_ready a)) by (apply (r_ready _ _ _ R); split; [assumption|exists w; auto]).
  destruct (take_first_spec wid (wt_n w) (a_ready a) (r_rnodup _ _ _ R) Hin) as (rd & Htf & Hnd & Hiff).
  unfold a_poll. rewrite Htf. eexists. split; [reflexivity|].
  assert (Hnq : ~ In wid (sm_queue s')).
  { intros Hc. destruct (wf_queue s' (r_wf _ _ _ R) wid Hc) as (w0 & Hg0 & _ & Hh0 & _). congruence. }
  constructor; simpl; try apply R.
  - intros x Hx. apply in_rm. split; [apply (r_qpend _ _ _ R); assumption|]. intros ->. contradiction.
  - apply nodup_rm. apply R.
  - intros x Hx. apply in_rm in Hx. apply (r_valid _ _ _ R). tauto.
  - assumption.
  - intros id n. rewrite Hiff, (r_ready _ _ _ R). unfold is_ready. rewrite in_rm. tauto.
Qed.

Lemma get_set_queue : forall s q x, get_waiter (set_queue s q) x = get_waiter s x.
Proof. reflexivity. Qed.

(* (b) first poll of a request: served on the spot (and collected) or queued at the back *)
Theorem sem_poll_first_refines : forall e s wid wk e' s' r pend a w,
  sem_poll e s wid wk = Some (e', s', r) -> srel s pend a -> In wid pend -> get_waiter s wid = Some w ->
  wt_has w = false -> wt_queued w = false ->
  exists a' ok, a_request a wid (wt_n w) = (a', ok) /\
    ((r = PReadyOk /\ ok = true /\ srel s' (rm wid pend) a') \/ (r = PPending /\ ok = false /\ srel s' pend a')).
Proof.
  intros e s wid wk e' s' r pend a w H R Hp Hg Hh Hq.
  pose proof (sem_poll_wf _ _ _ _ _ _ _ H (r_wf _ _ _ R)) as Hwf'.
  pose proof (can_acquire_abs s pend a (wt_n w) R) as Hca.
  destruct (sem_poll_inv _ _ _ _ _ _ _ H) as (w0 & m & Hg0 & Hme & Hcase).
  rewrite Hg in Hg0; inversion Hg0; subst w0; clear Hg0.
  assert (Hnq : ~ In wid (sm_queue s)).
  { intros Hc. destruct (wf_queue s (r_wf _ _ _ R) wid Hc) as (w0 & Hg0 & Hq0 & _). congruence. }
  unfold a_request. rewrite a_try_cond.
  inversion Hcase as [Hh'|Hh' Hcl _ He Hs|Hh' Hcl Hq' _ _ _ _
                     |e1 s1 e2 s2 Hh' Hcl Hwk Hor Hap Hrm Hs Hrb|Hh' Hcl Hwk Hor Hap He Henq]; subst; try congruence.
  - rewrite (r_open _ _ _ R) in Hcl. discriminate.
  - (* acquired *)
    rewrite Hq in Hrm. destruct Hrm as [-> ->].
    assert (Hc : can_acquire s (wt_n w)) by (apply (acquire_permits_ok_iff _ _ _ _ _ _ Hap); reflexivity).
    destruct (acquire_permits_spec _ _ _ _ _ _ Hap) as (Hk & _ & _ & (_ & _ & _ & Hav & (Hq1 & Ht1 & Hcl1 & Hf1) & _)).
    pose proof Hc as Hc'. apply Hca in Hc'. rewrite Hc'.
    assert (Hqe : sm_queue s = []).
    { destruct Hc as (_ & _ & [Hqe|Hf] & _); [assumption|rewrite (r_fair _ _ _ R) in Hf; discriminate]. }
    eexists; exists true. split; [reflexivity|]. left. split; [reflexivity|]. split; [reflexivity|].
    assert (Hgo : forall x, x <> wid -> get_waiter (upd_waiter s1 wid (fun w => w_set_has w true)) x = get_waiter s x).
    { intros x Hx. rewrite get_upd_neq by congruence. apply get_waiter_wtab; assumption. }
    constructor; simpl; auto.
    + rewrite Hf1. apply R.
    + rewrite Hcl1. apply R.
    + rewrite (r_avail _ _ _ R). lia.
    + rewrite (r_queue _ _ _ R). unfold absq. simpl. rewrite Hq1, Hqe. reflexivity.
    + rewrite Hq1, Hqe. intros x [].
    + apply nodup_rm. apply R.
    + intros x Hx. apply in_rm in Hx. rewrite list_upd_length, Ht1. apply (r_valid _ _ _ R). tauto.
    + apply R.
    + intros id n. rewrite (r_ready _ _ _ R). unfold is_ready. rewrite in_rm. split.
      * intros (Hi & w1 & Hg1 & Hh1 & Hn1). assert (id <> wid) by (intros ->; congruence).
        split; [tauto|]. exists w1. rewrite Hgo by assumption. auto.
      * intros ((Hi & Hne) & w1 & Hg1 & Hh1 & Hn1). split; [assumption|]. exists w1. rewrite <- (Hgo id Hne). auto.
  - (* queued *)
    assert (Hnc : ~ can_acquire s (wt_n w)).
    { intros Hc. apply (acquire_permits_ok_iff _ _ _ _ _ _ Hap) in Hc. discriminate. }
    assert (Hc' : (match a_queue a with [] => true | _ => false end) && (wt_n w <=? a_avail a) && (0 <? wt_n w) = false).
    { apply not_true_is_false. intro E. apply Hca in E. contradiction. }
    rewrite Hc'. eexists; exists false. split; [reflexivity|]. right. split; [reflexivity|]. split; [reflexivity|].
    rewrite Hq in Henq. destruct (enqueue_waiter_inv _ _ _ Henq) as (w1 & Hg1 & _ & _ & ->).
    set (s0 := upd_waiter s wid (repoint wk m)) in *.
    set (sq := upd_waiter (set_queue s0 (sm_queue s0 ++ [wid])) wid (fun w => w_set_queued w true)) in *.
    assert (Hgw : get_waiter sq wid = Some (w_set_queued (repoint wk m w) true)).
    { unfold sq. rewrite get_upd_eq, get_set_queue. unfold s0. rewrite get_upd_eq, Hg. reflexivity. }
    assert (Hgo : forall x, x <> wid -> get_waiter sq x = get_waiter s x).
    { intros x Hx. unfold sq. rewrite get_upd_neq by congruence. rewrite get_set_queue. unfold s0. rewrite get_upd_neq by congruence. reflexivity. }
    assert (Hqq : sm_queue sq = sm_queue s ++ [wid]) by reflexivity.
    assert (Hlen : length (sm_wtab sq) = length (sm_wtab s)) by (unfold sq, s0; ssimpl; rewrite !list_upd_length; reflexivity).
    refine (mk_srel _ _ _ Hwf' _ _ _ _ _ _ _ _ _); cbn [a_avail a_queue a_ready].
    + apply R.
    + apply R.
    + apply R.
    + rewrite (r_queue _ _ _ R). unfold absq. rewrite Hqq, map_app. cbn [map]. f_equal.
      * apply map_ext_in. intros x Hx. f_equal. symmetry. apply wn_ext. apply Hgo. intros ->. contradiction.
      * unfold wn. rewrite Hgw. reflexivity.
    + rewrite Hqq. intros x Hx. apply in_app_or in Hx. destruct Hx as [Hx|[<-|[]]]; [apply (r_qpend _ _ _ R); assumption|assumption].
    + apply R.
    + intros x Hx. rewrite Hlen. apply (r_valid _ _ _ R); assumption.
    + apply R.
    + intros id n. rewrite (r_ready _ _ _ R). unfold is_ready. split.
      * intros (Hi & w2 & Hg2 & Hh2 & Hn2). assert (id <> wid) by (intros ->; congruence).
        split; [assumption|]. exists w2. rewrite Hgo by assumption. auto.
      * intros (Hi & w2 & Hg2 & Hh2 & Hn2). assert (id <> wid).
        { intros ->. rewrite Hgw in Hg2. inversion Hg2; subst. simpl in Hh2. congruence. }
        split; [assumption|]. exists w2. rewrite <- (Hgo id H0). auto.
Qed.

(* (c) a queued waiter polled again before a release granted it: Pending, nothing changes but the waker *)
Theorem sem_poll_queued_stutters : forall e s wid wk e' s' r pend a w,
  sem_poll e s wid wk = Some (e', s', r) -> srel s pend a -> get_waiter s wid = Some w ->
  wt_has w = false -> wt_queued w = true ->
  r = PPending /\ a_poll a wid = (a, None) /\ srel s' pend a.
Proof.
  intros e s wid wk e' s' r pend a w H R Hg Hh Hq.
  pose proof (sem_poll_wf _ _ _ _ _ _ _ H (r_wf _ _ _ R)) as Hwf'.
  destruct (sem_poll_inv _ _ _ _ _ _ _ H) as (w0 & m & Hg0 & Hme & Hcase).
  rewrite Hg in Hg0; inversion Hg0; subst w0; clear Hg0.
  inversion Hcase as [Hh'|Hh' Hcl _ He Hs|Hh' Hcl Hq' _ Hf He Hs
                     |e1 s1 e2 s2 Hh' Hcl Hwk Hor Hap Hrm Hs Hrb|Hh' Hcl Hwk Hor Hap He Henq]; subst; try congruence.
  - rewrite (r_open _ _ _ R) in Hcl. discriminate.
  - split; [reflexivity|]. split.
    + unfold a_poll. rewrite take_first_none; [reflexivity|]. intros Hc. apply in_map_iff in Hc. destruct Hc as ([x n] & Hx & Hc). simpl in Hx. subst x.
      apply (r_ready _ _ _ R) in Hc. destruct Hc as (_ & w1 & Hg1 & Hh1 & _). congruence.
    + assert (Hgv : forall x, option_map (fun w => (wt_n w, wt_has w)) (get_waiter (upd_waiter s wid (repoint wk m)) x)
                              = option_map (fun w => (wt_n w, wt_has w)) (get_waiter s x)).
      { intros x. destruct (Nat.eq_dec wid x) as [<-|Hne]; [rewrite get_upd_eq, Hg; reflexivity|rewrite get_upd_neq by assumption; reflexivity]. }
      assert (Hwn : forall x, wn (upd_waiter s wid (repoint wk m)) x = wn s x).
      { intros x. unfold wn. specialize (Hgv x). destruct (get_waiter (upd_waiter s wid (repoint wk m)) x), (get_waiter s x); simpl in Hgv; congruence. }
      constructor; simpl; try apply R; auto.
      * rewrite (r_queue _ _ _ R). unfold absq. simpl. apply map_ext. intros x. rewrite Hwn. reflexivity.
      * intros x Hx. rewrite list_upd_length. apply (r_valid _ _ _ R); assumption.
      * intros id n. rewrite (r_ready _ _ _ R). unfold is_ready. specialize (Hgv id).
        split; intros (Hi & w2 & Hg2 & Hh2 & Hn2); (split; [assumption|]).
        -- rewrite Hg2 in Hgv. destruct (get_waiter (upd_waiter s wid (repoint wk m)) id) as [w3|]; simpl in Hgv; [|discriminate].
           exists w3. inversion Hgv. split; [reflexivity|]. split; congruence.
        -- rewrite Hg2 in Hgv. destruct (get_waiter s id) as [w3|]; simpl in Hgv; [|discriminate].
           exists w3. inversion Hgv. split; [reflexivity|]. split; congruence.
  - destruct Hor as [Hf|Hqf]; [rewrite (r_fair _ _ _ R) in Hf; discriminate|congruence].
  - destruct Hor as [Hf|Hqf]; [rewrite (r_fair _ _ _ R) in Hf; discriminate|congruence].
Qed.

(* Drop of an Acquire that has completed (the only Drop the lock code performs: acquire_blocking runs to completion) *)
Theorem sem_drop_completed_stutters : forall e s wid e' s' r w,
  sem_drop_acquire e s wid true = Some (e', s', r) -> get_waiter s wid = Some w -> wt_queued w = false ->
  e' = e /\ s' = s /\ r = DNothing.
Proof.
  intros e s wid e' s' r w H Hg Hq. unfold sem_drop_acquire in H. rewrite Hg, Hq in H.
  rewrite andb_false_r in H. inversion H; auto.
Qed.

(* ------------------------------------------------------------------ *)
(* 6. The concrete lock machine and its simulation by the abstract one  *)
(* ------------------------------------------------------------------ *)
(* RawRwLock as it is: two concrete BatchSemaphores (`sem`, `upgradable_sem`) operated by the blocks its methods issue —
   Acquire::new, Acquire::poll, try_acquire, release — by any task in any engine state (CEnv: whatever else happens to the
   engine between two blocks), with the ghost steps of Lang/PlSpec.v (an operation returns a guard / an operation on a
   guard starts).  Side conditions of the machine: a poll is of an acquire in progress; a release gives back permits in
   hand, at least one, in an execution that is not being torn down (should_stop = false) and whose queued tasks have
   not finished; a poll that answers "closed" is outside the machine (the semaphores of a lock are never closed in such
   executions: srel keeps sm_closed = false). *)
Record cside := mkCS { cs_sem : sem; cs_pend : list nat; cs_hand : N }.
Record clk := mkC { c_e : exec; c_s : cside; c_u : cside; c_sh : N; c_ex : N; c_up : N }.

Inductive cstep :=
| CNew (upg : bool) (k : N)
| CPoll (upg : bool) (wid wk : nat)
| CTry (upg : bool) (k : N)
| CRel (upg : bool) (k : N)
| CEnv (e' : exec)
| CCommit (m : mode)
| COpen (m : mode).

Definition nostaleb (e : exec) (s : sem) : bool :=
  forallb (fun wid => match get_waiter s wid with Some w => negb (ub_stale e w) | None => true end) (sm_queue s).

Lemma nostaleb_spec : forall e s, nostaleb e s = true -> nostale e s.
Proof.
  intros e s H wid w Hin Hg. unfold nostaleb in H. rewrite forallb_forall in H. specialize (H wid Hin). rewrite Hg in H.
  destruct (ub_stale e w); [discriminate|reflexivity].
Qed.

Definition cside_step (e : exec) (d : cside) (x : cstep) : option (exec * cside) :=
  let s := cs_sem d in
  match x with
  | CNew _ k => match sem_new_waiter e s k with
                | Some (s', wid) => Some (e, mkCS s' (wid :: cs_pend d) (cs_hand d)) | None => None end
  | CPoll _ wid wk =>
    if existsb (Nat.eqb wid) (cs_pend d) then
      match get_waiter s wid, sem_poll e s wid wk with
      | Some w, Some (e', s', PReadyOk) => Some (e', mkCS s' (rm wid (cs_pend d)) (cs_hand d + wt_n w))
      | Some w, Some (e', s', PPending) => Some (e', mkCS s' (cs_pend d) (cs_hand d))
      | _, _ => None
      end
    else None
  | CTry _ k => match sem_try_acquire e s k with
                | Some (e', s', r) => Some (e', mkCS s' (cs_pend d) (cs_hand d + match r with AOk => k | _ => 0 end))
                | None => None end
  | CRel _ k =>
    if (0 <? k) && (k <=? cs_hand d) && nostaleb e s then
      match should_stop e with
      | Some false => match sem_release e s k with
                      | Some (e', s') => Some (e', mkCS s' (cs_pend d) (cs_hand d - k)) | None => None end
      | _ => None
      end
    else None
  | _ => None
  end.

Section Lift.
Variable MAX : N.
Hypothesis MAX_pos : 0 < MAX.

Definition ccount (m : mode) (c : clk) : N := match m with MShared => c_sh c | MExcl => c_ex c | MUpgr => c_up c end.

Definition c_step (c : clk) (x : cstep) : option clk :=
  match x with
  | CNew upg _ | CPoll upg _ _ | CTry upg _ | CRel upg _ =>
    match cside_step (c_e c) (if upg then c_u c else c_s c) x with
    | Some (e', d') => Some (if upg then mkC e' (c_s c) d' (c_sh c) (c_ex c) (c_up c) else mkC e' d' (c_u c) (c_sh c) (c_ex c) (c_up c))
    | None => None
    end
  | CEnv e' => Some (mkC e' (c_s c) (c_u c) (c_sh c) (c_ex c) (c_up c))
  | CCommit m =>
    if (need_s MAX m <=? cs_hand (c_s c)) && (need_u m <=? cs_hand (c_u c)) then
      let s' := mkCS (cs_sem (c_s c)) (cs_pend (c_s c)) (cs_hand (c_s c) - need_s MAX m) in
      let u' := mkCS (cs_sem (c_u c)) (cs_pend (c_u c)) (cs_hand (c_u c) - need_u m) in
      Some (match m with
            | MShared => mkC (c_e c) s' u' (c_sh c + 1) (c_ex c) (c_up c)
            | MExcl => mkC (c_e c) s' u' (c_sh c) (c_ex c + 1) (c_up c)
            | MUpgr => mkC (c_e c) s' u' (c_sh c) (c_ex c) (c_up c + 1) end)
    else None
  | COpen m =>
    if 1 <=? ccount m c then
      let s' := mkCS (cs_sem (c_s c)) (cs_pend (c_s c)) (cs_hand (c_s c) + need_s MAX m) in
      let u' := mkCS (cs_sem (c_u c)) (cs_pend (c_u c)) (cs_hand (c_u c) + need_u m) in
      Some (match m with
            | MShared => mkC (c_e c) s' u' (c_sh c - 1) (c_ex c) (c_up c)
            | MExcl => mkC (c_e c) s' u' (c_sh c) (c_ex c - 1) (c_up c)
            | MUpgr => mkC (c_e c) s' u' (c_sh c) (c_ex c) (c_up c - 1) end)
    else None
  end.

Fixpoint c_run (c : clk) (l : list cstep) : option clk :=
  match l with [] => Some c | x :: r => match c_step c x with Some c' => c_run c' r | None => None end end.

Definition c_init (e : exec) : clk :=
  mkC e (mkCS (sem_const_new MAX true) [] 0) (mkCS (sem_const_new 1 true) [] 0) 0 0 0.

Definition crel (c : clk) (st : lk) : Prop :=
  srel (cs_sem (c_s c)) (cs_pend (c_s c)) (k_s st) /\ srel (cs_sem (c_u c)) (cs_pend (c_u c)) (k_u st) /\
  k_hs st = cs_hand (c_s c) /\ k_hu st = cs_hand (c_u c) /\
  k_sh st = c_sh c /\ k_ex st = c_ex c /\ k_up st = c_up c.

Lemma crel_init : forall e, crel (c_init e) (lk_init MAX).
Proof. intros e. unfold crel, c_init, lk_init; simpl. split; [apply srel_init|]. split; [apply srel_init|]. repeat split; reflexivity. Qed.

(* one block on one side: the abstract side makes the matching step, or none *)
Lemma cside_sim : forall e d x e' d' a h,
  cside_step e d x = Some (e', d') -> srel (cs_sem d) (cs_pend d) a -> h = cs_hand d ->
  (srel (cs_sem d') (cs_pend d') a /\ cs_hand d' = h /\ (forall upg k, x <> CRel upg k)) \/
  (exists upg k a' ok, x = CTry upg k /\ a_try a k = (a', ok) /\ srel (cs_sem d') (cs_pend d') a' /\ cs_hand d' = h + (if ok then k else 0)) \/
  (exists upg wid wk k a' ok, x = CPoll upg wid wk /\ a_request a wid k = (a', ok) /\ srel (cs_sem d') (cs_pend d') a' /\ cs_hand d' = h + (if ok then k else 0)) \/
  (exists upg wid wk n a', x = CPoll upg wid wk /\ a_poll a wid = (a', Some n) /\ srel (cs_sem d') (cs_pend d') a' /\ cs_hand d' = h + n) \/
  (exists upg k, x = CRel upg k /\ k <= h /\ srel (cs_sem d') (cs_pend d') (a_release a k) /\ cs_hand d' = h - k).
Proof.
  intros e d x e' d' a h H R ->. destruct x; simpl in H; try discriminate.
  - (* new *) destruct (sem_new_waiter e (cs_sem d) k) as [[s' wid]|] eqn:E; [|discriminate]. inversion H; subst; clear H.
    left. simpl. destruct (sem_new_waiter_stutters _ _ _ _ _ _ _ E R) as (R' & _). split; [assumption|]. split; [reflexivity|]. intros; discriminate.
  - (* poll *)
    destruct (existsb (Nat.eqb wid) (cs_pend d)) eqn:Hm; [|discriminate].
    apply existsb_exists in Hm. destruct Hm as (x & Hx & Heq). apply Nat.eqb_eq in Heq. subst x.
    destruct (get_waiter (cs_sem d) wid) as [w|] eqn:Hg; [|discriminate].
    destruct (sem_poll e (cs_sem d) wid wk) as [[[e1 s1] r]|] eqn:Hp; [|discriminate].
    destruct (wt_has w) eqn:Hh.
    + destruct (sem_poll_granted_refines _ _ _ _ _ _ _ _ _ _ Hp R Hx Hg Hh) as (-> & -> & a' & Hap & R').
      inversion H; subst; clear H. right. right. right. left. exists upg, wid, wk, (wt_n w), a'. simpl. auto.
    + destruct (wt_queued w) eqn:Hq.
      * destruct (sem_poll_queued_stutters _ _ _ _ _ _ _ _ _ _ Hp R Hg Hh Hq) as (-> & _ & R').
        inversion H; subst; clear H. left. simpl. split; [assumption|]. split; [reflexivity|]. intros; discriminate.
      * destruct (sem_poll_first_refines _ _ _ _ _ _ _ _ _ _ Hp R Hx Hg Hh Hq) as (a' & ok & Har & [(-> & -> & R')|(-> & -> & R')]);
          inversion H; subst; clear H; right; right; left; exists upg, wid, wk, (wt_n w), a'; eexists; simpl; (split; [reflexivity|]); (split; [exact Har|]); split; auto.
        simpl. lia.
  - (* try *)
    destruct (sem_try_acquire e (cs_sem d) k) as [[[e1 s1] r]|] eqn:E; [|discriminate]. inversion H; subst; clear H.
    destruct (sem_try_refines _ _ _ _ _ _ _ _ E R) as (a' & ok & Hat & R' & Hiff & _).
    right. left. exists upg, k, a', ok. simpl. split; [reflexivity|]. split; [assumption|]. split; [assumption|].
    destruct r; destruct ok; try reflexivity; exfalso.
    * assert (true = false) by (symmetry; apply Hiff; reflexivity). discriminate.
    * assert (ANoPermits = AOk) by (apply Hiff; reflexivity). discriminate.
    * assert (AClosed = AOk) by (apply Hiff; reflexivity). discriminate.
  - (* release *)
    destruct ((0 <? k) && (k <=? cs_hand d) && nostaleb e (cs_sem d)) eqn:C; [|discriminate].
    apply andb_prop in C. destruct C as [C Hns]. apply andb_prop in C. destruct C as [Hk Hle].
    apply N.ltb_lt in Hk. apply N.leb_le in Hle. apply nostaleb_spec in Hns.
    destruct (should_stop e) as [[|]|] eqn:Hss; try discriminate.
    destruct (sem_release e (cs_sem d) k) as [[e1 s1]|] eqn:E; [|discriminate]. inversion H; subst; clear H.
    right. right. right. right. exists upg, k. simpl. split; [reflexivity|]. split; [assumption|]. split; [|reflexivity].
    eapply sem_release_refines; eauto.
Qed.

Ltac crel_tac := unfold crel; simpl; (split; [assumption|]); (split; [assumption|]); repeat split; try assumption; try lia.

(* every step of the concrete machine is matched by at most one step of the abstract machine *)
Theorem c_step_simulated : forall c x c' st,
  c_step c x = Some c' -> crel c st -> exists l st', lock_run MAX st l = Some st' /\ crel c' st'.
Proof.
  intros c x c' st H (Rs & Ru & Hhs & Hhu & Hsh & Hex & Hup).
  destruct x as [upg k|upg wid wk|upg k|upg k|e1|m|m]; unfold c_step in H.
  1-4: destruct upg;
    match type of H with
    | context [cside_step ?e ?d ?x] =>
      destruct (cside_step e d x) as [[e' d']|] eqn:E; [|discriminate]; inversion H; subst; clear H
    end.
  1,3,5,7:
    destruct (cside_sim _ _ _ _ _ (k_u st) (cs_hand (c_u c)) E Ru eq_refl)
      as [(R' & Hh & _)|[(u0 & k0 & a' & ok & Hx & Hat & R' & Hh)|[(u0 & w0 & wk0 & k0 & a' & ok & Hx & Hat & R' & Hh)|[(u0 & w0 & wk0 & n0 & a' & Hx & Hat & R' & Hh)|(u0 & k0 & Hx & Hle & R' & Hh)]]]];
    try discriminate; try (inversion Hx; subst; clear Hx).
  all: try (exists nil, st; split; [reflexivity|crel_tac]; fail).
  all: try (exists [LTry true k0]; eexists; split; [simpl; unfold on_side; rewrite Hat; reflexivity|crel_tac]; fail).
  all: try (exists [LReq true w0 k0]; eexists; split; [simpl; unfold on_side; rewrite Hat; reflexivity|crel_tac]; fail).
  all: try (exists [LPoll true w0]; eexists; split; [simpl; unfold on_side; rewrite Hat; reflexivity|crel_tac]; fail).
  all: try (exists [LRel true k0]; eexists; split;
            [simpl; rewrite Hhu; destruct (N.leb_spec k0 (cs_hand (c_u c))) as [_|Hc]; [reflexivity|lia]|crel_tac]; fail).
  1-4:
    destruct (cside_sim _ _ _ _ _ (k_s st) (cs_hand (c_s c)) E Rs eq_refl)
      as [(R' & Hh & _)|[(u0 & k0 & a' & ok & Hx & Hat & R' & Hh)|[(u0 & w0 & wk0 & k0 & a' & ok & Hx & Hat & R' & Hh)|[(u0 & w0 & wk0 & n0 & a' & Hx & Hat & R' & Hh)|(u0 & k0 & Hx & Hle & R' & Hh)]]]];
    try discriminate; try (inversion Hx; subst; clear Hx).
  all: try (exists nil, st; split; [reflexivity|crel_tac]; fail).
  all: try (exists [LTry false k0]; eexists; split; [simpl; unfold on_side; rewrite Hat; reflexivity|crel_tac]; fail).
  all: try (exists [LReq false w0 k0]; eexists; split; [simpl; unfold on_side; rewrite Hat; reflexivity|crel_tac]; fail).
  all: try (exists [LPoll false w0]; eexists; split; [simpl; unfold on_side; rewrite Hat; reflexivity|crel_tac]; fail).
  all: try (exists [LRel false k0]; eexists; split;
            [simpl; rewrite Hhs; destruct (N.leb_spec k0 (cs_hand (c_s c))) as [_|Hc]; [reflexivity|lia]|crel_tac]; fail).
  - inversion H; subst. exists nil, st. split; [reflexivity|crel_tac].
  - fold (c_step c (CCommit m)) in H. simpl in H.
    destruct ((need_s MAX m <=? cs_hand (c_s c)) && (need_u m <=? cs_hand (c_u c))) eqn:C; [|discriminate].
    exists [LCommit m]. eexists. split; [simpl; rewrite Hhs, Hhu, C; reflexivity|].
    inversion H; subst; clear H. destruct m; crel_tac.
  - assert (Hc : count m st = ccount m c) by (destruct m; simpl; assumption).
    destruct (1 <=? ccount m c) eqn:C; [|discriminate].
    exists [LOpen m]. eexists. split; [simpl; rewrite Hc, C; reflexivity|].
    inversion H; subst; clear H. destruct m; crel_tac.
Qed.

Theorem c_run_simulated : forall l c c' st,
  c_run c l = Some c' -> crel c st -> exists la st', lock_run MAX st la = Some st' /\ crel c' st'.
Proof.
  induction l as [|x r IH]; intros c c' st H R; simpl in H.
  - inversion H; subst. exists nil, st. auto.
  - destruct (c_step c x) as [c1|] eqn:E; [|discriminate].
    destruct (c_step_simulated _ _ _ _ E R) as (l1 & st1 & Hr1 & R1).
    destruct (IH _ _ _ H R1) as (l2 & st2 & Hr2 & R2).
    exists (l1 ++ l2), st2. split; [|assumption].
    clear - Hr1 Hr2. revert st Hr1. induction l1 as [|a t IHt]; intros st Hr1; simpl in *.
    + inversion Hr1; subst. assumption.
    + destruct (lock_step MAX st a); [|discriminate]. apply IHt; assumption.
Qed.

(* ---- the theorems of Proofs/PlLockProofs.v, of the concrete pair of semaphores ---- *)
Lemma c_run_inv : forall e l c, c_run (c_init e) l = Some c -> exists st, crel c st /\ lk_inv MAX st.
Proof.
  intros e l c H. destruct (c_run_simulated _ _ _ _ H (crel_init e)) as (la & st & Hr & R).
  exists st. split; [assumption|]. eapply lock_run_inv; eauto using lk_inv_init.
Qed.

Theorem concrete_exclusion : forall e l c, c_run (c_init e) l = Some c ->
  (1 <= c_ex c -> c_ex c = 1 /\ c_sh c = 0 /\ c_up c = 0 /\ cs_hand (c_s c) = 0 /\ sm_avail (cs_sem (c_s c)) = 0) /\
  c_up c <= 1 /\
  (1 <= c_up c -> cs_hand (c_u c) = 0 /\ sm_avail (cs_sem (c_u c)) = 0) /\
  c_sh c + c_up c + MAX * c_ex c <= MAX.
Proof.
  intros e l c H. destruct (c_run_inv _ _ _ H) as (st & (Rs & Ru & Hhs & Hhu & Hsh & Hex & Hup) & I).
  destruct (inv_exclusion MAX MAX_pos st I) as (EX & UP & UH & SUM).
  rewrite Hsh, Hex, Hup, Hhs in *. rewrite Hhu in UH. split; [|split; [assumption|split; [|assumption]]].
  - intros E. destruct (EX E) as (A & B & C & D & T). repeat split; auto.
    unfold tot in T. rewrite <- (r_avail _ _ _ Rs). lia.
  - intros E. destruct (UH E) as (A & T). split; [assumption|]. unfold tot in T. rewrite <- (r_avail _ _ _ Ru). lia.
Qed.

Theorem concrete_commit_admitted : forall e l c m c', c_run (c_init e) l = Some c -> c_step c (CCommit m) = Some c' ->
  spec_admits m (c_sh c) (c_ex c) (c_up c).
Proof.
  intros e l c m c' H C. destruct (c_run_inv _ _ _ H) as (st & R & I).
  pose proof R as (Rs & Ru & Hhs & Hhu & Hsh & Hex & Hup).
  destruct (c_step_simulated _ _ _ _ C R) as (la & st' & Hr & _).
  simpl in C. destruct ((need_s MAX m <=? cs_hand (c_s c)) && (need_u m <=? cs_hand (c_u c))) eqn:B; [|discriminate].
  assert (Hs : exists st1, lock_step MAX st (LCommit m) = Some st1).
  { simpl. rewrite Hhs, Hhu, B. eexists; reflexivity. }
  destruct Hs as (st1 & Hs). rewrite <- Hsh, <- Hex, <- Hup. eapply commit_admitted; eauto.
Qed.

Theorem concrete_no_writer_during_downgrade : forall e l c, c_run (c_init e) l = Some c -> 1 <= cs_hand (c_s c) ->
  c_ex c = 0 /\ (forall c', c_step c (CCommit MExcl) = Some c' -> cs_hand (c_s c) = MAX).
Proof.
  intros e l c H Hh. destruct (c_run_inv _ _ _ H) as (st & R & I).
  pose proof R as (Rs & Ru & Hhs & Hhu & Hsh & Hex & Hup).
  rewrite <- Hhs in Hh. destruct (no_writer_during_downgrade MAX MAX_pos st I Hh) as (A & B). split; [congruence|].
  intros c' C. rewrite <- Hhs. simpl in C.
  destruct ((MAX <=? cs_hand (c_s c)) && (0 <=? cs_hand (c_u c))) eqn:D; [|discriminate].
  assert (Hs : exists st1, lock_step MAX st (LCommit MExcl) = Some st1).
  { simpl. rewrite Hhs, Hhu, D. eexists; reflexivity. }
  destruct Hs as (st1 & Hs). eapply B; eauto.
Qed.
End Lift.

(* a failed try_acquire leaves the concrete semaphore exactly as it was (the caller's clock is all that changes) *)
Theorem sem_try_fail_unchanged : forall e s k e' s' r,
  sem_try_acquire e s k = Some (e', s', r) -> r <> AOk -> s' = s.
Proof.
  intros e s k e' s' r H Hr. destruct (sem_try_acquire_inv _ _ _ _ _ _ H) as (e1 & Hap & _).
  destruct (acquire_permits_spec _ _ _ _ _ _ Hap) as (_ & _ & _ & Hcase). destruct r; [congruence| |]; destruct Hcase as (_ & -> & _); reflexivity.
Qed.
