(* Proofs of the engine-level statements of Engine/Stmt.v (C08, C03, C13), derived from the run
   invariant (Proofs/EngineRun.v).  stmt_bound_unaffected is in Proofs/BoundProofs.v and
   stmt_bound_total in Proofs/BoundTotal.v.  No Admitted / Axiom. *)
From Coq Require Import List NArith Bool Arith Lia.
From SV Require Import Clock.VClock Prim.Objects Engine.Exec Engine.Inv Sched.Replay Engine.Stmt
  Proofs.EngineBase Proofs.SchedSpec Proofs.EngineInv Proofs.EngineRun.
Import ListNotations.

(* ================================================================== *)
(* reading the newest-first trace invariants in chronological order    *)
(* ================================================================== *)

(* the running task after a chronological prefix *)
Fixpoint after_c (evs : list event) (p : option nat) : option nat :=
  match evs with
  | [] => p
  | EvDecision _ _ _ _ ch :: r => after_c r ch
  | _ :: r => after_c r p
  end.

Lemma after_c_app : forall l1 l2 p, after_c (l1 ++ l2) p = after_c l2 (after_c l1 p).
Proof. induction l1 as [|ev r IH]; intros l2 p; [reflexivity|]. destruct ev; cbn [app after_c]; apply IH. Qed.

Lemma after_c_rev : forall tr, after_c (rev tr) None = lc tr.
Proof.
  induction tr as [|ev r IH]; [reflexivity|]. cbn [rev]. rewrite after_c_app, IH.
  destruct ev; reflexivity.
Qed.

Lemma ops_by_chosen_app : forall l1 l2 p,
  ops_by_chosen (l1 ++ l2) p <-> ops_by_chosen l1 p /\ ops_by_chosen l2 (after_c l1 p).
Proof.
  induction l1 as [|ev r IH]; intros l2 p.
  - cbn. tauto.
  - destruct ev; cbn [app ops_by_chosen after_c]; rewrite IH; tauto.
Qed.

Lemma ops_ok_rev : forall tr, ops_ok tr -> ops_by_chosen (rev tr) None.
Proof.
  induction tr as [|ev r IH]; intros H; [exact I|]. cbn [rev]. apply ops_by_chosen_app.
  rewrite after_c_rev. destruct ev; cbn [ops_ok ops_by_chosen] in *; tauto.
Qed.

Lemma cur_chain_app : forall l1 l2 p,
  cur_chain (l1 ++ l2) p <-> cur_chain l1 p /\ cur_chain l2 (after_c l1 p).
Proof.
  induction l1 as [|ev r IH]; intros l2 p.
  - cbn. tauto.
  - destruct ev; cbn [app cur_chain after_c]; rewrite IH; tauto.
Qed.

Lemma chain_ok_rev : forall tr, chain_ok tr -> cur_chain (rev tr) None.
Proof.
  induction tr as [|ev r IH]; intros H; [exact I|]. cbn [rev]. apply cur_chain_app.
  rewrite after_c_rev. destruct ev; cbn [chain_ok cur_chain] in *; tauto.
Qed.

(* ================================================================== *)
(* C08                                                                 *)
(* ================================================================== *)
Lemma run_dec : forall SS (sch : scheduler SS) ms fuel main objs st w st' out,
  Run sch ms fuel main objs st w st' out ->
  forall ev, In ev (w_trace w) -> dec_ok sch ms ev.
Proof.
  intros SS sch ms fuel main objs st w st' out HR ev Hin.
  destruct (run_post _ _ _ _ _ _ _ _ _ _ HR) as (_ & D & _). rewrite Forall_forall in D. auto.
Qed.

Theorem offered_proof : stmt_offered.
Proof.
  intros SS sch ms fuel main objs st w st' out HR pre off cur y ch Hin.
  pose proof (run_dec _ _ _ _ _ _ _ _ _ _ HR _ Hin) as D. cbn [dec_ok] in D.
  destruct D as (W & -> & _ & _ & _ & _ & Hf & _).
  split; [exact W|]. split; [|reflexivity]. apply offered_ok_pre; assumption.
Qed.

Theorem current_arg_proof : stmt_current_arg.
Proof.
  intros SS sch ms fuel main objs st w st' out HR.
  destruct (run_post _ _ _ _ _ _ _ _ _ _ HR) as (_ & _ & Ch & _).
  unfold chrono. apply chain_ok_rev; exact Ch.
Qed.

Theorem yield_flag_proof : stmt_yield_flag.
Proof.
  intros SS sch ms fuel main objs st w st' out HR pre off cur y ch Hin.
  pose proof (run_dec _ _ _ _ _ _ _ _ _ _ HR _ Hin) as D. cbn [dec_ok] in D. tauto.
Qed.

Lemma e_unblock_yielded : forall e t e1, e_unblock e t = Some e1 -> has_yielded e1 = has_yielded e.
Proof.
  intros e t e1 H. unfold e_unblock in H.
  destruct (get_task e t) as [tk|]; [|discriminate]. destruct (is_finished tk); [discriminate|].
  apply upd_task_inv in H. destruct H as (tk' & _ & ->). reflexivity.
Qed.

Theorem yield_consumed_proof : stmt_yield_consumed.
Proof.
  intros SS sch ms e st err e' st' evs pre off cur y ch H Hin.
  apply schedule_spec in H. inversion H as [| | | |ch0 st0 err0 e0 Hn Hb Hf Hc R]; subst; try (destruct Hin; fail).
  inversion R as [| t tk Hg Hr | t tk e1 Hg Hr Hs Hu |]; subst; try reflexivity.
  cbn [has_yielded with_current_next]. rewrite (e_unblock_yielded _ _ _ Hu). reflexivity.
Qed.

Theorem chosen_runs_proof : stmt_chosen_runs.
Proof.
  intros SS sch ms fuel main objs st w st' out HR.
  destruct (run_post _ _ _ _ _ _ _ _ _ _ HR) as (_ & _ & _ & O & _).
  unfold chrono. apply ops_ok_rev; exact O.
Qed.

Theorem none_stops_proof : stmt_none_stops.
Proof.
  intros SS sch ms fuel main objs st w st' out HR pre off cur y Hin.
  destruct (run_post _ _ _ _ _ _ _ _ _ _ HR) as (_ & _ & _ & _ & N & _).
  destruct (N _ _ _ _ Hin) as [Ho Hh]. split; [|exact Hh]. intros Hf. destruct Ho; congruence.
Qed.

(* ================================================================== *)
(* C03                                                                 *)
(* ================================================================== *)
Theorem deadlock_sound_proof : stmt_deadlock_sound.
Proof.
  intros SS sch ms fuel main objs st w st' out ids HR E.
  destruct (run_post _ _ _ _ _ _ _ _ _ _ HR) as (W & _ & _ & _ & _ & Dd & _).
  destruct (Dd _ E) as [H1 H2]. auto.
Qed.

Theorem pass_sound_proof : stmt_pass_sound.
Proof.
  intros SS sch ms fuel main objs st w st' out HR E.
  destruct (run_post _ _ _ _ _ _ _ _ _ _ HR) as (W & _ & _ & _ & _ & _ & P & _). auto.
Qed.

Theorem decision_live_proof : stmt_decision_live.
Proof.
  intros SS sch ms fuel main objs st w st' out HR pre off cur y ch Hin.
  pose proof (run_dec _ _ _ _ _ _ _ _ _ _ HR _ Hin) as D. cbn [dec_ok] in D.
  destruct D as (W & _ & _ & _ & _ & _ & Hf & _). apply decision_live; assumption.
Qed.

Theorem schedule_ends_proof : stmt_schedule_ends.
Proof.
  intros SS sch e st W Hn H. pose proof (ends_fin_cond _ W H) as Hf.
  exists (with_current_next (bump e) (current e) SFinished). split; [|reflexivity].
  rewrite schedule_msnone by exact Hn. unfold sched_main.
  change (negb (any_runnable (bump e)) || (negb (unfinished_attached (bump e)) && all_runnable_detached (bump e)))
    with (fin_cond e).
  rewrite Hf. reflexivity.
Qed.

Theorem no_internal_error_proof : stmt_no_internal_error.
Proof.
  intros SS sch ms fuel main objs st w st' out HR Hs E.
  destruct (run_post _ _ _ _ _ _ _ _ _ _ HR) as (_ & _ & _ & _ & _ & _ & _ & _ & B).
  exact (B E Hs).
Qed.

(* ================================================================== *)
(* C13 (first three)                                                   *)
(* ================================================================== *)
Theorem bound_decisions_proof : stmt_bound_decisions.
Proof.
  intros SS sch ms fuel main objs st w st' out n HR Hb pre off cur y ch Hin.
  pose proof (run_dec _ _ _ _ _ _ _ _ _ _ HR _ Hin) as D. cbn [dec_ok] in D.
  destruct D as (_ & _ & _ & _ & _ & Hbb & _). apply Hbb; exact Hb.
Qed.

Theorem bound_fail_proof : stmt_bound_fail.
Proof.
  intros SS sch ms fuel main objs st w st' out HR E.
  destruct (run_post _ _ _ _ _ _ _ _ _ _ HR) as (_ & _ & _ & _ & _ & _ & _ & B & _). auto.
Qed.

Theorem bound_continue_proof : stmt_bound_continue.
Proof.
  intros SS sch n fuel main objs st w st' out HR E.
  destruct (run_post _ _ _ _ _ _ _ _ _ _ HR) as (_ & _ & _ & _ & _ & _ & _ & B & _).
  destruct (B E) as (m & Hm & _). discriminate.
Qed.
