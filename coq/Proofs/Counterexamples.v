(* Machine-checked counterexample to the one statement of Engine/Stmt.v (C08/C03/C13) that is still
   false as written: stmt_bound_unaffected (off by one).  The earlier refutations (stmt_current_arg,
   stmt_yield_flag, stmt_none_stops, the first form of stmt_bound_unaffected, stmt_bound_total under
   the old same_frame) no longer apply: model, frame condition and statements were corrected and
   those statements are now proved.  No Admitted / Axiom. *)
From Coq Require Import List NArith Bool Arith Lia.
From SV Require Import Clock.VClock Prim.Objects Prim.Atomic Engine.Exec Engine.Inv Sched.Replay Engine.Stmt
  Lang.Prog.
Import ListNotations.

(* main = Ret, n = 1.  Without a bound: one decision, one recorded step, then the call of `schedule`
   that finds the execution finished: OPass, and length (recorded) = 1 <= 1.  Under FailAfter 1 that
   last call sees the step counter at 1 and fails: OStepBound. *)
Definition ret_exec (ms : max_steps) := run_exec scripted ms 5 Ret [] (mkScript [] 0).
Definition ret_run := ret_exec MSNone.
Definition ret_run_bounded := ret_exec (FailAfter 1).

Lemma snd_triple : forall (A B C : Type) (a : A) (b : B) (c : C), snd (a, b, c) = c.
Proof. reflexivity. Qed.
Lemma ret_run_bounded_unfold : snd ret_run_bounded = snd (run_exec scripted (FailAfter 1) 5 Ret [] (mkScript [] 0)).
Proof. reflexivity. Qed.

Lemma ret_run_facts :
  snd ret_run = OPass /\ length (recorded (w_e (fst (fst ret_run)))) = 1%nat
  /\ snd ret_run_bounded = OStepBound.
Proof. vm_compute. repeat split; reflexivity. Qed.

Lemma bound_unaffected_false : ~ stmt_bound_unaffected.
Proof.
  intros H. destruct ret_run_facts as (Eo & El & Eb).
  assert (R : Run scripted MSNone 5 Ret [] (mkScript [] 0)
                  (fst (fst ret_run)) (snd (fst ret_run)) (snd ret_run)).
  { split; [constructor|vm_compute; reflexivity]. }
  assert (Heq : run_exec scripted (FailAfter 1) 5 Ret [] (mkScript [] 0)
                = (fst (fst ret_run), snd (fst ret_run), snd ret_run)).
  { apply (H _ scripted (FailAfter 1) 1%nat _ _ _ _ _ _ _ R).
    - rewrite Eo; discriminate.
    - reflexivity.
    - rewrite El. apply le_n. }
  pose proof (eq_trans (f_equal snd Heq) (snd_triple _ _ _ _ _ _)) as Hs.
  pose proof (eq_trans (eq_sym (eq_trans (eq_sym ret_run_bounded_unfold) Eb)) (eq_trans Hs Eo)) as Hd.
  discriminate Hd.
Qed.
