(* Executions are isolated in the model of Runner::run (Engine/Runner.v): every execution of a run is the
   stand-alone execution (from the initial world) under the scheduler state it started with. *)
From Coq Require Import List NArith Bool Arith Lia.
From SV Require Import Params Clock.VClock Prim.Objects Engine.Exec Engine.Runner.
Import ListNotations.

Section Iso.
Context {SS : Type}.
Variables (fs : full_scheduler SS) (ms : max_steps) (efuel : nat) (main : code) (objs : store).

(* every execution of the run is `run_exec` from scratch: the world of an execution is a function of the scheduler
   state at its start alone, whatever ran before *)
Lemma runner_executions_standalone : forall expired iters i0 st execs st' okf,
  runner_loop_t expired i0 fs ms iters efuel main objs st = (execs, st', okf) ->
  forall k w out, nth_error execs k = Some (w, out) ->
  exists st1 st2, run_exec (fs_sched fs) ms efuel main objs st1 = (w, st2, out).
Proof.
  intros expired. induction iters as [|n IH]; intros i0 st execs st' okf H k w out Hk; cbn [runner_loop_t] in H.
  - inversion H; subst. destruct k; discriminate.
  - destruct (expired i0). { inversion H; subst. destruct k; discriminate. }
    destruct (fs_new_execution fs st) as [st1|]. 2:{ inversion H; subst. destruct k; discriminate. }
    destruct (run_exec (fs_sched fs) ms efuel main objs st1) as [[w0 st2] out0] eqn:Er.
    destruct (is_failure out0).
    + inversion H; subst. destruct k as [|k]; [|destruct k; discriminate].
      cbn in Hk. inversion Hk; subst. do 2 eexists. exact Er.
    + destruct (runner_loop_t expired (S i0) fs ms n efuel main objs st2) as [[rest st3] okf'] eqn:Erest.
      inversion H; subst. destruct k as [|k].
      * cbn in Hk. inversion Hk; subst. do 2 eexists. exact Er.
      * cbn in Hk. eapply IH; [exact Erest|exact Hk].
Qed.
End Iso.

(* the initial world: one task (the main thread, id 0), zero clocks, no recorded step, step counters zero, no pending
   yield, the given objects *)
Lemma init_world_fresh : forall main objs,
  let w := init_world main objs in
  w_s w = objs /\ w_trace w = [] /\ recorded (w_e w) = [] /\ length (tasks (w_e w)) = 1.
Proof. intros main objs. cbn. repeat split; reflexivity. Qed.
