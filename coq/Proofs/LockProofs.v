(* ------------------------------------------------------------------------- *)
(*  SV.Proofs.LockProofs : Mutex / RwLock part of property C04.               *)
(*                                                                            *)
(*  Object-level invariants of Mutex and RwLock (Lang/SyncOps.v), proved      *)
(*  segment by segment.  A "segment" is the sequence of `Atomic` blocks an    *)
(*  operation executes between two scheduling points (`Switch`); each segment *)
(*  is defined here as a plain Gallina composition of the very functions the  *)
(*  `code` trees call, and a `*_run` lemma connects it to `run_seg` on the    *)
(*  code tree.  No Admitted / admit / Axiom / Parameter.                      *)
(* ------------------------------------------------------------------------- *)
From Coq Require Import List NArith Bool Arith Lia.
From SV Require Import Params Clock.VClock Prim.Objects Engine.Exec Prim.Semaphore Lang.Code Lang.SyncOps.
Import ListNotations.
Local Open Scope N_scope.

Arguments N.add : simpl never.
Arguments N.sub : simpl never.
Arguments N.eqb : simpl never.
Arguments N.ltb : simpl never.
Arguments N.leb : simpl never.
Arguments N.of_nat : simpl never.

(* ========================================================================= *)
(*  1. Store lemmas                                                           *)
(* ========================================================================= *)

Lemma get_set_same : forall (st : store) i o o0,
  get_obj st i = Some o0 -> get_obj (set_obj st i o) i = Some o.
Proof.
  unfold get_obj. induction st as [|x r IH]; intros i o o0 Hg.
  - destruct i; discriminate Hg.
  - destruct i as [|j]; cbn [set_obj nth_error] in *.
    + reflexivity.
    + eapply IH; eassumption.
Qed.

Lemma get_set_other : forall (st : store) i j o,
  i <> j -> get_obj (set_obj st i o) j = get_obj st j.
Proof.
  unfold get_obj. induction st as [|x r IH]; intros i j o Hne.
  - destruct i; reflexivity.
  - destruct i as [|i']; destruct j as [|j']; cbn [set_obj nth_error]; try reflexivity.
    + exfalso; apply Hne; reflexivity.
    + apply IH. intro Heq; apply Hne; subst; reflexivity.
Qed.

Lemma set_obj_same : forall (st : store) i o,
  get_obj st i = Some o -> set_obj st i o = st.
Proof.
  unfold get_obj. induction st as [|x r IH]; intros i o Hg.
  - destruct i; reflexivity.
  - destruct i as [|j]; cbn [set_obj nth_error] in *.
    + inversion Hg; reflexivity.
    + f_equal. apply IH; assumption.
Qed.

Lemma with_sem_of : forall o s, sem_of o = Some s -> with_sem o s = o.
Proof. intros o s Hs. destruct o; cbn in *; inversion Hs; reflexivity. Qed.

(* ========================================================================= *)
(*  2. The execution state: the engine calls made by the semaphore keep the   *)
(*     scheduling registers (in particular `me`)                              *)
(* ========================================================================= *)

Definition same_regs (e e' : exec) : Prop :=
  current e' = current e /\ panicking e' = panicking e /\ in_cleanup e' = in_cleanup e.

Lemma same_regs_refl : forall e, same_regs e e.
Proof. intros e; repeat split. Qed.

Lemma same_regs_trans : forall e1 e2 e3, same_regs e1 e2 -> same_regs e2 e3 -> same_regs e1 e3.
Proof.
  intros e1 e2 e3 [Ha [Hb Hc]] [Ha' [Hb' Hc']]. repeat split; congruence.
Qed.

Lemma same_regs_me : forall e e', same_regs e e' -> me e' = me e.
Proof. intros e e' [Hc _]. unfold me. rewrite Hc. reflexivity. Qed.

Lemma upd_task_regs : forall e t f e', upd_task e t f = Some e' -> same_regs e e'.
Proof.
  intros e t f e' Hu. unfold upd_task in Hu. destruct (get_task e t); [|discriminate].
  inversion Hu; subst. repeat split.
Qed.

Lemma e_block_regs : forall e t b e', e_block e t b = Some e' -> same_regs e e'.
Proof.
  intros e t b e' Hb. unfold e_block in Hb. destruct (get_task e t) as [tk|]; [|discriminate].
  destruct (is_finished tk); [discriminate|]. eapply upd_task_regs; eassumption.
Qed.

Lemma e_unblock_regs : forall e t e', e_unblock e t = Some e' -> same_regs e e'.
Proof.
  intros e t e' Hb. unfold e_unblock in Hb. destruct (get_task e t) as [tk|]; [|discriminate].
  destruct (is_finished tk); [discriminate|]. eapply upd_task_regs; eassumption.
Qed.

Lemma e_increment_clock_regs : forall e t e', e_increment_clock e t = Some e' -> same_regs e e'.
Proof.
  intros e t e' Hb. unfold e_increment_clock in Hb. destruct (get_task e t) as [tk|]; [|discriminate].
  destruct (increment (t_clock tk) t); [|discriminate]. eapply upd_task_regs; eassumption.
Qed.

Lemma e_join_clock_regs : forall e t c e', e_join_clock e t c = Some e' -> same_regs e e'.
Proof. intros e t c e' Hb. unfold e_join_clock in Hb. eapply upd_task_regs; eassumption. Qed.

Lemma e_update_clock_regs : forall e t c e', e_update_clock e t c = Some e' -> same_regs e e'.
Proof.
  intros e t c e' Hb. unfold e_update_clock in Hb.
  destruct (e_increment_clock e t) as [e1|] eqn:Hi; [|discriminate].
  eapply same_regs_trans; [eapply e_increment_clock_regs; eassumption | eapply e_join_clock_regs; eassumption].
Qed.

Lemma e_sleep_unless_woken_regs : forall e t e', e_sleep_unless_woken e t = Some e' -> same_regs e e'.
Proof.
  intros e t e' Hb. unfold e_sleep_unless_woken in Hb. destruct (get_task e t) as [tk|]; [|discriminate].
  destruct (t_woken tk); [eapply upd_task_regs; eassumption|].
  destruct (is_finished tk); [discriminate|]. eapply upd_task_regs; eassumption.
Qed.

(* a fold over an optional accumulator preserves any preorder its step preserves *)
Lemma fold_opt_rel : forall {A B : Type} (R : A -> A -> Prop) (f : option A -> B -> option A),
  (forall a, R a a) -> (forall a b c, R a b -> R b c -> R a c) ->
  (forall b, f None b = None) ->
  (forall a b a', f (Some a) b = Some a' -> R a a') ->
  forall l a a', fold_left f l (Some a) = Some a' -> R a a'.
Proof.
  intros A B R f Hrefl Htrans Hnone Hstep l. induction l as [|b r IH]; intros a a' Hf.
  - cbn in Hf. inversion Hf; subst. apply Hrefl.
  - cbn [fold_left] in Hf. destruct (f (Some a) b) as [a1|] eqn:Hs.
    + eapply Htrans; [eapply Hstep; eassumption | eapply IH; eassumption].
    + exfalso. clear -Hf Hnone. induction r as [|b' r' IH']; cbn [fold_left] in Hf.
      * discriminate.
      * rewrite Hnone in Hf. apply IH'; assumption.
Qed.

Lemma reblock_if_unfair_regs : forall e s e', reblock_if_unfair e s = Some e' -> same_regs e e'.
Proof.
  intros e s e' Hr. unfold reblock_if_unfair in Hr. destruct (sm_fair s).
  - inversion Hr; subst. apply same_regs_refl.
  - revert Hr. apply (fold_opt_rel same_regs).
    + apply same_regs_refl.
    + apply same_regs_trans.
    + reflexivity.
    + intros a b a' Hs. unfold reblock_step in Hs. destruct (get_waiter s b) as [w|]; [|discriminate].
      destruct (_ && _).
      * eapply e_block_regs; eassumption.
      * inversion Hs; subst. apply same_regs_refl.
Qed.

(* ========================================================================= *)
(*  3. The semaphore: what each function does to (avail, closed, fair)        *)
(* ========================================================================= *)

(* everything except the permit accounting (avail / batches / last_acquire) is kept *)
Definition sem_rest (s s' : sem) : Prop :=
  sm_queue s' = sm_queue s /\ sm_wtab s' = sm_wtab s /\ sm_closed s' = sm_closed s /\ sm_fair s' = sm_fair s.

Lemma sem_rest_refl : forall s, sem_rest s s.
Proof. intros s; repeat split. Qed.

Lemma permits_acquire_ok : forall s k c s' clk,
  permits_acquire s k c = PaOk s' clk ->
  k <= sm_avail s /\ sm_avail s' = sm_avail s - k /\ sem_rest s s'.
Proof.
  intros s k c s' clk Hp. unfold permits_acquire in Hp.
  destruct (N.eqb k 0) eqn:Hk0.
  - apply N.eqb_eq in Hk0. inversion Hp; subst. split; [lia|]. split; [lia|]. apply sem_rest_refl.
  - destruct (N.leb k (sm_avail s)) eqn:Hle; [|discriminate].
    apply N.leb_le in Hle.
    destruct (take_batches (init_batches s) k []) as [[bs' clk'] missing].
    destruct (N.eqb missing 0); [|discriminate].
    inversion Hp; subst. split; [assumption|]. split; [reflexivity|]. repeat split.
Qed.

Lemma permits_acquire_nopermits : forall s k c,
  permits_acquire s k c = PaNoPermits -> sm_avail s < k.
Proof.
  intros s k c Hp. unfold permits_acquire in Hp.
  destruct (N.eqb k 0); [discriminate|].
  destruct (N.leb k (sm_avail s)) eqn:Hle.
  - destruct (take_batches (init_batches s) k []) as [[bs' clk'] missing].
    destruct (N.eqb missing 0); discriminate.
  - apply N.leb_gt in Hle. assumption.
Qed.

Definition acq_post (s s' : sem) (e e' : exec) (k : N) (r : acq_res) : Prop :=
  match r with
  | AOk => sm_closed s = false /\ k <= sm_avail s /\ sm_avail s' = sm_avail s - k
           /\ (sm_queue s = [] \/ sm_fair s = false)
  | ANoPermits => s' = s /\ e' = e /\ sm_closed s = false
                  /\ (sm_avail s < k \/ (sm_queue s <> [] /\ sm_fair s = true))
  | AClosed => s' = s /\ e' = e /\ sm_closed s = true
  end.

Lemma acquire_permits_spec : forall e s k e' s' r,
  acquire_permits e s k = Some (e', s', r) ->
  k <> 0 /\ same_regs e e' /\ sem_rest s s' /\ acq_post s s' e e' k r.
Proof.
  intros e s k e' s' r Ha. unfold acquire_permits in Ha.
  destruct (N.eqb k 0) eqn:Hk0; [discriminate|]. apply N.eqb_neq in Hk0.
  split; [assumption|].
  destruct (sm_closed s) eqn:Hcl.
  - injection Ha as <- <- <-. split; [apply same_regs_refl|]. split; [apply sem_rest_refl|].
    cbn. auto.
  - destruct ((match sm_queue s with [] => true | _ :: _ => false end) || negb (sm_fair s)) eqn:Hq.
    + destruct (me e) as [m|]; [|discriminate].
      destruct (e_clock e m) as [mc|]; [|discriminate].
      destruct (permits_acquire s k mc) as [s1 clk| |] eqn:Hp; [| |discriminate].
      * destruct (e_update_clock e m clk) as [e1|] eqn:Hu; [|discriminate].
        injection Ha as <- <- <-.
        apply permits_acquire_ok in Hp. destruct Hp as [Hle [Hav Hrest]].
        split; [eapply e_update_clock_regs; eassumption|]. split; [assumption|].
        cbn. split; [assumption|]. split; [assumption|]. split; [assumption|].
        apply orb_true_iff in Hq. destruct Hq as [Hq|Hq].
        -- left. destruct (sm_queue s); [reflexivity|discriminate].
        -- right. apply negb_true_iff in Hq. assumption.
      * injection Ha as <- <- <-. apply permits_acquire_nopermits in Hp.
        split; [apply same_regs_refl|]. split; [apply sem_rest_refl|]. cbn. auto.
    + injection Ha as <- <- <-.
      split; [apply same_regs_refl|]. split; [apply sem_rest_refl|]. cbn.
      split; [reflexivity|]. split; [reflexivity|]. split; [assumption|]. right.
      apply orb_false_iff in Hq. destruct Hq as [Hq1 Hq2]. apply negb_false_iff in Hq2.
      split; [|assumption]. destruct (sm_queue s); [discriminate|]. intro Hc; discriminate.
Qed.

(* the body of try_acquire: same accounting; on failure the semaphore is untouched and only the
   caller's clock moves *)
Lemma sem_try_acquire_spec : forall e s k e' s' r,
  sem_try_acquire e s k = Some (e', s', r) ->
  k <> 0 /\ same_regs e e' /\ sem_rest s s' /\
  match r with
  | AOk => sm_closed s = false /\ k <= sm_avail s /\ sm_avail s' = sm_avail s - k
           /\ (sm_queue s = [] \/ sm_fair s = false)
  | ANoPermits => s' = s /\ sm_closed s = false
                  /\ (sm_avail s < k \/ (sm_queue s <> [] /\ sm_fair s = true))
                  /\ exists m, me e = Some m /\ e_update_clock e m (sm_last_acquire s) = Some e'
  | AClosed => s' = s /\ sm_closed s = true
               /\ exists m, me e = Some m /\ e_update_clock e m (sm_last_acquire s) = Some e'
  end.
Proof.
  intros e s k e' s' r Ht. unfold sem_try_acquire in Ht.
  destruct (acquire_permits e s k) as [[[e1 s1] r1]|] eqn:Ha; [|discriminate].
  apply acquire_permits_spec in Ha. destruct Ha as [Hk [Hregs [Hrest Hpost]]].
  split; [assumption|].
  destruct r1; cbn in Hpost.
  - destruct (reblock_if_unfair e1 s1) as [e2|] eqn:Hr; [|discriminate].
    injection Ht as <- <- <-. apply reblock_if_unfair_regs in Hr.
    split; [eapply same_regs_trans; eassumption|]. split; [assumption|]. assumption.
  - destruct Hpost as [Hs [He [Hcl Hwhy]]]. subst s1 e1.
    destruct (me e) as [m|] eqn:Hme; [|discriminate].
    destruct (e_update_clock e m (sm_last_acquire s)) as [e2|] eqn:Hu; [|discriminate].
    injection Ht as <- <- <-.
    split; [eapply e_update_clock_regs; eassumption|]. split; [assumption|].
    split; [reflexivity|]. split; [assumption|]. split; [assumption|].
    exists m. split; [reflexivity|assumption].
  - destruct Hpost as [Hs [He Hcl]]. subst s1 e1.
    destruct (me e) as [m|] eqn:Hme; [|discriminate].
    destruct (e_update_clock e m (sm_last_acquire s)) as [e2|] eqn:Hu; [|discriminate].
    injection Ht as <- <- <-.
    split; [eapply e_update_clock_regs; eassumption|]. split; [assumption|].
    split; [reflexivity|]. split; [assumption|].
    exists m. split; [reflexivity|assumption].
Qed.

(* ========================================================================= *)
(*  4. The waiter table.  `wtk P l l'`: every waiter of l is still there in   *)
(*     l', asks for the same number of permits, and (for the indices in P)    *)
(*     its has_permits flag is unchanged.                                      *)
(* ========================================================================= *)

Definition wtk (P : nat -> Prop) (l l' : list waiter) : Prop :=
  forall j w, nth_error l j = Some w ->
    exists w', nth_error l' j = Some w' /\ wt_n w' = wt_n w /\ (P j -> wt_has w' = wt_has w).

Lemma wtk_refl : forall P l, wtk P l l.
Proof. intros P l j w Hj. exists w. auto. Qed.

Lemma wtk_trans : forall P l1 l2 l3, wtk P l1 l2 -> wtk P l2 l3 -> wtk P l1 l3.
Proof.
  intros P l1 l2 l3 H12 H23 j w Hj.
  destruct (H12 j w Hj) as [w2 [Hj2 [Hn2 Hh2]]].
  destruct (H23 j w2 Hj2) as [w3 [Hj3 [Hn3 Hh3]]].
  exists w3. split; [assumption|]. split; [congruence|].
  intro HP. rewrite (Hh3 HP). apply Hh2; assumption.
Qed.

Lemma wtk_weaken : forall (P Q : nat -> Prop) l l', (forall j, Q j -> P j) -> wtk P l l' -> wtk Q l l'.
Proof.
  intros P Q l l' HQP Hk j w Hj. destruct (Hk j w Hj) as [w' [Hj' [Hn Hh]]].
  exists w'. auto.
Qed.

Lemma nth_error_list_upd : forall {A : Type} (l : list A) i j f,
  nth_error (list_upd l i f) j = if Nat.eqb i j then option_map f (nth_error l j) else nth_error l j.
Proof.
  intros A l. induction l as [|x r IH]; intros i j f.
  - destruct i; destruct j; cbn; try reflexivity. destruct (Nat.eqb i j); reflexivity.
  - destruct i as [|i']; destruct j as [|j']; cbn [list_upd nth_error Nat.eqb option_map]; try reflexivity.
    apply IH.
Qed.

Lemma wtk_list_upd : forall (P : nat -> Prop) l i f,
  (forall w, wt_n (f w) = wt_n w) ->
  (P i -> forall w, wt_has (f w) = wt_has w) ->
  wtk P l (list_upd l i f).
Proof.
  intros P l i f Hn Hh j w Hj. rewrite nth_error_list_upd.
  destruct (Nat.eqb i j) eqn:Hij.
  - apply Nat.eqb_eq in Hij. subst j. rewrite Hj. cbn. exists (f w).
    split; [reflexivity|]. split; [apply Hn|]. intro HP. apply Hh; assumption.
  - exists w. auto.
Qed.

Lemma wtk_app : forall P l x, wtk P l (l ++ x).
Proof.
  intros P l x j w Hj. exists w. split; [|auto].
  rewrite nth_error_app1; [assumption|]. apply nth_error_Some. congruence.
Qed.

Definition All : nat -> Prop := fun _ => True.

(* the permit accounting seen by Mutex / RwLock *)
Lemma remove_waiter_unfair : forall e s wid e' s',
  remove_waiter e s wid = Some (e', s') -> sm_fair s = false ->
  e' = e /\ sm_avail s' = sm_avail s /\ sm_closed s' = sm_closed s /\ sm_fair s' = false
  /\ wtk All (sm_wtab s) (sm_wtab s').
Proof.
  intros e s wid e' s' Hr Hf. unfold remove_waiter in Hr.
  destruct (sm_closed s) eqn:Hcl; [discriminate|].
  destruct (get_waiter s wid) as [w|]; [|discriminate].
  destruct (wt_has w); [discriminate|].
  destruct (position_nat wid (sm_queue s)) as [idx|]; [|discriminate].
  destruct (negb (wt_queued w)); [discriminate|].
  rewrite Hf in Hr. cbn [andb] in Hr. injection Hr as <- <-.
  split; [reflexivity|]. split; [reflexivity|]. split; [assumption|]. split; [assumption|].
  cbn [sm_wtab upd_waiter set_wtab set_queue]. apply wtk_list_upd; intros; reflexivity.
Qed.

Lemma enqueue_waiter_spec : forall s wid s',
  enqueue_waiter s wid = Some s' ->
  sm_avail s' = sm_avail s /\ sm_closed s' = sm_closed s /\ sm_fair s' = sm_fair s
  /\ wtk All (sm_wtab s) (sm_wtab s').
Proof.
  intros s wid s' He. unfold enqueue_waiter in He.
  destruct (get_waiter s wid) as [w|]; [|discriminate].
  destruct (wt_has w); [discriminate|]. destruct (wt_queued w); [discriminate|].
  injection He as <-. repeat split.
  cbn [sm_wtab upd_waiter set_wtab set_queue]. apply wtk_list_upd; intros; reflexivity.
Qed.

Definition poll_post (s s' : sem) (e e' : exec) (w : waiter) (r : poll_res) : Prop :=
  match r with
  | PReadyOk => sm_closed s = false /\ sm_closed s' = false /\ wt_n w <> 0
                /\ wt_n w <= sm_avail s /\ sm_avail s' = sm_avail s - wt_n w
  | PReadyErr => sm_closed s = true /\ s' = s /\ e' = e
  | PPending => sm_closed s = false /\ sm_closed s' = false /\ sm_avail s' = sm_avail s
                /\ sm_avail s < wt_n w
  end.

(* Acquire::poll on an unfair semaphore for a waiter that was not handed permits *)
Lemma sem_poll_spec : forall e s wid wk e' s' r w,
  sem_poll e s wid wk = Some (e', s', r) ->
  get_waiter s wid = Some w -> wt_has w = false -> sm_fair s = false ->
  same_regs e e' /\ sm_fair s' = false /\ poll_post s s' e e' w r
  /\ wtk (fun j => j <> wid \/ r <> PReadyOk) (sm_wtab s) (sm_wtab s').
Proof.
  intros e s wid wk e' s' r w Hp Hw Hhas Hfair. unfold sem_poll in Hp.
  rewrite Hw in Hp. destruct (me e) as [m|] eqn:Hme; [|discriminate].
  rewrite Hhas in Hp.
  destruct (sm_closed s) eqn:Hcl.
  - destruct (wt_queued w); [discriminate|]. injection Hp as <- <- <-.
    split; [apply same_regs_refl|]. split; [assumption|]. split; [cbn; auto|]. apply wtk_refl.
  - destruct (negb (eqb (wt_queued w) match wt_waker w with Some _ => true | None => false end)); [discriminate|].
    rewrite Hfair in Hp. cbn [andb] in Hp.
    destruct (acquire_permits e s (wt_n w)) as [[[e1 s1] r1]|] eqn:Ha; [|discriminate].
    apply acquire_permits_spec in Ha. destruct Ha as [Hk [Hregs [[Hq [Hwt [Hc Hf]]] Hpost]]].
    destruct r1; cbn in Hpost.
    + destruct Hpost as [_ [Hle [Hav _]]].
      assert (Hrm : exists e2 s2, (if wt_queued w then remove_waiter e1 s1 wid else Some (e1, s1)) = Some (e2, s2)
                     /\ e2 = e1 /\ sm_avail s2 = sm_avail s1 /\ sm_closed s2 = sm_closed s1 /\ sm_fair s2 = false
                     /\ wtk All (sm_wtab s1) (sm_wtab s2)).
      { destruct (wt_queued w).
        - destruct (remove_waiter e1 s1 wid) as [[e2 s2]|] eqn:Hr; [|discriminate].
          exists e2, s2. split; [reflexivity|]. apply remove_waiter_unfair in Hr; [|congruence]. assumption.
        - exists e1, s1. split; [reflexivity|]. split; [reflexivity|]. split; [reflexivity|].
          split; [reflexivity|]. split; [congruence|]. apply wtk_refl. }
      destruct Hrm as [e2 [s2 [Hrm [He2 [Hav2 [Hc2 [Hf2 Hk2]]]]]]]. rewrite Hrm in Hp. subst e2.
      destruct (reblock_if_unfair e1 (upd_waiter s2 wid (fun w0 => w_set_has w0 true))) as [e3|] eqn:Hrb; [|discriminate].
      injection Hp as <- <- <-. apply reblock_if_unfair_regs in Hrb.
      split; [eapply same_regs_trans; eassumption|]. split; [assumption|].
      split.
      * cbn. cbn [sm_closed sm_avail upd_waiter set_wtab]. rewrite Hc2, Hc, Hav2, Hav. auto.
      * cbn [sm_wtab upd_waiter set_wtab]. rewrite <- Hwt.
        eapply wtk_trans.
        -- eapply wtk_weaken; [|exact Hk2]. intros; exact I.
        -- apply wtk_list_upd; [intros; reflexivity|].
           intros [Hne|Hne]; exfalso; apply Hne; reflexivity.
    + destruct Hpost as [Hs1 [He1 [_ Hwhy]]]. subst s1 e1.
      assert (Hlt : sm_avail s < wt_n w).
      { destruct Hwhy as [Hlt|[_ Hft]]; [assumption|congruence]. }
      set (s2 := upd_waiter s wid (fun w0 => w_set_task (w_set_waker w0 (Some wk)) m)) in *.
      assert (Hk2 : wtk All (sm_wtab s) (sm_wtab s2)).
      { unfold s2. cbn [sm_wtab upd_waiter set_wtab]. apply wtk_list_upd; intros; reflexivity. }
      assert (Hfin : exists s3, Some (e, s3, PPending) = Some (e', s', r)
                       /\ sm_avail s3 = sm_avail s /\ sm_closed s3 = sm_closed s /\ sm_fair s3 = sm_fair s
                       /\ wtk All (sm_wtab s) (sm_wtab s3)).
      { destruct (wt_queued w).
        - exists s2. split; [assumption|]. repeat split. assumption.
        - destruct (enqueue_waiter s2 wid) as [s3|] eqn:Hen; [|discriminate].
          exists s3. split; [assumption|]. apply enqueue_waiter_spec in Hen.
          destruct Hen as [Ha3 [Hc3 [Hf3 Hk3]]]. split; [exact Ha3|]. split; [exact Hc3|].
          split; [exact Hf3|]. eapply wtk_trans; eassumption. }
      destruct Hfin as [s3 [Heq [Ha3 [Hc3 [Hf3 Hk3]]]]]. injection Heq as <- <- <-.
      split; [apply same_regs_refl|]. split; [congruence|].
      split; [cbn; rewrite Hc3; auto|].
      eapply wtk_weaken; [|exact Hk3]. intros; exact I.
    + discriminate.
Qed.

(* the body of release() on an unfair semaphore *)
Lemma fold_unqueue_spec : forall l s,
  let s' := fold_left (fun s wid => upd_waiter s wid (fun w => w_set_queued w false)) l s in
  sm_avail s' = sm_avail s /\ sm_fair s' = sm_fair s /\ wtk All (sm_wtab s) (sm_wtab s').
Proof.
  induction l as [|x r IH]; intros s; cbn [fold_left].
  - repeat split. apply wtk_refl.
  - destruct (IH (upd_waiter s x (fun w => w_set_queued w false))) as [Ha [Hf Hk]].
    split; [exact Ha|]. split; [exact Hf|].
    eapply wtk_trans; [|exact Hk]. cbn [sm_wtab upd_waiter set_wtab].
    apply wtk_list_upd; intros; reflexivity.
Qed.

Lemma sem_release_spec : forall e s k e' s',
  sem_release e s k = Some (e', s') -> k <> 0 -> sm_fair s = false ->
  exists stop, should_stop e = Some stop
    /\ sm_avail s' = sm_avail s + k /\ sm_closed s' = (sm_closed s || stop) /\ sm_fair s' = false
    /\ wtk All (sm_wtab s) (sm_wtab s').
Proof.
  intros e s k e' s' Hr Hk Hf. unfold sem_release in Hr.
  destruct (N.eqb k 0) eqn:Hk0; [apply N.eqb_eq in Hk0; contradiction|].
  destruct (should_stop e) as [[|]|] eqn:Hstop; [| |discriminate].
  - exists true. split; [reflexivity|]. injection Hr as <- <-.
    destruct (fold_unqueue_spec (sm_queue s) (permits_release s k [])) as [Ha [Hff Hk']].
    cbn [sm_avail sm_closed sm_fair sm_wtab set_closed set_queue].
    split; [rewrite Ha; reflexivity|]. split; [rewrite orb_true_r; reflexivity|].
    split; [rewrite Hff; exact Hf|]. exact Hk'.
  - exists false. split; [reflexivity|].
    destruct (me e) as [m|]; [|discriminate].
    destruct (e_increment_clock e m) as [e1|]; [|discriminate].
    destruct (e_clock e1 m) as [mc|]; [|discriminate].
    assert (Hf1 : sm_fair (permits_release s k mc) = false) by exact Hf.
    rewrite Hf1 in Hr.
    destruct (fold_left _ _ _) as [e2|]; [|discriminate].
    injection Hr as <- <-.
    split; [reflexivity|]. split; [rewrite orb_false_r; reflexivity|]. split; [exact Hf|].
    apply wtk_refl.
Qed.

Lemma should_stop_panicking : forall e, panicking e = true -> should_stop e = Some true.
Proof. intros e Hp. unfold should_stop. rewrite Hp. reflexivity. Qed.

(* Acquire::new *)
Definition waiter_fresh (s : sem) (wid : nat) (k : N) : Prop :=
  exists w, get_waiter s wid = Some w /\ wt_has w = false /\ wt_n w = k.

Lemma sem_new_waiter_spec : forall e s k s' wid,
  sem_new_waiter e s k = Some (s', wid) ->
  sm_avail s' = sm_avail s /\ sm_closed s' = sm_closed s /\ sm_fair s' = sm_fair s
  /\ sm_queue s' = sm_queue s /\ wtk All (sm_wtab s) (sm_wtab s') /\ waiter_fresh s' wid k.
Proof.
  intros e s k s' wid Hn. unfold sem_new_waiter in Hn.
  destruct (me e) as [m|]; [|discriminate]. destruct (e_clock e m) as [c|]; [|discriminate].
  injection Hn as <- <-. repeat split.
  - cbn [sm_wtab set_wtab]. apply wtk_app.
  - eexists. split.
    + unfold get_waiter. cbn [sm_wtab set_wtab]. rewrite nth_error_app2; [|apply Nat.le_refl].
      rewrite Nat.sub_diag. reflexivity.
    + split; reflexivity.
Qed.

(* a fresh waiter stays fresh while other waiters are served *)
Lemma waiter_fresh_kept : forall (P : nat -> Prop) s s' wid k,
  wtk P (sm_wtab s) (sm_wtab s') -> P wid -> waiter_fresh s wid k -> waiter_fresh s' wid k.
Proof.
  intros P s s' wid k Hk HP [w [Hw [Hh Hn]]]. destruct (Hk wid w Hw) as [w' [Hw' [Hn' Hh']]].
  exists w'. split; [exact Hw'|]. split; [rewrite (Hh' HP); exact Hh | congruence].
Qed.

(* ========================================================================= *)
(*  5. The blocks of the code trees, named, and the shape of the trees        *)
(*     (every `*_shape` lemma is by reflexivity: the blocks below ARE the     *)
(*     closures of Lang/SyncOps.v)                                            *)
(* ========================================================================= *)

Definition raw_block := exec -> store -> option (exec * store * list N).

Definition new_waiter_block (oid : nat) (k : N) : raw_block :=
  fun e st => match on_sem oid st (fun s => sem_new_waiter e s k) with
              | Some (o, (s', wid)) => Some (e, set_obj st oid (with_sem o s'), [N.of_nat wid])
              | None => None end.

Definition needs_switch_block (oid wid : nat) (never_polled : bool) : exec -> store -> option (exec * store * bool) :=
  fun e st => match on_sem oid st (fun s => poll_needs_switch s wid never_polled) with
              | Some (_, b) => Some (e, st, b) | None => None end.

Definition poll_code (r : poll_res) : N := match r with PReadyOk => 0 | PReadyErr => 1 | PPending => 2 end.

Definition poll_block (oid wid : nat) : raw_block :=
  fun e st =>
    match me e with
    | None => None
    | Some m =>
      match on_sem oid st (fun s => sem_poll e s wid m) with
      | Some (o, (e', s', r)) => Some (e', set_obj st oid (with_sem o s'), [poll_code r])
      | None => None
      end
    end.

Definition sleep_block : exec -> store -> option (exec * store) :=
  fun e st => match me e with
              | Some m => match e_sleep_unless_woken e m with Some e' => Some (e', st) | None => None end
              | None => None end.

(* what follows the conditional switch of one round of block_on's loop *)
Definition poll_body (f : nat) (oid wid : nat) (kont : bool -> code) : code :=
  Atomic (poll_block oid wid)
    (fun a => match a with
              | [0%N] => kont true
              | [1%N] => kont false
              | _ => atomic_u sleep_block (Switch (poll_loop f oid wid false kont))
              end).

Lemma poll_loop_shape : forall f oid wid np kont,
  poll_loop (S f) oid wid np kont
  = atomic_b (needs_switch_block oid wid np) (fun sw => switch_if sw (poll_body f oid wid kont)).
Proof. reflexivity. Qed.

Lemma acquire_blocking_shape : forall oid k kont,
  acquire_blocking oid k kont
  = Atomic (new_waiter_block oid k)
      (fun a => match a with [w] => poll_loop POLL_FUEL oid (N.to_nat w) true kont | _ => Panic end).
Proof. reflexivity. Qed.

Definition try_block (oid : nat) (k : N) : raw_block :=
  fun e st => match on_sem oid st (fun s => sem_try_acquire e s k) with
              | Some (o, (e', s', r)) => Some (e', set_obj st oid (with_sem o s'), [n_of_acq r])
              | None => None end.

Lemma sem_try_code_shape : forall oid k kont,
  sem_try_code oid k kont
  = Switch (Atomic (try_block oid k)
              (fun a => match a with [0%N] => kont AOk | [1%N] => kont ANoPermits | _ => kont AClosed end)).
Proof. reflexivity. Qed.

(* ---- Mutex ---- *)
Definition mutex_check_block (oid : nat) : exec -> store -> option (exec * store * bool) :=
  fun e st =>
    match me e, get_obj st oid with
    | Some m, Some (OMutex h s p) =>
      if sm_closed s then Some (e, st, true)
      else match h with
           | Some h' => if Nat.eqb h' m then None else Some (e, st, false)
           | None => Some (e, st, false)
           end
    | _, _ => None
    end.

Definition lock_kont (finish : code) : bool -> code := fun ok => if ok then finish else Panic.

Definition mutex_finish (oid : nat) (kont : lock_res -> code) : code :=
  atomic_b (fun e st => mutex_set_holder e st oid) (fun p => kont (if p then LkPoisoned else LkOk)).

Lemma mutex_lock_code_shape : forall oid kont,
  mutex_lock_code oid kont
  = atomic_b (mutex_check_block oid)
      (fun closed => if closed then Switch (mutex_finish oid kont)
                     else acquire_blocking oid 1 (lock_kont (mutex_finish oid kont))).
Proof. reflexivity. Qed.

Definition mutex_try_set (oid : nat) : exec -> store -> option (exec * store * bool) :=
  fun e st => match me e, get_obj st oid with
              | Some m, Some (OMutex _ s p) => Some (e, set_obj st oid (OMutex (Some m) s p), p)
              | _, _ => None end.

Definition mutex_try_kont (oid : nat) (kont : lock_res -> code) : acq_res -> code :=
  fun r => match r with
           | AOk => atomic_b (mutex_try_set oid) (fun p => kont (if p then LkPoisoned else LkOk))
           | _ => kont LkWouldBlock
           end.

Lemma mutex_try_lock_code_shape : forall oid kont,
  mutex_try_lock_code oid kont = sem_try_code oid 1 (mutex_try_kont oid kont).
Proof. reflexivity. Qed.

Definition mutex_unlock_block (oid : nat) : exec -> store -> option (exec * store) :=
  fun e st =>
    match on_sem oid st (fun s => sem_release e s 1) with
    | Some (OMutex _ _ p, (e', s')) => Some (e', set_obj st oid (OMutex None s' (p || panicking e)))
    | _ => None end.

Lemma mutex_unlock_code_shape : forall oid kont,
  mutex_unlock_code oid kont = Switch (atomic_u (mutex_unlock_block oid) kont).
Proof. reflexivity. Qed.

(* ---- RwLock ---- *)
Definition rw_check_block (oid : nat) : exec -> store -> option (exec * store * bool) :=
  fun e st =>
    match me e, get_obj st oid with
    | Some m, Some (ORwLock w rs s p) =>
      if sm_closed s then Some (e, st, true)
      else if (match w with Some w' => Nat.eqb w' m | None => false end) || existsb (Nat.eqb m) rs then None
      else Some (e, st, false)
    | _, _ => None
    end.

Definition rw_finish (oid : nat) (write : bool) (kont : lock_res -> code) : code :=
  atomic_b (fun e st => rw_take e st oid write) (fun p => kont (if p then LkPoisoned else LkOk)).

Lemma rw_lock_code_shape : forall oid write kont,
  rw_lock_code oid write kont
  = atomic_b (rw_check_block oid)
      (fun closed => if closed then Switch (rw_finish oid write kont)
                     else acquire_blocking oid (rw_permits write) (lock_kont (rw_finish oid write kont))).
Proof. reflexivity. Qed.

(* the holder update of try_read / try_write; second answer = 1: the caller is already a reader,
   the permits must be given back *)
Definition rw_try_block (oid : nat) (write : bool) : raw_block :=
  fun e st =>
    match me e, get_obj st oid with
    | Some m, Some (ORwLock w rs s p) =>
      match write, w, rs with
      | true, None, [] => Some (e, set_obj st oid (ORwLock (Some m) [] s p), [n_of_lock (if p then LkPoisoned else LkOk); 0%N])
      | false, None, _ =>
        if existsb (Nat.eqb m) rs then Some (e, st, [n_of_lock LkWouldBlock; 1%N])
        else Some (e, set_obj st oid (ORwLock None (rs ++ [m]) s p), [n_of_lock (if p then LkPoisoned else LkOk); 0%N])
      | _, _, _ => Some (e, st, [n_of_lock (if p then LkPoisoned else LkOk); 0%N])
      end
    | _, _ => None end.

Definition rw_try_kont (oid : nat) (write : bool) (kont : lock_res -> code) : acq_res -> code :=
  fun r => match r with
           | AOk => Atomic (rw_try_block oid write)
                      (fun a => match a with
                                | [_; 1%N] => sem_release_code oid (rw_permits write) (kont LkWouldBlock)
                                | [0%N; _] => kont LkOk
                                | [1%N; _] => kont LkPoisoned
                                | _ => kont LkWouldBlock end)
           | _ => kont LkWouldBlock
           end.

Lemma rw_try_code_shape : forall oid write kont,
  rw_try_code oid write kont = sem_try_code oid (rw_permits write) (rw_try_kont oid write kont).
Proof. reflexivity. Qed.

(* BatchSemaphore::release after its scheduling point *)
Definition release_block (oid : nat) (k : N) : exec -> store -> option (exec * store) :=
  fun e st => match on_sem oid st (fun s => sem_release e s k) with
              | Some (o, (e', s')) => Some (e', set_obj st oid (with_sem o s'))
              | None => None end.

Lemma sem_release_code_shape : forall oid k kont,
  sem_release_code oid k kont = Switch (atomic_u (release_block oid k) kont).
Proof. reflexivity. Qed.

(* ---- BEFORE THE REPAIR (historical): the try_lock of rwlock.rs before the fix commit.  The holder
   update answered a single value and a re-entrant try_read went straight on with WouldBlock,
   keeping the permit.  `rw_try_code_prefix` is the model of that code; it is kept here only as the
   witness of the defect (`try_read_reentrant_leaks`, `ex_leak_blocks_writers_forever`). *)
Definition rw_try_block_prefix (oid : nat) (write : bool) : raw_block :=
  fun e st =>
    match me e, get_obj st oid with
    | Some m, Some (ORwLock w rs s p) =>
      match write, w, rs with
      | true, None, [] => Some (e, set_obj st oid (ORwLock (Some m) [] s p), [n_of_lock (if p then LkPoisoned else LkOk)])
      | false, None, _ =>
        if existsb (Nat.eqb m) rs then Some (e, st, [n_of_lock LkWouldBlock])
        else Some (e, set_obj st oid (ORwLock None (rs ++ [m]) s p), [n_of_lock (if p then LkPoisoned else LkOk)])
      | _, _, _ => Some (e, st, [n_of_lock (if p then LkPoisoned else LkOk)])
      end
    | _, _ => None end.

Definition rw_try_kont_prefix (oid : nat) (write : bool) (kont : lock_res -> code) : acq_res -> code :=
  fun r => match r with
           | AOk => Atomic (rw_try_block_prefix oid write)
                      (fun a => match a with [0%N] => kont LkOk | [1%N] => kont LkPoisoned | _ => kont LkWouldBlock end)
           | _ => kont LkWouldBlock
           end.

Definition rw_try_code_prefix (oid : nat) (write : bool) (kont : lock_res -> code) : code :=
  sem_try_code oid (rw_permits write) (rw_try_kont_prefix oid write kont).

Definition rw_unlock_block (oid : nat) (write : bool) : exec -> store -> option (exec * store) :=
  fun e st =>
    match me e, on_sem oid st (fun s => sem_release e s (rw_permits write)) with
    | Some m, Some (ORwLock w rs _ p, (e', s')) =>
      if write then
        match w with
        | Some w' => if Nat.eqb w' m then Some (e', set_obj st oid (ORwLock None rs s' (p || panicking e))) else None
        | None => None end
      else
        if existsb (Nat.eqb m) rs then Some (e', set_obj st oid (ORwLock w (filter (fun x => negb (Nat.eqb x m)) rs) s' p))
        else None
    | _, _ => None end.

Lemma rw_unlock_code_shape : forall oid write kont,
  rw_unlock_code oid write kont = Switch (atomic_u (rw_unlock_block oid write) kont).
Proof. reflexivity. Qed.

(* ========================================================================= *)
(*  6. Segments: typed compositions of the blocks that run back to back       *)
(* ========================================================================= *)

(* typed views of the raw blocks *)
Definition poll_step (oid wid : nat) (e : exec) (st : store) : option (exec * store * poll_res) :=
  match me e with
  | None => None
  | Some m =>
    match on_sem oid st (fun s => sem_poll e s wid m) with
    | Some (o, (e', s', r)) => Some (e', set_obj st oid (with_sem o s'), r)
    | None => None
    end
  end.

Lemma poll_block_step : forall oid wid e st,
  poll_block oid wid e st
  = match poll_step oid wid e st with Some (e', st', r) => Some (e', st', [poll_code r]) | None => None end.
Proof.
  intros oid wid e st. unfold poll_block, poll_step. destruct (me e) as [m|]; [|reflexivity].
  destruct (on_sem oid st _) as [[o [[e' s'] r]]|]; reflexivity.
Qed.

Definition try_step (oid : nat) (k : N) (e : exec) (st : store) : option (exec * store * acq_res) :=
  match on_sem oid st (fun s => sem_try_acquire e s k) with
  | Some (o, (e', s', r)) => Some (e', set_obj st oid (with_sem o s'), r)
  | None => None end.

Lemma try_block_step : forall oid k e st,
  try_block oid k e st
  = match try_step oid k e st with Some (e', st', r) => Some (e', st', [n_of_acq r]) | None => None end.
Proof.
  intros oid k e st. unfold try_block, try_step.
  destruct (on_sem oid st _) as [[o [[e' s'] r]]|]; reflexivity.
Qed.

Definition rw_try_set (oid : nat) (write : bool) (e : exec) (st : store) : option (exec * store * lock_res) :=
  match me e, get_obj st oid with
  | Some m, Some (ORwLock w rs s p) =>
    match write, w, rs with
    | true, None, [] => Some (e, set_obj st oid (ORwLock (Some m) [] s p), if p then LkPoisoned else LkOk)
    | false, None, _ =>
      if existsb (Nat.eqb m) rs then Some (e, st, LkWouldBlock)
      else Some (e, set_obj st oid (ORwLock None (rs ++ [m]) s p), if p then LkPoisoned else LkOk)
    | _, _, _ => Some (e, st, if p then LkPoisoned else LkOk)
    end
  | _, _ => None end.

(* the second answer of the current block: 1 exactly when the typed view says WouldBlock *)
Definition release_flag (r : lock_res) : N := match r with LkWouldBlock => 1%N | _ => 0%N end.

Lemma rw_try_block_set : forall oid write e st,
  rw_try_block oid write e st
  = match rw_try_set oid write e st with
    | Some (e', st', r) => Some (e', st', [n_of_lock r; release_flag r]) | None => None end.
Proof.
  intros oid write e st. unfold rw_try_block, rw_try_set.
  destruct (me e) as [m|]; [|reflexivity].
  destruct (get_obj st oid) as [[| |h s p|w rs s p| | | | | | | | | ]|]; try reflexivity.
  destruct write; destruct w; destruct rs; destruct p; try reflexivity;
    destruct (existsb _ _); reflexivity.
Qed.

Lemma rw_try_block_prefix_set : forall oid write e st,
  rw_try_block_prefix oid write e st
  = match rw_try_set oid write e st with Some (e', st', r) => Some (e', st', [n_of_lock r]) | None => None end.
Proof.
  intros oid write e st. unfold rw_try_block_prefix, rw_try_set.
  destruct (me e) as [m|]; [|reflexivity].
  destruct (get_obj st oid) as [[| |h s p|w rs s p| | | | | | | | | ]|]; try reflexivity.
  destruct write; destruct w; destruct rs; try reflexivity;
    destruct (existsb _ _); reflexivity.
Qed.

Inductive lock_out := LoAcquired (poisoned : bool) | LoClosed | LoPending.

(* one round of block_on(acquire) followed, when it succeeds, by the holder update `fin`:
   no scheduling point in between *)
Definition lock_segment (fin : exec -> store -> option (exec * store * bool)) (oid wid : nat)
           (e : exec) (st : store) : option (exec * store * lock_out) :=
  match poll_step oid wid e st with
  | None => None
  | Some (e1, st1, PReadyOk) =>
    match fin e1 st1 with Some (e2, st2, p) => Some (e2, st2, LoAcquired p) | None => None end
  | Some (e1, st1, PReadyErr) => Some (e1, st1, LoClosed)
  | Some (e1, st1, PPending) =>
    match sleep_block e1 st1 with Some (e2, st2) => Some (e2, st2, LoPending) | None => None end
  end.

Definition mutex_lock_segment (oid wid : nat) := lock_segment (fun e st => mutex_set_holder e st oid) oid wid.
Definition rw_lock_segment (oid : nat) (write : bool) (wid : nat) :=
  lock_segment (fun e st => rw_take e st oid write) oid wid.

Definition res_of_p (p : bool) : lock_res := if p then LkPoisoned else LkOk.

(* try_lock after its switch: try_acquire and the holder update *)
Definition mutex_try_segment (oid : nat) (e : exec) (st : store) : option (exec * store * lock_res) :=
  match try_step oid 1 e st with
  | None => None
  | Some (e1, st1, AOk) =>
    match mutex_try_set oid e1 st1 with Some (e2, st2, p) => Some (e2, st2, res_of_p p) | None => None end
  | Some (e1, st1, _) => Some (e1, st1, LkWouldBlock)
  end.

Definition rw_try_segment (oid : nat) (write : bool) (e : exec) (st : store) : option (exec * store * lock_res) :=
  match try_step oid (rw_permits write) e st with
  | None => None
  | Some (e1, st1, AOk) => rw_try_set oid write e1 st1
  | Some (e1, st1, _) => Some (e1, st1, LkWouldBlock)
  end.

(* does the first segment of try_read/try_write end in "give the permits back"?  (the semaphore said
   yes, the holder update said the caller is already a reader) *)
Definition rw_try_needs_release (oid : nat) (write : bool) (e : exec) (st : store) : bool :=
  match try_step oid (rw_permits write) e st with
  | Some (e1, st1, AOk) =>
    match rw_try_set oid write e1 st1 with Some (_, _, LkWouldBlock) => true | _ => false end
  | _ => false
  end.

(* the second segment of such a try: release() after its scheduling point *)
Definition release_segment := release_block.

(* guard drops after their switch are a single block *)
Definition mutex_unlock_segment := mutex_unlock_block.
Definition rw_unlock_segment := rw_unlock_block.

(* ========================================================================= *)
(*  7. Segments vs. run_seg on the code trees                                 *)
(* ========================================================================= *)
Section Run.
Context {SS : Type} (sch : scheduler SS) (ms : max_steps).

Definition wset (w : world) (e : exec) (s : store) : world := mkWorld e s (w_conts w) (w_trace w).

Lemma ans_bool_b2n : forall b, ans_bool [b2n b] = b.
Proof. destruct b; reflexivity. Qed.

Lemma run_atomic_b : forall f k w st,
  run_seg sch ms (atomic_b f k) w st
  = match f (w_e w) (w_s w) with
    | None => (w, st, SegPanic)
    | Some (e', s', b) => run_seg sch ms (k b) (wset w e' s') st
    end.
Proof.
  intros f k w st. unfold atomic_b. cbn [run_seg].
  destruct (f (w_e w) (w_s w)) as [[[e' s'] b]|]; [|reflexivity].
  rewrite ans_bool_b2n. reflexivity.
Qed.

Lemma run_atomic_u : forall f k w st,
  run_seg sch ms (atomic_u f k) w st
  = match f (w_e w) (w_s w) with
    | None => (w, st, SegPanic)
    | Some (e', s') => run_seg sch ms k (wset w e' s') st
    end.
Proof.
  intros f k w st. unfold atomic_u. cbn [run_seg].
  destruct (f (w_e w) (w_s w)) as [[e' s']|]; reflexivity.
Qed.

(* the lock segment is exactly what run_seg executes from the poll of one round on *)
Lemma lock_segment_run : forall f oid wid fin kont w st,
  let body := poll_body f oid wid (lock_kont (atomic_b fin kont)) in
  match lock_segment fin oid wid (w_e w) (w_s w) with
  | Some (e', st', LoAcquired p) => run_seg sch ms body w st = run_seg sch ms (kont p) (wset w e' st') st
  | Some (e', st', LoClosed) => run_seg sch ms body w st = (wset w e' st', st, SegPanic)
  | Some (e', st', LoPending) =>
      run_seg sch ms body w st
      = run_seg sch ms (Switch (poll_loop f oid wid false (lock_kont (atomic_b fin kont)))) (wset w e' st') st
  | None => snd (run_seg sch ms body w st) = SegPanic
  end.
Proof.
  intros f oid wid fin kont w st body. unfold body, poll_body, lock_segment.
  cbn [run_seg]. rewrite poll_block_step.
  destruct (poll_step oid wid (w_e w) (w_s w)) as [[[e1 st1] r]|]; [|reflexivity].
  destruct r; cbn [poll_code lock_kont].
  - rewrite run_atomic_b. cbn [w_e w_s wset].
    destruct (fin e1 st1) as [[[e2 st2] p]|]; reflexivity.
  - reflexivity.
  - rewrite run_atomic_u. cbn [w_e w_s wset].
    destruct (sleep_block e1 st1) as [[e2 st2]|]; reflexivity.
Qed.

Lemma mutex_lock_segment_run : forall f oid wid kont w st e' st' p,
  mutex_lock_segment oid wid (w_e w) (w_s w) = Some (e', st', LoAcquired p) ->
  run_seg sch ms (poll_body f oid wid (lock_kont (mutex_finish oid kont))) w st
  = run_seg sch ms (kont (res_of_p p)) (wset w e' st') st.
Proof.
  intros f oid wid kont w st e' st' p Hs.
  pose proof (lock_segment_run f oid wid (fun e st => mutex_set_holder e st oid)
                (fun p => kont (if p then LkPoisoned else LkOk)) w st) as H.
  unfold mutex_lock_segment in Hs. rewrite Hs in H. exact H.
Qed.

Lemma rw_lock_segment_run : forall f oid write wid kont w st e' st' p,
  rw_lock_segment oid write wid (w_e w) (w_s w) = Some (e', st', LoAcquired p) ->
  run_seg sch ms (poll_body f oid wid (lock_kont (rw_finish oid write kont))) w st
  = run_seg sch ms (kont (res_of_p p)) (wset w e' st') st.
Proof.
  intros f oid write wid kont w st e' st' p Hs.
  pose proof (lock_segment_run f oid wid (fun e st => rw_take e st oid write)
                (fun p => kont (if p then LkPoisoned else LkOk)) w st) as H.
  unfold rw_lock_segment in Hs. rewrite Hs in H. exact H.
Qed.

(* try_lock: the code is `Switch body`, and body executes exactly the try segment *)
Lemma mutex_try_segment_run : forall oid kont w st,
  exists body, mutex_try_lock_code oid kont = Switch body /\
  run_seg sch ms body w st
  = match mutex_try_segment oid (w_e w) (w_s w) with
    | Some (e', st', r) => run_seg sch ms (kont r) (wset w e' st') st
    | None => (match try_step oid 1 (w_e w) (w_s w) with
               | Some (e1, st1, AOk) => wset w e1 st1 | _ => w end, st, SegPanic)
    end.
Proof.
  intros oid kont w st. eexists. split; [rewrite mutex_try_lock_code_shape, sem_try_code_shape; reflexivity|].
  cbn [run_seg]. rewrite try_block_step. unfold mutex_try_segment.
  destruct (try_step oid 1 (w_e w) (w_s w)) as [[[e1 st1] r]|]; [|reflexivity].
  destruct r; cbn [n_of_acq mutex_try_kont]; try reflexivity.
  rewrite run_atomic_b. cbn [w_e w_s wset].
  destruct (mutex_try_set oid e1 st1) as [[[e2 st2] p]|]; reflexivity.
Qed.

Lemma n_of_lock_cases : forall (kont : lock_res -> code) r,
  match [n_of_lock r] with [0%N] => kont LkOk | [1%N] => kont LkPoisoned | _ => kont LkWouldBlock end = kont r.
Proof. intros kont r. destruct r; reflexivity. Qed.

(* CURRENT code: the first segment is rw_try_segment; when it ends in the re-entrant refusal the code
   that follows is `sem_release_code` (a Switch, then the release block), otherwise the caller's
   continuation *)
Lemma rw_try_segment_run : forall oid write kont w st,
  exists body, rw_try_code oid write kont = Switch body /\
  run_seg sch ms body w st
  = match rw_try_segment oid write (w_e w) (w_s w) with
    | Some (e', st', r) =>
      if rw_try_needs_release oid write (w_e w) (w_s w)
      then run_seg sch ms (sem_release_code oid (rw_permits write) (kont LkWouldBlock)) (wset w e' st') st
      else run_seg sch ms (kont r) (wset w e' st') st
    | None => (match try_step oid (rw_permits write) (w_e w) (w_s w) with
               | Some (e1, st1, AOk) => wset w e1 st1 | _ => w end, st, SegPanic)
    end.
Proof.
  intros oid write kont w st. eexists. split; [rewrite rw_try_code_shape, sem_try_code_shape; reflexivity|].
  cbn [run_seg]. rewrite try_block_step. unfold rw_try_segment, rw_try_needs_release.
  destruct (try_step oid (rw_permits write) (w_e w) (w_s w)) as [[[e1 st1] r]|]; [|reflexivity].
  destruct r; cbn [n_of_acq rw_try_kont]; try reflexivity.
  cbn [run_seg w_e w_s]. rewrite rw_try_block_set.
  destruct (rw_try_set oid write e1 st1) as [[[e2 st2] r]|]; [|reflexivity].
  destruct r; reflexivity.
Qed.

(* the code that follows the refusal: `Switch body`, body = the release block, then kont *)
Lemma release_segment_run : forall oid k kont w st,
  exists body, sem_release_code oid k kont = Switch body /\
  run_seg sch ms body w st
  = match release_segment oid k (w_e w) (w_s w) with
    | Some (e', st') => run_seg sch ms kont (wset w e' st') st
    | None => (w, st, SegPanic)
    end.
Proof.
  intros oid k kont w st. eexists. split; [apply sem_release_code_shape|]. apply run_atomic_u.
Qed.

(* BEFORE THE REPAIR: the same first segment, then the continuation in every case *)
Lemma rw_try_prefix_segment_run : forall oid write kont w st,
  exists body, rw_try_code_prefix oid write kont = Switch body /\
  run_seg sch ms body w st
  = match rw_try_segment oid write (w_e w) (w_s w) with
    | Some (e', st', r) => run_seg sch ms (kont r) (wset w e' st') st
    | None => (match try_step oid (rw_permits write) (w_e w) (w_s w) with
               | Some (e1, st1, AOk) => wset w e1 st1 | _ => w end, st, SegPanic)
    end.
Proof.
  intros oid write kont w st. eexists.
  split; [unfold rw_try_code_prefix; rewrite sem_try_code_shape; reflexivity|].
  cbn [run_seg]. rewrite try_block_step. unfold rw_try_segment.
  destruct (try_step oid (rw_permits write) (w_e w) (w_s w)) as [[[e1 st1] r]|]; [|reflexivity].
  destruct r; cbn [n_of_acq rw_try_kont_prefix]; try reflexivity.
  cbn [run_seg w_e w_s]. rewrite rw_try_block_prefix_set.
  destruct (rw_try_set oid write e1 st1) as [[[e2 st2] r]|]; [|reflexivity].
  rewrite n_of_lock_cases. reflexivity.
Qed.

Lemma mutex_unlock_segment_run : forall oid kont w st,
  exists body, mutex_unlock_code oid kont = Switch body /\
  run_seg sch ms body w st
  = match mutex_unlock_segment oid (w_e w) (w_s w) with
    | Some (e', st') => run_seg sch ms kont (wset w e' st') st
    | None => (w, st, SegPanic)
    end.
Proof.
  intros oid kont w st. eexists. split; [apply mutex_unlock_code_shape|]. apply run_atomic_u.
Qed.

Lemma rw_unlock_segment_run : forall oid write kont w st,
  exists body, rw_unlock_code oid write kont = Switch body /\
  run_seg sch ms body w st
  = match rw_unlock_segment oid write (w_e w) (w_s w) with
    | Some (e', st') => run_seg sch ms kont (wset w e' st') st
    | None => (w, st, SegPanic)
    end.
Proof.
  intros oid write kont w st. eexists. split; [apply rw_unlock_code_shape|]. apply run_atomic_u.
Qed.

(* the poisoned (closed-semaphore) path of lock / read / write: `Switch finish`, where finish is the
   holder update alone *)
Lemma mutex_closed_path_run : forall oid kont w st,
  run_seg sch ms (mutex_finish oid kont) w st
  = match mutex_set_holder (w_e w) (w_s w) oid with
    | Some (e', st', p) => run_seg sch ms (kont (res_of_p p)) (wset w e' st') st
    | None => (w, st, SegPanic)
    end.
Proof. intros oid kont w st. unfold mutex_finish. rewrite run_atomic_b. reflexivity. Qed.

Lemma rw_closed_path_run : forall oid write kont w st,
  run_seg sch ms (rw_finish oid write kont) w st
  = match rw_take (w_e w) (w_s w) oid write with
    | Some (e', st', p) => run_seg sch ms (kont (res_of_p p)) (wset w e' st') st
    | None => (w, st, SegPanic)
    end.
Proof. intros oid write kont w st. unfold rw_finish. rewrite run_atomic_b. reflexivity. Qed.

End Run.

(* ========================================================================= *)
(*  8. Invariants                                                             *)
(* ========================================================================= *)

(* Adjustments w.r.t. the first formulation (sm_avail <= 1 /\ (closed = false -> (h = None <-> avail = 1))):
   - `sm_avail s <= 1` does not survive poisoning: once a panicking guard drop has closed the
     semaphore, lock() no longer takes a permit but every drop still returns one
     (see `mutex_avail_exceeds_one_after_poison`), so the bound is stated under `closed = false`;
   - the semaphore must be known to be unfair (sm_fair = false, as created by Mutex::new /
     RwLock::new): on a fair semaphore a waiter is handed its permits by the releaser and `try`
     fails on a non-empty queue. *)
Definition mutex_ok (o : obj) : Prop :=
  match o with
  | OMutex h s _ =>
    sm_fair s = false /\
    (sm_closed s = false -> (h = None /\ sm_avail s = 1) \/ (exists t, h = Some t /\ sm_avail s = 0))
  | _ => True
  end.

(* `d` = permits in transit: taken by a try_read that then found its caller among the readers and
   not yet given back (the current try_lock gives them back after a scheduling point).  Between
   operations d = 0: rw_ok. *)
Definition rw_okd (d : N) (o : obj) : Prop :=
  match o with
  | ORwLock w rs s _ =>
    sm_fair s = false /\
    (sm_closed s = false ->
       (w = None /\ sm_avail s + N.of_nat (length rs) + d = MAX_READS /\ NoDup rs)
       \/ (exists t, w = Some t /\ rs = [] /\ sm_avail s = 0 /\ d = 0))
  | _ => True
  end.

Definition rw_ok (o : obj) : Prop := rw_okd 0 o.

(* the formulation without `d` *)
Lemma rw_ok_form : forall w rs s p,
  rw_ok (ORwLock w rs s p) <->
  (sm_fair s = false /\
   (sm_closed s = false ->
      (w = None /\ sm_avail s + N.of_nat (length rs) = MAX_READS /\ NoDup rs)
      \/ (exists t, w = Some t /\ rs = [] /\ sm_avail s = 0))).
Proof.
  intros w rs s p. unfold rw_ok. cbn [rw_okd].
  split; intros [Hf Hi]; (split; [exact Hf|]); intro Hc; specialize (Hi Hc).
  - destruct Hi as [[Hw [Ha Hnd]]|[t [Hw [Hrs [Ha _]]]]].
    + left. split; [assumption|]. split; [lia|assumption].
    + right. exists t. auto.
  - destruct Hi as [[Hw [Ha Hnd]]|[t [Hw [Hrs Ha]]]].
    + left. split; [assumption|]. split; [lia|assumption].
    + right. exists t. auto.
Qed.

(* the first formulation, and its equivalence with mutex_ok on open semaphores *)
Lemma mutex_ok_iff_form : forall h s p,
  mutex_ok (OMutex h s p) <->
  (sm_fair s = false /\ (sm_closed s = false -> sm_avail s <= 1 /\ (h = None <-> sm_avail s = 1))).
Proof.
  intros h s p. cbn [mutex_ok]. split; intros [Hf Hi]; (split; [exact Hf|]); intro Hc; specialize (Hi Hc).
  - destruct Hi as [[Hh Ha]|[t [Hh Ha]]].
    + split; [lia|]. split; auto.
    + split; [lia|]. split; intro H; [congruence|lia].
  - destruct Hi as [Hle [Hn Ha]]. destruct h as [t|].
    + right. exists t. split; [reflexivity|].
      destruct (N.eq_dec (sm_avail s) 1) as [H1|H1]; [specialize (Ha H1); discriminate|lia].
    + left. split; [reflexivity|]. apply Hn. reflexivity.
Qed.

Lemma mutex_new_ok : mutex_ok mutex_new.
Proof. cbn. split; [reflexivity|]. intros _. left. split; reflexivity. Qed.

Lemma rwlock_new_ok : rw_ok rwlock_new.
Proof.
  apply rw_ok_form. cbn. split; [reflexivity|]. intros _. left. split; [reflexivity|]. split; [|constructor].
  cbn [length]. rewrite N.add_0_r. reflexivity.
Qed.

Lemma MAX_READS_pos : 1 <= MAX_READS.
Proof. apply N.leb_le. reflexivity. Qed.

Lemma rw_permits_nz : forall write, rw_permits write <> 0.
Proof. intros [|]; cbn [rw_permits]; [pose proof MAX_READS_pos; lia | lia]. Qed.

(* ---- on_sem ---- *)
Lemma on_sem_spec : forall {A : Type} oid st (f : sem -> option A) o a,
  on_sem oid st f = Some (o, a) ->
  get_obj st oid = Some o /\ exists s, sem_of o = Some s /\ f s = Some a.
Proof.
  intros A oid st f o a Ho. unfold on_sem in Ho.
  destruct (get_obj st oid) as [o'|]; [|discriminate].
  destruct (sem_of o') as [s|] eqn:Hs; [|discriminate].
  destruct (f s) as [a'|] eqn:Hf; [|discriminate].
  injection Ho as <- <-. split; [reflexivity|]. exists s. auto.
Qed.

Lemma poll_step_spec : forall oid wid e st e1 st1 r o s,
  poll_step oid wid e st = Some (e1, st1, r) ->
  get_obj st oid = Some o -> sem_of o = Some s ->
  exists m s1, me e = Some m /\ sem_poll e s wid m = Some (e1, s1, r)
               /\ st1 = set_obj st oid (with_sem o s1).
Proof.
  intros oid wid e st e1 st1 r o s Hp Ho Hs. unfold poll_step in Hp.
  destruct (me e) as [m|]; [|discriminate].
  destruct (on_sem oid st _) as [[o' [[e' s'] r']]|] eqn:Hon; [|discriminate].
  apply on_sem_spec in Hon. destruct Hon as [Ho' [s0 [Hs0 Hpoll]]].
  injection Hp as <- <- <-. rewrite Ho in Ho'. injection Ho' as <-.
  rewrite Hs in Hs0. injection Hs0 as <-. exists m, s'. auto.
Qed.

Lemma try_step_spec : forall oid k e st e1 st1 r o s,
  try_step oid k e st = Some (e1, st1, r) ->
  get_obj st oid = Some o -> sem_of o = Some s ->
  exists s1, sem_try_acquire e s k = Some (e1, s1, r) /\ st1 = set_obj st oid (with_sem o s1).
Proof.
  intros oid k e st e1 st1 r o s Hp Ho Hs. unfold try_step in Hp.
  destruct (on_sem oid st _) as [[o' [[e' s'] r']]|] eqn:Hon; [|discriminate].
  apply on_sem_spec in Hon. destruct Hon as [Ho' [s0 [Hs0 Hpoll]]].
  injection Hp as <- <- <-. rewrite Ho in Ho'. injection Ho' as <-.
  rewrite Hs in Hs0. injection Hs0 as <-. exists s'. auto.
Qed.

Lemma sleep_block_spec : forall e st e' st', sleep_block e st = Some (e', st') -> st' = st /\ same_regs e e'.
Proof.
  intros e st e' st' Hs. unfold sleep_block in Hs. destruct (me e) as [m|]; [|discriminate].
  destruct (e_sleep_unless_woken e m) as [e1|] eqn:H1; [|discriminate].
  injection Hs as <- <-. split; [reflexivity|]. eapply e_sleep_unless_woken_regs; eassumption.
Qed.

(* ========================================================================= *)
(*  9. Mutex: every segment preserves mutex_ok                                *)
(* ========================================================================= *)

(* blocks that do not touch the accounting *)
Lemma mutex_check_block_unchanged : forall oid e st e' st' b,
  mutex_check_block oid e st = Some (e', st', b) -> e' = e /\ st' = st.
Proof.
  intros oid e st e' st' b Hc. unfold mutex_check_block in Hc.
  destruct (me e) as [m|]; [|discriminate].
  destruct (get_obj st oid) as [[| |h s p| | | | | | | | | | ]|]; try discriminate.
  destruct (sm_closed s).
  - injection Hc as <- <- <-. auto.
  - destruct h as [h'|]; [destruct (Nat.eqb h' m); [discriminate|]|]; injection Hc as <- <- <-; auto.
Qed.

Lemma needs_switch_block_unchanged : forall oid wid np e st e' st' b,
  needs_switch_block oid wid np e st = Some (e', st', b) -> e' = e /\ st' = st.
Proof.
  intros oid wid np e st e' st' b Hc. unfold needs_switch_block in Hc.
  destruct (on_sem oid st _) as [[o b']|]; [|discriminate]. injection Hc as <- <- <-. auto.
Qed.

(* Acquire::new on the lock's semaphore: only the waiter table grows *)
Lemma new_waiter_block_mutex : forall oid k e st e' st' a h s p,
  new_waiter_block oid k e st = Some (e', st', a) ->
  get_obj st oid = Some (OMutex h s p) -> mutex_ok (OMutex h s p) ->
  exists s' wid, e' = e /\ a = [N.of_nat wid] /\ get_obj st' oid = Some (OMutex h s' p)
    /\ mutex_ok (OMutex h s' p) /\ waiter_fresh s' wid k
    /\ sm_avail s' = sm_avail s /\ sm_closed s' = sm_closed s
    /\ wtk All (sm_wtab s) (sm_wtab s').
Proof.
  intros oid k e st e' st' a h s p Hb Ho Hok. unfold new_waiter_block in Hb.
  destruct (on_sem oid st _) as [[o [s' wid]]|] eqn:Hon; [|discriminate].
  apply on_sem_spec in Hon. destruct Hon as [Ho' [s0 [Hs0 Hn]]].
  rewrite Ho in Ho'. injection Ho' as <-. cbn in Hs0. injection Hs0 as <-.
  injection Hb as <- <- <-. apply sem_new_waiter_spec in Hn.
  destruct Hn as [Ha [Hc [Hf [Hq [Hk Hfresh]]]]].
  exists s', wid. split; [reflexivity|]. split; [reflexivity|].
  split; [eapply get_set_same; eassumption|].
  split; [|auto]. destruct Hok as [Hfair Hinv]. cbn [mutex_ok with_sem].
  split; [congruence|]. rewrite Hc, Ha. exact Hinv.
Qed.

(* THE lock segment.  Besides preservation it says what each outcome means:
   - acquired: the mutex was free (holder None, one permit), now the caller holds it, and the
     poison flag is reported;
   - pending: the permit was not available, nothing changed. *)
Lemma mutex_lock_segment_inv : forall oid wid e st e' st' out h s p,
  mutex_lock_segment oid wid e st = Some (e', st', out) ->
  get_obj st oid = Some (OMutex h s p) -> mutex_ok (OMutex h s p) -> waiter_fresh s wid 1 ->
  exists h' s', get_obj st' oid = Some (OMutex h' s' p) /\ mutex_ok (OMutex h' s' p)
    /\ same_regs e e'
    /\ match out with
       | LoAcquired p' => p' = p /\ sm_closed s = false /\ h = None /\ sm_avail s = 1
                          /\ h' = me e /\ me e <> None /\ sm_avail s' = 0 /\ sm_closed s' = false
                          /\ wtk (fun j => j <> wid) (sm_wtab s) (sm_wtab s')
       | LoClosed => sm_closed s = true /\ st' = st
       | LoPending => sm_closed s = false /\ h' = h /\ h <> None /\ sm_avail s' = sm_avail s
                      /\ sm_closed s' = false
                      /\ wtk All (sm_wtab s) (sm_wtab s')
       end.
Proof.
  intros oid wid e st e' st' out h s p Hseg Ho [Hfair Hinv] [w [Hw [Hhas Hn]]].
  unfold mutex_lock_segment, lock_segment in Hseg.
  destruct (poll_step oid wid e st) as [[[e1 st1] r]|] eqn:Hp; [|discriminate].
  eapply poll_step_spec in Hp; [|eassumption|reflexivity].
  destruct Hp as [m [s1 [Hme [Hpoll Hst1]]]].
  pose proof (sem_poll_spec _ _ _ _ _ _ _ _ Hpoll Hw Hhas Hfair) as [Hregs [Hf1 [Hpost Hk]]].
  cbn [with_sem] in Hst1.
  assert (Hg1 : get_obj st1 oid = Some (OMutex h s1 p)).
  { subst st1. eapply get_set_same; eassumption. }
  destruct r; cbn [poll_post] in Hpost.
  - (* acquired *)
    destruct Hpost as [Hc [Hc1 [_ [Hle Hav]]]]. rewrite Hn in Hle, Hav.
    destruct (Hinv Hc) as [[Hh Ha]|[t [Hh Ha]]]; [|lia].
    subst h. unfold mutex_set_holder in Hseg.
    rewrite (same_regs_me _ _ Hregs), Hme, Hg1 in Hseg. injection Hseg as <- <- <-.
    exists (Some m), s1. split; [eapply get_set_same; eassumption|].
    assert (Ha1 : sm_avail s1 = 0) by lia.
    split.
    { cbn [mutex_ok]. split; [assumption|]. intros _. right. exists m. auto. }
    split; [assumption|].
    assert (Hk' : wtk (fun j => j <> wid) (sm_wtab s) (sm_wtab s1)).
    { eapply wtk_weaken; [|exact Hk]. intros j Hj. left. exact Hj. }
    repeat (split; [first [assumption|congruence|reflexivity]|]). exact Hk'.
  - (* closed *)
    destruct Hpost as [Hc [Hs He]]. subst s1 e1. injection Hseg as <- <- <-.
    assert (Hst : st1 = st). { subst st1. apply set_obj_same. assumption. }
    exists h, s. rewrite Hst. split; [assumption|]. split; [split; assumption|].
    split; [apply same_regs_refl|]. split; [assumption|reflexivity].
  - (* pending *)
    destruct Hpost as [Hc [Hc1 [Hav Hlt]]]. rewrite Hn in Hlt.
    destruct (sleep_block e1 st1) as [[e2 st2]|] eqn:Hsl; [|discriminate].
    injection Hseg as <- <- <-. apply sleep_block_spec in Hsl. destruct Hsl as [-> Hregs2].
    exists h, s1. split; [assumption|].
    split.
    { cbn [mutex_ok]. split; [assumption|]. intros _. rewrite Hav. apply Hinv. assumption. }
    split; [eapply same_regs_trans; eassumption|].
    split; [assumption|]. split; [reflexivity|].
    split.
    { destruct (Hinv Hc) as [[Hh Ha]|[t [Hh Ha]]]; [lia|congruence]. }
    split; [assumption|]. split; [assumption|].
    eapply wtk_weaken; [|exact Hk]. intros j _. right. discriminate.
Qed.

(* try_lock *)
Lemma mutex_try_segment_inv : forall oid e st e' st' r h s p,
  mutex_try_segment oid e st = Some (e', st', r) ->
  get_obj st oid = Some (OMutex h s p) -> mutex_ok (OMutex h s p) ->
  exists h' s', get_obj st' oid = Some (OMutex h' s' p) /\ mutex_ok (OMutex h' s' p)
    /\ same_regs e e' /\ sm_wtab s' = sm_wtab s
    /\ (r <> LkWouldBlock ->
          r = res_of_p p /\ sm_closed s = false /\ h = None /\ sm_avail s = 1
          /\ h' = me e /\ me e <> None /\ sm_avail s' = 0)
    /\ (r = LkWouldBlock ->
          st' = st /\ (sm_closed s = true \/ (h <> None /\ sm_avail s = 0))
          /\ exists m, me e = Some m /\ e_update_clock e m (sm_last_acquire s) = Some e').
Proof.
  intros oid e st e' st' r h s p Hseg Ho [Hfair Hinv].
  unfold mutex_try_segment in Hseg.
  destruct (try_step oid 1 e st) as [[[e1 st1] r1]|] eqn:Ht; [|discriminate].
  eapply try_step_spec in Ht; [|eassumption|reflexivity].
  destruct Ht as [s1 [Htry Hst1]]. cbn [with_sem] in Hst1.
  apply sem_try_acquire_spec in Htry. destruct Htry as [_ [Hregs [[_ [Hwt [Hc1 Hf1]]] Hpost]]].
  assert (Hg1 : get_obj st1 oid = Some (OMutex h s1 p)).
  { subst st1. eapply get_set_same; eassumption. }
  destruct r1.
  - destruct Hpost as [Hc [Hle [Hav _]]].
    destruct (Hinv Hc) as [[Hh Ha]|[t [Hh Ha]]]; [|lia]. subst h.
    unfold mutex_try_set in Hseg. rewrite Hg1 in Hseg.
    destruct (me e1) as [m|] eqn:Hme1; [|discriminate]. injection Hseg as <- <- <-.
    rewrite (same_regs_me _ _ Hregs) in Hme1.
    exists (Some m), s1. split; [eapply get_set_same; eassumption|].
    assert (Ha1 : sm_avail s1 = 0) by lia.
    split.
    { cbn [mutex_ok]. split; [congruence|]. intros _. right. exists m. auto. }
    split; [assumption|]. split; [assumption|]. split.
    + intros _. repeat split; try assumption; try congruence.
    + intro Hr. destruct p; discriminate Hr.
  - destruct Hpost as [Hs [Hc [Hwhy Hclk]]]. subst s1. injection Hseg as <- <- <-.
    assert (Hst : st1 = st). { subst st1. apply set_obj_same. assumption. }
    exists h, s. rewrite Hst. split; [assumption|]. split; [split; assumption|].
    split; [assumption|]. split; [reflexivity|]. split; [intro Hr; exfalso; apply Hr; reflexivity|].
    intros _. split; [reflexivity|]. split; [|assumption]. right.
    destruct Hwhy as [Hlt|[_ Hft]]; [|congruence].
    destruct (Hinv Hc) as [[Hh Ha]|[t [Hh Ha]]]; [lia|]. split; [congruence|assumption].
  - destruct Hpost as [Hs [Hc Hclk]]. subst s1. injection Hseg as <- <- <-.
    assert (Hst : st1 = st). { subst st1. apply set_obj_same. assumption. }
    exists h, s. rewrite Hst. split; [assumption|]. split; [split; assumption|].
    split; [assumption|]. split; [reflexivity|]. split; [intro Hr; exfalso; apply Hr; reflexivity|].
    intros _. split; [reflexivity|]. split; [left; assumption|assumption].
Qed.

(* Drop for MutexGuard.  The caller owns a guard, i.e. the mutex is held (h <> None): the model's
   drop does not look at the holder, it is the guard that witnesses it. *)
Lemma mutex_unlock_segment_inv : forall oid e st e' st' h s p,
  mutex_unlock_segment oid e st = Some (e', st') ->
  get_obj st oid = Some (OMutex h s p) -> mutex_ok (OMutex h s p) -> h <> None ->
  exists s' stop, get_obj st' oid = Some (OMutex None s' (p || panicking e))
    /\ mutex_ok (OMutex None s' (p || panicking e))
    /\ should_stop e = Some stop
    /\ sm_avail s' = sm_avail s + 1 /\ sm_closed s' = (sm_closed s || stop)
    /\ wtk All (sm_wtab s) (sm_wtab s').
Proof.
  intros oid e st e' st' h s p Hseg Ho [Hfair Hinv] Hheld.
  unfold mutex_unlock_segment, mutex_unlock_block in Hseg.
  destruct (on_sem oid st _) as [[o [e1 s1]]|] eqn:Hon; [|discriminate].
  apply on_sem_spec in Hon. destruct Hon as [Ho' [s0 [Hs0 Hrel]]].
  rewrite Ho in Ho'. injection Ho' as <-. cbn in Hs0. injection Hs0 as <-.
  injection Hseg as <- <-.
  apply sem_release_spec in Hrel; [|lia|assumption].
  destruct Hrel as [stop [Hstop [Hav [Hcl [Hf1 Hk]]]]].
  exists s1, stop. split; [eapply get_set_same; eassumption|].
  split.
  { cbn [mutex_ok]. split; [assumption|]. intro Hc1. left. split; [reflexivity|].
    rewrite Hcl in Hc1. apply orb_false_iff in Hc1. destruct Hc1 as [Hc _].
    destruct (Hinv Hc) as [[Hh _]|[t [_ Ha]]]; [contradiction|]. lia. }
  auto.
Qed.

(* the poisoned path of lock(): `Switch; holder update`, reached only after the semaphore was seen
   closed; a closed semaphore never reopens, so the invariant is vacuous there *)
Lemma mutex_closed_path_inv : forall oid e st e' st' b h s p,
  mutex_set_holder e st oid = Some (e', st', b) ->
  get_obj st oid = Some (OMutex h s p) -> mutex_ok (OMutex h s p) -> sm_closed s = true ->
  e' = e /\ b = p /\ h = None /\ get_obj st' oid = Some (OMutex (me e) s p) /\ me e <> None
  /\ mutex_ok (OMutex (me e) s p).
Proof.
  intros oid e st e' st' b h s p Hs Ho [Hfair _] Hc. unfold mutex_set_holder in Hs.
  destruct (me e) as [m|]; [|discriminate]. rewrite Ho in Hs. destruct h; [discriminate|].
  injection Hs as <- <- <-. split; [reflexivity|]. split; [reflexivity|]. split; [reflexivity|].
  split; [eapply get_set_same; eassumption|]. split; [discriminate|].
  cbn [mutex_ok]. split; [assumption|]. intro Hc'. congruence.
Qed.

(* ========================================================================= *)
(*  10. RwLock: every segment preserves rw_ok                                 *)
(* ========================================================================= *)

Lemma existsb_eqb_In : forall m rs, existsb (Nat.eqb m) rs = true <-> In m rs.
Proof.
  intros m rs. rewrite existsb_exists. split.
  - intros [x [Hin Heq]]. apply Nat.eqb_eq in Heq. subst. assumption.
  - intro Hin. exists m. split; [assumption|apply Nat.eqb_refl].
Qed.

Lemma existsb_eqb_notIn : forall m rs, existsb (Nat.eqb m) rs = false <-> ~ In m rs.
Proof.
  intros m rs. rewrite <- existsb_eqb_In. destruct (existsb (Nat.eqb m) rs); split; intro H.
  - discriminate.
  - exfalso; apply H; reflexivity.
  - intro Hc; discriminate.
  - reflexivity.
Qed.

Lemma filter_neq_notin : forall m rs, ~ In m rs -> filter (fun x => negb (Nat.eqb x m)) rs = rs.
Proof.
  intros m rs. induction rs as [|x r IH]; intro Hn; cbn [filter]; [reflexivity|].
  destruct (Nat.eqb x m) eqn:Hx.
  - apply Nat.eqb_eq in Hx. exfalso. apply Hn. left. assumption.
  - cbn [negb]. f_equal. apply IH. intro Hin. apply Hn. right. assumption.
Qed.

Lemma filter_neq_length : forall m rs, NoDup rs -> In m rs ->
  S (length (filter (fun x => negb (Nat.eqb x m)) rs)) = length rs.
Proof.
  intros m rs Hnd. induction Hnd as [|x r Hnotin Hnd IH]; intro Hin; [destruct Hin|].
  cbn [filter]. destruct (Nat.eqb x m) eqn:Hx.
  - apply Nat.eqb_eq in Hx. subst x. cbn [negb length]. rewrite filter_neq_notin; [reflexivity|assumption].
  - cbn [negb length]. f_equal. apply IH. destruct Hin as [Heq|Hin]; [|assumption].
    apply Nat.eqb_neq in Hx. contradiction.
Qed.

Lemma NoDup_filter_neq : forall m (rs : list nat), NoDup rs -> NoDup (filter (fun x => negb (Nat.eqb x m)) rs).
Proof.
  intros m rs Hnd. induction Hnd as [|x r Hnotin Hnd IH]; cbn [filter]; [constructor|].
  destruct (negb (Nat.eqb x m)); [|assumption].
  constructor; [|assumption]. intro Hin. apply filter_In in Hin. destruct Hin as [Hin _]. contradiction.
Qed.

Lemma NoDup_snoc : forall (m : nat) rs, NoDup rs -> ~ In m rs -> NoDup (rs ++ [m]).
Proof.
  intros m rs Hnd Hn. induction Hnd as [|x r Hnotin Hnd IH]; cbn [app].
  - constructor; [intros []|constructor].
  - constructor.
    + intro Hin. apply in_app_or in Hin. destruct Hin as [Hin|[Heq|[]]]; [contradiction|].
      apply Hn. left. symmetry. assumption.
    + apply IH. intro Hin. apply Hn. right. assumption.
Qed.

Lemma length_zero_N : forall (rs : list nat), N.of_nat (length rs) = 0 -> rs = [].
Proof. intros [|x r] H; [reflexivity|]. cbn [length] in H. lia. Qed.

Lemma rw_check_block_unchanged : forall oid e st e' st' b,
  rw_check_block oid e st = Some (e', st', b) -> e' = e /\ st' = st.
Proof.
  intros oid e st e' st' b Hc. unfold rw_check_block in Hc.
  destruct (me e) as [m|]; [|discriminate].
  destruct (get_obj st oid) as [[| | |w rs s p| | | | | | | | | ]|]; try discriminate.
  destruct (sm_closed s).
  - injection Hc as <- <- <-. auto.
  - destruct (_ || _); [discriminate|]. injection Hc as <- <- <-. auto.
Qed.

(* the re-entrancy diagnosis of read()/write(): the caller holds nothing on this lock *)
Lemma rw_check_block_not_holder : forall oid e st e' st' w rs s p m,
  rw_check_block oid e st = Some (e', st', false) ->
  get_obj st oid = Some (ORwLock w rs s p) -> me e = Some m ->
  sm_closed s = false /\ w <> Some m /\ ~ In m rs.
Proof.
  intros oid e st e' st' w rs s p m Hc Ho Hme. unfold rw_check_block in Hc.
  rewrite Hme, Ho in Hc. destruct (sm_closed s); [discriminate|].
  destruct (_ || _) eqn:Hor; [discriminate|]. apply orb_false_iff in Hor. destruct Hor as [Hw Hr].
  split; [reflexivity|]. split.
  - intro Hwm. subst w. rewrite Nat.eqb_refl in Hw. discriminate.
  - apply existsb_eqb_notIn. assumption.
Qed.

Lemma new_waiter_block_rw : forall d oid k e st e' st' a w rs s p,
  new_waiter_block oid k e st = Some (e', st', a) ->
  get_obj st oid = Some (ORwLock w rs s p) -> rw_okd d (ORwLock w rs s p) ->
  exists s' wid, e' = e /\ a = [N.of_nat wid] /\ get_obj st' oid = Some (ORwLock w rs s' p)
    /\ rw_okd d (ORwLock w rs s' p) /\ waiter_fresh s' wid k
    /\ sm_avail s' = sm_avail s /\ sm_closed s' = sm_closed s
    /\ wtk All (sm_wtab s) (sm_wtab s').
Proof.
  intros d oid k e st e' st' a w rs s p Hb Ho Hok. unfold new_waiter_block in Hb.
  destruct (on_sem oid st _) as [[o [s' wid]]|] eqn:Hon; [|discriminate].
  apply on_sem_spec in Hon. destruct Hon as [Ho' [s0 [Hs0 Hn]]].
  rewrite Ho in Ho'. injection Ho' as <-. cbn in Hs0. injection Hs0 as <-.
  injection Hb as <- <- <-. apply sem_new_waiter_spec in Hn.
  destruct Hn as [Ha [Hc [Hf [Hq [Hk Hfresh]]]]].
  exists s', wid. split; [reflexivity|]. split; [reflexivity|].
  split; [eapply get_set_same; eassumption|].
  split; [|auto]. destruct Hok as [Hfair Hinv]. cbn [rw_okd with_sem].
  split; [congruence|]. rewrite Hc, Ha. exact Hinv.
Qed.

(* what "holding" means for the outcomes below *)
Definition rw_free (w : option nat) (rs : list nat) : Prop := w = None /\ rs = [].

(* THE read()/write() segment *)
Lemma rw_lock_segment_inv : forall oid write wid e st e' st' out w rs s p,
  rw_lock_segment oid write wid e st = Some (e', st', out) ->
  get_obj st oid = Some (ORwLock w rs s p) -> rw_ok (ORwLock w rs s p) ->
  waiter_fresh s wid (rw_permits write) ->
  exists w' rs' s', get_obj st' oid = Some (ORwLock w' rs' s' p) /\ rw_ok (ORwLock w' rs' s' p)
    /\ same_regs e e'
    /\ match out with
       | LoAcquired p' =>
           p' = p /\ sm_closed s = false /\ sm_closed s' = false /\ w = None
           /\ wtk (fun j => j <> wid) (sm_wtab s) (sm_wtab s')
           /\ exists m, me e = Some m /\ ~ In m rs
              /\ if write then rs = [] /\ w' = Some m /\ rs' = [] /\ sm_avail s = MAX_READS /\ sm_avail s' = 0
                 else w' = None /\ rs' = rs ++ [m] /\ sm_avail s' = sm_avail s - 1 /\ 1 <= sm_avail s
       | LoClosed => sm_closed s = true /\ st' = st
       | LoPending => sm_closed s = false /\ w' = w /\ rs' = rs /\ sm_avail s' = sm_avail s
                      /\ sm_closed s' = false
                      /\ (if write then ~ rw_free w rs else w <> None \/ N.of_nat (length rs) = MAX_READS)
                      /\ wtk All (sm_wtab s) (sm_wtab s')
       end.
Proof.
  intros oid write wid e st e' st' out w rs s p Hseg Ho Hok0 [wt [Hw [Hhas Hn]]].
  apply rw_ok_form in Hok0. destruct Hok0 as [Hfair Hinv].
  unfold rw_lock_segment, lock_segment in Hseg.
  destruct (poll_step oid wid e st) as [[[e1 st1] r]|] eqn:Hp; [|discriminate].
  eapply poll_step_spec in Hp; [|eassumption|reflexivity].
  destruct Hp as [m [s1 [Hme [Hpoll Hst1]]]].
  pose proof (sem_poll_spec _ _ _ _ _ _ _ _ Hpoll Hw Hhas Hfair) as [Hregs [Hf1 [Hpost Hk]]].
  cbn [with_sem] in Hst1.
  assert (Hg1 : get_obj st1 oid = Some (ORwLock w rs s1 p)).
  { subst st1. eapply get_set_same; eassumption. }
  pose proof MAX_READS_pos as Hmax.
  assert (Hk' : r = PReadyOk -> wtk (fun j => j <> wid) (sm_wtab s) (sm_wtab s1)).
  { intros _. eapply wtk_weaken; [|exact Hk]. intros j Hj. left. exact Hj. }
  destruct r; cbn [poll_post] in Hpost.
  - (* acquired *)
    destruct Hpost as [Hc [Hc1 [_ [Hle Hav]]]]. rewrite Hn in Hle, Hav.
    unfold rw_take in Hseg. rewrite (same_regs_me _ _ Hregs), Hme, Hg1 in Hseg.
    destruct (Hinv Hc) as [[Hh [Ha Hnd]]|[t [Hh [Hrs Ha]]]].
    + subst w. destruct write; cbn [rw_permits] in Hle, Hav.
      * assert (Hrs : rs = []) by (apply length_zero_N; lia). subst rs.
        injection Hseg as <- <- <-.
        exists (Some m), [], s1. split; [eapply get_set_same; eassumption|].
        cbn [length] in Ha.
        split.
        { apply rw_ok_form. split; [assumption|]. intros _. right. exists m. repeat split. lia. }
        split; [assumption|].
        split; [reflexivity|]. split; [assumption|]. split; [assumption|]. split; [reflexivity|].
        split; [apply Hk'; reflexivity|]. exists m. split; [assumption|]. split; [intros []|]. repeat split; lia.
      * destruct (existsb (Nat.eqb m) rs) eqn:Hex; [discriminate|].
        apply existsb_eqb_notIn in Hex.
        injection Hseg as <- <- <-.
        exists None, (rs ++ [m]), s1. split; [eapply get_set_same; eassumption|].
        split.
        { apply rw_ok_form. split; [assumption|]. intros _. left. split; [reflexivity|].
          split; [|apply NoDup_snoc; assumption].
          rewrite app_length. cbn [length]. lia. }
        split; [assumption|].
        split; [reflexivity|]. split; [assumption|]. split; [assumption|]. split; [reflexivity|].
        split; [apply Hk'; reflexivity|]. exists m. split; [assumption|]. split; [assumption|]. repeat split; lia.
    + exfalso. destruct write; cbn [rw_permits] in Hle; lia.
  - (* closed *)
    destruct Hpost as [Hc [Hs He]]. subst s1 e1. injection Hseg as <- <- <-.
    assert (Hst : st1 = st). { subst st1. apply set_obj_same. assumption. }
    exists w, rs, s. rewrite Hst. split; [assumption|]. split; [apply rw_ok_form; split; assumption|].
    split; [apply same_regs_refl|]. split; [assumption|reflexivity].
  - (* pending *)
    destruct Hpost as [Hc [Hc1 [Hav Hlt]]]. rewrite Hn in Hlt.
    destruct (sleep_block e1 st1) as [[e2 st2]|] eqn:Hsl; [|discriminate].
    injection Hseg as <- <- <-. apply sleep_block_spec in Hsl. destruct Hsl as [-> Hregs2].
    exists w, rs, s1. split; [assumption|].
    split.
    { apply rw_ok_form. split; [assumption|]. intros _. rewrite Hav. apply Hinv. assumption. }
    split; [eapply same_regs_trans; eassumption|].
    split; [assumption|]. split; [reflexivity|]. split; [reflexivity|].
    split; [assumption|]. split; [assumption|].
    split.
    { destruct write; cbn [rw_permits] in Hlt.
      - intros [Hw0 Hrs0]. subst w rs.
        destruct (Hinv Hc) as [[_ [Ha _]]|[t [Hh _]]]; [cbn [length] in Ha; lia|discriminate].
      - destruct (Hinv Hc) as [[_ [Ha _]]|[t [Hh _]]]; [right; lia|left; congruence]. }
    eapply wtk_weaken; [|exact Hk]. intros j _. right. discriminate.
Qed.

(* try_read / try_write, EXCEPT a try_read by a task that already holds a read guard *)
Lemma rw_try_segment_inv : forall oid write e st e' st' r w rs s p,
  rw_try_segment oid write e st = Some (e', st', r) ->
  get_obj st oid = Some (ORwLock w rs s p) -> rw_ok (ORwLock w rs s p) ->
  (forall m, me e = Some m -> write = false -> ~ In m rs) ->
  exists w' rs' s', get_obj st' oid = Some (ORwLock w' rs' s' p) /\ rw_ok (ORwLock w' rs' s' p)
    /\ same_regs e e' /\ sm_wtab s' = sm_wtab s
    /\ (r <> LkWouldBlock ->
          r = res_of_p p /\ sm_closed s = false /\ w = None
          /\ exists m, me e = Some m
             /\ if write then rs = [] /\ w' = Some m /\ rs' = [] /\ sm_avail s = MAX_READS /\ sm_avail s' = 0
                else w' = None /\ rs' = rs ++ [m] /\ sm_avail s' = sm_avail s - 1 /\ 1 <= sm_avail s)
    /\ (r = LkWouldBlock ->
          st' = st
          /\ (sm_closed s = true
              \/ (if write then ~ rw_free w rs else w <> None \/ N.of_nat (length rs) = MAX_READS))
          /\ exists m, me e = Some m /\ e_update_clock e m (sm_last_acquire s) = Some e').
Proof.
  intros oid write e st e' st' r w rs s p Hseg Ho Hok0 Hnre.
  apply rw_ok_form in Hok0. destruct Hok0 as [Hfair Hinv].
  unfold rw_try_segment in Hseg.
  destruct (try_step oid (rw_permits write) e st) as [[[e1 st1] r1]|] eqn:Ht; [|discriminate].
  eapply try_step_spec in Ht; [|eassumption|reflexivity].
  destruct Ht as [s1 [Htry Hst1]]. cbn [with_sem] in Hst1.
  apply sem_try_acquire_spec in Htry. destruct Htry as [_ [Hregs [[_ [Hwt [Hc1 Hf1]]] Hpost]]].
  assert (Hg1 : get_obj st1 oid = Some (ORwLock w rs s1 p)).
  { subst st1. eapply get_set_same; eassumption. }
  pose proof MAX_READS_pos as Hmax.
  assert (Hwhy : sm_closed s = false ->
            sm_avail s < rw_permits write \/ sm_queue s <> [] /\ sm_fair s = true ->
            if write then ~ rw_free w rs else w <> None \/ N.of_nat (length rs) = MAX_READS).
  { intros Hc [Hlt|[_ Hft]]; [|congruence].
    destruct write; cbn [rw_permits] in Hlt.
    - intros [Hw0 Hrs0]. subst w rs.
      destruct (Hinv Hc) as [[_ [Ha _]]|[t [Hh _]]]; [cbn [length] in Ha; lia|discriminate].
    - destruct (Hinv Hc) as [[_ [Ha _]]|[t [Hh _]]]; [right; lia|left; congruence]. }
  destruct r1.
  - destruct Hpost as [Hc [Hle [Hav _]]].
    unfold rw_try_set in Hseg. rewrite Hg1 in Hseg.
    destruct (me e1) as [m|] eqn:Hme1; [|discriminate].
    rewrite (same_regs_me _ _ Hregs) in Hme1.
    destruct (Hinv Hc) as [[Hh [Ha Hnd]]|[t [Hh [Hrs Ha]]]].
    + subst w. destruct write; cbn [rw_permits] in Hle, Hav.
      * assert (Hrs : rs = []) by (apply length_zero_N; lia). subst rs.
        injection Hseg as <- <- <-. cbn [length] in Ha.
        exists (Some m), [], s1. split; [eapply get_set_same; eassumption|].
        split.
        { apply rw_ok_form. split; [congruence|]. intros _. right. exists m. repeat split. lia. }
        split; [assumption|]. split; [assumption|]. split.
        -- intros _. split; [reflexivity|]. split; [assumption|]. split; [reflexivity|].
           exists m. split; [assumption|]. repeat split; lia.
        -- intro Hr. destruct p; discriminate Hr.
      * specialize (Hnre m Hme1 eq_refl). apply existsb_eqb_notIn in Hnre. rewrite Hnre in Hseg.
        apply existsb_eqb_notIn in Hnre.
        injection Hseg as <- <- <-.
        exists None, (rs ++ [m]), s1. split; [eapply get_set_same; eassumption|].
        split.
        { apply rw_ok_form. split; [congruence|]. intros _. left. split; [reflexivity|].
          split; [|apply NoDup_snoc; assumption].
          rewrite app_length. cbn [length]. lia. }
        split; [assumption|]. split; [assumption|]. split.
        -- intros _. split; [reflexivity|]. split; [assumption|]. split; [reflexivity|].
           exists m. split; [assumption|]. repeat split; lia.
        -- intro Hr. destruct p; discriminate Hr.
    + exfalso. destruct write; cbn [rw_permits] in Hle; lia.
  - destruct Hpost as [Hs [Hc [Hlt Hclk]]]. subst s1. injection Hseg as <- <- <-.
    assert (Hst : st1 = st). { subst st1. apply set_obj_same. assumption. }
    exists w, rs, s. rewrite Hst. split; [assumption|]. split; [apply rw_ok_form; split; assumption|].
    split; [assumption|]. split; [reflexivity|]. split; [intro Hr; exfalso; apply Hr; reflexivity|].
    intros _. split; [reflexivity|]. split; [|assumption]. right. apply Hwhy; assumption.
  - destruct Hpost as [Hs [Hc Hclk]]. subst s1. injection Hseg as <- <- <-.
    assert (Hst : st1 = st). { subst st1. apply set_obj_same. assumption. }
    exists w, rs, s. rewrite Hst. split; [assumption|]. split; [apply rw_ok_form; split; assumption|].
    split; [assumption|]. split; [reflexivity|]. split; [intro Hr; exfalso; apply Hr; reflexivity|].
    intros _. split; [reflexivity|]. split; [left; assumption|assumption].
Qed.

(* The state at the end of the FIRST segment of a try_read by a task that already holds a read
   guard (open lock, a permit left): WouldBlock is decided, the permit taken by try_acquire is
   still out, rw_ok does not hold.
   - BEFORE THE REPAIR (rw_try_code_prefix) this was the end of the operation: THE DEFECT, the
     permit was lost for good.
   - In the CURRENT model this is only the state at the scheduling point that precedes the release
     block (see rw_try_fail_restores; rw_okd 1 holds there, see rw_try_segment_invd). *)
Lemma rw_try_read_reentrant_leak : forall oid e st e' st' r w rs s p m,
  rw_try_segment oid false e st = Some (e', st', r) ->
  get_obj st oid = Some (ORwLock w rs s p) -> rw_ok (ORwLock w rs s p) ->
  me e = Some m -> In m rs -> sm_closed s = false -> 1 <= sm_avail s ->
  r = LkWouldBlock /\ w = None
  /\ exists s', get_obj st' oid = Some (ORwLock None rs s' p)
       /\ sm_avail s' = sm_avail s - 1 /\ sm_closed s' = false
       /\ ~ rw_ok (ORwLock None rs s' p).
Proof.
  intros oid e st e' st' r w rs s p m Hseg Ho Hok0 Hme Hin Hc Hle.
  apply rw_ok_form in Hok0. destruct Hok0 as [Hfair Hinv].
  unfold rw_try_segment in Hseg. cbn [rw_permits] in Hseg.
  destruct (try_step oid 1 e st) as [[[e1 st1] r1]|] eqn:Ht; [|discriminate].
  eapply try_step_spec in Ht; [|eassumption|reflexivity].
  destruct Ht as [s1 [Htry Hst1]]. cbn [with_sem] in Hst1.
  apply sem_try_acquire_spec in Htry. destruct Htry as [_ [Hregs [[_ [_ [Hc1 Hf1]]] Hpost]]].
  assert (Hg1 : get_obj st1 oid = Some (ORwLock w rs s1 p)).
  { subst st1. eapply get_set_same; eassumption. }
  destruct (Hinv Hc) as [[Hh [Ha Hnd]]|[t [Hh [Hrs Ha]]]]; [|lia]. subst w.
  destruct r1.
  - destruct Hpost as [_ [_ [Hav _]]].
    unfold rw_try_set in Hseg. rewrite Hg1, (same_regs_me _ _ Hregs), Hme in Hseg.
    apply existsb_eqb_In in Hin. rewrite Hin in Hseg. injection Hseg as <- <- <-.
    split; [reflexivity|]. split; [reflexivity|].
    exists s1. split; [assumption|]. split; [assumption|]. split; [congruence|].
    intros [_ Hinv1]. destruct (Hinv1 ltac:(congruence)) as [[_ [Ha1 _]]|[t [Hh _]]]; [lia|discriminate].
  - destruct Hpost as [_ [_ [[Hlt|[_ Hft]] _]]]; [lia|congruence].
  - destruct Hpost as [_ [Hcl _]]. congruence.
Qed.

(* Drop for RwLockReadGuard / RwLockWriteGuard *)
Lemma rw_unlock_segment_inv : forall oid write e st e' st' w rs s p,
  rw_unlock_segment oid write e st = Some (e', st') ->
  get_obj st oid = Some (ORwLock w rs s p) -> rw_ok (ORwLock w rs s p) ->
  exists m stop s' w' rs' p',
    me e = Some m /\ should_stop e = Some stop
    /\ get_obj st' oid = Some (ORwLock w' rs' s' p') /\ rw_ok (ORwLock w' rs' s' p')
    /\ sm_avail s' = sm_avail s + rw_permits write /\ sm_closed s' = (sm_closed s || stop)
    /\ wtk All (sm_wtab s) (sm_wtab s')
    /\ if write then w = Some m /\ w' = None /\ rs' = rs /\ p' = (p || panicking e)
       else In m rs /\ w' = w /\ rs' = filter (fun x => negb (Nat.eqb x m)) rs /\ p' = p.
Proof.
  intros oid write e st e' st' w rs s p Hseg Ho Hok0.
  apply rw_ok_form in Hok0. destruct Hok0 as [Hfair Hinv].
  unfold rw_unlock_segment, rw_unlock_block in Hseg.
  destruct (me e) as [m|] eqn:Hme; [|discriminate].
  destruct (on_sem oid st _) as [[o [e1 s1]]|] eqn:Hon; [|discriminate].
  apply on_sem_spec in Hon. destruct Hon as [Ho' [s0 [Hs0 Hrel]]].
  rewrite Ho in Ho'. injection Ho' as <-. cbn in Hs0. injection Hs0 as <-.
  apply sem_release_spec in Hrel; [|apply rw_permits_nz|assumption].
  destruct Hrel as [stop [Hstop [Hav [Hcl [Hf1 Hk]]]]].
  pose proof MAX_READS_pos as Hmax.
  destruct write.
  - destruct w as [w'|]; [|discriminate]. destruct (Nat.eqb w' m) eqn:Hwm; [|discriminate].
    apply Nat.eqb_eq in Hwm. subst w'. injection Hseg as <- <-.
    exists m, stop, s1, None, rs, (p || panicking e).
    split; [reflexivity|]. split; [assumption|]. split; [eapply get_set_same; eassumption|].
    split.
    { apply rw_ok_form. split; [assumption|]. intro Hc1. left. split; [reflexivity|].
      rewrite Hcl in Hc1. apply orb_false_iff in Hc1. destruct Hc1 as [Hc _].
      destruct (Hinv Hc) as [[Hh _]|[t [_ [Hrs Ha]]]]; [discriminate|]. subst rs.
      cbn [rw_permits length] in *. split; [lia|constructor]. }
    auto 10.
  - destruct (existsb (Nat.eqb m) rs) eqn:Hex; [|discriminate]. apply existsb_eqb_In in Hex.
    injection Hseg as <- <-.
    exists m, stop, s1, w, (filter (fun x => negb (Nat.eqb x m)) rs), p.
    split; [reflexivity|]. split; [assumption|]. split; [eapply get_set_same; eassumption|].
    split.
    { apply rw_ok_form. split; [assumption|]. intro Hc1.
      rewrite Hcl in Hc1. apply orb_false_iff in Hc1. destruct Hc1 as [Hc _].
      destruct (Hinv Hc) as [[Hh [Ha Hnd]]|[t [_ [Hrs _]]]]; [|subst rs; destruct Hex].
      left. split; [assumption|]. split; [|apply NoDup_filter_neq; assumption].
      pose proof (filter_neq_length m rs Hnd Hex) as Hlen. cbn [rw_permits] in Hav. lia. }
    auto 10.
Qed.

Lemma rw_closed_path_inv : forall oid write e st e' st' b w rs s p,
  rw_take e st oid write = Some (e', st', b) ->
  get_obj st oid = Some (ORwLock w rs s p) -> rw_ok (ORwLock w rs s p) -> sm_closed s = true ->
  e' = e /\ b = p /\ w = None
  /\ exists m w' rs', me e = Some m /\ get_obj st' oid = Some (ORwLock w' rs' s p)
       /\ rw_ok (ORwLock w' rs' s p)
       /\ if write then rs = [] /\ w' = Some m /\ rs' = [] else ~ In m rs /\ w' = None /\ rs' = rs ++ [m].
Proof.
  intros oid write e st e' st' b w rs s p Hs Ho Hok0 Hc. apply rw_ok_form in Hok0. destruct Hok0 as [Hfair _]. unfold rw_take in Hs.
  destruct (me e) as [m|]; [|discriminate]. rewrite Ho in Hs.
  assert (Hok : forall w' rs', rw_ok (ORwLock w' rs' s p)).
  { intros w' rs'. apply rw_ok_form. split; [assumption|]. intro Hc'. congruence. }
  destruct write.
  - destruct w; [discriminate|]. destruct rs; [|discriminate]. injection Hs as <- <- <-.
    split; [reflexivity|]. split; [reflexivity|]. split; [reflexivity|].
    exists m, (Some m), []. split; [reflexivity|]. split; [eapply get_set_same; eassumption|].
    split; [apply Hok|]. auto.
  - destruct w; [discriminate|].
    destruct (existsb (Nat.eqb m) rs) eqn:Hex; [discriminate|]. apply existsb_eqb_notIn in Hex.
    injection Hs as <- <- <-.
    split; [reflexivity|]. split; [reflexivity|]. split; [reflexivity|].
    exists m, None, (rs ++ [m]). split; [reflexivity|]. split; [eapply get_set_same; eassumption|].
    split; [apply Hok|]. auto.
Qed.

(* ========================================================================= *)
(*  10b. RwLock with permits in transit (the CURRENT try_read/try_write)      *)
(*                                                                            *)
(*  A re-entrant try_read now runs as: [try-acquire block; holder-check       *)
(*  block] Switch [release block].  Between the two segments one permit is in *)
(*  transit: rw_okd (d + 1).  Every segment preserves rw_okd d for every d,   *)
(*  so other tasks may run in that window (and may be in it themselves).      *)
(* ========================================================================= *)

Lemma sem_release_nostop : forall e s k e' s',
  sem_release e s k = Some (e', s') -> k <> 0 -> sm_fair s = false ->
  should_stop e = Some false -> sem_rest s s' /\ sm_avail s' = sm_avail s + k.
Proof.
  intros e s k e' s' Hr Hk Hf Hstop. unfold sem_release in Hr.
  destruct (N.eqb k 0) eqn:Hk0; [apply N.eqb_eq in Hk0; contradiction|].
  rewrite Hstop in Hr.
  destruct (me e) as [m|]; [|discriminate].
  destruct (e_increment_clock e m) as [e1|]; [|discriminate].
  destruct (e_clock e1 m) as [mc|]; [|discriminate].
  assert (Hf1 : sm_fair (permits_release s k mc) = false) by exact Hf.
  rewrite Hf1 in Hr.
  destruct (fold_left _ _ _) as [e2|]; [|discriminate].
  injection Hr as <- <-. split; [repeat split|reflexivity].
Qed.

Lemma sem_rest_trans : forall s1 s2 s3, sem_rest s1 s2 -> sem_rest s2 s3 -> sem_rest s1 s3.
Proof.
  intros s1 s2 s3 [A [B [C D]]] [A' [B' [C' D']]]. repeat split; congruence.
Qed.

Lemma rw_okd_0 : forall o, rw_okd 0 o <-> rw_ok o.
Proof. intros o. unfold rw_ok. tauto. Qed.

Lemma rw_lock_segment_invd : forall d oid write wid e st e' st' out w rs s p,
  rw_lock_segment oid write wid e st = Some (e', st', out) ->
  get_obj st oid = Some (ORwLock w rs s p) -> rw_okd d (ORwLock w rs s p) ->
  waiter_fresh s wid (rw_permits write) ->
  exists w' rs' s', get_obj st' oid = Some (ORwLock w' rs' s' p) /\ rw_okd d (ORwLock w' rs' s' p)
    /\ same_regs e e'
    /\ match out with
       | LoAcquired p' =>
           p' = p /\ sm_closed s = false /\ sm_closed s' = false /\ w = None
           /\ wtk (fun j => j <> wid) (sm_wtab s) (sm_wtab s')
           /\ exists m, me e = Some m /\ ~ In m rs
              /\ if write then rs = [] /\ w' = Some m /\ rs' = [] /\ sm_avail s = MAX_READS /\ sm_avail s' = 0 /\ d = 0
                 else w' = None /\ rs' = rs ++ [m] /\ sm_avail s' = sm_avail s - 1 /\ 1 <= sm_avail s
       | LoClosed => sm_closed s = true /\ st' = st
       | LoPending => sm_closed s = false /\ w' = w /\ rs' = rs /\ sm_avail s' = sm_avail s
                      /\ sm_closed s' = false
                      /\ (if write then ~ (rw_free w rs /\ d = 0)
                          else w <> None \/ N.of_nat (length rs) + d = MAX_READS)
                      /\ wtk All (sm_wtab s) (sm_wtab s')
       end.
Proof.
  intros d oid write wid e st e' st' out w rs s p Hseg Ho [Hfair Hinv] [wt [Hw [Hhas Hn]]].
  unfold rw_lock_segment, lock_segment in Hseg.
  destruct (poll_step oid wid e st) as [[[e1 st1] r]|] eqn:Hp; [|discriminate].
  eapply poll_step_spec in Hp; [|eassumption|reflexivity].
  destruct Hp as [m [s1 [Hme [Hpoll Hst1]]]].
  pose proof (sem_poll_spec _ _ _ _ _ _ _ _ Hpoll Hw Hhas Hfair) as [Hregs [Hf1 [Hpost Hk]]].
  cbn [with_sem] in Hst1.
  assert (Hg1 : get_obj st1 oid = Some (ORwLock w rs s1 p)).
  { subst st1. eapply get_set_same; eassumption. }
  pose proof MAX_READS_pos as Hmax.
  assert (Hk' : r = PReadyOk -> wtk (fun j => j <> wid) (sm_wtab s) (sm_wtab s1)).
  { intros _. eapply wtk_weaken; [|exact Hk]. intros j Hj. left. exact Hj. }
  destruct r; cbn [poll_post] in Hpost.
  - (* acquired *)
    destruct Hpost as [Hc [Hc1 [_ [Hle Hav]]]]. rewrite Hn in Hle, Hav.
    unfold rw_take in Hseg. rewrite (same_regs_me _ _ Hregs), Hme, Hg1 in Hseg.
    destruct (Hinv Hc) as [[Hh [Ha Hnd]]|[t [Hh [Hrs [Ha Hd]]]]].
    + subst w. destruct write; cbn [rw_permits] in Hle, Hav.
      * assert (Hrs : rs = []) by (apply length_zero_N; lia). subst rs.
        injection Hseg as <- <- <-.
        exists (Some m), [], s1. split; [eapply get_set_same; eassumption|].
        cbn [length] in Ha.
        split.
        { cbn [rw_okd]. split; [assumption|]. intros _. right. exists m.
          split; [reflexivity|]. split; [reflexivity|]. split; lia. }
        split; [assumption|].
        split; [reflexivity|]. split; [assumption|]. split; [assumption|]. split; [reflexivity|].
        split; [apply Hk'; reflexivity|]. exists m. split; [assumption|]. split; [intros []|].
        split; [reflexivity|]. split; [reflexivity|]. split; [reflexivity|]. split; [lia|]. split; lia.
      * destruct (existsb (Nat.eqb m) rs) eqn:Hex; [discriminate|].
        apply existsb_eqb_notIn in Hex.
        injection Hseg as <- <- <-.
        exists None, (rs ++ [m]), s1. split; [eapply get_set_same; eassumption|].
        split.
        { cbn [rw_okd]. split; [assumption|]. intros _. left. split; [reflexivity|].
          split; [|apply NoDup_snoc; assumption].
          rewrite app_length. cbn [length]. lia. }
        split; [assumption|].
        split; [reflexivity|]. split; [assumption|]. split; [assumption|]. split; [reflexivity|].
        split; [apply Hk'; reflexivity|]. exists m. split; [assumption|]. split; [assumption|].
        split; [reflexivity|]. split; [reflexivity|]. split; lia.
    + exfalso. destruct write; cbn [rw_permits] in Hle; lia.
  - (* closed *)
    destruct Hpost as [Hc [Hs He]]. subst s1 e1. injection Hseg as <- <- <-.
    assert (Hst : st1 = st). { subst st1. apply set_obj_same. assumption. }
    exists w, rs, s. rewrite Hst. split; [assumption|]. split; [split; assumption|].
    split; [apply same_regs_refl|]. split; [assumption|reflexivity].
  - (* pending *)
    destruct Hpost as [Hc [Hc1 [Hav Hlt]]]. rewrite Hn in Hlt.
    destruct (sleep_block e1 st1) as [[e2 st2]|] eqn:Hsl; [|discriminate].
    injection Hseg as <- <- <-. apply sleep_block_spec in Hsl. destruct Hsl as [-> Hregs2].
    exists w, rs, s1. split; [assumption|].
    split.
    { cbn [rw_okd]. split; [assumption|]. intros _. rewrite Hav. apply Hinv. assumption. }
    split; [eapply same_regs_trans; eassumption|].
    split; [assumption|]. split; [reflexivity|]. split; [reflexivity|].
    split; [assumption|]. split; [assumption|].
    split.
    { destruct write; cbn [rw_permits] in Hlt.
      - intros [[Hw0 Hrs0] Hd0]. subst w rs d.
        destruct (Hinv Hc) as [[_ [Ha _]]|[t [Hh _]]]; [cbn [length] in Ha; lia|discriminate].
      - destruct (Hinv Hc) as [[_ [Ha _]]|[t [Hh _]]]; [right; lia|left; congruence]. }
    eapply wtk_weaken; [|exact Hk]. intros j _. right. discriminate.
Qed.

(* try_read / try_write, ALL cases (first segment).  When it ends in the re-entrant refusal
   (rw_try_needs_release) the lock is untouched except that one permit is now in transit. *)
Lemma rw_try_segment_invd : forall d oid write e st e' st' r w rs s p,
  rw_try_segment oid write e st = Some (e', st', r) ->
  get_obj st oid = Some (ORwLock w rs s p) -> rw_okd d (ORwLock w rs s p) ->
  exists w' rs' s', get_obj st' oid = Some (ORwLock w' rs' s' p)
    /\ same_regs e e' /\ sem_rest s s'
    /\ if rw_try_needs_release oid write e st
       then r = LkWouldBlock /\ write = false /\ w = None /\ w' = w /\ rs' = rs
            /\ (exists m, me e = Some m /\ In m rs)
            /\ sm_closed s = false /\ 1 <= sm_avail s /\ sm_avail s' = sm_avail s - 1
            /\ rw_okd (d + 1) (ORwLock w' rs' s' p)
       else rw_okd d (ORwLock w' rs' s' p)
            /\ (r <> LkWouldBlock ->
                  r = res_of_p p /\ sm_closed s = false /\ w = None
                  /\ exists m, me e = Some m /\ ~ In m rs
                     /\ if write then rs = [] /\ w' = Some m /\ rs' = [] /\ sm_avail s = MAX_READS /\ sm_avail s' = 0 /\ d = 0
                        else w' = None /\ rs' = rs ++ [m] /\ sm_avail s' = sm_avail s - 1 /\ 1 <= sm_avail s)
            /\ (r = LkWouldBlock ->
                  st' = st
                  /\ (sm_closed s = true
                      \/ (if write then ~ (rw_free w rs /\ d = 0)
                          else w <> None \/ N.of_nat (length rs) + d = MAX_READS))
                  /\ exists m, me e = Some m /\ e_update_clock e m (sm_last_acquire s) = Some e').
Proof.
  intros d oid write e st e' st' r w rs s p Hseg Ho [Hfair Hinv].
  unfold rw_try_segment in Hseg. unfold rw_try_needs_release.
  destruct (try_step oid (rw_permits write) e st) as [[[e1 st1] r1]|] eqn:Ht; [|discriminate].
  eapply try_step_spec in Ht; [|eassumption|reflexivity].
  destruct Ht as [s1 [Htry Hst1]]. cbn [with_sem] in Hst1.
  apply sem_try_acquire_spec in Htry. destruct Htry as [_ [Hregs [Hrest Hpost]]].
  pose proof Hrest as [_ [_ [Hc1 Hf1]]].
  assert (Hg1 : get_obj st1 oid = Some (ORwLock w rs s1 p)).
  { subst st1. eapply get_set_same; eassumption. }
  pose proof MAX_READS_pos as Hmax.
  assert (Hwhy : sm_closed s = false ->
            sm_avail s < rw_permits write \/ sm_queue s <> [] /\ sm_fair s = true ->
            if write then ~ (rw_free w rs /\ d = 0) else w <> None \/ N.of_nat (length rs) + d = MAX_READS).
  { intros Hc [Hlt|[_ Hft]]; [|congruence].
    destruct write; cbn [rw_permits] in Hlt.
    - intros [[Hw0 Hrs0] Hd0]. subst w rs d.
      destruct (Hinv Hc) as [[_ [Ha _]]|[t [Hh _]]]; [cbn [length] in Ha; lia|discriminate].
    - destruct (Hinv Hc) as [[_ [Ha _]]|[t [Hh _]]]; [right; lia|left; congruence]. }
  destruct r1.
  - destruct Hpost as [Hc [Hle [Hav _]]].
    rewrite Hseg.
    unfold rw_try_set in Hseg. rewrite Hg1 in Hseg.
    destruct (me e1) as [m|] eqn:Hme1; [|discriminate].
    rewrite (same_regs_me _ _ Hregs) in Hme1.
    destruct (Hinv Hc) as [[Hh [Ha Hnd]]|[t [Hh [Hrs [Ha Hd]]]]].
    + subst w. destruct write; cbn [rw_permits] in Hle, Hav.
      * assert (Hrs : rs = []) by (apply length_zero_N; lia). subst rs.
        injection Hseg as <- <- <-. cbn [length] in Ha.
        exists (Some m), [], s1. split; [eapply get_set_same; eassumption|].
        split; [assumption|]. split; [assumption|].
        assert (Hnr : match (if p then LkPoisoned else LkOk) with LkWouldBlock => true | _ => false end = false)
          by (destruct p; reflexivity).
        rewrite Hnr. split.
        { cbn [rw_okd]. split; [congruence|]. intros _. right. exists m.
          split; [reflexivity|]. split; [reflexivity|]. split; lia. }
        split.
        -- intros _. split; [reflexivity|]. split; [assumption|]. split; [reflexivity|].
           exists m. split; [assumption|]. split; [intros []|].
           split; [reflexivity|]. split; [reflexivity|]. split; [reflexivity|]. split; [lia|]. split; lia.
        -- intro Hr. destruct p; discriminate Hr.
      * destruct (existsb (Nat.eqb m) rs) eqn:Hex.
        -- (* the caller is already a reader *)
           apply existsb_eqb_In in Hex. injection Hseg as <- <- <-.
           exists None, rs, s1. split; [assumption|]. split; [assumption|]. split; [assumption|].
           split; [reflexivity|]. split; [reflexivity|]. split; [reflexivity|]. split; [reflexivity|].
           split; [reflexivity|]. split; [exists m; split; assumption|].
           split; [assumption|]. split; [assumption|]. split; [assumption|].
           cbn [rw_okd]. split; [congruence|]. intros _. left. split; [reflexivity|].
           split; [lia|assumption].
        -- apply existsb_eqb_notIn in Hex. injection Hseg as <- <- <-.
           exists None, (rs ++ [m]), s1. split; [eapply get_set_same; eassumption|].
           split; [assumption|]. split; [assumption|].
           assert (Hnr : match (if p then LkPoisoned else LkOk) with LkWouldBlock => true | _ => false end = false)
             by (destruct p; reflexivity).
           rewrite Hnr. split.
           { cbn [rw_okd]. split; [congruence|]. intros _. left. split; [reflexivity|].
             split; [|apply NoDup_snoc; assumption].
             rewrite app_length. cbn [length]. lia. }
           split.
           ++ intros _. split; [reflexivity|]. split; [assumption|]. split; [reflexivity|].
              exists m. split; [assumption|]. split; [assumption|].
              split; [reflexivity|]. split; [reflexivity|]. split; lia.
           ++ intro Hr. destruct p; discriminate Hr.
    + exfalso. destruct write; cbn [rw_permits] in Hle; lia.
  - destruct Hpost as [Hs [Hc [Hlt Hclk]]]. subst s1. injection Hseg as <- <- <-.
    assert (Hst : st1 = st). { subst st1. apply set_obj_same. assumption. }
    exists w, rs, s. rewrite Hst. split; [assumption|]. split; [assumption|]. split; [assumption|].
    split; [split; assumption|].
    split; [intro Hr; exfalso; apply Hr; reflexivity|].
    intros _. split; [reflexivity|]. split; [|assumption]. right. apply Hwhy; assumption.
  - destruct Hpost as [Hs [Hc Hclk]]. subst s1. injection Hseg as <- <- <-.
    assert (Hst : st1 = st). { subst st1. apply set_obj_same. assumption. }
    exists w, rs, s. rewrite Hst. split; [assumption|]. split; [assumption|]. split; [assumption|].
    split; [split; assumption|].
    split; [intro Hr; exfalso; apply Hr; reflexivity|].
    intros _. split; [reflexivity|]. split; [left; assumption|assumption].
Qed.

(* the second segment of the re-entrant refusal: release(1) brings the permit back *)
Lemma release_segment_invd : forall d oid e st e' st' w rs s p,
  release_segment oid 1 e st = Some (e', st') ->
  get_obj st oid = Some (ORwLock w rs s p) -> rw_okd (d + 1) (ORwLock w rs s p) ->
  exists s' stop, get_obj st' oid = Some (ORwLock w rs s' p) /\ rw_okd d (ORwLock w rs s' p)
    /\ should_stop e = Some stop
    /\ sm_avail s' = sm_avail s + 1 /\ sm_closed s' = (sm_closed s || stop)
    /\ wtk All (sm_wtab s) (sm_wtab s')
    /\ (stop = false -> sem_rest s s').
Proof.
  intros d oid e st e' st' w rs s p Hseg Ho [Hfair Hinv].
  unfold release_segment, release_block in Hseg.
  destruct (on_sem oid st _) as [[o [e1 s1]]|] eqn:Hon; [|discriminate].
  apply on_sem_spec in Hon. destruct Hon as [Ho' [s0 [Hs0 Hrel]]].
  rewrite Ho in Ho'. injection Ho' as <-. cbn in Hs0. injection Hs0 as <-.
  injection Hseg as <- <-. cbn [with_sem].
  pose proof Hrel as Hrel2.
  apply sem_release_spec in Hrel; [|lia|assumption].
  destruct Hrel as [stop [Hstop [Hav [Hcl [Hf1 Hk]]]]].
  exists s1, stop. split; [eapply get_set_same; eassumption|].
  split.
  { cbn [rw_okd]. split; [assumption|]. intro Hc1.
    rewrite Hcl in Hc1. apply orb_false_iff in Hc1. destruct Hc1 as [Hc _].
    destruct (Hinv Hc) as [[Hh [Ha Hnd]]|[t [_ [_ [_ Hd]]]]]; [|lia].
    left. split; [assumption|]. split; [lia|assumption]. }
  split; [assumption|]. split; [assumption|]. split; [assumption|]. split; [assumption|].
  intro Hs. subst stop. eapply sem_release_nostop in Hrel2; [|lia|assumption|assumption].
  apply Hrel2.
Qed.

Lemma rw_unlock_segment_invd : forall d oid write e st e' st' w rs s p,
  rw_unlock_segment oid write e st = Some (e', st') ->
  get_obj st oid = Some (ORwLock w rs s p) -> rw_okd d (ORwLock w rs s p) ->
  exists m stop s' w' rs' p',
    me e = Some m /\ should_stop e = Some stop
    /\ get_obj st' oid = Some (ORwLock w' rs' s' p') /\ rw_okd d (ORwLock w' rs' s' p')
    /\ sm_avail s' = sm_avail s + rw_permits write /\ sm_closed s' = (sm_closed s || stop)
    /\ wtk All (sm_wtab s) (sm_wtab s')
    /\ if write then w = Some m /\ w' = None /\ rs' = rs /\ p' = (p || panicking e)
       else In m rs /\ w' = w /\ rs' = filter (fun x => negb (Nat.eqb x m)) rs /\ p' = p.
Proof.
  intros d oid write e st e' st' w rs s p Hseg Ho [Hfair Hinv].
  unfold rw_unlock_segment, rw_unlock_block in Hseg.
  destruct (me e) as [m|] eqn:Hme; [|discriminate].
  destruct (on_sem oid st _) as [[o [e1 s1]]|] eqn:Hon; [|discriminate].
  apply on_sem_spec in Hon. destruct Hon as [Ho' [s0 [Hs0 Hrel]]].
  rewrite Ho in Ho'. injection Ho' as <-. cbn in Hs0. injection Hs0 as <-.
  apply sem_release_spec in Hrel; [|apply rw_permits_nz|assumption].
  destruct Hrel as [stop [Hstop [Hav [Hcl [Hf1 Hk]]]]].
  pose proof MAX_READS_pos as Hmax.
  destruct write.
  - destruct w as [w'|]; [|discriminate]. destruct (Nat.eqb w' m) eqn:Hwm; [|discriminate].
    apply Nat.eqb_eq in Hwm. subst w'. injection Hseg as <- <-.
    exists m, stop, s1, None, rs, (p || panicking e).
    split; [reflexivity|]. split; [assumption|]. split; [eapply get_set_same; eassumption|].
    split.
    { cbn [rw_okd]. split; [assumption|]. intro Hc1. left. split; [reflexivity|].
      rewrite Hcl in Hc1. apply orb_false_iff in Hc1. destruct Hc1 as [Hc _].
      destruct (Hinv Hc) as [[Hh _]|[t [_ [Hrs [Ha Hd]]]]]; [discriminate|]. subst rs.
      cbn [rw_permits length] in *. split; [lia|constructor]. }
    auto 10.
  - destruct (existsb (Nat.eqb m) rs) eqn:Hex; [|discriminate]. apply existsb_eqb_In in Hex.
    injection Hseg as <- <-.
    exists m, stop, s1, w, (filter (fun x => negb (Nat.eqb x m)) rs), p.
    split; [reflexivity|]. split; [assumption|]. split; [eapply get_set_same; eassumption|].
    split.
    { cbn [rw_okd]. split; [assumption|]. intro Hc1.
      rewrite Hcl in Hc1. apply orb_false_iff in Hc1. destruct Hc1 as [Hc _].
      destruct (Hinv Hc) as [[Hh [Ha Hnd]]|[t [_ [Hrs _]]]]; [|subst rs; destruct Hex].
      left. split; [assumption|]. split; [|apply NoDup_filter_neq; assumption].
      pose proof (filter_neq_length m rs Hnd Hex) as Hlen. cbn [rw_permits] in Hav. lia. }
    auto 10.
Qed.

Lemma rw_closed_path_invd : forall d oid write e st e' st' b w rs s p,
  rw_take e st oid write = Some (e', st', b) ->
  get_obj st oid = Some (ORwLock w rs s p) -> rw_okd d (ORwLock w rs s p) -> sm_closed s = true ->
  e' = e /\ b = p /\ w = None
  /\ exists m w' rs', me e = Some m /\ get_obj st' oid = Some (ORwLock w' rs' s p)
       /\ rw_okd d (ORwLock w' rs' s p)
       /\ if write then rs = [] /\ w' = Some m /\ rs' = [] else ~ In m rs /\ w' = None /\ rs' = rs ++ [m].
Proof.
  intros d oid write e st e' st' b w rs s p Hs Ho [Hfair _] Hc. unfold rw_take in Hs.
  destruct (me e) as [m|]; [|discriminate]. rewrite Ho in Hs.
  assert (Hok : forall w' rs', rw_okd d (ORwLock w' rs' s p)).
  { intros w' rs'. cbn [rw_okd]. split; [assumption|]. intro Hc'. congruence. }
  destruct write.
  - destruct w; [discriminate|]. destruct rs; [|discriminate]. injection Hs as <- <- <-.
    split; [reflexivity|]. split; [reflexivity|]. split; [reflexivity|].
    exists m, (Some m), []. split; [reflexivity|]. split; [eapply get_set_same; eassumption|].
    split; [apply Hok|]. auto.
  - destruct w; [discriminate|].
    destruct (existsb (Nat.eqb m) rs) eqn:Hex; [discriminate|]. apply existsb_eqb_notIn in Hex.
    injection Hs as <- <- <-.
    split; [reflexivity|]. split; [reflexivity|]. split; [reflexivity|].
    exists m, None, (rs ++ [m]). split; [reflexivity|]. split; [eapply get_set_same; eassumption|].
    split; [apply Hok|]. auto.
Qed.

Definition only_clock_moved (e e' : exec) (c : vclock) : Prop :=
  exists m, me e = Some m /\ e_update_clock e m c = Some e'.

(* ---- THE CURRENT MODEL: a failing try_read / try_write changes nothing that matters ----
   Either the refusal comes from the semaphore (no permit, or closed): the store is literally
   unchanged and only the caller's clock moved.  Or it comes from the holder check (re-entrant
   try_read): then, after the release block that the code runs next (in whatever execution state
   `e2` the task is resumed, the store not having been touched in between), writer and readers are
   the same, sm_avail is the same, rw_ok holds again.  What may differ: the caller's clock and the
   tasks woken by the release in the execution state; in the semaphore sm_batches (the permit left
   the front batch and came back as a new batch with the releaser's clock) and sm_last_acquire
   (joined with the caller's clock); and, only if the caller is panicking or the execution is
   stopping at the release (stop = true), the semaphore is closed with its queue emptied. *)
Theorem rw_try_fail_restores : forall oid write e st e1 st1 w rs s p,
  rw_try_segment oid write e st = Some (e1, st1, LkWouldBlock) ->
  get_obj st oid = Some (ORwLock w rs s p) -> rw_ok (ORwLock w rs s p) ->
  if rw_try_needs_release oid write e st
  then write = false
       /\ forall e2 e3 st3, release_segment oid (rw_permits write) e2 st1 = Some (e3, st3) ->
          exists s3 stop, get_obj st3 oid = Some (ORwLock w rs s3 p) /\ rw_ok (ORwLock w rs s3 p)
            /\ sm_avail s3 = sm_avail s
            /\ should_stop e2 = Some stop /\ sm_closed s3 = stop
            /\ wtk All (sm_wtab s) (sm_wtab s3)
            /\ (stop = false -> sem_rest s s3)
  else st1 = st /\ only_clock_moved e e1 (sm_last_acquire s).
Proof.
  intros oid write e st e1 st1 w rs s p Hseg Ho Hok.
  destruct (rw_try_segment_invd 0 _ _ _ _ _ _ _ _ _ _ _ Hseg Ho Hok) as [w' [rs' [s1 [Hg1 [_ [Hrest Hcase]]]]]].
  destruct (rw_try_needs_release oid write e st).
  - destruct Hcase as [_ [Hwf [_ [Hw' [Hrs' [_ [Hc [Hle [Hav Hokd]]]]]]]]]. subst w' rs' write.
    split; [reflexivity|]. intros e2 e3 st3 Hrel. cbn [rw_permits] in Hrel.
    destruct (release_segment_invd 0 _ _ _ _ _ _ _ _ _ Hrel Hg1 Hokd)
      as [s3 [stop [Hg3 [Hok3 [Hstop [Hav3 [Hcl3 [Hk3 Hrest3]]]]]]]].
    exists s3, stop. split; [assumption|]. split; [apply rw_okd_0; assumption|].
    split; [lia|]. split; [assumption|].
    destruct Hrest as [Hq [Hwt [Hc1 Hf1]]].
    split; [rewrite Hcl3, Hc1, Hc; reflexivity|].
    split; [rewrite <- Hwt; assumption|].
    intro Hs. apply (sem_rest_trans s s1 s3); [repeat split; assumption|apply Hrest3; assumption].
  - destruct Hcase as [_ [_ Hfail]]. destruct (Hfail eq_refl) as [Hst [_ Hclk]]. split; assumption.
Qed.

(* the same for Mutex::try_lock (no second segment there) *)
Theorem mutex_try_fail_restores : forall oid e st e' st' h s p,
  mutex_try_segment oid e st = Some (e', st', LkWouldBlock) ->
  get_obj st oid = Some (OMutex h s p) -> mutex_ok (OMutex h s p) ->
  st' = st /\ only_clock_moved e e' (sm_last_acquire s).
Proof.
  intros oid e st e' st' h s p Hseg Ho Hok.
  destruct (mutex_try_segment_inv _ _ _ _ _ _ _ _ _ Hseg Ho Hok) as [h' [s' [_ [_ [_ [_ [_ Hfail]]]]]]].
  destruct (Hfail eq_refl) as [Hst [_ Hclk]]. split; assumption.
Qed.

(* ========================================================================= *)
(*  11. Consequences of the invariants                                        *)
(* ========================================================================= *)

(* ---- mutual exclusion on a Mutex ---- *)
(* while some task holds an open mutex there is no permit, hence no acquire of any kind succeeds *)
Lemma mutex_excl : forall t s p,
  mutex_ok (OMutex (Some t) s p) -> sm_closed s = false ->
  sm_avail s = 0
  /\ (forall e e' s' r, acquire_permits e s 1 = Some (e', s', r) -> r <> AOk)
  /\ (forall e e' s' r, sem_try_acquire e s 1 = Some (e', s', r) -> r <> AOk)
  /\ (forall e wid wk e' s' r, waiter_fresh s wid 1 -> sem_poll e s wid wk = Some (e', s', r) -> r <> PReadyOk).
Proof.
  intros t s p [Hfair Hinv] Hc.
  assert (Ha : sm_avail s = 0).
  { destruct (Hinv Hc) as [[Hh _]|[t' [_ Ha]]]; [discriminate|assumption]. }
  split; [assumption|]. split; [|split].
  - intros e e' s' r Hacq Hr. subst r. apply acquire_permits_spec in Hacq.
    destruct Hacq as [_ [_ [_ [_ [Hle _]]]]]. lia.
  - intros e e' s' r Hacq Hr. subst r. apply sem_try_acquire_spec in Hacq.
    destruct Hacq as [_ [_ [_ [_ [Hle _]]]]]. lia.
  - intros e wid wk e' s' r [w [Hw [Hhas Hn]]] Hpoll Hr. subst r.
    pose proof (sem_poll_spec _ _ _ _ _ _ _ _ Hpoll Hw Hhas Hfair) as [_ [_ [Hpost _]]].
    cbn [poll_post] in Hpost. destruct Hpost as [_ [_ [_ [Hle _]]]]. lia.
Qed.

(* the segment-level reading: with a holder in place no lock()/try_lock() returns a guard *)
Lemma mutex_excl_segments : forall oid st t s p,
  get_obj st oid = Some (OMutex (Some t) s p) -> mutex_ok (OMutex (Some t) s p) -> sm_closed s = false ->
  (forall wid e e' st' out, waiter_fresh s wid 1 ->
     mutex_lock_segment oid wid e st = Some (e', st', out) -> out = LoPending)
  /\ (forall e e' st' r, mutex_try_segment oid e st = Some (e', st', r) -> r = LkWouldBlock).
Proof.
  intros oid st t s p Ho Hok Hc. split.
  - intros wid e e' st' out Hfresh Hseg.
    destruct (mutex_lock_segment_inv _ _ _ _ _ _ _ _ _ _ Hseg Ho Hok Hfresh) as [h' [s' [_ [_ [_ Hout]]]]].
    destruct out as [p'| |]; [|destruct Hout; congruence|reflexivity].
    destruct Hout as [_ [_ [Hh _]]]. discriminate.
  - intros e e' st' r Hseg.
    destruct (mutex_try_segment_inv _ _ _ _ _ _ _ _ _ Hseg Ho Hok) as [h' [s' [_ [_ [_ [_ [Hsucc _]]]]]]].
    destruct r; try reflexivity; (destruct Hsucc as [_ [_ [Hh _]]]; [discriminate|discriminate]).
Qed.

(* a successful poll leaves the holder slot empty: facts used twice below *)
Lemma mutex_poll_ok_free : forall oid wid e st e1 st1 h s p,
  poll_step oid wid e st = Some (e1, st1, PReadyOk) ->
  get_obj st oid = Some (OMutex h s p) -> mutex_ok (OMutex h s p) -> waiter_fresh s wid 1 ->
  h = None /\ exists s1 m, get_obj st1 oid = Some (OMutex None s1 p) /\ me e1 = Some m /\ me e = Some m.
Proof.
  intros oid wid e st e1 st1 h s p Hp Ho [Hfair Hinv] [w [Hw [Hhas Hn]]].
  eapply poll_step_spec in Hp; [|eassumption|reflexivity].
  destruct Hp as [m [s1 [Hme [Hpoll Hst1]]]].
  pose proof (sem_poll_spec _ _ _ _ _ _ _ _ Hpoll Hw Hhas Hfair) as [Hregs [_ [Hpost _]]].
  cbn [poll_post] in Hpost. destruct Hpost as [Hc [_ [_ [Hle _]]]]. rewrite Hn in Hle.
  destruct (Hinv Hc) as [[Hh Ha]|[t [Hh Ha]]]; [|lia]. subst h.
  split; [reflexivity|]. exists s1, m. cbn [with_sem] in Hst1.
  split; [subst st1; eapply get_set_same; eassumption|].
  split; [rewrite (same_regs_me _ _ Hregs)|]; assumption.
Qed.

(* `assert!(state.holder.is_none())` / "mutex state out of sync" cannot fire after an acquire *)
Lemma no_out_of_sync : forall oid wid e st e1 st1 h s p,
  poll_step oid wid e st = Some (e1, st1, PReadyOk) ->
  get_obj st oid = Some (OMutex h s p) -> mutex_ok (OMutex h s p) -> waiter_fresh s wid 1 ->
  mutex_set_holder e1 st1 oid <> None.
Proof.
  intros oid wid e st e1 st1 h s p Hp Ho Hok Hfresh.
  destruct (mutex_poll_ok_free _ _ _ _ _ _ _ _ _ Hp Ho Hok Hfresh) as [_ [s1 [m [Hg1 [Hme1 _]]]]].
  unfold mutex_set_holder. rewrite Hme1, Hg1. discriminate.
Qed.

(* ---- RwLock exclusion ---- *)
Lemma rw_excl : forall w rs s p,
  rw_ok (ORwLock w rs s p) -> sm_closed s = false ->
  (forall t, w = Some t -> rs = [] /\ sm_avail s = 0)
  /\ (rs <> [] -> w = None /\ sm_avail s < MAX_READS)
  /\ (w <> None \/ rs <> [] ->
        forall e e' s' r, acquire_permits e s MAX_READS = Some (e', s', r) -> r <> AOk)
  /\ (w <> None ->
        forall e e' s' r k, acquire_permits e s k = Some (e', s', r) -> r <> AOk).
Proof.
  intros w rs s p Hok0 Hc. apply rw_ok_form in Hok0. destruct Hok0 as [Hfair Hinv]. pose proof MAX_READS_pos as Hmax.
  assert (Hw : forall t, w = Some t -> rs = [] /\ sm_avail s = 0).
  { intros t Hwt. destruct (Hinv Hc) as [[Hh _]|[t' [_ [Hrs Ha]]]]; [congruence|auto]. }
  assert (Hr : rs <> [] -> w = None /\ sm_avail s < MAX_READS).
  { intro Hne. destruct (Hinv Hc) as [[Hh [Ha _]]|[t' [_ [Hrs _]]]]; [|contradiction].
    split; [assumption|]. destruct rs as [|x r]; [contradiction|]. cbn [length] in Ha. lia. }
  split; [exact Hw|]. split; [exact Hr|]. split.
  - intros Hheld e e' s' r Hacq Hrr. subst r. apply acquire_permits_spec in Hacq.
    destruct Hacq as [_ [_ [_ [_ [Hle _]]]]].
    destruct Hheld as [Hwn|Hrn].
    + destruct w as [t|]; [|contradiction]. destruct (Hw t eq_refl) as [_ Ha]. lia.
    + destruct (Hr Hrn) as [_ Hlt]. lia.
  - intros Hwn e e' s' r k Hacq Hrr. subst r. apply acquire_permits_spec in Hacq.
    destruct Hacq as [Hk [_ [_ [_ [Hle _]]]]].
    destruct w as [t|]; [|contradiction]. destruct (Hw t eq_refl) as [_ Ha]. lia.
Qed.

Lemma rw_excl_segments : forall oid st w rs s p,
  get_obj st oid = Some (ORwLock w rs s p) -> rw_ok (ORwLock w rs s p) -> sm_closed s = false ->
  (* a writer excludes everybody *)
  (w <> None -> forall write wid e e' st' out, waiter_fresh s wid (rw_permits write) ->
     rw_lock_segment oid write wid e st = Some (e', st', out) -> out = LoPending)
  /\ (w <> None -> forall write e e' st' r,
        (forall m, me e = Some m -> write = false -> ~ In m rs) ->
        rw_try_segment oid write e st = Some (e', st', r) -> r = LkWouldBlock)
  (* readers exclude writers *)
  /\ (rs <> [] -> forall wid e e' st' out, waiter_fresh s wid MAX_READS ->
        rw_lock_segment oid true wid e st = Some (e', st', out) -> out = LoPending)
  /\ (rs <> [] -> forall e e' st' r, rw_try_segment oid true e st = Some (e', st', r) -> r = LkWouldBlock).
Proof.
  intros oid st w rs s p Ho Hok Hc. repeat split.
  - intros Hw write wid e e' st' out Hfresh Hseg.
    destruct (rw_lock_segment_inv _ _ _ _ _ _ _ _ _ _ _ _ Hseg Ho Hok Hfresh) as [w' [rs' [s' [_ [_ [_ Hout]]]]]].
    destruct out as [p'| |]; [|destruct Hout; congruence|reflexivity].
    destruct Hout as [_ [_ [_ [Hh _]]]]. contradiction.
  - intros Hw write e e' st' r Hnre Hseg.
    destruct (rw_try_segment_inv _ _ _ _ _ _ _ _ _ _ _ Hseg Ho Hok Hnre) as [w' [rs' [s' [_ [_ [_ [_ [Hsucc _]]]]]]]].
    destruct r; try reflexivity; (destruct Hsucc as [_ [_ [Hh _]]]; [discriminate|contradiction]).
  - intros Hr wid e e' st' out Hfresh Hseg.
    destruct (rw_lock_segment_inv _ _ _ _ _ _ _ _ _ _ _ _ Hseg Ho Hok Hfresh) as [w' [rs' [s' [_ [_ [_ Hout]]]]]].
    destruct out as [p'| |]; [|destruct Hout; congruence|reflexivity].
    destruct Hout as [_ [_ [_ [_ [_ [m [_ [_ [Hrs _]]]]]]]]]. contradiction.
  - intros Hr e e' st' r Hseg.
    assert (Hnre : forall m, me e = Some m -> true = false -> ~ In m rs) by (intros; discriminate).
    destruct (rw_try_segment_inv _ _ _ _ _ _ _ _ _ _ _ Hseg Ho Hok Hnre) as [w' [rs' [s' [_ [_ [_ [_ [Hsucc _]]]]]]]].
    destruct r; try reflexivity;
      (destruct Hsucc as [_ [_ [_ [m [_ [Hrs _]]]]]]; [discriminate|contradiction]).
Qed.

(* the panics of RwLock::lock after an acquire ("resumed a waiting thread while the lock was in
   state ..", `assert!(readers.insert(me))`) are unreachable, provided the caller is not already a
   reader (which read() diagnoses at its start, see rw_check_block_not_holder) *)
Lemma rw_no_out_of_sync : forall oid write wid e st e1 st1 w rs s p,
  poll_step oid wid e st = Some (e1, st1, PReadyOk) ->
  get_obj st oid = Some (ORwLock w rs s p) -> rw_ok (ORwLock w rs s p) ->
  waiter_fresh s wid (rw_permits write) ->
  (forall m, me e = Some m -> write = false -> ~ In m rs) ->
  rw_take e1 st1 oid write <> None.
Proof.
  intros oid write wid e st e1 st1 w rs s p Hp Ho Hok0 [wt [Hw [Hhas Hn]]] Hnre.
  apply rw_ok_form in Hok0. destruct Hok0 as [Hfair Hinv].
  eapply poll_step_spec in Hp; [|eassumption|reflexivity].
  destruct Hp as [m [s1 [Hme [Hpoll Hst1]]]].
  pose proof (sem_poll_spec _ _ _ _ _ _ _ _ Hpoll Hw Hhas Hfair) as [Hregs [_ [Hpost _]]].
  cbn [poll_post] in Hpost. destruct Hpost as [Hc [_ [_ [Hle _]]]]. rewrite Hn in Hle.
  cbn [with_sem] in Hst1.
  assert (Hg1 : get_obj st1 oid = Some (ORwLock w rs s1 p)).
  { subst st1. eapply get_set_same; eassumption. }
  pose proof MAX_READS_pos as Hmax.
  unfold rw_take. rewrite (same_regs_me _ _ Hregs), Hme, Hg1.
  destruct (Hinv Hc) as [[Hh [Ha Hnd]]|[t [Hh [Hrs Ha]]]].
  - subst w. destruct write; cbn [rw_permits] in Hle.
    + assert (Hrs : rs = []) by (apply length_zero_N; lia). subst rs. discriminate.
    + specialize (Hnre m Hme eq_refl). apply existsb_eqb_notIn in Hnre. rewrite Hnre. discriminate.
  - exfalso. destruct write; cbn [rw_permits] in Hle; lia.
Qed.

(* ---- try_* succeed exactly when the lock is available ---- *)
Lemma mutex_try_ok_iff_available : forall oid e st e' st' r h s p,
  mutex_try_segment oid e st = Some (e', st', r) ->
  get_obj st oid = Some (OMutex h s p) -> mutex_ok (OMutex h s p) ->
  (r <> LkWouldBlock <-> (sm_closed s = false /\ h = None))
  /\ (sm_closed s = false -> (h = None <-> sm_avail s = 1)).
Proof.
  intros oid e st e' st' r h s p Hseg Ho Hok.
  destruct (mutex_try_segment_inv _ _ _ _ _ _ _ _ _ Hseg Ho Hok) as [h' [s' [_ [_ [_ [_ [Hsucc Hfail]]]]]]].
  split.
  - split.
    + intro Hr. destruct (Hsucc Hr) as [_ [Hc [Hh _]]]. auto.
    + intros [Hc Hh] Hr. destruct (Hfail Hr) as [_ [[Hc'|[Hh' _]] _]]; congruence.
  - intro Hc. destruct Hok as [_ Hinv]. destruct (Hinv Hc) as [[Hh Ha]|[t [Hh Ha]]]; split; intro H; try assumption; try congruence; lia.
Qed.

Lemma rw_try_write_ok_iff_available : forall oid e st e' st' r w rs s p,
  rw_try_segment oid true e st = Some (e', st', r) ->
  get_obj st oid = Some (ORwLock w rs s p) -> rw_ok (ORwLock w rs s p) ->
  (r <> LkWouldBlock <-> (sm_closed s = false /\ w = None /\ rs = [])).
Proof.
  intros oid e st e' st' r w rs s p Hseg Ho Hok.
  assert (Hnre : forall m, me e = Some m -> true = false -> ~ In m rs) by (intros; discriminate).
  destruct (rw_try_segment_inv _ _ _ _ _ _ _ _ _ _ _ Hseg Ho Hok Hnre) as [w' [rs' [s' [_ [_ [_ [_ [Hsucc Hfail]]]]]]]].
  split.
  - intro Hr. destruct (Hsucc Hr) as [_ [Hc [Hw [m [_ [Hrs _]]]]]]. auto.
  - intros [Hc [Hw Hrs]] Hr. destruct (Hfail Hr) as [_ [[Hc'|Hnf] _]]; [congruence|].
    apply Hnf. split; assumption.
Qed.

(* try_read by a task that holds no read guard: succeeds iff there is no writer (and the
   theoretical bound of MAX_READS simultaneous readers is not reached) *)
Lemma rw_try_read_ok_iff_available : forall oid e st e' st' r w rs s p,
  rw_try_segment oid false e st = Some (e', st', r) ->
  get_obj st oid = Some (ORwLock w rs s p) -> rw_ok (ORwLock w rs s p) ->
  (forall m, me e = Some m -> ~ In m rs) ->
  (r <> LkWouldBlock <-> (sm_closed s = false /\ w = None /\ N.of_nat (length rs) < MAX_READS)).
Proof.
  intros oid e st e' st' r w rs s p Hseg Ho Hok Hnotin.
  assert (Hnre : forall m, me e = Some m -> false = false -> ~ In m rs) by (intros; auto).
  destruct (rw_try_segment_inv _ _ _ _ _ _ _ _ _ _ _ Hseg Ho Hok Hnre) as [w' [rs' [s' [_ [_ [_ [_ [Hsucc Hfail]]]]]]]].
  split.
  - intro Hr. destruct (Hsucc Hr) as [_ [Hc [Hw [m [_ [_ [_ [_ Hle]]]]]]]].
    split; [assumption|]. split; [assumption|].
    apply rw_ok_form in Hok. destruct Hok as [_ Hinv]. destruct (Hinv Hc) as [[_ [Ha _]]|[t [Hh _]]]; [lia|congruence].
  - intros [Hc [Hw Hlen]] Hr. destruct (Hfail Hr) as [_ [[Hc'|[Hwn|Hfull]] _]]; [congruence|contradiction|lia].
Qed.

(* ---- a failing try leaves everything but the caller's clock unchanged ---- *)
(* (stronger than required: the semaphore, including sm_last_acquire, is untouched as well) *)

Lemma mutex_try_fail_unchanged : forall oid e st e' st' h s p,
  mutex_try_segment oid e st = Some (e', st', LkWouldBlock) ->
  get_obj st oid = Some (OMutex h s p) -> mutex_ok (OMutex h s p) ->
  st' = st /\ only_clock_moved e e' (sm_last_acquire s).
Proof.
  intros oid e st e' st' h s p Hseg Ho Hok.
  destruct (mutex_try_segment_inv _ _ _ _ _ _ _ _ _ Hseg Ho Hok) as [h' [s' [_ [_ [_ [_ [_ Hfail]]]]]]].
  destruct (Hfail eq_refl) as [Hst [_ Hclk]]. split; assumption.
Qed.

Lemma rw_try_fail_unchanged : forall oid write e st e' st' w rs s p,
  rw_try_segment oid write e st = Some (e', st', LkWouldBlock) ->
  get_obj st oid = Some (ORwLock w rs s p) -> rw_ok (ORwLock w rs s p) ->
  (forall m, me e = Some m -> write = false -> ~ In m rs) ->
  st' = st /\ only_clock_moved e e' (sm_last_acquire s).
Proof.
  intros oid write e st e' st' w rs s p Hseg Ho Hok Hnre.
  destruct (rw_try_segment_inv _ _ _ _ _ _ _ _ _ _ _ Hseg Ho Hok Hnre) as [w' [rs' [s' [_ [_ [_ [_ [_ Hfail]]]]]]]].
  destruct (Hfail eq_refl) as [Hst [_ Hclk]]. split; assumption.
Qed.

(* ---- poisoning ---- *)
(* a MutexGuard dropped while its thread panics poisons the mutex and closes its semaphore *)
Lemma mutex_poison_on_panic : forall oid e st e' st' h s p,
  mutex_unlock_segment oid e st = Some (e', st') ->
  get_obj st oid = Some (OMutex h s p) -> mutex_ok (OMutex h s p) -> h <> None ->
  panicking e = true ->
  exists s', get_obj st' oid = Some (OMutex None s' true) /\ sm_closed s' = true.
Proof.
  intros oid e st e' st' h s p Hseg Ho Hok Hheld Hpan.
  destruct (mutex_unlock_segment_inv _ _ _ _ _ _ _ _ Hseg Ho Hok Hheld) as [s' [stop [Hg [_ [Hstop [_ [Hcl _]]]]]]].
  rewrite should_stop_panicking in Hstop by assumption. injection Hstop as <-.
  exists s'. rewrite Hpan, orb_true_r in Hg. rewrite orb_true_r in Hcl. auto.
Qed.

Lemma rw_poison_on_panic : forall oid e st e' st' w rs s p,
  rw_unlock_segment oid true e st = Some (e', st') ->
  get_obj st oid = Some (ORwLock w rs s p) -> rw_ok (ORwLock w rs s p) ->
  panicking e = true ->
  exists s', get_obj st' oid = Some (ORwLock None rs s' true) /\ sm_closed s' = true.
Proof.
  intros oid e st e' st' w rs s p Hseg Ho Hok Hpan.
  destruct (rw_unlock_segment_inv _ _ _ _ _ _ _ _ _ _ Hseg Ho Hok)
    as [m [stop [s' [w' [rs' [p' [_ [Hstop [Hg [_ [_ [Hcl [_ [_ [Hw' [Hrs' Hp']]]]]]]]]]]]]]]].
  rewrite should_stop_panicking in Hstop by assumption. injection Hstop as <-.
  subst w' rs' p'. exists s'. rewrite Hpan, orb_true_r in Hg. rewrite orb_true_r in Hcl. auto.
Qed.

(* the flag is reported by every holder update, on the blocking and on the closed path *)
Lemma mutex_set_holder_reports : forall oid e st e' st' b h s p,
  mutex_set_holder e st oid = Some (e', st', b) -> get_obj st oid = Some (OMutex h s p) -> b = p.
Proof.
  intros oid e st e' st' b h s p Hs Ho. unfold mutex_set_holder in Hs.
  destruct (me e); [|discriminate]. rewrite Ho in Hs. destruct h; [discriminate|].
  injection Hs as <- <- <-. reflexivity.
Qed.

Lemma rw_take_reports : forall oid write e st e' st' b w rs s p,
  rw_take e st oid write = Some (e', st', b) -> get_obj st oid = Some (ORwLock w rs s p) -> b = p.
Proof.
  intros oid write e st e' st' b w rs s p Hs Ho. unfold rw_take in Hs.
  destruct (me e) as [m|]; [|discriminate]. rewrite Ho in Hs.
  destruct write; destruct w; try discriminate.
  - destruct rs; [|discriminate]. injection Hs as <- <- <-. reflexivity.
  - destruct (existsb (Nat.eqb m) rs); [discriminate|]. injection Hs as <- <- <-. reflexivity.
Qed.

(* lock() on a poisoned mutex: the semaphore is closed, the check block says so, the closed path
   returns LkPoisoned *)
Lemma mutex_poison_seen_by_lock : forall oid e st e' st' b h s,
  get_obj st oid = Some (OMutex h s true) -> sm_closed s = true ->
  (forall e0 e1 st1 c, mutex_check_block oid e0 st = Some (e1, st1, c) -> c = true)
  /\ (mutex_set_holder e st oid = Some (e', st', b) -> res_of_p b = LkPoisoned).
Proof.
  intros oid e st e' st' b h s Ho Hc. split.
  - intros e0 e1 st1 c Hchk. unfold mutex_check_block in Hchk.
    destruct (me e0); [|discriminate]. rewrite Ho, Hc in Hchk. injection Hchk as <- <- <-. reflexivity.
  - intro Hs. rewrite (mutex_set_holder_reports _ _ _ _ _ _ _ _ _ Hs Ho). reflexivity.
Qed.

Lemma rw_poison_seen_by_lock : forall oid write e st e' st' b w rs s,
  get_obj st oid = Some (ORwLock w rs s true) -> sm_closed s = true ->
  (forall e0 e1 st1 c, rw_check_block oid e0 st = Some (e1, st1, c) -> c = true)
  /\ (rw_take e st oid write = Some (e', st', b) -> res_of_p b = LkPoisoned).
Proof.
  intros oid write e st e' st' b w rs s Ho Hc. split.
  - intros e0 e1 st1 c Hchk. unfold rw_check_block in Hchk.
    destruct (me e0); [|discriminate]. rewrite Ho, Hc in Hchk. injection Hchk as <- <- <-. reflexivity.
  - intro Hs. rewrite (rw_take_reports _ _ _ _ _ _ _ _ _ _ _ Hs Ho). reflexivity.
Qed.

(* whenever a try returns a guard, it reports the poison flag ... *)
Lemma try_reports_flag : forall oid e st e' st' r,
  (forall h s p, mutex_try_segment oid e st = Some (e', st', r) ->
     get_obj st oid = Some (OMutex h s p) -> mutex_ok (OMutex h s p) -> r <> LkWouldBlock -> r = res_of_p p)
  /\ (forall write w rs s p, rw_try_segment oid write e st = Some (e', st', r) ->
     get_obj st oid = Some (ORwLock w rs s p) -> rw_ok (ORwLock w rs s p) ->
     (forall m, me e = Some m -> write = false -> ~ In m rs) -> r <> LkWouldBlock -> r = res_of_p p).
Proof.
  intros oid e st e' st' r. split.
  - intros h s p Hseg Ho Hok Hr.
    destruct (mutex_try_segment_inv _ _ _ _ _ _ _ _ _ Hseg Ho Hok) as [h' [s' [_ [_ [_ [_ [Hsucc _]]]]]]].
    apply Hsucc; assumption.
  - intros write w rs s p Hseg Ho Hok Hnre Hr.
    destruct (rw_try_segment_inv _ _ _ _ _ _ _ _ _ _ _ Hseg Ho Hok Hnre) as [w' [rs' [s' [_ [_ [_ [_ [Hsucc _]]]]]]]].
    apply Hsucc; assumption.
Qed.

(* ... BUT a lock poisoned by a panicking drop has a closed semaphore, on which every try fails:
   try_lock / try_read / try_write answer WouldBlock, never Poisoned (std answers Poisoned) *)
Lemma try_after_panic_poison_would_block : forall oid e st e' st' r,
  (forall h s p, mutex_try_segment oid e st = Some (e', st', r) ->
     get_obj st oid = Some (OMutex h s p) -> sm_closed s = true -> r = LkWouldBlock)
  /\ (forall write w rs s p, rw_try_segment oid write e st = Some (e', st', r) ->
     get_obj st oid = Some (ORwLock w rs s p) -> sm_closed s = true -> r = LkWouldBlock).
Proof.
  intros oid e st e' st' r. split.
  - intros h s p Hseg Ho Hc. unfold mutex_try_segment in Hseg.
    destruct (try_step oid 1 e st) as [[[e1 st1] r1]|] eqn:Ht; [|discriminate].
    eapply try_step_spec in Ht; [|eassumption|reflexivity]. destruct Ht as [s1 [Htry _]].
    apply sem_try_acquire_spec in Htry. destruct Htry as [_ [_ [_ Hpost]]].
    destruct r1; [destruct Hpost; congruence| |]; injection Hseg as <- <- <-; reflexivity.
  - intros write w rs s p Hseg Ho Hc. unfold rw_try_segment in Hseg.
    destruct (try_step oid (rw_permits write) e st) as [[[e1 st1] r1]|] eqn:Ht; [|discriminate].
    eapply try_step_spec in Ht; [|eassumption|reflexivity]. destruct Ht as [s1 [Htry _]].
    apply sem_try_acquire_spec in Htry. destruct Htry as [_ [_ [_ Hpost]]].
    destruct r1; [destruct Hpost; congruence| |]; injection Hseg as <- <- <-; reflexivity.
Qed.

(* ========================================================================= *)
(*  12. Concrete scenarios (non-vacuity, counterexamples), by computation     *)
(* ========================================================================= *)

Definition ex_task : task := mkTask Runnable false false false false None [0; 0]%N.
(* two tasks; `cur` is running; `pan` = std::thread::panicking() *)
Definition ex_exec (cur : nat) (pan : bool) : exec :=
  mkExec [ex_task; ex_task] (SSome cur) SNone false 0 0 [0; 1]%nat [] pan false.
Definition switch_to (e : exec) (cur : nat) (pan : bool) : exec :=
  with_panicking (with_current_next e (SSome cur) SNone) pan.

Definition mx_view (st : store) (oid : nat) : option (option nat * N * bool * bool) :=
  match get_obj st oid with
  | Some (OMutex h s p) => Some (h, sm_avail s, sm_closed s, p)
  | _ => None end.
Definition rw_view (st : store) (oid : nat) : option (option nat * list nat * N * bool * bool) :=
  match get_obj st oid with
  | Some (ORwLock w rs s p) => Some (w, rs, sm_avail s, sm_closed s, p)
  | _ => None end.

Definition bind {A B : Type} (x : option A) (f : A -> option B) : option B :=
  match x with Some a => f a | None => None end.

(* lock() / read() / write() by the current task when it does not have to wait:
   Acquire::new, then the lock segment with the new waiter *)
Definition do_mutex_lock (oid : nat) (e : exec) (st : store) : option (exec * store * lock_out) :=
  bind (new_waiter_block oid 1 e st) (fun '(e1, st1, a) =>
    match a with [w] => mutex_lock_segment oid (N.to_nat w) e1 st1 | _ => None end).
Definition do_rw_lock (oid : nat) (write : bool) (e : exec) (st : store) : option (exec * store * lock_out) :=
  bind (new_waiter_block oid (rw_permits write) e st) (fun '(e1, st1, a) =>
    match a with [w] => rw_lock_segment oid write (N.to_nat w) e1 st1 | _ => None end).

(* ---- Mutex: lock, contended try_lock, contended lock, unlock ---- *)
Definition sc_mutex_1 := do_mutex_lock 0 (ex_exec 0 false) [mutex_new].

Example ex_mutex_lock_acquires :
  option_map (fun '(_, st, out) => (mx_view st 0, out)) sc_mutex_1
  = Some (Some (Some 0%nat, 0, false, false), LoAcquired false).
Proof. vm_compute. reflexivity. Qed.

Example ex_mutex_try_fails_while_held :
  bind sc_mutex_1 (fun '(e, st, _) =>
    option_map (fun '(_, st', r) => (r, mx_view st' 0)) (mutex_try_segment 0 (switch_to e 1 false) st))
  = Some (LkWouldBlock, Some (Some 0%nat, 0, false, false)).
Proof. vm_compute. reflexivity. Qed.

Example ex_mutex_lock_pends_while_held :
  bind sc_mutex_1 (fun '(e, st, _) =>
    option_map (fun '(_, st', out) => (out, mx_view st' 0)) (do_mutex_lock 0 (switch_to e 1 false) st))
  = Some (LoPending, Some (Some 0%nat, 0, false, false)).
Proof. vm_compute. reflexivity. Qed.

Example ex_mutex_unlock_then_try_succeeds :
  bind sc_mutex_1 (fun '(e, st, _) =>
    bind (mutex_unlock_segment 0 e st) (fun '(e1, st1) =>
      option_map (fun '(_, st', r) => (mx_view st1 0, r, mx_view st' 0))
                 (mutex_try_segment 0 (switch_to e1 1 false) st1)))
  = Some (Some (None, 1, false, false), LkOk, Some (Some 1%nat, 0, false, false)).
Proof. vm_compute. reflexivity. Qed.

(* ---- Mutex poisoning ---- *)
(* task 0 takes the lock and drops the guard while panicking *)
Definition sc_poison :=
  bind sc_mutex_1 (fun '(e, st, _) => mutex_unlock_segment 0 (switch_to e 0 true) st).

Example ex_mutex_poisoned :
  option_map (fun '(_, st) => mx_view st 0) sc_poison = Some (Some (None, 1, true, true)).
Proof. vm_compute. reflexivity. Qed.

(* lock() by task 1 afterwards: closed path, reports the poison *)
Example ex_mutex_lock_sees_poison :
  bind sc_poison (fun '(e, st) =>
    bind (mutex_check_block 0 (switch_to e 1 false) st) (fun '(e1, st1, closed) =>
      option_map (fun '(_, st2, p) => (closed, res_of_p p, mx_view st2 0)) (mutex_set_holder e1 st1 0)))
  = Some (true, LkPoisoned, Some (Some 1%nat, 1, true, true)).
Proof. vm_compute. reflexivity. Qed.

(* FINDING: try_lock on the poisoned, free mutex answers WouldBlock, not Poisoned *)
Example ex_mutex_try_on_poisoned_would_block :
  bind sc_poison (fun '(e, st) =>
    option_map (fun '(_, _, r) => r) (mutex_try_segment 0 (switch_to e 1 false) st))
  = Some LkWouldBlock.
Proof. vm_compute. reflexivity. Qed.

(* FINDING: once poisoned this way the semaphore no longer arbitrates: a second lock() while the
   poisoned mutex is held does not wait, it dies on `assert!(state.holder.is_none())` *)
Definition sc_poison_held :=
  bind sc_poison (fun '(e, st) =>
    option_map (fun '(e1, st1, _) => (e1, st1)) (mutex_set_holder (switch_to e 1 false) st 0)).

Example ex_mutex_second_lock_on_poisoned_panics :
  bind sc_poison_held (fun '(e, st) =>
    option_map (fun '(_, _, closed) => (closed, mutex_set_holder (switch_to e 0 false) st 0))
               (mutex_check_block 0 (switch_to e 0 false) st))
  = Some (true, None).
Proof. vm_compute. reflexivity. Qed.

(* why `sm_avail <= 1` is not an invariant of closed mutexes: the closed path takes no permit, the
   drop gives one back *)
Example mutex_avail_exceeds_one_after_poison :
  bind sc_poison_held (fun '(e, st) =>
    option_map (fun '(_, st1) => mx_view st1 0) (mutex_unlock_segment 0 e st))
  = Some (Some (None, 2, true, true)).
Proof. vm_compute. reflexivity. Qed.

(* ---- RwLock: readers share, writers exclude ---- *)
Definition sc_rw_r0 := do_rw_lock 0 false (ex_exec 0 false) [rwlock_new].

Example ex_rw_read_acquires :
  option_map (fun '(_, st, out) => (rw_view st 0, out)) sc_rw_r0
  = Some (Some (None, [0%nat], MAX_READS - 1, false, false), LoAcquired false).
Proof. vm_compute. reflexivity. Qed.

Example ex_rw_second_reader_and_writer :
  bind sc_rw_r0 (fun '(e, st, _) =>
    bind (rw_try_segment 0 false (switch_to e 1 false) st) (fun '(e1, st1, r1) =>
      option_map (fun '(_, st2, r2) => (r1, rw_view st1 0, r2, rw_view st2 0))
                 (rw_try_segment 0 true e1 st1)))
  = Some (LkOk, Some (None, [0%nat; 1%nat], MAX_READS - 2, false, false),
          LkWouldBlock, Some (None, [0%nat; 1%nat], MAX_READS - 2, false, false)).
Proof. vm_compute. reflexivity. Qed.

Example ex_rw_writer_excludes :
  bind (do_rw_lock 0 true (ex_exec 0 false) [rwlock_new]) (fun '(e, st, out) =>
    bind (rw_try_segment 0 false (switch_to e 1 false) st) (fun '(e1, st1, r1) =>
      option_map (fun '(_, st2, out2) => (out, rw_view st 0, r1, out2, rw_view st2 0))
                 (do_rw_lock 0 true e1 st1)))
  = Some (LoAcquired false, Some (Some 0%nat, [], 0, false, false),
          LkWouldBlock, LoPending, Some (Some 0%nat, [], 0, false, false)).
Proof. vm_compute. reflexivity. Qed.

Example ex_rw_write_guard_panic_poisons :
  bind (do_rw_lock 0 true (ex_exec 0 false) [rwlock_new]) (fun '(e, st, _) =>
    bind (rw_unlock_segment 0 true (switch_to e 0 true) st) (fun '(e1, st1) =>
      option_map (fun '(_, st2, p) => (rw_view st1 0, res_of_p p, rw_view st2 0))
                 (rw_take (switch_to e1 1 false) st1 0 false)))
  = Some (Some (None, [], MAX_READS, true, true), LkPoisoned, Some (None, [1%nat], MAX_READS, true, true)).
Proof. vm_compute. reflexivity. Qed.

(* ---- THE re-entrant try_read leak: HISTORICAL, the code BEFORE the fix commit ----
   `rw_try_segment` is the whole of try_read in `rw_try_code_prefix` (rw_try_prefix_segment_run): the
   scenarios below describe rwlock.rs before the repair.  (In the current model the same segment is
   followed by the release block: see ex_try_read_reentrant_current below.) *)
(* task 0 holds a read guard and calls try_read *)
Definition sc_leak := bind sc_rw_r0 (fun '(e, st, _) => rw_try_segment 0 false e st).

Example ex_try_read_reentrant :
  bind sc_rw_r0 (fun '(_, st, _) =>
    option_map (fun '(_, st', r) => (rw_view st 0, r, rw_view st' 0)) sc_leak)
  = Some (Some (None, [0%nat], MAX_READS - 1, false, false),
          LkWouldBlock,
          Some (None, [0%nat], MAX_READS - 2, false, false)).
Proof. vm_compute. reflexivity. Qed.

(* BEFORE THE REPAIR: the counterexample to "a failing try leaves the lock unchanged" *)
Lemma try_read_reentrant_leaks :
  exists e st e' st' w rs s p s',
    get_obj st 0 = Some (ORwLock w rs s p) /\ rw_ok (ORwLock w rs s p)
    /\ rw_try_segment 0 false e st = Some (e', st', LkWouldBlock)
    /\ get_obj st' 0 = Some (ORwLock w rs s' p)
    /\ sm_avail s' <> sm_avail s
    /\ ~ rw_ok (ORwLock w rs s' p).
Proof.
  destruct sc_rw_r0 as [[[e st] out]|] eqn:H0; [|vm_compute in H0; discriminate].
  destruct (rw_try_segment 0 false e st) as [[[e' st'] r]|] eqn:H1;
    [|vm_compute in H0; injection H0 as <- <- <-; vm_compute in H1; discriminate].
  assert (Hst : exists s, get_obj st 0 = Some (ORwLock None [0%nat] s false) /\ sm_avail s = MAX_READS - 1
                          /\ sm_closed s = false /\ sm_fair s = false /\ me e = Some 0%nat).
  { vm_compute in H0. injection H0 as <- <- <-. eexists. split; [reflexivity|]. repeat split. }
  destruct Hst as [s [Hg [Ha [Hc [Hf Hme]]]]].
  assert (Hok : rw_ok (ORwLock None [0%nat] s false)).
  { apply rw_ok_form. split; [assumption|]. intros _. left. split; [reflexivity|].
    split; [rewrite Ha; reflexivity|]. constructor; [intros []|constructor]. }
  assert (Hle : 1 <= sm_avail s) by (rewrite Ha; apply N.leb_le; reflexivity).
  destruct (rw_try_read_reentrant_leak _ _ _ _ _ _ _ _ _ _ _ H1 Hg Hok Hme (or_introl eq_refl) Hc Hle)
    as [Hr [_ [s' [Hg' [Ha' [_ Hnok]]]]]].
  subst r. exists e, st, e', st', None, [0%nat], s, false, s'.
  split; [assumption|]. split; [assumption|]. split; [assumption|]. split; [assumption|].
  split; [rewrite Ha'; lia|assumption].
Qed.

(* BEFORE THE REPAIR, consequence: after the guard is dropped nobody holds the lock, yet one permit is missing for
   ever: try_write fails and write() waits for ever on a free lock *)
Example ex_leak_blocks_writers_forever :
  bind sc_leak (fun '(e, st, _) =>
    bind (rw_unlock_segment 0 false e st) (fun '(e1, st1) =>
      bind (rw_try_segment 0 true (switch_to e1 1 false) st1) (fun '(e2, st2, r) =>
        option_map (fun '(_, _, out) => (rw_view st1 0, r, out)) (do_rw_lock 0 true e2 st2))))
  = Some (Some (None, [], MAX_READS - 1, false, false), LkWouldBlock, LoPending).
Proof. vm_compute. reflexivity. Qed.

(* ---- the same scenario in the CURRENT model: the refusal is followed by the release block ---- *)
Example ex_try_read_reentrant_current :
  bind sc_rw_r0 (fun '(e0, st0, _) =>
    bind sc_leak (fun '(e, st, r) =>
      option_map (fun '(_, st') => (rw_try_needs_release 0 false e0 st0, r, rw_view st 0, rw_view st' 0))
                 (release_segment 0 1 e st)))
  = Some (true, LkWouldBlock,
          Some (None, [0%nat], MAX_READS - 2, false, false)      (* at the scheduling point *),
          Some (None, [0%nat], MAX_READS - 1, false, false)      (* after the release: as before the call *)).
Proof. vm_compute. reflexivity. Qed.

(* and writers are not starved any more: drop the read guard, try_write succeeds *)
Example ex_current_no_leak :
  bind sc_leak (fun '(e, st, _) =>
    bind (release_segment 0 1 e st) (fun '(e1, st1) =>
      bind (rw_unlock_segment 0 false e1 st1) (fun '(e2, st2) =>
        option_map (fun '(_, st3, r) => (rw_view st2 0, r, rw_view st3 0))
                   (rw_try_segment 0 true (switch_to e2 1 false) st2))))
  = Some (Some (None, [], MAX_READS, false, false), LkOk, Some (Some 1%nat, [], 0, false, false)).
Proof. vm_compute. reflexivity. Qed.

(* ========================================================================= *)
(*  13. "In every execution": the segments as a transition system with ghost  *)
(*      guards.  A step is any segment of any operation on the lock, run by   *)
(*      any task in ANY execution state (this over-approximates what the      *)
(*      engine can do between two scheduling points), or anything that leaves *)
(*      the lock object alone.  Ghost state: the tasks that own a guard       *)
(*      (added when lock/try return a guard, removed by the drop) and the     *)
(*      Acquire futures still pending.  The only discipline imposed is the    *)
(*      one Rust's types impose: a guard is dropped by a task that owns one.  *)
(* ========================================================================= *)

Inductive star {A : Type} (R : A -> A -> Prop) : A -> A -> Prop :=
| star_refl : forall x, star R x x
| star_step : forall x y z, R x y -> star R y z -> star R x z.

Lemma star_inv : forall {A : Type} (R : A -> A -> Prop) (I : A -> Prop),
  (forall x y, I x -> R x y -> I y) -> forall x y, star R x y -> I x -> I y.
Proof.
  intros A R I Hstep x y Hs. induction Hs as [x|x y z Hxy Hyz IH]; intro Hx; [assumption|].
  apply IH. eapply Hstep; eassumption.
Qed.

Definition holder_list (h : option nat) : list nat := match h with Some t => [t] | None => [] end.
Definition drop_wid (wid : nat) (pend : list nat) : list nat := filter (fun x => negb (Nat.eqb x wid)) pend.
Fixpoint remove_one (m : nat) (l : list nat) : list nat :=
  match l with [] => [] | x :: r => if Nat.eqb x m then r else x :: remove_one m r end.

Lemma drop_wid_In : forall wid pend x, In x (drop_wid wid pend) -> In x pend /\ x <> wid.
Proof.
  intros wid pend x Hin. unfold drop_wid in Hin. apply filter_In in Hin. destruct Hin as [Hin Hne].
  split; [assumption|]. apply negb_true_iff in Hne. apply Nat.eqb_neq in Hne. assumption.
Qed.

Lemma waiter_fresh_wtab_eq : forall s s' wid k,
  sm_wtab s' = sm_wtab s -> waiter_fresh s wid k -> waiter_fresh s' wid k.
Proof.
  intros s s' wid k Heq [w [Hw Hrest]]. exists w. split; [|assumption].
  unfold get_waiter in *. rewrite Heq. assumption.
Qed.

(* ---------------- Mutex ---------------- *)
Record mstate := mkMS { ms_st : store; ms_guards : list nat; ms_pend : list nat }.

Inductive mutex_step (oid : nat) : mstate -> mstate -> Prop :=
| MsOther : forall st st' gs pend,
    get_obj st' oid = get_obj st oid ->
    mutex_step oid (mkMS st gs pend) (mkMS st' gs pend)
| MsNewWaiter : forall e st e' st' wid gs pend,          (* lock(): Acquire::new *)
    new_waiter_block oid 1 e st = Some (e', st', [N.of_nat wid]) ->
    mutex_step oid (mkMS st gs pend) (mkMS st' gs (wid :: pend))
| MsLock : forall e st wid e' st' out m gs pend,          (* lock(): one round of the poll loop *)
    In wid pend -> me e = Some m ->
    mutex_lock_segment oid wid e st = Some (e', st', out) ->
    mutex_step oid (mkMS st gs pend)
      (mkMS st' (match out with LoAcquired _ => m :: gs | _ => gs end)
                (match out with LoPending => pend | _ => drop_wid wid pend end))
| MsClosedLock : forall e st e' st' b m gs pend,          (* lock() on a poisoned mutex *)
    (forall h s p, get_obj st oid = Some (OMutex h s p) -> sm_closed s = true) ->
    me e = Some m ->
    mutex_set_holder e st oid = Some (e', st', b) ->
    mutex_step oid (mkMS st gs pend) (mkMS st' (m :: gs) pend)
| MsTry : forall e st e' st' r m gs pend,                 (* try_lock() *)
    me e = Some m ->
    mutex_try_segment oid e st = Some (e', st', r) ->
    mutex_step oid (mkMS st gs pend)
      (mkMS st' (match r with LkWouldBlock => gs | _ => m :: gs end) pend)
| MsUnlock : forall e st e' st' m gs pend,                (* drop(guard) by an owner *)
    me e = Some m -> In m gs ->
    mutex_unlock_segment oid e st = Some (e', st') ->
    mutex_step oid (mkMS st gs pend) (mkMS st' (remove_one m gs) pend).

Definition minv (oid : nat) (x : mstate) : Prop :=
  exists h s p, get_obj (ms_st x) oid = Some (OMutex h s p) /\ mutex_ok (OMutex h s p)
    /\ ms_guards x = holder_list h
    /\ forall wid, In wid (ms_pend x) -> waiter_fresh s wid 1.

Lemma mutex_step_inv : forall oid x y, minv oid x -> mutex_step oid x y -> minv oid y.
Proof.
  intros oid x y [h [s [p [Ho [Hok [Hgs Hpend]]]]]] Hstep.
  destruct Hstep as [st st' gs pend Hsame
                    | e st e' st' wid gs pend Hnw
                    | e st wid e' st' out m gs pend Hin Hme Hseg
                    | e st e' st' b m gs pend Hclosed Hme Hset
                    | e st e' st' r m gs pend Hme Hseg
                    | e st e' st' m gs pend Hme Hin Hseg]; unfold minv; cbn [ms_st ms_guards ms_pend] in *.
  - exists h, s, p. rewrite Hsame. auto.
  - destruct (new_waiter_block_mutex _ _ _ _ _ _ _ _ _ _ Hnw Ho Hok)
      as [s' [wid' [_ [Ha [Hg' [Hok' [Hfresh [_ [_ Hk]]]]]]]]].
    injection Ha as Ha. apply Nat2N.inj in Ha. subst wid'.
    exists h, s', p. split; [assumption|]. split; [assumption|]. split; [assumption|].
    intros w [Hw|Hw]; [subst w; assumption|].
    eapply waiter_fresh_kept; [exact Hk|exact I|apply Hpend; assumption].
  - destruct (mutex_lock_segment_inv _ _ _ _ _ _ _ _ _ _ Hseg Ho Hok (Hpend wid Hin))
      as [h' [s' [Hg' [Hok' [_ Hout]]]]].
    exists h', s', p. split; [assumption|]. split; [assumption|].
    destruct out as [p'| |].
    + destruct Hout as [_ [_ [Hh [_ [Hh' [_ [_ [_ Hk]]]]]]]]. subst h. cbn in Hgs. subst gs.
      split; [rewrite Hh', Hme; reflexivity|].
      intros w Hw. apply drop_wid_In in Hw. destruct Hw as [Hw Hne].
      eapply waiter_fresh_kept; [exact Hk|exact Hne|apply Hpend; assumption].
    + destruct Hout as [_ Hst]. subst st'. rewrite Ho in Hg'. injection Hg' as <- <-.
      split; [assumption|]. intros w Hw. apply drop_wid_In in Hw. apply Hpend. apply Hw.
    + destruct Hout as [_ [Hh' [_ [_ [_ Hk]]]]]. subst h'. split; [assumption|].
      intros w Hw. eapply waiter_fresh_kept; [exact Hk|exact I|apply Hpend; assumption].
  - destruct (mutex_closed_path_inv _ _ _ _ _ _ _ _ _ Hset Ho Hok (Hclosed _ _ _ Ho))
      as [_ [_ [Hh [Hg' [_ Hok']]]]].
    exists (me e), s, p. split; [assumption|]. split; [assumption|].
    subst h. cbn in Hgs. subst gs. rewrite Hme. split; [reflexivity|assumption].
  - destruct (mutex_try_segment_inv _ _ _ _ _ _ _ _ _ Hseg Ho Hok)
      as [h' [s' [Hg' [Hok' [_ [Hwt [Hsucc Hfail]]]]]]].
    exists h', s', p. split; [assumption|]. split; [assumption|].
    split.
    + destruct r.
      * destruct (Hsucc ltac:(discriminate)) as [_ [_ [Hh [_ [Hh' _]]]]]. subst h. cbn in Hgs. subst gs.
        rewrite Hh', Hme. reflexivity.
      * destruct (Hsucc ltac:(discriminate)) as [_ [_ [Hh [_ [Hh' _]]]]]. subst h. cbn in Hgs. subst gs.
        rewrite Hh', Hme. reflexivity.
      * destruct (Hfail eq_refl) as [Hst _]. subst st'. rewrite Ho in Hg'. injection Hg' as <- <-. assumption.
    + intros w Hw. eapply waiter_fresh_wtab_eq; [exact Hwt|apply Hpend; assumption].
  - assert (Hh : h = Some m).
    { destruct h as [t|]; cbn in Hgs; subst gs; [|destruct Hin].
      destruct Hin as [Heq|[]]. subst t. reflexivity. }
    subst h. cbn in Hgs. subst gs.
    destruct (mutex_unlock_segment_inv _ _ _ _ _ _ _ _ Hseg Ho Hok ltac:(discriminate))
      as [s' [stop [Hg' [Hok' [_ [_ [_ Hk]]]]]]].
    exists None, s', (p || panicking e). split; [assumption|]. split; [assumption|].
    split; [cbn; rewrite Nat.eqb_refl; reflexivity|].
    intros w Hw. eapply waiter_fresh_kept; [exact Hk|exact I|apply Hpend; assumption].
Qed.

(* C04 for Mutex: along every sequence of steps from a fresh mutex, at most one task owns a guard,
   and it is the task recorded as holder *)
Theorem mutex_mutual_exclusion : forall oid st0 x,
  get_obj st0 oid = Some mutex_new ->
  star (mutex_step oid) (mkMS st0 [] []) x ->
  (length (ms_guards x) <= 1)%nat
  /\ exists h s p, get_obj (ms_st x) oid = Some (OMutex h s p) /\ mutex_ok (OMutex h s p)
       /\ ms_guards x = holder_list h
       /\ (forall t, In t (ms_guards x) -> h = Some t).
Proof.
  intros oid st0 x H0 Hstar.
  assert (Hinv : minv oid x).
  { eapply (star_inv (mutex_step oid) (minv oid)); [apply mutex_step_inv|exact Hstar|].
    exists None, (sem_const_new MUTEX_PERMITS MUTEX_FAIR), false.
    split; [exact H0|]. split; [apply mutex_new_ok|]. split; [reflexivity|]. intros wid []. }
  destruct Hinv as [h [s [p [Ho [Hok [Hgs _]]]]]].
  split; [rewrite Hgs; destruct h; cbn; lia|].
  exists h, s, p. split; [assumption|]. split; [assumption|]. split; [assumption|].
  intros t Hin. rewrite Hgs in Hin. destruct h as [t'|]; cbn in Hin; [|destruct Hin].
  destruct Hin as [Heq|[]]. subst. reflexivity.
Qed.

(* ---------------- RwLock (CURRENT model, every use of the API) ---------------- *)
(* `rs_debt`: the tasks between the two segments of a refused re-entrant try_read (each has one
   permit in transit). *)
Record rwstate := mkRS { rs_st : store; rs_wg : list nat; rs_rg : list nat;
                         rs_debt : list nat; rs_pend : list (nat * bool) }.

Definition drop_widb (wid : nat) (pend : list (nat * bool)) : list (nat * bool) :=
  filter (fun x => negb (Nat.eqb (fst x) wid)) pend.

Lemma drop_widb_In : forall wid pend x, In x (drop_widb wid pend) -> In x pend /\ fst x <> wid.
Proof.
  intros wid pend x Hin. unfold drop_widb in Hin. apply filter_In in Hin. destruct Hin as [Hin Hne].
  split; [assumption|]. apply negb_true_iff in Hne. apply Nat.eqb_neq in Hne. assumption.
Qed.

Lemma remove_one_length : forall m l, In m l -> S (length (remove_one m l)) = length l.
Proof.
  intros m l. induction l as [|x r IH]; intro Hin; [destruct Hin|].
  cbn [remove_one]. destruct (Nat.eqb x m) eqn:Hx; [reflexivity|].
  cbn [length]. f_equal. apply IH. destruct Hin as [Heq|Hin]; [|assumption].
  apply Nat.eqb_neq in Hx. contradiction.
Qed.

Inductive rw_step (oid : nat) : rwstate -> rwstate -> Prop :=
| RsOther : forall st st' wg rg debt pend,
    get_obj st' oid = get_obj st oid ->
    rw_step oid (mkRS st wg rg debt pend) (mkRS st' wg rg debt pend)
| RsNewWaiter : forall e st e' st' write wid wg rg debt pend,
    new_waiter_block oid (rw_permits write) e st = Some (e', st', [N.of_nat wid]) ->
    rw_step oid (mkRS st wg rg debt pend) (mkRS st' wg rg debt ((wid, write) :: pend))
| RsLock : forall e st write wid e' st' out m wg rg debt pend,     (* read()/write(): one poll round *)
    In (wid, write) pend -> me e = Some m ->
    rw_lock_segment oid write wid e st = Some (e', st', out) ->
    rw_step oid (mkRS st wg rg debt pend)
      (mkRS st'
         (match out with LoAcquired _ => if write then m :: wg else wg | _ => wg end)
         (match out with LoAcquired _ => if write then rg else rg ++ [m] | _ => rg end)
         debt
         (match out with LoPending => pend | _ => drop_widb wid pend end))
| RsClosedLock : forall e st write e' st' b m wg rg debt pend,     (* read()/write() on a closed semaphore *)
    (forall w rs s p, get_obj st oid = Some (ORwLock w rs s p) -> sm_closed s = true) ->
    me e = Some m ->
    rw_take e st oid write = Some (e', st', b) ->
    rw_step oid (mkRS st wg rg debt pend)
      (mkRS st' (if write then m :: wg else wg) (if write then rg else rg ++ [m]) debt pend)
| RsTry : forall e st write e' st' r m wg rg debt pend,            (* try_read()/try_write(): first segment, ANY caller *)
    me e = Some m ->
    rw_try_segment oid write e st = Some (e', st', r) ->
    rw_step oid (mkRS st wg rg debt pend)
      (if rw_try_needs_release oid write e st
       then mkRS st' wg rg (m :: debt) pend
       else mkRS st'
              (match r with LkWouldBlock => wg | _ => if write then m :: wg else wg end)
              (match r with LkWouldBlock => rg | _ => if write then rg else rg ++ [m] end)
              debt pend)
| RsTryRelease : forall e st e' st' m wg rg debt pend,             (* ... its second segment: release(1) *)
    me e = Some m -> In m debt ->
    release_segment oid 1 e st = Some (e', st') ->
    rw_step oid (mkRS st wg rg debt pend) (mkRS st' wg rg (remove_one m debt) pend)
| RsUnlock : forall e st (write : bool) e' st' m (wg rg : list nat) debt pend,   (* drop(guard) by an owner *)
    me e = Some m -> In m (if write then wg else rg) ->
    rw_unlock_segment oid write e st = Some (e', st') ->
    rw_step oid (mkRS st wg rg debt pend)
      (mkRS st' (if write then remove_one m wg else wg)
                (if write then rg else filter (fun x => negb (Nat.eqb x m)) rg) debt pend).

Definition rinv (oid : nat) (x : rwstate) : Prop :=
  exists w rs s p, get_obj (rs_st x) oid = Some (ORwLock w rs s p)
    /\ rw_okd (N.of_nat (length (rs_debt x))) (ORwLock w rs s p)
    /\ rs_wg x = holder_list w /\ rs_rg x = rs /\ (w <> None -> rs = [])
    /\ forall wid write, In (wid, write) (rs_pend x) -> waiter_fresh s wid (rw_permits write).

Lemma rw_step_inv : forall oid x y, rinv oid x -> rw_step oid x y -> rinv oid y.
Proof.
  intros oid x y [w [rs [s [p [Ho [Hok [Hwg [Hrg [Hwr Hpend]]]]]]]]] Hstep.
  destruct Hstep as [st st' wg rg debt pend Hsame
                    | e st e' st' write wid wg rg debt pend Hnw
                    | e st write wid e' st' out m wg rg debt pend Hin Hme Hseg
                    | e st write e' st' b m wg rg debt pend Hclosed Hme Htake
                    | e st write e' st' r m wg rg debt pend Hme Hseg
                    | e st e' st' m wg rg debt pend Hme Hin Hseg
                    | e st write e' st' m wg rg debt pend Hme Hin Hseg];
    unfold rinv; cbn [rs_st rs_wg rs_rg rs_debt rs_pend] in *.
  - exists w, rs, s, p. rewrite Hsame. auto 10.
  - destruct (new_waiter_block_rw _ _ _ _ _ _ _ _ _ _ _ _ Hnw Ho Hok)
      as [s' [wid' [_ [Ha [Hg' [Hok' [Hfresh [_ [_ Hk]]]]]]]]].
    injection Ha as Ha. apply Nat2N.inj in Ha. subst wid'.
    exists w, rs, s', p. split; [assumption|]. split; [assumption|]. split; [assumption|].
    split; [assumption|]. split; [assumption|].
    intros wd wr [Hw|Hw]; [injection Hw as <- <-; assumption|].
    eapply waiter_fresh_kept; [exact Hk|exact I|apply Hpend; assumption].
  - destruct (rw_lock_segment_invd _ _ _ _ _ _ _ _ _ _ _ _ _ Hseg Ho Hok (Hpend wid write Hin))
      as [w' [rs' [s' [Hg' [Hok' [_ Hout]]]]]].
    exists w', rs', s', p. split; [assumption|]. split; [assumption|].
    destruct out as [p'| |].
    + destruct Hout as [_ [_ [_ [Hw [Hk [m' [Hme' [_ Hcase]]]]]]]].
      rewrite Hme in Hme'. injection Hme' as <-. subst w. cbn in Hwg. subst wg.
      assert (Hfr : forall wd wr, In (wd, wr) (drop_widb wid pend) -> waiter_fresh s' wd (rw_permits wr)).
      { intros wd wr Hw. apply drop_widb_In in Hw. destruct Hw as [Hw Hne]. cbn [fst] in Hne.
        eapply waiter_fresh_kept; [exact Hk|exact Hne|apply Hpend; assumption]. }
      destruct write.
      * destruct Hcase as [Hrs [Hw' [Hrs' _]]]. subst rs w' rs' rg.
        split; [reflexivity|]. split; [reflexivity|]. split; [reflexivity|]. exact Hfr.
      * destruct Hcase as [Hw' [Hrs' _]]. subst w' rs' rg.
        split; [reflexivity|]. split; [reflexivity|]. split; [intro Hc; exfalso; apply Hc; reflexivity|].
        exact Hfr.
    + destruct Hout as [_ Hst]. subst st'. rewrite Ho in Hg'. injection Hg' as <- <- <-.
      split; [assumption|]. split; [assumption|]. split; [assumption|].
      intros wd wr Hw. apply drop_widb_In in Hw. apply Hpend. apply Hw.
    + destruct Hout as [_ [Hw' [Hrs' [_ [_ [_ Hk]]]]]]. subst w' rs'.
      split; [assumption|]. split; [assumption|]. split; [assumption|].
      intros wd wr Hw. eapply waiter_fresh_kept; [exact Hk|exact I|apply Hpend; assumption].
  - destruct (rw_closed_path_invd _ _ _ _ _ _ _ _ _ _ _ _ Htake Ho Hok (Hclosed _ _ _ _ Ho))
      as [_ [_ [Hw [m' [w' [rs' [Hme' [Hg' [Hok' Hcase]]]]]]]]].
    rewrite Hme in Hme'. injection Hme' as <-. subst w. cbn in Hwg. subst wg.
    exists w', rs', s, p. split; [assumption|]. split; [assumption|].
    destruct write.
    + destruct Hcase as [Hrs [Hw' Hrs']]. subst rs w' rs' rg.
      split; [reflexivity|]. split; [reflexivity|]. split; [reflexivity|]. assumption.
    + destruct Hcase as [_ [Hw' Hrs']]. subst w' rs' rg.
      split; [reflexivity|]. split; [reflexivity|]. split; [intro Hc; exfalso; apply Hc; reflexivity|].
      assumption.
  - destruct (rw_try_segment_invd _ _ _ _ _ _ _ _ _ _ _ _ Hseg Ho Hok)
      as [w' [rs' [s' [Hg' [_ [[_ [Hwt _]] Hcase]]]]]].
    assert (Hfr : forall wd wr, In (wd, wr) pend -> waiter_fresh s' wd (rw_permits wr)).
    { intros wd wr Hw. eapply waiter_fresh_wtab_eq; [exact Hwt|apply Hpend; assumption]. }
    destruct (rw_try_needs_release oid write e st); cbn [rs_st rs_wg rs_rg rs_debt rs_pend].
    + destruct Hcase as [_ [_ [_ [Hw' [Hrs' [_ [_ [_ [_ Hokd]]]]]]]]]. subst w' rs'.
      exists w, rs, s', p. split; [assumption|].
      split.
      { cbn [length]. rewrite Nat2N.inj_succ, <- N.add_1_r. exact Hokd. }
      auto.
    + destruct Hcase as [Hok' [Hsucc Hfail]].
      exists w', rs', s', p. split; [assumption|]. split; [assumption|].
      assert (Hs : r <> LkWouldBlock ->
                (if write then m :: wg else wg) = holder_list w'
                /\ (if write then rg else rg ++ [m]) = rs' /\ (w' <> None -> rs' = [])).
      { intro Hr. destruct (Hsucc Hr) as [_ [_ [Hw [m' [Hme' [_ Hcase]]]]]].
        rewrite Hme in Hme'. injection Hme' as <-. subst w. cbn in Hwg. subst wg.
        destruct write.
        - destruct Hcase as [Hrs [Hw' [Hrs' _]]]. subst rs w' rs' rg. auto.
        - destruct Hcase as [Hw' [Hrs' _]]. subst w' rs' rg.
          split; [reflexivity|]. split; [reflexivity|]. intro Hc; exfalso; apply Hc; reflexivity. }
      destruct r.
      * destruct (Hs ltac:(discriminate)) as [H1 [H2 H3]]. auto.
      * destruct (Hs ltac:(discriminate)) as [H1 [H2 H3]]. auto.
      * destruct (Hfail eq_refl) as [Hst _]. subst st'. rewrite Ho in Hg'. injection Hg' as <- <- <-. auto.
  - assert (Hlen : N.of_nat (length debt) = N.of_nat (length (remove_one m debt)) + 1).
    { pose proof (remove_one_length m debt Hin) as Hl. lia. }
    rewrite Hlen in Hok.
    destruct (release_segment_invd _ _ _ _ _ _ _ _ _ _ Hseg Ho Hok)
      as [s' [stop [Hg' [Hok' [_ [_ [_ [Hk _]]]]]]]].
    exists w, rs, s', p. split; [assumption|]. split; [assumption|]. split; [assumption|].
    split; [assumption|]. split; [assumption|].
    intros wd wr Hw. eapply waiter_fresh_kept; [exact Hk|exact I|apply Hpend; assumption].
  - destruct (rw_unlock_segment_invd _ _ _ _ _ _ _ _ _ _ _ Hseg Ho Hok)
      as [m' [stop [s' [w' [rs' [p' [Hme' [_ [Hg' [Hok' [_ [_ [Hk Hcase]]]]]]]]]]]]].
    rewrite Hme in Hme'. injection Hme' as <-.
    exists w', rs', s', p'. split; [assumption|]. split; [assumption|].
    assert (Hfr : forall wd wr, In (wd, wr) pend -> waiter_fresh s' wd (rw_permits wr)).
    { intros wd wr Hw. eapply waiter_fresh_kept; [exact Hk|exact I|apply Hpend; assumption]. }
    destruct write.
    + destruct Hcase as [Hw [Hw' [Hrs' _]]]. subst w w' rs'. cbn in Hwg. subst wg.
      split; [cbn; rewrite Nat.eqb_refl; reflexivity|]. split; [assumption|].
      split; [intro Hc; exfalso; apply Hc; reflexivity|]. assumption.
    + destruct Hcase as [_ [Hw' [Hrs' _]]]. subst w' rs' rg.
      split; [assumption|]. split; [reflexivity|]. split; [|assumption].
      intro Hc. rewrite (Hwr Hc). reflexivity.
Qed.

(* C04 for RwLock, CURRENT model, no use of the API excluded: along every sequence of steps from a
   fresh lock at most one task owns a write guard, nobody owns a read guard while somebody owns a
   write guard, the guards are exactly the holders recorded in the lock, and the permit accounting
   is exact up to the permits in transit (rw_ok itself whenever no try_read is between its two
   segments) *)
Theorem rw_mutual_exclusion : forall oid st0 x,
  get_obj st0 oid = Some rwlock_new ->
  star (rw_step oid) (mkRS st0 [] [] [] []) x ->
  (length (rs_wg x) <= 1)%nat
  /\ (rs_wg x <> [] -> rs_rg x = [])
  /\ exists w rs s p, get_obj (rs_st x) oid = Some (ORwLock w rs s p)
       /\ rw_okd (N.of_nat (length (rs_debt x))) (ORwLock w rs s p)
       /\ (rs_debt x = [] -> rw_ok (ORwLock w rs s p))
       /\ rs_wg x = holder_list w /\ rs_rg x = rs
       /\ (sm_closed s = false -> NoDup (rs_rg x)).
Proof.
  intros oid st0 x H0 Hstar.
  assert (Hinv : rinv oid x).
  { eapply (star_inv (rw_step oid) (rinv oid)); [apply rw_step_inv|exact Hstar|].
    exists None, [], (sem_const_new MAX_READS RWLOCK_FAIR), false.
    split; [exact H0|]. split; [apply rwlock_new_ok|]. split; [reflexivity|]. split; [reflexivity|].
    split; [reflexivity|]. intros wid write []. }
  destruct Hinv as [w [rs [s [p [Ho [Hok [Hwg [Hrg [Hwr _]]]]]]]]].
  split; [rewrite Hwg; destruct w; cbn; lia|].
  split.
  { intro Hne. rewrite Hrg. apply Hwr. intro Hw. subst w. apply Hne. assumption. }
  exists w, rs, s, p. split; [assumption|]. split; [assumption|].
  split; [intro Hd; rewrite Hd in Hok; exact Hok|].
  split; [assumption|]. split; [assumption|]. intro Hc. rewrite Hrg. destruct Hok as [_ Hinv].
  destruct (Hinv Hc) as [[_ [_ Hnd]]|[t [_ [Hrs _]]]]; [assumption|rewrite Hrs; constructor].
Qed.

(* BEFORE THE REPAIR the refused re-entrant try_read was the whole operation: no permit was in
   transit afterwards (debt = []), and the invariant was broken for good *)
Lemma rw_reentrant_try_read_broke_rinv_before_repair :
  exists e st e' st' m wg rg pend,
    rinv 0 (mkRS st wg rg [] pend) /\ me e = Some m /\ In m rg
    /\ rw_try_segment 0 false e st = Some (e', st', LkWouldBlock)
    /\ ~ rinv 0 (mkRS st' wg rg [] pend).
Proof.
  destruct try_read_reentrant_leaks as [e [st [e' [st' [w [rs [s [p [s' [Hg [Hok [Hseg [Hg' [Hne Hnok]]]]]]]]]]]]]].
  assert (Hin : exists m, me e = Some m /\ In m rs /\ w = None).
  { unfold rw_try_segment in Hseg. cbn [rw_permits] in Hseg.
    destruct (try_step 0 1 e st) as [[[e1 st1] r1]|] eqn:Ht; [|discriminate].
    eapply try_step_spec in Ht; [|eassumption|reflexivity]. destruct Ht as [s1 [Htry Hst1]].
    apply sem_try_acquire_spec in Htry. destruct Htry as [_ [Hregs [_ Hpost]]].
    cbn [with_sem] in Hst1.
    assert (Hg1 : get_obj st1 0 = Some (ORwLock w rs s1 p)) by (subst st1; eapply get_set_same; eassumption).
    destruct r1.
    - unfold rw_try_set in Hseg. destruct (me e1) as [m|] eqn:Hme1; [|discriminate].
      rewrite (same_regs_me _ _ Hregs) in Hme1. rewrite Hg1 in Hseg.
      destruct w as [t|]; [destruct p; discriminate|].
      destruct (existsb (Nat.eqb m) rs) eqn:Hex; [|destruct p; discriminate].
      exists m. split; [assumption|]. split; [apply existsb_eqb_In; assumption|reflexivity].
    - exfalso. destruct Hpost as [Hs1 _]. subst s1. injection Hseg as <- <-.
      rewrite Hg1 in Hg'. injection Hg' as <-. apply Hne. reflexivity.
    - exfalso. destruct Hpost as [Hs1 _]. subst s1. injection Hseg as <- <-.
      rewrite Hg1 in Hg'. injection Hg' as <-. apply Hne. reflexivity. }
  destruct Hin as [m [Hme [Hin Hw]]]. subst w.
  exists e, st, e', st', m, [], rs, [].
  split.
  { exists None, rs, s, p. cbn [rs_st rs_wg rs_rg rs_debt rs_pend length].
    split; [assumption|]. split; [exact Hok|]. split; [reflexivity|]. split; [reflexivity|].
    split; [intro Hc; exfalso; apply Hc; reflexivity|]. intros wid write []. }
  split; [assumption|]. split; [assumption|]. split; [assumption|].
  intros [w2 [rs2 [s2 [p2 [Hg2 [Hok2 _]]]]]]. cbn [rs_st rs_debt length] in Hg2, Hok2.
  rewrite Hg' in Hg2. injection Hg2 as <- <- <- <-. contradiction.
Qed.

(* the transition systems are not empty: a lock() that returns a guard, as two steps *)
Example ex_mutex_steps_reach_guard :
  exists x, star (mutex_step 0) (mkMS [mutex_new] [] []) x /\ ms_guards x = [0%nat].
Proof.
  eexists. split.
  - eapply star_step.
    { eapply (MsNewWaiter 0 (ex_exec 0 false) [mutex_new] _ _ 0%nat). lazy. reflexivity. }
    eapply star_step.
    { eapply (MsLock 0 (ex_exec 0 false) _ 0%nat _ _ _ 0%nat).
      - left. reflexivity.
      - reflexivity.
      - lazy. reflexivity. }
    apply star_refl.
  - reflexivity.
Qed.

Example ex_rw_steps_reach_two_readers :
  exists x, star (rw_step 0) (mkRS [rwlock_new] [] [] [] []) x /\ rs_rg x = [0%nat; 1%nat] /\ rs_wg x = [].
Proof.
  eexists. split.
  - eapply star_step.
    { eapply (RsNewWaiter 0 (ex_exec 0 false) [rwlock_new] _ _ false 0%nat). lazy. reflexivity. }
    eapply star_step.
    { eapply (RsLock 0 (ex_exec 0 false) _ false 0%nat _ _ _ 0%nat).
      - left. reflexivity.
      - reflexivity.
      - lazy. reflexivity. }
    eapply star_step.
    { eapply (RsTry 0 (ex_exec 1 false) _ false _ _ _ 1%nat).
      - reflexivity.
      - lazy. reflexivity. }
    apply star_refl.
  - split; reflexivity.
Qed.

(* a re-entrant try_read as two steps: a permit in transit after the first, none after the second *)
Example ex_rw_steps_reentrant_try_read :
  exists x y, star (rw_step 0) (mkRS [rwlock_new] [] [] [] []) x /\ rs_debt x = [0%nat] /\ rs_rg x = [0%nat]
              /\ rw_step 0 x y /\ rs_debt y = [] /\ rs_rg y = [0%nat]
              /\ option_map (fun v => snd (fst (fst v))) (rw_view (rs_st y) 0) = Some (MAX_READS - 1).
Proof.
  eexists. eexists. split.
  - eapply star_step.
    { eapply (RsNewWaiter 0 (ex_exec 0 false) [rwlock_new] _ _ false 0%nat). lazy. reflexivity. }
    eapply star_step.
    { eapply (RsLock 0 (ex_exec 0 false) _ false 0%nat _ _ _ 0%nat).
      - left. reflexivity.
      - reflexivity.
      - lazy. reflexivity. }
    eapply star_step.
    { eapply (RsTry 0 (ex_exec 0 false) _ false _ _ _ 0%nat).
      - reflexivity.
      - lazy. reflexivity. }
    apply star_refl.
  - split; [reflexivity|]. split; [reflexivity|]. split.
    + eapply (RsTryRelease 0 (ex_exec 0 false) _ _ _ 0%nat).
      * reflexivity.
      * left. reflexivity.
      * lazy. reflexivity.
    + split; [reflexivity|]. split; reflexivity.
Qed.
