(* ------------------------------------------------------------------------- *)
(*  SV.Proofs.BarrierProofs : property C05, Barrier part                      *)
(*  (shuttle-std/src/sync/barrier.rs as modelled in Lang/SyncOps2.v).         *)
(*                                                                            *)
(*  PART 1  exact functional specification of the blocks barrier_arrive and   *)
(*          barrier_leave (bar_release_exact, bar_reuse).                     *)
(*  PART 2  the transition system (arrive / leave by any task, environment    *)
(*          steps), ghost state = the generations whose leader has been       *)
(*          designated; invariant BarInv.                                     *)
(*  PART 3  trace theorems: every released generation consists of exactly     *)
(*          max 1 bound arrivals, and has exactly one leader.                 *)
(*  PART 4  the code tree of Barrier::wait.                                   *)
(* ------------------------------------------------------------------------- *)
From Coq Require Import List NArith Bool Arith Lia.
From SV Require Import Params Clock.VClock Prim.Objects Engine.Exec Prim.Semaphore
                       Lang.Code Lang.SyncOps Lang.SyncOps2 Proofs.SemBase Proofs.CondvarProofs.
Import ListNotations.
Local Open Scope nat_scope.

(* ========================================================================= *)
(*  PART 1 : the blocks                                                       *)
(* ========================================================================= *)
Definition inb (x : nat) (l : list nat) : bool := existsb (Nat.eqb x) l.

Lemma inb_In : forall x l, inb x l = true <-> In x l.
Proof.
  intros x l; unfold inb; rewrite existsb_exists; split.
  - intros (y & Hin & Heq); apply Nat.eqb_eq in Heq; subst; exact Hin.
  - intros Hin; exists x; split; [exact Hin|apply Nat.eqb_refl].
Qed.

Lemma inb_false : forall x l, inb x l = false <-> ~ In x l.
Proof.
  intros x l; rewrite <- inb_In. destruct (inb x l); split; intros H; congruence.
Qed.

(* the release loop: t.clock.increment(tid); t.clock.update(&clock); t.unblock() *)
Definition release_fold (clk1 : vclock) (acc : option exec) (tid : nat) : option exec :=
  match acc with
  | None => None
  | Some e =>
    match e_increment_clock e tid with
    | Some e' => match e_join_clock e' tid clk1 with
                 | Some e'' => e_unblock e'' tid | None => None end
    | None => None end
  end.

Lemma barrier_arrive_unfold : forall e st b,
  barrier_arrive e st b =
  match me e, get_obj st b with
  | Some m, Some (OBarrier bound epoch ws toks clk) =>
    match e_increment_clock e m with
    | None => None
    | Some e1 =>
      match e_clock e1 m with
      | None => None
      | Some mc =>
        if inb m ws then None
        else if Nat.ltb (length (ws ++ [m])) bound then
          match e_block e1 m false with
          | Some e2 => Some (e2, set_obj st b (OBarrier bound epoch (ws ++ [m]) toks (update clk mc)), epoch, true)
          | None => None end
        else if inb epoch toks then None
        else match fold_left (release_fold (update clk mc)) (ws ++ [m]) (Some e1) with
             | Some e2 => Some (e2, set_obj st b (OBarrier bound (S epoch) [] (toks ++ [epoch]) (update clk mc)), epoch, false)
             | None => None end
      end
    end
  | _, _ => None
  end.
Proof. intros; reflexivity. Qed.

Lemma release_fold_none : forall clk l, fold_left (release_fold clk) l None = None.
Proof. intros clk l; induction l as [|t r IH]; cbn [fold_left release_fold]; auto. Qed.

Lemma release_fold_spec : forall clk l e e',
  fold_left (release_fold clk) l (Some e) = Some e' ->
  me e' = me e /\
  (forall t, In t l -> st_of e' t = Some Runnable) /\
  (forall t, ~ In t l -> st_of e' t = st_of e t).
Proof.
  intros clk l; induction l as [|tid r IH]; intros e e' Hf.
  - cbn [fold_left] in Hf; inversion Hf; subst. repeat split; auto. intros t [].
  - cbn [fold_left] in Hf. unfold release_fold at 2 in Hf.
    destruct (e_increment_clock e tid) as [e1|] eqn:H1; [|rewrite release_fold_none in Hf; discriminate].
    destruct (e_join_clock e1 tid clk) as [e2|] eqn:H2; [|rewrite release_fold_none in Hf; discriminate].
    destruct (e_unblock e2 tid) as [e3|] eqn:H3; [|rewrite release_fold_none in Hf; discriminate].
    destruct (IH _ _ Hf) as (Hme & Hrun & Hsame).
    pose proof (only_clocks_trans _ _ _ (e_increment_clock_only _ _ _ H1) (e_join_clock_only _ _ _ _ H2)) as Hoc.
    destruct (e_unblock_st _ _ _ H3) as (Hme3 & Hs3 & _ & Ho3 & _).
    split; [rewrite Hme, Hme3; apply only_clocks_me; exact Hoc|].
    split.
    + intros t [<-|Hin]; [|apply Hrun; exact Hin].
      destruct (in_dec Nat.eq_dec tid r) as [Hi|Hni]; [apply Hrun; exact Hi|].
      rewrite (Hsame tid Hni); exact Hs3.
    + intros t Hnin; cbn [In] in Hnin. rewrite Hsame; [|tauto].
      rewrite Ho3; [|intros ->; tauto]. apply only_clocks_st; exact Hoc.
Qed.

(* ---- bar_release_exact ---- *)
(* What an arrival does, exactly.  It is refused (the Rust assert fails) when the caller is already a
   waiter.  Otherwise, with ws the tasks already waiting:
     - if |ws| + 1 < bound the caller is added and blocked, and nothing else changes;
     - otherwise (|ws| + 1 >= bound: the caller completes the group; always the case for bound 0 and 1)
       exactly the tasks of ws ++ [caller] are made runnable, the waiter set is emptied, the epoch is
       incremented and one leader token for the old epoch is inserted (it was not there).
   The answer `blocked` is the one barrier_will_block predicted in the same state. *)
Theorem bar_release_exact : forall e st b e' st' ep blocked m bound epoch ws toks clk,
  barrier_arrive e st b = Some (e', st', ep, blocked) ->
  me e = Some m -> get_obj st b = Some (OBarrier bound epoch ws toks clk) ->
  ep = epoch /\ ~ In m ws /\ me e' = me e /\ barrier_will_block st b = Some blocked /\
  if blocked then
    length ws + 1 < bound /\
    (exists clk', get_obj st' b = Some (OBarrier bound epoch (ws ++ [m]) toks clk')) /\
    st_of e' m = Some (Blocked false) /\ (forall t, t <> m -> st_of e' t = st_of e t)
  else
    bound <= length ws + 1 /\ ~ In epoch toks /\
    (exists clk', get_obj st' b = Some (OBarrier bound (S epoch) [] (toks ++ [epoch]) clk')) /\
    (forall t, In t (ws ++ [m]) -> st_of e' t = Some Runnable) /\
    (forall t, ~ In t (ws ++ [m]) -> st_of e' t = st_of e t).
Proof.
  intros e st b e' st' ep blocked m bound epoch ws toks clk Ha Hme Hobj.
  rewrite barrier_arrive_unfold, Hme, Hobj in Ha.
  destruct (e_increment_clock e m) as [e1|] eqn:H1; [|discriminate].
  destruct (e_clock e1 m) as [mc|]; [|discriminate].
  destruct (inb m ws) eqn:Hin; [discriminate|]. apply inb_false in Hin.
  pose proof (e_increment_clock_only _ _ _ H1) as Hoc.
  unfold barrier_will_block; rewrite Hobj.
  rewrite app_length in Ha; cbn [length] in Ha.
  replace (length ws + 1) with (S (length ws)) in * by lia.
  destruct (Nat.ltb_spec (S (length ws)) bound) as [Hlt|Hge].
  - destruct (e_block e1 m false) as [e2|] eqn:Hb; [|discriminate].
    inversion Ha; subst e2 st' ep blocked; clear Ha.
    destruct (e_block_st _ _ _ _ Hb) as (Hme2 & Hs2 & _ & Ho2 & _).
    split; [reflexivity|]. split; [exact Hin|].
    split; [rewrite Hme2; apply only_clocks_me; exact Hoc|]. split; [reflexivity|].
    split; [exact Hlt|]. split; [eexists; eapply get_set_obj_eq; exact Hobj|].
    split; [exact Hs2|]. intros t Hne. rewrite (Ho2 t Hne). apply only_clocks_st; exact Hoc.
  - destruct (inb epoch toks) eqn:Htok; [discriminate|]. apply inb_false in Htok.
    destruct (fold_left _ (ws ++ [m]) (Some e1)) as [e2|] eqn:Hf; [|discriminate].
    inversion Ha; subst e2 st' ep blocked; clear Ha.
    destruct (release_fold_spec _ _ _ _ Hf) as (Hme2 & Hrun & Hsame).
    split; [reflexivity|]. split; [exact Hin|].
    split; [rewrite Hme2; apply only_clocks_me; exact Hoc|]. split; [reflexivity|].
    split; [exact Hge|]. split; [exact Htok|]. split; [eexists; eapply get_set_obj_eq; exact Hobj|].
    split; [exact Hrun|]. intros t Hnin. rewrite (Hsame t Hnin). apply only_clocks_st; exact Hoc.
Qed.

(* ---- bar_reuse ---- *)
(* leaving with epoch g answers "leader" iff the token of g is there, removes that token and no other,
   and touches nothing else (not even the engine state) *)
Theorem bar_reuse : forall e st b g e' st' leader bound epoch ws toks clk,
  barrier_leave e st b g = Some (e', st', leader) ->
  get_obj st b = Some (OBarrier bound epoch ws toks clk) ->
  e' = e /\ leader = inb g toks /\
  exists toks', get_obj st' b = Some (OBarrier bound epoch ws toks' clk) /\
    ~ In g toks' /\ (forall g', g' <> g -> (In g' toks' <-> In g' toks)) /\
    (NoDup toks -> NoDup toks').
Proof.
  intros e st b g e' st' leader bound epoch ws toks clk Hl Hobj.
  unfold barrier_leave in Hl; rewrite Hobj in Hl. inversion Hl; subst e' st' leader; clear Hl.
  split; [reflexivity|]. split; [reflexivity|].
  eexists; split; [eapply get_set_obj_eq; exact Hobj|].
  split; [|split].
  - rewrite filter_In. intros (_ & H). rewrite Nat.eqb_refl in H; discriminate.
  - intros g' Hne. rewrite filter_In. split; [tauto|]. intros Hin; split; [exact Hin|].
    apply negb_true_iff, Nat.eqb_neq; exact Hne.
  - apply NoDup_filter.
Qed.

(* ========================================================================= *)
(*  PART 2 : the transition system and its invariant                          *)
(* ========================================================================= *)
(* ghost: the generations for which a leave has answered "leader" *)
Record bstate := mkB { b_e : exec; b_s : store; b_leaders : list nat }.

Definition bar_fields (b : nat) (s : bstate) : nat * nat * list nat * list nat :=
  match get_obj (b_s s) b with
  | Some (OBarrier bound epoch ws toks _) => (bound, epoch, ws, toks)
  | _ => (0, 0, [], [])
  end.
Definition bar_bound b s := fst (fst (fst (bar_fields b s))).
Definition bar_epoch b s := snd (fst (fst (bar_fields b s))).
Definition bar_ws b s := snd (fst (bar_fields b s)).
Definition bar_toks b s := snd (bar_fields b s).

Lemma bar_fields_eq : forall b e st L bound epoch ws toks clk,
  get_obj st b = Some (OBarrier bound epoch ws toks clk) ->
  bar_bound b (mkB e st L) = bound /\ bar_epoch b (mkB e st L) = epoch /\
  bar_ws b (mkB e st L) = ws /\ bar_toks b (mkB e st L) = toks.
Proof.
  intros b e st L bound epoch ws toks clk H.
  unfold bar_bound, bar_epoch, bar_ws, bar_toks, bar_fields; cbn [b_s]; rewrite H; auto.
Qed.

Inductive blabel :=
| LArr (t ep : nat) (blocked : bool)       (* task t arrived in generation ep; blocked = false: it released the group *)
| LLeave (g : nat) (leader : bool)         (* a task of generation g returned from wait *)
| LBEnv.

Inductive barstep (b : nat) : bstate -> blabel -> bstate -> Prop :=
| Bs_arrive : forall e st L e' st' m ep blk,
    me e = Some m -> barrier_arrive e st b = Some (e', st', ep, blk) ->
    barstep b (mkB e st L) (LArr m ep blk) (mkB e' st' L)
| Bs_leave : forall e st L e' st' g ld,
    barrier_leave e st b g = Some (e', st', ld) ->
    barstep b (mkB e st L) (LLeave g ld) (mkB e' st' (if ld then g :: L else L))
| Bs_env : forall e st L e' st',
    get_obj st' b = get_obj st b ->
    (forall t, In t (bar_ws b (mkB e st L)) -> st_of e' t = st_of e t) ->
    barstep b (mkB e st L) LBEnv (mkB e' st' L).

Inductive barrun (b : nat) : bstate -> list blabel -> bstate -> Prop :=
| BRun_nil : forall s, barrun b s [] s
| BRun_cons : forall s l s1 tr s2, barstep b s l s1 -> barrun b s1 tr s2 -> barrun b s (l :: tr) s2.

Definition BarInv (b : nat) (s : bstate) : Prop :=
  exists bound epoch ws toks clk,
    get_obj (b_s s) b = Some (OBarrier bound epoch ws toks clk) /\
    length ws < Nat.max 1 bound /\ NoDup ws /\
    (forall t, In t ws -> st_of (b_e s) t = Some (Blocked false)) /\
    NoDup toks /\ NoDup (b_leaders s) /\
    (forall g, (In g toks \/ In g (b_leaders s)) <-> g < epoch) /\
    (forall g, In g toks -> In g (b_leaders s) -> False).

(* what a step does to the barrier object and the ghost state *)
Lemma barstep_effect : forall b s l s',
  BarInv b s -> barstep b s l s' ->
  bar_bound b s' = bar_bound b s /\
  match l with
  | LArr t ep blk =>
      ep = bar_epoch b s /\ b_leaders s' = b_leaders s /\ ~ In t (bar_ws b s) /\
      if blk then bar_epoch b s' = bar_epoch b s /\ bar_ws b s' = bar_ws b s ++ [t] /\
                  bar_toks b s' = bar_toks b s /\ length (bar_ws b s) + 1 < bar_bound b s
      else bar_epoch b s' = S (bar_epoch b s) /\ bar_ws b s' = [] /\
           bar_toks b s' = bar_toks b s ++ [bar_epoch b s] /\ bar_bound b s <= length (bar_ws b s) + 1
  | LLeave g ld =>
      bar_epoch b s' = bar_epoch b s /\ bar_ws b s' = bar_ws b s /\ b_e s' = b_e s /\
      ld = inb g (bar_toks b s) /\ b_leaders s' = (if ld then g :: b_leaders s else b_leaders s) /\
      ~ In g (bar_toks b s') /\ (forall g', g' <> g -> (In g' (bar_toks b s') <-> In g' (bar_toks b s)))
  | LBEnv => bar_epoch b s' = bar_epoch b s /\ bar_ws b s' = bar_ws b s /\ bar_toks b s' = bar_toks b s /\
             b_leaders s' = b_leaders s
  end.
Proof.
  intros b s l s' (bound & epoch & ws & toks & clk & Hobj & _) Hstep.
  destruct Hstep as [e st L e' st' m ep blk Hme Ha | e st L e' st' g ld Hl | e st L e' st' Hsame Hst];
    cbn [b_s b_e b_leaders] in *;
    destruct (bar_fields_eq b e st L _ _ _ _ _ Hobj) as (E1 & E2 & E3 & E4); rewrite E1, E2, E3, E4.
  - destruct (bar_release_exact _ _ _ _ _ _ _ _ _ _ _ _ _ Ha Hme Hobj) as (-> & Hnin & _ & _ & Hcase).
    destruct blk.
    + destruct Hcase as (Hlt & (clk' & Hobj') & _).
      destruct (bar_fields_eq b e' st' L _ _ _ _ _ Hobj') as (-> & -> & -> & ->). repeat split; auto.
    + destruct Hcase as (Hge & _ & (clk' & Hobj') & _).
      destruct (bar_fields_eq b e' st' L _ _ _ _ _ Hobj') as (-> & -> & -> & ->). repeat split; auto.
  - destruct (bar_reuse _ _ _ _ _ _ _ _ _ _ _ _ Hl Hobj) as (-> & -> & toks' & Hobj' & Hnin & Hoth & _).
    match goal with |- bar_bound b (mkB ?a ?c ?d) = _ /\ _ =>
      destruct (bar_fields_eq b a c d _ _ _ _ _ Hobj') as (-> & -> & -> & ->) end.
    repeat split; auto; apply Hoth; auto.
  - assert (Hobj' : get_obj st' b = Some (OBarrier bound epoch ws toks clk)) by congruence.
    destruct (bar_fields_eq b e' st' L _ _ _ _ _ Hobj') as (-> & -> & -> & ->). repeat split; auto.
Qed.

Theorem barstep_inv : forall b s l s', BarInv b s -> barstep b s l s' -> BarInv b s'.
Proof.
  intros b s l s' Hinv Hstep.
  destruct Hinv as (bound & epoch & ws & toks & clk & Hobj & Hlen & Hnd & Hblk & Hndt & Hndl & Hcov & Hdisj).
  destruct Hstep as [e st L e' st' m ep blk Hme Ha | e st L e' st' g ld Hl | e st L e' st' Hsame Hst];
    cbn [b_s b_e b_leaders] in *.
  - destruct (bar_release_exact _ _ _ _ _ _ _ _ _ _ _ _ _ Ha Hme Hobj) as (-> & Hnin & _ & _ & Hcase).
    destruct blk.
    + destruct Hcase as (Hlt & (clk' & Hobj') & Hsm & Hoth).
      exists bound, epoch, (ws ++ [m]), toks, clk'. cbn [b_s b_e b_leaders].
      split; [exact Hobj'|]. split; [rewrite app_length; cbn [length]; lia|].
      split; [apply NoDup_snoc; assumption|].
      split; [|repeat split; auto; apply Hcov].
      intros t Hin; apply in_app_iff in Hin; destruct Hin as [Hin|[<-|[]]]; [|exact Hsm].
      rewrite Hoth; [apply Hblk; exact Hin|]. intros ->; contradiction.
    + destruct Hcase as (Hge & Htok & (clk' & Hobj') & _ & _).
      exists bound, (S epoch), [], (toks ++ [epoch]), clk'. cbn [b_s b_e b_leaders].
      split; [exact Hobj'|]. split; [cbn [length]; lia|]. split; [constructor|].
      split; [intros t []|]. split; [apply NoDup_snoc; assumption|]. split; [exact Hndl|].
      split.
      * intros g; rewrite in_app_iff; cbn [In]. specialize (Hcov g). split.
        -- intros [[H|[<-|[]]]|H]; [| lia |]; assert (g < epoch) by tauto; lia.
        -- intros Hlt. destruct (Nat.eq_dec g epoch) as [->|Hne]; [left; right; left; reflexivity|].
           assert (g < epoch) as Hl by lia. apply Hcov in Hl. tauto.
      * intros g Hin HL; apply in_app_iff in Hin; destruct Hin as [Hin|[<-|[]]]; [eapply Hdisj; eassumption|].
        assert (epoch < epoch) by (apply Hcov; right; exact HL). lia.
  - destruct (bar_reuse _ _ _ _ _ _ _ _ _ _ _ _ Hl Hobj) as (-> & -> & toks' & Hobj' & Hnin & Hoth & Hnd').
    exists bound, epoch, ws, toks', clk. cbn [b_s b_e b_leaders].
    split; [exact Hobj'|]. split; [exact Hlen|]. split; [exact Hnd|]. split; [exact Hblk|].
    split; [apply Hnd'; exact Hndt|].
    destruct (inb g toks) eqn:Hg.
    + apply inb_In in Hg.
      split; [constructor; [intros HL; eapply Hdisj; eassumption|exact Hndl]|].
      split.
      * intros g'; cbn [In]. destruct (Nat.eq_dec g' g) as [->|Hne].
        -- split; [intros _; apply Hcov; left; exact Hg|intros _; right; left; reflexivity].
        -- rewrite (Hoth g' Hne), <- (Hcov g'). split; [intros [H|[H|H]]; [tauto|congruence|tauto]|tauto].
      * intros g' Hin [<-|HL]; [contradiction|].
        destruct (Nat.eq_dec g' g) as [->|Hne]; [contradiction|].
        apply (Hoth g' Hne) in Hin. eapply Hdisj; eassumption.
    + apply inb_false in Hg.
      split; [exact Hndl|]. split.
      * intros g'. destruct (Nat.eq_dec g' g) as [->|Hne].
        -- rewrite <- (Hcov g). tauto.
        -- rewrite (Hoth g' Hne). apply Hcov.
      * intros g' Hin HL. destruct (Nat.eq_dec g' g) as [->|Hne]; [contradiction|].
        apply (Hoth g' Hne) in Hin. eapply Hdisj; eassumption.
  - assert (Hobj' : get_obj st' b = Some (OBarrier bound epoch ws toks clk)) by congruence.
    destruct (bar_fields_eq b e st L _ _ _ _ _ Hobj) as (_ & _ & E3 & _); rewrite E3 in Hst.
    exists bound, epoch, ws, toks, clk. cbn [b_s b_e b_leaders].
    repeat split; auto; try apply Hcov. intros t Hin; rewrite (Hst t Hin); apply Hblk; exact Hin.
Qed.

Theorem barrun_inv : forall b s tr s', BarInv b s -> barrun b s tr s' -> BarInv b s'.
Proof.
  intros b s tr s' Hinv Hrun; induction Hrun as [|s l s1 tr s2 Hstep Hrun IH]; [exact Hinv|].
  apply IH. eapply barstep_inv; eassumption.
Qed.

Definition bar_init (b bound : nat) (s : bstate) : Prop :=
  (exists clk, get_obj (b_s s) b = Some (OBarrier bound 0 [] [] clk)) /\ b_leaders s = [].

Lemma bar_init_inv : forall b bound s, bar_init b bound s -> BarInv b s.
Proof.
  intros b bound [e st L] ((clk & Hobj) & HL); cbn [b_s b_leaders] in *; subst L.
  exists bound, 0, [], [], clk. cbn [b_s b_e b_leaders length].
  split; [exact Hobj|]. split; [lia|]. split; [constructor|]. split; [intros t []|].
  split; [constructor|]. split; [constructor|]. split.
  - intros g; split; [intros [[]|[]]|lia].
  - intros g [].
Qed.

(* every waiter is blocked; a blocked waiter is unblocked only by the arrival that completes its group *)
Theorem bar_waiters_blocked : forall b s t,
  BarInv b s -> In t (bar_ws b s) -> st_of (b_e s) t = Some (Blocked false).
Proof.
  intros b [e st L] t (bound & epoch & ws & toks & clk & Hobj & _ & _ & Hblk & _) Hin. cbn [b_s b_e] in *.
  destruct (bar_fields_eq b e st L _ _ _ _ _ Hobj) as (_ & _ & E3 & _); rewrite E3 in Hin. apply Hblk; exact Hin.
Qed.

(* the group released by an arrival has exactly the configured size (1 when the bound is 0 or 1) *)
Theorem bar_group_size : forall b s t ep s',
  BarInv b s -> barstep b s (LArr t ep false) s' ->
  length (bar_ws b s ++ [t]) = Nat.max 1 (bar_bound b s).
Proof.
  intros b s t ep s' Hinv Hstep.
  destruct (barstep_effect _ _ _ _ Hinv Hstep) as (_ & _ & _ & _ & _ & _ & _ & Hge).
  destruct Hinv as (bound & epoch & ws & toks & clk & Hobj & Hlen & _). destruct s as [e st L]; cbn [b_s] in *.
  destruct (bar_fields_eq b e st L _ _ _ _ _ Hobj) as (E1 & _ & E3 & _). rewrite E1, E3 in *.
  rewrite app_length; cbn [length]. lia.
Qed.

(* ========================================================================= *)
(*  PART 3 : generations                                                      *)
(* ========================================================================= *)
Definition arr_of (g : nat) (l : blabel) : nat :=
  match l with LArr _ ep _ => if Nat.eqb ep g then 1 else 0 | _ => 0 end.
Definition leader_of (g : nat) (l : blabel) : nat :=
  match l with LLeave g' true => if Nat.eqb g' g then 1 else 0 | _ => 0 end.
(* arrivals in generation g, leaves of generation g answered "leader" *)
Fixpoint count_arr (g : nat) (tr : list blabel) : nat :=
  match tr with [] => 0 | l :: r => arr_of g l + count_arr g r end.
Fixpoint count_leader (g : nat) (tr : list blabel) : nat :=
  match tr with [] => 0 | l :: r => leader_of g l + count_leader g r end.

Lemma count_arr_app : forall g a c, count_arr g (a ++ c) = count_arr g a + count_arr g c.
Proof. intros g a c; induction a as [|l a IH]; cbn [app count_arr]; [reflexivity|rewrite IH; lia]. Qed.
Lemma count_leader_app : forall g a c, count_leader g (a ++ c) = count_leader g a + count_leader g c.
Proof. intros g a c; induction a as [|l a IH]; cbn [app count_leader]; [reflexivity|rewrite IH; lia]. Qed.

Definition b2nat (x : bool) : nat := if x then 1 else 0.

(* the trace and the state agree *)
Definition BTr (b bound : nat) (pre : list blabel) (s : bstate) : Prop :=
  bar_bound b s = bound /\
  (forall g, g < bar_epoch b s -> count_arr g pre = Nat.max 1 bound) /\
  count_arr (bar_epoch b s) pre = length (bar_ws b s) /\
  (forall g, bar_epoch b s < g -> count_arr g pre = 0) /\
  (forall g, count_leader g pre = b2nat (inb g (b_leaders s))) /\
  (forall t g, In (LArr t g false) pre -> g < bar_epoch b s).

Lemma BarInv_len : forall b s, BarInv b s -> length (bar_ws b s) < Nat.max 1 (bar_bound b s).
Proof.
  intros b [e st L] (bound & epoch & ws & toks & clk & Hobj & Hlen & _); cbn [b_s] in *.
  destruct (bar_fields_eq b e st L _ _ _ _ _ Hobj) as (-> & _ & -> & _). exact Hlen.
Qed.

Lemma BarInv_leaders : forall b s g, BarInv b s ->
  (In g (b_leaders s) -> g < bar_epoch b s /\ ~ In g (bar_toks b s)) /\
  (g < bar_epoch b s -> ~ In g (bar_toks b s) -> In g (b_leaders s)).
Proof.
  intros b [e st L] g (bound & epoch & ws & toks & clk & Hobj & _ & _ & _ & _ & _ & Hcov & Hdisj); cbn [b_s b_leaders] in *.
  destruct (bar_fields_eq b e st L _ _ _ _ _ Hobj) as (_ & -> & _ & ->). specialize (Hcov g). split.
  - intros HL; split; [tauto|]. intros Hin; eapply Hdisj; eassumption.
  - intros Hlt Hnin. tauto.
Qed.

Lemma btr_step : forall b bound pre s l s',
  BarInv b s -> BTr b bound pre s -> barstep b s l s' -> BTr b bound (pre ++ [l]) s'.
Proof.
  intros b bound pre s l s' Hinv (Hbd & Hold & Hcur & Hfut & Hld & Hrel) Hstep.
  destruct (barstep_effect _ _ _ _ Hinv Hstep) as (Hbd' & Heff).
  pose proof (BarInv_len _ _ Hinv) as Hlen. rewrite Hbd in *.
  unfold BTr. split; [congruence|].
  assert (Happ_a : forall g, count_arr g (pre ++ [l]) = count_arr g pre + arr_of g l)
    by (intros g; rewrite count_arr_app; cbn [count_arr]; lia).
  assert (Happ_l : forall g, count_leader g (pre ++ [l]) = count_leader g pre + leader_of g l)
    by (intros g; rewrite count_leader_app; cbn [count_leader]; lia).
  destruct l as [t ep blk|g0 ld|].
  - destruct Heff as (-> & HL & _ & Hcase). rewrite HL.
    assert (Hld' : forall g, count_leader g (pre ++ [LArr t (bar_epoch b s) blk]) = b2nat (inb g (b_leaders s)))
      by (intros g; rewrite Happ_l; cbn [leader_of]; rewrite Hld; lia).
    destruct blk.
    + destruct Hcase as (-> & -> & _ & Hlt).
      split; [intros g Hg; rewrite Happ_a; cbn [arr_of]; destruct (Nat.eqb_spec (bar_epoch b s) g); [lia|]; rewrite Hold; lia|].
      split; [rewrite Happ_a; cbn [arr_of]; rewrite Nat.eqb_refl, Hcur, app_length; cbn [length]; lia|].
      split; [intros g Hg; rewrite Happ_a; cbn [arr_of]; destruct (Nat.eqb_spec (bar_epoch b s) g); [lia|]; rewrite Hfut; lia|].
      split; [exact Hld'|].
      intros t' g Hin; apply in_app_iff in Hin; destruct Hin as [Hin|[Heq|[]]]; [eapply Hrel; exact Hin|discriminate].
    + destruct Hcase as (-> & -> & _ & Hge).
      split.
      { intros g Hg; rewrite Happ_a; cbn [arr_of]. destruct (Nat.eqb_spec (bar_epoch b s) g) as [<-|Hne].
        - rewrite Hcur. lia.
        - rewrite Hold; lia. }
      split; [rewrite Happ_a; cbn [arr_of length]; destruct (Nat.eqb_spec (bar_epoch b s) (S (bar_epoch b s))); [lia|]; rewrite Hfut; lia|].
      split; [intros g Hg; rewrite Happ_a; cbn [arr_of]; destruct (Nat.eqb_spec (bar_epoch b s) g); [lia|]; rewrite Hfut; lia|].
      split; [exact Hld'|].
      intros t' g Hin; apply in_app_iff in Hin; destruct Hin as [Hin|[Heq|[]]].
      * specialize (Hrel _ _ Hin); lia.
      * inversion Heq; subst; lia.
  - destruct Heff as (-> & -> & _ & -> & HL & _). rewrite HL.
    assert (Ha : forall g, count_arr g (pre ++ [LLeave g0 (inb g0 (bar_toks b s))]) = count_arr g pre)
      by (intros g; rewrite Happ_a; cbn [arr_of]; lia).
    split; [intros g Hg; rewrite Ha; apply Hold; exact Hg|]. split; [rewrite Ha; exact Hcur|].
    split; [intros g Hg; rewrite Ha; apply Hfut; exact Hg|].
    split.
    + intros g; rewrite Happ_l, Hld; cbn [leader_of].
      destruct (inb g0 (bar_toks b s)) eqn:Htok; [|lia].
      unfold inb at 2; cbn [existsb]. fold (inb g (b_leaders s)). rewrite (Nat.eqb_sym g g0).
      destruct (Nat.eqb_spec g0 g) as [->|Hne]; cbn [orb]; [|lia].
      apply inb_In in Htok. destruct (inb g (b_leaders s)) eqn:HinL; [|reflexivity].
      apply inb_In in HinL. destruct (proj1 (BarInv_leaders b s g Hinv) HinL) as (_ & Hn). contradiction.
    + intros t' g Hin; apply in_app_iff in Hin; destruct Hin as [Hin|[Heq|[]]]; [eapply Hrel; exact Hin|discriminate].
  - destruct Heff as (-> & -> & _ & ->).
    assert (Ha : forall g, count_arr g (pre ++ [LBEnv]) = count_arr g pre)
      by (intros g; rewrite Happ_a; cbn [arr_of]; lia).
    split; [intros g Hg; rewrite Ha; apply Hold; exact Hg|]. split; [rewrite Ha; exact Hcur|].
    split; [intros g Hg; rewrite Ha; apply Hfut; exact Hg|].
    split; [intros g; rewrite Happ_l, Hld; cbn [leader_of]; lia|].
    intros t' g Hin; apply in_app_iff in Hin; destruct Hin as [Hin|[Heq|[]]]; [eapply Hrel; exact Hin|discriminate].
Qed.

Lemma barrun_btr : forall b bound s tr s',
  barrun b s tr s' -> forall pre, BarInv b s -> BTr b bound pre s -> BTr b bound (pre ++ tr) s'.
Proof.
  intros b bound s tr s' Hrun; induction Hrun as [|s l s1 tr s2 Hstep Hrun IH]; intros pre Hinv Htr.
  - rewrite app_nil_r; exact Htr.
  - change (l :: tr) with ([l] ++ tr); rewrite app_assoc. apply IH.
    + eapply barstep_inv; eassumption.
    + eapply btr_step; eassumption.
Qed.

Lemma bar_init_btr : forall b bound s, bar_init b bound s -> BTr b bound [] s.
Proof.
  intros b bound [e st L] ((clk & Hobj) & HL); cbn [b_s b_leaders] in *; subst L.
  destruct (bar_fields_eq b e st [] _ _ _ _ _ Hobj) as (E1 & E2 & E3 & E4).
  unfold BTr; rewrite E1, E2, E3. cbn [b_leaders count_arr count_leader length inb existsb b2nat].
  repeat split; auto; try lia. intros t g [].
Qed.

(* Over any execution from a fresh barrier: every released generation g consists of exactly
   max 1 bound arrivals (the configured number; one for bound 0), the current generation has as many
   arrivals as there are waiters (fewer than that number), and a generation has had a leader
   designated at most once - exactly when it is in the ghost set. *)
Theorem bar_generations : forall b bound s tr s',
  bar_init b bound s -> barrun b s tr s' ->
  (forall g, g < bar_epoch b s' -> count_arr g tr = Nat.max 1 bound /\ count_leader g tr <= 1) /\
  count_arr (bar_epoch b s') tr = length (bar_ws b s') /\ length (bar_ws b s') < Nat.max 1 bound /\
  (forall g, bar_epoch b s' <= g -> count_leader g tr = 0).
Proof.
  intros b bound s tr s' Hinit Hrun.
  pose proof (bar_init_inv _ _ _ Hinit) as Hinv0.
  pose proof (barrun_btr _ bound _ _ _ Hrun [] Hinv0 (bar_init_btr _ _ _ Hinit)) as (Hbd & Hold & Hcur & _ & Hld & _).
  pose proof (barrun_inv _ _ _ _ Hinv0 Hrun) as Hinv.
  cbn [app] in *. split; [|split; [exact Hcur|split]].
  - intros g Hg; split; [apply Hold; exact Hg|]. rewrite Hld. destruct (inb g (b_leaders s')); cbn; lia.
  - rewrite <- Hbd; apply BarInv_len; exact Hinv.
  - intros g Hg. rewrite Hld. destruct (inb g (b_leaders s')) eqn:HL; [|reflexivity].
    apply inb_In in HL. destruct (proj1 (BarInv_leaders b s' g Hinv) HL) as (Hlt & _). lia.
Qed.

Lemma barrun_split : forall b s a c s', barrun b s (a ++ c) s' -> exists s1, barrun b s a s1 /\ barrun b s1 c s'.
Proof.
  intros b s a; revert s; induction a as [|l a IH]; intros s c s' Hrun; cbn [app] in Hrun.
  - exists s; split; [constructor|exact Hrun].
  - inversion Hrun as [|s0 l0 s1 tr s2 Hstep Hrest]; subst.
    destruct (IH _ _ _ Hrest) as (sm & H1 & H2). exists sm; split; [econstructor; eassumption|exact H2].
Qed.

Lemma barstep_leaders_mono : forall b s l s' g, barstep b s l s' -> In g (b_leaders s) -> In g (b_leaders s').
Proof. intros b s l s' g Hstep Hin; destruct Hstep; cbn [b_leaders] in *; auto. destruct ld; [right|]; exact Hin. Qed.

Lemma barrun_leaders_mono : forall b s tr s' g, barrun b s tr s' -> In g (b_leaders s) -> In g (b_leaders s').
Proof.
  intros b s tr s' g Hrun; induction Hrun as [|s l s1 tr s2 Hstep Hrun IH]; intros Hin; [exact Hin|].
  apply IH. eapply barstep_leaders_mono; eassumption.
Qed.

(* ---- bar_one_leader ---- *)
(* exactly one leader per generation: once generation g has been released and one of its tasks has
   returned from wait, exactly one return of that generation was answered "leader" - whatever happens
   afterwards, and however many other generations are in flight *)
Theorem bar_one_leader : forall b bound s tr1 g x tr2 s' t,
  bar_init b bound s -> barrun b s (tr1 ++ LLeave g x :: tr2) s' ->
  In (LArr t g false) tr1 ->
  count_leader g (tr1 ++ LLeave g x :: tr2) = 1.
Proof.
  intros b bound s tr1 g x tr2 s' t Hinit Hrun Hrel.
  pose proof (bar_init_inv _ _ _ Hinit) as Hinv0.
  pose proof (barrun_btr _ bound _ _ _ Hrun [] Hinv0 (bar_init_btr _ _ _ Hinit)) as (_ & _ & _ & _ & Hld & _).
  cbn [app] in Hld. rewrite Hld.
  destruct (barrun_split _ _ _ _ _ Hrun) as (s1 & Hrun1 & Hrun2).
  inversion Hrun2 as [|s0 l0 s2 tr s3 Hstep Hrest]; subst.
  pose proof (barrun_btr _ bound _ _ _ Hrun1 [] Hinv0 (bar_init_btr _ _ _ Hinit)) as (_ & _ & _ & _ & _ & Hrel1).
  cbn [app] in Hrel1. specialize (Hrel1 _ _ Hrel).
  pose proof (barrun_inv _ _ _ _ Hinv0 Hrun1) as Hinv1.
  pose proof (barstep_inv _ _ _ _ Hinv1 Hstep) as Hinv2.
  destruct (barstep_effect _ _ _ _ Hinv1 Hstep) as (_ & He & _ & _ & _ & _ & Hnin & _).
  assert (HL2 : In g (b_leaders s2)).
  { apply (proj2 (BarInv_leaders b s2 g Hinv2)); [rewrite He; exact Hrel1|exact Hnin]. }
  pose proof (barrun_leaders_mono _ _ _ _ g Hrest HL2) as HL.
  apply inb_In in HL; rewrite HL; reflexivity.
Qed.

(* ========================================================================= *)
(*  PART 4 : the code tree of Barrier::wait                                   *)
(* ========================================================================= *)
Definition bar_leave_code (b : nat) (ep : N) (kont : bool -> code) : code :=
  atomic_b (fun e st => barrier_leave e st b (N.to_nat ep)) kont.

(* wait = [will_block?]; a scheduling point only if the caller will NOT block; arrive;
   then - if blocked - the blocking scheduling point; leave (leader token) *)
Theorem barrier_wait_code_shape : forall b kont,
  barrier_wait_code b kont =
  atomic_b (fun e st => match barrier_will_block st b with Some wb => Some (e, st, wb) | None => None end)
    (fun wb => switch_if (negb wb)
      (Atomic (fun e st => match barrier_arrive e st b with
                           | Some (e', st', ep, blocked) => Some (e', st', [N.of_nat ep; b2n blocked]) | None => None end)
        (fun a => match a with
                  | [ep; blk] => if N.eqb blk 1 then Switch (bar_leave_code b ep kont) else bar_leave_code b ep kont
                  | _ => Panic end))).
Proof. reflexivity. Qed.

(* the task that completes a group does not pass a scheduling point between its arrival and its
   leave: it always takes the leader token of its generation (the other members of the group find
   the token gone) *)
Theorem bar_releaser_is_leader : forall e st b e' st' ep m bound epoch ws toks clk,
  barrier_arrive e st b = Some (e', st', ep, false) ->
  me e = Some m -> get_obj st b = Some (OBarrier bound epoch ws toks clk) ->
  exists st'', barrier_leave e' st' b ep = Some (e', st'', true).
Proof.
  intros e st b e' st' ep m bound epoch ws toks clk Ha Hme Hobj.
  destruct (bar_release_exact _ _ _ _ _ _ _ _ _ _ _ _ _ Ha Hme Hobj) as (-> & _ & _ & _ & _ & _ & (clk' & Hobj') & _).
  unfold barrier_leave; rewrite Hobj'. eexists. f_equal. f_equal.
  apply existsb_exists. exists epoch; split; [apply in_app_iff; right; left; reflexivity|apply Nat.eqb_refl].
Qed.

(* ========================================================================= *)
(*  PART 5 : an arrival never fails in a reachable state                      *)
(* ========================================================================= *)
(* room for k increments of t's own clock entry *)
Definition inc_room (e : exec) (t : nat) (k : N) : Prop :=
  exists c x, clk_of e t = Some c /\ nth_error c t = Some x /\ (x + k <= u32_max)%N.

Lemma inc_room_ok : forall e t k, (1 <= k)%N -> inc_room e t k -> inc_ok e t.
Proof. intros e t k Hk (c & x & Hc & Hn & Hx); exists c, x. split; [exact Hc|]. split; [exact Hn|lia]. Qed.

Lemma nth_error_set_nth_eq : forall (c : vclock) i v x, nth_error c i = Some x -> nth_error (set_nth c i v) i = Some v.
Proof.
  intros c; induction c as [|h r IH]; intros [|i] v x H; cbn [set_nth nth_error] in *; try discriminate; eauto.
Qed.

Lemma upd_task_others : forall e t f e' t',
  upd_task e t f = Some e' -> t' <> t -> clk_of e' t' = clk_of e t' /\ st_of e' t' = st_of e t'.
Proof.
  intros e t f e' t' Hu Hne. destruct (upd_task_spec _ _ _ _ Hu) as (_ & Hoth & _).
  unfold clk_of, st_of; rewrite (Hoth t' Hne); auto.
Qed.

Lemma e_increment_clock_clk : forall e t e',
  e_increment_clock e t = Some e' ->
  (forall t', t' <> t -> clk_of e' t' = clk_of e t') /\
  exists c x, clk_of e t = Some c /\ nth_error c t = Some x /\ clk_of e' t = Some (set_nth c t (x + 1)%N).
Proof.
  intros e t e' H; unfold e_increment_clock in H.
  destruct (get_task e t) as [tk|] eqn:Hg; [|discriminate].
  unfold increment in H. destruct (nth_error (t_clock tk) t) as [x|] eqn:Hn; [|discriminate].
  destruct (x <? u32_max)%N; [|discriminate].
  split; [intros t' Hne; apply (upd_task_others _ _ _ _ t' H Hne)|].
  destruct (upd_task_spec _ _ _ _ H) as (_ & _ & tk0 & Hg0 & Hg'). rewrite Hg in Hg0; inversion Hg0; subst tk0.
  exists (t_clock tk), x. unfold clk_of; rewrite Hg, Hg'. cbn [set_clock t_clock]. auto.
Qed.

Lemma e_join_clock_clk : forall e t c e' t', e_join_clock e t c = Some e' -> t' <> t -> clk_of e' t' = clk_of e t'.
Proof. intros e t c e' t' H Hne; unfold e_join_clock in H. apply (upd_task_others _ _ _ _ t' H Hne). Qed.

Lemma e_join_clock_succ : forall e t c, alive e t -> exists e', e_join_clock e t c = Some e'.
Proof.
  intros e t c Ha; apply alive_get in Ha; destruct Ha as (tk & Hg & _).
  unfold e_join_clock; eapply upd_task_succ; exact Hg.
Qed.

Lemma only_clocks_alive : forall e e' t, only_clocks e e' -> alive e t -> alive e' t.
Proof. intros e e' t Hoc (s & Hs & Hne); exists s; split; [rewrite (only_clocks_st _ _ Hoc); exact Hs|exact Hne]. Qed.

Lemma release_fold_succ : forall clk l e,
  NoDup l -> (forall t, In t l -> inc_ok e t /\ alive e t) ->
  exists e', fold_left (release_fold clk) l (Some e) = Some e'.
Proof.
  intros clk l; induction l as [|tid r IH]; intros e Hnd Hall.
  - cbn [fold_left]; eauto.
  - inversion Hnd as [|x xs Hnotin Hnd']; subst.
    destruct (Hall tid (or_introl eq_refl)) as (Hok & Hal).
    destruct (e_increment_clock_succ e tid Hok) as (e1 & H1).
    pose proof (e_increment_clock_only _ _ _ H1) as Hoc1.
    destruct (e_join_clock_succ e1 tid clk (only_clocks_alive _ _ _ Hoc1 Hal)) as (e2 & H2).
    pose proof (e_join_clock_only _ _ _ _ H2) as Hoc2.
    destruct (e_unblock_succ e2 tid (only_clocks_alive _ _ _ Hoc2 (only_clocks_alive _ _ _ Hoc1 Hal))) as (e3 & H3).
    cbn [fold_left]. unfold release_fold at 2. rewrite H1, H2, H3.
    apply IH; [exact Hnd'|]. intros t Hin.
    assert (Hne : t <> tid) by (intros ->; contradiction).
    destruct (Hall t (or_intror Hin)) as (Hokt & Halt).
    destruct (e_increment_clock_clk _ _ _ H1) as (Hc1 & _).
    destruct (e_unblock_st _ _ _ H3) as (_ & _ & _ & Hs3 & Hc3).
    split.
    + apply (inc_ok_clk e e3 t); [|exact Hokt].
      rewrite Hc3, (e_join_clock_clk _ _ _ _ t H2 Hne), (Hc1 t Hne); reflexivity.
    + destruct Halt as (s & Hs & Hnf). exists s; split; [|exact Hnf].
      rewrite (Hs3 t Hne), (only_clocks_st _ _ Hoc2), (only_clocks_st _ _ Hoc1); exact Hs.
Qed.

(* In a reachable state an arrival by a live task that is not already waiting returns (blocked, or
   releasing the group): none of the Rust assertions can fail.  Side conditions: the vector-clock
   entries involved do not overflow u32 (the arriving task's own entry is incremented twice when it
   releases the group). *)
Theorem barrier_arrive_succeeds : forall b e st L m,
  BarInv b (mkB e st L) -> me e = Some m -> alive e m -> ~ In m (bar_ws b (mkB e st L)) ->
  inc_room e m 2 -> (forall t, In t (bar_ws b (mkB e st L)) -> inc_ok e t) ->
  exists e' st' ep blk, barrier_arrive e st b = Some (e', st', ep, blk).
Proof.
  intros b e st L m (bound & epoch & ws & toks & clk & Hobj & _ & Hnd & Hblk & _ & _ & Hcov & _) Hme Hal Hnin Hroom Hoks.
  cbn [b_s b_e b_leaders] in *.
  destruct (bar_fields_eq b e st L _ _ _ _ _ Hobj) as (_ & _ & E3 & _); rewrite E3 in *.
  rewrite barrier_arrive_unfold, Hme, Hobj.
  destruct (e_increment_clock_succ e m (inc_room_ok e m 2%N ltac:(lia) Hroom)) as (e1 & H1); rewrite H1.
  pose proof (e_increment_clock_only _ _ _ H1) as Hoc1.
  pose proof (only_clocks_alive _ _ _ Hoc1 Hal) as Hal1.
  assert (Hclk : exists mc, e_clock e1 m = Some mc).
  { apply alive_get in Hal1; destruct Hal1 as (tk & Hg & _). unfold e_clock; rewrite Hg; eauto. }
  destruct Hclk as (mc & ->).
  destruct (inb m ws) eqn:Hin; [apply inb_In in Hin; contradiction|].
  destruct (Nat.ltb (length (ws ++ [m])) bound).
  - destruct (e_block_succ e1 m false Hal1) as (e2 & ->). eauto.
  - destruct (inb epoch toks) eqn:Htok.
    + apply inb_In in Htok. assert (epoch < epoch) by (apply Hcov; left; exact Htok). lia.
    + destruct (release_fold_succ (update clk mc) (ws ++ [m]) e1) as (e2 & ->); [| |eauto].
      * apply NoDup_snoc; assumption.
      * destruct (e_increment_clock_clk _ _ _ H1) as (Hc1 & c & x & Hc & Hn & Hc').
        intros t Hint; apply in_app_iff in Hint; destruct Hint as [Hint|[<-|[]]].
        -- assert (Hne : t <> m) by (intros ->; contradiction).
           split; [apply (inc_ok_clk e e1 t (Hc1 t Hne)); apply Hoks; exact Hint|].
           apply (only_clocks_alive _ _ _ Hoc1). exists (Blocked false); split; [apply Hblk; exact Hint|discriminate].
        -- split; [|exact Hal1].
           destruct Hroom as (c0 & x0 & Hc0 & Hn0 & Hx0). rewrite Hc in Hc0; inversion Hc0; subst c0.
           rewrite Hn in Hn0; inversion Hn0; subst x0.
           exists (set_nth c m (x + 1)%N), (x + 1)%N. split; [exact Hc'|].
           split; [eapply nth_error_set_nth_eq; exact Hn|]. unfold u32_max in *; lia.
Qed.
