(* C19: proofs about the abstract bounded-mpsc protocol machine of Lang/TokSpec.v. *)
From Coq Require Import List Arith Bool Lia.
From SV Require Import Lang.TokSpec.
Import ListNotations.

Lemma cnt_set_nth : forall (p : cph -> bool) l i c c',
  nth_error l i = Some c ->
  cnt p (set_nth l i c') + (if p c then 1 else 0) = cnt p l + (if p c' then 1 else 0).
Proof.
  unfold cnt. induction l as [|x r IH]; intros i c c' H.
  - destruct i; discriminate.
  - destruct i as [|j]; simpl in *.
    + inversion H; subst. destruct (p c), (p c'); simpl; lia.
    + specialize (IH j c c' H). destruct (p x); simpl; lia.
Qed.

Lemma cnt_pos : forall (p : cph -> bool) l i c, nth_error l i = Some c -> p c = true -> 1 <= cnt p l.
Proof.
  unfold cnt. induction l as [|x r IH]; intros i c H Hp.
  - destruct i; discriminate.
  - destruct i as [|j]; simpl in *.
    + inversion H; subst. rewrite Hp. simpl. lia.
    + specialize (IH j c H Hp). destruct (p x); simpl; lia.
Qed.

Lemma cnt_repeat_idle : forall p n, p CIdle = false -> cnt p (repeat CIdle n) = 0.
Proof. unfold cnt. induction n; intros H; simpl; [reflexivity|]. rewrite H. auto. Qed.

Lemma cnt4 : forall l i c c', nth_error l i = Some c ->
  cnt is_sgranted (set_nth l i c') + (if is_sgranted c then 1 else 0) = cnt is_sgranted l + (if is_sgranted c' then 1 else 0) /\
  cnt is_popped (set_nth l i c') + (if is_popped c then 1 else 0) = cnt is_popped l + (if is_popped c' then 1 else 0) /\
  cnt is_rgranted (set_nth l i c') + (if is_rgranted c then 1 else 0) = cnt is_rgranted l + (if is_rgranted c' then 1 else 0) /\
  cnt is_pushed (set_nth l i c') + (if is_pushed c then 1 else 0) = cnt is_pushed l + (if is_pushed c' then 1 else 0).
Proof. intros. repeat split; apply cnt_set_nth; assumption. Qed.

Ltac use_cnt4 E :=
  match goal with
  | |- context [set_nth _ _ ?c'] =>
    let A := fresh in let B := fresh in let C := fresh in let D := fresh in
    destruct (cnt4 _ _ _ c' E) as (A & B & C & D); simpl in A, B, C, D
  end.

Lemma do_pop_inv : forall a i m a' ph,
  nth_error (a_cl a) i = Some ph ->
  do_pop a i m = Some a' ->
  (* the permit being consumed: either msgs = S m and the client is idle, or the client was granted and m = msgs *)
  ((ph = CIdle /\ a_msgs a = S m) \/ ((exists b, ph = CRecvGranted b) /\ a_msgs a = m)) ->
  amp_inv a -> amp_inv a'.
Proof.
  intros a i m a' ph E H Hph (I1 & I2 & I3).
  unfold do_pop in H. destruct (a_q a) as [|v q'] eqn:Q; [discriminate|]. inversion H; subst a'; clear H.
  unfold amp_inv; simpl in *.
  use_cnt4 E; destruct Hph as [[-> Hm]|[[b ->] Hm]]; simpl in *;
    (repeat split; [lia | lia | rewrite I3, <- app_assoc; reflexivity]).
Qed.

(* every step keeps the three accounting equations *)
Lemma amp_inv_step : forall a i l a', astep a i l = Some a' -> amp_inv a -> amp_inv a'.
Proof.
  intros a i l a' H Hinv.
  unfold astep in H. destruct (nth_error (a_cl a) i) as [ph|] eqn:E; [|discriminate].
  destruct l, ph; try discriminate;
    try (eapply do_pop_inv; [exact E | exact H | | exact Hinv]; eauto; fail).
  all: try (destruct (a_closed a) eqn:Cl; try discriminate).
  all: try (destruct (a_free a) as [|f] eqn:F; try discriminate).
  all: try (destruct (a_msgs a) as [|m] eqn:M; try discriminate).
  all: try (eapply do_pop_inv; [exact E | exact H | | exact Hinv]; eauto; fail).
  all: inversion H; subst a'; clear H; destruct Hinv as (I1 & I2 & I3); unfold amp_inv, with_cl, do_push; simpl in *.
  all: try use_cnt4 E; try rewrite app_length; simpl.
  all: repeat split; try lia.
  all: try (rewrite I3, app_assoc; reflexivity); try assumption.
Qed.

Lemma amp_inv_init : forall k n, amp_inv (amp_init k n).
Proof.
  intros. unfold amp_inv, amp_init; simpl.
  rewrite !cnt_repeat_idle by reflexivity. repeat split; lia.
Qed.

Lemma amp_inv_run : forall steps a a', arun a steps = Some a' -> amp_inv a -> amp_inv a'.
Proof.
  induction steps as [|[i l] r IH]; intros a a' H Hinv; simpl in H.
  - inversion H; subst; assumption.
  - destruct (astep a i l) as [a1|] eqn:S1; [|discriminate].
    eapply IH; [exact H|]. eapply amp_inv_step; eassumption.
Qed.

Lemma amp_run_from_init : forall k n steps a, arun (amp_init k n) steps = Some a -> amp_inv a.
Proof. intros. eapply amp_inv_run; [eassumption | apply amp_inv_init]. Qed.

(* a receiver that holds a message permit always finds a message: the `expect` of try_recv never fires and recv never
   returns None for lack of a message *)
Lemma pop_never_stuck_granted : forall a i b,
  amp_inv a -> nth_error (a_cl a) i = Some (CRecvGranted b) -> exists a', astep a i LRecvObserve = Some a'.
Proof.
  intros a i b (I1 & I2 & I3) E.
  pose proof (cnt_pos is_rgranted _ _ _ E eq_refl) as P.
  unfold astep. rewrite E. unfold do_pop.
  destruct (a_q a) as [|v q']; simpl in *; [lia|]. eexists; reflexivity.
Qed.

Lemma pop_never_stuck_now : forall a i b,
  amp_inv a -> nth_error (a_cl a) i = Some CIdle -> 0 < a_msgs a -> exists a', astep a i (LRecvNow b) = Some a'.
Proof.
  intros a i b (I1 & I2 & I3) E Hm.
  unfold astep. rewrite E. destruct (a_msgs a) as [|m] eqn:M; [lia|]. unfold do_pop.
  destruct (a_q a) as [|v q']; simpl in *; [lia|]. eexists; reflexivity.
Qed.

(* the buffer never exceeds the capacity *)
Lemma amp_capacity : forall a, amp_inv a -> length (a_q a) <= a_k a.
Proof. intros a (I1 & _). lia. Qed.

(* the ghost counter of lost permits moves only once the channel is closed, and closing is permanent *)
Definition lost_ok (a : amp) : Prop := a_closed a = false -> a_lost a = 0.

Lemma lost_ok_step : forall a i l a', astep a i l = Some a' -> lost_ok a -> lost_ok a'.
Proof.
  intros a i l a' H Hl. unfold astep in H. destruct (nth_error (a_cl a) i) as [ph|]; [|discriminate].
  unfold lost_ok in *.
  destruct l, ph; try discriminate;
    try (destruct (a_closed a) eqn:Cl; try discriminate);
    try (destruct (a_free a) as [|f]; try discriminate);
    try (destruct (a_msgs a) as [|m]; try discriminate);
    try (unfold do_pop in H; destruct (a_q a); try discriminate);
    inversion H; subst a'; simpl in *; intros; try discriminate; try congruence; auto.
Qed.

Lemma lost_ok_run : forall steps a a', arun a steps = Some a' -> lost_ok a -> lost_ok a'.
Proof.
  induction steps as [|[i l] r IH]; intros a a' H Hl; simpl in H.
  - inversion H; subst; assumption.
  - destruct (astep a i l) as [a1|] eqn:S1; [|discriminate].
    eapply IH; [exact H|]. eapply lost_ok_step; eassumption.
Qed.

Lemma all_idle_counts : forall l, forallb is_idle l = true ->
  cnt is_sgranted l = 0 /\ cnt is_popped l = 0 /\ cnt is_rgranted l = 0 /\ cnt is_pushed l = 0.
Proof.
  unfold cnt. induction l as [|x r IH]; intros H; simpl in *; [auto|].
  apply andb_true_iff in H. destruct H as [Hx Hr]. destruct x; try discriminate. simpl. auto.
Qed.

Lemma a_k_step : forall a i l a', astep a i l = Some a' -> a_k a' = a_k a.
Proof.
  intros a i l a' S1. unfold astep in S1. destruct (nth_error (a_cl a) i) as [ph|]; [|discriminate].
  destruct l, ph; try discriminate;
    try (destruct (a_closed a); try discriminate);
    try (destruct (a_free a); try discriminate);
    try (destruct (a_msgs a); try discriminate);
    try (unfold do_pop in S1; destruct (a_q a); try discriminate);
    inversion S1; reflexivity.
Qed.

Lemma a_k_run : forall steps a a', arun a steps = Some a' -> a_k a' = a_k a.
Proof.
  induction steps as [|[i l] r IH]; intros a a' H; simpl in H.
  - inversion H; reflexivity.
  - destruct (astep a i l) as [a1|] eqn:S1; [|discriminate].
    rewrite (IH _ _ H). eapply a_k_step; eassumption.
Qed.

(* at rest, on an open channel: free slots + buffered messages = capacity - every value received by any receive method
   gave its slot back - and the message permits equal the buffered messages *)
Lemma amp_at_rest : forall k n steps a,
  arun (amp_init k n) steps = Some a ->
  forallb is_idle (a_cl a) = true -> a_closed a = false ->
  a_free a + length (a_q a) = k /\ a_msgs a = length (a_q a).
Proof.
  intros k n steps a H Hidle Hopen.
  pose proof (amp_run_from_init _ _ _ _ H) as (I1 & I2 & I3).
  assert (Hl : lost_ok a). { eapply lost_ok_run; [exact H|]. unfold lost_ok, amp_init; simpl; auto. }
  specialize (Hl Hopen).
  destruct (all_idle_counts _ Hidle) as (A & B & C & D).
  assert (Hk : a_k a = k) by (rewrite (a_k_run _ _ _ H); reflexivity).
  lia.
Qed.
