(* Basic facts for the mpsc channel proofs (C06):
   - the abstraction of an execution state the channel depends on: the actor `me e`, the scheduling
     state of every task (`sts e t`) and its clock (`e_clock e t`);
   - exact specifications of the engine calls the channel blocks make in terms of that abstraction;
   - the function-level characterisations of sender_must_block / receiver_must_block and of the
     answers of chan_send_pre / chan_send_woken / chan_recv_pre / chan_recv_woken (C06 items 3, 4). *)
From Coq Require Import List NArith Bool Arith Lia.
From SV Require Import Clock.VClock Prim.Objects Engine.Exec Prim.Semaphore Prim.SemInv Lang.Code Lang.SyncOps Lang.SyncOps2.
From SV Require Import Proofs.VClockProofs Proofs.SemBase.
Import ListNotations.

(* ------------------------------------------------------------------ *)
(* the abstraction                                                     *)
(* ------------------------------------------------------------------ *)
Definition sts (e : exec) (t : nat) : option tstate :=
  match get_task e t with Some tk => Some (t_state tk) | None => None end.

Definition upd (a : nat -> option tstate) (t : nat) (s : tstate) : nat -> option tstate :=
  fun x => if Nat.eqb x t then Some s else a x.

Lemma upd_eq : forall a t s, upd a t s t = Some s.
Proof. intros a t s; unfold upd; rewrite Nat.eqb_refl; reflexivity. Qed.

Lemma upd_neq : forall a t s x, x <> t -> upd a t s x = a x.
Proof. intros a t s x Hne; unfold upd. destruct (Nat.eqb_spec x t); [contradiction|reflexivity]. Qed.

(* an engine call that keeps the actor and changes the states as `f` says *)
Definition eff (e e' : exec) (f : (nat -> option tstate) -> nat -> option tstate) : Prop :=
  me e' = me e /\ (forall x, sts e' x = f (sts e) x).

Definition same_clocks (e e' : exec) : Prop := forall x, e_clock e' x = e_clock e x.

Lemma upd_task_me : forall e t f e', upd_task e t f = Some e' -> me e' = me e.
Proof.
  intros e t f e' Hu. destruct (upd_task_get e t f e' Hu) as (_ & _ & _ & _ & Hc & _).
  unfold me; rewrite Hc; reflexivity.
Qed.

Lemma upd_task_sts_state : forall e t f e' s,
  upd_task e t f = Some e' -> (forall tk, t_state (f tk) = s) ->
  forall x, sts e' x = upd (sts e) t s x.
Proof.
  intros e t f e' s Hu Hs x. destruct (upd_task_get e t f e' Hu) as (Hsame & Hother & _).
  unfold sts, upd. destruct (Nat.eqb_spec x t) as [->|Hne].
  - rewrite Hsame. unfold upd_task in Hu. destruct (get_task e t) as [tk|]; [|discriminate].
    cbn [option_map]. rewrite Hs; reflexivity.
  - rewrite (Hother x) by congruence. reflexivity.
Qed.

Lemma upd_task_sts_same : forall e t f e',
  upd_task e t f = Some e' -> (forall tk, t_state (f tk) = t_state tk) ->
  forall x, sts e' x = sts e x.
Proof.
  intros e t f e' Hu Hs x. destruct (upd_task_get e t f e' Hu) as (Hsame & Hother & _).
  unfold sts. destruct (Nat.eq_dec t x) as [<-|Hne].
  - rewrite Hsame. destruct (get_task e t) as [tk|]; cbn [option_map]; [rewrite Hs|]; reflexivity.
  - rewrite (Hother x Hne). reflexivity.
Qed.

Lemma upd_task_clock_same : forall e t f e',
  upd_task e t f = Some e' -> (forall tk, t_clock (f tk) = t_clock tk) -> same_clocks e e'.
Proof.
  intros e t f e' Hu Hs x. destruct (upd_task_get e t f e' Hu) as (Hsame & Hother & _).
  unfold e_clock. destruct (Nat.eq_dec t x) as [<-|Hne].
  - rewrite Hsame. destruct (get_task e t) as [tk|]; cbn [option_map]; [rewrite Hs|]; reflexivity.
  - rewrite (Hother x Hne). reflexivity.
Qed.

Lemma sts_not_finished : forall e t tk, get_task e t = Some tk ->
  (is_finished tk = false <-> exists s, sts e t = Some s /\ s <> Finished).
Proof.
  intros e t tk Hg; unfold sts; rewrite Hg. unfold is_finished. split.
  - intros Hf. exists (t_state tk). split; [reflexivity|]. destruct (t_state tk); congruence.
  - intros (s & Hs & Hne). inversion Hs; subst. destruct (t_state tk); congruence.
Qed.

(* ---- e_unblock ---- *)
Lemma e_unblock_spec : forall e t e', e_unblock e t = Some e' ->
  eff e e' (fun a => upd a t Runnable) /\ same_clocks e e'.
Proof.
  intros e t e' Hu; unfold e_unblock in Hu.
  destruct (get_task e t) as [tk|] eqn:Hg; [|discriminate].
  destruct (is_finished tk); [discriminate|].
  split; [split|].
  - eapply upd_task_me; eassumption.
  - eapply upd_task_sts_state; [eassumption|]. intros tk0; reflexivity.
  - eapply upd_task_clock_same; [eassumption|]. intros tk0; reflexivity.
Qed.

Lemma e_unblock_ok : forall e t s, sts e t = Some s -> s <> Finished -> exists e', e_unblock e t = Some e'.
Proof.
  intros e t s Hs Hne; unfold e_unblock, sts in *.
  destruct (get_task e t) as [tk|] eqn:Hg; [|discriminate]. inversion Hs; subst.
  unfold is_finished. destruct (t_state tk) eqn:Ht; try congruence.
  all: unfold upd_task; rewrite Hg; eauto.
Qed.

Lemma e_unblock_pre : forall e t e', e_unblock e t = Some e' -> exists s, sts e t = Some s /\ s <> Finished.
Proof.
  intros e t e' Hu; unfold e_unblock in Hu.
  destruct (get_task e t) as [tk|] eqn:Hg; [|discriminate].
  destruct (is_finished tk) eqn:Hf; [discriminate|].
  apply (sts_not_finished e t tk Hg); assumption.
Qed.

(* ---- e_block ---- *)
Lemma e_block_spec : forall e t b e', e_block e t b = Some e' ->
  eff e e' (fun a => upd a t (Blocked b)) /\ same_clocks e e'.
Proof.
  intros e t b e' Hu; unfold e_block in Hu.
  destruct (get_task e t) as [tk|] eqn:Hg; [|discriminate].
  destruct (is_finished tk); [discriminate|].
  split; [split|].
  - eapply upd_task_me; eassumption.
  - eapply upd_task_sts_state; [eassumption|]. intros tk0; reflexivity.
  - eapply upd_task_clock_same; [eassumption|]. intros tk0; reflexivity.
Qed.

Lemma e_block_ok : forall e t b s, sts e t = Some s -> s <> Finished -> exists e', e_block e t b = Some e'.
Proof.
  intros e t b s Hs Hne; unfold e_block, sts in *.
  destruct (get_task e t) as [tk|] eqn:Hg; [|discriminate]. inversion Hs; subst.
  unfold is_finished. destruct (t_state tk) eqn:Ht; try congruence.
  all: unfold upd_task; rewrite Hg; eauto.
Qed.

(* ---- clocks ---- *)
Definition clock_set (e e' : exec) (t : nat) (c' : vclock) : Prop :=
  e_clock e' t = Some c' /\ forall x, x <> t -> e_clock e' x = e_clock e x.

Lemma upd_task_clock_set : forall e t f e' tk,
  upd_task e t f = Some e' -> get_task e t = Some tk -> clock_set e e' t (t_clock (f tk)).
Proof.
  intros e t f e' tk Hu Hg. destruct (upd_task_get e t f e' Hu) as (Hsame & Hother & _).
  unfold clock_set, e_clock. split.
  - rewrite Hsame, Hg. reflexivity.
  - intros x Hne. rewrite (Hother x) by congruence. reflexivity.
Qed.

Lemma e_increment_clock_spec : forall e t e', e_increment_clock e t = Some e' ->
  eff e e' (fun a => a) /\
  exists c c', e_clock e t = Some c /\ increment c t = Some c' /\ clock_set e e' t c'.
Proof.
  intros e t e' Hu; unfold e_increment_clock in Hu.
  destruct (get_task e t) as [tk|] eqn:Hg; [|discriminate].
  destruct (increment (t_clock tk) t) as [c'|] eqn:Hi; [|discriminate].
  split; [split|].
  - eapply upd_task_me; eassumption.
  - eapply upd_task_sts_same; [eassumption|]. intros tk0; reflexivity.
  - exists (t_clock tk), c'. split; [unfold e_clock; rewrite Hg; reflexivity|]. split; [assumption|].
    exact (upd_task_clock_set e t _ e' tk Hu Hg).
Qed.

Lemma e_increment_clock_ok : forall e t c c', e_clock e t = Some c -> increment c t = Some c' ->
  exists e', e_increment_clock e t = Some e'.
Proof.
  intros e t c c' Hc Hi; unfold e_increment_clock, e_clock in *.
  destruct (get_task e t) as [tk|] eqn:Hg; [|discriminate]. inversion Hc; subst.
  rewrite Hi. unfold upd_task; rewrite Hg; eauto.
Qed.

Lemma e_join_clock_spec : forall e t v e', e_join_clock e t v = Some e' ->
  eff e e' (fun a => a) /\ exists c, e_clock e t = Some c /\ clock_set e e' t (update c v).
Proof.
  intros e t v e' Hu; unfold e_join_clock in Hu.
  assert (Hu' := Hu). unfold upd_task in Hu'. destruct (get_task e t) as [tk|] eqn:Hg; [|discriminate]. clear Hu'.
  split; [split|].
  - eapply upd_task_me; eassumption.
  - eapply upd_task_sts_same; [eassumption|]. intros tk0; reflexivity.
  - exists (t_clock tk). split; [unfold e_clock; rewrite Hg; reflexivity|].
    exact (upd_task_clock_set e t _ e' tk Hu Hg).
Qed.

Lemma e_join_clock_ok : forall e t v c, e_clock e t = Some c -> exists e', e_join_clock e t v = Some e'.
Proof.
  intros e t v c Hc; unfold e_join_clock, upd_task, e_clock in *.
  destruct (get_task e t) as [tk|]; [eauto|discriminate].
Qed.

Lemma e_update_clock_spec : forall e t v e', e_update_clock e t v = Some e' ->
  eff e e' (fun a => a) /\
  exists c c', e_clock e t = Some c /\ increment c t = Some c' /\ clock_set e e' t (update c' v).
Proof.
  intros e t v e' Hu; unfold e_update_clock in Hu.
  destruct (e_increment_clock e t) as [e1|] eqn:Hi; [|discriminate].
  destruct (e_increment_clock_spec _ _ _ Hi) as ((Hm1 & Hs1) & c & c' & Hc & Hinc & Hset1 & Hoth1).
  destruct (e_join_clock_spec _ _ _ _ Hu) as ((Hm2 & Hs2) & c2 & Hc2 & Hset2 & Hoth2).
  split; [split|].
  - congruence.
  - intros x; rewrite Hs2, Hs1; reflexivity.
  - exists c, c'. repeat split; auto.
    + rewrite Hset1 in Hc2; inversion Hc2; subst; assumption.
    + intros x Hne. rewrite Hoth2, Hoth1 by assumption. reflexivity.
Qed.

Lemma e_update_clock_ok : forall e t v c c', e_clock e t = Some c -> increment c t = Some c' ->
  exists e', e_update_clock e t v = Some e'.
Proof.
  intros e t v c c' Hc Hi. unfold e_update_clock.
  destruct (e_increment_clock_ok e t c c' Hc Hi) as (e1 & He1). rewrite He1.
  destruct (e_increment_clock_spec _ _ _ He1) as (_ & c0 & c0' & _ & _ & Hset & _).
  eapply e_join_clock_ok; eassumption.
Qed.

Lemma e_clock_sts : forall e t, (exists c, e_clock e t = Some c) <-> (exists s, sts e t = Some s).
Proof.
  intros e t; unfold e_clock, sts; destruct (get_task e t); split; intros (x & Hx); try discriminate; eauto.
Qed.

(* eff composition *)
Lemma eff_id : forall e, eff e e (fun a => a).
Proof. intros e; split; reflexivity. Qed.

Lemma eff_trans : forall e1 e2 e3 f g, eff e1 e2 f -> eff e2 e3 g ->
  (forall a b x, (forall y, a y = b y) -> g a x = g b x) ->
  eff e1 e3 (fun a => g (f a)).
Proof.
  intros e1 e2 e3 f g (Hm1 & Hs1) (Hm2 & Hs2) Hext. split; [congruence|].
  intros x. rewrite Hs2. apply Hext. exact Hs1.
Qed.

(* unblock_all *)
Fixpoint upd_all (a : nat -> option tstate) (l : list nat) (s : tstate) : nat -> option tstate :=
  match l with [] => a | t :: r => upd_all (upd a t s) r s end.

Lemma upd_all_in : forall l a s x, In x l -> upd_all a l s x = Some s.
Proof.
  induction l as [|t r IH]; intros a s x Hin; [destruct Hin|].
  cbn [upd_all]. destruct (in_dec Nat.eq_dec x r) as [Hr|Hr]; [apply IH; assumption|].
  destruct Hin as [<-|Hin]; [|contradiction].
  clear IH. revert a. induction r as [|y r IH]; intros a; cbn [upd_all]; [apply upd_eq|].
  assert (Hny : t <> y) by (intros ->; apply Hr; left; reflexivity).
  assert (Hnr : ~ In t r) by (intros Hc; apply Hr; right; assumption).
  specialize (IH Hnr).
  (* commute *)
  assert (Hext : forall l b b', (forall z, b z = b' z) -> forall z, upd_all b l s z = upd_all b' l s z).
  { clear. induction l as [|q l IH]; intros b b' Hb z; cbn [upd_all]; [apply Hb|].
    apply IH. intros w; unfold upd; destruct (Nat.eqb w q); auto. }
  rewrite (Hext r _ (upd (upd a y s) t s)).
  - apply IH.
  - intros z; unfold upd. destruct (Nat.eqb_spec z y), (Nat.eqb_spec z t); subst; congruence.
Qed.

Lemma upd_all_notin : forall l a s x, ~ In x l -> upd_all a l s x = a x.
Proof.
  induction l as [|t r IH]; intros a s x Hn; [reflexivity|].
  cbn [upd_all]. rewrite IH by (intros Hc; apply Hn; right; assumption).
  apply upd_neq. intros ->; apply Hn; left; reflexivity.
Qed.

Lemma unblock_all_none : forall l, fold_left (fun acc t => match acc with Some e => e_unblock e t | None => None end) l None = None.
Proof. induction l as [|t r IH]; cbn [fold_left]; auto. Qed.

Lemma unblock_all_spec : forall l e e', unblock_all e l = Some e' ->
  eff e e' (fun a => upd_all a l Runnable) /\ same_clocks e e'.
Proof.
  unfold unblock_all. induction l as [|t r IH]; intros e e' Hu; cbn [fold_left] in Hu.
  - inversion Hu; subst. split; [apply eff_id|intros x; reflexivity].
  - destruct (e_unblock e t) as [e1|] eqn:H1; [|rewrite unblock_all_none in Hu; discriminate].
    destruct (e_unblock_spec _ _ _ H1) as ((Hm1 & Hs1) & Hc1).
    destruct (IH _ _ Hu) as ((Hm2 & Hs2) & Hc2).
    split; [split|].
    + congruence.
    + intros x. rewrite Hs2. cbn [upd_all].
      assert (Hext : forall l b b', (forall z, b z = b' z) -> forall z, upd_all b l Runnable z = upd_all b' l Runnable z).
      { clear. induction l as [|q l IH]; intros b b' Hb z; cbn [upd_all]; [apply Hb|].
        apply IH. intros w; unfold upd; destruct (Nat.eqb w q); auto. }
      apply Hext. exact Hs1.
    + intros x; rewrite Hc2, Hc1; reflexivity.
Qed.

Lemma unblock_all_ok : forall l e,
  (forall t, In t l -> exists s, sts e t = Some s /\ s <> Finished) ->
  exists e', unblock_all e l = Some e'.
Proof.
  unfold unblock_all. induction l as [|t r IH]; intros e Hall; cbn [fold_left]; [eauto|].
  destruct (Hall t (or_introl eq_refl)) as (s & Hs & Hne).
  destruct (e_unblock_ok e t s Hs Hne) as (e1 & He1). rewrite He1.
  apply IH. intros t' Hin. destruct (e_unblock_spec _ _ _ He1) as ((_ & Hs1) & _).
  rewrite Hs1. unfold upd. destruct (Nat.eqb t' t).
  - exists Runnable; split; [reflexivity|discriminate].
  - apply Hall; right; assumption.
Qed.
