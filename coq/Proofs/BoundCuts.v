(* C13: the step bound only ever cuts executions short.  The run under a bound n either is
   identical to the run without a bound, or it was ended by the bound: it ends in OStepBound
   (FailAfter), OStopped (ContinueAfter) or with the model's fuel exhausted, in a state whose step
   counter is exactly n.  No Admitted / Axiom. *)
From Coq Require Import List NArith Bool Arith Lia.
From SV Require Import Clock.VClock Prim.Objects Engine.Exec Engine.Inv Sched.Replay Engine.Stmt
  Proofs.EngineBase Proofs.SchedSpec Proofs.EngineInv Proofs.EngineRun Proofs.BoundProofs Proofs.BoundTotal.
Import ListNotations.

Definition stmt_bound_only_cuts : Prop :=
  forall SS (sch : scheduler SS) ms n fuel main objs st w1 st1 out1 w2 st2 out2,
    Run sch MSNone fuel main objs st w1 st1 out1 ->
    run_exec sch ms fuel main objs st = (w2, st2, out2) ->
    bound_of ms = Some n ->
    (w2, st2, out2) = (w1, st1, out1)
    \/ (measure (w_e w2) = n /\ (out2 = OStepBound \/ out2 = OStopped \/ out2 = OFuel)).

Section Cuts.
Context {SS : Type} (sch : scheduler SS) (ms : max_steps) (n : nat) (Hbn : bound_of ms = Some n).

(* the bound has been reached and the next call of `schedule` will notice (or already has) *)
Definition cut_state (e : exec) : Prop := n <= measure e /\ (next e = SNone \/ next e = SStopped).

Definition cut_res (r : world * SS * outcome) : Prop :=
  n <= measure (w_e (fst (fst r))) /\ (snd r = OStepBound \/ snd r = OStopped \/ snd r = OFuel).

Lemma cut_loop : forall fuel w st, cut_state (w_e w) -> cut_res (run_loop sch ms fuel w st).
Proof.
  intros fuel w st [Hm Hc]. destruct fuel as [|fuel]; cbn [run_loop].
  - split; cbn; auto.
  - destruct Hc as [Hn|Hn].
    + destruct (schedule sch ms (w_e w) st) as [[[err e1] st1] evs] eqn:Hs.
      apply schedule_spec in Hs.
      destruct Hs as [Hn' | m Hn' Hms Hm' | m Hn' Hms Hm' | Hn' Hb Hf | ch st2 err2 e2 Hn' Hb Hf Hc R].
      * congruence.
      * split; cbn; auto.
      * cbv zeta. rewrite advance_current. cbn [next with_current_next].
        split; cbn [fst snd w_e]; auto.
      * specialize (Hb n Hbn). lia.
      * specialize (Hb n Hbn). lia.
    + rewrite schedule_noop by (rewrite Hn; discriminate). cbv zeta. rewrite advance_current, Hn.
      split; cbn [fst snd w_e]; auto.
      rewrite measure_advance_nontask; [exact Hm|]. intros t; rewrite Hn; discriminate.
Qed.

(* thread::switch() when the bound has been reached: the task is suspended, the execution is cut *)
Lemma do_switch_cut : forall w st t, running (w_e w) (w_trace w) t -> n <= measure (w_e w) ->
  exists w2 st2, do_switch sch ms w st = SwYield w2 st2 /\ cut_state (w_e w2).
Proof.
  intros w st t (Rc & Rn & _) Hm. unfold do_switch. cbv zeta.
  destruct (panicking (w_e w) && negb (in_cleanup (w_e w))).
  { exists w, st. split; [reflexivity|]. split; auto. }
  destruct (schedule sch ms (w_e w) st) as [[[err e1] st1] evs] eqn:Hs.
  apply schedule_spec in Hs.
  destruct Hs as [Hn' | m Hn' Hms Hm' | m Hn' Hms Hm' | Hn' Hb Hf | ch st2 err2 e2 Hn' Hb Hf Hc R].
  - congruence.
  - eexists _, _. split; [reflexivity|]. split; cbn [w_e]; auto.
  - cbn [current next with_current_next]. rewrite Rc. cbn [sched_eqb].
    eexists _, _. split; [reflexivity|]. split; cbn [w_e next with_current_next]; auto.
  - specialize (Hb n Hbn). lia.
  - specialize (Hb n Hbn). lia.
Qed.

Theorem seg_cuts : forall c, code_ok c -> forall w st t,
  LInv sch MSNone w -> running (w_e w) (w_trace w) t ->
  run_seg sch ms c w st = run_seg sch MSNone c w st
  \/ exists w2 st2 k, run_seg sch ms c w st = (w2, st2, SegYield k) /\ cut_state (w_e w2).
Proof.
  induction 1 as [ | | f k Hf Hk IH | k Hk IH | k Hk IH | child k Hc Hk IHc IH | tag vals k Hk IH];
    intros w st t L R; cbn [run_seg].
  - left; reflexivity.
  - left; reflexivity.
  - destruct (f (w_e w) (w_s w)) as [[[e1 s1] a]|] eqn:Ef; [|left; reflexivity].
    pose proof (Hf _ _ _ _ _ (wf_reset _ (li_wf _ _ _ _ _ L)) Ef) as F.
    destruct (rinv_atomic sch MSNone _ _ _ _ _ L R F) as [L1 R1].
    apply (IH a _ _ t); cbn [w_e w_conts w_trace]; assumption.
  - (* Switch *)
    destruct (Nat.lt_ge_cases (measure (w_e w)) n) as [Hlt|Hge].
    + rewrite (do_switch_agree sch ms n Hbn w st Hlt).
      pose proof (do_switch_inv sch MSNone w st t L R) as DS.
      destruct (do_switch sch MSNone w st) as [w' st'|w' st'|w' st']; [|left; reflexivity|left; reflexivity].
      destruct DS as (L1 & R1 & _). apply (IH _ _ t); assumption.
    + destruct (do_switch_cut w st t R Hge) as (w2 & st2 & Hd & Hcut). rewrite Hd.
      right. eauto.
  - (* Rand *)
    cbv zeta. change (bound_exhausted MSNone (w_e w)) with false. cbv iota.
    destruct (Nat.lt_ge_cases (measure (w_e w)) n) as [Hlt|Hge].
    + rewrite (bound_exhausted_below ms n Hbn _ Hlt).
      destruct (rinv_record sch MSNone _ _ _ _ StRandom L R) as [L1 R1].
      destruct (s_next_u64 sch st) as [[v|] st1]; [|left; reflexivity].
      destruct (rinv_evrandom sch MSNone _ _ _ _ v L1 R1) as [L2 R2].
      apply (IH v _ _ t); cbn [w_e w_conts w_trace]; assumption.
    + rewrite (proj2 (exhausted_iff ms n Hbn _) Hge).
      destruct (do_switch_cut w st t R Hge) as (w2 & st2 & Hd & Hcut). rewrite Hd.
      right. eauto.
  - (* SpawnNow *)
    destruct (spawn_thread_now (w_e w)) as [[e1 tid]|] eqn:Esp; [|left; reflexivity].
    destruct (rinv_spawn sch MSNone _ _ _ _ _ _ _ L R Esp Hc) as [L1 R1].
    apply (IH tid _ _ t); cbn [w_e w_conts w_trace]; assumption.
  - (* Log *)
    unfold me. rewrite (proj1 R). cbn [sched_id].
    match goal with |- context [EvOp t tag vals ?clk :: _] =>
      destruct (rinv_log sch MSNone _ _ _ _ tag vals clk L R) as [L1 R1] end.
    apply (IH _ _ t); cbn [w_e w_conts w_trace]; assumption.
Qed.

Theorem loop_cuts : forall fuel w0 st, LInv sch MSNone w0 ->
  run_loop sch ms fuel w0 st = run_loop sch MSNone fuel w0 st \/ cut_res (run_loop sch ms fuel w0 st).
Proof.
  induction fuel as [|fuel IH]; intros w0 st L; [left; reflexivity|].
  assert (D : cut_state (w_e w0) \/ (next (w_e w0) = SNone -> measure (w_e w0) < n)).
  { destruct (Nat.lt_ge_cases (measure (w_e w0)) n) as [Hlt|Hge]; [right; auto|].
    destruct (next (w_e w0)) eqn:Hn0.
    - left; split; auto.
    - right; discriminate.
    - left; split; auto.
    - right; discriminate. }
  destruct D as [Hcut|Hm]; [right; apply cut_loop; exact Hcut|].
  cbn [run_loop]. rewrite (schedule_agree sch ms n Hbn _ _ Hm).
  destruct (schedule sch MSNone (w_e w0) st) as [[[err e1] st1] evs] eqn:Hs.
  pose proof (schedule_spec _ _ _ _ _ _ _ _ Hs) as Sp.
  destruct (sched_linv sch MSNone _ _ _ _ _ _ _ _ L Sp) as (L1 & _ & _ & _ & Hnn & _).
  destruct err as [[|]|]; [left; reflexivity|left; reflexivity|].
  specialize (L1 ltac:(discriminate)). cbv zeta. rewrite advance_current. cbn [w_conts w_e w_s w_trace].
  destruct (next e1) as [|t| |] eqn:Hn1; [left; reflexivity| |left; reflexivity|left; reflexivity].
  destruct (advance_rinv sch MSNone _ _ _ _ L1 Hn1) as [L2 R2].
  destruct (nth_error (w_conts w0) t) as [[c|]|] eqn:Hc; [|left; reflexivity|left; reflexivity].
  pose proof (li_conts _ _ _ _ _ L2) as (_ & C2 & _). pose proof (C2 _ _ Hc) as Hok.
  destruct (seg_cuts c Hok (mkWorld (advance e1) (w_s w0) (w_conts w0) (evs ++ w_trace w0)) st1 t L2 R2)
    as [Heq|(w2 & st2 & k & Heq & Hcut)]; rewrite Heq.
  2:{ right. apply cut_loop. cbn [w_e]. exact Hcut. }
  destruct (run_seg sch MSNone c (mkWorld (advance e1) (w_s w0) (w_conts w0) (evs ++ w_trace w0)) st1)
    as [[w2 st2] r] eqn:Hseg.
  destruct (run_seg_inv sch MSNone c Hok (mkWorld (advance e1) (w_s w0) (w_conts w0) (evs ++ w_trace w0))
              _ _ _ _ t L2 R2 Hseg) as (Hc3 & _ & Hr).
  destruct r as [k| |]; [| |left; reflexivity].
  - destruct Hr as [L3 Hk]. apply IH. unfold LInv; cbn [w_e w_conts w_trace]. apply linv_set_cont; assumption.
  - destruct Hr as [L3 R3]. destruct (rinv_finish sch MSNone _ _ _ _ L3 R3) as (e3 & Hfin & L4).
    rewrite Hfin. apply IH. exact L4.
Qed.

End Cuts.

Theorem bound_only_cuts_proof : stmt_bound_only_cuts.
Proof.
  intros SS sch ms n fuel main objs st w1 st1 out1 w2 st2 out2 [Hm H1] H2 Hb.
  unfold run_exec in *.
  destruct (loop_cuts sch ms n Hb fuel (init_world main objs) st (init_LInv _ sch MSNone _ _ Hm)) as [E|[Hc Ho]].
  - left. rewrite <- H2, <- H1. exact E.
  - right. rewrite H2 in Hc, Ho. cbn [fst snd] in Hc, Ho. split; [|exact Ho].
    pose proof (bound_total_proof _ sch ms fuel main objs st w2 st2 out2 n (conj Hm H2) Hb). lia.
Qed.
