(* C19: block-level facts about the watch model of Lang/TokWatch.v (the functions run inside one atomic block), and
   their relation to the protocol machine of Lang/TokWatchSpec.v. *)
From Coq Require Import List NArith Bool Arith Lia ZifyN.
From SV Require Import Prim.Objects Engine.Exec Lang.Code Lang.TokWatch Lang.TokWatchSpec.
Import ListNotations.
Local Open Scope N_scope.

Lemma b2n_eqb1 : forall b, N.eqb (b2n b) 1 = b.
Proof. destruct b; reflexivity. Qed.

(* the cell codec loses nothing (two Sender slots, three Receiver slots) *)
Lemma watch_codec : forall x, length (wt_tx x) = 2%nat -> length (wt_rx x) = 3%nat -> watch_dec (watch_enc x) = Some x.
Proof.
  intros [v s rc tc tx rx] Ht Hr; simpl in *.
  destruct tx as [|t0 [|t1 [|? ?]]]; try discriminate.
  destruct rx as [|[a0 v0] [|[a1 v1] [|[a2 v2] [|? ?]]]]; try discriminate.
  unfold watch_enc, watch_dec; simpl. rewrite !b2n_eqb1. reflexivity.
Qed.

(* the state word: version in the even part, CLOSED in bit 0 *)
Lemma st_version_open : forall n, st_version (2 * n) = 2 * n.
Proof. intros. unfold st_version. replace ((2 * n) mod 2) with 0; [lia|]. symmetry. rewrite N.mul_comm. apply N.mod_mul. lia. Qed.
Lemma st_version_closed : forall n, st_version (2 * n + 1) = 2 * n.
Proof.
  intros. unfold st_version. replace ((2 * n + 1) mod 2) with 1; [lia|].
  symmetry. rewrite N.add_comm, N.mul_comm. rewrite N.mod_add by lia. reflexivity.
Qed.
Lemma st_closed_open : forall n, st_closed (2 * n) = false.
Proof. intros. unfold st_closed. replace ((2 * n) mod 2) with 0; [reflexivity|]. symmetry. rewrite N.mul_comm. apply N.mod_mul. lia. Qed.
Lemma st_closed_closed : forall n, st_closed (2 * n + 1) = true.
Proof.
  intros. unfold st_closed. replace ((2 * n + 1) mod 2) with 1; [reflexivity|].
  symmetry. rewrite N.add_comm, N.mul_comm. rewrite N.mod_add by lia. reflexivity.
Qed.

(* increment_version (fetch_add 2) keeps the CLOSED bit and advances the version by one step; set_closed keeps the version *)
Lemma incr_version_open : forall n, st_version (2 * n + 2) = 2 * (n + 1) /\ st_closed (2 * n + 2) = false.
Proof. intros. replace (2 * n + 2) with (2 * (n + 1)) by lia. split; [apply st_version_open|apply st_closed_open]. Qed.

(* maybe_changed, completely: Ok(()) exactly when the receiver's version differs (and then it is updated to the channel's),
   Err exactly when it is equal and the channel is closed, None otherwise; nothing else in the cell changes *)
Lemma maybe_changed_spec : forall x slot,
  let nv := st_version (wt_state x) in
  (wt_ver x slot <> nv -> maybe_changed x slot = (wt_set_ver x slot nv, [0])) /\
  (wt_ver x slot = nv -> st_closed (wt_state x) = true -> maybe_changed x slot = (x, [1])) /\
  (wt_ver x slot = nv -> st_closed (wt_state x) = false -> maybe_changed x slot = (x, [2])).
Proof.
  intros x slot nv. unfold maybe_changed. fold nv. repeat split.
  - intros H. apply N.eqb_neq in H. rewrite H. reflexivity.
  - intros H C. apply N.eqb_eq in H. rewrite H, C. reflexivity.
  - intros H C. apply N.eqb_eq in H. rewrite H, C. reflexivity.
Qed.

(* the answer of maybe_changed is the branch taken by the protocol machine's WCheck on the abstraction
   (version word / 2, receiver version / 2, CLOSED bit) *)
Definition abs_ver (x : watch) : nat := N.to_nat (wt_state x / 2).
Definition abs_seen (x : watch) (slot : nat) : nat := N.to_nat (wt_ver x slot / 2).

Lemma maybe_changed_refines : forall x slot,
  (wt_ver x slot) mod 2 = 0 ->
  snd (maybe_changed x slot) =
    if negb (Nat.eqb (abs_seen x slot) (abs_ver x)) then [0]
    else if st_closed (wt_state x) then [1] else [2].
Proof.
  intros x slot Hev. unfold maybe_changed, abs_seen, abs_ver, st_version.
  set (v := wt_ver x slot) in *. set (s := wt_state x) in *.
  assert (Hs : s = 2 * (s / 2) + s mod 2) by (apply N.div_mod; lia).
  assert (Hv : v = 2 * (v / 2)) by (rewrite (N.div_mod v 2) at 1 by lia; lia).
  assert (Hm : s mod 2 < 2) by (apply N.mod_lt; lia).
  destruct (N.eqb v (s - s mod 2)) eqn:E1.
  - apply N.eqb_eq in E1. assert (v / 2 = s / 2) by lia.
    replace (Nat.eqb (N.to_nat (v / 2)) (N.to_nat (s / 2))) with true by (symmetry; apply Nat.eqb_eq; congruence).
    simpl. destruct (st_closed s); reflexivity.
  - apply N.eqb_neq in E1. assert (v / 2 <> s / 2) by lia.
    replace (Nat.eqb (N.to_nat (v / 2)) (N.to_nat (s / 2))) with false by (symmetry; apply Nat.eqb_neq; lia).
    reflexivity.
Qed.

(* ---------------- the blocks that change the cell, against the protocol machine's steps ---------------- *)
Definition abs_closed (x : watch) : bool := st_closed (wt_state x).

Lemma div2_add2 : forall s, (s + 2) / 2 = s / 2 + 1.
Proof. intros. replace (s + 2) with (s + 1 * 2) by lia. rewrite N.div_add by lia. reflexivity. Qed.

Lemma mod2_add2 : forall s, (s + 2) mod 2 = s mod 2.
Proof. intros. replace (s + 2) with (s + 1 * 2) by lia. apply N.mod_add. lia. Qed.

(* WCommit: the version advances by exactly one step, the value is the one sent, the CLOSED bit, the counts, the
   endpoint table and every receiver's version are untouched; the block returns the previous value *)
Lemma commit_fun_refines : forall v x,
  let x' := fst (commit_fun v x) in
  abs_ver x' = S (abs_ver x) /\ wt_value x' = v /\ abs_closed x' = abs_closed x /\
  wt_rx x' = wt_rx x /\ wt_tx x' = wt_tx x /\ wt_rxc x' = wt_rxc x /\ wt_txc x' = wt_txc x /\
  snd (commit_fun v x) = [wt_value x].
Proof.
  intros v x. unfold commit_fun, abs_ver, abs_closed, st_closed. cbn [fst snd wt_set_state wt_set_value wt_state wt_value wt_rx wt_tx wt_rxc wt_txc].
  rewrite div2_add2, mod2_add2. repeat split; try reflexivity. lia.
Qed.

(* so a receiver that was up to date is behind after a commit, and has_changed / maybe_changed will say so *)
Lemma commit_fun_makes_stale : forall v x slot,
  abs_seen x slot = abs_ver x -> abs_seen (fst (commit_fun v x)) slot <> abs_ver (fst (commit_fun v x)).
Proof.
  intros v x slot H. destruct (commit_fun_refines v x) as (Hv & _ & _ & Hrx & _).
  unfold abs_seen, wt_ver in *. rewrite Hrx, Hv. fold (wt_ver x slot). unfold wt_ver. lia.
Qed.

(* WDropTx: only the last sender's drop sets CLOSED, and it never moves the version *)
Lemma drop_tx_fun_refines : forall slot x,
  let x' := fst (drop_tx_fun slot x) in
  abs_ver x' = abs_ver x /\ wt_value x' = wt_value x /\ wt_rx x' = wt_rx x /\
  (wt_txc x = 1 -> abs_closed x' = true /\ snd (drop_tx_fun slot x) = [1]) /\
  (wt_txc x <> 1 -> abs_closed x' = abs_closed x /\ snd (drop_tx_fun slot x) = [0]).
Proof.
  intros slot [v st rc tc tx rx]. unfold drop_tx_fun, abs_ver, abs_closed, st_closed.
  cbn [wt_txc wt_state wt_value wt_rx wt_rxc wt_tx wt_set_tx wt_set_txc].
  assert (Hs : st = 2 * (st / 2) + st mod 2) by (apply N.div_mod; lia).
  assert (Hm : st mod 2 < 2) by (apply N.mod_lt; lia).
  destruct (N.eqb tc 1) eqn:E.
  - apply N.eqb_eq in E. destruct (N.eqb (st mod 2) 1) eqn:C; cbn [fst snd wt_set_state wt_state wt_value wt_rx].
    + split; [reflexivity|]. split; [reflexivity|]. split; [reflexivity|]. split.
      * intros _. split; [exact C|reflexivity].
      * intros H. congruence.
    + apply N.eqb_neq in C.
      assert (Hz : st mod 2 = 0) by lia. rewrite Hz in Hs.
      assert (Hd : (st + 1) / 2 = st / 2).
      { symmetry. apply (N.div_unique (st + 1) 2 (st / 2) 1); [lia|]. rewrite Hs at 1. lia. }
      assert (Hc : (st + 1) mod 2 = 1).
      { symmetry. apply (N.mod_unique (st + 1) 2 (st / 2) 1); [lia|]. rewrite Hs at 1. lia. }
      split; [rewrite Hd; reflexivity|]. split; [reflexivity|]. split; [reflexivity|]. split.
      * intros _. split; [rewrite Hc; reflexivity|reflexivity].
      * intros H. congruence.
  - apply N.eqb_neq in E. cbn [fst snd wt_state wt_value wt_rx].
    split; [reflexivity|]. split; [reflexivity|]. split; [reflexivity|]. split.
    + intros H. congruence.
    + intros _. split; reflexivity.
Qed.

(* subscribe: the new receiver has seen the current version (it is told only of later changes) *)
Lemma subscribe_fun_refines : forall rslot x, (rslot < length (wt_rx x))%nat ->
  let x' := fst (subscribe_fun rslot x) in
  abs_seen x' rslot = abs_ver x' /\ abs_ver x' = abs_ver x /\ wt_value x' = wt_value x /\ wt_rxc x' = wt_rxc x + 1.
Proof.
  intros rslot x Hl. unfold subscribe_fun, abs_seen, abs_ver, wt_ver.
  cbn [fst wt_set_rx wt_set_rxc wt_state wt_value wt_rx wt_rxc].
  assert (Hn : nth rslot (list_upd (wt_rx x) rslot (fun _ => (true, st_version (wt_state x)))) (false, 0) = (true, st_version (wt_state x))).
  { revert rslot Hl. generalize (wt_rx x). induction l as [|a l IH]; intros r Hr; simpl in Hr; [lia|].
    destruct r; simpl; [reflexivity|]. apply IH. lia. }
  rewrite Hn. cbn [snd]. unfold st_version.
  assert (Hs : wt_state x = 2 * (wt_state x / 2) + wt_state x mod 2) by (apply N.div_mod; lia).
  assert (Hm : wt_state x mod 2 < 2) by (apply N.mod_lt; lia).
  repeat split; try reflexivity.
  f_equal. symmetry. apply N.div_unique with (r := 0); lia.
Qed.
