(* Basic facts about the engine model: list_upd / upd_task, the frame condition `same_frame`
   (reflexive, transitive, respected by every Task/ExecutionState method that library code calls),
   and preservation of well-formedness.  No Admitted / Axiom. *)
From Coq Require Import List NArith Bool Arith Lia.
From SV Require Import Clock.VClock Prim.Objects Engine.Exec Engine.Inv.
Import ListNotations.

(* ------------------------------------------------------------------ *)
(* list_upd                                                            *)
(* ------------------------------------------------------------------ *)
Lemma list_upd_length : forall A (l : list A) i f, length (list_upd l i f) = length l.
Proof.
  induction l as [|x r IH]; intros [|i] f; cbn [list_upd length]; auto.
Qed.

Lemma nth_error_list_upd_eq : forall A (l : list A) i f x,
  nth_error l i = Some x -> nth_error (list_upd l i f) i = Some (f x).
Proof.
  induction l as [|y r IH]; intros [|i] f x H; cbn [list_upd nth_error] in *; try discriminate.
  - inversion H; reflexivity.
  - apply IH; exact H.
Qed.

Lemma nth_error_list_upd_neq : forall A (l : list A) i j f,
  i <> j -> nth_error (list_upd l i f) j = nth_error l j.
Proof.
  induction l as [|y r IH]; intros [|i] [|j] f H; cbn [list_upd nth_error]; try reflexivity; try congruence.
  apply IH; congruence.
Qed.

Lemma nth_error_list_upd_some : forall A (l : list A) i j f x,
  nth_error (list_upd l i f) j = Some x ->
  exists y, nth_error l j = Some y /\ (x = y \/ (i = j /\ x = f y)).
Proof.
  intros A l i j f x H.
  destruct (Nat.eq_dec i j) as [E|N].
  - subst j. destruct (nth_error l i) as [y|] eqn:Hy.
    + rewrite (nth_error_list_upd_eq _ _ _ _ _ Hy) in H. inversion H; subst.
      exists y; split; auto.
    + exfalso. assert (Hl : nth_error (list_upd l i f) i <> None) by congruence.
      apply nth_error_Some in Hl. rewrite list_upd_length in Hl.
      apply nth_error_None in Hy. lia.
  - rewrite nth_error_list_upd_neq in H by exact N. exists x; split; auto.
Qed.

(* ------------------------------------------------------------------ *)
(* get_task / upd_task                                                 *)
(* ------------------------------------------------------------------ *)
Lemma get_task_tasks : forall e e' t, tasks e' = tasks e -> get_task e' t = get_task e t.
Proof. intros e e' t H; unfold get_task; rewrite H; reflexivity. Qed.

Lemma get_task_lt : forall e t tk, get_task e t = Some tk -> t < length (tasks e).
Proof. intros e t tk H; unfold get_task in H. apply nth_error_Some; congruence. Qed.

Lemma get_task_some : forall e t, t < length (tasks e) -> exists tk, get_task e t = Some tk.
Proof.
  intros e t H; unfold get_task. destruct (nth_error (tasks e) t) as [tk|] eqn:E.
  - eauto.
  - apply nth_error_None in E; lia.
Qed.

Lemma upd_task_inv : forall e t f e', upd_task e t f = Some e' ->
  exists tk, get_task e t = Some tk /\ e' = with_tasks e (list_upd (tasks e) t f).
Proof.
  intros e t f e' H; unfold upd_task in H. destruct (get_task e t) as [tk|] eqn:E; [|discriminate].
  inversion H; eauto.
Qed.

Lemma upd_task_some : forall e t f tk, get_task e t = Some tk ->
  upd_task e t f = Some (with_tasks e (list_upd (tasks e) t f)).
Proof. intros e t f tk H; unfold upd_task; rewrite H; reflexivity. Qed.

Lemma get_task_upd_eq : forall e t f tk,
  get_task e t = Some tk -> get_task (with_tasks e (list_upd (tasks e) t f)) t = Some (f tk).
Proof. intros e t f tk H; unfold get_task in *; cbn [with_tasks tasks]. apply nth_error_list_upd_eq; exact H. Qed.

Lemma get_task_upd_neq : forall e t t' f,
  t <> t' -> get_task (with_tasks e (list_upd (tasks e) t f)) t' = get_task e t'.
Proof. intros e t t' f H; unfold get_task; cbn [with_tasks tasks]. apply nth_error_list_upd_neq; exact H. Qed.

(* ------------------------------------------------------------------ *)
(* same_frame                                                          *)
(* ------------------------------------------------------------------ *)
Definition rok (e : exec) : Prop := steps_reset_at e <= length (recorded e).

Lemma same_frame_refl : forall e, rok e -> same_frame e e.
Proof.
  intros e H; unfold same_frame.
  split; [reflexivity|]. split; [reflexivity|]. split; [reflexivity|]. split; [reflexivity|].
  split; [reflexivity|]. split; [auto|]. split; [reflexivity|]. split; [reflexivity|].
  split; [intros t tk tk' H1 H2; congruence|]. split; [exact H|apply le_n].
Qed.

Lemma same_frame_rok : forall e e', same_frame e e' -> rok e'.
Proof. intros e e' H; unfold same_frame in H; unfold rok; tauto. Qed.

Lemma same_frame_trans : forall e1 e2 e3, same_frame e1 e2 -> same_frame e2 e3 -> same_frame e1 e3.
Proof.
  intros e1 e2 e3 H12 H23.
  destruct H12 as (A1 & A2 & A3 & A4 & A5 & A6 & A7 & A8 & A9 & A10 & A11).
  destruct H23 as (B1 & B2 & B3 & B4 & B5 & B6 & B7 & B8 & B9 & B10 & B11).
  unfold same_frame.
  split; [congruence|]. split; [congruence|]. split; [congruence|]. split; [congruence|].
  split; [congruence|]. split; [auto|]. split; [congruence|]. split; [congruence|].
  split; [|split; [exact B10|lia]].
  intros t tk tk3 H1 H3.
  destruct (get_task_some e2 t) as [tk2 H2].
  { rewrite A8. eapply get_task_lt; eauto. }
  rewrite (B9 t tk2 tk3 H2 H3). apply (A9 t tk tk2 H1 H2).
Qed.

(* an update of one task that keeps its finished-ness *)
Lemma upd_task_frame : forall e t f e',
  (forall tk, get_task e t = Some tk -> is_finished (f tk) = is_finished tk) ->
  rok e -> upd_task e t f = Some e' -> same_frame e e'.
Proof.
  intros e t f e' Hf Hr H. apply upd_task_inv in H. destruct H as (tk & Hg & ->).
  unfold same_frame; cbn [with_tasks current next recorded ctx_switches live panicking in_cleanup tasks steps_reset_at].
  repeat split; auto.
  - apply list_upd_length.
  - intros t0 tk0 tk0' H0 H0'.
    destruct (Nat.eq_dec t t0) as [E|N].
    + subst t0. rewrite (get_task_upd_eq _ _ _ _ H0) in H0'. inversion H0'; subst. apply Hf; exact H0.
    + rewrite get_task_upd_neq in H0' by exact N. congruence.
Qed.

Lemma same_frame_with_yielded : forall e b, rok e -> same_frame e (with_yielded e b).
Proof.
  intros e b H; unfold same_frame; cbn; repeat split; auto. intros t tk tk' H1 H2.
  rewrite (get_task_tasks e (with_yielded e b)) in H2 by reflexivity. congruence.
Qed.

(* ---- the methods ---- *)
Lemma e_block_frame : forall e t spur e', rok e -> e_block e t spur = Some e' -> same_frame e e'.
Proof.
  intros e t spur e' Hr H; unfold e_block in H.
  destruct (get_task e t) as [tk|] eqn:Hg; [|discriminate].
  destruct (is_finished tk) eqn:Hf; [discriminate|].
  eapply upd_task_frame; [|exact Hr|exact H].
  intros tk0 H0. rewrite Hg in H0; inversion H0; subst. rewrite Hf; reflexivity.
Qed.

Lemma e_sleep_frame : forall e t e', rok e -> e_sleep e t = Some e' -> same_frame e e'.
Proof.
  intros e t e' Hr H; unfold e_sleep in H.
  destruct (get_task e t) as [tk|] eqn:Hg; [|discriminate].
  destruct (is_finished tk) eqn:Hf; [discriminate|].
  eapply upd_task_frame; [|exact Hr|exact H].
  intros tk0 H0. rewrite Hg in H0; inversion H0; subst. rewrite Hf; reflexivity.
Qed.

Lemma e_unblock_frame : forall e t e', rok e -> e_unblock e t = Some e' -> same_frame e e'.
Proof.
  intros e t e' Hr H; unfold e_unblock in H.
  destruct (get_task e t) as [tk|] eqn:Hg; [|discriminate].
  destruct (is_finished tk) eqn:Hf; [discriminate|].
  eapply upd_task_frame; [|exact Hr|exact H].
  intros tk0 H0. rewrite Hg in H0; inversion H0; subst. rewrite Hf; reflexivity.
Qed.

Lemma wake_task_finished : forall tk, is_finished (wake_task tk) = is_finished tk.
Proof.
  intros tk; unfold wake_task, is_sleeping, is_finished, unblock_task.
  destruct (t_state tk) eqn:E; cbn; rewrite ?E; reflexivity.
Qed.

Lemma e_waker_wake_frame : forall e t e', rok e -> e_waker_wake e t = Some e' -> same_frame e e'.
Proof.
  intros e t e' Hr H; unfold e_waker_wake in H.
  destruct (exec_is_finished e). { inversion H; subst; apply same_frame_refl; exact Hr. }
  destruct (get_task e t) as [tk|] eqn:Hg; [|discriminate].
  destruct (is_finished tk) eqn:Hf. { inversion H; subst; apply same_frame_refl; exact Hr. }
  eapply upd_task_frame; [|exact Hr|exact H].
  intros tk0 _. apply wake_task_finished.
Qed.

Lemma e_abort_frame : forall e t e', rok e -> e_abort e t = Some e' -> same_frame e e'.
Proof.
  intros e t e' Hr H; unfold e_abort in H.
  destruct (get_task e t) as [tk|] eqn:Hg; [|discriminate].
  destruct (is_finished tk) eqn:Hf. { inversion H; subst; apply same_frame_refl; exact Hr. }
  eapply upd_task_frame; [|exact Hr|exact H].
  intros tk0 _. apply wake_task_finished.
Qed.

Lemma e_set_waiter_frame : forall e t w e' b, rok e -> e_set_waiter e t w = Some (e', b) -> same_frame e e'.
Proof.
  intros e t w e' b Hr H; unfold e_set_waiter in H.
  destruct (get_task e t) as [tk|] eqn:Hg; [|discriminate].
  assert (Hupd : forall e1, upd_task e t (fun tk => set_waiter_f tk (Some w)) = Some e1 -> same_frame e e1).
  { intros e1 H1. eapply upd_task_frame; [|exact Hr|exact H1]. intros tk0 _; reflexivity. }
  destruct (t_waiter tk) as [w'|].
  - destruct (Nat.eqb w' w); [|discriminate].
    destruct (is_finished tk). { inversion H; subst; apply same_frame_refl; exact Hr. }
    destruct (upd_task e t (fun tk => set_waiter_f tk (Some w))) as [e1|] eqn:Hu; [|discriminate].
    inversion H; subst. apply Hupd; reflexivity.
  - destruct (is_finished tk). { inversion H; subst; apply same_frame_refl; exact Hr. }
    destruct (upd_task e t (fun tk => set_waiter_f tk (Some w))) as [e1|] eqn:Hu; [|discriminate].
    inversion H; subst. apply Hupd; reflexivity.
Qed.

Lemma e_take_waiter_frame : forall e t e' r, rok e -> e_take_waiter e t = Some (e', r) -> same_frame e e'.
Proof.
  intros e t e' r Hr H; unfold e_take_waiter in H.
  destruct (get_task e t) as [tk|] eqn:Hg; [|discriminate].
  destruct (upd_task e t (fun tk => set_waiter_f tk None)) as [e1|] eqn:Hu; [|discriminate].
  inversion H; subst. eapply upd_task_frame; [|exact Hr|exact Hu]. intros tk0 _; reflexivity.
Qed.

Lemma e_detach_frame : forall e t e', rok e -> e_detach e t = Some e' -> same_frame e e'.
Proof.
  intros e t e' Hr H; unfold e_detach in H.
  eapply upd_task_frame; [|exact Hr|exact H]. intros tk0 _; reflexivity.
Qed.

Lemma e_park_frame : forall e t e' b, rok e -> e_park e t = Some (e', b) -> same_frame e e'.
Proof.
  intros e t e' b Hr H; unfold e_park in H.
  destruct (get_task e t) as [tk|] eqn:Hg; [|discriminate].
  destruct (t_inpark tk); [discriminate|].
  destruct (is_blocked tk); [discriminate|].
  destruct (t_token tk).
  - destruct (upd_task e t (fun tk => set_park tk false (t_inpark tk))) as [e1|] eqn:Hu; [|discriminate].
    inversion H; subst. eapply upd_task_frame; [|exact Hr|exact Hu]. intros tk0 _; reflexivity.
  - destruct (is_finished tk) eqn:Hf; [discriminate|].
    destruct (upd_task e t (fun tk => set_state (set_park tk (t_token tk) true) (Blocked true))) as [e1|] eqn:Hu; [|discriminate].
    inversion H; subst. eapply upd_task_frame; [|exact Hr|exact Hu].
    intros tk0 H0. rewrite Hg in H0; inversion H0; subst. rewrite Hf; reflexivity.
Qed.

Lemma e_unpark_frame : forall e t e', rok e -> e_unpark e t = Some e' -> same_frame e e'.
Proof.
  intros e t e' Hr H; unfold e_unpark in H.
  destruct (get_task e t) as [tk|] eqn:Hg; [|discriminate].
  destruct (t_inpark tk).
  - destruct (negb (can_spur tk)); [discriminate|].
    destruct (t_token tk); [discriminate|].
    eapply e_unblock_frame; eauto.
  - eapply upd_task_frame; [|exact Hr|exact H]. intros tk0 _; reflexivity.
Qed.

Lemma e_request_yield_frame : forall e, rok e -> same_frame e (e_request_yield e).
Proof. intros e H; unfold e_request_yield; apply same_frame_with_yielded; exact H. Qed.

Lemma e_reset_step_count_frame : forall e, rok e -> same_frame e (e_reset_step_count e).
Proof.
  intros e Hr; unfold e_reset_step_count, same_frame; cbn; repeat split; auto.
  intros t tk tk' H1 H2.
  rewrite (get_task_tasks e (with_reset e (length (recorded e)))) in H2 by reflexivity. congruence.
Qed.

Lemma e_increment_clock_frame : forall e t e', rok e -> e_increment_clock e t = Some e' -> same_frame e e'.
Proof.
  intros e t e' Hr H; unfold e_increment_clock in H.
  destruct (get_task e t) as [tk|] eqn:Hg; [|discriminate].
  destruct (increment (t_clock tk) t) as [c|]; [|discriminate].
  eapply upd_task_frame; [|exact Hr|exact H]. intros tk0 _; reflexivity.
Qed.

Lemma e_join_clock_frame : forall e t c e', rok e -> e_join_clock e t c = Some e' -> same_frame e e'.
Proof.
  intros e t c e' Hr H; unfold e_join_clock in H.
  eapply upd_task_frame; [|exact Hr|exact H]. intros tk0 _; reflexivity.
Qed.

Lemma e_update_clock_frame : forall e t c e', rok e -> e_update_clock e t c = Some e' -> same_frame e e'.
Proof.
  intros e t c e' Hr H; unfold e_update_clock in H.
  destruct (e_increment_clock e t) as [e1|] eqn:H1; [|discriminate].
  pose proof (e_increment_clock_frame _ _ _ Hr H1) as F1.
  eapply same_frame_trans; [exact F1|].
  eapply e_join_clock_frame; [eapply same_frame_rok; exact F1|exact H].
Qed.

(* ------------------------------------------------------------------ *)
(* well-formedness                                                     *)
(* ------------------------------------------------------------------ *)
Lemma unfinished_tasks : forall e e' t, tasks e' = tasks e -> unfinished e' t = unfinished e t.
Proof. intros e e' t H; unfold unfinished; rewrite (get_task_tasks _ _ _ H); reflexivity. Qed.

(* changing only registers / counters *)
Lemma WF_regs : forall e e',
  WF e -> tasks e' = tasks e -> live e' = live e ->
  steps_reset_at e' <= length (recorded e') ->
  sched_in_range e' (current e') -> sched_in_range e' (next e') -> WF e'.
Proof.
  intros e e' W Ht Hl Hr Hc Hn. constructor; auto.
  rewrite Hl, Ht, (wf_live _ W). apply filter_ext. intros t; symmetry; apply unfinished_tasks; exact Ht.
Qed.

Lemma same_frame_unfinished : forall e e' t, same_frame e e' -> unfinished e' t = unfinished e t.
Proof.
  intros e e' t F. destruct F as (_ & _ & _ & _ & _ & _ & _ & A8 & A9 & _).
  unfold unfinished.
  destruct (get_task e t) as [tk|] eqn:H1.
  - destruct (get_task_some e' t) as [tk' H2]. { rewrite A8; eapply get_task_lt; eauto. }
    rewrite H2. rewrite (A9 _ _ _ H1 H2); reflexivity.
  - destruct (get_task e' t) as [tk'|] eqn:H2; [|reflexivity].
    apply get_task_lt in H2. rewrite A8 in H2.
    unfold get_task in H1; apply nth_error_None in H1. lia.
Qed.

Lemma same_frame_WF : forall e e', WF e -> same_frame e e' -> WF e'.
Proof.
  intros e e' W F. pose proof F as (A1 & A2 & A3 & A4 & A5 & A6 & A7 & A8 & A9 & A10).
  constructor.
  - rewrite A5, A8, (wf_live _ W). apply filter_ext. intros t; symmetry; apply same_frame_unfinished; exact F.
  - rewrite A1. pose proof (wf_current _ W) as H. unfold sched_in_range in *. destruct (current e); auto. rewrite A8; exact H.
  - rewrite A2. pose proof (wf_next _ W) as H. unfold sched_in_range in *. destruct (next e); auto. rewrite A8; exact H.
  - exact (proj1 A10).
Qed.

Lemma WF_rok : forall e, WF e -> rok e.
Proof. intros e W; exact (wf_reset _ W). Qed.

(* membership in live under WF *)
Lemma WF_live_in : forall e t, WF e -> (In t (live e) <-> unfinished e t = true).
Proof.
  intros e t W. rewrite (wf_live _ W), filter_In, in_seq. split.
  - tauto.
  - intros H; split; [|exact H]. unfold unfinished in H.
    destruct (get_task e t) as [tk|] eqn:E; [|discriminate]. apply get_task_lt in E; lia.
Qed.

(* ------------------------------------------------------------------ *)
(* e_sleep_unless_woken                                                *)
(* ------------------------------------------------------------------ *)
Lemma e_sleep_unless_woken_frame : forall e t e', rok e -> e_sleep_unless_woken e t = Some e' -> same_frame e e'.
Proof.
  intros e t e' Hr H; unfold e_sleep_unless_woken in H.
  destruct (get_task e t) as [tk|] eqn:Hg; [|discriminate].
  destruct (t_woken tk).
  - eapply upd_task_frame; [|exact Hr|exact H]. intros tk0 _; reflexivity.
  - destruct (is_finished tk) eqn:Hf; [discriminate|].
    eapply upd_task_frame; [|exact Hr|exact H].
    intros tk0 H0. rewrite Hg in H0; inversion H0; subst. rewrite Hf; reflexivity.
Qed.

(* ================================================================== *)
(* The strong frame: same_frame, and the reset point of the step       *)
(* counter never moves backwards.  Every block of library code         *)
(* satisfies it; it is what bounds the number of steps (C13).          *)
(* ================================================================== *)
Definition sframe (e e' : exec) : Prop := same_frame e e' /\ steps_reset_at e <= steps_reset_at e'.

Lemma sframe_same : forall e e', sframe e e' -> same_frame e e'.
Proof. intros e e' H; exact (proj1 H). Qed.
Lemma sframe_refl : forall e, rok e -> sframe e e.
Proof. intros e H; split; [apply same_frame_refl; exact H|lia]. Qed.
Lemma sframe_rok : forall e e', sframe e e' -> rok e'.
Proof. intros e e' H; eapply same_frame_rok; exact (proj1 H). Qed.
Lemma sframe_trans : forall e1 e2 e3, sframe e1 e2 -> sframe e2 e3 -> sframe e1 e3.
Proof. intros e1 e2 e3 [A1 A2] [B1 B2]. split; [eapply same_frame_trans; eauto|lia]. Qed.

Lemma upd_task_reset : forall e t f e', upd_task e t f = Some e' -> steps_reset_at e' = steps_reset_at e.
Proof. intros e t f e' H. apply upd_task_inv in H. destruct H as (tk & _ & ->). reflexivity. Qed.

Lemma upd_task_sframe : forall e t f e',
  (forall tk, get_task e t = Some tk -> is_finished (f tk) = is_finished tk) ->
  rok e -> upd_task e t f = Some e' -> sframe e e'.
Proof.
  intros e t f e' Hf Hr H. split; [eapply upd_task_frame; eauto|].
  rewrite (upd_task_reset _ _ _ _ H). lia.
Qed.

Lemma e_block_sframe : forall e t spur e', rok e -> e_block e t spur = Some e' -> sframe e e'.
Proof.
  intros e t spur e' Hr H; split; [eapply e_block_frame; eauto|]. unfold e_block in H.
  destruct (get_task e t) as [tk|]; [|discriminate]. destruct (is_finished tk); [discriminate|].
  rewrite (upd_task_reset _ _ _ _ H). lia.
Qed.
Lemma e_sleep_sframe : forall e t e', rok e -> e_sleep e t = Some e' -> sframe e e'.
Proof.
  intros e t e' Hr H; split; [eapply e_sleep_frame; eauto|]. unfold e_sleep in H.
  destruct (get_task e t) as [tk|]; [|discriminate]. destruct (is_finished tk); [discriminate|].
  rewrite (upd_task_reset _ _ _ _ H). lia.
Qed.
Lemma e_unblock_sframe : forall e t e', rok e -> e_unblock e t = Some e' -> sframe e e'.
Proof.
  intros e t e' Hr H; split; [eapply e_unblock_frame; eauto|]. unfold e_unblock in H.
  destruct (get_task e t) as [tk|]; [|discriminate]. destruct (is_finished tk); [discriminate|].
  rewrite (upd_task_reset _ _ _ _ H). lia.
Qed.
Lemma e_waker_wake_sframe : forall e t e', rok e -> e_waker_wake e t = Some e' -> sframe e e'.
Proof.
  intros e t e' Hr H; split; [eapply e_waker_wake_frame; eauto|]. unfold e_waker_wake in H.
  destruct (exec_is_finished e). { inversion H; subst; lia. }
  destruct (get_task e t) as [tk|]; [|discriminate]. destruct (is_finished tk). { inversion H; subst; lia. }
  rewrite (upd_task_reset _ _ _ _ H). lia.
Qed.
Lemma e_abort_sframe : forall e t e', rok e -> e_abort e t = Some e' -> sframe e e'.
Proof.
  intros e t e' Hr H; split; [eapply e_abort_frame; eauto|]. unfold e_abort in H.
  destruct (get_task e t) as [tk|]; [|discriminate]. destruct (is_finished tk). { inversion H; subst; lia. }
  rewrite (upd_task_reset _ _ _ _ H). lia.
Qed.
Lemma e_sleep_unless_woken_sframe : forall e t e', rok e -> e_sleep_unless_woken e t = Some e' -> sframe e e'.
Proof.
  intros e t e' Hr H; split; [eapply e_sleep_unless_woken_frame; eauto|]. unfold e_sleep_unless_woken in H.
  destruct (get_task e t) as [tk|]; [|discriminate]. destruct (t_woken tk).
  - rewrite (upd_task_reset _ _ _ _ H). lia.
  - destruct (is_finished tk); [discriminate|]. rewrite (upd_task_reset _ _ _ _ H). lia.
Qed.
Lemma e_set_waiter_sframe : forall e t w e' b, rok e -> e_set_waiter e t w = Some (e', b) -> sframe e e'.
Proof.
  intros e t w e' b Hr H; split; [eapply e_set_waiter_frame; eauto|]. unfold e_set_waiter in H.
  destruct (get_task e t) as [tk|]; [|discriminate].
  destruct (t_waiter tk) as [w'|].
  - destruct (Nat.eqb w' w); [|discriminate].
    destruct (is_finished tk). { inversion H; subst; lia. }
    destruct (upd_task e t (fun tk => set_waiter_f tk (Some w))) as [e1|] eqn:Hu; [|discriminate].
    inversion H; subst. rewrite (upd_task_reset _ _ _ _ Hu). lia.
  - destruct (is_finished tk). { inversion H; subst; lia. }
    destruct (upd_task e t (fun tk => set_waiter_f tk (Some w))) as [e1|] eqn:Hu; [|discriminate].
    inversion H; subst. rewrite (upd_task_reset _ _ _ _ Hu). lia.
Qed.
Lemma e_take_waiter_sframe : forall e t e' r, rok e -> e_take_waiter e t = Some (e', r) -> sframe e e'.
Proof.
  intros e t e' r Hr H; split; [eapply e_take_waiter_frame; eauto|]. unfold e_take_waiter in H.
  destruct (get_task e t) as [tk|]; [|discriminate].
  destruct (upd_task e t (fun tk => set_waiter_f tk None)) as [e1|] eqn:Hu; [|discriminate].
  inversion H; subst. rewrite (upd_task_reset _ _ _ _ Hu). lia.
Qed.
Lemma e_detach_sframe : forall e t e', rok e -> e_detach e t = Some e' -> sframe e e'.
Proof.
  intros e t e' Hr H; split; [eapply e_detach_frame; eauto|]. unfold e_detach in H.
  rewrite (upd_task_reset _ _ _ _ H). lia.
Qed.
Lemma e_park_sframe : forall e t e' b, rok e -> e_park e t = Some (e', b) -> sframe e e'.
Proof.
  intros e t e' b Hr H; split; [eapply e_park_frame; eauto|]. unfold e_park in H.
  destruct (get_task e t) as [tk|]; [|discriminate].
  destruct (t_inpark tk); [discriminate|]. destruct (is_blocked tk); [discriminate|].
  destruct (t_token tk).
  - destruct (upd_task e t (fun tk => set_park tk false (t_inpark tk))) as [e1|] eqn:Hu; [|discriminate].
    inversion H; subst. rewrite (upd_task_reset _ _ _ _ Hu). lia.
  - destruct (is_finished tk); [discriminate|].
    destruct (upd_task e t (fun tk => set_state (set_park tk (t_token tk) true) (Blocked true))) as [e1|] eqn:Hu; [|discriminate].
    inversion H; subst. rewrite (upd_task_reset _ _ _ _ Hu). lia.
Qed.
Lemma e_unpark_sframe : forall e t e', rok e -> e_unpark e t = Some e' -> sframe e e'.
Proof.
  intros e t e' Hr H; unfold e_unpark in H.
  destruct (get_task e t) as [tk|] eqn:Hg; [|discriminate].
  destruct (t_inpark tk).
  - destruct (negb (can_spur tk)); [discriminate|]. destruct (t_token tk); [discriminate|].
    eapply e_unblock_sframe; eauto.
  - eapply upd_task_sframe; [|exact Hr|exact H]. intros tk0 _; reflexivity.
Qed.
Lemma e_request_yield_sframe : forall e, rok e -> sframe e (e_request_yield e).
Proof. intros e H; split; [apply e_request_yield_frame; exact H|cbn; lia]. Qed.
Lemma e_reset_step_count_sframe : forall e, rok e -> sframe e (e_reset_step_count e).
Proof. intros e H; split; [apply e_reset_step_count_frame; exact H|exact H]. Qed.
Lemma e_increment_clock_sframe : forall e t e', rok e -> e_increment_clock e t = Some e' -> sframe e e'.
Proof.
  intros e t e' Hr H; split; [eapply e_increment_clock_frame; eauto|]. unfold e_increment_clock in H.
  destruct (get_task e t) as [tk|]; [|discriminate].
  destruct (increment (t_clock tk) t) as [c|]; [|discriminate].
  rewrite (upd_task_reset _ _ _ _ H). lia.
Qed.
Lemma e_join_clock_sframe : forall e t c e', rok e -> e_join_clock e t c = Some e' -> sframe e e'.
Proof.
  intros e t c e' Hr H; split; [eapply e_join_clock_frame; eauto|]. unfold e_join_clock in H.
  rewrite (upd_task_reset _ _ _ _ H). lia.
Qed.
Lemma e_update_clock_sframe : forall e t c e', rok e -> e_update_clock e t c = Some e' -> sframe e e'.
Proof.
  intros e t c e' Hr H; unfold e_update_clock in H.
  destruct (e_increment_clock e t) as [e1|] eqn:H1; [|discriminate].
  pose proof (e_increment_clock_sframe _ _ _ Hr H1) as F1.
  eapply sframe_trans; [exact F1|]. eapply e_join_clock_sframe; [eapply sframe_rok; exact F1|exact H].
Qed.

(* same_frame already contains the monotonicity of the reset point: the two frames coincide *)
Lemma same_sframe : forall e e', same_frame e e' -> sframe e e'.
Proof. intros e e' H. split; [exact H|]. unfold same_frame in H. tauto. Qed.

(* panic!() inside a block: `panicking` goes from false to true *)
Lemma panic_same_frame : forall e, rok e -> same_frame e (with_panicking e true).
Proof.
  intros e H. unfold same_frame. cbn [current next recorded ctx_switches live panicking in_cleanup tasks steps_reset_at with_panicking].
  split; [reflexivity|]. split; [reflexivity|]. split; [reflexivity|]. split; [reflexivity|].
  split; [reflexivity|]. split; [auto|]. split; [reflexivity|]. split; [reflexivity|].
  split; [|split; [exact H|apply le_n]].
  intros t tk tk' H1 H2. rewrite (get_task_tasks e (with_panicking e true)) in H2 by reflexivity. congruence.
Qed.

Lemma panic_sframe : forall e, rok e -> sframe e (with_panicking e true).
Proof. intros e H. apply same_sframe, panic_same_frame; exact H. Qed.

(* ================================================================== *)
(* code whose library blocks respect a given frame relation            *)
(* ================================================================== *)
Definition atomic_okP (F : exec -> exec -> Prop) (f : exec -> store -> option (exec * store * list N)) : Prop :=
  forall e s e' s' a, rok e -> f e s = Some (e', s', a) -> F e e'.

Inductive code_okP (F : exec -> exec -> Prop) : code -> Prop :=
| okP_ret : code_okP F Ret
| okP_panic : code_okP F Panic
| okP_atomic f k : atomic_okP F f -> (forall a, code_okP F (k a)) -> code_okP F (Atomic f k)
| okP_switch k : code_okP F k -> code_okP F (Switch k)
| okP_rand k : (forall v, code_okP F (k v)) -> code_okP F (Rand k)
| okP_spawn c k : code_okP F c -> (forall t, code_okP F (k t)) -> code_okP F (SpawnNow c k)
| okP_log tag vals k : code_okP F k -> code_okP F (Log tag vals k).

Lemma code_okP_mono : forall (F G : exec -> exec -> Prop), (forall e e', F e e' -> G e e') ->
  forall c, code_okP F c -> code_okP G c.
Proof.
  intros F G HFG c H. induction H; constructor; auto.
  intros e s e' s' a Hr Hf. apply HFG. eapply H; eauto.
Qed.

Lemma code_okP_code_ok : forall c, code_okP same_frame c -> code_ok c.
Proof.
  intros c H. induction H; constructor; auto.
Qed.

Lemma code_ok_code_okP : forall c, code_ok c -> code_okP same_frame c.
Proof.
  intros c H. induction H; constructor; auto.
Qed.

(* code whose library blocks respect the strong frame *)
Definition code_sok : code -> Prop := code_okP sframe.

Lemma code_sok_ok : forall c, code_sok c -> code_ok c.
Proof. intros c H. apply code_okP_code_ok. eapply code_okP_mono; [|exact H]. apply sframe_same. Qed.

Lemma code_ok_sok : forall c, code_ok c -> code_sok c.
Proof. intros c H. apply code_ok_code_okP in H. eapply code_okP_mono; [|exact H]. apply same_sframe. Qed.
