(* A relational characterisation of ExecutionState::schedule (pure unfolding, no invariants),
   and the facts about one call that hold in well-formed states.  No Admitted / Axiom. *)
From Coq Require Import List NArith Bool Arith Lia.
From SV Require Import Clock.VClock Prim.Objects Engine.Exec Engine.Inv Sched.Replay Engine.Stmt Proofs.EngineBase.
Import ListNotations.

(* the "execution is over" test of `schedule` *)
Definition fin_cond (e : exec) : bool :=
  negb (any_runnable e) || (negb (unfinished_attached e) && all_runnable_detached e).
Definition bump (e : exec) : exec := with_ctx e (S (ctx_switches e)).
(* the state in which the scheduler is consulted (the ghost `pre` of the decision) *)
Definition pre_of (e : exec) : exec := bump e.
(* the same state once the yield request has been consumed *)
Definition cons_of (e : exec) : exec := with_yielded (bump e) false.

Lemma measure_bump : forall e, measure (bump e) = measure e.
Proof. reflexivity. Qed.
Lemma measure_pre_of : forall e, measure (pre_of e) = measure e.
Proof. reflexivity. Qed.
Lemma measure_cons_of : forall e, measure (cons_of e) = measure e.
Proof. reflexivity. Qed.
Lemma fin_cond_tasks_live : forall e e', tasks e' = tasks e -> live e' = live e -> fin_cond e' = fin_cond e.
Proof.
  intros e e' Ht Hl. unfold fin_cond, any_runnable, unfinished_attached, all_runnable_detached, get_task.
  rewrite Ht, Hl. reflexivity.
Qed.
Lemma offered_of_tasks_live : forall e e', tasks e' = tasks e -> live e' = live e -> offered_of e' = offered_of e.
Proof. intros e e' Ht Hl. unfold offered_of, get_task. rewrite Ht, Hl. reflexivity. Qed.

Section Sched.
Context {SS : Type} (sch : scheduler SS) (ms : max_steps).

Definition below_bound (e : exec) : Prop := forall n, bound_of ms = Some n -> measure e < n.

(* what happens with the scheduler's answer; `pre` is the state in which it was consulted, yield request consumed *)
Inductive choice_res (pre : exec) : option nat -> option step_error -> exec -> Prop :=
| CR_none : choice_res pre None None (with_current_next pre (current pre) SStopped)
| CR_run t tk : get_task pre t = Some tk -> is_runnable tk = true ->
    choice_res pre (Some t) None (with_current_next pre (current pre) (SSome t))
| CR_spur t tk e1 : get_task pre t = Some tk -> is_runnable tk = false -> can_spur tk = true ->
    e_unblock pre t = Some e1 ->
    choice_res pre (Some t) None (with_current_next e1 (current e1) (SSome t))
| CR_bug t :
    (forall tk, get_task pre t = Some tk -> is_runnable tk = false /\ (can_spur tk = false \/ e_unblock pre t = None)) ->
    choice_res pre (Some t) (Some ErrSchedulerBug) pre.

Inductive sched_res (e : exec) (st : SS) : option step_error -> exec -> SS -> list event -> Prop :=
| SR_noop : next e <> SNone -> sched_res e st None e st []
| SR_fail n : next e = SNone -> ms = FailAfter n -> n <= measure e ->
    sched_res e st (Some ErrStepBound) (bump e) st []
| SR_cont n : next e = SNone -> ms = ContinueAfter n -> n <= measure e ->
    sched_res e st None (with_current_next (bump e) (current e) SStopped) st []
| SR_fin : next e = SNone -> below_bound e -> fin_cond e = true ->
    sched_res e st None (with_current_next (bump e) (current e) SFinished) st []
| SR_dec ch st' err e' : next e = SNone -> below_bound e -> fin_cond e = false ->
    s_next_task sch st (offered_of (pre_of e)) (sched_id (current e)) (has_yielded e) = (ch, st') ->
    choice_res (cons_of e) ch err e' ->
    sched_res e st err e' st'
      [EvDecision (pre_of e) (offered_of (pre_of e)) (sched_id (current e)) (has_yielded e) ch].

(* the part of `schedule` after the step-bound test; `e` is already bumped *)
Definition sched_main (e : exec) (st : SS) : (option step_error * exec * SS * list event) :=
      if negb (any_runnable e) || (negb (unfinished_attached e) && all_runnable_detached e) then
        (None, with_current_next e (current e) SFinished, st, [])
      else
        let yielding := has_yielded e in
        let pre := e in
        let e := with_yielded e false in
        let offered := offered_of e in
        let (choice, st') := s_next_task sch st offered (sched_id (current e)) yielding in
        let ev := [EvDecision pre offered (sched_id (current e)) yielding choice] in
        match choice with
        | None => (None, with_current_next e (current e) SStopped, st', ev)
        | Some t =>
          match get_task e t with
          | None => (Some ErrSchedulerBug, e, st', ev)
          | Some tk =>
            if is_runnable tk then (None, with_current_next e (current e) (SSome t), st', ev)
            else if can_spur tk then
              match e_unblock e t with
              | Some e' => (None, with_current_next e' (current e') (SSome t), st', ev)
              | None => (Some ErrSchedulerBug, e, st', ev)
              end
            else (Some ErrSchedulerBug, e, st', ev)
          end
        end.

Lemma sched_main_spec : forall e st err e' st' evs,
  next e = SNone -> below_bound e ->
  sched_main (bump e) st = (err, e', st', evs) -> sched_res e st err e' st' evs.
Proof.
  intros e st err e' st' evs Hn Hb H. unfold sched_main in H.
  change (negb (any_runnable (bump e)) || (negb (unfinished_attached (bump e)) && all_runnable_detached (bump e)))
    with (fin_cond e) in H.
  destruct (fin_cond e) eqn:Hf.
  - inversion H; subst. apply SR_fin; auto.
  - cbv zeta in H.
    change (with_yielded (bump e) false) with (cons_of e) in H.
    change (current (cons_of e)) with (current e) in H.
    change (has_yielded (bump e)) with (has_yielded e) in H.
    change (offered_of (cons_of e)) with (offered_of (pre_of e)) in H.
    change (bump e) with (pre_of e) in H.
    destruct (s_next_task sch st (offered_of (pre_of e)) (sched_id (current e)) (has_yielded e)) as [ch st1] eqn:Hc.
    destruct ch as [t|].
    + destruct (get_task (cons_of e) t) as [tk|] eqn:Hg.
      * destruct (is_runnable tk) eqn:Hr.
        { inversion H; subst. eapply SR_dec; eauto. exact (CR_run (cons_of e) t tk Hg Hr). }
        destruct (can_spur tk) eqn:Hs.
        { destruct (e_unblock (cons_of e) t) as [e1|] eqn:Hu.
          - inversion H; subst. eapply SR_dec; eauto. exact (CR_spur (cons_of e) t tk e1 Hg Hr Hs Hu).
          - inversion H; subst. eapply SR_dec; eauto. apply CR_bug.
            intros tk0 H0. rewrite Hg in H0; inversion H0; subst. auto. }
        inversion H; subst. eapply SR_dec; eauto. apply CR_bug.
        intros tk0 H0. rewrite Hg in H0; inversion H0; subst. auto.
      * inversion H; subst. eapply SR_dec; eauto. apply CR_bug.
        intros tk0 H0. rewrite Hg in H0; discriminate.
    + inversion H; subst. eapply SR_dec; eauto. exact (CR_none (cons_of e)).
Qed.

Lemma exceeded_false : forall e n, is_step_bound_exceeded (bump e) n = false -> measure e < n.
Proof.
  intros e n H. unfold is_step_bound_exceeded in H. apply Nat.leb_gt in H.
  unfold measure. exact H.
Qed.
Lemma exceeded_true : forall e n, is_step_bound_exceeded (bump e) n = true -> n <= measure e.
Proof.
  intros e n H. unfold is_step_bound_exceeded in H. apply Nat.leb_le in H.
  unfold measure. exact H.
Qed.

Theorem schedule_spec : forall e st err e' st' evs,
  schedule sch ms e st = (err, e', st', evs) -> sched_res e st err e' st' evs.
Proof.
  intros e st err e' st' evs H. unfold schedule in H.
  destruct (next e) eqn:Hn;
    try (inversion H; subst; apply SR_noop; congruence).
  fold (bump e) in H. cbv zeta in H.
  destruct ms as [|n|n] eqn:Hms.
  - apply sched_main_spec; auto. intros n Hb; rewrite Hms in Hb; discriminate.
  - destruct (is_step_bound_exceeded (bump e) n) eqn:Hx; cbv beta iota in H.
    + inversion H; subst. eapply SR_fail; eauto. apply exceeded_true; exact Hx.
    + apply sched_main_spec; auto. intros n' Hb; rewrite Hms in Hb; cbn in Hb; inversion Hb; subst. apply exceeded_false; exact Hx.
  - destruct (is_step_bound_exceeded (bump e) n) eqn:Hx; cbv beta iota in H.
    + inversion H; subst. eapply SR_cont; eauto. apply exceeded_true; exact Hx.
    + apply sched_main_spec; auto. intros n' Hb; rewrite Hms in Hb; cbn in Hb; inversion Hb; subst. apply exceeded_false; exact Hx.
Qed.

(* converse direction, used to transport runs between step bounds *)
Lemma schedule_noop : forall e st, next e <> SNone -> schedule sch ms e st = (None, e, st, []).
Proof. intros e st H. unfold schedule. destruct (next e); congruence. Qed.

Lemma schedule_below : forall e st, next e = SNone -> below_bound e ->
  schedule sch ms e st = sched_main (bump e) st.
Proof.
  intros e st Hn Hb. unfold schedule. rewrite Hn. fold (bump e). cbv zeta.
  unfold below_bound in Hb.
  destruct ms as [|n|n]; [reflexivity| |].
  - specialize (Hb n eq_refl). unfold is_step_bound_exceeded.
    change (length (recorded (bump e)) - steps_reset_at (bump e)) with (measure e).
    destruct (Nat.leb n (measure e)) eqn:E; [apply Nat.leb_le in E; lia|reflexivity].
  - specialize (Hb n eq_refl). unfold is_step_bound_exceeded.
    change (length (recorded (bump e)) - steps_reset_at (bump e)) with (measure e).
    destruct (Nat.leb n (measure e)) eqn:E; [apply Nat.leb_le in E; lia|reflexivity].
Qed.

End Sched.

(* with no bound, `schedule` is `sched_main` *)
Lemma schedule_msnone : forall SS (sch : scheduler SS) e st, next e = SNone ->
  schedule sch MSNone e st = sched_main sch (bump e) st.
Proof. intros SS sch e st Hn. apply schedule_below; auto. intros n H; discriminate. Qed.

(* ------------------------------------------------------------------ *)
(* facts about the offered list in well-formed states                  *)
(* ------------------------------------------------------------------ *)
Lemma runnable_unfinished : forall tk, is_runnable tk = true -> is_finished tk = false.
Proof. intros tk; unfold is_runnable, is_finished; destruct (t_state tk); congruence. Qed.
Lemma can_spur_unfinished : forall tk, can_spur tk = true -> is_finished tk = false.
Proof. intros tk; unfold can_spur, is_finished; destruct (t_state tk) as [|[|]| |]; congruence. Qed.

Lemma offered_in : forall e t, In t (offered_of e) <->
  In t (live e) /\ exists tk, get_task e t = Some tk /\ (is_runnable tk = true \/ can_spur tk = true).
Proof.
  intros e t. unfold offered_of. rewrite filter_In. split.
  - intros [Hl H]. split; auto. destruct (get_task e t) as [tk|]; [|discriminate].
    exists tk; split; auto. apply orb_true_iff; exact H.
  - intros [Hl (tk & Hg & H)]. split; auto. rewrite Hg. apply orb_true_iff; exact H.
Qed.

Lemma offered_in_wf : forall e t, WF e -> (In t (offered_of e) <->
  exists tk, get_task e t = Some tk /\ (is_runnable tk = true \/ can_spur tk = true)).
Proof.
  intros e t W. rewrite offered_in. split.
  - tauto.
  - intros (tk & Hg & H). split; [|eauto].
    apply (WF_live_in _ _ W). unfold unfinished; rewrite Hg.
    destruct H as [H|H]; [rewrite (runnable_unfinished _ H)|rewrite (can_spur_unfinished _ H)]; reflexivity.
Qed.

Lemma strictly_ascending_seq : forall n s, strictly_ascending (seq s n).
Proof.
  induction n as [|n IH]; intros s; cbn [seq strictly_ascending]; auto.
  split; [|apply IH]. destruct n; cbn [seq]; auto.
Qed.

Definition lower_bounded (x : nat) (l : list nat) : Prop := forall y, In y l -> x < y.

Lemma sa_cons : forall x l, strictly_ascending (x :: l) <-> (lower_bounded x l /\ strictly_ascending l).
Proof.
  intros x l; revert x. induction l as [|y r IH]; intros x.
  - cbn. unfold lower_bounded. split; [intros _; split; [intros y []|exact I]|auto].
  - split.
    + intros [Hxy Hr]. split; [|exact Hr].
      apply IH in Hr. destruct Hr as [Hlb _].
      intros z [->|Hz]; auto. specialize (Hlb z Hz). lia.
    + intros [Hlb Hr]. split; [|exact Hr]. apply Hlb; left; reflexivity.
Qed.

Lemma strictly_ascending_filter : forall f l, strictly_ascending l -> strictly_ascending (filter f l).
Proof.
  intros f l; induction l as [|x r IH]; intros H; [exact I|].
  apply sa_cons in H. destruct H as [Hlb Hr]. cbn [filter].
  destruct (f x).
  - apply sa_cons. split; [|apply IH; exact Hr].
    intros y Hy. apply filter_In in Hy. apply Hlb; tauto.
  - apply IH; exact Hr.
Qed.

Lemma offered_ascending : forall e, WF e -> strictly_ascending (offered_of e).
Proof.
  intros e W. unfold offered_of. apply strictly_ascending_filter.
  rewrite (wf_live _ W). apply strictly_ascending_filter. apply strictly_ascending_seq.
Qed.

Lemma any_runnable_true : forall e, any_runnable e = true ->
  exists t tk, In t (live e) /\ get_task e t = Some tk /\ is_runnable tk = true.
Proof.
  intros e H. unfold any_runnable in H. apply existsb_exists in H. destruct H as (t & Hl & H).
  destruct (get_task e t) as [tk|] eqn:Hg; [|discriminate]. eauto.
Qed.

Lemma any_runnable_false : forall e, WF e -> any_runnable e = false ->
  forall t tk, get_task e t = Some tk -> is_runnable tk = false.
Proof.
  intros e W H t tk Hg. destruct (is_runnable tk) eqn:Hr; [|reflexivity].
  assert (Hl : In t (live e)).
  { apply (WF_live_in _ _ W). unfold unfinished; rewrite Hg, (runnable_unfinished _ Hr); reflexivity. }
  assert (Ht : any_runnable e = true).
  { unfold any_runnable. apply existsb_exists. exists t; split; auto. rewrite Hg; exact Hr. }
  congruence.
Qed.

Lemma fin_cond_false : forall e, fin_cond e = false ->
  any_runnable e = true /\ (unfinished_attached e = true \/ all_runnable_detached e = false).
Proof.
  intros e H. unfold fin_cond in H. apply orb_false_iff in H. destruct H as [H1 H2].
  apply negb_false_iff in H1. split; auto.
  apply andb_false_iff in H2. destruct H2 as [H2|H2]; [left; apply negb_false_iff; exact H2|right; exact H2].
Qed.

Theorem offered_ok_pre : forall e, WF e -> fin_cond e = false -> offered_ok e (offered_of e).
Proof.
  intros e W Hf. apply fin_cond_false in Hf. destruct Hf as [Ha _].
  apply any_runnable_true in Ha. destruct Ha as (t & tk & Hl & Hg & Hr).
  unfold offered_ok. repeat split.
  - intros E. assert (Hin : In t (offered_of e)).
    { apply offered_in. split; eauto. }
    rewrite E in Hin; exact Hin.
  - apply offered_ascending; exact W.
  - intros t0 H0. apply offered_in in H0. destruct H0 as [_ (tk0 & Hg0 & H0)].
    exists tk0. repeat split; auto.
    destruct H0 as [H0|H0]; [apply runnable_unfinished|apply can_spur_unfinished]; exact H0.
  - intros t0 tk0 Hg0 Hr0. apply (offered_in_wf _ _ W). eauto.
Qed.

Lemma e_unblock_some : forall e t tk, get_task e t = Some tk -> is_finished tk = false ->
  e_unblock e t = Some (with_tasks e (list_upd (tasks e) t unblock_task)).
Proof. intros e t tk Hg Hf. unfold e_unblock. rewrite Hg, Hf. eapply upd_task_some; eauto. Qed.

(* the runtime's assertions on the scheduler's answer fail exactly when the answer was not offered *)
Lemma choice_bug_not_offered : forall pre t e', WF pre ->
  choice_res pre (Some t) (Some ErrSchedulerBug) e' -> ~ In t (offered_of pre).
Proof.
  intros pre t e' W H Hin. inversion H as [| | |t0 Hb]; subst.
  apply (offered_in_wf _ _ W) in Hin. destruct Hin as (tk & Hg & Hr).
  destruct (Hb tk Hg) as [Hnr Hs]. destruct Hr as [Hr|Hr]; [congruence|].
  destruct Hs as [Hs|Hs]; [congruence|].
  rewrite (e_unblock_some _ _ _ Hg (can_spur_unfinished _ Hr)) in Hs. discriminate.
Qed.

Lemma choice_ok_offered : forall pre t e', WF pre ->
  choice_res pre (Some t) None e' -> In t (offered_of pre).
Proof.
  intros pre t e' W H. apply (offered_in_wf _ _ W).
  inversion H; subst; eauto.
Qed.

Lemma choice_err : forall pre ch err e', choice_res pre ch (Some err) e' -> err = ErrSchedulerBug /\ e' = pre /\ exists t, ch = Some t.
Proof. intros pre ch err e' H; inversion H; subst; eauto. Qed.
