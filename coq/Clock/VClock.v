(* ------------------------------------------------------------------------- *)
(*  SV.Clock.VClock : executable model of                                     *)
(*     shuttle-engine/src/runtime/task/clock.rs, `mod vector_clock`           *)
(*     (the real one, cfg(any(test, feature = "vector-clocks"))).             *)
(*                                                                            *)
(*  MODEL ONLY: definitions, no lemmas.  Every definition names the Rust      *)
(*  line(s) it mirrors.                                                       *)
(*                                                                            *)
(*  Rust types -> Coq types                                                   *)
(*     VectorClock { time: SmallVec<[u32; _]> }   vclock := list N            *)
(*     usize (lengths, indices, TaskId.0)         nat   (unbounded; the only  *)
(*                         usize arithmetic that can go wrong is the          *)
(*                         subtraction in `extend`, which is modelled)        *)
(*     u32 entries                                N, with the bound 2^32 made *)
(*                         explicit in `increment` and in `wf`                *)
(*     std::cmp::Ordering                         ord                         *)
(*     a panic (index out of bounds, debug-build arithmetic overflow)         *)
(*                                                None                        *)
(* ------------------------------------------------------------------------- *)

From Coq Require Import List NArith Bool.
Import ListNotations.
Local Open Scope N_scope.

Definition vclock : Type := list N.

(* u32::MAX *)
Definition u32_max : N := 4294967295.

(* Representation invariant of the Rust type: every entry fits in a u32.
   (Executable and propositional form.) *)
Definition wfb (c : vclock) : bool := forallb (fun x => x <=? u32_max) c.
Definition wf  (c : vclock) : Prop := Forall (fun x => x <= u32_max) c.

(* pub const fn new() -> Self { time: SmallVec::new_const() } *)
Definition new : vclock := [].

(* `self.time[i] = v` for a slice: in-place store.  Out-of-range is never
   reached by the callers below (they check the index first); the model leaves
   the list unchanged in that case. *)
Fixpoint set_nth (l : vclock) (i : nat) (v : N) : vclock :=
  match l, i with
  | [], _ => []
  | _ :: t, O => v :: t
  | h :: t, S i' => h :: set_nth t i' v
  end.

(* pub fn extend(&mut self, task_id: TaskId) {
       let num_new_tasks = 1 + task_id.0 - self.time.len();
       let clock = smallvec![0u32; num_new_tasks];
       self.time.extend_from_slice(&clock);
   }
   `1 + task_id.0 - len` is usize arithmetic, parsed (1 + task_id.0) - len.
   When len > 1 + task_id.0 it underflows: a debug build panics ("attempt to
   subtract with overflow"); a release build wraps to a number close to
   2^64 and then dies trying to allocate that many zeros.  Either way the
   call does not return: None.
   Rejected inputs: exactly those with  length c > 1 + id.               *)
Definition extend (c : vclock) (id : nat) : option vclock :=
  if Nat.leb (length c) (1 + id)
  then Some (c ++ repeat 0 (1 + id - length c))
  else None.

(* pub fn increment(&mut self, task_id: TaskId) { self.time[task_id.0] += 1; }
   - index out of range: slice indexing panics               -> None
   - entry = u32::MAX: `+= 1` panics in a debug build        -> None        *)
Definition increment (c : vclock) (i : nat) : option vclock :=
  match nth_error c i with
  | None => None
  | Some x => if x <? u32_max then Some (set_nth c i (x + 1)) else None
  end.

(* Total variant, convenient in proofs: coincides with `increment` whenever
   the latter succeeds; identity on a bad index; no overflow check. *)
Definition increment_tot (c : vclock) (i : nat) : vclock :=
  match nth_error c i with
  | None => c
  | Some x => set_nth c i (x + 1)
  end.

(* What a *release* build (overflow checks off) does: `+= 1` wraps modulo
   2^32.  Index out of range still panics.  Kept to show what is lost. *)
Definition increment_wrapping (c : vclock) (i : nat) : option vclock :=
  match nth_error c i with
  | None => None
  | Some x => Some (set_nth c i ((x + 1) mod (u32_max + 1)))
  end.

(* pub fn update(&mut self, other: &Self) {
       let n1 = self.time.len();
       let n2 = other.time.len();
       for i in 0..n1.min(n2) { self.time[i] = self.time[i].max(other.time[i]) }
       for i in n1..n2 { self.time.push(other.time[i]); }   // could be empty
   }
   Two loops, written as two folds over the same index ranges.  All the
   indexing is in range (i < min n1 n2, resp. n1 <= i < n2), so the `0`
   default of `nth` is never produced.  `seq n1 (n2 - n1)` is the range
   n1..n2 (empty when n2 <= n1, as in Rust). *)
Definition update_loop1 (b : vclock) (is : list nat) (a : vclock) : vclock :=
  fold_left (fun acc i => set_nth acc i (N.max (nth i acc 0) (nth i b 0))) is a.

Definition update_loop2 (b : vclock) (is : list nat) (a : vclock) : vclock :=
  fold_left (fun acc i => acc ++ [nth i b 0]) is a.

Definition update (a b : vclock) : vclock :=
  let n1 := length a in
  let n2 := length b in
  let a1 := update_loop1 b (seq 0 (Nat.min n1 n2)) a in
  update_loop2 b (seq n1 (n2 - n1)) a1.

(* pub fn get(&self, i: usize) -> u32 { self.time[i] }   (panics out of range) *)
Definition get (c : vclock) (i : nat) : option N := nth_error c i.

(* std::cmp::Ordering *)
Inductive ord : Type := Less | Equal | Greater.

(* usize::cmp / u32::cmp *)
Definition cmp_nat (n m : nat) : ord :=
  match Nat.compare n m with Lt => Less | Eq => Equal | Gt => Greater end.
Definition cmp_N (x y : N) : ord :=
  match N.compare x y with Lt => Less | Eq => Equal | Gt => Greater end.

(* fn unify(a: Ordering, b: Ordering) -> Option<Ordering> {
       match (a, b) {
           (Equal, Equal) => Some(Equal),
           (Less, Greater) | (Greater, Less) => None,
           (Less, _) | (_, Less) => Some(Less),
           (Greater, _) | (_, Greater) => Some(Greater),
       } }                                                   (arms in order) *)
Definition unify (a b : ord) : option ord :=
  match a, b with
  | Equal, Equal => Some Equal
  | Less, Greater | Greater, Less => None
  | Less, _ | _, Less => Some Less
  | Greater, _ | _, Greater => Some Greater
  end.

(* fn partial_cmp(&self, other: &Self) -> Option<Ordering> {
       let n1 = self.time.len();
       let n2 = other.time.len();
       let mut ord = n1.cmp(&n2);
       for i in 0..n1.min(n2) {
           ord = unify(ord, self.time[i].cmp(&other.time[i]))?;  // early exit
       }
       Some(ord)
   }                                                                        *)
Fixpoint partial_cmp_loop (a b : vclock) (is : list nat) (o : ord) : option ord :=
  match is with
  | [] => Some o
  | i :: is' =>
      match unify o (cmp_N (nth i a 0) (nth i b 0)) with
      | None => None                                   (* the `?` *)
      | Some o' => partial_cmp_loop a b is' o'
      end
  end.

Definition partial_cmp (a b : vclock) : option ord :=
  let n1 := length a in
  let n2 := length b in
  partial_cmp_loop a b (seq 0 (Nat.min n1 n2)) (cmp_nat n1 n2).

(* Derived comparisons.  For a PartialOrd type Rust defines
     a <= b  :=  matches!(a.partial_cmp(&b), Some(Less | Equal))
     a <  b  :=  matches!(a.partial_cmp(&b), Some(Less))
   and "concurrent" is partial_cmp = None. *)
Definition vle (a b : vclock) : bool :=
  match partial_cmp a b with Some Less | Some Equal => true | _ => false end.
Definition vlt (a b : vclock) : bool :=
  match partial_cmp a b with Some Less => true | _ => false end.
Definition vge (a b : vclock) : bool :=
  match partial_cmp a b with Some Greater | Some Equal => true | _ => false end.
Definition vgt (a b : vclock) : bool :=
  match partial_cmp a b with Some Greater => true | _ => false end.
Definition concurrent (a b : vclock) : bool :=
  match partial_cmp a b with None => true | _ => false end.

(* Mirror of a comparison result (Ordering::reverse under Option). *)
Definition flip (o : option ord) : option ord :=
  match o with
  | Some Less => Some Greater
  | Some Greater => Some Less
  | Some Equal => Some Equal
  | None => None
  end.
