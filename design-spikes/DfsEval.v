From Coq Require Import List Arith Bool Lia.
Import ListNotations.

Inductive tree := Node : list (nat * tree) -> tree.
Definition kids (t:tree) := match t with Node l => l end.

Record dfs := { levels : list (nat * bool); steps : nat; iters : nat }.
Definition has_more (ls : list (nat*bool)) (i:nat) : bool :=
  existsb (fun p => negb (snd p)) (skipn i ls).

Fixpoint pos (x:nat) (l:list nat) : option nat :=
  match l with [] => None | y::r => if Nat.eqb x y then Some 0 else option_map S (pos x r) end.

Definition next_task (d:dfs) (offered : list nat) : option (nat * dfs) :=
  if length (levels d) <=? steps d then
    if negb (steps d =? length (levels d)) then None else
    match offered with
    | [] => None
    | x::_ => Some (x, {| levels := levels d ++ [(x, length offered =? 1)]; steps := S (steps d); iters := iters d |})
    end
  else
    match nth_error (levels d) (steps d) with
    | None => None
    | Some (c,last) =>
      if has_more (levels d) (S (steps d)) then Some (c, {| levels := levels d; steps := S (steps d); iters := iters d |})
      else if last then None else
        match pos c offered with
        | None => None
        | Some i => match nth_error offered (S i) with
                    | None => None
                    | Some nx => Some (nx, {| levels := firstn (steps d) (levels d) ++ [(nx, S i =? length offered - 1)];
                                             steps := S (steps d); iters := iters d |})
                    end
        end
    end.

Definition new_execution (maxit : option nat) (d:dfs) : option dfs :=
  if match maxit with Some m => m <=? iters d | None => false end then None
  else if (0 <? iters d) && negb (has_more (levels d) 0) then None
  else Some {| levels := levels d; steps := 0; iters := S (iters d) |}.

Fixpoint find_kid (c:nat) (l:list (nat*tree)) : option tree :=
  match l with [] => None | (x,t)::r => if Nat.eqb c x then Some t else find_kid c r end.

(* drive one execution; depth bound [n] = ContinueAfter; fuel on tree depth *)
Fixpoint drive (fuel:nat) (bound : option nat) (t:tree) (d:dfs) (acc:list nat) : option (list nat * dfs) :=
  match fuel with 0 => None | S f =>
    match kids t with
    | [] => Some (rev acc, d)
    | l => if match bound with Some n => n <=? length acc | None => false end then Some (rev acc, d) else
           match next_task d (map fst l) with
           | None => None
           | Some (c, d') => match find_kid c l with None => None | Some t' => drive f bound t' d' (c::acc) end
           end
    end
  end.

Fixpoint run (fuel:nat) (maxit bound: option nat) (t:tree) (d:dfs) : option (list (list nat)) :=
  match fuel with 0 => None | S f =>
    match new_execution maxit d with
    | None => Some []
    | Some d1 => match drive 1000 bound t d1 [] with
                 | None => None
                 | Some (p, d2) => option_map (cons p) (run f maxit bound t d2)
                 end
    end
  end.

Fixpoint leaves (t:tree) : list (list nat) :=
  match t with Node l =>
    match l with [] => [[]] | _ =>
    (fix go (l:list (nat*tree)) := match l with [] => [] | (c,t')::r => map (cons c) (leaves t') ++ go r end) l end
  end.

Fixpoint truncate (n:nat) (t:tree) : tree :=
  match n with 0 => Node [] | S k => match t with Node l => Node (map (fun p => (fst p, truncate k (snd p))) l) end end.

Definition d0 := {| levels := []; steps := 0; iters := 0 |}.
Definition L := Node [].
(* irregular: last sibling deeper, single-child chains, labels change by depth *)
Definition t1 := Node [(0, Node [(0,L);(1,Node [(1,L)])]); (1, Node [(0, Node [(0,L);(1,L);(2,L)])]); (3, Node [(3, Node [(0,L);(3,Node [(0,L);(1,L)])])])].
Definition t2 := Node [(0, Node [(0, L)]) ; (2, Node [(0, Node [(0,L);(2,L)]); (2, L)])].
Definition ok (maxit bound:option nat) t := match run 1000 maxit bound t d0 with Some ps => Some (ps, leaves (match bound with Some n => truncate n t | None => t end)) | None => None end.
Eval vm_compute in ok None None t1.
Eval vm_compute in ok None None t2.
Eval vm_compute in ok (Some 3) None t1.
Eval vm_compute in ok None (Some 2) t1.
Eval vm_compute in ok None None L.
Eval vm_compute in ok None None (Node [(5,L)]).
