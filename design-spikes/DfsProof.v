From Coq Require Import List Arith Bool Lia.
Import ListNotations.

Inductive tree := Node : list (nat * tree) -> tree.
Definition kids (t:tree) := match t with Node l => l end.

Record dfs := { levels : list (nat * bool); steps : nat; iters : nat }.
Definition has_more (ls : list (nat*bool)) (i:nat) : bool :=
  existsb (fun p => negb (snd p)) (skipn i ls).

Fixpoint pos (x:nat) (l:list nat) : option nat :=
  match l with [] => None | y::r => if Nat.eqb x y then Some 0 else option_map S (pos x r) end.

Definition next_task (d:dfs) (offered : list nat) : option (nat * dfs) :=
  if length (levels d) <=? steps d then
    if negb (steps d =? length (levels d)) then None else
    match offered with
    | [] => None
    | x::_ => Some (x, {| levels := levels d ++ [(x, length offered =? 1)]; steps := S (steps d); iters := iters d |})
    end
  else
    match nth_error (levels d) (steps d) with
    | None => None
    | Some (c,last) =>
      if has_more (levels d) (S (steps d)) then Some (c, {| levels := levels d; steps := S (steps d); iters := iters d |})
      else if last then None else
        match pos c offered with
        | None => None
        | Some i => match nth_error offered (S i) with
                    | None => None
                    | Some nx => Some (nx, {| levels := firstn (steps d) (levels d) ++ [(nx, S i =? length offered - 1)];
                                             steps := S (steps d); iters := iters d |})
                    end
        end
    end.

Fixpoint find_kid (c:nat) (l:list (nat*tree)) : option tree :=
  match l with [] => None | (x,t)::r => if Nat.eqb c x then Some t else find_kid c r end.

Fixpoint drive (fuel:nat) (t:tree) (d:dfs) (acc:list nat) : option (list nat * dfs) :=
  match fuel with 0 => None | S f =>
    match kids t with
    | [] => Some (rev acc, d)
    | l => match next_task d (map fst l) with
           | None => None
           | Some (c, d') => match find_kid c l with None => None | Some t' => drive f t' d' (c::acc) end
           end
    end
  end.

(* ---------- specification side ---------- *)
Fixpoint leaves (t:tree) : list (list nat) :=
  match t with Node l =>
    match l with [] => [[]] | _ => flat_map (fun p => match p with (c,t') => map (cons c) (leaves t') end) l end
  end.
Definition all_leaves (l:list (nat*tree)) : list (list nat) :=
  flat_map (fun p => match p with (c,t') => map (cons c) (leaves t') end) l.

Lemma leaves_node l : l <> [] -> leaves (Node l) = all_leaves l.
Proof. intros H. destruct l; [congruence|]. reflexivity. Qed.

Fixpoint depth (t:tree) : nat :=
  match t with Node l => S (fold_right (fun p m => match p with (_,t') => Nat.max (depth t') m end) 0 l) end.
Definition depth_list (l:list (nat*tree)) := fold_right (fun p m => match p with (_,t') => Nat.max (depth t') m end) 0 l.
Lemma depth_node l : depth (Node l) = S (depth_list l).
Proof. reflexivity. Qed.

(* leftmost leaf and its annotated levels *)
Fixpoint leftmost (t:tree) : list nat :=
  match t with Node l => match l with [] => [] | (c,t')::_ => c :: leftmost t' end end.
Fixpoint annot_first (t:tree) : list (nat*bool) :=
  match t with Node l => match l with [] => [] | (c,t')::r => (c, match r with [] => true | _ => false end) :: annot_first t' end end.

Inductive wf : tree -> Prop :=
| wf_node l : NoDup (map fst l) -> Forall (fun p => wf (snd p)) l -> wf (Node l).

(* lv is the annotated form of a root-to-leaf path of t *)
Inductive valid : tree -> list (nat*bool) -> Prop :=
| v_leaf : valid (Node []) []
| v_node pre c tc post lv' :
    valid tc lv' ->
    valid (Node (pre ++ (c,tc) :: post)) ((c, match post with [] => true | _ => false end) :: lv').

Definition path_of (lv:list (nat*bool)) := map fst lv.

(* leaves of t strictly after the leaf described by lv *)
Inductive rest_spec : tree -> list (nat*bool) -> list (list nat) -> Prop :=
| r_leaf : rest_spec (Node []) [] []
| r_node pre c tc post b lv' rs :
    rest_spec tc lv' rs ->
    rest_spec (Node (pre ++ (c,tc) :: post)) ((c,b) :: lv') (map (cons c) rs ++ all_leaves post).

Lemma skipn_app_len {A} (a b:list A) : skipn (length a) (a ++ b) = b.
Proof. induction a; cbn; auto. Qed.
Lemma has_more_app pre lv : has_more (pre ++ lv) (length pre) = has_more lv 0.
Proof. unfold has_more. rewrite skipn_app_len. reflexivity. Qed.
Lemma has_more_app_S pre x lv : has_more (pre ++ x :: lv) (S (length pre)) = has_more lv 0.
Proof. replace (pre ++ x :: lv) with ((pre ++ [x]) ++ lv) by (rewrite <- app_assoc; reflexivity).
  replace (S (length pre)) with (length (pre ++ [x])) by (rewrite app_length; cbn; lia). apply has_more_app. Qed.
Lemma nth_error_app_len {A} (a:list A) x b : nth_error (a ++ x :: b) (length a) = Some x.
Proof. induction a; cbn; auto. Qed.
Lemma firstn_app_len {A} (a b:list A) : firstn (length a) (a ++ b) = a.
Proof. induction a; cbn; [destruct b; reflexivity|]. f_equal. auto. Qed.

Lemma find_kid_mid pre c tc post : ~ In c (map fst pre) -> find_kid c (pre ++ (c,tc)::post) = Some tc.
Proof. induction pre as [|[x t] r IH]; cbn; intros H.
  - rewrite Nat.eqb_refl. reflexivity.
  - destruct (Nat.eqb c x) eqn:E; [apply Nat.eqb_eq in E; subst; tauto|]. apply IH. tauto. Qed.
Lemma pos_mid pre c post : ~ In c pre -> pos c (pre ++ c :: post) = Some (length pre).
Proof. induction pre as [|x r IH]; cbn; intros H.
  - rewrite Nat.eqb_refl. reflexivity.
  - destruct (Nat.eqb c x) eqn:E; [apply Nat.eqb_eq in E; subst; tauto|]. rewrite IH by tauto. reflexivity. Qed.

Lemma nodup_mid (pre:list (nat*tree)) c tc post : NoDup (map fst (pre ++ (c,tc)::post)) -> ~ In c (map fst pre) /\ ~ In c (map fst post).
Proof. rewrite map_app. cbn. intros H. apply NoDup_remove_2 in H. rewrite in_app_iff in H. tauto. Qed.

(* first visit: from steps = length levels the execution follows the leftmost leaf *)
Lemma drive_first : forall t, wf t -> forall fuel pre it acc, depth t <= fuel ->
  drive fuel t {| levels := pre; steps := length pre; iters := it |} acc
  = Some (rev acc ++ leftmost t, {| levels := pre ++ annot_first t; steps := length pre + length (leftmost t); iters := it |}).
Proof.
  fix IH 1. intros [l] Hwf fuel pre it acc Hd. rewrite depth_node in Hd.
  destruct fuel as [|f]; [lia|]. cbn [drive kids].
  destruct l as [|[c tc] r].
  - cbn. rewrite !app_nil_r, Nat.add_0_r. reflexivity.
  - cbn [map fst]. unfold next_task. cbn [levels steps iters].
    rewrite Nat.leb_refl. rewrite Nat.eqb_refl. cbn [negb].
    cbn [find_kid]. rewrite Nat.eqb_refl.
    inversion Hwf as [l' Hnd Hall]; subst. inversion Hall as [|? ? Hc Hr]; subst. cbn in Hc.
    replace (S (length pre)) with (length (pre ++ [(c, length (c :: map fst r) =? 1)])) by (rewrite app_length; cbn; lia).
    rewrite IH; [| exact Hc | cbn in Hd; lia].
    cbn [leftmost annot_first rev]. rewrite <- !app_assoc. cbn [app].
    f_equal. f_equal. f_equal.
    + f_equal. f_equal. f_equal. destruct r; reflexivity.
    + rewrite app_length. cbn. lia.
Qed.

Lemma leaves_first : forall t, leaves t = leftmost t :: match t with Node [] => [] | _ => tl (leaves t) end.
Proof.
  fix IH 1. intros [l]. destruct l as [|[c tc] r]; [reflexivity|].
  rewrite leaves_node by congruence. unfold all_leaves. cbn [flat_map leftmost].
  rewrite (IH tc). cbn. reflexivity.
Qed.

(* ---------- successor step ---------- *)
Fixpoint rest (t:tree) (lv:list (nat*bool)) {struct t} : list (list nat) :=
  match t, lv with
  | Node l, (c,_)::lv' =>
      (fix go (l:list (nat*tree)) := match l with
         | [] => []
         | (x,tx)::r => if Nat.eqb c x then map (cons c) (rest tx lv') ++ all_leaves r else go r
         end) l
  | _, _ => []
  end.

Lemma rest_mid pre0 c tc post b lv' : ~ In c (map fst pre0) ->
  rest (Node (pre0 ++ (c,tc)::post)) ((c,b)::lv') = map (cons c) (rest tc lv') ++ all_leaves post.
Proof.
  intros H. cbn [rest]. induction pre0 as [|[x tx] r IH]; cbn [app].
  - rewrite Nat.eqb_refl. reflexivity.
  - cbn in H. destruct (Nat.eqb c x) eqn:E; [apply Nat.eqb_eq in E; subst; tauto|]. apply IH. tauto.
Qed.

Lemma valid_first : forall t, valid t (annot_first t).
Proof.
  fix IH 1. intros [l]. destruct l as [|[c tc] r]; [constructor|].
  cbn [annot_first]. apply (v_node [] c tc r). apply IH.
Qed.

Lemma path_first : forall t, map fst (annot_first t) = leftmost t.
Proof. fix IH 1. intros [l]. destruct l as [|[c tc] r]; [reflexivity|]. cbn. f_equal. apply IH. Qed.

Lemma rest_first : forall t, leaves t = leftmost t :: rest t (annot_first t).
Proof.
  fix IH 1. intros [l]. destruct l as [|[c tc] r]; [reflexivity|].
  rewrite leaves_node by congruence. cbn [annot_first leftmost].
  rewrite (rest_mid [] c tc r) by (cbn; tauto).
  unfold all_leaves at 1. cbn [flat_map]. rewrite (IH tc). reflexivity.
Qed.

Lemma all_last_rest : forall t lv, valid t lv -> has_more lv 0 = false -> forall (Hwf: wf t), rest t lv = [].
Proof.
  intros t lv Hv. induction Hv as [|pre0 c tc post lv' Hv IH]; intros Hm Hwf; [reflexivity|].
  inversion Hwf as [l Hnd Hall]; subst. destruct (nodup_mid _ _ _ _ Hnd) as [Hpre Hpost].
  rewrite rest_mid by assumption.
  unfold has_more in Hm. cbn [skipn existsb snd] in Hm. apply orb_false_iff in Hm. destruct Hm as [Hb Hm].
  destruct post as [|p post']; [|discriminate].
  rewrite IH; [reflexivity| exact Hm |].
  rewrite Forall_forall in Hall. apply (Hall (c,tc)). rewrite in_app_iff. right. left. reflexivity.
Qed.

Lemma drive_step f l d acc : l <> [] ->
  drive (S f) (Node l) d acc =
  match next_task d (map fst l) with
  | None => None
  | Some (c, d') => match find_kid c l with None => None | Some t' => drive f t' d' (c::acc) end
  end.
Proof. intros H. destruct l; [congruence|]. reflexivity. Qed.

Lemma depth_mid pre0 c tc post : depth tc <= depth_list (pre0 ++ (c,tc)::post).
Proof. unfold depth_list. induction pre0 as [|[x tx] r IH]; cbn [app fold_right]; lia. Qed.

Lemma drive_succ : forall t lv, valid t lv -> wf t -> has_more lv 0 = true ->
  forall fuel pre it acc, depth t <= fuel ->
  exists lv', drive fuel t {| levels := pre ++ lv; steps := length pre; iters := it |} acc
     = Some (rev acc ++ map fst lv', {| levels := pre ++ lv'; steps := length pre + length lv'; iters := it |})
   /\ valid t lv' /\ rest t lv = map fst lv' :: rest t lv'.
Proof.
  intros t lv Hv. induction Hv as [|pre0 c tc post lv1 Hv IH]; intros Hwf Hm fuel pre it acc Hd.
  - discriminate.
  - inversion Hwf as [l Hnd Hall]; subst. destruct (nodup_mid _ _ _ _ Hnd) as [Hpre Hpost].
    assert (wf tc) as Hwtc.
    { rewrite Forall_forall in Hall. apply (Hall (c,tc)). rewrite in_app_iff. right. left. reflexivity. }
    rewrite depth_node in Hd. destruct fuel as [|f]; [lia|].
    pose proof (depth_mid pre0 c tc post) as Hdtc.
    rewrite drive_step by (destruct pre0; discriminate).
    set (flag := match post with [] => true | _ => false end) in *.
    unfold next_task. cbn [levels steps iters].
    assert (length (pre ++ (c,flag)::lv1) <=? length pre = false) as Hlen.
    { apply Nat.leb_gt. rewrite app_length. cbn. lia. }
    rewrite Hlen. rewrite nth_error_app_len. rewrite has_more_app_S.
    destruct (has_more lv1 0) eqn:Hm1.
    + (* keep the choice, recurse below *)
      rewrite find_kid_mid by assumption.
      replace (pre ++ (c,flag)::lv1) with ((pre ++ [(c,flag)]) ++ lv1) by (rewrite <- app_assoc; reflexivity).
      replace (S (length pre)) with (length (pre ++ [(c,flag)])) by (rewrite app_length; cbn; lia).
      destruct (IH Hwtc eq_refl f (pre ++ [(c,flag)]) it (c::acc) ltac:(lia)) as (lv1' & Hdr & Hv' & Hrest).
      exists ((c,flag)::lv1'). rewrite Hdr. split; [|split].
      * cbn [rev map fst]. rewrite <- !app_assoc. cbn [app]. f_equal. f_equal. f_equal.
        rewrite app_length. cbn. lia.
      * apply v_node. exact Hv'.
      * rewrite !rest_mid by assumption. rewrite Hrest. cbn [map fst]. reflexivity.
    + (* all deeper levels are last: advance here *)
      assert (flag = false) as Hflag.
      { unfold has_more in Hm. cbn [skipn existsb snd] in Hm. unfold has_more in Hm1. cbn [skipn] in Hm1.
        rewrite Hm1 in Hm. rewrite orb_false_r in Hm. apply negb_true_iff in Hm. exact Hm. }
      rewrite Hflag. destruct post as [|[nx tnx] post']; [discriminate Hflag|].
      rewrite map_app. cbn [map fst].
      rewrite pos_mid by assumption.
      replace (S (length (map fst pre0))) with (length (map fst pre0 ++ [c])) by (rewrite app_length; cbn; lia).
      replace (map fst pre0 ++ c :: nx :: map fst post') with ((map fst pre0 ++ [c]) ++ nx :: map fst post') by (rewrite <- app_assoc; reflexivity).
      rewrite nth_error_app_len.
      rewrite firstn_app_len.
      assert (find_kid nx (pre0 ++ (c,tc) :: (nx,tnx) :: post') = Some tnx) as Hfk.
      { replace (pre0 ++ (c,tc) :: (nx,tnx) :: post') with ((pre0 ++ [(c,tc)]) ++ (nx,tnx) :: post') by (rewrite <- app_assoc; reflexivity).
        apply find_kid_mid. rewrite map_app. cbn. rewrite in_app_iff. cbn.
        rewrite map_app in Hnd. cbn in Hnd. intros [Hin|[He|[]]].
        - apply NoDup_remove_1 in Hnd.
          apply (NoDup_remove_2 (map fst pre0) (map fst post') nx); [exact Hnd|]. rewrite in_app_iff. left. exact Hin.
        - subst. cbn in Hpost. tauto. }
      rewrite Hfk.
      assert (wf tnx) as Hwnx.
      { rewrite Forall_forall in Hall. apply (Hall (nx,tnx)). rewrite in_app_iff. right. right. left. reflexivity. }
      set (flag' := length (map fst pre0 ++ [c]) =? length ((map fst pre0 ++ [c]) ++ nx :: map fst post') - 1).
      replace (S (length pre)) with (length (pre ++ [(nx,flag')])) by (rewrite app_length; cbn; lia).
      rewrite drive_first; [| exact Hwnx |].
      2:{ assert (depth tnx <= depth_list (pre0 ++ (c,tc) :: (nx,tnx) :: post')).
          { replace (pre0 ++ (c,tc) :: (nx,tnx) :: post') with ((pre0 ++ [(c,tc)]) ++ (nx,tnx) :: post') by (rewrite <- app_assoc; reflexivity).
            apply depth_mid. }
          lia. }
      assert (flag' = match post' with [] => true | _ => false end) as Hf'.
      { unfold flag'. rewrite !app_length. cbn [length]. rewrite map_length.
        destruct post'; cbn [length map]; [apply Nat.eqb_eq; lia| apply Nat.eqb_neq; rewrite map_length; lia]. }
      exists ((nx,flag') :: annot_first tnx). split; [|split].
      * cbn [rev map fst]. rewrite path_first. rewrite <- !app_assoc. cbn [app]. f_equal. f_equal. f_equal.
        rewrite app_length. cbn [length]. rewrite <- path_first. rewrite map_length. lia.
      * rewrite Hf'.
        replace (pre0 ++ (c,tc) :: (nx,tnx) :: post') with ((pre0 ++ [(c,tc)]) ++ (nx,tnx) :: post') by (rewrite <- app_assoc; reflexivity).
        apply v_node. apply valid_first.
      * rewrite rest_mid by assumption.
        rewrite (all_last_rest tc lv1 Hv Hm1 Hwtc). cbn [map app].
        unfold all_leaves at 1. cbn [flat_map]. rewrite (rest_first tnx).
        replace (pre0 ++ (c,tc) :: (nx,tnx) :: post') with ((pre0 ++ [(c,tc)]) ++ (nx,tnx) :: post') by (rewrite <- app_assoc; reflexivity).
        rewrite rest_mid.
        -- cbn [map fst]. rewrite path_first. reflexivity.
        -- rewrite map_app. cbn. rewrite in_app_iff. cbn.
           rewrite map_app in Hnd. cbn in Hnd. intros [Hin|[He|[]]].
           ++ apply NoDup_remove_1 in Hnd.
              apply (NoDup_remove_2 (map fst pre0) (map fst post') nx); [exact Hnd|]. rewrite in_app_iff. left. exact Hin.
           ++ subst. cbn in Hpost. tauto.
Qed.

(* ---------- the run loop (no iteration bound, no step bound) ---------- *)
Definition new_execution (maxit : option nat) (d:dfs) : option dfs :=
  if match maxit with Some m => m <=? iters d | None => false end then None
  else if (0 <? iters d) && negb (has_more (levels d) 0) then None
  else Some {| levels := levels d; steps := 0; iters := S (iters d) |}.

Fixpoint run (fuel:nat) (t:tree) (d:dfs) : option (list (list nat)) :=
  match fuel with 0 => None | S f =>
    match new_execution None d with
    | None => Some []
    | Some d1 => match drive (depth t) t d1 [] with
                 | None => None
                 | Some (p, d2) => option_map (cons p) (run f t d2)
                 end
    end
  end.

Lemma run_from : forall fuel t lv s it, valid t lv -> wf t -> 0 < it -> length (rest t lv) < fuel ->
  run fuel t {| levels := lv; steps := s; iters := it |} = Some (rest t lv).
Proof.
  induction fuel as [|f IH]; intros t lv s it Hv Hwf Hit Hlen; [lia|].
  cbn [run]. unfold new_execution. cbn [levels steps iters].
  assert (0 <? it = true) as Hlt by (apply Nat.ltb_lt; exact Hit). rewrite Hlt. cbn [andb].
  destruct (has_more lv 0) eqn:Hm; cbn [negb].
  - destruct (drive_succ t lv Hv Hwf Hm (depth t) [] (S it) [] (le_n _)) as (lv' & Hdr & Hv' & Hrest).
    cbn [app length] in Hdr. rewrite Hdr. cbn [rev app].
    rewrite Hrest in Hlen. cbn [length] in Hlen.
    rewrite (IH t lv' _ (S it) Hv' Hwf ltac:(lia) ltac:(lia)). cbn [option_map]. rewrite Hrest. reflexivity.
  - rewrite (all_last_rest t lv Hv Hm Hwf). reflexivity.
Qed.

Definition d0 := {| levels := []; steps := 0; iters := 0 |}.

Theorem C09_exact : forall t, wf t -> forall fuel, length (leaves t) < fuel -> run fuel t d0 = Some (leaves t).
Proof.
  intros t Hwf fuel Hlen. destruct fuel as [|f]; [lia|].
  cbn [run]. unfold new_execution, d0. cbn [levels steps iters Nat.ltb Nat.leb andb].
  pose proof (drive_first t Hwf (depth t) [] 1 [] (le_n _)) as Hdr. cbn [length app] in Hdr.
  rewrite Hdr. cbn [rev app].
  rewrite rest_first in Hlen |- *. cbn [length] in Hlen.
  rewrite (run_from f t (annot_first t) _ 1 (valid_first t) Hwf ltac:(lia) ltac:(lia)). reflexivity.
Qed.

(* every schedule appears once: leaves are pairwise distinct for wf trees *)
Print Assumptions C09_exact.
