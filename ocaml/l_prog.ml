(* prog layer: prog <ms> <script> <rseed> <objs> <bodies>   (formats: see DESIGN.md §11 / harness/src/l_prog.rs) *)
open Util

let parse_ms (s : string) : Exec.max_steps =
  match String.split_on_char ':' s with
  | ["none"] -> Exec.MSNone
  | ["fail"; n] -> Exec.FailAfter (nat_of_int (int_of_string n))
  | ["cont"; n] -> Exec.ContinueAfter (nat_of_int (int_of_string n))
  | _ -> failwith ("bad max_steps " ^ s)

let parse_script (s : string) : Datatypes.nat option list =
  Stdlib.List.map (fun w -> if w = "x" then None else Some (nat_of_int (int_of_string w))) (split_on ',' s)

let parse_obj (idx : int) (w : string) : Objects.obj =
  match w.[0] with
  | 'v' -> Objects.OCondvar ([], Datatypes.O)
  | 'c' ->
    let b = String.sub w 1 (String.length w - 1) in
    let ch = SyncOps2.chan_new (if b = "u" then None else Some (nat_of_int (int_of_string b))) in
    Objects.OChan (SyncOps2.set_senders ch (nat_of_int 3))
  | 'e' -> Objects.OCell ([n_of_int 1; n_of_int 1; n_of_int 1; n_of_int 1], [])
  | 'b' -> Objects.OBarrier (nat_of_int (int_of_string (String.sub w 1 (String.length w - 1))), Datatypes.O, [], [], [])
  | 'o' | 'O' -> Objects.OOnce (Objects.OnNone, false, nat_of_int (idx + 1))
  | 'z' -> Objects.OScope (Datatypes.O, Datatypes.O, false)
  | 'q' -> Objects.OCell (Stdlib.List.concat (Stdlib.List.init 4 (fun _ -> [n_of_int 0; n_of_int 1; n_of_int 0])), [])
  | 'k' ->
    (match String.split_on_char ':' (String.sub w 1 (String.length w - 1)) with
     | [init; d] -> Objects.OKey (n_of_string init, (if d = "-" then None else Some (nat_of_int (int_of_string d))))
     | _ -> failwith "bad key spec")
  | 'a' -> Objects.OAtomic (n_of_string (String.sub w 1 (String.length w - 1)), [])
  | 'm' -> SyncOps.mutex_new
  | 'w' -> SyncOps.rwlock_new
  | 's' ->
    (match String.split_on_char ':' (String.sub w 1 (String.length w - 1)) with
     | [n; f] -> SyncOps.semaphore_new (n_of_string n) (f = "f") [BinNums.N0]
     | _ -> failwith "bad semaphore spec")
  | _ -> failwith ("bad object " ^ w)

let parse_aop (ws : string list) : Atomic.aop =
  match ws with
  | ["ld"] -> Atomic.ALoad
  | ["st"; v] -> Atomic.AStore (n_of_string v)
  | ["sw"; v] -> Atomic.ASwap (n_of_string v)
  | ["cas"; c; n] -> Atomic.ACas (n_of_string c, n_of_string n)
  | ["add"; v] -> Atomic.AAdd (n_of_string v)
  | ["sub"; v] -> Atomic.ASub (n_of_string v)
  | ["and"; v] -> Atomic.AAnd (n_of_string v)
  | ["nand"; v] -> Atomic.ANand (n_of_string v)
  | ["or"; v] -> Atomic.AOr (n_of_string v)
  | ["xor"; v] -> Atomic.AXor (n_of_string v)
  | ["max"; v] -> Atomic.AMax (n_of_string v)
  | ["min"; v] -> Atomic.AMin (n_of_string v)
  | _ -> failwith "bad atomic op"

let num_after (w : string) (k : int) : Datatypes.nat = nat_of_int (int_of_string (String.sub w k (String.length w - k)))

let parse_op (w : string) : Prog.op =
  let pre = if String.length w >= 2 then String.sub w 0 2 else w in
  match pre with
  | "sp" -> Prog.PSpawn (num_after w 2)
  | "jn" -> Prog.PJoin (num_after w 2)
  | "yd" -> Prog.PYield
  | "pk" -> Prog.PPark
  | "uh" -> Prog.PUnparkH (num_after w 2)
  | "ut" -> Prog.PUnparkT (num_after w 2)
  | "rn" -> Prog.PRand
  | "rs" -> Prog.PResetSteps
  | "pn" -> Prog.PPanic
  | "sa" | "st" | "sr" ->
    (match String.split_on_char '.' (String.sub w 2 (String.length w - 2)) with
     | [o; n] ->
       let o = nat_of_int (int_of_string o) and n = n_of_string n in
       if pre = "sa" then Prog.PSemAcq (o, n) else if pre = "st" then Prog.PSemTry (o, n) else Prog.PSemRel (o, n)
     | _ -> failwith "bad semaphore op")
  | "sc" -> Prog.PSemClose (num_after w 2)
  | "sv" -> Prog.PSemAvail (num_after w 2)
  | "lk" -> Prog.PLock (num_after w 2)
  | "tl" -> Prog.PTryLock (num_after w 2)
  | "ul" -> Prog.PUnlock (num_after w 2)
  | "rd" -> Prog.PRwLock (num_after w 2, false)
  | "wr" -> Prog.PRwLock (num_after w 2, true)
  | "tr" -> Prog.PRwTry (num_after w 2, false)
  | "tw" -> Prog.PRwTry (num_after w 2, true)
  | "ru" -> Prog.PRwUnlock (num_after w 2)
  | "cw" -> (match String.split_on_char '.' (String.sub w 2 (String.length w - 2)) with
             | [cv; m] -> Prog.PCvWait (nat_of_int (int_of_string cv), nat_of_int (int_of_string m))
             | _ -> failwith "bad cw")
  | "cn" -> Prog.PCvNotify (num_after w 2, false)
  | "ca" -> Prog.PCvNotify (num_after w 2, true)
  | "sd" | "ts" -> (match String.split_on_char '.' (String.sub w 2 (String.length w - 2)) with
             | [ch; slot; v] ->
               let ch = nat_of_int (int_of_string ch) and slot = nat_of_int (int_of_string slot) and v = n_of_string v in
               if pre = "sd" then Prog.PSend (ch, slot, v) else Prog.PTrySend (ch, slot, v)
             | _ -> failwith "bad send")
  | "rc" -> Prog.PRecv (num_after w 2)
  | "tc" -> Prog.PTryRecv (num_after w 2)
  | "dt" -> (match String.split_on_char '.' (String.sub w 2 (String.length w - 2)) with
             | [ch; slot] -> Prog.PDropTx (nat_of_int (int_of_string ch), nat_of_int (int_of_string slot))
             | _ -> failwith "bad dt")
  | "dr" -> Prog.PDropRx (num_after w 2)
  | "ri" -> Prog.PRecvAll (num_after w 2)
  | "bw" -> Prog.PBarrier (num_after w 2)
  | "co" -> (match String.split_on_char '.' (String.sub w 2 (String.length w - 2)) with
             | [o; b] -> Prog.PCallOnce (nat_of_int (int_of_string o), nat_of_int (int_of_string b))
             | _ -> failwith "bad co")
  | "ic" -> Prog.PIsCompleted (num_after w 2)
  | "qn" | "qp" | "qd" ->
    (match Stdlib.List.map int_of_string (String.split_on_char '.' (String.sub w 2 (String.length w - 2))) with
     | [q; slot; o; n] when pre = "qn" -> Prog.PAcqNew (nat_of_int q, nat_of_int slot, nat_of_int o, n_of_int n)
     | [q; slot; o] when pre = "qp" -> Prog.PAcqPoll (nat_of_int q, nat_of_int slot, nat_of_int o)
     | [q; slot; o] when pre = "qd" -> Prog.PAcqDrop (nat_of_int q, nat_of_int slot, nat_of_int o)
     | _ -> failwith "bad acquire-slot op")
  | "lw" -> (match String.split_on_char '.' (String.sub w 2 (String.length w - 2)) with
             | [k; v] -> Prog.PTlsWith (nat_of_int (int_of_string k), n_of_string v)
             | _ -> failwith "bad lw")
  | "id" -> Prog.PThreadId
  | "zc" | "zs" -> (match String.split_on_char '.' (String.sub w 2 (String.length w - 2)) with
             | [z; b] ->
               let z = nat_of_int (int_of_string z) and b = nat_of_int (int_of_string b) in
               if pre = "zc" then Prog.PScope (z, b) else Prog.PScopeSpawn (z, b)
             | _ -> failwith "bad scope op")
  | "as" -> Prog.PASpawn (num_after w 2)
  | "aw" -> Prog.PAwait (num_after w 2)
  | "ab" -> Prog.PAbort (num_after w 2)
  | "dh" -> Prog.PDetach (num_after w 2)
  | "ay" -> Prog.PAYield
  | "bo" -> Prog.PBlockOn (num_after w 2)
  | "if" -> Prog.PIsFinished (num_after w 2)
  | _ ->
    if w.[0] = 'a' then
      (match String.split_on_char '.' w with
       | a :: rest -> Prog.PAtomic (num_after a 1, parse_aop rest)
       | [] -> failwith "bad op")
    else failwith ("bad op " ^ w)

let parse_bodies (s : string) : Prog.op list list =
  Stdlib.List.map (fun b -> Stdlib.List.map parse_op (split_on ';' b)) (String.split_on_char '|' s)

let show_ids (l : Datatypes.nat list) = String.concat "," (Stdlib.List.map (fun n -> string_of_int (int_of_nat n)) l)
let show_opt = function None -> "-" | Some n -> string_of_int (int_of_nat n)
let show_ns (l : BinNums.coq_N list) = String.concat "," (Stdlib.List.map string_of_n l)
let show_clk (l : BinNums.coq_N list) = String.concat "." (Stdlib.List.map string_of_n l)

let show_event (e : Exec.event) : string =
  match e with
  | Exec.EvDecision (_, off, cur, y, ch) ->
    Printf.sprintf "D[%s]c%sy%d>%s" (show_ids off) (show_opt cur) (if y then 1 else 0) (match ch with None -> "x" | Some n -> string_of_int (int_of_nat n))
  | Exec.EvRandom v -> "R" ^ string_of_n v
  | Exec.EvOp (t, tag, vals, clk) -> Printf.sprintf "O%d:%s:%s@%s" (int_of_nat t) (string_of_n tag) (show_ns vals) (show_clk clk)

let show_outcome (o : Exec.outcome) : string =
  match o with
  | Exec.OPass -> "ok"        (* the run returns normally; pass and stopped are told apart by the END records *)
  | Exec.OStopped -> "ok"
  | Exec.ODeadlock ids -> "deadlock:[" ^ show_ids ids ^ "]"
  | Exec.OStepBound -> "stepbound"
  | Exec.OPanic t -> "panic:" ^ string_of_int (int_of_nat t)
  | Exec.OSchedulerBug -> "schedbug"
  | Exec.OFuel -> "fuel"

let show_sched (r : Exec.sstep list) : string =
  String.concat "," (Stdlib.List.rev_map (function Exec.StTask t -> "t" ^ string_of_int (int_of_nat t) | Exec.StRandom -> "r") r)

let fuel = nat_of_int 200000

let run (ws : string list) : string =
  match ws with
  | ["prog"; ms; script; rseed; objs; bodies] ->
    let objs = Stdlib.List.mapi parse_obj (split_on ',' objs) in
    let ((w, _), out) = Prog.run_prog fuel (parse_ms ms) objs (parse_bodies bodies) (parse_script script) (n_of_string rseed) in
    let evs = Stdlib.List.rev_map show_event w.Exec.w_trace in
    String.concat " " (evs @ ["T=" ^ show_outcome out; "S=" ^ show_sched w.Exec.w_e.Exec.recorded])
  | ["progreplay"; ms; steps; vals; objs; bodies] ->
    (* steps: t<id> | r, comma separated; vals: the drawn values, comma separated *)
    let objs = Stdlib.List.mapi parse_obj (split_on ',' objs) in
    let steps = Stdlib.List.map (fun w -> if w = "r" then Exec.StRandom else Exec.StTask (nat_of_int (int_of_string (String.sub w 1 (String.length w - 1))))) (split_on ',' steps) in
    let vals = Stdlib.List.map n_of_string (split_on ',' vals) in
    let ((w, rs), out) = ProgRun.run_prog_replay fuel (parse_ms ms) objs (parse_bodies bodies) steps vals in
    let evs = Stdlib.List.rev_map show_event w.Exec.w_trace in
    String.concat " " (evs @ ["T=" ^ show_outcome out; "S=" ^ show_sched w.Exec.w_e.Exec.recorded; "RP=" ^ (if rs.Replay.rp_failed then "failed" else "ok")])
  | ["scripts"; cap; depth; objs; bodies] ->
    (* schedules of the MODEL of this program as explicit scripts for the scripted scheduler: the exploring scheduler (an
       OCaml closure given to the extracted run_exec) follows a forced prefix of choices and then keeps the running task
       while it is offered (else takes the first offered); every other offered task at every decision is an alternative:
       a preemption (costs one unit of `depth`) when the running task was offered, free otherwise.  Depth-first, at most
       `cap` runs, continuing past deadlocks and panics.  The caller runs each script on both sides. *)
    let cap = int_of_string cap and depth = int_of_string depth in
    let objs = Stdlib.List.mapi parse_obj (split_on ',' objs) in
    let main = Prog.compile (nat_of_int (Stdlib.List.length objs)) (parse_bodies bodies) in
    let store = objs @ [Objects.OJoins []; Objects.OTls []] in
    let out = ref [] and count = ref 0 in
    let rec explore (prefix : int list) (budget : int) =
      if !count < cap then begin
        incr count;
        (* state: (remaining forced indices, decisions so far reversed: (n offered, chosen index, current was offered)) *)
        let sched = { Exec.s_next_task = (fun (forced, log) offered cur _ ->
            let offi = Stdlib.List.map int_of_nat offered in
            let n = Stdlib.List.length offi in
            let rec idx k v = function [] -> None | x :: r -> if x = v then Some k else idx (k + 1) v r in
            let curi = match cur with Some c -> idx 0 (int_of_nat c) offi | None -> None in
            if n = 0 then (None, (forced, log)) else
            let (i, forced') = match forced with
              | f :: r -> (f mod n, r)
              | [] -> ((match curi with Some k -> k | None -> 0), []) in
            (Some (nat_of_int (Stdlib.List.nth offi i)), (forced', (n, i, curi) :: log)));
          Exec.s_next_u64 = (fun st -> (Some (n_of_int 7), st)) } in
        let ((_, (_, log)), _) = Exec.run_exec sched Exec.MSNone fuel main store (prefix, []) in
        let decs = Stdlib.List.rev log in
        let chosen = Stdlib.List.map (fun (_, i, _) -> i) decs in
        out := chosen :: !out;
        let n0 = Stdlib.List.length prefix in
        Stdlib.List.iteri (fun pos (k, ci, curi) ->
            if pos >= n0 then begin
              let cost = match curi with Some _ -> 1 | None -> 0 in
              if budget >= cost then
                for alt = 0 to k - 1 do
                  if alt <> ci then begin
                    let pre = Stdlib.List.filteri (fun j _ -> j < pos) chosen in
                    explore (pre @ [alt]) (budget - cost)
                  end
                done
            end) decs
      end in
    explore [] depth;
    String.concat "|" (Stdlib.List.rev_map (fun p -> if p = [] then "-" else String.concat "," (Stdlib.List.map string_of_int p)) !out)
  | ["timelimit"; budget; bits; objs; bodies] ->
    (* bits: one character per clock reading, 1 = the limit was found expired *)
    let expired = Stdlib.List.init (String.length bits) (fun i -> bits.[i] = '1') in
    let objs = Stdlib.List.mapi parse_obj (split_on ',' objs) in
    "N=" ^ string_of_int (int_of_nat (Prog.prog_count_t expired (nat_of_int (int_of_string budget)) fuel objs (parse_bodies bodies)))
  | ["progdfs"; ms; mi; allow; objs; bodies] ->
    let cap = 3000 in
    let mi = if mi = "-" then cap else min (int_of_string mi) cap in
    let objs = Stdlib.List.mapi parse_obj (split_on ',' objs) in
    let ((execs, _), _) = Prog.run_prog_dfs (nat_of_int (cap + 1)) fuel (parse_ms ms) (Some (nat_of_int mi)) (allow = "1") objs (parse_bodies bodies) in
    let failed = Stdlib.List.exists (fun (_, o) -> Runner.is_failure o) execs in
    let draws w = String.concat "." (Stdlib.List.rev (Stdlib.List.filter_map (function Exec.EvRandom v -> Some (string_of_n v) | _ -> None) w.Exec.w_trace)) in
    let show (w, o) = "S=" ^ show_sched w.Exec.w_e.Exec.recorded ^ ":R=" ^ draws w ^ ":T=" ^ show_outcome o in
    "N=" ^ (if failed then "fail" else string_of_int (Stdlib.List.length execs)) ^ " " ^ String.concat " | " (Stdlib.List.map show execs)
  (* outcomes <cap> <ms> <objs> <bodies>: the model's check_dfs over the program; the distinct outcomes (per-task operation results
     and termination) in the harness's format, and whether the enumeration was complete *)
  | ["outcomes"; cap; ms; objs; bodies] ->
    let cap = int_of_string cap in
    let objs = Stdlib.List.mapi parse_obj (split_on ',' objs) in
    let ((execs, _), _) = Prog.run_prog_dfs (nat_of_int (cap + 1)) fuel (parse_ms ms) (Some (nat_of_int cap)) false objs (parse_bodies bodies) in
    let n = Stdlib.List.length execs in
    let failed = Stdlib.List.exists (fun (_, o) -> Runner.is_failure o) execs in
    let module SS = Set.Make (String) in
    let module IM = Map.Make (Int) in
    let outs = ref SS.empty in
    Stdlib.List.iteri (fun i (w, o) ->
      let per = ref IM.empty in
      Stdlib.List.iter (function
        | Exec.EvOp (t, tag, vals, _) ->
          let tg = string_of_n tag in
          if tg <> "9" && tg <> "30" then begin
            let t = int_of_nat t in
            let cur = (try IM.find t !per with Not_found -> []) in
            per := IM.add t ((tg ^ ":" ^ show_ns vals) :: cur) !per
          end
        | _ -> ()) (Stdlib.List.rev w.Exec.w_trace);
      let term = if i + 1 = n && Runner.is_failure o then show_outcome o else "ok" in
      let s = String.concat ";" (Stdlib.List.map (fun (t, v) -> string_of_int t ^ "=" ^ String.concat "," (Stdlib.List.rev v)) (IM.bindings !per)) in
      outs := SS.add (s ^ "#" ^ term) !outs) execs;
    Printf.sprintf "N=%d complete=%d %s" n (if (not failed) && n < cap then 1 else 0) (String.concat "|" (SS.elements !outs))
  | _ -> failwith "prog: bad case"
