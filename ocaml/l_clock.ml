(* clock layer: clock <op;op;...>   registers r0..r3 hold vector clocks (initially empty)
   n<i> new | e<i>.<id> extend | i<i>.<id> increment | u<i>.<j> update i with j | p<i>.<j> partial_cmp | g<i>.<k> get
   every op prints its result; a Rust panic is C *)
open Util

let show_clock (c : BinNums.coq_N list) = "[" ^ String.concat "." (Stdlib.List.map string_of_n c) ^ "]"

let run (ws : string list) : string =
  match ws with
  | ["clock"; ops] ->
    let regs = Array.make 4 ([] : BinNums.coq_N list) in
    let out = Stdlib.List.map (fun w ->
      let args = Stdlib.List.map int_of_string (String.split_on_char '.' (String.sub w 1 (String.length w - 1))) in
      match w.[0], args with
      | 'n', [i] -> regs.(i) <- []; show_clock regs.(i)
      | 'e', [i; id] -> (match VClock.extend regs.(i) (nat_of_int id) with Some c -> regs.(i) <- c; show_clock c | None -> "C")
      | 'i', [i; id] -> (match VClock.increment regs.(i) (nat_of_int id) with Some c -> regs.(i) <- c; show_clock c | None -> "C")
      | 'u', [i; j] -> regs.(i) <- VClock.update regs.(i) regs.(j); show_clock regs.(i)
      | 'p', [i; j] -> (match VClock.partial_cmp regs.(i) regs.(j) with
                        | Some VClock.Less -> "L" | Some VClock.Equal -> "E" | Some VClock.Greater -> "G" | None -> "N")
      | 'g', [i; k] -> (match Stdlib.List.nth_opt regs.(i) k with Some v -> string_of_n v | None -> "C")
      | _ -> failwith ("clock: bad op " ^ w)) (split_on ';' ops) in
    String.concat " " out
  | _ -> failwith "clock: bad case"
