(* vmodel <layer> : reads one case per line on stdin, prints one result line per case *)
let () =
  let layer = if Array.length Sys.argv > 1 then Sys.argv.(1) else "" in
  let run = match layer with
    | "codec" -> L_codec.run
    | "prog" -> L_prog.run
    | "sched" -> L_sched.run
    | "clock" -> L_clock.run
    | "history" -> L_history.run
    | "pl" -> L_pl.run
    | "tok" -> L_tok.run
    | _ -> prerr_endline "usage: vmodel <codec>"; exit 2 in
  try
    while true do
      let line = input_line stdin in
      if line <> "" && line.[0] <> '#' then begin
        (try print_string (run (Util.words line)) with
         | Failure m -> print_string ("ERR " ^ m)
         | Stack_overflow -> print_string "ERR stack overflow");
        print_newline ()
      end
    done
  with End_of_file -> ()
