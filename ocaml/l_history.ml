(* history layer (model side): history <run;run;...>  run = <thread>.<none|print|file>.<ok|panic|deadlock|stepbound>.<len>.<passing_before>
   prints for every run what the model says is emitted: - | P | F (concatenated if several) *)
open Util

let run (ws : string list) : string =
  match ws with
  | ["history"; runs] ->
    let parse r =
      match String.split_on_char '.' r with
      | [t; cfg; kind; len; pb] ->
        let cfg = (match cfg with "none" -> Failure.PNone | "print" -> Failure.PPrint | _ -> Failure.PFile) in
        let fail = (match kind with
          | "ok" -> None
          | "panic" -> Some (Failure.FkTaskPanic, nat_of_int (int_of_string len))
          | "deadlock" -> Some (Failure.FkDeadlock, nat_of_int (int_of_string len))
          | _ -> Some (Failure.FkStepBound, nat_of_int (int_of_string len))) in
        { Failure.r_thread = nat_of_int (int_of_string t); Failure.r_cfg = cfg; Failure.r_fail = fail; Failure.r_passing_before = nat_of_int (int_of_string pb) }
      | _ -> failwith "bad run" in
    let (es, _) = Failure.do_history Failure.init_pstate (Stdlib.List.map parse (split_on ';' runs)) in
    String.concat " " (Stdlib.List.map (fun e -> if e = [] then "-" else String.concat "" (Stdlib.List.map (function Failure.EmStderr -> "P" | Failure.EmFile -> "F") e)) es)
  | _ -> failwith "history: bad case"
