(* history layer (model side): history <run;run;...>  run = <thread>.<none|print|file>.<ok|panic|deadlock|stepbound>.<len>.<passing_before>
   prints for every run what the model says is emitted: - | P | F (concatenated if several) *)
open Util

let run (ws : string list) : string =
  match ws with
  | ["history"; runs] ->
    let parse r =
      match String.split_on_char '.' r with
      | [t; cfg; kind; len; pb] ->
        let cfg = (match cfg with "none" -> Failure.PNone | "print" -> Failure.PPrint | _ -> Failure.PFile) in
        let fail = (match kind with
          | "ok" -> None
          | "panic" -> Some (Failure.FkTaskPanic, nat_of_int (int_of_string len))
          | "deadlock" -> Some (Failure.FkDeadlock, nat_of_int (int_of_string len))
          | _ -> Some (Failure.FkStepBound, nat_of_int (int_of_string len))) in
        { Failure.r_thread = nat_of_int (int_of_string t); Failure.r_cfg = cfg; Failure.r_fail = fail; Failure.r_passing_before = nat_of_int (int_of_string pb) }
      | _ -> failwith "bad run" in
    let (es, _) = Failure.do_history Failure.init_pstate (Stdlib.List.map parse (split_on ';' runs)) in
    String.concat " " (Stdlib.List.map (fun e -> if e = [] then "-" else String.concat "" (Stdlib.List.map (function Failure.EmStderr -> "P" | Failure.EmFile -> "F") e)) es)
  (* portfolio <stop 0|1> <r,r,...>   r = 0 (passed) | n>0 (panicked with payload class n): what PortfolioRunner::run does *)
  | ["portfolio"; stop; rs] ->
    let rs = Stdlib.List.map (fun r -> let i = int_of_string r in if i = 0 then None else Some (nat_of_int i)) (split_on ',' rs) in
    (match Failure.portfolio_run (stop = "1") rs with
     | Failure.PfOk -> "P=0"
     | Failure.PfMember e -> "P=" ^ string_of_int (int_of_nat e)
     | Failure.PfAssert -> "P=assert")
  (* shutdown <thread.early.drop;...> <thread> <early> <drop> <unwinding switches 0|1>: the settings in force during a run after
     a history of runs, and the payload of a panic with own payload 1 *)
  | ["shutdown"; hist; t; e; d; sw] ->
    let b x = (x = "1") in
    let parse r = (match String.split_on_char '.' r with
      | [t; e; d] -> (nat_of_int (int_of_string t), { Failure.ug_early = b e; Failure.ug_drop = b d })
      | _ -> failwith "bad run") in
    let s = Failure.ug_history [] (Stdlib.List.map parse (split_on ';' hist)) in
    let (eff, _) = Failure.ug_run s (nat_of_int (int_of_string t)) { Failure.ug_early = b e; Failure.ug_drop = b d } in
    let pay = (match Failure.panic_result eff (b sw) (nat_of_int 1) with Failure.PayOwn _ -> "own" | Failure.PayEarlyReturn -> "early") in
    Printf.sprintf "E=%d D=%d pay=%s" (if eff.Failure.ug_early then 1 else 0) (if eff.Failure.ug_drop then 1 else 0) pay
  | _ -> failwith "history: bad case"
