(* codec layer:  ser <seed> <steps>   |   deser <codepoints>
   steps: comma separated, r = Random, t<id> = Task id, - = empty
   codepoints: comma separated decimal scalar values, - = empty *)
open Util

let parse_step (w : string) : Schedule.step =
  if w = "r" then Schedule.Random
  else if String.length w > 1 && w.[0] = 't' then Schedule.Task (n_of_string (String.sub w 1 (String.length w - 1)))
  else failwith ("bad step " ^ w)

let show_step = function Schedule.Random -> "r" | Schedule.Task id -> "t" ^ string_of_n id
let show_steps ss = if ss = [] then "-" else String.concat "," (Stdlib.List.map show_step ss)

let show_text (cs : BinNums.coq_N list) : string =
  let b = Buffer.create 256 in
  Stdlib.List.iter (fun c -> let i = int_of_n c in if i = 10 then Buffer.add_char b '|' else Buffer.add_char b (Char.chr i)) cs;
  Buffer.contents b

let run (ws : string list) : string =
  match ws with
  | ["ser"; seed; steps] ->
    let s = { Schedule.seed = n_of_string seed; Schedule.steps = Stdlib.List.map parse_step (split_on ',' steps) } in
    "S " ^ show_text (Schedule.ser s)
  | ["deser"; cps] ->
    let t = Stdlib.List.map n_of_string (split_on ',' cps) in
    (match Schedule.deser t with
     | Schedule.Decoded s -> "D " ^ string_of_n s.Schedule.seed ^ " " ^ show_steps s.Schedule.steps
     | Schedule.Invalid -> "I"
     | Schedule.Crash -> "C")
  | _ -> failwith "codec: bad case"
