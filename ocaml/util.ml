(* I/O glue between text case files and the extracted model.  Trusted for parsing/printing only. *)
open BinNums

let rec pos_of_int (i : int) : positive =
  if i = 1 then Coq_xH
  else if i land 1 = 0 then Coq_xO (pos_of_int (i lsr 1))
  else Coq_xI (pos_of_int (i lsr 1))

let n_of_int (i : int) : coq_N = if i = 0 then N0 else Npos (pos_of_int i)

let n10 = n_of_int 10

(* decimal string -> N, any size *)
let n_of_string (s : string) : coq_N =
  let acc = ref N0 in
  String.iter (fun c ->
    if c < '0' || c > '9' then failwith ("bad number: " ^ s);
    acc := BinNat.N.add (BinNat.N.mul !acc n10) (n_of_int (Char.code c - 48))) s;
  !acc

let rec int_of_pos (p : positive) : int =
  match p with Coq_xH -> 1 | Coq_xO q -> 2 * int_of_pos q | Coq_xI q -> 2 * int_of_pos q + 1

(* only for values known to be small (code points, bytes, ids of generated programs) *)
let int_of_n (n : coq_N) : int = match n with N0 -> 0 | Npos p -> int_of_pos p

(* N -> decimal string, any size *)
let string_of_n (n : coq_N) : string =
  if n = N0 then "0" else begin
    let b = Buffer.create 20 in
    let rec go n acc =
      if n = N0 then acc
      else
        let q = BinNat.N.div n n10 and r = BinNat.N.modulo n n10 in
        go q (Char.chr (48 + int_of_n r) :: acc) in
    Stdlib.List.iter (Buffer.add_char b) (go n []);
    Buffer.contents b
  end

let rec nat_of_int (i : int) : Datatypes.nat = if i = 0 then Datatypes.O else Datatypes.S (nat_of_int (i - 1))
let rec int_of_nat (n : Datatypes.nat) : int = match n with Datatypes.O -> 0 | Datatypes.S m -> 1 + int_of_nat m

let split_on c s = if s = "-" || s = "" then [] else String.split_on_char c s

let words s = Stdlib.List.filter (fun w -> w <> "") (String.split_on_char ' ' s)
