(* sched layer: the built-in schedulers driven directly (no runtime).
   dfs <maxiter|-> <bound|-> <tree>        tree: '[' (id tree)* ']'   e.g. [0[0[]1[]]1[]]
   random <seed> <iters> <calls>           calls: E | U | T<n> | T:<id.id.id>   comma separated *)
open Util

let parse_tree (s : string) : Dfs.tree =
  let pos = ref 0 in
  let rec node () : Dfs.tree =
    if s.[!pos] <> '[' then failwith "tree: expected [";
    incr pos;
    let kids = ref [] in
    while s.[!pos] <> ']' do
      let st = !pos in
      while s.[!pos] >= '0' && s.[!pos] <= '9' do incr pos done;
      let id = n_of_string (String.sub s st (!pos - st)) in
      let sub = node () in
      kids := (id, sub) :: !kids
    done;
    incr pos;
    Dfs.Node (Stdlib.List.rev !kids) in
  node ()

let opt_nat s = if s = "-" then None else Some (nat_of_int (int_of_string s))

let show_paths ps =
  String.concat "|" (Stdlib.List.map (fun p -> if p = [] then "e" else String.concat "." (Stdlib.List.map string_of_n p)) ps)

let rec range a b = if a >= b then [] else n_of_int a :: range (a + 1) b

let run (ws : string list) : string =
  match ws with
  | ["dfs"; mi; bound; tree] ->
    (match Dfs.dfs_outcome (nat_of_int 200000) (opt_nat mi) (opt_nat bound) (parse_tree tree) with
     | Dfs.Finished ps -> "P " ^ show_paths ps
     | Dfs.OutOfFuel -> "FUEL"
     | Dfs.Crashed -> "C"
     | Dfs.BadChoice -> "BAD")
  | ["random"; seed; iters; calls] ->
    let r = ref (Random.rs_new_from_seed (n_of_string seed) (n_of_string iters)) in
    let out = Stdlib.List.map (fun c ->
      if c = "E" then
        (match Random.rs_new_execution !r with
         | None -> "eN"
         | Some (s, r') -> r := r'; "e" ^ string_of_n s)
      else if c = "U" then
        (let (x, r') = Random.rs_next_u64 !r in r := r'; "u" ^ string_of_n x)
      else begin
        let ids =
          if String.length c > 1 && c.[1] = ':' then Stdlib.List.map n_of_string (String.split_on_char '.' (String.sub c 2 (String.length c - 2)))
          else range 0 (int_of_string (String.sub c 1 (String.length c - 1))) in
        match Random.rs_next_task (nat_of_int 10000) !r ids with
        | Random.Done (t, r') -> r := r'; "t" ^ string_of_n t
        | Random.Panic -> "C"
        | Random.OutOfFuel -> "FUEL"
        | Random.NotModelled -> "NM"
      end) (split_on ',' calls) in
    String.concat "," out
  | ["pct"; seed; depth; iters; calls] ->
    (* debug build of the harness: dbg = true *)
    let fuel = nat_of_int 10000 in
    (match Pct.pct_new_from_seed (n_of_string seed) (n_of_string depth) (n_of_string iters) with
     | Random.Done p0 ->
       let p = ref p0 in
       let dead = ref false in
       let out = ref [] in
       Stdlib.List.iter (fun c ->
         if not !dead then begin
           let fail s = dead := true; out := s :: !out in
           if c = "E" then
             (match Pct.pct_new_execution true fuel !p with
              | Random.Done None -> out := "eN" :: !out
              | Random.Done (Some (s, p')) -> p := p'; out := ("e" ^ string_of_n s) :: !out
              | Random.Panic -> fail "P" | Random.OutOfFuel -> fail "FUEL" | Random.NotModelled -> fail "NM")
           else if c = "U" then
             (let (x, p') = Pct.pct_next_u64 !p in p := p'; out := ("u" ^ string_of_n x) :: !out)
           else begin
             match String.split_on_char ':' c with
             | [_; ids; cur; y] ->
               let ids = Stdlib.List.map n_of_string (String.split_on_char '.' ids) in
               let cur = if cur = "-" then None else Some (n_of_string cur) in
               (match Pct.pct_next_task true fuel !p ids cur (y = "1") with
                | Random.Done (t, p') -> p := p'; out := ("t" ^ string_of_n t) :: !out
                | Random.Panic -> fail "P" | Random.OutOfFuel -> fail "FUEL" | Random.NotModelled -> fail "NM")
             | _ -> failwith "pct: bad call"
           end
         end) (split_on ',' calls);
       String.concat "," (Stdlib.List.rev !out)
     | _ -> "P")
  | _ -> failwith "sched: bad case"
