(* sched layer: the built-in schedulers driven directly (no runtime).
   dfs <maxiter|-> <bound|-> <tree>        tree: '[' (id tree)* ']'   e.g. [0[0[]1[]]1[]]
   random <seed> <iters> <calls>           calls: E | U | T<n> | T:<id.id.id>   comma separated *)
open Util

let parse_tree (s : string) : Dfs.tree =
  let pos = ref 0 in
  let rec node () : Dfs.tree =
    if s.[!pos] <> '[' then failwith "tree: expected [";
    incr pos;
    let kids = ref [] in
    while s.[!pos] <> ']' do
      let st = !pos in
      while s.[!pos] >= '0' && s.[!pos] <= '9' do incr pos done;
      let id = n_of_string (String.sub s st (!pos - st)) in
      let sub = node () in
      kids := (id, sub) :: !kids
    done;
    incr pos;
    Dfs.Node (Stdlib.List.rev !kids) in
  node ()

let opt_nat s = if s = "-" then None else Some (nat_of_int (int_of_string s))

let show_paths ps =
  String.concat "|" (Stdlib.List.map (fun p -> if p = [] then "e" else String.concat "." (Stdlib.List.map string_of_n p)) ps)

let rec range a b = if a >= b then [] else n_of_int a :: range (a + 1) b

(* rtarget <seed> <target a.b.c | -> <allow_incomplete 0|1> <steps t3,r,t2 | -> <calls>
   calls: E | U | T:<id>@<a.b.c>/<id>@<a.b>   (the offered tasks with their clocks) *)
let parse_clock (s : string) : BinNums.coq_N list = Stdlib.List.map n_of_string (String.split_on_char '.' s)

let run_rtarget seed target allow steps calls : string =
  let target = if target = "-" then None else Some (parse_clock target) in
  let allow = allow = "1" in
  let steps = if steps = "-" then [] else
      Stdlib.List.map (fun w -> if w = "r" then Exec.StRandom else Exec.StTask (nat_of_int (int_of_string (String.sub w 1 (String.length w - 1)))))
        (String.split_on_char ',' steps) in
  let ds = ref (Random.ds_initialize (n_of_string seed)) in
  let started = ref false in
  let take_vals k =
    let d = ref !ds and out = ref [] in
    for _ = 1 to k do let (v, d') = Random.ds_next_u64 !d in out := v :: !out; d := d' done;
    Stdlib.List.rev !out in
  let advance k = for _ = 1 to k do let (_, d') = Random.ds_next_u64 !ds in ds := d' done in
  let st = ref { ReplayTarget.rt_steps = steps; rt_vals = []; rt_skipped = nat_of_int 0 } in
  let out = ref [] in
  (try
     Stdlib.List.iter (fun c ->
       if c = "E" then begin
         if !started then out := "eN" :: !out
         else begin
           started := true;
           let (s, d') = Random.ds_reinitialize !ds in
           ds := d'; out := ("e" ^ string_of_n s) :: !out
         end
       end else begin
         let k = Stdlib.List.length !st.ReplayTarget.rt_steps + 1 in
         let vals = take_vals k in
         st := { !st with ReplayTarget.rt_vals = vals };
         if c = "U" then begin
           match ReplayTarget.rt_next_u64 !st with
           | (Some v, st') -> advance 1; st := st'; out := ("u" ^ string_of_n v) :: !out
           | (None, _) -> out := "P" :: !out; raise Exit
         end else begin
           let body = String.sub c 2 (String.length c - 2) in
           let offered = Stdlib.List.map (fun w ->
               match String.split_on_char '@' w with
               | [i; clk] -> (nat_of_int (int_of_string i), parse_clock clk)
               | _ -> failwith "rtarget: bad task") (String.split_on_char '/' body) in
           let (a, st') = ReplayTarget.rt_next_task target !st offered in
           advance (k - Stdlib.List.length st'.ReplayTarget.rt_vals);
           st := st';
           match a with
           | ReplayTarget.RtRun t -> out := ("t" ^ string_of_int (int_of_nat t)) :: !out
           | ReplayTarget.RtEnded | ReplayTarget.RtNotRunnable _ ->
             if allow then out := "x" :: !out else (out := "P" :: !out; raise Exit)
           | ReplayTarget.RtWantedSwitch -> out := "P" :: !out; raise Exit
         end
       end) (String.split_on_char ',' calls)
   with Exit -> ());
  String.concat "," (Stdlib.List.rev !out)

(* urw <seed> <iters> <tasks id:parent|-:loc:sig:psig,...> <calls E | U | T:<id.id.id>> *)
let run_urw seed iters tasks calls : string =
  let tab = Hashtbl.create 16 in
  Stdlib.List.iter (fun w ->
    match String.split_on_char ':' w with
    | [id; par; _loc; sg; psg] ->
      Hashtbl.replace tab (int_of_string id)
        { Urw.ut_id = nat_of_int (int_of_string id);
          ut_parent = (if par = "-" then None else Some (nat_of_int (int_of_string par)));
          ut_sig = n_of_string sg; ut_psig = n_of_string psg }
    | _ -> failwith "urw: bad task") (String.split_on_char ',' tasks);
  let u = ref (Urw.urw_new_from_seed (n_of_string seed) (n_of_string iters)) in
  let out = ref [] in
  (try
     Stdlib.List.iter (fun c ->
       if c = "E" then begin
         match Urw.urw_new_execution !u with
         | None -> out := "eN" :: !out; raise Exit
         | Some None -> out := "P" :: !out; raise Exit
         | Some (Some (s, u')) -> u := u'; out := ("e" ^ string_of_n s) :: !out
       end else if c = "U" then begin
         let (x, u') = Urw.urw_next_u64 !u in u := u'; out := ("u" ^ string_of_n x) :: !out
       end else begin
         let ids = Stdlib.List.map int_of_string (String.split_on_char '.' (String.sub c 2 (String.length c - 2))) in
         let ts = Stdlib.List.map (fun i -> Hashtbl.find tab i) ids in
         match Urw.urw_next_task (nat_of_int 10000) !u ts with
         | Random.Done (t, u') -> u := u'; out := ("t" ^ string_of_int (int_of_nat t)) :: !out
         | Random.Panic -> out := "P" :: !out; raise Exit
         | Random.OutOfFuel -> out := "FUEL" :: !out; raise Exit
         | Random.NotModelled -> out := "NM" :: !out; raise Exit
       end) (String.split_on_char ',' calls)
   with Exit -> ());
  String.concat "," (Stdlib.List.rev !out)

let run (ws : string list) : string =
  match ws with
  | ["urw"; seed; iters; tasks; calls] -> run_urw seed iters tasks calls
  | ["rtarget"; seed; target; allow; steps; calls] -> run_rtarget seed target allow steps calls
  | ["dfs"; mi; bound; tree] ->
    (match Dfs.dfs_outcome (nat_of_int 200000) (opt_nat mi) (opt_nat bound) (parse_tree tree) with
     | Dfs.Finished ps -> "P " ^ show_paths ps
     | Dfs.OutOfFuel -> "FUEL"
     | Dfs.Crashed -> "C"
     | Dfs.BadChoice -> "BAD")
  | ["random"; seed; iters; calls] ->
    let r = ref (Random.rs_new_from_seed (n_of_string seed) (n_of_string iters)) in
    let out = Stdlib.List.map (fun c ->
      if c = "E" then
        (match Random.rs_new_execution !r with
         | None -> "eN"
         | Some (s, r') -> r := r'; "e" ^ string_of_n s)
      else if c = "U" then
        (let (x, r') = Random.rs_next_u64 !r in r := r'; "u" ^ string_of_n x)
      else begin
        let ids =
          if String.length c > 1 && c.[1] = ':' then Stdlib.List.map n_of_string (String.split_on_char '.' (String.sub c 2 (String.length c - 2)))
          else range 0 (int_of_string (String.sub c 1 (String.length c - 1))) in
        match Random.rs_next_task (nat_of_int 10000) !r ids with
        | Random.Done (t, r') -> r := r'; "t" ^ string_of_n t
        | Random.Panic -> "C"
        | Random.OutOfFuel -> "FUEL"
        | Random.NotModelled -> "NM"
      end) (split_on ',' calls) in
    String.concat "," out
  | ["pct"; seed; depth; iters; calls] ->
    (* debug build of the harness: dbg = true *)
    let fuel = nat_of_int 10000 in
    (match Pct.pct_new_from_seed (n_of_string seed) (n_of_string depth) (n_of_string iters) with
     | Random.Done p0 ->
       let p = ref p0 in
       let dead = ref false in
       let out = ref [] in
       Stdlib.List.iter (fun c ->
         if not !dead then begin
           let fail s = dead := true; out := s :: !out in
           if c = "E" then
             (match Pct.pct_new_execution true fuel !p with
              | Random.Done None -> out := "eN" :: !out
              | Random.Done (Some (s, p')) -> p := p'; out := ("e" ^ string_of_n s) :: !out
              | Random.Panic -> fail "P" | Random.OutOfFuel -> fail "FUEL" | Random.NotModelled -> fail "NM")
           else if c = "U" then
             (let (x, p') = Pct.pct_next_u64 !p in p := p'; out := ("u" ^ string_of_n x) :: !out)
           else begin
             match String.split_on_char ':' c with
             | [_; ids; cur; y] ->
               let ids = Stdlib.List.map n_of_string (String.split_on_char '.' ids) in
               let cur = if cur = "-" then None else Some (n_of_string cur) in
               (match Pct.pct_next_task true fuel !p ids cur (y = "1") with
                | Random.Done (t, p') -> p := p'; out := ("t" ^ string_of_n t) :: !out
                | Random.Panic -> fail "P" | Random.OutOfFuel -> fail "FUEL" | Random.NotModelled -> fail "NM")
             | _ -> failwith "pct: bad call"
           end
         end) (split_on ',' calls);
       String.concat "," (Stdlib.List.rev !out)
     | _ -> "P")
  | _ -> failwith "sched: bad case"
