(* tok layer (C19): tok <ms> <script> <rseed> <objs> <bodies>   (formats: see harness/src/l_tok.rs) *)
open Util

type okind = KChan | KSem | KMutex | KRw of BinNums.coq_N | KNotify | KOneshot | KWatch | KOnceCell

let usize_max_shr3 = n_of_string "2305843009213693951"
let clock0 = [BinNums.N0]

(* every object with its kind and its index in the model's store *)
let parse_objs (s : string) : (okind * int) list * Objects.obj list =
  let next = ref 0 in
  let kinds = ref [] and objs = ref [] in
  Stdlib.List.iter (fun w ->
    let rest = String.sub w 1 (String.length w - 1) in
    let base = !next in
    let (k, os) =
      match w.[0] with
      | 'c' ->
        (match String.split_on_char ':' rest with
         | [b; ns] ->
           let ns = int_of_string ns in
           if ns < 1 || ns > 3 then failwith ("bad object " ^ w);
           let bound = if b = "U" then None else Some (n_of_string (String.sub b 1 (String.length b - 1))) in
           (KChan, TokOps.mpsc_new bound (nat_of_int ns) clock0)
         | _ -> failwith ("bad object " ^ w))
      | 's' -> (KSem, [TokOps.tok_sem_new (n_of_string rest) clock0])
      | 'm' -> (KMutex, [TokOps.tok_sem_new (n_of_int 1) clock0])
      | 'w' ->
        let k = if rest = "" then usize_max_shr3 else n_of_string rest in
        (KRw k, [TokOps.tok_sem_new k clock0])
      | 'n' -> (KNotify, [TokNotify.notify_new])
      | 'o' -> (KOneshot, [TokNotify.oneshot_new])
      | 'x' -> (KOnceCell, Tok.oc_new)
      | 'h' ->
        (match String.split_on_char ':' rest with
         | [init; ntx; nrx] ->
           let ntx = int_of_string ntx and nrx = int_of_string nrx in
           if ntx < 1 || ntx > 2 || nrx < 1 || nrx > 3 then failwith ("bad object " ^ w);
           (KWatch, TokWatch.watch_new (n_of_string init) (nat_of_int ntx) (nat_of_int nrx) clock0)
         | _ -> failwith ("bad object " ^ w))
      | _ -> failwith ("bad object " ^ w) in
    next := !next + Stdlib.List.length os;
    kinds := (k, base) :: !kinds;
    objs := !objs @ os) (split_on ',' s);
  (Stdlib.List.rev !kinds, !objs)

let parse_op (kinds : (okind * int) list) (w : string) : Tok.top =
  if String.length w < 2 then failwith ("bad op " ^ w);
  let pre = String.sub w 0 2 in
  let rest = String.sub w 2 (String.length w - 2) in
  let args = if rest = "" then [] else String.split_on_char '.' rest in
  let arg i = match Stdlib.List.nth_opt args i with Some x -> x | None -> failwith ("bad op " ^ w) in
  let ai i = int_of_string (arg i) in
  let nat i = nat_of_int (ai i) in
  let kind_of i = match Stdlib.List.nth_opt kinds (ai i) with Some k -> k | None -> failwith ("bad object in " ^ w) in
  (* the store index of object number (arg i) *)
  let ob i = nat_of_int (snd (kind_of i)) in
  let nowhere = nat_of_int 99999 in
  match pre with
  | "st" -> Tok.TSpawnT (nat 0)
  | "jt" -> Tok.TJoinT (nat 0)
  | "sa" -> Tok.TSpawnA (nat 0)
  | "aw" -> Tok.TAwaitA (nat 0)
  | "yd" -> Tok.TYield
  | "sd" -> Tok.TSend (nat_of_int 0, ob 0, nat 1, n_of_string (arg 2))
  | "bs" -> Tok.TSend (nat_of_int 1, ob 0, nat 1, n_of_string (arg 2))
  | "ts" -> Tok.TSend (nat_of_int 2, ob 0, nat 1, n_of_string (arg 2))
  | "rc" -> Tok.TRecv (nat_of_int 0, ob 0)
  | "br" -> Tok.TRecv (nat_of_int 1, ob 0)
  | "tr" -> Tok.TRecv (nat_of_int 2, ob 0)
  | "cr" -> Tok.TCloseRx (ob 0)
  | "dr" -> Tok.TDropRx (ob 0)
  | "dt" -> Tok.TDropTx (ob 0, nat 1)
  | "ci" -> Tok.TChanInfo (ob 0)
  | "ac" -> Tok.TAcq (n_of_int 70, false, ob 0, n_of_string (arg 1))
  | "ta" -> Tok.TTry (n_of_int 71, true, ob 0, n_of_string (arg 1))
  | "ad" -> Tok.TAdd (ob 0, n_of_string (arg 1))
  | "rl" -> Tok.TRel (ob 0)
  | "fg" -> (match fst (kind_of 0) with KSem -> Tok.TForget (ob 0) | _ -> Tok.TForget nowhere)
  | "sc" -> Tok.TSemClose (ob 0)
  | "si" -> Tok.TSemInfo (ob 0)
  | "lk" -> Tok.TAcq (n_of_int 77, true, ob 0, n_of_int 1)
  | "tl" -> Tok.TTry (n_of_int 78, false, ob 0, n_of_int 1)
  | "rd" -> Tok.TAcq (n_of_int 79, true, ob 0, n_of_int 1)
  | "tR" -> Tok.TTry (n_of_int 87, false, ob 0, n_of_int 1)
  | "wr" | "tW" ->
    let k = match fst (kind_of 0) with KRw k -> k | _ -> failwith ("not a rwlock in " ^ w) in
    if pre = "wr" then Tok.TAcq (n_of_int 86, true, ob 0, k) else Tok.TTry (n_of_int 88, false, ob 0, k)
  | "nf" -> Tok.TNotified (ob 0)
  | "en" -> Tok.TEnable (nat 0)
  | "an" -> Tok.TAwaitN (nat 0)
  | "dn" -> Tok.TDropN (nat 0)
  | "no" -> Tok.TNotifyOne (ob 0)
  | "na" -> Tok.TNotifyAll (ob 0)
  | "os" -> Tok.TOsSend (ob 0, n_of_string (arg 1))
  | "or" -> Tok.TOsRecv (nat_of_int 0, ob 0)
  | "ot" -> Tok.TOsRecv (nat_of_int 2, ob 0)
  | "oc" -> Tok.TOsClose (ob 0)
  | "ox" -> Tok.TOsDropTx (ob 0)
  | "oy" -> Tok.TOsDropRx (ob 0)
  | "ws" -> Tok.TWSend (ob 0, nat 1, n_of_string (arg 2))
  | "wm" -> Tok.TWModify (ob 0, nat 1, n_of_string (arg 2), ai 3 = 1)
  | "wp" -> Tok.TWReplace (ob 0, nat 1, n_of_string (arg 2))
  | "wb" -> Tok.TWBorrow (ob 0, nat 1)
  | "wu" -> Tok.TWBorrowUpd (ob 0, nat 1)
  | "wh" -> Tok.TWHasChanged (ob 0, nat 1)
  | "wc" -> Tok.TWChanged (ob 0, nat 1)
  | "wf" -> Tok.TWWaitFor (ob 0, nat 1, n_of_string (arg 2))
  | "wx" -> Tok.TWDropTx (ob 0, nat 1)
  | "wy" -> Tok.TWDropRx (ob 0, nat 1)
  | "wn" -> Tok.TWSubscribe (ob 0, nat 1, nat 2)
  | "wl" -> Tok.TWClosed (ob 0, nat 1)
  | "wi" -> Tok.TWInfo (ob 0, nat 1)
  | "dg" -> (match fst (kind_of 0) with KRw k -> Tok.TDowngrade (ob 0, k) | _ -> failwith ("not a rwlock in " ^ w))
  | "mg" -> (match fst (kind_of 0) with KSem -> Tok.TMerge (ob 0) | _ -> Tok.TMerge nowhere)
  | "sp" -> (match fst (kind_of 0) with KSem -> Tok.TSplit (ob 0, n_of_string (arg 1)) | _ -> Tok.TSplit (nowhere, n_of_string (arg 1)))
  | "oi" -> Tok.TOsIsClosed (ob 0)
  | "xs" -> Tok.TOcSet (ob 0, n_of_string (arg 1))
  | "xg" -> Tok.TOcGet (ob 0)
  | "xi" -> Tok.TOcInit (ob 0, n_of_string (arg 1), nat 2, true)
  | "xt" -> Tok.TOcInit (ob 0, n_of_string (arg 1), nat 2, ai 3 = 1)
  | _ -> failwith ("bad op " ^ w)

let parse_bodies kinds (s : string) : Tok.top list list =
  Stdlib.List.map (fun b -> Stdlib.List.map (parse_op kinds) (split_on ';' b)) (String.split_on_char '|' s)

let fuel = nat_of_int 200000

let run (ws : string list) : string =
  match ws with
  | ["tok"; ms; script; rseed; objs; bodies] ->
    let (kinds, objs) = parse_objs objs in
    let ((w, _), out) = Tok.run_tok fuel (L_prog.parse_ms ms) objs (parse_bodies kinds bodies) (L_prog.parse_script script) (n_of_string rseed) in
    let evs = Stdlib.List.rev_map L_prog.show_event w.Exec.w_trace in
    String.concat " " (evs @ ["T=" ^ L_prog.show_outcome out; "S=" ^ L_prog.show_sched w.Exec.w_e.Exec.recorded])
  | _ -> failwith "tok: bad case"
