(* pl layer (C20): pl <ms> <script> <rseed> <objs> <bodies>  |  hist <ops>     (formats: harness/src/l_pl.rs) *)
open Util

let nat s = nat_of_int (int_of_string s)

let parse_spec (w : string) : PlOps.ospec =
  match w with
  | "L" -> PlOps.SRw | "M" -> PlOps.SMx | "D" -> PlOps.SDm | "S" -> PlOps.SDs | "Z" -> PlOps.SLz
  | _ -> failwith ("bad object " ^ w)

let parse_op (w : string) : PlOps.plop =
  match String.split_on_char '.' w with
  | [] -> PlOps.QBad (nat_of_int 0)
  | name :: args ->
    let a i = match Stdlib.List.nth_opt args i with Some x -> x | None -> "0" in
    let o = (try nat (a 0) with _ -> nat_of_int 0) in
    let n i = n_of_string (a i) in
    (match name with
     | "sp" -> PlOps.QSp o | "jn" -> PlOps.QJn o | "yd" -> PlOps.QYd
     | "rd" -> PlOps.QRd o | "wr" -> PlOps.QWr o | "ur" -> PlOps.QUr o
     | "tr" -> PlOps.QTr o | "tw" -> PlOps.QTw o | "tu" -> PlOps.QTu o
     | "ul" -> PlOps.QUl o | "up" -> PlOps.QUp o | "tg" -> PlOps.QTg o
     | "dg" -> PlOps.QDg o | "du" -> PlOps.QDu o | "dw" -> PlOps.QDw o
     | "wu" -> PlOps.QWu o | "tq" -> PlOps.QTq o | "gv" -> PlOps.QGv o | "iv" -> PlOps.QIv o | "bp" -> PlOps.QBp o
     | "lk" -> PlOps.QLk o | "tl" -> PlOps.QTl o
     | "rn" -> PlOps.QRn | "r3" -> PlOps.QR3 | "rb" -> PlOps.QRb o | "rr" -> PlOps.QRr | "rg" -> PlOps.QRg (n 0) | "rq" -> PlOps.QRq
     | "dins" -> PlOps.QDins (o, n 1, n 2) | "dget" -> PlOps.QDget (o, n 1) | "drem" -> PlOps.QDrem (o, n 1)
     | "dlen" -> PlOps.QDlen o | "dcon" -> PlOps.QDcon (o, n 1) | "dalt" -> PlOps.QDalt (o, n 1, n 2)
     | "dent" -> PlOps.QDent (o, n 1, n 2) | "dret" -> PlOps.QDret (o, n 1, n 2) | "dclr" -> PlOps.QDclr o
     | "dit" -> PlOps.QDit o | "dref" -> PlOps.QDref (o, n 1) | "dmut" -> PlOps.QDmut (o, n 1, n 2) | "dtry" -> PlOps.QDtry (o, n 1)
     | "drif" -> PlOps.QDrif (o, n 1, n 2) | "drim" -> PlOps.QDrim (o, n 1, n 2) | "dvw" -> PlOps.QDvw (o, n 1)
     | "sins" -> PlOps.QSins (o, n 1) | "srem" -> PlOps.QSrem (o, n 1) | "scon" -> PlOps.QScon (o, n 1) | "slen" -> PlOps.QSlen o
     | "lz" -> PlOps.QLz o
     | _ -> PlOps.QBad o)

let parse_bodies (s : string) : PlOps.plop list list =
  Stdlib.List.map (fun b -> Stdlib.List.map parse_op (split_on ';' b)) (String.split_on_char '|' s)

let fuel = nat_of_int 200000

(* ---- histories ---- *)
let parse_hop (w : string) : PlMap.hop =
  match String.split_on_char '.' w with
  | [] -> PlMap.HUnknown
  | name :: args ->
    let a i = match Stdlib.List.nth_opt args i with Some x -> n_of_string x | None -> BinNums.N0 in
    let all = Stdlib.List.map n_of_string args in
    (match name with
     | "i" -> PlMap.HIns (a 0, a 1) | "r" -> PlMap.HRem (a 0) | "g" -> PlMap.HGet (a 0) | "c" -> PlMap.HCon (a 0)
     | "n" -> PlMap.HLen | "x" -> PlMap.HClear | "t" -> PlMap.HRetain (a 0, a 1)
     | "e" -> PlMap.HEntry (a 0, a 1) | "a" -> PlMap.HAddOr (a 0, a 1) | "ex" -> PlMap.HExtend all
     | "cl" | "fi" | "wc" | "sh" | "rs" | "de" | "sf" | "sl" -> PlMap.HRebuild
     | "dr" -> PlMap.HDrain | "it" -> PlMap.HIter | "ks" -> PlMap.HKeys
     | "si" -> PlMap.HSIns (a 0) | "sr" -> PlMap.HSRem (a 0) | "sc" -> PlMap.HSCon (a 0) | "sn" -> PlMap.HSLen
     | "bi" -> PlMap.HBIns (a 0) | "br" -> PlMap.HBRem (a 0)
     | "or" -> PlMap.HOr | "an" -> PlMap.HAnd | "xo" -> PlMap.HXor | "su" -> PlMap.HSub
     | "sx" -> PlMap.HSExtend all | "st" -> PlMap.HSIter
     | _ -> PlMap.HUnknown)

let show_hres (r : PlMap.hres) : string =
  match r with
  | PlMap.RNone -> "_"
  | PlMap.ROpt None -> "-"
  | PlMap.ROpt (Some v) -> string_of_n v
  | PlMap.RNum n -> string_of_n n
  | PlMap.RPairs m -> String.concat "." (Stdlib.List.map (fun (k, v) -> string_of_n k ^ ":" ^ string_of_n v) m)
  | PlMap.RKeys s -> String.concat "." (Stdlib.List.map string_of_n s)
  | PlMap.RBad -> "?"

let run (ws : string list) : string =
  match ws with
  | ["pl"; ms; script; rseed; objs; bodies] ->
    let specs = Stdlib.List.map parse_spec (split_on ',' objs) in
    let ((w, _), out) = PlOps.run_pl fuel (L_prog.parse_ms ms) specs (parse_bodies bodies) (L_prog.parse_script script) (n_of_string rseed) in
    let evs = Stdlib.List.rev_map L_prog.show_event w.Exec.w_trace in
    String.concat " " (evs @ ["T=" ^ L_prog.show_outcome out; "S=" ^ L_prog.show_sched w.Exec.w_e.Exec.recorded])
  | ["hist"; ops] ->
    let ops = Stdlib.List.map parse_hop (split_on ';' ops) in
    String.concat "," (Stdlib.List.map show_hres (PlMap.hist_results ops))
  | _ -> failwith "pl: bad case"
