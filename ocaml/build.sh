#!/bin/sh
# Extracts the executable model from the compiled Coq development and builds build/vmodel.
set -e
ROOT=$(cd "$(dirname "$0")/.." && pwd)
EX=$ROOT/build/extracted
mkdir -p "$EX"
cd "$EX"
rm -f ./*.ml ./*.mli ./*.cm* ./*.o
coqc -Q "$ROOT/coq" SV -o "$EX/Extract.vo" "$ROOT/coq/Extract/Extract.v" > "$EX/extract.log" 2>&1 || { cat "$EX/extract.log"; exit 1; }
cp "$ROOT"/ocaml/*.ml "$EX"/
FILES=$(ocamlfind ocamldep -sort ./*.mli ./*.ml)
ocamlfind ocamlopt -O2 -w -a -o "$ROOT/build/vmodel" $FILES 2>/dev/null || ocamlfind ocamlopt -w -a -o "$ROOT/build/vmodel" $FILES
echo "built $ROOT/build/vmodel"
