"""C07 — thread lifecycle: spawn, join, scope and thread-locals behave as in std."""
import gen_prog
from progcheck import run_prog_check

PROPS = ["Props/C07.v"]
RULE = ("C07: programs with nested spawns, joins in any order, scoped threads (Scope::spawn, joins inside the scope), thread-locals with destructors that use "
        "other thread-locals, atomics, yields and a mutex, thread ids and names.  The implementation's own trace is judged: one END per closure, join value = the joined "
        "closure's value, nothing of the joined thread (destructor records included) after the join record, scope end after the END of every scoped thread, per-task "
        "counters of every key (lazy initial value, accumulation, error after destruction), destructor order = initialisation order, ids and names.  The same traces are "
        "compared with the extracted model (tls_with / tls_pop / tls_loop / scoped_epilogue_d / join_code).")


def run(tier):
    res = run_prog_check("C07", PROPS, tier, ["c07", "c03"], features=gen_prog.BASIC, n_quick=1500, n_thorough=20000, rule=RULE,
                         lifecycle=(4000, 80000))
    if isinstance(res, int):
        return res
    ctx, cases, mo, io = res
    return ctx.finish()
