"""Shared machinery of bin/check: builds, proof gate, differential runs, verdict, evidence."""
import fcntl, hashlib, json, os, random, re, subprocess, sys, time
from concurrent.futures import ThreadPoolExecutor

ROOT = os.path.abspath(os.path.join(os.path.dirname(os.path.abspath(__file__)), ".."))
COQ = os.path.join(ROOT, "coq")
BUILD = os.path.join(ROOT, "build")
REPO = os.environ.get("VERIF_REPO", "/repo")
VMODEL = os.path.join(BUILD, "vmodel")
HARNESS_TARGET = os.path.join(BUILD, "harness-target")
VHARNESS = os.path.join(HARNESS_TARGET, "debug", "vharness")
JOBS = int(os.environ.get("VERIF_JOBS", "16"))

TRUSTED_BASE = [
    "Coq 8.16.1 kernel (coqc); vm_compute used for finite side conditions; native_compute not used",
    "no axioms: every property theorem must print 'Closed under the global context' (checked on every run)",
    "extraction: Require Extraction + ExtrOcamlBasic only (bool, option, unit, list, prod, sumbool, sumor -> OCaml natives; no Extract Constant); OCaml 4.13.1 ocamlfind ocamlopt",
    "ocaml/*.ml driver (case parsing/printing), tools/*.py orchestrator (generators, differ, oracles), harness/ Rust crate (calls the public API, prints results)",
    "tools/gen_params.py (regenerates coq/Params.v from /repo sources each run)",
    "modelled, not verified: Rust semantics/compiler, corosensei context switching, RefCell borrows, std containers, OS/filesystem/stderr, 64-bit usize",
]

FORBIDDEN = re.compile(r"\b(Admitted|admit|Axiom|Axioms|Parameter|Parameters|Conjecture|Admit Obligations|bypass_check)\b|Unset\s+Guard|Unset\s+Positivity|Unset\s+Universe|type-in-type|impredicative-set")


def sh(cmd, cwd=None, timeout=None, env=None, input=None):
    e = dict(os.environ)
    e.update({"CARGO_NET_OFFLINE": "true", "CARGO_TARGET_DIR": HARNESS_TARGET})
    if env:
        e.update(env)
    try:
        p = subprocess.run(cmd, cwd=cwd, shell=isinstance(cmd, str), stdout=subprocess.PIPE, stderr=subprocess.STDOUT,
                           timeout=timeout, env=e, input=input, text=True)
    except subprocess.TimeoutExpired as ex:
        out = ex.stdout or ""
        out = out.decode("utf-8", "replace") if isinstance(out, bytes) else out
        return 124, out + "\nTIMEOUT after %s s: %s" % (timeout, cmd if isinstance(cmd, str) else " ".join(cmd))
    return p.returncode, p.stdout


class BuildLock:
    def __enter__(self):
        os.makedirs(BUILD, exist_ok=True)
        self.f = open(os.path.join(BUILD, ".lock"), "w")
        fcntl.flock(self.f, fcntl.LOCK_EX)
        return self

    def __exit__(self, *a):
        fcntl.flock(self.f, fcntl.LOCK_UN)
        self.f.close()


class Ctx:
    def __init__(self, prop, tier, level="proof"):
        self.prop = prop
        self.tier = tier
        self.level = level
        self.seed = int(os.environ.get("VERIF_SEED", "0") or 0)
        self.rng = random.Random(self.seed * 1000003 + sum(map(ord, prop)))
        self.t0 = time.time()
        self.violations = []       # list of (replay_path, nofail)
        self.known_seen = []
        self.cov = {"trusted_base": list(TRUSTED_BASE), "samples": [], "input_distribution": {}}
        self.assumptions = []
        self.broken = []           # proof obligations / correspondence layers that no longer check
        self.log_lines = []
        self.nontrivial = set()
        self.evaluations = 0
        self.disagreements_checked = 0
        self.programs = 0
        self.traces_validated = 0

    def log(self, msg):
        print("[%s %s %6.1fs] %s" % (self.prop, self.tier, time.time() - self.t0, msg), flush=True)

    # ---------- builds ----------
    def gen_params(self):
        rc, out = sh([sys.executable, os.path.join(ROOT, "tools", "gen_params.py")])
        self.log(out.strip())
        if rc != 0:
            self.broken.append({"kind": "translator", "what": "tools/gen_params.py could not extract a parameter from the sources", "detail": out[-2000:]})
        return rc == 0

    def coq_make(self, targets, timeout=1500):
        """Full .vo build of the given targets (and everything they depend on)."""
        if not os.path.exists(os.path.join(COQ, "Makefile")):
            sh("coq_makefile -f _CoqProject -o Makefile", cwd=COQ)
        rc, out = sh(["make", "-j%d" % JOBS] + targets, cwd=COQ, timeout=timeout)
        if rc != 0:
            m = re.search(r'File "([^"]+)", line (\d+)[^\n]*\n(.*?)(?:\nmake|\Z)', out, re.S)
            detail = out[-3000:]
            self.broken.append({"kind": "proof", "what": "coq build failed: %s" % (m.group(1) + ":" + m.group(2) if m else "see detail"), "detail": detail})
        return rc == 0, out

    def proof_gate(self, props_file, dep_dirs=None):
        """Recompiles Props/<ID>.v, checks it for forbidden constructs and compares Print Assumptions."""
        path = os.path.join(COQ, props_file)
        vo = path[:-2] + ".vo"
        with BuildLock():
            if os.path.exists(vo):
                os.remove(vo)
            ok, out = self.coq_make([props_file[:-2] + ".vo"])
        text = open(path).read()
        theorems = re.findall(r"^\s*(?:Theorem|Lemma|Corollary)\s+(\w+)", text, re.M)
        printed = re.findall(r"^\s*Print Assumptions\s+(\w+)\s*\.", text, re.M)
        self.cov["obligations"] = len(theorems)
        self.cov["theorems"] = theorems
        self.cov["checker_cmd"] = "cd coq && coq_makefile -f _CoqProject -o Makefile && make -j%d %s   (full .vo build; Print Assumptions output compared; grep for Admitted/admit/Axiom/Parameter/Conjecture/guard switches)" % (JOBS, props_file[:-2] + ".vo")
        if not ok:
            self.cov["discharged"] = 0
            return False
        missing = [t for t in theorems if t not in printed]
        closed = out.count("Closed under the global context")
        axioms = re.findall(r"^Axioms:\n((?:.+\n)+?)(?=\S|\Z)", out, re.M)
        bad = []
        if missing:
            bad.append("theorems without Print Assumptions: %s" % missing)
        if closed != len(printed) or axioms:
            bad.append("Print Assumptions: %d of %d closed; axioms reported: %s" % (closed, len(printed), axioms))
        # forbidden constructs anywhere in the development
        for dp, dn, fn in os.walk(COQ):
            for f in fn:
                if f.endswith(".v"):
                    src = open(os.path.join(dp, f)).read()
                    src_nc = re.sub(r"\(\*.*?\*\)", "", src, flags=re.S)
                    m = FORBIDDEN.search(src_nc)
                    if m:
                        bad.append("%s contains forbidden construct %r" % (os.path.relpath(os.path.join(dp, f), COQ), m.group(0)))
        if bad:
            self.broken.append({"kind": "proof", "what": "proof gate failed", "detail": "; ".join(bad)})
            self.cov["discharged"] = 0
            return False
        self.cov["discharged"] = len(theorems)
        self.cov["axioms"] = "none (all %d property theorems closed under the global context)" % len(printed)
        self.log("proof gate: %d theorems, all closed under the global context" % len(theorems))
        return True

    def build_model(self):
        with BuildLock():
            # only the model files (everything extraction needs); proofs are built by each property's own gate
            targets = []
            for line in open(os.path.join(COQ, "_CoqProject")):
                line = line.strip()
                if line.endswith(".v") and not line.startswith("Proofs/") and not line.startswith("Props/"):
                    targets.append(line[:-2] + ".vo")
            ok, out = self.coq_make(targets)
            if not ok:
                return False
            stamp = os.path.join(BUILD, ".vmodel.stamp")
            h = hashlib.sha256()
            for dp, dn, fn in sorted(os.walk(COQ)):
                for f in sorted(fn):
                    if f.endswith(".v"):
                        h.update(open(os.path.join(dp, f), "rb").read())
            for f in sorted(os.listdir(os.path.join(ROOT, "ocaml"))):
                h.update(open(os.path.join(ROOT, "ocaml", f), "rb").read())
            dig = h.hexdigest()
            if os.path.exists(VMODEL) and os.path.exists(stamp) and open(stamp).read() == dig:
                return True
            rc, out = sh([os.path.join(ROOT, "ocaml", "build.sh")], timeout=900)
            if rc != 0:
                self.broken.append({"kind": "extraction", "what": "vmodel build failed", "detail": out[-3000:]})
                return False
            open(stamp, "w").write(dig)
            return True

    def build_harness(self, features=None):
        """cargo build of harness/ against /repo's current working tree (path dependencies)."""
        with BuildLock():
            hd = os.path.join(ROOT, "harness")
            lock_src = os.path.join(REPO, "Cargo.lock")
            lock_dst = os.path.join(hd, "Cargo.lock")
            if not os.path.exists(lock_dst):
                open(lock_dst, "w").write(open(lock_src).read())
            cmd = ["cargo", "build", "--offline", "--quiet"]
            rc, out = sh(cmd, cwd=hd, timeout=1800)
            if rc != 0:
                # a stale copied lock file is the usual harmless reason; retry once from a fresh copy
                open(lock_dst, "w").write(open(lock_src).read())
                rc, out = sh(cmd, cwd=hd, timeout=1800)
            if rc != 0:
                self.broken.append({"kind": "harness-build", "what": "the harness no longer builds against /repo", "detail": out[-3000:]})
                return False
            return True

    # ---------- running cases ----------
    def _run_bin(self, binary, layer, lines, timeout):
        if not lines:
            return []
        nshards = min(JOBS, max(1, len(lines) // 50))
        shards = [lines[i::nshards] for i in range(nshards)]

        def one(sh_lines):
            """Feeds the cases to the binary; when the process ends early (it asked for a restart, or it
            aborted) the remaining cases go to a fresh process."""
            res = []
            todo = list(sh_lines)
            hangs = 0
            tmo = timeout
            while todo:
                if hangs >= 3:
                    res.extend(["ABORT timeout: skipped after repeated hangs of the process"] * len(todo))
                    break
                try:
                    p = subprocess.run([binary, layer], input="\n".join(todo) + "\n", stdout=subprocess.PIPE,
                                       stderr=subprocess.PIPE, text=True, timeout=tmo)
                except subprocess.TimeoutExpired as ex:
                    # the process hangs on some case: keep the answers it produced, mark the case it was working on,
                    # and give the remaining cases to a fresh process with a short leash
                    got = (ex.stdout or b"")
                    got = got.decode("utf-8", "replace") if isinstance(got, bytes) else got
                    out = got.split("\n")
                    if out and out[-1] == "":
                        out.pop()
                    out = out[:len(todo)]
                    res.extend(out)
                    if len(out) < len(todo):
                        res.append("ABORT timeout: no answer within %d s (the process hangs on this case)" % tmo)
                    todo = todo[len(out) + 1:]
                    tmo = min(tmo, 60)
                    hangs += 1
                    continue
                out = p.stdout.split("\n")
                if out and out[-1] == "":
                    out.pop()
                if out and out[-1] == "RESTART":
                    out.pop()
                    res.extend(out)
                    todo = todo[len(out):]
                    continue
                if len(out) >= len(todo):
                    res.extend(out[:len(todo)])
                    break
                # the process died while running case number len(out)
                res.extend(out)
                res.append("ABORT rc=%d %s" % (p.returncode, p.stderr.strip()[-160:].replace("\n", " ")))
                todo = todo[len(out) + 1:]
            return res
        with ThreadPoolExecutor(max_workers=nshards) as ex:
            outs = list(ex.map(one, shards))
        res = [None] * len(lines)
        for k, o in enumerate(outs):
            for j, line in enumerate(o):
                res[k + j * nshards] = line
        return res

    def run_model(self, layer, lines, timeout=None):
        timeout = timeout or (400 if self.tier == "quick" else 2400)
        return self._run_bin(VMODEL, layer, lines, timeout)

    def run_impl(self, layer, lines, timeout=None):
        timeout = timeout or (400 if self.tier == "quick" else 2400)
        return self._run_bin(VHARNESS, layer, lines, timeout)

    def differential(self, layer, cases, timeout=None):
        """Runs model and implementation on the same cases; returns (model_out, impl_out, mismatch indices)."""
        with ThreadPoolExecutor(max_workers=2) as ex:
            fm = ex.submit(self.run_model, layer, cases, timeout)
            fi = ex.submit(self.run_impl, layer, cases, timeout)
            mo, io = fm.result(), fi.result()
        self.evaluations += len(cases)
        self.programs += len(cases)
        self.traces_validated += len(cases)
        mism = [i for i in range(len(cases)) if mo[i] != io[i]]
        return mo, io, mism

    # ---------- verdicts ----------
    def note_nontrivial(self, key):
        self.nontrivial.add(hashlib.sha1(key.encode()).hexdigest())

    def dist(self, key, n=1):
        d = self.cov["input_distribution"]
        d[key] = d.get(key, 0) + n

    def sample(self, obj, limit=6):
        if len(self.cov["samples"]) < limit:
            self.cov["samples"].append(obj)

    def violation(self, replay, nofail=False):
        os.makedirs(os.path.join(BUILD, "replays"), exist_ok=True)
        k = len(self.violations)
        path = os.path.join(BUILD, "replays", "%s-%s-%d.json" % (self.prop, self.tier, k))
        replay = dict(replay)
        replay["property"] = self.prop
        replay["how_to_replay"] = replay.get("how_to_replay", "bin/check %s --replay %s" % (self.prop, path))
        with open(path, "w") as f:
            json.dump(replay, f, indent=1)
        self.violations.append((path, nofail))
        print("VIOLATION property=%s replay=%s%s" % (self.prop, path, " no-failing-input-found" if nofail else ""), flush=True)

    def known(self, finding_id, what):
        if finding_id not in self.known_seen:
            self.known_seen.append(finding_id)
            print("KNOWN-FINDING: property=%s %s" % (self.prop, what), flush=True)

    def finish(self):
        """If an obligation or a correspondence broke and no oracle produced a failing input, say so."""
        if self.broken and not any(not nf for _, nf in self.violations):
            self.violation({"kind": "obligation-or-correspondence-broken", "broken": self.broken,
                            "note": "no concrete failing input was found by the search; the property is no longer shown to hold"}, nofail=True)
        cov = self.cov
        cov["evaluations"] = self.evaluations
        cov["distinct_nontrivial"] = len(self.nontrivial)
        cov["programs"] = self.programs
        cov["disagreements_checked"] = self.disagreements_checked
        cov["traces_validated_against_impl"] = self.traces_validated
        cov["known_findings_seen"] = self.known_seen
        cov.setdefault("obligations", 0)
        cov.setdefault("discharged", 0)
        cov.setdefault("checker_cmd", "make (coq)")
        ev = {"property_id": self.prop, "tier": self.tier, "seed": self.seed, "level": self.level,
              "coverage": cov, "assumptions": self.assumptions, "wall_s": round(time.time() - self.t0, 2),
              "violations": len(self.violations)}
        os.makedirs(os.path.join(ROOT, "evidence"), exist_ok=True)
        with open(os.path.join(ROOT, "evidence", "%s.json" % self.prop), "w") as f:
            json.dump(ev, f, indent=1, sort_keys=True)
        self.log("done: %d cases, %d distinct non-trivial, %d violations, %d known findings" %
                 (self.evaluations, len(self.nontrivial), len(self.violations), len(self.known_seen)))
        return 1 if self.violations else 0


def load_known_findings():
    p = os.path.join(ROOT, "known_findings.json")
    if not os.path.exists(p):
        return []
    return json.load(open(p))
