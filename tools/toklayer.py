"""tok layer (C19) helpers: attribution of the implementation's trace to the program's operations, and property
oracles that judge the IMPLEMENTATION's own traces against tokio's documented contracts (independent of the Coq model).

Every operation of a body logs START (tag 56) when it begins and exactly one result record when it ends; a task's
records therefore walk its body's operation list.  Oracle results: list of (message, finding-tag or None)."""
from proglayer import parse_trace, parse_case

START, END, MISUSE = 56, 55, 98


class OpRec:
    __slots__ = ("task", "body", "idx", "text", "pre", "args", "start", "done", "tag", "vals")

    def __repr__(self):
        return "<t%d b%d #%d %s start=%s done=%s %s>" % (self.task, self.body, self.idx, self.text, self.start, self.done, self.vals)


def split_op(w):
    pre, rest = w[:2], w[2:]
    return pre, ([int(x) for x in rest.split(".")] if rest else [])


def attribute(evs, cs):
    """-> (records in start order, end_pos per task, body of each task) or None when the trace does not walk the program"""
    bodies = cs["bodies"]
    body_of = {0: 0}
    pc = {}
    cur = {}
    recs = []
    ended = {}
    for pos, e in enumerate(evs):
        if e.kind != "O":
            continue
        t = e.task
        if t not in body_of:
            return None
        b = body_of[t]
        if e.tag == START:
            i = pc.get(t, 0)
            pc[t] = i + 1
            if b >= len(bodies) or i >= len(bodies[b]):
                return None
            r = OpRec()
            r.task, r.body, r.idx, r.text = t, b, i, bodies[b][i]
            r.pre, r.args = split_op(r.text)
            r.start, r.done, r.tag, r.vals = pos, None, None, None
            cur[t] = r
            recs.append(r)
        elif e.tag == END:
            ended[t] = pos
        elif t in ended:
            continue            # drops after the end of the body (tag 73)
        else:
            r = cur.get(t)
            if r is None or r.done is not None:
                return None
            r.done, r.tag, r.vals = pos, e.tag, e.vals
            if e.tag in (50, 52) and r.pre in ("st", "sa"):
                body_of[e.vals[0]] = r.args[0]
    return recs, ended, body_of


class Obj:
    def __init__(self, spec):
        self.spec = spec
        self.kind = spec[0]
        self.bound = None
        self.ns = 0
        self.init = 0
        if self.kind == "c":
            a, b = spec[1:].split(":")
            self.bound = None if a == "U" else int(a[1:])
            self.ns = int(b)
        elif self.kind == "s":
            self.init = int(spec[1:])
        elif self.kind == "m":
            self.init = 1
        elif self.kind == "w":
            self.init = (2 ** 64 - 1) >> 3 if len(spec) == 1 else int(spec[1:])


SEND_OPS = ("sd", "bs", "ts")
RECV_OPS = ("rc", "br", "tr")
ACQ_OPS = {"ac": None, "lk": 1, "rd": 1, "wr": "max", "ta": None, "tl": 1, "tR": 1, "tW": "max"}


def acq_n(r, objs):
    k = ACQ_OPS[r.pre]
    if k is None:
        return r.args[1]
    if k == "max":
        return objs[r.args[0]].init
    return k


def oracle_tok(evs, term, cs):
    """All C19 oracles on one implementation trace."""
    out = []
    objs = [Obj(s) for s in cs["objs"]]
    att = attribute(evs, cs)
    if att is None:
        return [("the trace does not walk the program: an operation logged twice or out of order", None)]
    recs, ended, body_of = att
    recs_by_done = sorted([r for r in recs if r.done is not None], key=lambda r: r.done)
    pending = [r for r in recs if r.done is None]

    # ---- a library panic in a program that is a correct tokio program ----
    # (acquire_many(0) / try_acquire_many(0) used to panic: finding C19-F2, fixed by /repo bc6ccc4 - a recurrence is a violation)
    if term.startswith("panic"):
        invalid = any(o.kind == "c" and o.bound == 0 for o in objs) or any(o.kind == "w" and o.init == 0 for o in objs)
        if not invalid:
            zero = any(r.pre in ("ac", "ta") and r.args[1] == 0 for r in pending)
            out.append(("a library panic (%s) in a program that uses the API as tokio documents%s" % (term, " (an acquire of 0 permits is in progress: regression of C19-F2)" if zero else ""), None))
        return out

    # ---- mpsc: FIFO, exactly once, no loss, capacity ----
    for ci, o in enumerate(objs):
        if o.kind != "c":
            continue
        sent_val_slot = {}
        for r in recs:
            if r.pre in SEND_OPS and r.args[0] == ci:
                sent_val_slot[r.args[2]] = r.args[1]
        received = []          # (pos, value)
        ok_sent = []           # (pos of completion, value)
        none_pos = []
        leaked = 0             # values taken by blocking_recv
        for r in recs_by_done:
            if r.tag == 60 and r.args[0] == ci and r.vals[1] == 0:
                ok_sent.append((r.done, r.args[2]))
            if r.tag == 61 and r.args[0] == ci:
                if r.vals[1] == 0:
                    received.append((r.done, r.vals[2]))
                    if r.pre == "br":
                        leaked += 1
                elif r.vals[1] == 2:
                    none_pos.append(r.done)
        vals = [v for _, v in received]
        if len(set(vals)) != len(vals):
            out.append(("mpsc channel %d delivered a value twice: %s" % (ci, vals), None))
        for v in vals:
            if v not in sent_val_slot:
                out.append(("mpsc channel %d delivered %d, which no send of the program carries" % (ci, v), None))
        # per-sender order: values of one sender slot arrive in the order that slot sent them (program order of its one body)
        order = {}
        for r in recs:
            if r.pre in SEND_OPS and r.args[0] == ci:
                order.setdefault(r.args[1], []).append(r.args[2])
        for slot, seq in order.items():
            got = [v for v in vals if sent_val_slot.get(v) == slot]
            want = [v for v in seq if v in got]
            if got != want:
                out.append(("mpsc channel %d: values of sender slot %d received out of order: %s, sent as %s" % (ci, slot, got, seq), None))
        # recv returned None although a value sent (completed) before was never delivered
        rx_cleared = [r.start for r in recs if r.pre == "dr" and r.args[0] == ci]
        for p in none_pos:
            lost = [v for (q, v) in ok_sent if q < p and v not in [x for (z, x) in received if z < p]]
            if lost and not rx_cleared:
                out.append(("mpsc channel %d: a receive returned None at event %d although %s had been sent and not yet received" % (ci, p, lost), None))
        if o.bound is not None:
            k = o.bound
            for r in recs_by_done:
                if r.tag == 65 and r.args[0] == ci and r.vals[0] > k:
                    out.append(("mpsc channel %d holds %d messages, more than its capacity %d" % (ci, r.vals[0], k), None))
                if r.tag == 60 and r.args[0] == ci and r.pre == "ts" and r.vals[1] == 1:
                    # Full: justified when the sends begun so far (and not failed) minus the values received so far reach k
                    begun = sum(1 for s in recs if s.pre in SEND_OPS and s.args[0] == ci and s.start < r.done and s is not r
                                and not (s.done is not None and s.done < r.done and (s.tag != 60 or s.vals[1] != 0)))
                    rec_before = sum(1 for (q, v) in received if q < r.done)
                    # receives in flight may have taken a value and not yet handed its slot back
                    inflight = sum(1 for s in recs if s.pre in RECV_OPS and s.args[0] == ci and s.start < r.done and (s.done is None or s.done > r.done))
                    if begun - rec_before + inflight < k:
                        leaked_before = sum(1 for s in recs_by_done if s.pre == "br" and s.args[0] == ci and s.tag == 61 and s.vals[1] == 0 and s.done < r.done)
                        if leaked_before:
                            out.append(("try_send reports Full on bounded channel %d with free slots after %d blocking_recv values: capacity not returned (regression of C19-F1)" % (ci, leaked_before), None))
                        else:
                            out.append(("try_send reports Full on bounded channel %d (capacity %d) although at most %d slots can be in use" % (ci, k, begun - rec_before + inflight), None))
                if r.tag == 65 and r.args[0] == ci and len(r.vals) == 3:
                    # quiescent observation: nobody is inside an operation of this channel
                    busy = any(s.args and s.pre in SEND_OPS + RECV_OPS + ("cr", "dr", "dt") and s.args[0] == ci and s.start < r.done and (s.done is None or s.done > r.done) for s in recs)
                    closed = r.vals[1] == 1
                    if not busy and not closed and r.vals[0] + r.vals[2] != k:
                        lk = sum(1 for s in recs_by_done if s.pre == "br" and s.args[0] == ci and s.tag == 61 and s.vals[1] == 0 and s.done < r.done)
                        if lk and r.vals[0] + r.vals[2] + lk == k:
                            out.append(("bounded channel %d at rest: len %d + capacity %d != %d: every blocking_recv kept a slot (regression of C19-F1)" % (ci, r.vals[0], r.vals[2], k), None))
                        else:
                            out.append(("bounded channel %d at rest: len %d + capacity %d != %d" % (ci, r.vals[0], r.vals[2], k), None))

    # ---- semaphores, mutexes, rwlocks: conservation and exclusion ----
    for si, o in enumerate(objs):
        if o.kind not in "smw":
            continue
        # holdings by log order: an acquisition counts from its completion; a release from the START of the drop
        events = []
        for r in recs:
            if r.pre in ACQ_OPS and r.args[0] == si and r.done is not None:
                okv = (r.vals[0] == 1) if r.pre in ("ac", "lk", "rd", "wr") else (r.vals[0] == 0)
                if okv:
                    events.append((r.done, "acq", acq_n(r, objs), r))
            if r.pre == "rl" and r.args[0] == si and r.tag != MISUSE:
                events.append((r.start, "rel", None, r))
            if r.pre == "fg" and r.args[0] == si and r.tag != MISUSE:
                events.append((r.start, "forget", None, r))
            if r.pre == "ad" and r.args[0] == si:
                events.append((r.start, "add", r.args[1], r))
            if r.pre == "mg" and r.args[0] == si and r.tag == 114:
                events.append((r.done, "merge", None, r))
            if r.pre == "sp" and r.args[0] == si and r.tag == 115 and r.vals[0] == 1:
                events.append((r.done, "split", r.args[1], r))
            if r.pre == "dg" and r.args[0] == si and r.tag != MISUSE:
                events.append((r.start, "downgrade", None, r))
        for t, p in ended.items():
            events.append((p, "end", t, None))
        events.sort(key=lambda x: x[0])
        held = {}              # task -> list of n, newest last
        added = 0
        forgotten = 0
        for pos, kind, n, r in events:
            if kind == "acq":
                held.setdefault(r.task, []).append(n)
            elif kind in ("rel", "forget"):
                h = held.get(r.task, [])
                if h:
                    x = h.pop()
                    if kind == "forget":
                        forgotten += x
            elif kind == "add":
                added += n
            elif kind == "merge":
                h = held.get(r.task, [])
                if len(h) >= 2:
                    a = h.pop()
                    h[-1] += a
            elif kind == "split":
                h = held.get(r.task, [])
                if h and h[-1] >= n:
                    h[-1] -= n
                    h.append(n)
            elif kind == "downgrade":
                h = held.get(r.task, [])
                if h:
                    h[-1] = 1
            elif kind == "end":
                held[n] = []
            total = sum(sum(h) for h in held.values())
            if total > o.init + added - forgotten and o.kind in "mw":
                out.append(("lock %d: permits held (%d) exceed its %d permits: exclusion broken at event %d" % (si, total, o.init, pos), None))
            if total > o.init + added and o.kind == "s":
                out.append(("semaphore %d: %d permits held at event %d, only %d ever existed" % (si, total, pos, o.init + added), None))
        for r in recs_by_done:
            if r.tag == 76 and r.args[0] == si:
                # available_permits never exceeds what exists minus what is certainly held
                pos = r.done
                exist = o.init + sum(n for (p, k, n, _) in events if k == "add" and p < pos)
                if r.vals[0] > exist:
                    out.append(("semaphore %d reports %d available permits, only %d exist" % (si, r.vals[0], exist), None))

    # ---- Notify: reference semantics by counting; blocked awaits are judged when the run deadlocked ----
    for ni, o in enumerate(objs):
        if o.kind == "n":
            out += notify_deadlock(recs, pending if term.startswith("deadlock") else [], ni, ended)

    # ---- watch: latest value, changes seen, no lost / invented notification ----
    for wi, o in enumerate(objs):
        if o.kind == "h":
            out += watch_oracle(recs, pending if term.startswith("deadlock") else [], wi, o)

    # ---- OnceCell: one value, set once ----
    for xi_, o in enumerate(objs):
        if o.kind == "x":
            out += oncecell_oracle(recs, pending if term.startswith("deadlock") else [], xi_)

    # ---- deadlock: every blocked operation must be blocked under tokio's contract too ----
    if term.startswith("deadlock"):
        out += deadlock_oracle(recs, recs_by_done, pending, ended, objs, evs)
    return out


def watch_oracle(recs, pending, wi, o):
    """tokio's watch contract judged on the implementation's own trace.  An operation occupies the interval
    [start, done] of trace positions; the judgments are conservative: a result is flagged only when no linearisation of
    the overlapping operations explains it.
      * a borrow returns the initial value or a sent value, and never one that was certainly overwritten before the borrow began;
      * has_changed / changed report a change only if some send may have committed after the receiver's last look, report
        none only if no send certainly did, and report the channel closed only once every sender is being / has been dropped;
      * at a deadlock, a receiver blocked in changed() although a send certainly committed after its last look (or every
        sender is gone) has lost a notification; the same for closed() once every receiver is gone."""
    out = []
    init, ntx, nrx = [int(x) for x in o.spec[1:].split(":")]
    INF = 10 ** 9
    mine = [r for r in recs if r.args and r.args[0] == wi and r.pre[0] == "w" and r.tag != MISUSE]
    # committed sends: (start, done or INF, value); a send that failed (no receiver) or left the value alone commits nothing
    sends = []
    for r in mine:
        if r.pre == "ws" and (r.done is None or r.vals[0] == 1):
            sends.append((r.start, INF if r.done is None else r.done, r.args[2], r))
        elif r.pre == "wm" and r.args[3] == 1:
            sends.append((r.start, INF if r.done is None else r.done, r.args[2], r))
        elif r.pre == "wp":
            sends.append((r.start, INF if r.done is None else r.done, r.args[2], r))
    # a pending send has committed only possibly; for "certainly committed" use completed ones
    done_sends = [x for x in sends if x[1] != INF]
    tx_drops = [r for r in mine if r.pre == "wx"]
    all_tx_dropping = lambda pos: sum(1 for r in tx_drops if r.start < pos) >= ntx
    all_tx_dropped = lambda pos: sum(1 for r in tx_drops if r.done is not None and r.done < pos) >= ntx
    valid_vals = {init} | {x[2] for x in sends}

    def check_value(r, v, what):
        if v not in valid_vals:
            out.append(("watch %d: %s returned %d, which is neither the initial value nor a value sent" % (wi, what, v), None))
            return
        # the send that wrote v (values are unique per program); the initial value has no send
        src = [x for x in sends if x[2] == v]
        src_done = min([x[1] for x in src], default=-1) if v != init or src else -1
        if v == init and not src:
            src_done = -1
        over = [x for x in done_sends if x[2] != v and x[0] > src_done and x[1] < r.start]
        if over:
            out.append(("watch %d: %s returned %d although %d had certainly replaced it before the call began (not the latest value)" % (wi, what, v, over[-1][2]), None))

    # per receiver slot: walk its operations in program order (one body per endpoint)
    for sl in range(3):
        ops = sorted([r for r in mine if (r.pre in ("wb", "wu", "wh", "wc", "wf", "wy") and r.args[1] == sl) or (r.pre == "wn" and r.args[2] == sl)],
                     key=lambda r: r.start)
        look = (-1, -1) if sl < nrx else None          # interval of the last look (version update)
        look_val = None                                # the value that look returned (borrow_and_update / wait_for)

        def after_look(x):
            # the send x certainly committed after the last look: it began after the look ended, or the look returned a
            # value that x certainly replaced (the value's own send had ended before x began; the initial value has none)
            if x[0] > look[1]:
                return True
            if look_val is not None and look_val != x[2]:
                src = [y for y in sends if y[2] == look_val]
                if (look_val == init and not src) or (src and max(y[1] for y in src) < x[0]):
                    return True
            return False

        for r in ops:
            if r.pre == "wn":
                if r.done is not None:
                    look = (r.start, r.done)
                    look_val = None
                continue
            if look is None:
                continue
            may_changed = any(x[1] > look[0] and x[0] < (INF if r.done is None else r.done) for x in sends)
            surely_changed = any(after_look(x) and x[1] < r.start for x in done_sends)
            if r.done is None:
                if r in pending and r.pre == "wc":
                    # at a deadlock everything is quiescent: any completed send that certainly came after the last look counts
                    if any(after_look(x) for x in done_sends):
                        out.append(("deadlock: watch %d receiver %d is blocked in changed() although a send committed after its last look: a change notification was lost" % (wi, sl), None))
                    elif all_tx_dropped(r.start):
                        out.append(("deadlock: watch %d receiver %d is blocked in changed() although every sender had been dropped before the call" % (wi, sl), None))
                continue
            if r.pre in ("wb", "wu"):
                check_value(r, r.vals[0], "borrow" if r.pre == "wb" else "borrow_and_update")
                if r.pre == "wu":
                    look = (r.start, r.done)
                    look_val = r.vals[0]
            elif r.pre == "wh":
                c = r.vals[0]
                if c == 2 and not all_tx_dropping(r.done):
                    out.append(("watch %d receiver %d: has_changed reports the channel closed while a sender is alive" % (wi, sl), None))
                if c == 1 and not may_changed:
                    out.append(("watch %d receiver %d: has_changed reports a change although no send can have committed since its last look" % (wi, sl), None))
                if c == 0 and surely_changed:
                    out.append(("watch %d receiver %d: has_changed reports no change although a send committed after its last look" % (wi, sl), None))
            elif r.pre == "wc":
                if r.vals[0] == 1:
                    if not may_changed:
                        out.append(("watch %d receiver %d: changed() returned Ok although no send can have committed since its last look (invented notification)" % (wi, sl), None))
                    look = (r.start, r.done)
                    look_val = None
                else:
                    if not all_tx_dropping(r.done):
                        out.append(("watch %d receiver %d: changed() returned Err while a sender is alive" % (wi, sl), None))
                    if surely_changed:
                        out.append(("watch %d receiver %d: changed() returned Err although an unseen value had been sent before the call" % (wi, sl), None))
            elif r.pre == "wf":
                if r.vals[0] == 1:
                    check_value(r, r.vals[1], "wait_for")
                    if r.vals[1] < r.args[2]:
                        out.append(("watch %d receiver %d: wait_for(>= %d) returned %d" % (wi, sl, r.args[2], r.vals[1]), None))
                elif not all_tx_dropping(r.done):
                    out.append(("watch %d receiver %d: wait_for returned Err while a sender is alive" % (wi, sl), None))
                look = (r.start, r.done)
                look_val = r.vals[1] if r.vals[0] == 1 else None
            elif r.pre == "wy":
                look = None
    # send fails only when no receiver exists: judged conservatively (all creation-time receivers dropped or dropping, no subscribe since)
    rx_drops = [r for r in mine if r.pre == "wy"]
    subs = [r for r in mine if r.pre == "wn"]
    for r in mine:
        if r.pre == "ws" and r.done is not None and r.vals[0] == 0:
            alive = nrx + sum(1 for x in subs if x.start < r.done) - sum(1 for x in rx_drops if x.start < r.done)
            if alive > 0:
                out.append(("watch %d: send failed although %d receivers certainly exist" % (wi, alive), None))
        if r.pre == "wp" and r.done is not None:
            check_value(r, r.vals[0], "send_replace")
        if r.pre == "wl" and r.done is None and r in pending:
            gone = nrx + sum(1 for x in subs if x.start < r.start or x.done is None or x.done > r.start) \
                - sum(1 for x in rx_drops if x.done is not None and x.done < r.start)
            if gone <= 0 and not any(x.start > r.start for x in subs):
                out.append(("deadlock: watch %d sender blocked in closed() although every receiver had been dropped before the call" % wi, None))
        if r.pre == "wl" and r.done is not None:
            alive_min = nrx + sum(1 for x in subs if x.done is not None and x.done < r.start) - sum(1 for x in rx_drops if x.start < r.done)
            if alive_min > 0:
                out.append(("watch %d: closed() returned while %d receivers certainly exist" % (wi, alive_min), None))
    return out


def deadlock_oracle(recs, recs_by_done, pending, ended, objs, evs):
    out = []
    endpos = len(evs)
    for ci, o in enumerate(objs):
        if o.kind == "c":
            ok_sent = [r.args[2] for r in recs_by_done if r.tag == 60 and r.args[0] == ci and r.vals[1] == 0]
            got = [r.vals[2] for r in recs_by_done if r.tag == 61 and r.args[0] == ci and r.vals[1] == 0]
            rx_dropped = any(r.pre == "dr" and r.args[0] == ci and r.tag != MISUSE for r in recs)
            rx_closed = rx_dropped or any(r.pre == "cr" and r.args[0] == ci and r.tag != MISUSE and r.done is not None for r in recs)
            dropped_tx = sum(1 for r in recs if r.pre == "dt" and r.args[0] == ci and r.tag != MISUSE and r.done is not None)
            closed = rx_closed or dropped_tx >= o.ns
            buf = 0 if rx_dropped else len(ok_sent) - len(got)
            leaked = sum(1 for r in recs_by_done if r.pre == "br" and r.args[0] == ci and r.tag == 61 and r.vals[1] == 0)
            for r in pending:
                if not r.args or r.args[0] != ci:
                    continue
                if r.pre in ("sd", "bs") and o.bound is not None:
                    if closed:
                        out.append(("deadlock: send blocked on channel %d that is closed (it must fail instead)" % ci, None))
                    elif buf < o.bound:
                        if leaked and buf + leaked >= o.bound:
                            out.append(("deadlock: send blocked on bounded channel %d holding %d of %d messages: blocking_recv never returned the capacity of %d values (regression of C19-F1)" % (ci, buf, o.bound, leaked), None))
                        else:
                            out.append(("deadlock: send blocked on bounded channel %d holding only %d of %d messages" % (ci, buf, o.bound), None))
                if r.pre in ("rc", "br"):
                    if buf > 0:
                        out.append(("deadlock: receive blocked on channel %d holding %d messages" % (ci, buf), None))
                    elif closed:
                        out.append(("deadlock: receive blocked on channel %d that is closed and empty (it must return None)" % ci, None))
        elif o.kind in "smw":
            acq = 0
            for r in recs_by_done:
                if r.pre in ACQ_OPS and r.args[0] == ci:
                    okv = (r.vals[0] == 1) if r.pre in ("ac", "lk", "rd", "wr") else (r.vals[0] == 0)
                    if okv:
                        acq += acq_n(r, objs)
            back = sum(r.vals[1] for r in recs_by_done if r.tag == 73 and r.pre == "rl" and r.args[0] == ci)
            back += sum(o.init - 1 for r in recs if r.pre == "dg" and r.args[0] == ci and r.tag == 113)
            # drops at the end of bodies: tag 73 records after END carry the store index; count them by replaying holdings
            back_end = end_drops(recs, ended, ci, objs)
            added = sum(r.args[1] for r in recs_by_done if r.pre == "ad" and r.args[0] == ci)
            closed = any(r.pre == "sc" and r.args[0] == ci and r.done is not None for r in recs)
            avail = o.init + added + back + back_end - acq
            pend = [r for r in pending if r.pre in ("ac", "lk", "rd", "wr") and r.args[0] == ci]
            if pend:
                if closed:
                    out.append(("deadlock: acquire blocked on closed semaphore %d" % ci, None))
                elif all(acq_n(r, objs) <= avail for r in pend):
                    out.append(("deadlock: every acquire blocked on semaphore/lock %d fits the %d available permits" % (ci, avail), None))
        elif o.kind == "o":
            sent = any(r.pre == "os" and r.args[0] == ci and r.tag != MISUSE for r in recs)
            txdrop = any(r.pre == "ox" and r.args[0] == ci and r.tag != MISUSE for r in recs)
            for r in pending:
                if r.pre == "or" and r.args[0] == ci and (sent or txdrop):
                    s_done = [x for x in recs if x.pre in ("os", "ox") and x.args[0] == ci and x.done is not None]
                    if s_done:
                        out.append(("deadlock: oneshot %d receiver blocked although the sender has sent or gone" % ci, None))
    return out


def end_drops(recs, ended, si, objs):
    """permits given back by the drops at the end of finished bodies (replayed from the bodies' own operations)"""
    total = 0
    per_task = {}
    for r in recs:
        if r.done is None:
            continue
        if r.pre in ACQ_OPS and r.args[0] == si:
            okv = (r.vals[0] == 1) if r.pre in ("ac", "lk", "rd", "wr") else (r.vals[0] == 0)
            if okv:
                per_task.setdefault(r.task, []).append(acq_n(r, objs))
        if r.pre in ("rl", "fg") and r.args[0] == si and r.tag != MISUSE:
            h = per_task.get(r.task, [])
            if h:
                h.pop()
        if r.pre == "mg" and r.args[0] == si and r.tag == 114:
            h = per_task.get(r.task, [])
            if len(h) >= 2:
                a = h.pop()
                h[-1] += a
        if r.pre == "sp" and r.args[0] == si and r.tag == 115 and r.vals[0] == 1:
            h = per_task.get(r.task, [])
            if h and h[-1] >= r.args[1]:
                h[-1] -= r.args[1]
                h.append(r.args[1])
        if r.pre == "dg" and r.args[0] == si and r.tag == 113:
            h = per_task.get(r.task, [])
            if h:
                h[-1] = 1
    for t, h in per_task.items():
        if t in ended:
            total += sum(h)
    return total


def notify_deadlock(recs, pending, ni, ended=None):
    """Reference semantics of tokio's Notify by counting (independent of which waiter the implementation picked):
    W = registered waiters not notified, N = notified by notify_one and not yet consumed, permit = stored permit."""
    out = []
    moments = []
    futs = {}                   # (task, local index) -> state; local indices count every nf of the task, on any Notify
    count = {}
    for r in recs:
        if r.pre == "nf" and r.done is not None:
            k = count.get(r.task, 0)
            count[r.task] = k + 1
            if r.args[0] == ni:
                futs[(r.task, k)] = {"state": "init", "created": r.done, "bcast": False}
    for r in recs:
        if r.tag == MISUSE:
            continue
        if r.pre == "en" and (r.task, r.args[0]) in futs:
            # the effect of enable (registering, consuming a permit) comes before its scheduling point
            moments.append((r.start, "en", r))
        elif r.pre == "an" and (r.task, r.args[0]) in futs:
            moments.append((r.start, "an_start", r))
            if r.done is not None:
                moments.append((r.done, "an_done", r))
        elif r.pre == "dn" and (r.task, r.args[0]) in futs:
            moments.append((r.start, "dn", r))
        elif r.pre == "no" and r.args[0] == ni:
            moments.append((r.start, "no", r))
        elif r.pre == "na" and r.args[0] == ni:
            moments.append((r.start, "na", r))
    # the futures a body still owns when it returns are dropped there
    class _R:
        pass
    for (t, k) in futs:
        if ended and t in ended:
            x = _R()
            x.task, x.args, x.vals = t, [k], None
            moments.append((ended[t] + 0.5, "dn", x))
    moments.sort(key=lambda x: x[0])
    st = {"W": 0, "N": 0, "permit": False}
    saw_drop_of_enabled = False
    saw_na_with_permit = False

    def first_poll(f):
        if f["state"] == "init":
            if f["bcast"]:
                f["state"] = "done"
            elif st["permit"]:
                st["permit"] = False
                f["state"] = "done"
            else:
                f["state"] = "enabled"
                st["W"] += 1

    def consume(f):
        if f["state"] == "enabled":
            if not f["bcast"]:
                if st["N"] > 0:
                    st["N"] -= 1
                elif st["W"] > 0:
                    st["W"] -= 1
                    out.append(("Notify %d: a Notified completed without a notification" % ni, None))
            f["state"] = "done"

    for pos, kind, r in moments:
        f = futs.get((r.task, r.args[0])) if kind in ("en", "an_start", "an_done", "dn") else None
        if kind == "en":
            was = f["state"]
            first_poll(f)
            if r.vals and r.vals[0] == 1 and was == "enabled":
                consume(f)
            elif r.vals and r.vals[0] == 1 and f["state"] == "enabled":
                # the implementation found it ready at its first poll, the reference did not
                st["W"] -= 1
                f["state"] = "done"
                out.append(("Notify %d: enable() reported ready without a permit or notification" % ni, None))
        elif kind == "an_start":
            first_poll(f)
        elif kind == "an_done":
            consume(f)
        elif kind == "dn":
            if f["state"] in ("dropped", "done"):
                continue
            if f["state"] == "enabled" and not f["bcast"]:
                saw_drop_of_enabled = True
                if st["W"] > 0:
                    st["W"] -= 1
                elif st["N"] > 0:
                    st["N"] -= 1
                    st["permit"] = True       # tokio forwards the notification of a dropped, notified waiter
            f["state"] = "dropped"
        elif kind == "no":
            if st["W"] > 0:
                st["W"] -= 1
                st["N"] += 1
            else:
                st["permit"] = True
        elif kind == "na":
            if st["permit"]:
                saw_na_with_permit = True
            for g in futs.values():
                if g["created"] < pos and g["state"] in ("init", "enabled"):
                    g["bcast"] = True
            st["W"] = 0
            st["N"] = 0
    pend = [r for r in pending if r.pre == "an" and (r.task, r.args[0]) in futs]
    if pend:
        idle_enabled = sum(1 for k, g in futs.items() if g["state"] == "enabled" and not g["bcast"] and not any(p.task == k[0] and p.args[0] == k[1] for p in pend))
        bad = None
        if any(futs[(p.task, p.args[0])]["state"] == "done" for p in pend):
            bad = "under tokio's contract this notified().await completes at its first poll (a permit was stored)"
        elif any(futs[(p.task, p.args[0])]["bcast"] for p in pend):
            bad = "a Notified that notify_waiters covered is still blocked"
        elif st["permit"]:
            bad = "a permit is stored while a notified().await is blocked"
        elif st["N"] > idle_enabled:
            bad = "%d notifications are unconsumed, only %d enabled futures are not being awaited" % (st["N"], idle_enabled)
        if bad:
            tag = None
            if saw_na_with_permit and not saw_drop_of_enabled:
                bad += " (a notify_waiters ran while a permit was stored: regression of C19-F5)"
            if saw_drop_of_enabled:
                tag = "C19-F3"
            out.append(("deadlock on Notify %d: %s" % (ni, bad), tag))
    return out


def oncecell_oracle(recs, pending, xi_):
    """tokio's OnceCell judged on the implementation's trace: every get / get_or_init of one cell returns the same value, that
    value was offered by a set that succeeded or by an initialiser that ran to completion, set succeeds at most once, a get
    that begins after a completed initialisation sees the value, AlreadyInitialized / Initializing are reported only when
    an initialisation has begun, and at a deadlock nobody waits in get_or_init unless an initialiser is still inside."""
    out = []
    mine = [r for r in recs if r.args and r.args[0] == xi_ and r.pre in ("xs", "xg", "xi", "xt") and r.tag != MISUSE]
    seen = set()
    for r in mine:
        if r.done is None:
            continue
        if r.pre in ("xg", "xi", "xt") and r.vals and r.vals[0] == 1:
            seen.add(r.vals[1])
    if len(seen) > 1:
        out.append(("OnceCell %d yielded different values %s" % (xi_, sorted(seen)), None))
    offered = {r.args[1] for r in mine if r.pre in ("xs", "xi")}
    for v in seen:
        if v not in offered:
            out.append(("OnceCell %d holds %d, which no set / get_or_init of the program offers" % (xi_, v), None))
    oks = [r for r in mine if r.pre == "xs" and r.done is not None and r.vals[0] == 0]
    if len(oks) > 1:
        out.append(("OnceCell %d: set succeeded %d times" % (xi_, len(oks)), None))
    # completed initialisations: a successful set, or a get_or_init whose own value was stored
    inits_done = [r.done for r in oks] + [r.done for r in mine if r.pre == "xi" and r.done is not None and r.vals[0] == 1]
    first_init = min(inits_done) if inits_done else None
    begun = [r.start for r in mine if r.pre in ("xs", "xi", "xt")]
    for r in mine:
        if r.done is None:
            continue
        if r.pre == "xg" and r.vals[0] == 0 and first_init is not None and first_init < r.start:
            out.append(("OnceCell %d: get returns None after an initialisation had completed" % xi_, None))
        if r.pre == "xs" and r.vals[0] in (1, 2) and not any(b < r.done and b != r.start for b in begun):
            out.append(("OnceCell %d: set fails although no other initialisation has begun" % xi_, None))
        if r.pre == "xs" and r.vals[0] == 0 and first_init is not None and first_init < r.start:
            out.append(("OnceCell %d: set succeeds after an initialisation had completed" % xi_, None))
    for r in pending:
        if r.pre in ("xi", "xt") and r.args and r.args[0] == xi_:
            others = [q for q in pending if q is not r and q.args and q.args[0] == xi_ and q.pre in ("xi", "xt")]
            if not others:
                out.append(("deadlock: get_or_init blocked on OnceCell %d although no initialiser is running" % xi_, None))
    return out
