"""C01 — a recorded schedule replays to the identical execution."""
import gen_prog
from progcheck import run_prog_check

PROPS = ["Props/C01.v"]
RULE = ("C01: besides the model/implementation trace comparison, every generated program is run on the real crate under a real built-in scheduler "
        "(random, PCT, DFS with random data, round-robin, URW; several iterations, passing, deadlocking, panicking and step-bounded), the schedule recorded by the runtime is "
        "printed with serialize_schedule and fed to ReplayScheduler::new_from_encoded, and the two executions are compared event by event (offered lists, choices, draws, "
        "every operation result and clock, termination); the uncontrolled-nondeterminism checker is run on the same programs and must accept them.")


def run(tier):
    res = run_prog_check("C01", PROPS, tier, ["c08"], n_quick=2500, n_thorough=30000, rule=RULE, exhaustive=["condvar", "chan", "sem"], exh_n=(20, 200))
    if isinstance(res, int):
        return res
    ctx, cases, mo, io = res
    rng = ctx.rng
    n = 700 if tier == "quick" else 8000
    rcases = []
    for i in range(n):
        objs, bodies = gen_prog.gen_program(rng, max_bodies=4, max_ops=rng.choice([3, 5, 7]), features=gen_prog.ALL)
        kind = rng.choice(["random", "random", "pct", "pct", "dfs", "rr", "urw"])
        ms = rng.choice(["none", "none", "none", "fail:%d" % rng.randint(3, 25), "cont:%d" % rng.randint(3, 25)])
        rcases.append("replay %s %d %d %d %s %s %s" % (kind, rng.getrandbits(64), rng.randint(1, 4), rng.choice([1, 2, 4, 8]), ms, objs, bodies))
    # thread lifecycles: thread-locals with destructor bodies (which draw, yield, lock), scopes, nested spawns
    for i in range(150 if tier == "quick" else 2000):
        f = gen_prog.gen_lifecycle(rng).split(" ")
        rcases.append("replay %s %d %d %d none %s %s" % (rng.choice(["random", "pct", "urw", "dfs"]), rng.getrandbits(64), rng.randint(1, 4), rng.choice([2, 4]), f[4], f[5]))
    # long executions: the printed form of their schedules spans several lines
    for i in range(30 if tier == "quick" else 400):
        nb = rng.randint(2, 4)
        bl = []
        for b in range(nb):
            ops = ["sp%d" % j for j in range(1, nb)] if b == 0 else []
            for _ in range(rng.randint(25, 45)):
                ops.append(rng.choice(["yd", "yd", "a0.add.1", "a0.ld", "rn", "lk1;a0.add.2;ul1"]))
            if b == 0:
                ops += ["jn%d" % j for j in range(nb - 1)]
            bl.append(";".join(ops))
        rcases.append("replay %s %d %d %d none a0,m %s" % (rng.choice(["random", "pct", "urw", "rr"]), rng.getrandbits(64), rng.randint(1, 4), rng.choice([1, 3]), "|".join(bl)))
    for i in range(n // 4):
        objs, bodies = gen_prog.gen_program(rng, max_bodies=3, max_ops=5, features=tuple(f for f in gen_prog.ALL if f != "panic"))
        rcases.append("nondet %d %d none %s %s" % (rng.getrandbits(64), rng.choice([2, 5, 10]), objs, bodies))
    out = ctx.run_impl("prog", rcases)
    ctx.evaluations += len(rcases)
    ctx.traces_validated += len(rcases)
    nv = 0
    stats = {"alleq": 0, "fail_replayed": 0, "nd_ok": 0}
    for c, o in zip(rcases, out):
        if c.startswith("replay"):
            if o.startswith("SKIP"):
                stats["skipped"] = stats.get("skipped", 0) + 1
            elif o.endswith("ALLEQ"):
                stats["alleq"] += 1
                if " F=-" not in o:
                    stats["fail_replayed"] += 1
                ctx.note_nontrivial(c)
            else:
                nv += 1
                if nv <= 4:
                    ctx.violation({"layer": "prog", "cases": [c], "implementation_answer": o[:3000],
                                   "why": "replaying the recorded schedule (through its printed form) did not reproduce the execution" if "DIFF" in o else "the replay oracle could not run (abort or error)"})
        else:
            if o.startswith("ND ok"):
                stats["nd_ok"] += 1
            elif o.startswith("ND rejected"):
                nv += 1
                if nv <= 4:
                    ctx.violation({"layer": "prog", "cases": [c], "implementation_answer": o[:600],
                                   "why": "the uncontrolled-nondeterminism checker rejected a body whose only nondeterminism is scheduling and shuttle::rand"})
            elif o.startswith("ND failed-otherwise"):
                stats["nd_ok"] += 1      # the program itself fails (deadlock etc.); not the checker's verdict
            else:
                nv += 1
                if nv <= 4:
                    ctx.violation({"layer": "prog", "cases": [c], "implementation_answer": o[:600], "why": "the nondeterminism check aborted"})
    ctx.cov["replay_oracle"] = stats
    ctx.log("replay oracle: %d cases, %s" % (len(rcases), stats))
    ctx.sample({"case": rcases[0], "impl": out[0][:300]})
    return ctx.finish()
