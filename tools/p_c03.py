"""C03 — deadlock and termination verdicts are exact."""
from progcheck import run_prog_check

PROPS = ["Props/C03.v"]
RULE = ("C03: the verdict of every run of the real runtime is judged twice: against the log (a deadlock report must name exactly the tasks whose bodies did not end, a normal end requires every thread body to have ended unless "
        "the scheduler stopped the execution; detached futures are exempt) and against abstract objects (a task reported as deadlocked must not be blocked in an operation that is enabled: lock of a free mutex, "
        "available rwlock, satisfiable semaphore acquire, closed semaphore).")


def run(tier):
    res = run_prog_check("C03", PROPS, tier, ["c03", "objects:C03:C03x", "sync2:C03"], n_quick=4000, n_thorough=80000, rule=RULE, scenarios=(2500, 40000), focus=["park", "condvar", "barrier", "mutex", "rwlock", "sem", "atomic", "chan"], focus_n=(2000, 40000), exhaustive=["condvar", "park", "chan", "sem", "mutex"], exh_n=(50, 500))
    if isinstance(res, int):
        return res
    ctx, cases, mo, io = res
    # directed scenarios the program language cannot express: a JoinHandle polled by one task and awaited by another
    # (a false deadlock when the completion wakes the wrong task)
    probes = ["probe jhmove 0"]
    po = ctx.run_impl("prog", probes)
    ctx.evaluations += len(probes)
    for c, o in zip(probes, po):
        if not o.startswith("PROBE OK"):
            ctx.violation({"layer": "prog", "cases": [c], "implementation_answer": o,
                           "why": "deadlock reported on a program that terminates under every schedule: a JoinHandle polled by one task and then awaited by another is never resolved"})
    return ctx.finish()
