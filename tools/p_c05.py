"""C05 — Condvar, Barrier, Once, park/unpark neither lose nor invent wake-ups."""
from progcheck import run_prog_check

PROPS = ["Props/C05.v"]
RULE = ("C05: programs mixing Condvar waiters and notifiers (notify_one / notify_all, racing), reused Barriers of bound 1..3, racing call_once with initialiser bodies, park/unpark; "
        "oracle on the crate's traces: a wait returns only after a notify issued since the waiter's previous operation, leaders per barrier = returns / bound, at most one Once initialiser, "
        "is_completed only after an initialiser started; reported deadlocks judged against abstract objects.")


def run(tier):
    feats = ("spawn", "spawn", "join", "yield", "atomic", "park", "park", "mutex", "condvar", "condvar", "barrier", "barrier", "once", "once", "rand")
    res = run_prog_check("C05", PROPS, tier, ["c03", "objects:C03:C04", "sync2:C05"], features=feats, n_quick=3000, n_thorough=60000, rule=RULE,
                         focus=["park", "condvar", "barrier", "park", "condvar", ("spawn", "join", "once", "yield", "atomic")],
                         focus_n=(2500, 50000), exhaustive=["condvar", "park", "barrier", "condvar"], exh_n=(60, 600))
    if isinstance(res, int):
        return res
    ctx, cases, mo, io = res
    return ctx.finish()
