"""C05 — Condvar, Barrier, Once, park/unpark neither lose nor invent wake-ups."""
from progcheck import run_prog_check

PROPS = ["Props/C05.v"]
RULE = ("C05: programs mixing Condvar waiters and notifiers (notify_one / notify_all, racing), reused Barriers of bound 1..3, racing call_once with initialiser bodies, park/unpark; "
        "oracle on the crate's traces: a wait returns only after a notify issued since the waiter's previous operation, leaders per barrier = returns / bound, at most one Once initialiser, "
        "is_completed only after an initialiser started; reported deadlocks judged against abstract objects.")


def run(tier):
    feats = ("spawn", "spawn", "join", "yield", "atomic", "park", "park", "mutex", "condvar", "condvar", "barrier", "barrier", "once", "once", "rand")
    res = run_prog_check("C05", PROPS, tier, ["c03", "objects:C03:C04", "sync2:C05"], features=feats, n_quick=3000, n_thorough=60000, rule=RULE,
                         focus=["park", "condvar", "barrier", "park", "condvar", ("spawn", "join", "once", "yield", "atomic")],
                         focus_n=(2500, 50000), exhaustive=["condvar", "park", "barrier", "condvar"], exh_n=(60, 600))
    if isinstance(res, int):
        return res
    ctx, cases, mo, io = res
    # Once with a panicking initialiser is outside the program language (the body must catch the panic): two directed probes.
    # After a caught panic of the first initialiser, two threads call call_once_force: (0) under one scripted schedule in
    # which the second caller queues on the cell's internal lock before the first publishes completion and gets the lock
    # after the first has returned, (1) under every schedule.  Exactly one initialiser must run to completion.
    from common import load_known_findings
    known = {k["id"]: k for k in load_known_findings() if k.get("kind") == "known"}
    probes = ["probe oncepoison 0", "probe oncepoison 1"]
    po = ctx.run_impl("prog", probes)
    ctx.evaluations += len(probes)
    for c, o in zip(probes, po):
        if o.startswith("PROBE OK"):
            continue
        if "poisoned-mutex-assertion" in o and c.endswith(" 1") and "F39" in known:
            ctx.known("F39", known["F39"]["what"])
            continue
        ctx.violation({"layer": "prog", "cases": [c], "implementation_answer": o[:400],
                       "why": ("two initialisers ran to completion on one Once after a poisoning panic" if "two-initialisers" in o
                               else "call_once_force after a poisoning panic does not run exactly one initialiser to completion: " + o[:120])})
    ctx.dist("probes.oncepoison", len(probes))
    return ctx.finish()
