"""C16 — schedule strings round-trip; malformed strings are rejected."""
import os
from common import Ctx, ROOT

PROPS = "Props/C16.v"
WS = [9, 10, 11, 12, 13, 32, 133, 160, 5760, 8192, 8199, 8202, 8232, 8233, 8239, 8287, 12288]
NOT_WS = [8203, 8288, 65279, 6158]      # zero-width space, word joiner, BOM, Mongolian vowel separator: NOT White_Space


def varint(v):
    out = []
    while True:
        cur = v & 0x7F
        v >>= 7
        if v == 0:
            out.append(cur)
            return out
        out.append(cur | 0x80)


def hexs(bs):
    return "".join("%02x" % b for b in bs)


def cps(s):
    return ",".join(str(ord(c)) for c in s) if s else "-"


def show_steps(steps):
    return ",".join("r" if s is None else "t%d" % s for s in steps) if steps else "-"


BOUNDARY_IDS = sorted(set([0, 1, 2, 3, 7, 8] + [2 ** k - 1 for k in range(1, 65)] + [2 ** k for k in range(1, 64)]))
BOUNDARY_SEEDS = sorted(set([0, 1, 127, 128, 255, 256] + [2 ** (7 * k) - 1 for k in range(1, 10)] + [2 ** (7 * k) for k in range(1, 10)] + [2 ** 63 - 1, 2 ** 63, 2 ** 64 - 1]))


def gen_schedules(ctx, n):
    rng = ctx.rng
    out = []
    # systematic part: every boundary id alone and next to a small id; every boundary seed
    for i in BOUNDARY_IDS:
        out.append((rng.choice(BOUNDARY_SEEDS), [i]))
        out.append((rng.getrandbits(64), [0, None, i, 1, None]))
    for s in BOUNDARY_SEEDS:
        out.append((s, [None, 0, 1]))
        out.append((s, []))
    # every length 0..170 (crosses the 76-column wrap at every residue for several widths)
    for L in range(0, 171):
        w = rng.choice([1, 1, 2, 3, 5, 8, 13, 31, 32, 33, 63, 64])
        p = rng.choice([0.0, 0.2, 0.5, 0.9, 1.0])
        steps = [None if rng.random() < p else rng.getrandbits(rng.randint(1, w)) for _ in range(L)]
        out.append((rng.getrandbits(rng.choice([1, 7, 8, 14, 35, 63, 64])), steps))
    while len(out) < n:
        L = rng.choice([rng.randint(0, 40), rng.randint(0, 400), rng.randint(0, 1500 if ctx.tier == "thorough" else 700)])
        w = rng.choice([1, 1, 1, 2, 3, 4, 7, 8, 9, 16, 17, 32, 33, 63, 64])
        p = rng.choice([0.0, 0.1, 0.5, 0.95, 1.0])
        steps = [None if rng.random() < p else rng.getrandbits(rng.randint(1, w)) for _ in range(L)]
        if steps and rng.random() < 0.3:
            steps[rng.randrange(len(steps))] = rng.choice(BOUNDARY_IDS)
        out.append((rng.choice(BOUNDARY_SEEDS) if rng.random() < 0.3 else rng.getrandbits(64), steps))
    return out


def run(tier):
    ctx = Ctx("C16", tier)
    rng = ctx.rng
    ctx.gen_params()
    ctx.proof_gate(PROPS)
    ok = ctx.build_model() and ctx.build_harness()
    if not ok:
        return ctx.finish()

    n = 1500 if tier == "quick" else 5000
    scheds = gen_schedules(ctx, n)
    ser_cases = ["ser %d %s" % (seed, show_steps(st)) for seed, st in scheds]
    mo, io, mism = ctx.differential("codec", ser_cases)
    ctx.log("ser: %d cases, %d model/impl mismatches" % (len(ser_cases), len(mism)))
    for seed, st in scheds:
        ctx.dist("ser.len<=1" if len(st) <= 1 else "ser.len<=76" if len(st) <= 76 else "ser.len>76")
    texts = []
    for i, line in enumerate(io):
        texts.append(line[2:].replace("|", "\n") if line.startswith("S ") else None)

    # ---- decode cases ----
    dcases = []     # (case line, kind, expected or None, origin index)

    def add(text, kind, expect=None, origin=None):
        dcases.append(("deser %s" % cps(text), kind, expect, origin))

    # corpus first: minimised past failures and the witnesses of F1
    for line in open(os.path.join(ROOT, "corpus", "c16.txt")):
        line = line.rstrip("\n")
        if line and not line.startswith("#"):
            kind, _, text = line.partition(" ")
            add(text.encode().decode("unicode_escape") if text != "-" else "", "corpus:" + kind, "I" if kind == "invalid" else None)

    for i, (seed, st) in enumerate(scheds):
        t = texts[i]
        if t is None:
            continue
        want = "D %d %s" % (seed, show_steps(st))
        flat = t.replace("\n", "")
        r = rng.random()
        add(t, "rt", want, i)
        if r < 0.35:
            add(flat, "rt-flat", want, i)
        elif r < 0.7:
            inj = "".join((chr(rng.choice(WS)) * rng.randint(0, 2) if rng.random() < 0.15 else "") + c for c in flat) + chr(rng.choice(WS))
            add(chr(rng.choice(WS)) + inj, "rt-ws", want, i)
        elif r < 0.85:
            add(t.upper(), "rt-upper", want, i)
        else:
            add("".join(c.upper() if rng.random() < 0.5 else c for c in t), "rt-mixedcase", want, i)
        # malformed derivatives
        r = rng.random()
        if len(flat) <= 24 and i % 3 == 0:
            for k in range(len(flat)):
                add(flat[:k], "cut", ("cut", want), i)
        elif r < 0.25:
            add(flat[:rng.randrange(len(flat))], "cut", ("cut", want), i)
        elif r < 0.4:
            k = 2 * rng.randrange(len(flat) // 2)
            add(flat[:k], "cut", ("cut", want), i)
        elif r < 0.5:
            k = rng.randrange(len(flat))
            add(flat[:k] + rng.choice("gGzZ:/@`-_ x") + flat[k + 1:], "badchar", None, i)
        elif r < 0.6:
            k = rng.randrange(len(flat))
            add(flat[:k] + chr(rng.choice(NOT_WS + [233, 0x4E2D, 0x1F600])) + flat[k:], "nonascii", "I", i)
        elif r < 0.7:
            k = rng.randrange(len(flat))
            add(flat[:k] + rng.choice("0123456789abcdef") + flat[k + 1:], "edit", None, i)
        elif r < 0.75:
            add("%02x" % rng.choice([0, 1, 0x90, 0x92, 0x19, 0xff]) + flat[2:], "magic", "I", i)

    # crafted headers
    for w in [0, 1, 2, 63, 64, 65, 66, 127, 128, 255, 2 ** 32, 2 ** 63, 2 ** 64 - 1]:
        for ln in [0, 1, 2, 7, 8, 9, 64, 1000, 2 ** 32, 2 ** 61, 2 ** 63, 2 ** 64 - 1]:
            for payload in [[], [0], [0xff], [0x55, 0xaa, 0, 0, 0, 0, 0, 0, 0, 0x80], [0xff] * 20, [0] * 40]:
                add(hexs([0x91] + varint(w) + varint(ln) + varint(rng.choice(BOUNDARY_SEEDS)) + payload), "header", None)
    # non-canonical and overlong varints
    for v in [[0x80, 0x00], [0x80, 0x80, 0x00], [0xff] * 9 + [0x01], [0xff] * 9 + [0x02], [0xff] * 9 + [0x00], [0x80] * 9 + [0x01], [0xff] * 10 + [0x01], [0x81]]:
        add(hexs([0x91, 1, 1] + v + [0x00]), "varint", None)
        add(hexs([0x91] + v + [1, 0, 0]), "varint", None)
        add(hexs([0x91, 1] + v + [0] + [0] * 4), "varint", None)
    # random strings
    for _ in range(300 if tier == "quick" else 3000):
        L = rng.randint(0, 40)
        alpha = rng.choice(["0123456789abcdef", "0123456789abcdefABCDEF \n", "91", "0123456789abcdefg"])
        add("91" * rng.randint(0, 1) + "".join(rng.choice(alpha) for _ in range(L)), "random", None)
    for c in WS:
        add(chr(c), "only-ws", "I")
        add(chr(c) + "9101" + chr(c) + "0100" + chr(c), "ws-each", None)
    for c in NOT_WS:
        add("9101" + chr(c) + "0100", "not-ws", "I")

    dl = [c[0] for c in dcases]
    dmo, dio, dmism = ctx.differential("codec", dl)
    ctx.log("deser: %d cases, %d model/impl mismatches" % (len(dl), len(dmism)))

    # ---- oracles on the implementation's own answers ----
    nfail = 0
    for j, (line, kind, expect, origin) in enumerate(dcases):
        got = dio[j]
        ctx.dist("deser." + kind.split(":")[0])
        bad = None
        if got == "C" or got.startswith("ABORT"):
            bad = "decoder crashed (panic) instead of reporting an invalid string"
        elif isinstance(expect, str) and got != expect:
            bad = "expected %s" % (expect if len(expect) < 200 else expect[:200] + "...")
        elif isinstance(expect, tuple) and got != "I" and got != expect[1]:
            bad = "a cut-short encoding decoded into a different schedule"
        if kind in ("rt", "rt-flat", "rt-ws", "rt-upper", "rt-mixedcase") or got.startswith("D "):
            ctx.note_nontrivial(line)
        if bad:
            nfail += 1
            if nfail <= 5:
                ctx.violation({"kind": kind, "layer": "codec", "cases": [line] + ([ser_cases[origin]] if origin is not None else []),
                               "implementation_answer": got, "model_answer": dmo[j], "why": bad})
    # ser-side oracle: the implementation must not panic while serialising
    for i, line in enumerate(io):
        if not line.startswith("S "):
            nfail += 1
            if nfail <= 5:
                ctx.violation({"kind": "ser", "layer": "codec", "cases": [ser_cases[i]], "implementation_answer": line, "model_answer": mo[i],
                               "why": "serialize_schedule failed"})
    # correspondence
    ctx.disagreements_checked = len(mism) + len(dmism)
    if (mism or dmism):
        ex = [{"case": ser_cases[i], "model": mo[i], "impl": io[i]} for i in mism[:3]] + [{"case": dl[j], "model": dmo[j], "impl": dio[j]} for j in dmism[:3]]
        ctx.broken.append({"kind": "correspondence", "layer": "codec", "what": "model (Codec/Schedule.v) and serialization.rs disagree on %d cases; theorems C16_* are about a model that no longer describes the code" % (len(mism) + len(dmism)), "examples": ex})
    ctx.cov["rule"] = ("structured schedules (boundary ids 2^k-1/2^k, boundary seeds, every length 0..170, random mixes) serialised by model and crate; "
                       "their texts re-parsed as is / flattened / with Unicode white space / upper-case, plus cut, edited, crafted-header, overlong-varint and random strings. "
                       "distinct_nontrivial counts distinct decode inputs that are round-trip cases or that the crate decoded into a schedule")
    for c in dcases[:2] + dcases[len(dcases) // 2: len(dcases) // 2 + 2]:
        ctx.sample({"case": c[0][:300], "kind": c[1]})
    ctx.sample({"case": ser_cases[5], "kind": "ser"})
    return ctx.finish()
