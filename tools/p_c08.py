"""C08 — the runtime honours the Scheduler interface contract."""
from progcheck import run_prog_check

PROPS = ["Props/C08.v"]
RULE = ("C08: every decision the real runtime asks of the (scripted) scheduler is recorded with its arguments: the offered list must be non-empty and strictly ascending, the current-task argument must be the "
        "previous choice (none at first), operations may only be recorded for the chosen task, and an answer of None must end the execution normally with nothing after it; offered lists, yield flags and choices "
        "are also compared decision by decision with the model, whose decisions are proved to satisfy the contract (offered = exactly the runnable plus spuriously-wakeable unfinished tasks).")


def run(tier):
    res = run_prog_check("C08", PROPS, tier, ["c08"], n_quick=5000, n_thorough=80000, rule=RULE, focus=["park", "condvar", "barrier", "mutex", "rwlock", "sem", "atomic", "chan"], focus_n=(2000, 40000), exhaustive=["condvar", "park", "barrier", "chan", "sem", "acq", "mutex", "rwlock", "atomic"], exh_n=(30, 300))
    if isinstance(res, int):
        return res
    ctx, cases, mo, io = res
    # transparent wrappers: the same case with the scripted scheduler inside AnnotationScheduler / Box<dyn Scheduler> must give
    # the inner scheduler exactly the same arguments and the run exactly the same trace (MetricsScheduler is always present:
    # Runner wraps every scheduler in it; the nondeterminism checker is exercised by C01's `nondet` runs)
    sub = [c for c in cases if c.startswith("prog ")][:: max(1, len(cases) // (600 if tier == "quick" else 6000))]
    wcases, base = [], []
    for k, c in enumerate(sub):
        w = ("ann", "box", "und")[k % 3]
        wcases.append("wrapped %s %s" % (w, c[5:]))
        base.append(io[cases.index(c)])
    wo = ctx.run_impl("prog", wcases)
    ctx.evaluations += len(wcases)
    nw = 0
    for wc, b, o in zip(wcases, base, wo):
        if wc.startswith("wrapped und "):
            # recording pass = the tokens between the first two execution marks; it must equal the unwrapped run's events
            # (the replay pass repeats the operations without consulting the inner scheduler)
            if "T=panic" in b or "T=deadlock" in b or "T=stepbound" in b or " @@ " not in " " + o + " ":
                continue
            toks = o.split(" ")
            marks = [i for i, t in enumerate(toks) if t == "@@"]
            end = marks[1] if len(marks) > 1 else len(toks)
            first = [t for t in toks[:end] if t != "@@" and not (t.startswith("T=") or t.startswith("S="))]
            bev = [t for t in b.split(" ") if not (t.startswith("T=") or t.startswith("S="))]
            o, b = " ".join(first), " ".join(bev)
        if o != b:
            nw += 1
            if nw <= 3:
                x, y = b.split(" "), o.split(" ")
                pos = next((i for i in range(min(len(x), len(y))) if x[i] != y[i]), min(len(x), len(y)))
                ctx.violation({"layer": "prog", "cases": [wc], "implementation_answer": o[:2500], "unwrapped": b[:2500],
                               "why": "a transparent scheduler wrapper changed the run: first difference at token %d (%s vs %s)" % (pos, x[pos] if pos < len(x) else "<end>", y[pos] if pos < len(y) else "<end>")})
    ctx.dist("wrapped.runs", len(wcases))
    ctx.assumptions.append("transparent wrappers are not modelled in Coq: AnnotationScheduler and Box<dyn Scheduler> are compared with the unwrapped run on the real crate, MetricsScheduler is present in every run, the nondeterminism checker is exercised by C01; PortfolioStoppableScheduler is private to the PortfolioRunner and is not exercised")
    return ctx.finish()
