"""C08 — the runtime honours the Scheduler interface contract."""
from progcheck import run_prog_check

PROPS = ["Props/C08.v"]
RULE = ("C08: every decision the real runtime asks of the (scripted) scheduler is recorded with its arguments: the offered list must be non-empty and strictly ascending, the current-task argument must be the "
        "previous choice (none at first), operations may only be recorded for the chosen task, and an answer of None must end the execution normally with nothing after it; offered lists, yield flags and choices "
        "are also compared decision by decision with the model, whose decisions are proved to satisfy the contract (offered = exactly the runnable plus spuriously-wakeable unfinished tasks).")


def run(tier):
    res = run_prog_check("C08", PROPS, tier, ["c08"], n_quick=5000, n_thorough=80000, rule=RULE)
    if isinstance(res, int):
        return res
    ctx, cases, mo, io = res
    ctx.assumptions.append("transparent wrappers (metrics, annotation, portfolio stop, nondeterminism check) are exercised only through Runner's MetricsScheduler (always present) and the nondeterminism checker in C01; they are not modelled in Coq")
    return ctx.finish()
