"""Generator of Prog programs (text format shared by ocaml/l_prog.ml and harness/src/l_prog.rs)."""

ATOMIC_VALS = [0, 1, 2, 3, 7, 255, 2**32, 2**63, 2**64 - 1, 2**64 - 2]


def gen_atomic_op(rng, nobj):
    a = rng.randrange(nobj)
    k = rng.choice(["ld", "ld", "st", "sw", "cas", "add", "add", "sub", "and", "nand", "or", "xor", "max", "min"])
    v = rng.choice(ATOMIC_VALS) if rng.random() < 0.5 else rng.randrange(0, 6)
    if k == "ld":
        return "a%d.ld" % a
    if k == "cas":
        return "a%d.cas.%d.%d" % (a, rng.randrange(0, 4), v)
    return "a%d.%s.%d" % (a, k, v)


ALL = ("spawn", "join", "yield", "park", "atomic", "rand", "reset", "panic", "sem", "mutex", "rwlock", "condvar", "chan", "barrier", "once", "async")
BASIC = ("spawn", "join", "yield", "park", "atomic", "rand", "reset", "panic", "sem", "mutex", "rwlock")


def gen_program(rng, max_bodies=4, max_ops=6, wild=False, features=("spawn", "join", "yield", "park", "atomic", "rand", "reset", "panic")):
    """Returns (objs, bodies) strings.  Body i spawns only bodies j > i (so the spawn graph is acyclic)."""
    nb = rng.randint(1, max_bodies)
    nobj = rng.randint(1, 3)
    objl = ["a%d" % rng.choice([0, 0, 1, 5, 2**64 - 1]) for _ in range(nobj)]
    sems, mutexes, rwlocks = [], [], []
    if "sem" in features:
        for _ in range(rng.randint(1, 2)):
            sems.append(len(objl))
            objl.append("s%d:%s" % (rng.choice([0, 1, 1, 2, 3]), rng.choice("fu")))
    if wild:
        features = tuple(f for f in features if f not in ("mutex", "rwlock", "once", "condvar"))
    if "mutex" in features:
        for _ in range(rng.randint(1, 2)):
            mutexes.append(len(objl))
            objl.append("m")
    if "rwlock" in features:
        for _ in range(rng.randint(1, 2)):
            rwlocks.append(len(objl))
            objl.append("w")
    condvars, chans, barriers, onces = [], [], [], []
    if "condvar" in features and mutexes:
        condvars.append(len(objl))
        objl.append("v")
    if "chan" in features:
        for _ in range(rng.randint(1, 2)):
            chans.append(len(objl))
            objl.append("c%s" % rng.choice(["u", "0", "1", "1", "2"]))
            objl.append("e")
    if "barrier" in features:
        barriers.append(len(objl))
        objl.append("b%d" % rng.choice([1, 2, 2, 3]))
    if "once" in features and nb >= 2:
        onces.append(len(objl))
        objl.append("o")
        objl.append("m")
    objs = ",".join(objl)
    sync_w = 0.45 if (sems or mutexes or rwlocks) else 0.0
    new_w = 0.3 if (condvars or chans or barriers or onces) else 0.0
    closure_body = nb - 1 if onces else None
    rx_body = rng.randrange(nb) if chans else None
    if rx_body == closure_body:
        rx_body = 0
    spawned = set()
    bodies = []
    for b in range(nb):
        ops = []
        handles = 0
        joined = set()
        held = []          # guards certainly held (taken by a blocking lock)
        maybe = []         # objects on which a try-lock was attempted (a guard may be held)
        n = rng.randint(0, max_ops)
        dropped_tx = set()
        dropped_rx = set()
        ah = 0
        ah_dead = set()
        for _ in range(n):
            r = rng.random()
            if b == closure_body:
                # the closure runs while the caller holds the Once's mutex and possibly other guards: only operations
                # that cannot panic by themselves
                k = rng.random()
                if k < 0.3:
                    ops.append(gen_atomic_op(rng, nobj))
                elif k < 0.5:
                    ops.append("yd")
                elif k < 0.6:
                    ops.append("rn")
                elif k < 0.7 and sems:
                    ops.append(rng.choice(["sr%d.1", "st%d.1", "sv%d"]) % rng.choice(sems))
                elif k < 0.8 and condvars:
                    ops.append(rng.choice(["cn%d", "ca%d"]) % rng.choice(condvars))
                elif k < 0.85 and "panic" in features:
                    ops.append("pn")
                elif k < 0.9:
                    ops.append("ut0")
                else:
                    ops.append("ic%d" % rng.choice(onces))
                continue
            if "async" in features and b != closure_body and rng.random() < 0.22:
                live = [h for h in range(ah) if h not in ah_dead]
                k = rng.random()
                cands = [j for j in range(b + 1, nb) if j != closure_body and (not chans or j not in spawned)]
                if k < 0.3 and cands:
                    j = rng.choice(cands)
                    spawned.add(j)
                    ops.append("as%d" % j)
                    ah += 1
                elif k < 0.5 and live:
                    h = rng.choice(live)
                    ah_dead.add(h)
                    ops.append("aw%d" % h)
                elif k < 0.6 and live:
                    ops.append("ab%d" % rng.choice(live))
                elif k < 0.67 and live:
                    h = rng.choice(live)
                    ah_dead.add(h)
                    ops.append("dh%d" % h)
                elif k < 0.72 and live:
                    ops.append("if%d" % rng.choice(live))
                elif k < 0.8 and cands and not held and not maybe:
                    # the block_on body runs in this task: only when no guard is (possibly) held, so that it cannot re-lock
                    j = rng.choice(cands)
                    spawned.add(j)
                    ops.append("bo%d" % j)
                elif wild and k < 0.85:
                    ops.append("aw%d" % rng.randrange(0, 3))
                else:
                    ops.append("ay")
                continue
            if rng.random() < new_w:
                kinds = (["cv"] * 2 if condvars else []) + (["chan"] * 3 if chans and b != closure_body and b < 3 else []) + (["bar"] if barriers else []) + (["once"] if onces and b != closure_body else [])
                if not kinds:
                    ops.append("yd")
                    continue
                kind = rng.choice(kinds)
                if kind == "cv":
                    cv = rng.choice(condvars)
                    free_m = [m_ for m_ in mutexes if m_ not in held and m_ not in maybe]
                    if free_m and rng.random() < 0.4:
                        m_ = rng.choice(free_m)
                        ops.extend(["lk%d" % m_, "cw%d.%d" % (cv, m_), "ul%d" % m_])
                        continue
                    if held and rng.random() < 0.5 and any(g in mutexes for g in held):
                        ops.append("cw%d.%d" % (cv, rng.choice([g for g in held if g in mutexes])))
                    elif wild and rng.random() < 0.2:
                        ops.append("cw%d.%d" % (cv, rng.choice(mutexes)))
                    else:
                        ops.append(rng.choice(["cn%d", "cn%d", "ca%d"]) % cv)
                elif kind == "chan":
                    ch = rng.choice(chans)
                    slot = b % 3
                    rr = rng.random()
                    if b == rx_body and rr < 0.45 and ch not in dropped_rx:
                        k = rng.choice(["rc", "rc", "tc", "dr"] if rng.random() < 0.25 else ["rc", "rc", "tc"])
                        if k == "dr":
                            dropped_rx.add(ch)
                        ops.append("%s%d" % (k, ch))
                    elif (ch, slot) not in dropped_tx:
                        k = rng.choice(["sd", "sd", "sd", "ts", "dt"])
                        if k == "dt":
                            dropped_tx.add((ch, slot))
                            ops.append("dt%d.%d" % (ch, slot))
                        else:
                            ops.append("%s%d.%d.%d" % (k, ch, slot, rng.randrange(1, 100)))
                    elif wild:
                        ops.append("sd%d.%d.7" % (ch, slot))
                    else:
                        ops.append("yd")
                elif kind == "bar":
                    ops.append("bw%d" % rng.choice(barriers))
                else:
                    o = rng.choice(onces)
                    ops.append(rng.choice(["co%d.%d" % (o, closure_body), "co%d.%d" % (o, closure_body), "ic%d" % o]))
                continue
            if rng.random() < sync_w:
                kind = rng.choice((["sem"] if sems else []) + (["mutex"] * 2 if mutexes else []) + (["rwlock"] * 2 if rwlocks else []))
                if kind == "sem":
                    o = rng.choice(sems)
                    k = rng.choice(["sa", "sa", "st", "sr", "sr", "sv", "sc"] if not wild else ["sa", "st", "sr", "sv", "sc", "sc"])
                    if k in ("sa", "st", "sr"):
                        ops.append("%s%d.%d" % (k, o, rng.choice([1, 1, 1, 2, 3] + ([0] if wild else []))))
                    else:
                        if k == "sc" and rng.random() < 0.6 and not wild:
                            k = "sv"
                        ops.append("%s%d" % (k, o))
                elif kind == "mutex":
                    o = rng.choice(mutexes)
                    mine = [g for g in held if g == o]
                    if mine and rng.random() < 0.6:
                        ops.append("ul%d" % o)
                        held.remove(o)
                    elif rng.random() < 0.3:
                        ops.append("tl%d" % o)
                        maybe.append(o)
                    elif not mine and o not in maybe:
                        ops.append("lk%d" % o)
                        held.append(o)
                    else:
                        ops.append("yd")
                else:
                    o = rng.choice(rwlocks)
                    mine = [g for g in held if g == o]
                    if mine and rng.random() < 0.6:
                        ops.append("ru%d" % o)
                        held.remove(o)
                    elif rng.random() < 0.35:
                        ops.append("%s%d" % (rng.choice(["tr", "tw"]), o))
                        maybe.append(o)
                    elif not mine and o not in maybe:
                        ops.append("%s%d" % (rng.choice(["rd", "rd", "wr"]), o))
                        held.append(o)
                    else:
                        ops.append("yd")
                continue
            if "spawn" in features and b + 1 < nb and r < 0.22 and b != closure_body:
                cands = [j for j in range(b + 1, nb) if j != closure_body and (not chans or j not in spawned)]
                if cands:
                    j = rng.choice(cands)
                    spawned.add(j)
                    ops.append("sp%d" % j)
                    handles += 1
                else:
                    ops.append("yd")
            elif "join" in features and r < 0.40 and (handles > len(joined) or wild):
                if wild and (rng.random() < 0.3 or handles <= len(joined)):
                    ops.append("jn%d" % rng.randrange(0, 3))
                elif handles <= len(joined):
                    ops.append("yd")
                else:
                    h = rng.choice([x for x in range(handles) if x not in joined])
                    joined.add(h)
                    ops.append("jn%d" % h)
            elif "yield" in features and r < 0.50:
                ops.append("yd")
            elif "park" in features and r < 0.58:
                ops.append("pk")
            elif "park" in features and r < 0.68:
                if handles and rng.random() < 0.5:
                    ops.append("uh%d" % rng.randrange(handles))
                else:
                    ops.append("ut%d" % (rng.randrange(0, nb + 2) if wild else 0))
            elif "rand" in features and r < 0.74:
                ops.append("rn")
            elif "reset" in features and r < 0.77:
                ops.append("rs")
            elif "panic" in features and r < 0.78 + (0.02 if wild else 0) and not maybe:
                ops.append("pn")
            elif "atomic" in features:
                ops.append(gen_atomic_op(rng, nobj))
            else:
                ops.append("yd")
        bodies.append(";".join(ops) if ops else "-")
    return objs, "|".join(bodies)


def gen_script(rng, maxlen=40):
    n = rng.choice([0, rng.randint(0, 8), rng.randint(0, maxlen)])
    mode = rng.random()
    if mode < 0.15:
        s = ["0"] * n
    elif mode < 0.3:
        s = ["1"] * n
    else:
        s = [str(rng.randrange(0, 6)) for _ in range(n)]
    if s and rng.random() < 0.05:
        s[rng.randrange(len(s))] = "x"
    return ",".join(s) if s else "-"


def gen_ms(rng):
    r = rng.random()
    if r < 0.6:
        return "none"
    if r < 0.8:
        return "fail:%d" % rng.randint(1, 30)
    return "cont:%d" % rng.randint(1, 30)


def gen_case(rng, **kw):
    objs, bodies = gen_program(rng, **kw)
    return "prog %s %s %d %s %s" % (gen_ms(rng), gen_script(rng), rng.getrandbits(32), objs, bodies)


# ---------------- scenario stream: deadlock / detached / abort / park interactions ----------------
SCN_OBJS = "a0,s0:f,s1:u,m,m,v,cu,e,b2"     # 0 atomic, 1 fair sem (0 permits), 2 unfair sem (1), 3,4 mutexes, 5 condvar, 6 channel (+7), 8 barrier(2)


def gen_scenario(rng):
    """Programs built from the ingredients C03/C17 quantify over: tasks that block for ever (empty semaphore, park, recv
    without sender, lock-order inversion, lone barrier, un-notified condvar), detached and aborted futures, parked
    threads whose only waker is a detached task, all-pending futures.  Valid by construction (no implicit panics)."""
    nb = rng.randint(2, 4)
    kinds = [None] + [rng.choice(["sp", "as", "as"]) for _ in range(1, nb)]
    rx = rng.randrange(nb)

    def filler(b):
        c = ["yd", "yd", "a0.add.1", "sv1", "sr2.1;sv2", "ut0", "rn"]
        if kinds[b] == "as":
            c += ["ay", "ay"]
        return rng.choice(c)

    def blocker(b, held):
        c = ["sa1.1", "pk", "pk", "bw8", "sr1.1"]
        if b == rx:
            c += ["rc6"]
        else:
            c += ["sd6.%d.%d" % (b % 3, rng.randrange(1, 9))] if b < 3 else []
        if not held:
            c += [rng.choice(["lk3;yd;lk4;ul4;ul3", "lk4;yd;lk3;ul3;ul4"]), "lk3;cw5.3;ul3", "lk3;cn5;ul3", "lk3;yd;ul3"]
        return rng.choice(c)

    parent = [None] + [0 if rng.random() < 0.65 else rng.randrange(j) for j in range(1, nb)]
    bodies = []
    for b in range(nb):
        ops = []
        kids = [j for j in range(1, nb) if parent[j] == b]
        if b > 0:
            for _ in range(rng.randint(0, 2)):
                ops.append(filler(b) if rng.random() < 0.5 else blocker(b, False))
        handles = []   # (kind, index among that kind)
        nsp = nas = 0
        for j in kids:
            ops.append("%s%d" % (kinds[j], j))
            if kinds[j] == "sp":
                handles.append(("sp", nsp)); nsp += 1
            else:
                handles.append(("as", nas)); nas += 1
            if rng.random() < 0.4:
                ops.append(filler(b))
        rng.shuffle(handles)
        for k, h in handles:
            if rng.random() < 0.35:
                ops.append(filler(b) if rng.random() < 0.6 else blocker(b, False))
            if k == "sp":
                r = rng.random()
                if r < 0.5:
                    ops.append("jn%d" % h)
                elif r < 0.7:
                    ops.append("uh%d" % h)
            else:
                r = rng.random()
                if r < 0.25:
                    ops.append("dh%d" % h)
                elif r < 0.45:
                    ops.extend(["ab%d" % h, rng.choice(["aw%d" % h, "dh%d" % h, "yd"])])
                elif r < 0.7:
                    ops.append("aw%d" % h)
                elif r < 0.8:
                    ops.extend(["if%d" % h, "dh%d" % h])
        if b == 0:
            if rng.random() < 0.6:
                ops.append(blocker(0, False))
        else:
            for _ in range(rng.randint(0, 2)):
                ops.append(filler(b) if rng.random() < 0.5 else blocker(b, False))
        bodies.append(";".join(ops) if ops else "-")
    return "prog %s %s %d %s %s" % (gen_ms(rng) if rng.random() < 0.3 else "none", gen_script(rng), rng.getrandbits(32), SCN_OBJS, "|".join(bodies))


# ---------------- C07: thread lifecycle, scopes, thread-locals ----------------
def gen_async_tls(rng):
    """Spawned futures that own thread-locals whose destructors contain scheduling points: Wrapper::finish runs those
    destructors before it publishes the result and wakes the task awaiting the JoinHandle, so the joiner's first poll may
    fall inside a destructor.  Layout: body 0 = main (a thread), 1..n = futures, the last one or two bodies = destructors."""
    ntask = rng.randint(1, 3)
    ndtor = rng.randint(1, 2)
    tasks = list(range(1, 1 + ntask))
    dtors = list(range(1 + ntask, 1 + ntask + ndtor))
    objl = ["a%d" % rng.choice([0, 1]), "m"]
    keys = []
    for _ in range(rng.randint(1, 2)):
        keys.append(len(objl))
        objl.append("k%d:%s" % (rng.randrange(0, 50), rng.choice([str(rng.choice(dtors)), str(rng.choice(dtors)), "-"])))
    bodies = []
    for b in range(1 + ntask + ndtor):
        ops = []
        if b in dtors:
            for _ in range(rng.randint(1, 3)):
                ops.append(rng.choice(["yd", "yd", "a0.add.1", "lk1;yd;ul1", "a0.ld"]))
        else:
            cands = [j for j in tasks if j > b]
            handles = []
            for _ in range(rng.randint(1, 6)):
                acts = ["tls"] * 3 + ["step"] * 3
                if cands:
                    acts += ["spawn"] * 3
                if handles:
                    acts += ["await"] * 3 + ["abort", "detach"]
                a = rng.choice(acts)
                if a == "tls":
                    ops.append("lw%d.%d" % (rng.choice(keys), rng.randrange(1, 9)))
                elif a == "step":
                    ops.append(rng.choice(["yd", "a0.add.1", "a0.ld"]) if b == 0 else rng.choice(["ay", "ay", "a0.add.1", "a0.ld"]))
                elif a == "spawn":
                    j = cands.pop(0)
                    handles.append(len(handles))
                    ops.append("as%d" % j)
                elif a == "await":
                    ops.append("aw%d" % handles.pop(rng.randrange(len(handles))))
                elif a == "abort":
                    ops.append("ab%d" % rng.choice(handles))
                else:
                    ops.append("dh%d" % handles.pop(rng.randrange(len(handles))))
            for h in handles:
                if rng.random() < 0.7:
                    ops.append("aw%d" % h)
        bodies.append(";".join(ops) if ops else "-")
    return "prog none %s %d %s %s" % (gen_script(rng), rng.getrandbits(32), ",".join(objl), "|".join(bodies))


def gen_lifecycle(rng):
    """Programs over spawn/join (nested, any order), scoped threads, thread-locals whose destructors use other
    thread-locals and synchronisation, thread ids.  Layout: body 0 = main; optional scope body (run inline by main,
    once); thread bodies; the last one or two bodies are destructor bodies (leaf bodies: no spawn, no blocking)."""
    if rng.random() < 0.3:
        return gen_async_tls(rng)
    nthreads = rng.randint(1, 4)
    ndtor = rng.randint(1, 2)
    has_scope = rng.random() < 0.55
    scope_body = 1 if has_scope else None
    first_thread = 2 if has_scope else 1
    thread_bodies = list(range(first_thread, first_thread + nthreads))
    dtor_bodies = list(range(first_thread + nthreads, first_thread + nthreads + ndtor))
    nb = first_thread + nthreads + ndtor
    objl = ["a%d" % rng.choice([0, 1, 5]), "m"]
    keys = []
    for _ in range(rng.randint(1, 3)):
        keys.append(len(objl))
        objl.append("k%d:%s" % (rng.randrange(0, 50), rng.choice([str(rng.choice(dtor_bodies)), str(rng.choice(dtor_bodies)), "-"])))
    zobj = None
    if has_scope:
        zobj = len(objl)
        objl.append("z")

    def common(b):
        r = rng.random()
        if r < 0.4:
            return "lw%d.%d" % (rng.choice(keys), rng.randrange(1, 9))
        if r < 0.5:
            return "id"
        if r < 0.65:
            return "yd"
        if r < 0.8:
            return "a0.add.%d" % rng.randrange(1, 4)
        if r < 0.9:
            return "lk1;%s;ul1" % rng.choice(["yd", "lw%d.1" % rng.choice(keys), "a0.ld"])
        return "rn"

    bodies = []
    for b in range(nb):
        ops = []
        if b in dtor_bodies:
            for _ in range(rng.randint(0, 3)):
                r = rng.random()
                ops.append("lw%d.%d" % (rng.choice(keys), rng.randrange(1, 9)) if r < 0.5 else rng.choice(["yd", "a0.add.1", "id", "a0.ld"]))
        else:
            handles = 0
            joined = set()
            cands = [j for j in thread_bodies if j > b]
            scope_used = False
            for _ in range(rng.randint(1, 7)):
                acts = ["common"] * 5
                if cands:
                    acts += ["spawn"] * 3
                if handles > len(joined):
                    acts += ["join"] * 3
                if handles:
                    acts += ["unpark"]
                if b == 0 and has_scope and not scope_used:
                    acts += ["scope"] * 2
                if rng.random() < 0.04:
                    acts = ["park"]
                a = rng.choice(acts)
                if a == "spawn":
                    ops.append(("zs%d.%d" % (zobj, rng.choice(cands))) if b == scope_body else ("sp%d" % rng.choice(cands)))
                    handles += 1
                elif a == "join":
                    h = rng.choice([x for x in range(handles) if x not in joined])
                    joined.add(h)
                    ops.append("jn%d" % h)
                elif a == "unpark":
                    ops.append("uh%d" % rng.randrange(handles))
                elif a == "scope":
                    scope_used = True
                    ops.append("zc%d.%d" % (zobj, scope_body))
                elif a == "park":
                    ops.append("pk")
                else:
                    ops.append(common(b))
            if b == 0 and has_scope and not scope_used:
                ops.append("zc%d.%d" % (zobj, scope_body))
        bodies.append(";".join(ops) if ops else "-")
    return "prog %s %s %d %s %s" % (gen_ms(rng) if rng.random() < 0.15 else "none", gen_script(rng), rng.getrandbits(32), ",".join(objl), "|".join(bodies))


# ---------------- focused streams: one primitive, many operations ----------------
def gen_focus(rng, kind):
    """Programs that use one primitive intensively: main spawns every other body first (body j becomes task j), then all
    bodies run 3-8 operations drawn from the primitive's own vocabulary, then main joins some of its children.
    kinds: park, condvar, barrier, mutex, rwlock, sem, acq, atomic, chan."""
    nb = rng.randint(2, 4)
    head = ["sp%d" % j for j in range(1, nb)]
    tail = ["jn%d" % h for h in range(nb - 1) if rng.random() < 0.6]
    bodies = []
    if kind == "park":
        objs = "a0,m"
        for b in range(nb):
            ops = []
            for _ in range(rng.randint(2, 8)):
                r = rng.random()
                if r < 0.30:
                    ops.append("pk")
                elif r < 0.40:
                    ops.append("lk1;yd;ul1")      # blocked on something other than park while an unpark arrives
                elif r < 0.70:
                    t = rng.randrange(nb)
                    ops.append(("uh%d" % (t - 1)) if (b == 0 and t >= 1 and rng.random() < 0.5) else ("ut%d" % t))
                elif r < 0.85:
                    ops.append("yd")
                else:
                    ops.append("a0.add.1")
            bodies.append(ops)
    elif kind == "condvar" and rng.random() < 0.55:
        # epochs: waiters that arrive between notifications, several notify_one in a row, waiters that wait twice
        objs = "a0,m,v"
        nb = rng.randint(3, 4)
        head = ["sp%d" % j for j in range(1, nb)]
        tail = ["jn%d" % h for h in range(nb - 1) if rng.random() < 0.7]
        main = []
        for _ in range(rng.randint(2, 5)):
            main += ["yd"] * rng.randint(0, 2)
            main.append(rng.choice(["cn2", "cn2", "cn2", "ca2", "lk1;cn2;ul1"]))
        bodies.append(main)
        for b in range(1, nb):
            ops = ["yd"] * rng.randint(0, 2)
            for _ in range(rng.randint(1, 2)):
                ops.append("lk1;cw2.1;ul1")
                ops += ["yd"] * rng.randint(0, 1)
            if rng.random() < 0.3:
                ops.append("cn2")
            bodies.append(ops)
    elif kind == "condvar":
        objs = "a0,m,v"
        for b in range(nb):
            ops = []
            for _ in range(rng.randint(2, 6)):
                r = rng.random()
                if r < 0.35:
                    ops.append("lk1;cw2.1;ul1")
                elif r < 0.65:
                    ops.append("cn2")
                elif r < 0.75:
                    ops.append("ca2")
                elif r < 0.85:
                    ops.append("lk1;cn2;ul1")
                else:
                    ops.append("yd")
            bodies.append(ops)
    elif kind == "barrier":
        objs = "a0,b%d" % rng.choice([2, 2, 3])
        for b in range(nb):
            bodies.append([rng.choice(["bw1", "bw1", "yd", "a0.add.1"]) for _ in range(rng.randint(1, 6))])
    elif kind == "mutex":
        objs = "a0,m,m"
        for b in range(nb):
            ops = []
            held = []
            for _ in range(rng.randint(2, 7)):
                r = rng.random()
                free = [m for m in (1, 2) if m not in held]
                if r < 0.35 and free:
                    m = rng.choice(free)
                    ops.append("lk%d" % m)
                    held.append(m)
                elif r < 0.6 and held:
                    m = held.pop(rng.randrange(len(held)))
                    ops.append("ul%d" % m)
                elif r < 0.75 and not held:
                    m = rng.choice((1, 2))
                    ops.append("tl%d;a0.add.1" % m)     # the guard, if any, is dropped at the end of the body
                    held.append(None)
                    break
                elif r < 0.9:
                    ops.append("a0.add.%d" % rng.randrange(1, 4))
                else:
                    ops.append("yd")
            bodies.append(ops)
    elif kind == "rwlock":
        objs = "a0,w,w"
        for b in range(nb):
            ops = []
            held = []
            for _ in range(rng.randint(2, 7)):
                r = rng.random()
                free = [m for m in (1, 2) if m not in held]
                if r < 0.4 and free:
                    m = rng.choice(free)
                    ops.append("%s%d" % (rng.choice(["rd", "rd", "wr"]), m))
                    held.append(m)
                elif r < 0.65 and held:
                    m = held.pop(rng.randrange(len(held)))
                    ops.append("ru%d" % m)
                elif r < 0.78 and not held:
                    ops.append("%s%d;a0.ld" % (rng.choice(["tr", "tw"]), rng.choice((1, 2))))
                    break
                elif r < 0.9:
                    ops.append("a0.add.1")
                else:
                    ops.append("yd")
            bodies.append(ops)
    elif kind == "sem":
        objs = "a0,s%d:%s,s%d:%s" % (rng.choice([0, 1, 2, 3]), rng.choice("fu"), rng.choice([1, 2]), rng.choice("fu"))
        for b in range(nb):
            ops = []
            for _ in range(rng.randint(2, 7)):
                r = rng.random()
                o = rng.choice((1, 2))
                if r < 0.3:
                    ops.append("sa%d.%d" % (o, rng.choice([1, 1, 2, 3])))
                elif r < 0.45:
                    ops.append("st%d.%d" % (o, rng.choice([1, 1, 2, 3])))
                elif r < 0.75:
                    ops.append("sr%d.%d" % (o, rng.choice([1, 1, 2])))
                elif r < 0.8:
                    ops.append("sc%d" % o)
                elif r < 0.9:
                    ops.append("sv%d" % o)
                else:
                    ops.append("yd")
            bodies.append(ops)
    elif kind == "acq" and rng.random() < 0.2:
        # one task, a strictly fair semaphore without permits, three or four queued requests: cancellations inside the queue,
        # releases, and polls in an order of their own - the grant order must stay the arrival order
        objs = "a0,q,s0:f"
        k = rng.choice([3, 4, 4])
        need = [rng.choice([1, 1, 2]) for _ in range(k)]
        ops = ["qn1.%d.2.%d" % (i, need[i]) for i in range(k)]
        order = list(range(k))
        if rng.random() < 0.3:
            rng.shuffle(order)
        ops += ["qp1.%d.2" % i for i in order]
        live = list(order)
        for _ in range(rng.randint(2, 6)):
            r = rng.random()
            if r < 0.3 and len(live) > 1:
                i = live.pop(rng.randrange(0, max(1, len(live) - 1)))
                ops.append("qd1.%d.2" % i)
            elif r < 0.65:
                ops.append("sr2.%d" % rng.choice([1, 1, 2]))
            elif live:
                for i in rng.sample(live, len(live)):
                    ops.append("qp1.%d.2" % i)
        for i in live:
            ops.append("qd1.%d.2" % i)
        return "prog none - %d %s %s" % (rng.getrandbits(32), objs, ";".join(ops))
    elif kind == "acq":
        # Acquire futures handled by hand: slots 0,1 are created by main before the spawns, polled by any task (hand-over
        # between tasks) and dropped by main after the joins; slots 2,3 are main's own (created, polled and dropped at
        # arbitrary points: cancellation in front of blocked acquirers)
        objs = "a0,q,s%d:%s" % (rng.choice([0, 1, 1, 2]), rng.choice("ffu"))
        pre = []
        for sl in (0, 1):
            if rng.random() < 0.8:
                pre.append("qn1.%d.2.%d" % (sl, rng.choice([1, 1, 2, 3])))
        shared = [int(x.split(".")[1]) for x in pre]
        if rng.random() < 0.5 and shared:
            pre.append("qp1.%d.2" % rng.choice(shared))
        tail = ["jn%d" % h for h in range(nb - 1)]
        # a future is polled by one task at a time: main before the spawns, then one designated child, then main after the joins
        owner = {sl: rng.randrange(1, nb) for sl in shared}
        polled = {}
        for b in range(nb):
            ops = []
            own = {}      # main's own slots: number of polls so far
            mine = [sl for sl in shared if owner[sl] == b]
            for _ in range(rng.randint(2, 7)):
                r = rng.random()
                if r < 0.3 and mine:
                    sl = rng.choice(mine)
                    if polled.get(sl, 0) < 2:
                        polled[sl] = polled.get(sl, 0) + 1
                        ops.append("qp1.%d.2" % sl)
                    else:
                        ops.append("yd")
                elif r < 0.5 and b == 0:
                    sl = rng.choice((2, 3))
                    if sl not in own:
                        ops.append("qn1.%d.2.%d" % (sl, rng.choice([1, 2, 2, 3])))
                        own[sl] = 0
                    elif own[sl] < 2 and rng.random() < 0.6:
                        ops.append("qp1.%d.2" % sl)
                        own[sl] += 1
                    else:
                        ops.append("qd1.%d.2" % sl)
                        del own[sl]
                elif r < 0.62:
                    ops.append("sa2.%d" % rng.choice([1, 1, 2]))
                elif r < 0.7:
                    ops.append("st2.%d" % rng.choice([1, 2]))
                elif r < 0.9:
                    ops.append("sr2.%d" % rng.choice([1, 1, 2]))
                else:
                    ops.append("yd")
            if b == 0:
                ops += ["qd1.%d.2" % sl for sl in own]
            bodies.append(ops)
        tail = tail + ["qp1.%d.2" % sl for sl in shared if rng.random() < 0.5]
        head = pre + head
        tail = tail + ["qd1.%d.2" % sl for sl in shared]
    elif kind == "bound":
        # step accounting: draws, scheduling points and resets under a tight bound
        objs = "a0"
        for b in range(nb):
            ops = []
            for _ in range(rng.randint(3, 12)):
                r = rng.random()
                ops.append("rn" if r < 0.4 else "rs" if r < 0.6 else "yd" if r < 0.85 else "a0.add.1")
            bodies.append(ops)
        bodies[0] = head + bodies[0] + tail
        ms = "%s:%d" % (rng.choice(["fail", "cont"]), rng.randint(3, 14))
        return "prog %s %s %d %s %s" % (ms, gen_script(rng), rng.getrandbits(32), objs, "|".join(";".join(o) if o else "-" for o in bodies))
    elif kind == "atomic":
        objs = "a%d,a%d" % (rng.choice([0, 1, 5]), rng.choice([0, 2 ** 64 - 1]))
        for b in range(nb):
            bodies.append([gen_atomic_op(rng, 2) if rng.random() < 0.85 else "yd" for _ in range(rng.randint(2, 7))])
    elif kind == "chan" and rng.random() < 0.2:
        # hang-up with messages still buffered: the producers send and then every sender slot is dropped; the consumer (an odd
        # or an even task: recv_timeout or recv) keeps receiving by all its methods and must drain before it sees the disconnection
        nb = rng.randint(2, 3)
        head = ["sp%d" % j for j in range(1, nb)]
        tail = ["jn%d" % h for h in range(nb - 1)]
        objs = "a0,c%s,e" % rng.choice(["1", "2", "3", "u", "u"])
        rx = rng.randrange(nb)
        for b in range(nb):
            ops = []
            if b == rx:
                for _ in range(rng.randint(2, 6)):
                    ops.append(rng.choice(["rc1", "rc1", "tc1", "yd"]))
                if rng.random() < 0.3:
                    ops.append("ri1")
            else:
                for _ in range(rng.randint(1, 3)):
                    ops.append("%s1.%d.%d" % (rng.choice(["sd", "ts"]), b, rng.randrange(1, 100)))
                ops.append("dt1.%d" % b)
            bodies.append(ops)
        # the slots nobody owns (and the consumer's own) are dropped by the first producer
        prod = next(b for b in range(nb) if b != rx)
        for sl in range(3):
            if sl >= nb or sl == rx:
                bodies[prod].append("dt1.%d" % sl)
    else:   # chan
        nb = rng.randint(2, 3)
        head = ["sp%d" % j for j in range(1, nb)]
        tail = ["jn%d" % h for h in range(nb - 1) if rng.random() < 0.6]
        objs = "a0,c%s,e" % rng.choice(["0", "0", "1", "1", "2", "u"])
        rx = rng.randrange(nb)
        for b in range(nb):
            ops = []
            alive_tx = True
            for _ in range(rng.randint(2, 7)):
                r = rng.random()
                if b == rx and r < 0.55:
                    ops.append(rng.choice(["rc1", "rc1", "tc1"]))
                elif r < 0.85 and alive_tx:
                    k = rng.choice(["sd", "sd", "sd", "ts", "ts", "dt"])
                    if k == "dt":
                        ops.append("dt1.%d" % b)
                        alive_tx = False
                    else:
                        ops.append("%s1.%d.%d" % (k, b, rng.randrange(1, 100)))
                else:
                    ops.append("yd")
            if b == rx and rng.random() < 0.5:
                ops.append(rng.choice(["dr1", "ri1"]))
            bodies.append(ops)
    bodies[0] = head + bodies[0] + tail
    return "prog none %s %d %s %s" % (gen_script(rng), rng.getrandbits(32), objs, "|".join(";".join(o) if o else "-" for o in bodies))
