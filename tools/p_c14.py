"""C14 — executions are isolated: nothing leaks from one iteration to the next."""
import gen_prog
from common import Ctx

PROPS = "Props/C14.v"


def to_static(case_objs):
    """the Once objects of a generated program become the harness's `static` Onces (at most two)"""
    out, n = [], 0
    for o in case_objs.split(","):
        if o == "o" and n < 2:
            out.append("O")
            n += 1
        else:
            out.append(o)
    return ",".join(out)


def run(tier):
    ctx = Ctx("C14", tier)
    rng = ctx.rng
    ctx.gen_params()
    ctx.proof_gate(PROPS)
    if not (ctx.build_model() and ctx.build_harness()):
        return ctx.finish()
    n = 500 if tier == "quick" else 8000
    runs = []
    for i in range(n):
        r = rng.random()
        if r < 0.45:
            c = gen_prog.gen_lifecycle(rng)
            f = c.split(" ")
            objs, bodies = f[4], f[5]
        else:
            feats = ("spawn", "join", "yield", "park", "atomic", "rand", "reset", "sem", "mutex", "rwlock", "condvar", "chan", "barrier", "once")
            objs, bodies = gen_prog.gen_program(rng, max_bodies=4, max_ops=6, features=feats)
            objs = to_static(objs)
        kind = rng.choice(["random", "random", "pct", "dfs", "rr", "urw"])
        iters = rng.choice([2, 3, 4, 6])
        ms = rng.choice(["none", "none", "cont:%d" % rng.randint(2, 25), "cont:%d" % rng.randint(2, 12)])
        stop = rng.choice([0, 1])
        runs.append("iters %s %d %d %d %d %s %s %s" % (kind, rng.getrandbits(48), rng.randint(1, 3), iters, stop, ms, objs, bodies))
    io = ctx.run_impl("prog", runs)
    ctx.evaluations += len(runs)
    mcases, minfo = [], []
    nfail = 0
    kinds = {}
    for c, o in zip(runs, io):
        f = c.split(" ")
        ms, objs, bodies = f[6], f[7], f[8]
        if not o.startswith("K="):
            nfail += 1
            if nfail <= 3:
                ctx.violation({"layer": "prog", "cases": [c], "implementation_answer": o[:600], "why": "a multi-iteration run aborted"})
            continue
        parts = o.split(" | ")
        head = parts[0].split(" ")
        failed = head[1] != "F=-"
        its = parts[1:]
        if len(its) >= 2:
            ctx.note_nontrivial(c)
        for k, it in enumerate(its):
            toks = it.split(" ")
            sched = toks[-1][2:] if toks[-1].startswith("S=") else ""
            evs = [t for t in toks[:-1] if not (t.startswith("LIVE=") or t.startswith("META="))]
            live = [t for t in toks if t.startswith("LIVE=")]
            meta = [t for t in toks if t.startswith("META=")]
            if meta and meta[0] != "META=-1.0":
                nfail += 1
                if nfail <= 3:
                    ctx.violation({"layer": "prog", "cases": [c], "iteration": k, "implementation_answer": it[:800],
                                   "why": "execution %d starts with a label/tag of the main task left over from an earlier execution (%s: label value, tag present)" % (k, meta[0])})
            last_failed = failed and k == len(its) - 1
            if live and live[0] != "LIVE=0.0" and not last_failed:
                nfail += 1
                if nfail <= 3:
                    ctx.violation({"layer": "prog", "cases": [c], "iteration": k, "implementation_answer": it[:1500],
                                   "why": "values of execution %d are still alive when the next execution starts (%s = thread-local values . stack/closure tokens)" % (k, live[0])})
            vals = [t[1:] for t in evs if t.startswith("R")]
            mcases.append("progreplay %s %s %s %s %s" % (ms, sched or "-", ",".join(vals) or "-", objs, bodies))
            minfo.append((c, k, evs, sched, last_failed, len(its)))
            kk = "first" if k == 0 else ("after-cut" if any(">x" in t for t in its[k - 1].split(" ")) else "later")
            kinds[kk] = kinds.get(kk, 0) + 1
    mo = ctx.run_model("prog", mcases)
    ctx.traces_validated += len(mcases)
    nmis = 0
    for (c, k, evs, sched, last_failed, nit), mc, m in zip(minfo, mcases, mo):
        mt = m.split(" ")
        mev = [t for t in mt if not (t.startswith("T=") or t.startswith("S=") or t.startswith("RP="))]
        msched = next((t[2:] for t in mt if t.startswith("S=")), None)
        # a failing last execution may be cut by the failure inside a segment: compare the common prefix only
        same = (mev == evs and msched == sched) if not last_failed else (mev[:len(evs)] == evs[:len(mev)])
        if not same:
            nmis += 1
            if nmis <= 4:
                pos = next((i for i in range(min(len(mev), len(evs))) if mev[i] != evs[i]), min(len(mev), len(evs)))
                ctx.violation({"layer": "prog", "cases": [c, mc], "iteration": k, "of": nit,
                               "implementation_trace": " ".join(evs)[:2500], "standalone_model_trace": " ".join(mev)[:2500],
                               "first_difference": {"position": pos, "iteration_k": evs[pos] if pos < len(evs) else "<end>", "standalone": mev[pos] if pos < len(mev) else "<end>"},
                               "why": "execution %d of a %d-iteration run differs from the stand-alone execution of the same schedule from the initial world (model run_prog_replay)" % (k, nit)})
    # ---- every execution of a run, replayed ALONE in a fresh run from its own recorded schedule (seed included), is the same
    # execution: same decisions, same operation results, same values drawn from the data source
    rfeats = ("spawn", "join", "yield", "atomic", "rand", "rand", "mutex", "sem")
    rcases = []
    for i in range(60 if tier == "quick" else 1200):
        objs, bodies = gen_prog.gen_program(rng, max_bodies=3, max_ops=6, features=rfeats)
        if "rn" not in bodies:
            bl = bodies.split("|")
            bl[0] = "rn" if bl[0] == "-" else "rn;" + bl[0]
            bodies = "|".join(bl)
        kind = ["random", "pct", "urw", "random", "dfs"][i % 5]
        rcases.append("replay %s %d %d %d none %s %s" % (kind, rng.getrandbits(64), rng.randint(1, 3), rng.choice([2, 3, 5]), objs, bodies))
    ro = ctx.run_impl("prog", rcases)
    ctx.evaluations += len(rcases)
    nalone = 0
    for c, o in zip(rcases, ro):
        if o.endswith("ALLEQ"):
            nalone += int(o.split(" ")[0][2:])
            ctx.note_nontrivial(c)
        elif o.startswith("SKIP"):
            pass
        else:
            nfail += 1
            if nfail <= 6:
                ctx.violation({"layer": "prog", "cases": [c], "implementation_answer": o[:2500],
                               "why": "an execution of a multi-execution run is not reproduced when its recorded schedule (with its seed) is replayed alone in a fresh run"})
    ctx.cov["executions_replayed_alone"] = nalone
    # ---- lazy statics (shuttle::lazy_static through the wrapper crate; modelled in Lang/PlOps.v lazy_get): the value of an
    # execution is destroyed before the next execution starts and after the run
    import gen_pl
    multi = []
    for _ in range(40 if tier == "quick" else 600):
        o_, b_, _f = gen_pl.gen_program(rng, "lz")
        multi.append("multi %s %d %d %s" % (rng.choice(["random", "random", "pct", "dfs"]), rng.getrandbits(60), rng.choice([2, 3, 5]), gen_pl.show(o_, b_)))
    multi.append("multi random 5 4 Z,Z sp.1;lz.0;lz.1;lz.0;jn.0|lz.1;lz.0")
    lo = ctx.run_impl("pl", multi)
    ctx.evaluations += len(multi)
    nlz = 0
    for c, o in zip(multi, lo):
        m = o.rpartition(" LZ=")
        if not m[1]:
            nfail += 1
            ctx.violation({"layer": "pl", "cases": [c], "implementation_answer": o[:800], "why": "the multi-execution run produced no answer"})
            continue
        counts = [int(x) for x in m[2].split(",")]
        ninit = o.count(":111:")
        if ninit >= 2:
            nlz += 1
            ctx.note_nontrivial(c)
        failed = " T=ok" not in o
        chk = counts[:-1] if failed else counts       # the values of a failing last execution die with the process
        if any(x != 0 for x in chk):
            nfail += 1
            if nfail <= 6:
                ctx.violation({"layer": "pl", "cases": [c], "implementation_answer": o[:2000],
                               "why": "lazy-static values of an execution are still alive when the next execution starts / after the run: alive = %s (one entry per execution start, then after the run)" % m[2]})
    ctx.cov["runs_with_lazy_static_reinitialised"] = nlz
    for k_, v in kinds.items():
        ctx.dist("iterations." + k_, v)
    ctx.dist("runs", len(runs))
    ctx.log("isolation: %d runs, %d executions compared with their stand-alone model run, %d differ" % (len(runs), len(mcases), nmis))
    ctx.cov["rule"] = ("C14: runs of 2-6 executions of one program under Random / PCT / DFS / RoundRobin / URW, optionally with a step bound (ContinueAfter) and a scheduler wrapper that abandons "
                       "every third execution at a pseudo-random decision; programs use thread-locals with destructors, the harness's static Onces, and every primitive of the model.  Every execution of the run "
                       "(first, after complete ones, after abandoned ones) is compared, token by token (decisions with offered sets, draws, operation results, vector clocks, recorded schedule), with the model's "
                       "stand-alone execution of the same recorded schedule from the initial world (run_prog_replay); the number of thread-local values alive at the start of the next execution must be 0. "
                       "Second leg: every execution of runs under the built-in schedulers (programs that draw random values) is replayed alone in a fresh run from its recorded schedule, seed included, "
                       "and must be the same execution, drawn values included.  Third leg: programs over shuttle lazy statics (model Lang/PlOps.v lazy_get) run for 2-5 executions; the number of lazy values "
                       "alive at every execution start and after the run must be 0.  distinct_nontrivial = runs with at least two executions.")
    if runs:
        ctx.sample({"case": runs[0], "impl": io[0][:500]})
        ctx.sample({"case": runs[-1], "impl": io[-1][:500]})
    # a failing execution persists its schedule whatever the earlier executions of the run did: executions that raised a panic
    # and handled it themselves (catch_unwind, outside the program language) when their schedule had the same length
    probes = ["probe caughtpanic 0", "probe caughtpanic 1", "probe caughtpanic 4"]
    po = ctx.run_impl("prog", probes)
    ctx.evaluations += len(probes)
    for c_, o_ in zip(probes, po):
        f_ = dict(x.split("=") for x in o_.split(" ")[1:] if "=" in x) if o_.startswith("PROBE") else {}
        if f_.get("failed") != "1" or int(f_.get("files_during_failing_execution", "0")) < 1:
            ctx.violation({"layer": "prog", "cases": [c_], "implementation_answer": o_[:300],
                           "why": "execution %s of a run fails but no schedule is persisted for it, although the same execution persists one when it runs first: state of the failure report leaks from earlier executions (handled panics at the same schedule length)" % c_.split(" ")[-1]})
    ctx.dist("probes.caughtpanic", len(probes))
    return ctx.finish()
