"""Generators of the C20 `pl` layer: concurrent programs over the wrapper crates (formats: harness/src/l_pl.rs),
sequential histories over the deterministic collections, and a small malformed / wild stream."""

RW_OPS = ["rd", "wr", "ur", "tr", "tw", "tu"]


def gen_body(rng, objs, focus, nops, can_spawn, bidx, nbodies):
    """A mostly valid body: guard operations follow a symbolic guard list (try results are guessed as success)."""
    ops = []
    guards = []          # (obj, kind) newest last
    handles = 0
    joined = set()
    spawn_targets = [j for j in range(bidx + 1, nbodies)] if can_spawn else []
    locks = [i for i, s in enumerate(objs) if s == "L"]
    mutexes = [i for i, s in enumerate(objs) if s == "M"]
    maps = [i for i, s in enumerate(objs) if s == "D"]
    sets = [i for i, s in enumerate(objs) if s == "S"]
    lazies = [i for i, s in enumerate(objs) if s == "Z"]

    def newest(o):
        for g in reversed(guards):
            if g[0] == o:
                return g
        return None

    def drop_newest(o):
        for i in range(len(guards) - 1, -1, -1):
            if guards[i][0] == o:
                return guards.pop(i)
        return None

    for t in spawn_targets:
        if rng.random() < 0.85:
            ops.append("sp.%d" % t)
            handles += 1
    for _ in range(nops):
        r = rng.random()
        kinds = []
        if locks:
            kinds += ["rw"] * (6 if focus == "rw" else 2)
        if mutexes:
            kinds += ["mx"] * (4 if focus == "mx" else 1)
        if maps or sets:
            kinds += ["dm"] * (6 if focus == "dm" else 1)
        if lazies:
            kinds += ["lz"] * (4 if focus == "lz" else 1)
        kinds += ["rand"] * (5 if focus == "rand" else 1)
        kinds += ["yd"]
        k = rng.choice(kinds)
        if k == "yd":
            ops.append("yd")
        elif k == "rand":
            ops.append(rng.choice(["rn", "r3", "rb.%d" % rng.choice([0, 1, 3, 4, 5, 7, 8, 9, 12, 16, 17, 31]), "rr",
                                   "rg.%d" % rng.choice([1, 2, 3, 5, 6, 7, 10, 100, 2 ** 32, 2 ** 63, 2 ** 63 + 1, 2 ** 64 - 1]), "rq"]))
        elif k == "lz":
            ops.append("lz.%d" % rng.choice(lazies))
        elif k == "mx":
            o = rng.choice(mutexes)
            g = newest(o)
            if g is None:
                ops.append(rng.choice(["lk.%d", "lk.%d", "tl.%d"]) % o)
                guards.append((o, 3))
            else:
                c = rng.choice(["iv", "gv", "ul", "ul", "bp", "tl"])
                ops.append("%s.%d" % (c, o))
                if c == "ul":
                    drop_newest(o)
        elif k == "rw":
            o = rng.choice(locks)
            g = newest(o)
            if g is None:
                c = rng.choice(["rd", "rd", "wr", "wr", "ur", "ur", "ur", "tr", "tw", "tu"])
                ops.append("%s.%d" % (c, o))
                guards.append((o, {"rd": 0, "tr": 0, "wr": 1, "tw": 1, "ur": 2, "tu": 2}[c]))
            elif g[1] == 0:
                c = rng.choice(["gv", "ul", "ul", "ul", "bp", "tr", "tw"])
                ops.append("%s.%d" % (c, o))
                if c == "ul":
                    drop_newest(o)
            elif g[1] == 1:
                c = rng.choice(["iv", "iv", "gv", "ul", "ul", "dg", "dw", "dw", "bp", "tr"])
                ops.append("%s.%d" % (c, o))
                if c == "ul":
                    drop_newest(o)
                elif c == "dg":
                    drop_newest(o)
                    guards.append((o, 0))
                elif c == "dw":
                    drop_newest(o)
                    guards.append((o, 2))
            else:
                c = rng.choice(["gv", "up", "up", "tg", "du", "wu", "wu", "tq", "ul", "ul", "tu"])
                ops.append("%s.%d" % (c, o))
                if c == "ul":
                    drop_newest(o)
                elif c in ("up", "tg"):
                    drop_newest(o)
                    guards.append((o, 1))
                elif c == "du":
                    drop_newest(o)
                    guards.append((o, 0))
        else:
            if maps and (not sets or rng.random() < 0.75):
                o = rng.choice(maps)
                g = newest(o)
                if g is not None and rng.random() < 0.6:
                    ops.append("ul.%d" % o)
                    drop_newest(o)
                    continue
                key = rng.randrange(4)
                val = rng.randrange(1, 9)
                c = rng.choice(["dins", "dins", "dins", "dget", "dget", "drem", "dlen", "dcon", "dalt", "dent", "dret", "dclr", "dit", "dit",
                                "dref", "dmut", "dtry", "drif", "drif", "drim", "dvw"])
                if c in ("drif", "drim"):
                    ops.append("%s.%d.%d.%d" % (c, o, key, rng.randrange(2)))
                elif c in ("dins", "dalt", "dent", "dmut"):
                    ops.append("%s.%d.%d.%d" % (c, o, key, val))
                elif c == "dret":
                    ops.append("dret.%d.%d.%d" % (o, rng.choice([1, 2, 3]), rng.randrange(3)))
                elif c in ("dlen", "dclr", "dit"):
                    ops.append("%s.%d" % (c, o))
                else:
                    ops.append("%s.%d.%d" % (c, o, key))
                if c == "dref":
                    guards.append((o, 4))
                elif c == "dmut":
                    guards.append((o, 5))
            else:
                o = rng.choice(sets)
                key = rng.randrange(4)
                c = rng.choice(["sins", "sins", "srem", "scon", "slen"])
                ops.append(("%s.%d" % (c, o)) if c == "slen" else ("%s.%d.%d" % (c, o, key)))
        if r < 0.04 and handles:
            h = rng.randrange(handles)
            if h not in joined:
                ops.append("jn.%d" % h)
                joined.add(h)
    for g in list(reversed(guards)):
        if rng.random() < 0.7:
            ops.append("ul.%d" % g[0])
    for h in range(handles):
        if h not in joined and rng.random() < 0.9:
            ops.append("jn.%d" % h)
    return ops


def gen_program(rng, focus=None):
    focus = focus or rng.choice(["rw", "rw", "rw", "mx", "dm", "dm", "rand", "lz", "mix"])
    pool = {"rw": ["L", "L", "L", "M"], "mx": ["M", "M", "L"], "dm": ["D", "D", "S", "L"], "rand": ["L", "Z"], "lz": ["Z", "Z", "M"],
            "mix": ["L", "M", "D", "S", "Z"]}[focus]
    nobj = rng.choice([1, 1, 2, 2, 3])
    objs = [rng.choice(pool) for _ in range(nobj)]
    if focus in ("rw", "mx", "dm", "lz") and not any(o == {"rw": "L", "mx": "M", "dm": "D", "lz": "Z"}[focus] for o in objs):
        objs[0] = {"rw": "L", "mx": "M", "dm": "D", "lz": "Z"}[focus]
    while objs.count("Z") > 2:
        objs[objs.index("Z")] = "M"
    nbodies = rng.choice([1, 2, 2, 3, 3, 4])
    bodies = []
    for b in range(nbodies):
        nops = rng.choice([2, 3, 4, 5, 6, 8])
        bodies.append(gen_body(rng, objs, focus, nops, can_spawn=(b == 0 or rng.random() < 0.15), bidx=b, nbodies=nbodies))
    return objs, bodies, focus


def gen_script(rng, wild=False):
    n = rng.choice([0, 4, 10, 20, 40, 60])
    sc = [str(rng.choice([0, 0, 1, 1, 2, 3])) for _ in range(n)]
    if wild and sc and rng.random() < 0.5:
        sc[rng.randrange(len(sc))] = "x"
    return ",".join(sc) if sc else "-"


def show(objs, bodies):
    return "%s %s" % (",".join(objs) if objs else "-", "|".join(";".join(b) if b else "-" for b in bodies))


def gen_case(rng, focus=None):
    objs, bodies, focus = gen_program(rng, focus)
    ms = rng.choice(["none"] * 8 + ["fail:%d" % rng.randint(5, 60), "cont:%d" % rng.randint(5, 60)])
    return "pl %s %s %d %s" % (ms, gen_script(rng), rng.getrandbits(63), show(objs, bodies)), focus


WILD_OPS = ["sp.0", "sp.1", "sp.2", "sp.9", "jn.0", "jn.3", "yd", "rd.0", "wr.0", "ur.0", "tr.0", "tw.0", "tu.0", "ul.0", "up.0", "tg.0", "dg.0",
            "du.0", "dw.0", "wu.0", "tq.0", "gv.0", "iv.0", "bp.0", "lk.0", "tl.0", "rd.1", "wr.1", "ur.1", "ul.1", "up.1", "dw.1", "lk.1",
            "rn", "rb.3", "rg.0", "dins.0.1.2", "dget.0.1", "dref.0.1", "dmut.0.1.1", "dit.1", "sins.1.2", "lz.0", "lz.1", "zz.0", "rd.7", "ul.5"]


def gen_wild(rng):
    """Unstructured: any op on any object (wrong kinds, missing guards, double joins), stopping scripts, small bounds."""
    nobj = rng.randint(0, 3)
    objs = [rng.choice(["L", "M", "D", "S", "Z"]) for _ in range(nobj)]
    while objs.count("Z") > 2:
        objs[objs.index("Z")] = "L"
    nb = rng.randint(1, 3)
    bodies = [[rng.choice(WILD_OPS) for _ in range(rng.randint(0, 7))] for _ in range(nb)]
    ms = rng.choice(["none", "none", "fail:%d" % rng.randint(1, 30), "cont:%d" % rng.randint(1, 30)])
    return "pl %s %s %d %s" % (ms, gen_script(rng, wild=True), rng.getrandbits(63), show(objs, bodies))


# ---------------- histories over the deterministic collections ----------------
def gen_history(rng, leaky=False):
    """leaky=True adds the operations whose result is built by std with a fresh RandomState (set algebra, deserialize)."""
    n = rng.choice([5, 10, 20, 40, 80])
    keyspace = rng.choice([4, 16, 64, 1000, 2 ** 64])
    ops = []
    for _ in range(n):
        k = rng.randrange(keyspace)
        v = rng.randrange(100)
        c = rng.choice(["i", "i", "i", "i", "r", "g", "c", "n", "e", "a", "t", "ex", "cl", "fi", "wc", "sh", "rs", "it", "it", "ks", "dr", "x",
                        "si", "si", "si", "sr", "sc", "sn", "bi", "bi", "br", "sx", "sl", "st", "st"] + (["or", "an", "xo", "su", "de"] * 2 if leaky else []))
        if c in ("i", "e", "a"):
            ops.append("%s.%d.%d" % (c, k, v))
        elif c in ("r", "g", "c", "si", "sr", "sc", "bi", "br"):
            ops.append("%s.%d" % (c, k))
        elif c == "t":
            ops.append("t.%d.%d" % (rng.choice([1, 2, 3, 5]), rng.randrange(3)))
        elif c == "ex":
            items = []
            for _ in range(rng.randint(1, 12)):
                items += [rng.randrange(keyspace), rng.randrange(100)]
            ops.append("ex." + ".".join(map(str, items)))
        elif c == "sx":
            ops.append("sx." + ".".join(str(rng.randrange(keyspace)) for _ in range(rng.randint(1, 12))))
        elif c in ("wc", "rs"):
            ops.append("%s.%d" % (c, rng.randrange(100)))
        elif c == "x" and rng.random() < 0.7:
            ops.append("n")
        else:
            ops.append(c)
    ops += ["it", "st"]
    return "hist " + ";".join(ops)
