"""Generator of programs of the tok layer (C19): text format shared by ocaml/l_tok.ml and harness/src/l_tok.rs.

Discipline kept by every generated program (also the wild ones), because the harness reaches endpoints through
UnsafeCells: every channel endpoint (the receiver, each sender slot, each half of a oneshot) is used by exactly one
body, and every body other than 0 is spawned at most once.  `static_ok` re-checks this on the text."""

SCRIPT_VALS = [0, 0, 0, 1, 1, 2, 3]


def gen_script(rng, n=None):
    n = rng.randint(0, 30) if n is None else n
    if n == 0:
        return "-"
    return ",".join(str(rng.choice(SCRIPT_VALS)) for _ in range(n))


class ObjTable:
    def __init__(self):
        self.specs = []
        self.chans = []      # (index, bounded, capacity, nslots)
        self.sems = []
        self.mutexes = []
        self.rwlocks = []    # (index, max)
        self.notifies = []
        self.oneshots = []
        self.watches = []    # (index, ntx, nrx)
        self.cells = []

    def add(self, spec):
        self.specs.append(spec)
        return len(self.specs) - 1


def gen_objs(rng, focus, wild):
    t = ObjTable()
    want = lambda k, p: (focus == k) or (focus == "mix" and rng.random() < p)
    if want("mpsc", 0.7):
        for _ in range(rng.choice([1, 1, 2])):
            ns = rng.choice([1, 1, 2, 2, 3])
            if rng.random() < 0.3:
                t.chans.append((t.add("cU:%d" % ns), False, None, ns))
            else:
                k = rng.choice([1, 1, 2, 2, 3]) if not (wild and rng.random() < 0.15) else 0
                t.chans.append((t.add("cB%d:%d" % (k, ns)), True, k, ns))
    if want("sem", 0.5):
        for _ in range(rng.choice([1, 1, 2])):
            t.sems.append(t.add("s%d" % rng.choice([0, 1, 1, 2, 3])))
    if want("lock", 0.4):
        if rng.random() < 0.7:
            t.mutexes.append(t.add("m"))
        if rng.random() < 0.7:
            k = rng.choice([2, 2, 3, None])
            if wild and rng.random() < 0.1:
                k = 0
            t.rwlocks.append((t.add("w" if k is None else "w%d" % k), k))
        if not t.mutexes and not t.rwlocks:
            t.mutexes.append(t.add("m"))
    if want("notify", 0.4):
        t.notifies.append(t.add("n"))
    if want("oneshot", 0.3):
        for _ in range(rng.choice([1, 1, 2])):
            t.oneshots.append(t.add("o"))
    if want("watch", 0.3):
        for _ in range(rng.choice([1, 1, 1, 2])):
            ntx, nrx = rng.choice([1, 1, 2]), rng.choice([1, 1, 2, 2, 3])
            t.watches.append((t.add("h%d:%d:%d" % (rng.choice([0, 0, 5]), ntx, nrx)), ntx, nrx))
    if want("oncecell", 0.25):
        for _ in range(rng.choice([1, 1, 2])):
            t.cells.append(t.add("x"))
    if not t.specs:
        t.sems.append(t.add("s1"))
    return t


def gen_program(rng, focus="mix", wild=False, max_bodies=4, max_ops=7):
    t = gen_objs(rng, focus, wild)
    nb = rng.randint(1, max_bodies)
    # the spawn tree: body j >= 1 is spawned by one parent < j, as a thread or as a future
    parent = {j: rng.randrange(0, j) for j in range(1, nb)}
    kind = {0: "T"}
    for j in range(1, nb):
        kind[j] = rng.choice("TA")
    # endpoint owners
    own_rx, own_tx, own_otx, own_orx = {}, {}, {}, {}
    for (c, bounded, k, ns) in t.chans:
        own_rx[c] = rng.randrange(nb)
        for s in range(ns):
            own_tx[(c, s)] = rng.randrange(nb)
    for o in t.oneshots:
        own_otx[o] = rng.randrange(nb)
        own_orx[o] = rng.randrange(nb)
    own_wtx, own_wrx = {}, {}
    for (w, ntx, nrx) in t.watches:
        for sl in range(ntx):
            own_wtx[(w, sl)] = rng.randrange(nb)
        for sl in range(3):
            # a slot that is empty at creation belongs to the owner of a sender (who may subscribe into it)
            own_wrx[(w, sl)] = rng.randrange(nb) if sl < nrx else own_wtx[(w, rng.randrange(ntx))]
    wrx_live = {(w, sl): sl < nrx for (w, ntx, nrx) in t.watches for sl in range(3)}
    nextval = [1]
    bodies = []
    for b in range(nb):
        children = [j for j in range(1, nb) if parent[j] == b]
        ops = []
        th, ah = 0, 0           # handles created so far
        thandles, ahandles = [], []
        held = []               # objects on which something is certainly held
        nfs = []                # Notified futures: [notify obj, state] state in {"init","enabled","done","dropped"}
        n = rng.randint(1, max_ops)
        my_rx = [c for c in own_rx if own_rx[c] == b]
        my_tx = [cs for cs in own_tx if own_tx[cs] == b]
        my_otx = [o for o in own_otx if own_otx[o] == b]
        my_orx = [o for o in own_orx if own_orx[o] == b]
        my_wtx = [k for k in own_wtx if own_wtx[k] == b]
        my_wrx = [k for k in own_wrx if own_wrx[k] == b]
        dead = set()
        chaninfo = {c: (bd, k) for (c, bd, k, ns) in t.chans}
        is_task = kind[b] == "A"
        pending_children = list(children)
        for step in range(n + len(children)):
            # spawn the children early, with some probability at each step
            if pending_children and (rng.random() < 0.6 or step >= n):
                j = pending_children.pop(0)
                if kind[j] == "T":
                    ops.append("st%d" % j)
                    thandles.append(th)
                    th += 1
                else:
                    ops.append("sa%d" % j)
                    ahandles.append(ah)
                    ah += 1
                continue
            cats = ["yd"]
            if my_tx:
                cats += ["send"] * 4
            if my_rx:
                cats += ["recv"] * 4
            if t.chans:
                cats += ["ci"]
            if t.sems:
                cats += ["sem"] * 3
            if t.mutexes or t.rwlocks:
                cats += ["lock"] * 3
            if held:
                cats += ["rel"] * 3
            if t.notifies:
                cats += ["notify"] * 4
            if my_otx or my_orx:
                cats += ["oneshot"] * 3
            if my_wtx:
                cats += ["wtx"] * 4
            if my_wrx:
                cats += ["wrx"] * 5
            if t.cells:
                cats += ["cell"] * 5
            if thandles or ahandles:
                cats += ["join"]
            if wild:
                cats += ["wild"] * 2
            c = rng.choice(cats)
            if c == "yd":
                ops.append("yd")
            elif c == "send":
                ch, slot = rng.choice(my_tx)
                bounded, k = chaninfo[ch]
                if ("tx", ch, slot) in dead and not wild:
                    continue
                r = rng.random()
                v = nextval[0]
                nextval[0] += 1
                if r < 0.12:
                    ops.append("dt%d.%d" % (ch, slot))
                    dead.add(("tx", ch, slot))
                elif not bounded:
                    ops.append("bs%d.%d.%d" % (ch, slot, v))
                elif r < 0.45:
                    ops.append(("sd%d.%d.%d" if (is_task or rng.random() < 0.5) else "bs%d.%d.%d") % (ch, slot, v))
                elif r < 0.7:
                    ops.append("bs%d.%d.%d" % (ch, slot, v) if not is_task else "sd%d.%d.%d" % (ch, slot, v))
                else:
                    ops.append("ts%d.%d.%d" % (ch, slot, v))
            elif c == "recv":
                ch = rng.choice(my_rx)
                if ("rx", ch) in dead and not wild:
                    continue
                r = rng.random()
                if r < 0.08:
                    ops.append("dr%d" % ch)
                    dead.add(("rx", ch))
                elif r < 0.16:
                    ops.append("cr%d" % ch)
                elif r < 0.5:
                    ops.append("rc%d" % ch)
                elif r < 0.7:
                    ops.append("tr%d" % ch)
                else:
                    # blocking_recv is for synchronous code; in a task only now and then
                    ops.append("br%d" % ch if (not is_task or rng.random() < 0.2) else "rc%d" % ch)
            elif c == "ci":
                ops.append("ci%d" % rng.choice(t.chans)[0])
            elif c == "sem":
                s = rng.choice(t.sems)
                r = rng.random()
                npm = rng.choice([1, 1, 1, 2, 3])
                if rng.random() < (0.15 if wild else 0.06):
                    npm = 0           # an empty permit (legal in tokio; since /repo bc6ccc4 also here)
                if r < 0.35:
                    ops.append("ac%d.%d" % (s, npm))
                    held.append(s)
                elif r < 0.55:
                    ops.append("ta%d.%d" % (s, npm))
                elif r < 0.7:
                    ops.append("ad%d.%d" % (s, rng.choice([0, 1, 1, 2])))
                elif r < 0.8:
                    ops.append("si%d" % s)
                elif r < 0.84 and s in held:
                    if held.count(s) >= 2 and rng.random() < 0.5:
                        ops.append("mg%d" % s)
                        held.remove(s)
                    else:
                        ops.append("sp%d.%d" % (s, rng.choice([0, 1, 1, 2, 3])))
                        held.append(s)
                elif r < 0.88 and s in held:
                    ops.append("fg%d" % s)
                    held.remove(s)
                elif r < 0.93:
                    ops.append("sc%d" % s)
                else:
                    ops.append("si%d" % s)
            elif c == "lock":
                cands = [("m", m, None) for m in t.mutexes] + [("w", w, k) for (w, k) in t.rwlocks]
                kd, o, k = rng.choice(cands)
                r = rng.random()
                if kd == "m":
                    if r < 0.6:
                        ops.append("lk%d" % o)
                        held.append(o)
                    else:
                        ops.append("tl%d" % o)
                else:
                    if r < 0.35:
                        ops.append("rd%d" % o)
                        held.append(o)
                    elif r < 0.6:
                        ops.append("wr%d" % o)
                        held.append(o)
                        if rng.random() < 0.35:
                            ops.append("dg%d" % o)
                    elif r < 0.8:
                        ops.append("tR%d" % o)
                    else:
                        ops.append("tW%d" % o)
            elif c == "rel":
                o = rng.choice(held)
                held.remove(o)
                ops.append("rl%d" % o)
            elif c == "notify":
                nobj = rng.choice(t.notifies)
                r = rng.random()
                live = [i for i, f in enumerate(nfs) if f[1] in ("init", "enabled")]
                if r < 0.25 or (not live and r < 0.5):
                    ops.append("nf%d" % nobj)
                    nfs.append([nobj, "init"])
                elif r < 0.45:
                    ops.append("no%d" % nobj)
                elif r < 0.55:
                    ops.append("na%d" % nobj)
                elif live:
                    i = rng.choice(live)
                    r2 = rng.random()
                    if r2 < 0.35:
                        ops.append("en%d" % i)
                        nfs[i][1] = "enabled"
                    elif r2 < 0.8:
                        ops.append("an%d" % i)
                        nfs[i][1] = "done"
                    else:
                        ops.append("dn%d" % i)
                        nfs[i][1] = "dropped"
                else:
                    ops.append("no%d" % nobj)
            elif c == "oneshot":
                choices = []
                for o in my_otx:
                    if ("otx", o) not in dead or wild:
                        choices += [("os", o), ("os", o), ("ox", o)]
                for o in my_orx:
                    if ("orx", o) not in dead or wild:
                        choices += [("or", o), ("or", o), ("ot", o), ("oc", o), ("oy", o)]
                if not choices:
                    continue
                k2, o = rng.choice(choices)
                if k2 == "os" and rng.random() < 0.2:
                    ops.append("oi%d" % o)
                elif k2 == "os":
                    ops.append("os%d.%d" % (o, nextval[0]))
                    nextval[0] += 1
                    dead.add(("otx", o))
                elif k2 == "ox":
                    ops.append("ox%d" % o)
                    dead.add(("otx", o))
                elif k2 == "oy":
                    ops.append("oy%d" % o)
                    dead.add(("orx", o))
                else:
                    ops.append("%s%d" % (k2, o))
            elif c == "wtx":
                w, sl = rng.choice(my_wtx)
                if ("wtx", w, sl) in dead and not wild:
                    continue
                r = rng.random()
                v = nextval[0]
                nextval[0] += 1
                if r < 0.4:
                    ops.append("ws%d.%d.%d" % (w, sl, v))
                elif r < 0.55:
                    ops.append("wm%d.%d.%d.%d" % (w, sl, v, rng.choice([1, 1, 0])))
                elif r < 0.65:
                    ops.append("wp%d.%d.%d" % (w, sl, v))
                elif r < 0.75:
                    ops.append("wi%d.%d" % (w, sl))
                elif r < 0.85:
                    free = [k for k in my_wrx if k[0] == w and not wrx_live[k]]
                    if free:
                        k = rng.choice(free)
                        wrx_live[k] = True
                        ops.append("wn%d.%d.%d" % (w, sl, k[1]))
                    else:
                        ops.append("ws%d.%d.%d" % (w, sl, v))
                elif r < 0.9:
                    ops.append("wl%d.%d" % (w, sl))
                else:
                    ops.append("wx%d.%d" % (w, sl))
                    dead.add(("wtx", w, sl))
            elif c == "wrx":
                live = [k for k in my_wrx if wrx_live[k] or wild]
                if not live:
                    continue
                w, sl = rng.choice(live)
                r = rng.random()
                if r < 0.35:
                    ops.append("wc%d.%d" % (w, sl))
                elif r < 0.5:
                    ops.append("wb%d.%d" % (w, sl))
                elif r < 0.65:
                    ops.append("wu%d.%d" % (w, sl))
                elif r < 0.8:
                    ops.append("wh%d.%d" % (w, sl))
                elif r < 0.92:
                    ops.append("wf%d.%d.%d" % (w, sl, rng.randrange(0, max(2, nextval[0] + 1))))
                else:
                    ops.append("wy%d.%d" % (w, sl))
                    wrx_live[(w, sl)] = False
            elif c == "cell":
                x = rng.choice(t.cells)
                r = rng.random()
                v = nextval[0]
                nextval[0] += 1
                if r < 0.4:
                    ops.append("xi%d.%d.%d" % (x, v, rng.choice([0, 0, 1, 2])))
                elif r < 0.55:
                    ops.append("xt%d.%d.%d.0" % (x, v, rng.choice([0, 1, 2])))
                elif r < 0.75:
                    ops.append("xs%d.%d" % (x, v))
                else:
                    ops.append("xg%d" % x)
            elif c == "join":
                if thandles and (not ahandles or rng.random() < 0.5):
                    h = thandles.pop(0)
                    ops.append("jt%d" % h)
                elif ahandles:
                    h = ahandles.pop(0)
                    ops.append("aw%d" % h)
            elif c == "wild":
                w = rng.choice(["rl", "jt", "aw", "en", "an", "dn", "fg", "mg", "dg"])
                if w == "dg":
                    cand = [i for i, sp in enumerate(t.specs) if sp[0] == "w"]
                    if cand:
                        ops.append("dg%d" % rng.choice(cand))
                elif w == "mg":
                    cand = [i for i, sp in enumerate(t.specs) if sp[0] == "s"]
                    if cand:
                        ops.append("mg%d" % rng.choice(cand))
                elif w == "rl" or w == "fg":
                    o = rng.randrange(len(t.specs))
                    if t.specs[o][0] in "smw":
                        ops.append("%s%d" % (w, o))
                else:
                    ops.append("%s%d" % (w, rng.randrange(0, 3)))
        # most bodies wait for their children
        for h in thandles:
            if rng.random() < 0.8:
                ops.append("jt%d" % h)
        for h in ahandles:
            if rng.random() < 0.8:
                ops.append("aw%d" % h)
        bodies.append(";".join(ops) if ops else "-")
    return ",".join(t.specs), "|".join(bodies)


def gen_watch_reopen(rng):
    """watch channels that lose their last receiver and are re-opened by subscribe while another handle of the sender
    keeps sending: main owns the creation-time receiver and drops it early, body 1 sends through sender slot 0, body 2
    subscribes through sender slot 1 and then looks / waits."""
    k1, k2 = rng.choice("TA"), rng.choice("TA")
    v = [1]

    def val():
        v[0] += 1
        return v[0]
    main = ["wy0.0"] if rng.random() < 0.8 else ["wb0.0", "wy0.0"]
    sp = ["st1" if k1 == "T" else "sa1", "st2" if k2 == "T" else "sa2"]
    if rng.random() < 0.5:
        main = sp + main
    else:
        main = main + sp
    main += ["jt0" if k1 == "T" else "aw0", ("jt1" if k1 == "T" else "jt0") if k2 == "T" else ("aw1" if k1 == "A" else "aw0")]
    b1 = []
    for _ in range(rng.randint(1, 3)):
        r = rng.random()
        b1.append("wp0.0.%d" % val() if r < 0.5 else ("wm0.0.%d.1" % val() if r < 0.75 else "ws0.0.%d" % val()))
        if rng.random() < 0.3:
            b1.append("yd")
    if rng.random() < 0.3:
        b1.append("wx0.0")
    b2 = ["wn0.1.1"]
    if rng.random() < 0.3:
        b2.insert(0, "yd")
    for _ in range(rng.randint(1, 4)):
        b2.append(rng.choice(["wu0.1", "wu0.1", "wh0.1", "wb0.1", "wc0.1", "wc0.1", "wf0.1.%d" % rng.randint(2, max(2, v[0]))]))
    if rng.random() < 0.4:
        b2.append("wx0.1")
    return "h0:2:1", "|".join(";".join(b) for b in (main, b1, b2))


def gen_case(rng, focus="mix", wild=False, max_bodies=4, max_ops=7):
    if focus == "watchre":
        objs, bodies = gen_watch_reopen(rng)
        return "tok none %s %d %s %s" % (gen_script(rng), rng.randrange(1, 2**32), objs, bodies)
    objs, bodies = gen_program(rng, focus, wild, max_bodies, max_ops)
    ms = "none" if rng.random() < 0.85 else "fail:%d" % rng.choice([5, 20, 60, 200])
    return "tok %s %s %d %s %s" % (ms, gen_script(rng), rng.randrange(1, 2**32), objs, bodies)


def static_ok(case):
    """The ownership discipline on the text of a case: True when the harness may run it."""
    f = case.split(" ")
    if len(f) != 6 or f[0] != "tok":
        return False
    specs = f[4].split(",")
    bodies = [([] if b == "-" else b.split(";")) for b in f[5].split("|")]
    spawned = {}
    users = {}
    for bi, ops in enumerate(bodies):
        for w in ops:
            pre, rest = w[:2], w[2:]
            args = rest.split(".") if rest else []
            if pre in ("st", "sa"):
                j = int(args[0])
                if j == 0 or j >= len(bodies) or j in spawned:
                    return False
                spawned[j] = bi
            key = None
            if pre in ("sd", "bs", "ts", "dt"):
                key = ("tx", args[0], args[1])
            elif pre in ("rc", "br", "tr", "cr", "dr"):
                key = ("rx", args[0])
            elif pre in ("os", "ox", "oi"):
                key = ("otx", args[0])
            elif pre in ("or", "ot", "oc", "oy"):
                key = ("orx", args[0])
            elif pre in ("ws", "wm", "wp", "wx", "wl", "wi"):
                key = ("wtx", args[0], args[1])
            elif pre in ("wb", "wu", "wh", "wc", "wf", "wy"):
                key = ("wrx", args[0], args[1])
            elif pre == "wn":
                if users.setdefault(("wtx", args[0], args[1]), bi) != bi:
                    return False
                key = ("wrx", args[0], args[2])
            if key:
                if users.setdefault(key, bi) != bi:
                    return False
            # objects of the right kind
            objarg = {"sd": "c", "bs": "c", "ts": "c", "dt": "c", "rc": "c", "br": "c", "tr": "c", "cr": "c", "dr": "c", "ci": "c",
                      "ac": "s", "ta": "s", "ad": "s", "sc": "s", "si": "s", "lk": "m", "tl": "m", "rd": "w", "wr": "w", "tR": "w", "tW": "w",
                      "nf": "n", "no": "n", "na": "n", "dg": "w", "oi": "o", "xs": "x", "xg": "x", "xi": "x", "xt": "x", "ws": "h", "wm": "h", "wp": "h", "wx": "h", "wl": "h", "wi": "h", "wb": "h", "wu": "h",
                      "wh": "h", "wc": "h", "wf": "h", "wy": "h", "wn": "h", "os": "o", "or": "o", "ot": "o", "oc": "o", "ox": "o", "oy": "o"}
            if pre in objarg:
                i = int(args[0])
                if i >= len(specs) or specs[i][0] != objarg[pre]:
                    return False
            if pre in ("rl", "fg", "mg", "sp"):
                i = int(args[0])
                if i >= len(specs) or specs[i][0] not in "smw":
                    return False
    # a body must not (transitively) spawn itself: parents have smaller indices in generated programs; check acyclicity
    for j, pb in spawned.items():
        seen = set()
        x = j
        while x in spawned:
            if x in seen:
                return False
            seen.add(x)
            x = spawned[x]
    return True
