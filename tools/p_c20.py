"""C20 — parking_lot / dashmap / deterministic collections / rand / lazy_static replacements keep their contracts.

Layers: `pl` (harness/src/l_pl.rs, ocaml/l_pl.ml, coq/Lang/PlOps.v + PlMap.v).  The differential compares the extracted
model with the crates event by event; the oracles below judge the crates' own traces against the property text and do not
use the model."""
import os, re
from common import Ctx, REPO, load_known_findings
import gen_pl
from proglayer import parse_trace

PROPS = "Props/C20.v"
M64 = 2 ** 64
A_LCG, C_LCG = 6364136223846793005, 1442695040888963407
OPC = ["sp", "jn", "yd", "rd", "wr", "ur", "tr", "tw", "tu", "ul", "up", "tg", "dg", "du", "dw", "wu", "tq", "gv", "iv", "bp", "lk", "tl",
       "rn", "r3", "rb", "rr", "rg", "rq", "dins", "dget", "drem", "dlen", "dcon", "dalt", "dent", "dret", "dclr", "dit", "dref", "dmut",
       "dtry", "sins", "srem", "scon", "slen", "lz"]
BLOCKING = {"rd", "wr", "ur", "up", "wu", "dw", "lk", "bp", "tu", "tg", "tq", "ul"}   # ops during which the lock is in transit
LEAKY = {"de", "sf"}     # F31b: Deserialize / From<std> (the set operators or/an/xo/su were repaired: F31)

RULE = ("C20: programs of 1-4 threads over parking_lot RwLock/Mutex guards (read/write/upgradable, try-variants, upgrade, try_upgrade, the three "
        "downgrades, with_upgraded, bump), DashMap/DashSet operations and held Ref/RefMut, the rand 0.8 replacement (next_u64/next_u32/fill_bytes/"
        "gen_range/random/gen::<bool> through ThreadRng and StdRng) and lazy statics, run under a scripted scheduler on the crates and on the "
        "extracted Coq model (event-by-event equality incl. vector clocks); oracles on the crates' traces: exclusion matrix, one upgradable holder, "
        "no lost update, upgrade not overtaken, downgrades never wait, failed tries leave a free lock free, no deadlock on a free lock, DashMap "
        "results = plain map in log order and guards exclude, every random value a function of the scheduler's draws, lazy initialiser once per "
        "execution; histories over the deterministic HashMap/HashSet vs the association-list model, iteration order equal across instances and processes")


def zone64(n):
    return ((n << (64 - n.bit_length())) - 1) % M64


def oracle_pl(case, line, scripted=True, rseed=None):
    """returns a list of (kind, message): kind in {"violation", "F7", "F30"}"""
    out = []
    pt = parse_trace(line)
    if pt is None:
        return [("violation", "unparsable trace")]
    evs, term, _ = pt
    held = {}        # lock -> list of (task, kind)
    value = {}       # lock -> counter
    maps = {}        # object -> dict
    pending = {}     # task -> (opname, obj, event index)
    in_closure = {}  # task -> (obj, index of the 68 event) while inside with_upgraded
    u_since = {}     # (task, obj) -> index at which the upgradable guard was (re-)established
    u_since_prev = {}
    wevents = {}     # obj -> list of (index, task) of exclusive acquisitions / writes
    lz_val = {}
    transit = {}     # task -> (task, kind) of the guard its current operation works on
    pend_r = []
    lz_wait = None
    touch = {}       # lock -> [(index, task)] of every event about it
    last_r = rseed

    def others(o, t):
        return [(t2, k2) for (t2, k2) in held.get(o, []) if t2 != t]

    def acquire(o, t, k, what):
        ot = others(o, t)
        if k in (1, 3, 5) and ot:
            out.append(("violation", "%s by task %d on object %d while %s hold it" % (what, t, o, ot)))
        if k in (0, 4) and any(k2 in (1, 5) for _, k2 in ot):
            out.append(("violation", "%s by task %d on object %d while a writer holds it: %s" % (what, t, o, ot)))
        if k == 2 and any(k2 in (1, 2) for _, k2 in ot):
            out.append(("violation", "%s by task %d on object %d while a writer or another upgradable reader holds it: %s" % (what, t, o, ot)))
        held.setdefault(o, []).append((t, k))
        if k == 1:
            wevents.setdefault(o, []).append((i, t))
        if k == 2:
            u_since_prev[(t, o)] = u_since.get((t, o), i)
            u_since[(t, o)] = i

    def release(o, t, k):
        l = held.get(o, [])
        for j in range(len(l) - 1, -1, -1):
            if l[j] == (t, k):
                l.pop(j)
                return True
        out.append(("violation", "task %d released a guard of kind %d on object %d it does not hold" % (t, k, o)))
        return False

    def convert(o, t, k_from, k_to, what):
        release(o, t, k_from)
        acquire(o, t, k_to, what)

    def never_blocked(t, i0, i1):
        return all(not (e.kind == "D" and t not in e.offered) for e in evs[i0:i1])

    def overtaken(o, t):
        s = u_since.get((t, o))
        return [w for w in wevents.get(o, []) if s is not None and w[0] > s and w[1] != t]

    def quiet(o, t):
        """nobody else holds o and no other task is inside an operation on o"""
        return not others(o, t) and not any(p[1] == o and t2 != t for t2, p in pending.items())

    def quiet_window(o, t):
        """... during the whole operation of t in progress (a try-variant may have met the obstacle at any of its steps)"""
        p = pending.get(t)
        if p is None or not p[3] or not quiet(o, t):
            return False
        return not any(j > p[2] and t2 != t for j, t2 in touch.get(o, []))

    for i, e in enumerate(evs):
        if e.kind == "R":
            if scripted and last_r is not None:
                exp = (last_r * A_LCG + C_LCG) % M64
                if e.val != exp:
                    out.append(("violation", "draw %d is not the scheduler's next value %d" % (e.val, exp)))
            last_r = e.val
            if lz_wait is not None:
                lz_val[lz_wait] = e.val          # the initialiser's draw
                lz_wait = None
            else:
                pend_r.append(e.val)
            continue
        if e.kind != "O":
            continue
        t, tag, v = e.task, e.tag, e.vals
        rs, pend_r = pend_r, []
        if 49 <= tag <= 71 and v:
            touch.setdefault(v[1] if tag == 49 and len(v) > 1 else v[0], []).append((i, t))
        if tag == 49:
            name = OPC[v[0]] if v[0] < len(OPC) else "?"
            pending[t] = (name, v[1], i, quiet(v[1], t))
            # an operation on an existing guard: from here to its completion the guard is in transit (its permits are being
            # given back / exchanged); it is re-entered into the table, in its new mode, by the completion event
            want = {"up": [2], "tg": [2], "du": [2], "wu": [2], "tq": [2], "dg": [1], "dw": [1]}.get(name)
            if name in ("ul", "bp"):
                nxt = next((e2 for e2 in evs[i + 1:] if e2.kind == "O" and e2.task == t and e2.tag in (57, 67)), None)
                want = [nxt.vals[1]] if nxt is not None else [0, 1, 2, 3, 4, 5]
            if want:
                l = held.get(v[1], [])
                for j in range(len(l) - 1, -1, -1):
                    if l[j][0] == t and l[j][1] in want:
                        transit[t] = l.pop(j)
                        break
            continue
        pend = pending.get(t)
        if tag in (51, 52, 53):
            acquire(v[0], t, tag - 51, "lock acquired")
        elif tag in (54, 55, 56):
            if v[1]:
                acquire(v[0], t, tag - 54, "try-lock succeeded")
            elif quiet_window(v[0], t) and not [g for g in held.get(v[0], []) if g[0] == t]:
                out.append(("violation", "try-lock (tag %d) of task %d failed on object %d although nobody holds it or is operating on it" % (tag, t, v[0])))
        elif tag == 57:
            if transit.pop(t, None) is None:
                release(v[0], t, v[1])
        elif tag == 58:
            ov = overtaken(v[0], t)
            transit.pop(t, None)
            acquire(v[0], t, 1, "upgrade completed")
            if ov:
                out.append(("F30", "upgrade of task %d on lock %d completed after task(s) %s took the lock exclusively since the upgradable guard was obtained" % (t, v[0], sorted(set(w[1] for w in ov)))))
        elif tag == 59:
            if v[1]:
                ov = overtaken(v[0], t)
                transit.pop(t, None)
                acquire(v[0], t, 1, "try_upgrade succeeded")
                if ov:
                    out.append(("violation", "try_upgrade of task %d succeeded although a writer had the lock in between" % t))
            else:
                transit.pop(t, None)
                if quiet_window(v[0], t) and not held.get(v[0], []):
                    out.append(("violation", "try_upgrade of task %d failed on lock %d although it is the only holder and nobody is operating on it" % (t, v[0])))
                acquire(v[0], t, 2, "upgradable guard kept after a failed try_upgrade")
                u_since[(t, v[0])] = u_since_prev.get((t, v[0]), i)
        elif tag in (60, 61, 62):
            k_from, k_to = {60: (1, 0), 61: (2, 0), 62: (1, 2)}[tag]
            transit.pop(t, None)
            acquire(v[0], t, k_to, "downgrade")
            if pend and not never_blocked(t, pend[2], i):
                out.append(("F7" if tag == 62 else "violation", "downgrade (%s) of task %d on lock %d had to wait" % (pend[0], t, v[0])))
        elif tag == 68:
            # inside the closure of with_upgraded / try_with_upgraded: the task is the exclusive holder
            ov = overtaken(v[0], t)
            if others(v[0], t):
                out.append(("violation", "with_upgraded closure of task %d ran while %s hold lock %d" % (t, others(v[0], t), v[0])))
            if ov:
                out.append(("F30" if pend and pend[0] == "wu" else "violation",
                            "with_upgraded of task %d on lock %d got exclusive access after task(s) %s took the lock exclusively since the upgradable guard was obtained" % (t, v[0], sorted(set(w[1] for w in ov)))))
            if v[1] != value.get(v[0], 0) + 1:
                out.append(("violation", "lost update on lock %d: counter %d -> %d" % (v[0], value.get(v[0], 0), v[1])))
            value[v[0]] = v[1]
            wevents.setdefault(v[0], []).append((i, t))
            in_closure[t] = (v[0], i)
        elif tag in (63, 64):
            transit.pop(t, None)
            if tag == 63 or v[1]:
                c = in_closure.pop(t, None)
                if c and not never_blocked(t, c[1], i):
                    out.append(("F7", "the downgrade_to_upgradable at the end of with_upgraded of task %d on lock %d had to wait" % (t, v[0])))
                acquire(v[0], t, 2, "upgradable guard re-established after with_upgraded")
            else:
                if quiet_window(v[0], t) and not held.get(v[0], []):
                    out.append(("violation", "try_with_upgraded of task %d failed on lock %d although it is the only holder" % (t, v[0])))
                acquire(v[0], t, 2, "upgradable guard kept after a failed try_with_upgraded")
                u_since[(t, v[0])] = u_since_prev.get((t, v[0]), i)
        elif tag == 65:
            if v[1] != value.get(v[0], 0):
                out.append(("violation", "task %d read %d under a guard of lock %d, the counter is %d" % (t, v[1], v[0], value.get(v[0], 0))))
        elif tag == 66:
            if others(v[0], t):
                out.append(("violation", "task %d wrote under its guard of lock %d while %s hold it" % (t, v[0], others(v[0], t))))
            if v[1] != value.get(v[0], 0) + 1:
                out.append(("violation", "lost update on lock %d: counter %d -> %d" % (v[0], value.get(v[0], 0), v[1])))
            value[v[0]] = v[1]
            wevents.setdefault(v[0], []).append((i, t))
        elif tag == 67:
            transit.pop(t, None)
            acquire(v[0], t, v[1], "bump re-acquired")
        elif tag == 70:
            acquire(v[0], t, 3, "mutex locked")
        elif tag == 71:
            if v[1]:
                acquire(v[0], t, 3, "mutex try_lock succeeded")
            elif quiet_window(v[0], t) and not held.get(v[0]):
                out.append(("violation", "Mutex::try_lock of task %d failed on a free mutex %d" % (t, v[0])))
        # ---- rand ----
        elif tag in (80, 83):
            if rs != [v[0]]:
                out.append(("violation", "random value %d is not the scheduler's draw %s" % (v[0], rs)))
        elif tag == 81:
            if len(rs) != 1 or v[0] != rs[0] % 2 ** 32:
                out.append(("violation", "next_u32 %d is not the low half of the draw %s" % (v[0], rs)))
        elif tag == 82:
            n = len(v)
            exp = []
            for r in rs:
                exp += [(r >> (8 * j)) & 255 for j in range(8)]
            if len(rs) != (n + 7) // 8 or exp[:n] != v:
                out.append(("violation", "fill_bytes(%d) = %s is not the little-endian expansion of the draws %s" % (n, v, rs)))
        elif tag == 84:
            n = v[0]
            ok = bool(rs)
            for j, r in enumerate(rs):
                hi, lo = divmod(r * n, M64)
                acc = lo <= zone64(n)
                if acc != (j == len(rs) - 1) or (acc and hi != v[1]):
                    ok = False
            if not ok:
                out.append(("violation", "gen_range(0..%d) = %d does not follow from the draws %s" % (n, v[1], rs)))
        elif tag == 85:
            if len(rs) != 1 or v[0] != ((rs[0] % 2 ** 32) >> 31):
                out.append(("violation", "gen::<bool>() = %d is not the top bit of the low half of the draw %s" % (v[0], rs)))
        # ---- lazy_static ----
        elif tag == 111:
            if v[0] in lz_val:
                out.append(("violation", "the initialiser of lazy static %d ran twice in one execution" % v[0]))
            lz_val[v[0]] = None
            lz_wait = v[0]
        elif tag == 110:
            if v[0] not in lz_val:
                out.append(("violation", "lazy static %d read as %d without its initialiser having run in this execution" % (v[0], v[1])))
            elif lz_val[v[0]] != v[1]:
                out.append(("violation", "lazy static %d read as %d, its initialiser drew %s" % (v[0], v[1], lz_val[v[0]])))
        # ---- DashMap / DashSet ----
        elif 90 <= tag <= 107 or 112 <= tag <= 114:
            o = v[0]
            d = maps.setdefault(o, {})
            write = tag in (90, 92, 95, 96, 97, 98, 101, 104, 105, 112, 113)
            ot = others(o, t)
            if tag != 103 and ((write and ot) or (not write and any(k2 == 5 for _, k2 in ot))):
                out.append(("violation", "DashMap operation (tag %d) of task %d ran while %s hold guards of map %d" % (tag, t, ot, o)))
            bad = None
            if tag == 90:
                if (v[3], v[4]) != (int(v[1] in d), d.get(v[1], 0)):
                    bad = "insert returned %s" % v[3:]
                d[v[1]] = v[2]
            elif tag in (91, 100):
                if (v[2], v[3]) != (int(v[1] in d), d.get(v[1], 0)):
                    bad = "get returned %s" % v[2:]
                if tag == 100 and v[2]:
                    held.setdefault(o, []).append((t, 4))
            elif tag == 92:
                if (v[2], v[3]) != (int(v[1] in d), d.get(v[1], 0)):
                    bad = "remove returned %s" % v[2:]
                d.pop(v[1], None)
            elif tag in (93, 107):
                if v[1] != len(d):
                    bad = "len returned %d" % v[1]
            elif tag in (94, 106):
                if v[2] != int(v[1] in d):
                    bad = "contains returned %d" % v[2]
            elif tag == 95:
                if v[1] in d:
                    d[v[1]] = (d[v[1]] + v[2]) % M64
            elif tag == 96:
                if v[1] not in d:
                    d[v[1]] = v[2]
                if v[3] != d[v[1]]:
                    bad = "entry().or_insert() returned %d" % v[3]
            elif tag == 97:
                for k in [k for k, x in d.items() if ((k + x) % M64) % v[1] == v[2]]:
                    del d[k]
            elif tag == 98:
                d.clear()
            elif tag == 99:
                exp = []
                for k in sorted(d):
                    exp += [k, d[k]]
                if v[1:] != exp:
                    bad = "iter yielded %s" % v[1:]
            elif tag == 101:
                if v[3] != int(v[1] in d):
                    bad = "get_mut found=%d" % v[3]
                elif v[3]:
                    d[v[1]] = (d[v[1]] + v[2]) % M64
                    if v[4] != d[v[1]]:
                        bad = "get_mut value %d" % v[4]
                    held.setdefault(o, []).append((t, 5))
            elif tag == 103:
                if v[2] == 2:
                    if quiet_window(o, t) and not held.get(o):
                        bad = "try_get reported Locked on a map nobody holds or operates on"
                elif any(k2 == 5 for _, k2 in ot):
                    bad = "try_get succeeded while %s hold the map" % ot
                elif (v[2], v[3]) != ((0, d[v[1]]) if v[1] in d else (1, 0)):
                    bad = "try_get returned %s" % v[2:]
            elif tag in (112, 113):
                # remove_if / remove_if_mut(k, pred = value parity p): [o, k, p, 1 removed | 0 rejected | 2 absent, value seen]
                k_, p_, res, seen = v[1], v[2], v[3], v[4]
                if k_ not in d:
                    if res != 2:
                        bad = "remove_if on an absent key answered %d" % res
                else:
                    x = d[k_] if tag == 112 else (d[k_] + 1) % M64
                    want = 1 if x % 2 == p_ % 2 else 0
                    if (res, seen) != (want, x):
                        bad = "remove_if%s answered %s, expected %s" % ("_mut" if tag == 113 else "", (res, seen), (want, x))
                    if want:
                        del d[k_]
                    else:
                        d[k_] = x
            elif tag == 114:
                if (v[2], v[3]) != (int(v[1] in d), d.get(v[1], 0)):
                    bad = "view returned %s" % v[2:]
            elif tag == 104:
                if v[2] != int(v[1] not in d):
                    bad = "DashSet::insert returned %d" % v[2]
                d[v[1]] = 0
            elif tag == 105:
                if v[2] != int(v[1] in d):
                    bad = "DashSet::remove returned %d" % v[2]
                d.pop(v[1], None)
            if bad:
                out.append(("violation", "map %d, task %d: %s; a plain map under the same order of operations holds %s" % (o, t, bad, dict(sorted(d.items())))))
        if tag not in (49, 68, 111) and t in pending and tag != 48:
            pending.pop(t, None)
    if term.startswith("deadlock"):
        inside = [(t, p) for t, p in pending.items() if p[0] == "dw"] + [(t, ("wu/tq",) + c) for t, c in in_closure.items()]
        if inside:
            out.append(("F7", "deadlock with task(s) %s blocked inside downgrade_to_upgradable" % sorted(t for t, _ in inside)))
        else:
            for o in set(p[1] for p in pending.values()):
                blocked = [t for t, p in pending.items() if p[1] == o and p[0] in ("rd", "wr", "ur", "lk", "up", "wu", "bp")]
                if blocked and not held.get(o):
                    out.append(("violation", "deadlock: task(s) %s blocked on object %d which nobody holds" % (blocked, o)))
    return out


def stopped_run(case, model_line):
    """the model's run of this case ended because the scheduler stopped it (script entry x, or a ContinueAfter bound)"""
    w = case.split(" ")
    if "T=ok" not in model_line:
        return False
    return (">x " in model_line) or w[1].startswith("cont:")


def check_sources(ctx):
    """the constants the model hard-codes, re-read from the sources on every run"""
    try:
        rw = open(os.path.join(REPO, "wrappers/parking_lot/parking_lot_impl/src/raw_rwlock.rs")).read()
        mx = open(os.path.join(REPO, "wrappers/parking_lot/parking_lot_impl/src/raw_mutex.rs")).read()
        dm = open(os.path.join(REPO, "wrappers/dashmap/dashmap_impl/src/lib.rs")).read()
        bad = []
        if not re.search(r"const\s+MAX_READERS\s*:\s*usize\s*=\s*usize::MAX\s*>>\s*3\s*;", rw):
            bad.append("MAX_READERS is no longer usize::MAX >> 3")
        if not re.search(r"sem:\s*BatchSemaphore::const_new\(MAX_READERS,\s*Fairness::StrictlyFair\)", rw) or \
           not re.search(r"upgradable_sem:\s*BatchSemaphore::const_new\(1,\s*Fairness::StrictlyFair\)", rw):
            bad.append("RawRwLock::INIT changed")
        if not re.search(r"semaphore:\s*BatchSemaphore::const_new\(1,\s*Fairness::StrictlyFair\)", mx):
            bad.append("RawMutex::INIT changed")
        if not re.search(r"use shuttle::sync::\{RwLock,", dm):
            bad.append("DashMap no longer uses shuttle::sync::RwLock")
        if bad:
            ctx.broken.append({"kind": "translator", "what": "constants modelled in coq/Lang/PlOps.v no longer match the sources", "detail": "; ".join(bad)})
    except OSError as ex:
        ctx.broken.append({"kind": "translator", "what": "wrapper sources not found", "detail": str(ex)})


DIRECTED = [
    # F7: a queued upgradable reader holds the slot the downgrade needs
    ("pl none 0,0,0,1,1,1,1,0 1 L wr.0;sp.1;dw.0;ul.0;jn.0|ur.0;ul.0", "F7"),
    ("pl none 0,0,0,0,0,1,1,1,1,1 1 L ur.0;sp.1;wu.0;ul.0;jn.0|ur.0;ul.0", "F7"),
    ("pl none - 1 L wr.0;sp.1;dw.0;ul.0;jn.0|ur.0;ul.0", None),
    # F30: a writer queued before the upgrade gets the lock first
    ("pl none 0,0,0,1,1,1,1,0,0,0,0,0,1 1 L ur.0;sp.1;up.0;gv.0;iv.0;ul.0;jn.0|wr.0;iv.0;ul.0", "F30"),
    ("pl none 0,0,0,1,1,1,1,0,0,0,0,0,1 1 L ur.0;gv.0;sp.1;wu.0;ul.0;jn.0|wr.0;iv.0;ul.0", "F30"),
    ("pl none - 1 L ur.0;sp.1;up.0;gv.0;iv.0;ul.0;jn.0|wr.0;iv.0;ul.0", None),
    # F32: stopped while two tasks are queued on the fair semaphore and the second fits once the first leaves
    ("pl none 0,0,2,2,2,0,0,0,x 1 L sp.1;sp.2;wr.0|rd.0|rd.0;yd;yd;yd;yd", "F32"),
    ("pl none - 7 L,M,D,S,Z sp.1;rd.0;gv.0;ul.0;lk.1;iv.1;ul.1;dins.2.1.5;dget.2.1;sins.3.4;slen.3;lz.4;rn;rb.11;rg.10;jn.0|ur.0;tg.0;iv.0;dg.0;ul.0;dent.2.1.9;dit.2;lz.4;rq", None),
]


def run(tier):
    ctx = Ctx("C20", tier)
    rng = ctx.rng
    ctx.gen_params()
    check_sources(ctx)
    ctx.proof_gate(PROPS)
    if not (ctx.build_model() and ctx.build_harness()):
        return ctx.finish()
    known = {f["id"]: f for f in load_known_findings() if f.get("kind") == "known" and "C20" in f.get("properties", [f.get("property")])}
    quick = tier == "quick"
    # ---------------- concurrent programs ----------------
    cases, focus = [], []
    for c, _ in DIRECTED:
        cases.append(c)
        focus.append("directed")
    for _ in range(2500 if quick else 40000):
        c, f = gen_pl.gen_case(rng)
        cases.append(c)
        focus.append(f)
    for _ in range(300 if quick else 4000):
        cases.append(gen_pl.gen_wild(rng))
        focus.append("wild")
    mo, io, mism = ctx.differential("pl", cases)
    ctx.log("pl programs: %d cases, %d model/implementation mismatches" % (len(cases), len(mism)))
    for f in focus:
        ctx.dist("focus:" + f)
    nviol = 0
    found = {}
    aborted = set()
    for k, (c, o) in enumerate(zip(cases, io)):
        term = o.split("T=")[1].split(" ")[0] if "T=" in o else "none"
        ctx.dist("outcome:" + term.split(":")[0])
        if o.startswith("ABORT") and "F32" in known and stopped_run(c, mo[k]):
            # the execution was stopped with tasks still queued on a fair semaphore: the process dies in the clean-up
            found.setdefault("F32", []).append((c, "process aborted ('panic in a destructor during cleanup') after the execution was stopped"))
            aborted.add(k)
            continue
        if o.startswith("ERR") or o.startswith("ABORT") or "T=" not in o:
            if focus[k] != "wild" or o.startswith("ABORT"):
                nviol += 1
                if nviol <= 6:
                    ctx.violation({"layer": "pl", "cases": [c], "implementation_answer": o[:600], "why": "the harness could not run a well-formed program (abort or error)"})
            continue
        if " O" in o and o.count("D[") > 3:
            ctx.note_nontrivial(c)
        w = c.split(" ")
        res = oracle_pl(c, o, scripted=True, rseed=int(w[3]))
        for kind, msg in res:
            if kind in known:
                found.setdefault(kind, []).append((c, msg))
            else:
                nviol += 1
                if nviol <= 6:
                    ctx.violation({"layer": "pl", "cases": [c], "implementation_answer": o[:3000], "why": msg + ("" if kind == "violation" else " (finding %s is not listed as known)" % kind)})
    for kind, lst in sorted(found.items()):
        ctx.known(kind, "%s: %s [%d generated inputs, first: %s -- %s]" % (kind, known[kind]["what"][:200], len(lst), lst[0][0], lst[0][1]))
        ctx.cov.setdefault("known_finding_inputs", {})[kind] = len(lst)
    for c, exp in DIRECTED:
        if exp and exp in known and not any(c == x[0] for x in found.get(exp, [])):
            ctx.broken.append({"kind": "oracle", "what": "the directed witness of %s no longer shows the finding (was it repaired? then drop it from known_findings.json and make the model follow)" % exp, "case": c})
    mism = [i for i in mism if i not in aborted]
    ctx.disagreements_checked = len(mism)
    if mism:
        ex = []
        for i in mism[:4]:
            a, b = mo[i].split(" "), io[i].split(" ")
            j = 0
            while j < min(len(a), len(b)) and a[j] == b[j]:
                j += 1
            ex.append({"case": cases[i], "first_difference_at_token": j, "model": " ".join(a[max(0, j - 2):j + 3]), "impl": " ".join(b[max(0, j - 2):j + 3])})
        ctx.broken.append({"kind": "correspondence", "layer": "pl", "what": "coq/Lang/PlOps.v (theorems C20_*) and the wrapper crates disagree on %d of %d programs" % (len(mism), len(cases)), "examples": ex})
        ctx.violation({"layer": "pl", "cases": [cases[i] for i in mism[:5]], "why": "model and implementation produce different traces (see examples)", "examples": ex})
    ctx.sample({"case": cases[len(DIRECTED)][:300], "impl": io[len(DIRECTED)][:300]})
    # ---------------- same program twice: identical replays (rand / lazy under the scheduler's control) ----------------
    multi = []
    for _ in range(60 if quick else 600):
        objs, bodies, _f = gen_pl.gen_program(rng, rng.choice(["lz", "rand", "lz", "mix"]))
        multi.append("multi %s %d %d %s" % (rng.choice(["random", "random", "pct", "dfs"]), rng.getrandbits(60), rng.choice([2, 3, 5]), gen_pl.show(objs, bodies)))
    multi.append("multi random 5 4 Z,Z sp.1;lz.0;lz.1;lz.0;jn.0|lz.1;lz.0")
    m1 = ctx.run_impl("pl", multi)
    m2 = ctx.run_impl("pl", multi)
    ctx.evaluations += 2 * len(multi)
    nreinit = 0
    for c, a, b in zip(multi, m1, m2):
        if a != b:
            nviol += 1
            ctx.violation({"layer": "pl", "cases": [c], "run_a": a[:1500], "run_b": b[:1500], "why": "two runs of the same program from the same scheduler seed differ (random values or lazy statics escaped the scheduler's control)"})
            continue
        a, _, lzlive = a.rpartition(" LZ=")
        if " T=ok" in a and any(x != "0" for x in lzlive.split(",")):
            nviol += 1
            ctx.violation({"layer": "pl", "cases": [c], "implementation_answer": a[:1500], "why": "lazy-static values outlive their execution: alive at each execution start, then after the run = " + lzlive})
        body, _, term = a.rpartition(" T=")
        execs = [x.strip() for x in body.split("X ")[1:]] if body.startswith("X") else []
        w = c.split(" ")
        if term.startswith("ok") and w[1] == "random" and len([x for x in execs if x]) != int(w[3]):
            ctx.violation({"layer": "pl", "cases": [c], "implementation_answer": a[:1500], "why": "expected %s executions" % w[3]})
        inits = 0
        for x in execs:
            if not x or x == "X":
                continue
            x = x.replace(" X", "")
            res = oracle_pl(c, x + " T=ok S=", scripted=False)
            inits += x.count(":111:")
            for kind, msg in res:
                if kind == "violation":
                    nviol += 1
                    if nviol <= 6:
                        ctx.violation({"layer": "pl", "cases": [c], "implementation_answer": x[:2000], "why": "in one execution of a multi-execution run: " + msg})
        if inits >= 2:
            nreinit += 1
            ctx.note_nontrivial(c)
    ctx.cov["multi_execution_runs_with_reinitialisation"] = nreinit
    ctx.log("multi-execution runs: %d, each twice; %d with a lazy static initialised in two or more executions" % (len(multi), nreinit))
    # ---------------- histories over the deterministic collections ----------------
    hist = []
    for i in range(1500 if quick else 20000):
        hist.append(gen_pl.gen_history(rng, leaky=(i % 4 == 0)))
    hist.append("hist si.1;si.2;si.3;si.4;si.5;si.6;si.7;si.8;bi.9;bi.10;bi.11;or;st")
    hist.append("hist i.1.1;i.2.2;i.3.3;i.4.4;i.5.5;i.6.6;i.7.7;i.8.8;i.9.9;de;it")
    hm = ctx.run_model("pl", hist)
    h1 = ctx.run_impl("pl", hist)
    h2 = ctx.run_impl("pl", hist[::-1])[::-1]        # other processes, other positions in the process
    ctx.evaluations += len(hist)
    ctx.traces_validated += len(hist)
    hmism = []
    nleak = []
    for k, c in enumerate(hist):
        res = h1[k].split(" ORD=")[0]
        if res != hm[k]:
            hmism.append(k)
            continue
        ctx.dist("history")
        if len(c) > 60:
            ctx.note_nontrivial(c)
        m = re.search(r" ORD=(\S*) ORD2=(\S*) RES2=(\S+)$", h1[k])
        m2 = re.search(r" ORD=(\S*) ORD2=(\S*) RES2=(\S+)$", h2[k])
        if not m or not m2:
            ctx.violation({"layer": "pl", "cases": [c], "implementation_answer": h1[k][:600], "why": "history not completed"})
            continue
        why = None
        if m.group(3) != "same":
            why = "two instances given the same history returned different results"
        elif m.group(1) != m.group(2):
            why = "two instances in one process iterate in different orders: %s vs %s" % (m.group(1)[:200], m.group(2)[:200])
        elif m.group(1) != m2.group(1):
            why = "two processes iterate in different orders: %s vs %s" % (m.group(1)[:200], m2.group(1)[:200])
        if why:
            names = set(op.split(".")[0] for op in c.split(" ")[1].split(";"))
            if names & LEAKY and "F31b" in known:
                nleak.append((c, why))
            else:
                nviol += 1
                if nviol <= 6:
                    ctx.violation({"layer": "pl", "cases": [c], "implementation_answer": h1[k][:1500], "other_process": h2[k][:1500],
                                   "why": "iteration order is not a function of the operation history: " + why})
    if nleak:
        short = min(nleak, key=lambda x: len(x[0]))
        ctx.known("F31b", "F31b: %s [%d generated histories, shortest: %s -- %s]" % (known["F31b"]["what"][:200], len(nleak), short[0][:300], short[1][:200]))
        ctx.cov.setdefault("known_finding_inputs", {})["F31b"] = len(nleak)
    ctx.log("collections: %d histories, %d model/implementation mismatches, %d with order differences in the known class" % (len(hist), len(hmism), len(nleak)))
    if hmism:
        ex = [{"case": hist[i][:400], "model": hm[i][:300], "impl": h1[i][:300]} for i in hmism[:4]]
        ctx.broken.append({"kind": "correspondence", "layer": "pl", "what": "coq/Lang/PlMap.v and deterministic_collections disagree on %d histories" % len(hmism), "examples": ex})
        ctx.violation({"layer": "pl", "cases": [hist[i] for i in hmism[:5]], "why": "the deterministic HashMap/HashSet do not behave like the association-list model", "examples": ex})
    ctx.sample({"case": hist[0][:300], "impl": h1[0][:300]})
    ctx.cov["rule"] = RULE
    return ctx.finish()
