"""C10 — random scheduler: seed-deterministic, reproducible per iteration, unbiased."""
from common import Ctx

PROPS = "Props/C10.v"
SEEDS = [0, 1, 2, 42, 255, 2**32 - 1, 2**32, 2**63, 2**64 - 1, 0x12345678]


def gen_calls(rng, n):
    out = []
    for _ in range(n):
        r = rng.random()
        if r < 0.15:
            out.append("E")
        elif r < 0.35:
            out.append("U")
        elif r < 0.9:
            # T: no current task, C: the first offered task is current, Y: it is current and has just yielded -- the random
            # scheduler's choice does not depend on either (the model's rs_next_task does not even take them)
            out.append("%s%d" % (rng.choice("TTCY"), rng.choice([1, 1, 2, 2, 3, 3, 4, 5, 6, 7, 8, 9, 16, 17, 31, 32, 33, 63, 64])))
        else:
            k = rng.randint(1, 6)
            out.append(rng.choice("TTCY") + ":" + ".".join(map(str, sorted(rng.sample(range(64), k)))))
    return out


def gen_urw_case(rng):
    """urw <seed> <iters> <tasks id:parent:loc:sig:psig> <calls>: a spawn tree and, per execution, a walk in which tasks
    appear in id order (a spawned task is offered at the next decision), finish, and are offered in varying subsets."""
    n = rng.randint(1, 6)
    parent = [None] + [rng.randrange(0, i) for i in range(1, n)]
    loc = [rng.randrange(3) for _ in range(n)]
    keys = {}
    sig = []
    nkids = {}
    for i in range(n):
        ps = 0 if parent[i] is None else sig[parent[i]]
        cnt = nkids.get((ps, loc[i]), 0) if parent[i] is not None else 0
        nkids[(ps, loc[i])] = cnt + 1
        # the root's signature depends on its location only
        k = (ps, loc[i], cnt)
        if k not in keys:
            keys[k] = len(keys) + 1
        sig.append(keys[k])
    tasks = ",".join("%d:%s:%d:%d:%d" % (i, "-" if parent[i] is None else parent[i], loc[i], sig[i], 0 if parent[i] is None else sig[parent[i]]) for i in range(n))
    iters = rng.choice([1, 2, 3, 4, 6])
    calls = []
    wild = rng.random() < 0.12
    for it in range(iters + (1 if rng.random() < 0.3 else 0)):
        calls.append("E")
        created = 1
        alive = [0]
        for _ in range(rng.randint(0, 14)):
            if rng.random() < 0.08:
                calls.append("U")
                continue
            # spawn: a parent that is alive gets its next child
            if created < n and parent[created] in alive and rng.random() < 0.45:
                alive.append(created)
                created += 1
                offered = sorted(alive) if not wild else sorted(set(alive) - set(rng.sample(alive, rng.randint(0, 1))))
            else:
                offered = [t for t in alive if rng.random() < 0.8] or [rng.choice(alive)]
            if wild and rng.random() < 0.1 and created < n:
                offered = sorted(set(offered) | {n - 1})
            calls.append("T:" + ".".join(map(str, sorted(offered))))
            if len(alive) > 1 and rng.random() < 0.12:
                alive.remove(rng.choice(alive))
    return "urw %d %d %s %s" % (rng.getrandbits(rng.choice([16, 48, 64])), iters, tasks, ",".join(calls))


def run(tier):
    ctx = Ctx("C10", tier)
    rng = ctx.rng
    ctx.gen_params()
    ctx.proof_gate(PROPS)
    ctx.proof_gate("Props/C10urw.v")
    if not (ctx.build_model() and ctx.build_harness()):
        return ctx.finish()
    n = 400 if tier == "quick" else 4000
    cases = []
    for k in range(n):
        seed = rng.choice(SEEDS) if rng.random() < 0.4 else rng.getrandbits(64)
        iters = rng.choice([0, 1, 2, 3, 5, 10])
        calls = ["E"] + gen_calls(rng, rng.randint(0, 60))
        cases.append("random %d %d %s" % (seed, iters, ",".join(calls)))
        ctx.note_nontrivial(cases[-1])
    mo, io, mism = ctx.differential("sched", cases)
    ctx.log("random scheduler call sequences: %d cases, %d model/impl mismatches" % (len(cases), len(mism)))
    nfail = 0
    # the seed given through SHUTTLE_RANDOM_SEED (the route printed with a failing seed) replaces the constructor's argument:
    # the scheduler then is the model's scheduler for that seed
    ecases, emodel = [], []
    for k in range(60 if tier == "quick" else 600):
        env = rng.choice(SEEDS) if rng.random() < 0.3 else rng.getrandbits(64)
        iters = rng.choice([1, 2, 3, 5])
        calls = ",".join(["E"] + gen_calls(rng, rng.randint(5, 40)))
        ecases.append("randomenv %d %d %d %s" % (env, rng.getrandbits(64), iters, calls))
        emodel.append("random %d %d %s" % (env, iters, calls))
    eio = ctx.run_impl("sched", ecases)
    emo = ctx.run_model("sched", emodel)
    ctx.evaluations += len(ecases)
    for c, a, b in zip(ecases, eio, emo):
        if a != b:
            nfail += 1
            if nfail <= 3:
                ctx.violation({"layer": "sched", "cases": [c], "implementation_answer": a[:1200], "model_answer": b[:1200],
                               "why": "with SHUTTLE_RANDOM_SEED set the scheduler does not behave as the scheduler built from that seed (executions, choices or draws differ)"})
    ctx.cov["env_seed_cases"] = len(ecases)
    # oracle 1 (same seed, same run): run every case a second time on the crate
    io2 = ctx.run_impl("sched", cases)
    for k in range(len(cases)):
        if io[k] != io2[k]:
            nfail += 1
            if nfail <= 3:
                ctx.violation({"layer": "sched", "cases": [cases[k]], "run_a": io[k][:1500], "run_b": io2[k][:1500], "why": "two RandomSchedulers built from the same seed answered differently"})
    # oracle 2 (iteration seed reproduces): for every E answer e<seed_i> followed by calls up to the next E,
    # a fresh scheduler built from seed_i with one iteration must give the same answers to those calls
    rep_cases, rep_expect = [], []
    for k, c in enumerate(cases):
        calls = c.split(" ")[3].split(",")
        ans = io[k].split(",")
        if len(ans) != len(calls):
            continue
        i = 0
        while i < len(calls):
            if calls[i] == "E" and ans[i].startswith("e") and ans[i] != "eN":
                j = i + 1
                while j < len(calls) and calls[j] != "E":
                    j += 1
                if j > i + 1:
                    rep_cases.append("random %s 1 %s" % (ans[i][1:], ",".join(["E"] + calls[i + 1:j])))
                    rep_expect.append(",".join([ans[i]] + ans[i + 1:j]))
                i = j
            else:
                i += 1
    rmo, rio, rmism = ctx.differential("sched", rep_cases)
    for k in range(len(rep_cases)):
        if rio[k] != rep_expect[k]:
            nfail += 1
            if nfail <= 6:
                ctx.violation({"layer": "sched", "cases": [rep_cases[k]], "implementation_answer": rio[k][:1500], "expected_from_original_iteration": rep_expect[k][:1500],
                               "why": "the seed reported for an iteration, given back with one iteration, did not reproduce that iteration's decisions and data draws"})
    ctx.log("iteration-seed reproduction: %d iterations re-run from their reported seed" % len(rep_cases))
    # the uniform random walk scheduler, call by call against Sched/Urw.v
    uc = [gen_urw_case(rng) for _ in range(1500 if tier == "quick" else 20000)]
    umo, uio, um = ctx.differential("sched", uc)
    ends = {}
    for o in uio:
        e = (o or "?").split(",")[-1][:1]
        ends[e] = ends.get(e, 0) + 1
    for k, v in ends.items():
        ctx.dist("urw.last_answer." + {"P": "panic", "t": "task", "u": "draw", "e": "new_execution"}.get(k, "other"), v)
    ctx.log("URW call sequences: %d sessions, %d model/impl mismatches" % (len(uc), len(um)))
    if um:
        ctx.disagreements_checked += len(um)
        # a session on which the real scheduler panics while the verified model answers (the model's answers are offered
        # tasks with positive weights: C10_urw_offered, C10_urw_counts_stay_positive) is a failing input
        rep = 0
        for i in um:
            a, b = (umo[i] or "").split(","), (uio[i] or "").split(",")
            k = next((j for j in range(min(len(a), len(b))) if a[j] != b[j]), None)
            if k is not None and b[k] == "P" and a[k].startswith(("t", "e", "u")) and rep < 3:
                rep += 1
                ctx.violation({"layer": "sched", "cases": [uc[i]], "implementation_answer": uio[i], "model_answer": umo[i],
                               "why": "UrwRandomScheduler panics at call %d of a call sequence on which the verified model answers %s" % (k, a[k])})
        ctx.broken.append({"kind": "correspondence", "layer": "sched", "what": "Sched/Urw.v and urw.rs disagree on %d of %d call sequences; the theorems C10_urw_* are about a model that no longer describes the code" % (len(um), len(uc)),
                           "examples": [{"case": uc[i], "model": umo[i], "impl": uio[i]} for i in um[:3]]})
    # oracle on the implementation's own answers: the chosen task is one of the offered ones
    nbad = 0
    for c, o in zip(uc, uio):
        calls = c.split(" ")[4].split(",")
        for call, ans in zip(calls, (o or "").split(",")):
            if call.startswith("T:") and ans.startswith("t") and ans[1:] not in call[2:].split("."):
                nbad += 1
                if nbad <= 2:
                    ctx.violation({"layer": "sched", "cases": [c], "implementation_answer": o, "why": "UrwRandomScheduler returned a task that was not offered"})
    ctx.sample({"case": uc[0], "impl": uio[0]})
    # programs on the real runtime: same seed twice (random and URW), and every random iteration re-run from its reported seed
    import gen_prog
    pc = []
    for i in range(250 if tier == "quick" else 3000):
        objs, bodies = gen_prog.gen_program(rng, max_bodies=4, max_ops=rng.choice([3, 5]), features=gen_prog.ALL)
        ms = rng.choice(["none", "none", "fail:%d" % rng.randint(4, 25), "cont:%d" % rng.randint(4, 25)])
        k = rng.random()
        if k < 0.35:
            pc.append("twice random %d 0 %d %s %s %s" % (rng.getrandbits(64), rng.choice([1, 3, 6]), ms, objs, bodies))
        elif k < 0.7:
            pc.append("twice urw %d 0 %d %s %s %s" % (rng.getrandbits(64), rng.choice([2, 4, 8]), ms, objs, bodies))
        else:
            pc.append("reseed %d %d %s %s %s" % (rng.getrandbits(64), rng.choice([2, 4, 7]), ms, objs, bodies))
    # directed: three and four generations of tasks with uneven lengths (URW aggregates event counts along the
    # spawn tree after its estimation run; the weights, hence the picks, must not depend on anything but the seed)
    deep = ["sp1;yd;yd;jn0|sp2;a0.add.1;a0.add.1;a0.add.1;jn0|a0.add.1;a0.add.1;a0.add.1;a0.add.1;a0.add.1;a0.add.1",
            "sp1;a0.ld;jn0|sp2;sp3;a0.add.1;jn0;jn1|a0.add.1;a0.add.1;a0.add.1;a0.add.1|yd;a0.add.2",
            "sp1;sp3;jn0;jn1|sp2;yd;jn0|sp3;a0.add.1;a0.add.1;a0.add.1;jn0|a0.add.1;yd;a0.add.1;yd;a0.add.1",
            "sp1;a0.add.1|sp2;a0.add.1;a0.add.1|sp3;a0.add.1;a0.add.1;a0.add.1|a0.add.1;a0.add.1;a0.add.1;a0.add.1;yd;yd"]
    for i in range(24 if tier == "quick" else 200):
        pc.append("twice urw %d 0 %d none a0 %s" % (rng.getrandbits(64), rng.choice([10, 16]), deep[i % len(deep)]))
        if i % 3 == 0:
            pc.append("twice random %d 0 8 none a0 %s" % (rng.getrandbits(64), deep[i % len(deep)]))
    po = ctx.run_impl("prog", pc)
    ctx.evaluations += len(pc)
    nsame = 0
    for c, o in zip(pc, po):
        if o.startswith("SAME"):
            nsame += 1
            if "multi=0" not in o:
                ctx.note_nontrivial(c)
        elif o.startswith("SKIP"):
            ctx.dist("programs.skipped_sticky_panicking", 1)
        else:
            nfail += 1
            if nfail <= 6:
                ctx.violation({"layer": "prog", "cases": [c], "implementation_answer": o[:1500],
                               "why": ("two runs of the same body from the same seed performed different executions" if c.startswith("twice") else
                                       "the seed reported for an iteration, given back with one iteration, did not reproduce that iteration")})
    ctx.log("programs: %d same-seed / reseed cases on the crate, %d consistent" % (len(pc), nsame))
    ctx.sample({"case": pc[0][:200], "impl": po[0][:200]})
    # uniformity witness: a long run of next_task on lists of length n from one fixed seed; a chi-square far beyond
    # anything a uniform choice produces (threshold 80 for at most 7 degrees of freedom: p < 1e-13) is reported with the
    # frequencies as the failing input.  (The theorem C10_choose_uniform is what establishes uniformity; this only turns a
    # broken correspondence into something a reader can replay.)
    ucases = []
    for nn in (2, 3, 5, 6, 7, 8):
        ucases.append("random %d 1 %s" % (12345 + nn, ",".join(["E"] + ["T%d" % nn] * 6000)))
    uo = ctx.run_impl("sched", ucases)
    ctx.evaluations += len(ucases)
    for c, o in zip(ucases, uo):
        nn = int(c.split("T")[1].split(",")[0])
        picks = [a for a in o.split(",") if a.startswith("t")]
        cnt = [0] * nn
        for a in picks:
            v = int(a[1:])
            if v < nn:
                cnt[v] += 1
        tot = sum(cnt)
        if tot:
            exp = tot / nn
            chi2 = sum((x - exp) ** 2 / exp for x in cnt)
            ctx.cov.setdefault("uniformity_chi2", {})[str(nn)] = round(chi2, 2)
            if chi2 > 80:
                nfail += 1
                ctx.violation({"layer": "sched", "cases": [c[:200] + "..."], "frequencies": cnt, "chi2": chi2,
                               "why": "RandomScheduler::next_task over %d offered tasks is far from uniform (6000 picks from seed %s)" % (nn, c.split(" ")[1])})
    # supporting measurement (not proof): frequency of chosen positions
    freq = {}
    for k, c in enumerate(cases):
        calls = c.split(" ")[3].split(",")
        ans = io[k].split(",")
        for cl, a in zip(calls, ans):
            if cl.startswith("T") and ":" not in cl and a.startswith("t"):
                nn = int(cl[1:])
                if nn in (2, 3, 5):
                    freq.setdefault(nn, {}).setdefault(a, 0)
                    freq[nn][a] += 1
    ctx.cov["chosen_position_frequencies_supporting_only"] = freq
    ctx.disagreements_checked = len(mism) + len(rmism)
    if mism or rmism:
        ex = [{"case": cases[i][:300], "model": mo[i][:300], "impl": io[i][:300]} for i in mism[:3]] + [{"case": rep_cases[i][:300], "model": rmo[i][:300], "impl": rio[i][:300]} for i in rmism[:3]]
        ctx.broken.append({"kind": "correspondence", "layer": "sched", "what": "Sched/Random.v (theorems C10_*) and random.rs / data/random.rs / rand / rand_pcg disagree on %d cases" % (len(mism) + len(rmism)), "examples": ex})
    ctx.cov["rule"] = ("call sequences on UrwRandomScheduler::new_from_seed (spawn trees of 1..6 tasks with real TaskSignatures built by new_parentless / new_child at three call sites; per execution a walk in which tasks appear in id order, finish and are offered in varying subsets; trial run, estimation with parent subsumption, weighted walks, budget; an eighth of the sessions unguided) compared answer by answer with Sched/Urw.v; "
                       "call sequences (new_execution / next_task over 1..64 offered tasks / next_u64) on RandomScheduler::new_from_seed for boundary and random seeds, "
                       "answers compared bit-exactly with the Coq model of Pcg64Mcg + rand 0.8 sampling; every iteration re-run from its reported seed; every case run twice")
    ctx.sample({"case": cases[0][:200], "impl": io[0][:200]})
    if rep_cases:
        ctx.sample({"case": rep_cases[0][:200], "expected": rep_expect[0][:200]})
    return ctx.finish()
