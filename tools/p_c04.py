"""C04 — Mutex, RwLock and atomics: mutual exclusion and atomic, SC updates."""
import gen_prog
from progcheck import run_prog_check

PROPS = ["Props/C04.v"]
RULE = ("C04: every completed operation of every generated program is replayed, in completion order, on plain abstract objects (a u64 cell per atomic, holder/readers per lock): "
        "atomic results must equal what std's AtomicU64 returns at that point, a lock is granted only when free, try_* fails only when not available (re-entrant try may fail), "
        "poison flags must match; a reported deadlock must be a deadlock of the abstract objects (C03 at the abstract level).")


def run(tier):
    feats = ("spawn", "join", "yield", "atomic", "atomic", "rand", "panic", "mutex", "rwlock", "condvar", "async", "sem")
    res = run_prog_check("C04", PROPS, tier, ["objects:C04:C03"], features=feats, n_quick=5000, n_thorough=80000, rule=RULE, focus=["mutex", "rwlock", "atomic", "mutex", "rwlock"], focus_n=(2500, 50000), exhaustive=["mutex", "rwlock", "atomic"], exh_n=(50, 500))
    if isinstance(res, int):
        return res
    ctx, cases, mo, io = res
    # the pure three-way check of atomic operations: model vs crate vs std on boundary operands is part of the prog layer
    # (AtomicU64 ops with boundary values); other integer types are covered by the theorem atomic_op_std only.
    ctx.assumptions.append("atomic types other than AtomicU64 are tied to the code by the theorem atomic_op_std (all widths, both signednesses) and the macro-generated Rust code being the same for every type; only AtomicU64 is run")
    return ctx.finish()
